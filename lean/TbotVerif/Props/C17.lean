import TbotVerif.Props.LogPrint
import TbotVerif.Props.LogParse
/-! C17 — log events are recorded completely; the log file parses back to the same events.

    Main theorem `C17.spec_holds`: the model satisfies `Spec.C17` for all well-formed cases.
    Corollaries in the form of DESIGN §4 C17 **T**: stored text = the normalised writes once,
    in order; printed text = the batch `render` of the stored text for every splitting into
    writes, nothing above the verbosity level; for every event list and every read size ≥ 1
    `logfile` yields exactly the events in closing order (given `DecoderSpec`). -/

namespace C17
open Log

/-! ## the printer, one call at a time -/

/-- the closing newline of `_print_stdout(last=True)` -/
def fin (last : Bool) (r : Str × Bool) : Str × Bool :=
  if last && !r.2 then (r.1 ++ ['\n'], true) else r

theorem printStdout_off (g : Glob) (last : Bool) (ev : Ev) (h : enabled g ev = false) :
    printStdout g last ev = (ev, []) := by
  simp [printStdout, h]

theorem printStdout_on (g : Glob) (last : Bool) (ev : Ev) (h : enabled g ev = true) :
    printStdout g last ev =
      ({ ev with cursor := ev.cursor + (ev.stored.drop ev.cursor).length,
                 nextline := (fin last (emit (linePrefix g ev) ev.nextline (ev.stored.drop ev.cursor))).2 },
       (fin last (emit (linePrefix g ev) ev.nextline (ev.stored.drop ev.cursor))).1) := by
  simp only [printStdout, h, Bool.not_true, Bool.false_eq_true, if_false, printFrags_split, fin]

theorem take_drop_glue (st s : Str) (c0 cur : Nat) (h0 : c0 ≤ cur) (h1 : cur ≤ st.length) :
    (st.take cur).drop c0 ++ (st ++ s).drop cur = (st ++ s).drop c0 := by
  rw [List.drop_append_of_le_length h1, List.drop_append_of_le_length (by omega), ← List.append_assoc]
  congr 1
  conv => rhs; rw [← List.take_append_drop cur st]
  rw [List.drop_append_of_le_length (by simp only [List.length_take]; omega)]

theorem write_open (g : Glob) (s : Str) (ev : Ev) (h : ev.closed = false) :
    write g s ev =
      (.wrote (normalise s).length,
       (printStdout g false { ev with stored := ev.stored ++ normalise s }).1,
       (printStdout g false { ev with stored := ev.stored ++ normalise s }).2) := by
  unfold write
  rw [if_neg (by simp [h])]

theorem setData_open (k : Str) (ev : Ev) (h : ev.closed = false) :
    setData k ev = (.unit, { ev with data := setKey k ev.stored ev.data }) := by
  unfold setData
  rw [if_neg (by simp [h])]

theorem close_open (g : Glob) (ev : Ev) (h : ev.closed = false) :
    close g ev =
      (.unit, { (printStdout g true ev).1 with closed := true }, (printStdout g true ev).2,
       if g.logOn then [⟨ev.ty, ev.data⟩] else []) := by
  unfold close
  rw [if_neg (by simp [h])]

/-! ## the invariant of an open event -/

/-- `st` = text stored so far, `pr` = text printed since construction, `data` = the data dict -/
structure Inv (c : EvCase) (st pr : Str) (data : List (Str × Str)) (ev : Ev) : Prop where
  stored : ev.stored = st
  isOpen : ev.closed = false
  pfx : ev.pfx = c.pfx1
  verb : ev.verbosity = c.verb1
  ty : ev.ty = c.ty
  data : ev.data = data
  c0 : cursor0 c ≤ ev.cursor
  cur : ev.cursor ≤ st.length
  on : en1 c = true →
    pr = (emit (linePfx1 c) true ((st.take ev.cursor).drop (cursor0 c))).1
    ∧ ev.nextline = (emit (linePfx1 c) true ((st.take ev.cursor).drop (cursor0 c))).2
  off : en1 c = false → pr = []

theorem enabled_eq {c : EvCase} {ev : Ev} (h : ev.verbosity = c.verb1) : enabled c.g ev = en1 c := by
  simp [enabled, en1, h]

theorem linePrefix_eq {c : EvCase} {ev : Ev} (h : ev.pfx = c.pfx1) : linePrefix c.g ev = linePfx1 c := by
  simp [linePrefix, linePfx1, h]

theorem expBody_on (c : EvCase) (st : Str) (closed : Bool) (h : en1 c = true) :
    expBody c st closed =
      (fin closed (emit (linePfx1 c) true (st.drop (cursor0 c)))).1 := by
  simp only [expBody, h, if_true, fin, render_eq_emit', openEnd_eq (linePfx1 c)]
  cases closed <;> simp
  split <;> simp_all

theorem expBody_off (c : EvCase) (st : Str) (closed : Bool) (h : en1 c = false) :
    expBody c st closed = [] := by
  simp [expBody, h]

/-- one `write` on an open event: return value, printed text so far is the batch rendering
    of the stored text so far, invariant re-established -/
theorem write_step (c : EvCase) (st pr : Str) (data : List (Str × Str)) (ev : Ev) (s : Str)
    (I : Inv c st pr data ev) :
    (write c.g s ev).1 = .wrote (normalise s).length
    ∧ pr ++ (write c.g s ev).2.2 = expBody c (st ++ normalise s) false
    ∧ Inv c (st ++ normalise s) (pr ++ (write c.g s ev).2.2) data (write c.g s ev).2.1 := by
  have hopen := I.isOpen
  rw [write_open _ _ _ hopen]
  cases hen : en1 c with
  | false =>
    have he : enabled c.g { ev with stored := ev.stored ++ normalise s } = false := by
      rw [← hen]; exact enabled_eq I.verb
    rw [printStdout_off _ _ _ he]
    have hpr := I.off hen
    refine ⟨rfl, by simp [hpr, expBody_off c _ _ hen], ?_⟩
    exact { stored := by simp [I.stored], isOpen := hopen, pfx := I.pfx, verb := I.verb, ty := I.ty,
            data := I.data, c0 := I.c0,
            cur := (by have := I.cur; simp only [List.length_append]; omega),
            on := fun h => (by rw [hen] at h; cases h),
            off := fun _ => (by simp [hpr]) }
  | true =>
    have he : enabled c.g { ev with stored := ev.stored ++ normalise s } = true := by
      rw [← hen]; exact enabled_eq I.verb
    have hlp : linePrefix c.g { ev with stored := ev.stored ++ normalise s } = linePfx1 c :=
      linePrefix_eq I.pfx
    obtain ⟨hpr, hnl⟩ := I.on hen
    have hcur := I.cur
    have hc0 := I.c0
    have hglue := take_drop_glue st (normalise s) (cursor0 c) ev.cursor hc0 hcur
    rw [printStdout_on _ _ _ he, hlp]
    simp only [fin, Bool.false_and, Bool.false_eq_true, if_false, I.stored]
    have hem := emit_append (linePfx1 c) ((st.take ev.cursor).drop (cursor0 c))
      ((st ++ normalise s).drop ev.cursor) true
    rw [hglue] at hem
    have hout : pr ++ (emit (linePfx1 c) ev.nextline ((st ++ normalise s).drop ev.cursor)).1
        = (emit (linePfx1 c) true ((st ++ normalise s).drop (cursor0 c))).1 := by
      rw [hem, hpr, hnl]
    have hlen : ev.cursor + ((st ++ normalise s).drop ev.cursor).length = (st ++ normalise s).length := by
      simp only [List.length_drop, List.length_append] at *; omega
    refine ⟨by first | rfl | trivial, ?_, ?_⟩
    · rw [expBody_on c _ _ hen]; simpa [fin] using hout
    · exact { stored := rfl, isOpen := hopen, pfx := I.pfx, verb := I.verb, ty := I.ty,
              data := I.data,
              c0 := (by simp only [hlen]; simp only [List.length_append]; omega),
              cur := (by simp only [hlen]; exact Nat.le_refl _),
              on := fun _ => (by
                simp only [hlen, List.take_length]
                refine ⟨hout, ?_⟩
                rw [hem, hnl]),
              off := fun h => (by rw [hen] at h; cases h) }

theorem setData_step (c : EvCase) (st pr : Str) (data : List (Str × Str)) (ev : Ev) (k : Str)
    (I : Inv c st pr data ev) :
    (setData k ev).1 = .unit ∧ Inv c st pr (setKey k st data) (setData k ev).2 := by
  have hopen := I.isOpen
  rw [setData_open _ _ hopen]
  refine ⟨by trivial, ?_⟩
  exact { stored := I.stored, isOpen := hopen, pfx := I.pfx, verb := I.verb, ty := I.ty,
          data := (by simp [I.stored, I.data]), c0 := I.c0, cur := I.cur, on := I.on, off := I.off }

theorem close_step (c : EvCase) (st pr : Str) (data : List (Str × Str)) (ev : Ev)
    (I : Inv c st pr data ev) :
    (close c.g ev).1 = .unit
    ∧ pr ++ (close c.g ev).2.2.1 = expBody c st true
    ∧ (close c.g ev).2.1.stored = st ∧ (close c.g ev).2.1.closed = true
    ∧ (close c.g ev).2.2.2 = (if c.g.logOn then [⟨c.ty, data⟩] else []) := by
  have hopen := I.isOpen
  rw [close_open _ _ hopen]
  cases hen : en1 c with
  | false =>
    have he : enabled c.g ev = false := by rw [← hen]; exact enabled_eq I.verb
    rw [printStdout_off _ _ _ he]
    refine ⟨rfl, by simp [I.off hen, expBody_off c _ _ hen], I.stored, rfl, ?_⟩
    simp [I.ty, I.data]
  | true =>
    have he : enabled c.g ev = true := by rw [← hen]; exact enabled_eq I.verb
    obtain ⟨hpr, hnl⟩ := I.on hen
    have hglue := take_drop_glue st [] (cursor0 c) ev.cursor I.c0 I.cur
    simp only [List.append_nil] at hglue
    rw [printStdout_on _ _ _ he, linePrefix_eq I.pfx, I.stored]
    have hem := emit_append (linePfx1 c) ((st.take ev.cursor).drop (cursor0 c)) (st.drop ev.cursor) true
    rw [hglue] at hem
    refine ⟨rfl, ?_, rfl, rfl, ?_⟩
    · rw [expBody_on c _ _ hen, hem, ← hpr, ← hnl]
      simp only [fin]
      split <;> simp
    · simp [I.ty, I.data]

/-- calls on a closed event -/
theorem steps_dead (g : Glob) : ∀ (ops : List Op) (ev : Ev), ev.closed = true →
    steps g ev ops = (ops.map (fun _ => (Res.closedErr, [])), ev, []) := by
  intro ops
  induction ops with
  | nil => intro ev _; rfl
  | cons op ops ih =>
    intro ev h
    have hs : step g ev op = (.closedErr, ev, [], []) := by
      cases op <;> simp [step, write, writeln, setData, close, h]
    simp [steps, hs, ih ev h]

theorem specDead_map : ∀ (ops : List Op), specDead ops (ops.map (fun _ => (Res.closedErr, []))) = true := by
  intro ops
  induction ops with
  | nil => rfl
  | cons op ops ih => simp [specDead, ih]

/-- the calls on the open event satisfy the step-by-step specification -/
theorem specLive_steps (c : EvCase) : ∀ (ops : List Op) (st pr : Str) (data : List (Str × Str)) (ev : Ev)
    (o : EvObs), Inv c st pr data ev →
    o.stored = (steps c.g ev ops).2.1.stored → o.docs = (steps c.g ev ops).2.2 →
    specLive c o st pr data ops (steps c.g ev ops).1 = true := by
  intro ops
  induction ops with
  | nil =>
    intro st pr data ev o I hs hd
    have hnil : steps c.g ev [] = ([], ev, []) := rfl
    rw [hnil] at hs hd ⊢
    simp [specLive, hs, hd, I.stored]
  | cons op ops ih =>
    intro st pr data ev o I hs hd
    cases op with
    | write s =>
      obtain ⟨h1, h2, h3⟩ := write_step c st pr data ev s I
      simp only [steps, step] at hs hd ⊢
      simp only [List.nil_append] at hd
      simp only [specLive, h1, h2, BEq.rfl, Bool.true_and]
      rw [← h2]
      exact ih _ _ _ _ o h3 hs hd
    | writeln s =>
      obtain ⟨h1, h2, h3⟩ := write_step c st pr data ev (s ++ ['\n']) I
      simp only [steps, step, writeln] at hs hd ⊢
      simp only [List.nil_append] at hd
      simp only [specLive, h1, h2, BEq.rfl, Bool.true_and]
      rw [← h2]
      exact ih _ _ _ _ o h3 hs hd
    | setData k =>
      obtain ⟨h1, h2⟩ := setData_step c st pr data ev k I
      simp only [steps, step] at hs hd ⊢
      simp only [List.nil_append] at hd
      simp only [specLive, h1, BEq.rfl, Bool.true_and]
      exact ih _ _ _ _ o h2 hs hd
    | close =>
      obtain ⟨h1, h2, h3, h4, h5⟩ := close_step c st pr data ev I
      simp only [steps, step] at hs hd ⊢
      rw [steps_dead c.g ops _ h4] at hs hd ⊢
      simp only [List.append_nil] at hd
      simp only [specLive, h1, h2, hs, h3, hd, h5, BEq.rfl, Bool.true_and, specDead_map]

/-! ## the constructor -/

theorem stored0_endsLf_or_nil (c : EvCase) : stored0 c = [] ∨ EndsLf (stored0 c) := by
  unfold stored0
  cases (splitMsg c.msg).2 with
  | none => left; rfl
  | some r => right; exact normalise_endsLf _ ⟨r, rfl⟩

theorem emit_nl_stored0 (c : EvCase) (pfx : Str) : (emit pfx true (stored0 c)).2 = true := by
  rw [emit_nl]
  rcases stored0_endsLf_or_nil c with h | ⟨r, h⟩
  · rw [h]; rfl
  · rw [h]; simp [isSep]

/-- the event as `__init__` sets it up before printing anything -/
def ev0 (c : EvCase) : Ev := { verbosity := c.verb0, ty := c.ty, data := c.kw }

/-- the message line printed by `__init__` -/
def hdr0 (c : EvCase) : Str :=
  if en0 c then prefixOf c.g none (some (firstGlyph c)) ++ (splitMsg c.msg).1 ++ ['\n'] else []

theorem mk_eq (c : EvCase) :
    mk c.g c.ty c.msg c.verb0 c.nestFirst c.kw =
      (match (splitMsg c.msg).2 with
       | none => (ev0 c, hdr0 c)
       | some rest => ((write c.g (rest ++ ['\n']) (ev0 c)).2.1,
                       hdr0 c ++ (write c.g (rest ++ ['\n']) (ev0 c)).2.2)) := by
  simp only [mk, writeln, ev0, hdr0, firstGlyph, enabled, en0]
  rfl

/-- what `EventIO.__init__` prints and the state it leaves (after `ev.prefix = …`,
    `ev.verbosity = …`) -/
theorem mk_spec (c : EvCase) :
    (mk c.g c.ty c.msg c.verb0 c.nestFirst c.kw).2 = expHdr c
    ∧ Inv c (stored0 c) [] c.kw
        { (mk c.g c.ty c.msg c.verb0 c.nestFirst c.kw).1 with pfx := c.pfx1, verbosity := c.verb1 } := by
  have hInv : ∀ (ev : Ev), ev.stored = stored0 c → ev.closed = false → ev.ty = c.ty → ev.data = c.kw →
      ev.cursor = cursor0 c → ev.nextline = true →
      Inv c (stored0 c) [] c.kw { ev with pfx := c.pfx1, verbosity := c.verb1 } := by
    intro ev h1 h2 h3 h4 h5 h6
    exact { stored := h1, isOpen := h2, pfx := rfl, verb := rfl, ty := h3, data := h4,
            c0 := (by simp [h5]),
            cur := (by simp only [h5, cursor0]; split <;> simp),
            on := fun _ => (by simp [h5, h6, emit]),
            off := fun _ => rfl }
  rw [mk_eq]
  cases hm : (splitMsg c.msg).2 with
  | none =>
    have hst : stored0 c = [] := by simp [stored0, hm]
    constructor
    · simp [expHdr, hdr0, hst, render, linesKeep]
    · apply hInv
      · simp [hst, ev0]
      · rfl
      · rfl
      · rfl
      · simp [cursor0, hst, ev0]
      · rfl
  | some rest =>
    have hst : stored0 c = normalise (rest ++ ['\n']) := by simp [stored0, hm]
    have hopen : (ev0 c).closed = false := rfl
    simp only [write_open _ _ _ hopen]
    have hen' : enabled c.g { ev0 c with stored := (ev0 c).stored ++ normalise (rest ++ ['\n']) } = en0 c := by
      simp only [enabled, en0, ev0]
      rfl
    cases hen : en0 c with
    | false =>
      rw [hen] at hen'
      rw [printStdout_off _ _ _ hen']
      constructor
      · simp [expHdr, hdr0, hen]
      · apply hInv
        · simp [hst, ev0]
        · rfl
        · rfl
        · rfl
        · simp [cursor0, hen, ev0]
        · rfl
    | true =>
      rw [hen] at hen'
      rw [printStdout_on _ _ _ hen']
      have hnl := emit_nl_stored0 c (linePfx0 c)
      rw [hst] at hnl
      have hlp : linePrefix c.g { ev0 c with stored := (ev0 c).stored ++ normalise (rest ++ ['\n']) }
          = linePfx0 c := by simp [linePrefix, linePfx0, ev0]
      rw [hlp]
      have hs0 : (ev0 c).stored ++ normalise (rest ++ ['\n']) = normalise (rest ++ ['\n']) := by
        simp [ev0]
      constructor
      · simp only [expHdr, hdr0, hen, if_true, fin, Bool.false_and, Bool.false_eq_true, if_false,
          render_eq_emit', hst, hs0]
        simp [ev0]
      · apply hInv
        · simp [hst, ev0]
        · rfl
        · rfl
        · rfl
        · simp [cursor0, hen, hst, ev0]
        · simp only [fin, Bool.false_and, Bool.false_eq_true, if_false, hs0]
          simpa [ev0] using hnl

/-! ## main theorem -/

/-- the framing codec of the driver satisfies the decoder specification -/
theorem frame_decoderSpec : DecoderSpec frameSpace frameEnc frameDecode := frame_decoderSpec'

/-- The model satisfies C17 for every well-formed case: every `EventIO` scenario (all
    settings, every text, every splitting into calls) and every log file (all event lists,
    all read sizes ≥ 1). -/
theorem spec_holds (c : Case) (h : wellformed c) : Spec.C17 c (run c) = true := by
  cases c with
  | ev c =>
    obtain ⟨h1, h2⟩ := mk_spec c
    simp only [run, Spec.C17, specEv, runEv, h1, BEq.rfl, Bool.true_and]
    exact specLive_steps c c.ops _ _ _ _ _ h2 rfl rfl
  | pf c =>
    obtain ⟨hn, _⟩ := h
    have := (logfile_spec frame_decoderSpec [FTok.sp] (by simp [frameSpace])
      (c.docs.map (fun d => (d.1, d.2 - 1))) c.n hn).1
    simp [run, Spec.C17, specPf, runPf, this, Function.comp_def]

/-! ## corollaries in the form of DESIGN §4 C17 **T** -/

/-- a sequence of `write` calls -/
def writes (ws : List Str) : List Op := ws.map Op.write

/-- everything the calls printed, in order -/
def printed (rs : List (Res × Str)) : Str := (rs.map (·.2)).flatten

theorem printStdout_frame (g : Glob) (last : Bool) (ev : Ev) :
    (printStdout g last ev).1.stored = ev.stored ∧ (printStdout g last ev).1.closed = ev.closed
    ∧ (printStdout g last ev).1.verbosity = ev.verbosity ∧ (printStdout g last ev).1.pfx = ev.pfx := by
  cases h : enabled g ev with
  | false => rw [printStdout_off _ _ _ h]; exact ⟨rfl, rfl, rfl, rfl⟩
  | true => rw [printStdout_on _ _ _ h]; exact ⟨rfl, rfl, rfl, rfl⟩

/-- **Stored once, in order.**  For every sequence of writes on an open event the stored
    text is the concatenation of the normalised writes (whatever the verbosity). -/
theorem stored_is_concat (g : Glob) : ∀ (ws : List Str) (ev : Ev), ev.closed = false →
    (steps g ev (writes ws)).2.1.stored = ev.stored ++ (ws.map normalise).flatten := by
  intro ws
  induction ws with
  | nil => intro ev _; simp [writes, steps]
  | cons w ws ih =>
    intro ev h
    obtain ⟨h1, h2, _, _⟩ := printStdout_frame g false { ev with stored := ev.stored ++ normalise w }
    simp only [writes, List.map_cons, steps, step, write_open _ _ _ h]
    have := ih (printStdout g false { ev with stored := ev.stored ++ normalise w }).1 (by rw [h2]; exact h)
    simp only [writes] at this
    rw [this, h1]
    simp

/-- writes on an enabled, open event whose output is up to date: the calls print exactly
    what the character-level printer prints for the new text -/
theorem steps_writes_on (g : Glob) : ∀ (ws : List Str) (ev : Ev), ev.closed = false →
    enabled g ev = true → ev.cursor = ev.stored.length →
    printed (steps g ev (writes ws)).1 = (emit (linePrefix g ev) ev.nextline (ws.map normalise).flatten).1
    ∧ (steps g ev (writes ws)).2.1.nextline = (emit (linePrefix g ev) ev.nextline (ws.map normalise).flatten).2
    ∧ (steps g ev (writes ws)).2.1.cursor = (steps g ev (writes ws)).2.1.stored.length
    ∧ (steps g ev (writes ws)).2.1.closed = false
    ∧ enabled g (steps g ev (writes ws)).2.1 = true
    ∧ linePrefix g (steps g ev (writes ws)).2.1 = linePrefix g ev := by
  intro ws
  induction ws with
  | nil => intro ev h1 h2 h3; simp [writes, steps, printed, emit, h1, h2, h3]
  | cons w ws ih =>
    intro ev h1 h2 h3
    have he : enabled g { ev with stored := ev.stored ++ normalise w } = true := h2
    have hdrop : (ev.stored ++ normalise w).drop ev.cursor = normalise w := by rw [h3]; simp
    simp only [writes, List.map_cons, steps, step, write_open _ _ _ h1, printStdout_on _ _ _ he,
      fin, Bool.false_and, Bool.false_eq_true, if_false, hdrop, List.flatten_cons]
    have hlp : linePrefix g { ev with stored := ev.stored ++ normalise w } = linePrefix g ev := rfl
    rw [hlp]
    obtain ⟨i1, i2, i3, i4, i5, i6⟩ := ih
      { ev with stored := ev.stored ++ normalise w, cursor := ev.cursor + (normalise w).length,
                nextline := (emit (linePrefix g ev) ev.nextline (normalise w)).2 }
      h1 h2 (by simp [h3])
    simp only [writes] at i1 i2 i3 i4 i5 i6
    rw [emit_append]
    refine ⟨?_, ?_, i3, i4, i5, ?_⟩
    · simp only [printed, List.map_cons, List.flatten_cons] at i1 ⊢
      rw [i1]; rfl
    · rw [i2]; rfl
    · rw [i6]; rfl

/-- a freshly constructed, open event that has printed nothing yet -/
structure Fresh (ev : Ev) : Prop where
  isOpen : ev.closed = false
  stored : ev.stored = []
  cursor : ev.cursor = 0
  nextline : ev.nextline = true

/-- **Printed = batch rendering of what is stored**, for any sequence of write calls on an
    enabled event: each stored character once, the prefix at the start of every line. -/
theorem printed_is_render (g : Glob) (ev : Ev) (ws : List Str) (hf : Fresh ev)
    (hen : enabled g ev = true) :
    printed (steps g ev (writes ws)).1 = render (linePrefix g ev) (steps g ev (writes ws)).2.1.stored := by
  rw [stored_is_concat g ws ev hf.isOpen, hf.stored, List.nil_append, render_eq_emit']
  have := (steps_writes_on g ws ev hf.isOpen hen (by rw [hf.cursor, hf.stored]; rfl)).1
  rw [this, hf.nextline]

/-- … and `close` completes the last line: everything printed for the event is the rendering
    of the stored text plus a newline if the last line was left open -/
theorem printed_is_render_closed (g : Glob) (ev : Ev) (ws : List Str) (hf : Fresh ev)
    (hen : enabled g ev = true) :
    printed (steps g ev (writes ws ++ [Op.close])).1 =
      render (linePrefix g ev) ((ws.map normalise).flatten)
        ++ (if openEnd ((ws.map normalise).flatten) then ['\n'] else []) := by
  have hsplit : ∀ (ops1 ops2 : List Op) (e : Ev),
      (steps g e (ops1 ++ ops2)).1 = (steps g e ops1).1 ++ (steps g (steps g e ops1).2.1 ops2).1 := by
    intro ops1
    induction ops1 with
    | nil => intro ops2 e; rfl
    | cons op ops1 ih => intro ops2 e; simp [steps, ih]
  obtain ⟨h1, h2, h3, h4, h5, h6⟩ := steps_writes_on g ws ev hf.isOpen hen (by rw [hf.cursor, hf.stored]; rfl)
  rw [hsplit]
  simp only [printed, List.map_append, List.flatten_append] at h1 ⊢
  rw [h1, hf.nextline, render_eq_emit', openEnd_eq (linePrefix g ev)]
  congr 1
  simp only [steps, step, close_open _ _ h4, printStdout_on _ _ _ h5, h6, h3, List.drop_length, h2,
    hf.nextline, emit, fin]
  cases (emit (linePrefix g ev) true (List.map normalise ws).flatten).2 <;> simp

/-- **For every splitting of the text into writes that yields the same stored text** the
    printed text is the same. -/
theorem printed_independent_of_splitting (g : Glob) (ev : Ev) (ws₁ ws₂ : List Str) (hf : Fresh ev)
    (hen : enabled g ev = true)
    (h : (steps g ev (writes ws₁)).2.1.stored = (steps g ev (writes ws₂)).2.1.stored) :
    printed (steps g ev (writes ws₁)).1 = printed (steps g ev (writes ws₂)).1 := by
  rw [printed_is_render g ev ws₁ hf hen, printed_is_render g ev ws₂ hf hen, h]

theorem normalise_plain (s : Str) (hesc : esc ∉ s) (hcr : '\r' ∉ s) : normalise s = s :=
  normalise_plain' s hesc hcr

/-- Text without ESC and CR is stored verbatim and printed as its rendering, for *every*
    splitting of the text into writes. -/
theorem plain_text_any_splitting (g : Glob) (ev : Ev) (ws : List Str) (hf : Fresh ev)
    (hen : enabled g ev = true) (hesc : esc ∉ ws.flatten) (hcr : '\r' ∉ ws.flatten) :
    (steps g ev (writes ws)).2.1.stored = ws.flatten
    ∧ printed (steps g ev (writes ws)).1 = render (linePrefix g ev) ws.flatten := by
  have hmap : (ws.map normalise).flatten = ws.flatten := by
    congr 1
    have : ws.map normalise = ws.map id := by
      apply List.map_congr_left
      intro w hw
      exact normalise_plain w (fun h => hesc (List.mem_flatten.mpr ⟨w, hw, h⟩))
        (fun h => hcr (List.mem_flatten.mpr ⟨w, hw, h⟩))
    rw [this, List.map_id]
  have hst := stored_is_concat g ws ev hf.isOpen
  rw [hf.stored, List.nil_append, hmap] at hst
  exact ⟨hst, by rw [printed_is_render g ev ws hf hen, hst]⟩

theorem step_verbosity (g : Glob) (ev : Ev) (op : Op) : (step g ev op).2.1.verbosity = ev.verbosity := by
  cases hc : ev.closed with
  | true => cases op <;> simp [step, write, writeln, setData, close, hc]
  | false =>
    cases op with
    | write s => simp only [step, write_open _ _ _ hc]; exact (printStdout_frame g false _).2.2.1
    | writeln s => simp only [step, writeln, write_open _ _ _ hc]; exact (printStdout_frame g false _).2.2.1
    | setData k => simp only [step, setData_open _ _ hc]
    | close => simp only [step, close_open _ _ hc]; exact (printStdout_frame g true _).2.2.1

/-- **Nothing is printed for events above the verbosity level**, whatever is called. -/
theorem nothing_printed_above_level (g : Glob) : ∀ (ops : List Op) (ev : Ev), enabled g ev = false →
    ∀ r ∈ (steps g ev ops).1, r.2 = [] := by
  intro ops
  induction ops with
  | nil => intro ev _ r hr; simp [steps] at hr
  | cons op ops ih =>
    intro ev hen r hr
    simp only [steps, List.mem_cons] at hr
    rcases hr with hr | hr
    · subst hr
      cases hc : ev.closed with
      | true => cases op <;> simp [step, write, writeln, setData, close, hc]
      | false =>
        cases op with
        | write s =>
          have he : enabled g { ev with stored := ev.stored ++ normalise s } = false := hen
          simp [step, write_open _ _ _ hc, printStdout_off _ _ _ he]
        | writeln s =>
          have he : enabled g { ev with stored := ev.stored ++ normalise (s ++ ['\n']) } = false := hen
          simp [step, writeln, write_open _ _ _ hc, printStdout_off _ _ _ he]
        | setData k => simp [step, setData_open _ _ hc]
        | close => simp [step, close_open _ _ hc, printStdout_off _ _ _ hen]
    · apply ih (step g ev op).2.1 _ r hr
      have := step_verbosity g ev op
      simp only [enabled] at hen ⊢
      rw [this]; exact hen

/-- the fragment loop of `_print_stdout` over the `re.split` fragments computes the batch
    `render` (from a line start) -/
theorem render_eq_emit (pfx s : Str) : (printFrags pfx true (splitFrags s)).1 = render pfx s := by
  rw [printFrags_split, render_eq_emit']

/-! ### the parser -/

/-- **For every event list and every read size ≥ 1 `logfile` yields exactly the events, in
    closing order** — for any codec satisfying `DecoderSpec` and any white-space separator. -/
theorem logfile_yields {χ α : Type} {isSpace : χ → Bool} {enc : α → List χ}
    {rawDecode : List χ → Option (α × Nat)} (D : DecoderSpec isSpace enc rawDecode)
    (sep : List χ) (hsep : ∀ c ∈ sep, isSpace c = true) (es : List α) (n : Nat) (hn : 1 ≤ n) :
    (logfile isSpace rawDecode n (fileOf enc sep es)).1 = es :=
  (logfile_spec D sep hsep es n hn).1

/-- the model's fuel is never the reason for stopping -/
theorem logfile_no_fuel {χ α : Type} {isSpace : χ → Bool} {enc : α → List χ}
    {rawDecode : List χ → Option (α × Nat)} (D : DecoderSpec isSpace enc rawDecode)
    (sep : List χ) (hsep : ∀ c ∈ sep, isSpace c = true) (es : List α) (n : Nat) (hn : 1 ≤ n) :
    PStep.fuel ∉ (logfile isSpace rawDecode n (fileOf enc sep es)).2 :=
  (logfile_spec D sep hsep es n hn).2

/-- the file as tbot writes it (`json.dump(…)`, then `"\n"`) read with Python's `str.lstrip` -/
theorem logfile_yields_writer {α : Type} {enc : α → Str} {rawDecode : Str → Option (α × Nat)}
    (D : DecoderSpec pySpace enc rawDecode) (es : List α) (n : Nat) (hn : 1 ≤ n) :
    (logfile pySpace rawDecode n (fileOf enc ['\n'] es)).1 = es :=
  logfile_yields D ['\n'] (by simp; decide) es n hn

/-- `DecoderSpec` is satisfiable by a character-level codec whose payloads are arbitrary
    strings (quotes, backslashes, braces, white space, line feeds …) -/
theorem toy_decoderSpec : DecoderSpec pySpace toyEnc toyDecode := toy_decoderSpec'

/-- … so for that codec the round trip holds outright: any payloads, any read size ≥ 1 -/
theorem toy_logfile (payloads : List Str) (n : Nat) (hn : 1 ≤ n) :
    (logfile pySpace toyDecode n (fileOf toyEnc ['\n'] payloads)).1 = payloads :=
  logfile_yields_writer toy_decoderSpec payloads n hn

/-! ## non-vacuity -/

/-- a concrete event scenario: nesting 1, an escape sequence split over two writes (so it is
    *not* removed), a CR LF pair, close on an open line -/
def exEv : EvCase :=
  { g := { verbosity := 2, nesting := some 1, unicode := false, color := false, logOn := true },
    ty := ["cmd".toList], kw := [("cmd".toList, "ls".toList)], verb0 := 1, nestFirst := none,
    msg := "hi\nmore".toList, pfx1 := some " ## ".toList, verb1 := 2,
    ops := [.write ['a', esc], .write "[Hb\r\nc".toList, .setData "stdout".toList, .close] }

example : wellformed (.ev exEv) := trivial
example : (runEv exEv).stored = "more\na".toList ++ esc :: "[Hb\nc".toList := by decide +kernel
example : (runEv exEv).steps.map (·.2) =
    ["|   |  ## a".toList ++ [esc], "[Hb\n|   |  ## c".toList, [], ['\n']] := by decide +kernel
example : (runEv exEv).docs = [⟨["cmd".toList], [("cmd".toList, "ls".toList),
    ("stdout".toList, "more\na".toList ++ esc :: "[Hb\nc".toList)]⟩] := by decide +kernel

/-- a concrete log file: two documents of 5 and 9 characters read 4 characters at a time -/
def exPf : PfCase := { n := 4, docs := [(7, 5), (3, 9)] }

example : wellformed (.pf exPf) := by simp [wellformed, exPf]
example : (runPf exPf).yielded = [7, 3] := by decide +kernel
example : Fresh { verbosity := 1, ty := [], data := [] } := ⟨rfl, rfl, rfl, rfl⟩
example : toyDecode (toyEnc "a\"}\\{".toList ++ "\n{".toList) = some ("a\"}\\{".toList, 11) := by
  decide +kernel

/-- the Spec is not trivially true: it rejects a parser that loses an event … -/
example : Spec.C17 (.pf exPf) (.pf { yielded := [7], trace := [] }) = false := by decide +kernel
/-- … and a printer that prints a character twice -/
example : Spec.C17 (.ev { exEv with ops := [.write ['x']] })
    (.ev { (runEv { exEv with ops := [.write ['x']] }) with
            steps := [(.wrote 1, "|   |  ## xx".toList)] }) = false := by decide +kernel

/-- read size 0 is excluded for a reason: the real loop (and the model) then yields nothing -/
example : (runPf { n := 0, docs := [(1, 5)] }).yielded = [] := by decide +kernel

end C17
