import TbotVerif.Props.CtxBasic
set_option linter.unusedSimpArgs false
/-! The state invariant of the context model and its preservation by the atomic steps.

    `Inv B s`: `B` lists the classes that are *busy* — whose manager is in the middle of a
    `teardown` (machine already down, `_instance` still set) or of an `init` (`from_context`
    entering its prerequisites).  The recursion of the model only ever works on classes strictly
    below every busy class, because dependency requests go to smaller class numbers. -/
namespace Ctx

structure Inv (B : List Nat) (s : St) : Prop where
  /-- objects that have not been created are blank -/
  objDefault : ∀ o, s.nObj ≤ o → s.objs o = {}
  /-- the log's "up" set is the set of objects whose connector is entered -/
  upsIff : ∀ c o, (c, o) ∈ ups s.trace ↔ (o < s.nObj ∧ (s.objs o).cls = c ∧ (s.objs o).up = true)
  seen : nSeen s.trace = s.nObj
  tI1 : always condInit s.trace = true
  tFresh : always condFresh s.trace = true
  tDown : always condDown s.trace = true
  tYield : always condYield s.trace = true
  /-- open frames are bound to an existing object of their class -/
  frameWf : ∀ f ∈ s.open_, f.obj < s.nObj ∧ (s.objs f.obj).cls = f.cls ∧ f.id < s.nFrame
  idsNodup : IdsNodup s.open_
  /-- the frames held by a `from_context` generator are open and on smaller classes -/
  heldOpen : ∀ k, ∀ f ∈ (s.mgrs k).held, f ∈ s.open_ ∧ f.cls < k
  heldDisj : ∀ k k' f, f ∈ (s.mgrs k).held → f ∈ (s.mgrs k').held → k = k'
  heldNodup : ∀ k, (s.mgrs k).held.Nodup
  /-- an object that is up is the instance of its class's manager, and that class is not busy -/
  upInst : ∀ o, (s.objs o).up = true → (s.mgrs (s.objs o).cls).inst = some o ∧ (s.objs o).cls ∉ B
  instWf : ∀ k o, (s.mgrs k).inst = some o → o < s.nObj ∧ (s.objs o).cls = k
  /-- the instance of a manager that is not busy is up; its `_rc` is one (the `from_context`
      generator) plus the number of open frames bound to it -/
  instLive : ∀ k o, (s.mgrs k).inst = some o → k ∉ B →
    (s.objs o).up = true ∧ (s.objs o).rc = 1 + (cntObj o s.open_ : Int)
  instBusy : ∀ k o, (s.mgrs k).inst = some o → k ∈ B → (s.objs o).rc ≤ 0
  /-- objects that are not (any more) an instance never come back: `_rc ≤ 0` -/
  deadRc : ∀ o, o < s.nObj → (s.mgrs (s.objs o).cls).inst ≠ some o → (s.objs o).rc ≤ 0
  busyHeld : ∀ k ∈ B, (s.mgrs k).held = []
  deadHeld : ∀ k, (s.mgrs k).inst = none → (s.mgrs k).held = []
  /-- `_current_users` counts the open frames of the class -/
  users : ∀ k, (s.mgrs k).users = cntCls k s.open_

/-- `s'` differs from `s` only in fields the invariant does not read and in additional log
    entries that are irrelevant for I1–I3 -/
structure Ext (s s' : St) : Prop where
  objs : s'.objs = s.objs
  nObj : s'.nObj = s.nObj
  mgrs : s'.mgrs = s.mgrs
  nFrame : s'.nFrame = s.nFrame
  open_ : s'.open_ = s.open_
  trace : ∃ evs : List Ev, (∀ e ∈ evs, e.quiet = true) ∧ s'.trace = evs ++ s.trace

theorem Ext.refl (s : St) : Ext s s := ⟨rfl, rfl, rfl, rfl, rfl, [], by simp, by simp⟩

theorem Ext.trans {a b c : St} (h1 : Ext a b) (h2 : Ext b c) : Ext a c := by
  obtain ⟨e1, q1, t1⟩ := h1.trace
  obtain ⟨e2, q2, t2⟩ := h2.trace
  refine ⟨h2.objs.trans h1.objs, h2.nObj.trans h1.nObj, h2.mgrs.trans h1.mgrs,
    h2.nFrame.trans h1.nFrame, h2.open_.trans h1.open_, e2 ++ e1, ?_, ?_⟩
  · intro e he
    rcases List.mem_append.mp he with h | h
    · exact q2 e h
    · exact q1 e h
  · rw [t2, t1, List.append_assoc]

theorem ups_quiet_append {evs : List Ev} (h : ∀ e ∈ evs, e.quiet = true) (t : List Ev) :
    ups (evs ++ t) = ups t := by
  induction evs with
  | nil => rfl
  | cons e es ih =>
    rw [List.cons_append, ups_quiet (h e (by simp)), ih (fun e he => h e (by simp [he]))]

theorem nSeen_quiet_append {evs : List Ev} (h : ∀ e ∈ evs, e.quiet = true) (t : List Ev) :
    nSeen (evs ++ t) = nSeen t := by
  induction evs with
  | nil => rfl
  | cons e es ih =>
    rw [List.cons_append, nSeen_quiet (h e (by simp)), ih (fun e he => h e (by simp [he]))]

theorem always_quiet_append {cond : List Ev → Ev → Bool}
    (hc : ∀ e t, e.quiet = true → cond t e = true)
    {evs : List Ev} (h : ∀ e ∈ evs, e.quiet = true) (t : List Ev) :
    always cond (evs ++ t) = always cond t := by
  induction evs with
  | nil => rfl
  | cons e es ih =>
    rw [List.cons_append, always_cons, hc e _ (h e (by simp)), ih (fun e he => h e (by simp [he]))]
    simp

theorem Inv.ext {B : List Nat} {s s' : St} (h : Inv B s) (x : Ext s s') : Inv B s' := by
  obtain ⟨evs, hq, ht⟩ := x.trace
  have hu : ups s'.trace = ups s.trace := by rw [ht, ups_quiet_append hq]
  have hn : nSeen s'.trace = nSeen s.trace := by rw [ht, nSeen_quiet_append hq]
  constructor
  · rw [x.objs, x.nObj]; exact h.objDefault
  · rw [hu, x.objs, x.nObj]; exact h.upsIff
  · rw [hn, x.nObj]; exact h.seen
  · rw [ht, always_quiet_append (fun e t he => condInit_quiet he t) hq]; exact h.tI1
  · rw [ht, always_quiet_append (fun e t he => condFresh_quiet he t) hq]; exact h.tFresh
  · rw [ht, always_quiet_append (fun e t he => condDown_quiet he t) hq]; exact h.tDown
  · rw [ht, always_quiet_append (fun e t he => condYield_quiet he t) hq]; exact h.tYield
  · rw [x.open_, x.objs, x.nObj, x.nFrame]; exact h.frameWf
  · rw [x.open_]; exact h.idsNodup
  · rw [x.open_, x.mgrs]; exact h.heldOpen
  · rw [x.mgrs]; exact h.heldDisj
  · rw [x.mgrs]; exact h.heldNodup
  · rw [x.objs, x.mgrs]; exact h.upInst
  · rw [x.objs, x.mgrs, x.nObj]; exact h.instWf
  · rw [x.objs, x.mgrs, x.open_]; exact h.instLive
  · rw [x.objs, x.mgrs]; exact h.instBusy
  · rw [x.objs, x.mgrs, x.nObj]; exact h.deadRc
  · rw [x.mgrs]; exact h.busyHeld
  · rw [x.mgrs]; exact h.deadHeld
  · rw [x.mgrs, x.open_]; exact h.users

/-- a class without instance can be marked busy -/
theorem Inv.busy {B : List Nat} {s : St} (h : Inv B s) {c : Nat} (hc : (s.mgrs c).inst = none) :
    Inv (c :: B) s := by
  refine { h with upInst := ?_, instLive := ?_, instBusy := ?_, busyHeld := ?_ }
  · intro o ho
    obtain ⟨h1, h2⟩ := h.upInst o ho
    refine ⟨h1, ?_⟩
    intro hm
    rcases List.mem_cons.mp hm with heq | hm
    · rw [heq, hc] at h1; cases h1
    · exact h2 hm
  · intro k o hi hk
    exact h.instLive k o hi (fun hm => hk (List.mem_cons_of_mem _ hm))
  · intro k o hi hk
    rcases List.mem_cons.mp hk with heq | hm
    · subst heq; rw [hc] at hi; cases hi
    · exact h.instBusy k o hi hm
  · intro k hk
    rcases List.mem_cons.mp hk with heq | hm
    · subst heq; exact h.deadHeld k hc
    · exact h.busyHeld k hm

/-- a busy class without instance is not busy any more -/
theorem Inv.unbusy {B : List Nat} {s : St} {c : Nat} (h : Inv (c :: B) s)
    (hc : (s.mgrs c).inst = none) : Inv B s := by
  refine { h with upInst := ?_, instLive := ?_, instBusy := ?_, busyHeld := ?_ }
  · intro o ho
    obtain ⟨h1, h2⟩ := h.upInst o ho
    exact ⟨h1, fun hm => h2 (List.mem_cons_of_mem _ hm)⟩
  · intro k o hi hk
    apply h.instLive k o hi
    intro hm
    rcases List.mem_cons.mp hm with heq | hm
    · subst heq; rw [hc] at hi; cases hi
    · exact hk hm
  · intro k o hi hk
    exact h.instBusy k o hi (List.mem_cons_of_mem _ hk)
  · intro k hk
    exact h.busyHeld k (List.mem_cons_of_mem _ hk)

end Ctx
