import TbotVerif.Spec.Tc
/-! Lemmas about the testcase model (C16): what a tree *means* independently of any logging
    (`bodyHow`, `kidsEscape`), the run of the model expressed through it, and how the Spec's
    reader (`feed`) walks over the run of a subtree. -/
namespace Tc

/-! ## What happens in a tree — no log, no nesting counter

This is the intended meaning of the program: a testcase lets every exception of its body through
except the skip exception. -/

mutual
/-- How the body of a testcase ends: by the first exception a child lets escape past its guard,
    otherwise the way the node says. -/
def Node.bodyHow : Node → How
  | .mk _ _ _ kids fin => bodyEnds (kidsEscape kids) fin
/-- What gets out of a sequence of guarded calls. -/
def kidsEscape : List Node → Option Exc
  | [] => none
  | k :: ks =>
    match escapes k.bodyHow with
    | some e => if k.guard.catches e then kidsEscape ks else some e
    | none => kidsEscape ks
end

/-- What leaves a testcase. -/
def Node.escape (n : Node) : Option Exc := escapes n.bodyHow

/-- The `success` flag the end event carries for a body that ended like `h`. -/
def endSuccess (h : How) : Bool := h == none || h == some .skip

/-- The `skipped` flag the end event carries for a body that ended like `h`. -/
def endSkipped (h : How) : Bool := h == some .skip

/-- What the caller of a testcase is to get. -/
def Node.expectedRet (n : Node) : Ret :=
  match n.bodyHow with
  | none => if n.form = .ctx then .unit else .val n.name.id
  | some .skip => if n.form = .ctx then .unit else .none
  | some e => .exc e

/-- Does the sequence of calls continue after this child? -/
def Node.goesOn (k : Node) : Bool :=
  match k.escape with
  | some e => k.guard.catches e
  | none => true

theorem escapes_ne_skip (h : How) : escapes h ≠ some .skip := by
  cases h with
  | none => simp [escapes]
  | some e => cases e <;> simp [escapes]

theorem Node.escape_ne_skip (n : Node) : n.escape ≠ some .skip := escapes_ne_skip _

/-! ## tbot's pieces -/

theorem blockExit_items (n : Name) (nest : Int) (h : How) :
    (blockExit n nest h).items = [.end_ n (endSuccess h) (endSkipped h)] := by
  cases h with
  | none => rfl
  | some e => cases e <;> rfl

theorem blockExit_nest (n : Name) (nest : Int) (h : How) : (blockExit n nest h).nest = nest - 1 := by
  cases h with
  | none => rfl
  | some e => cases e <;> rfl

theorem blockExit_val (n : Name) (nest : Int) (h : How) : (blockExit n nest h).val = escapes h := by
  cases h with
  | none => rfl
  | some e => cases e <;> rfl

theorem callerSees_eq (form : Form) (id : Nat) (g : Catch) (kids : List Node) (fin : How) :
    callerSees form id (Node.mk form id g kids fin).bodyHow (escapes (Node.mk form id g kids fin).bodyHow)
      = (Node.mk form id g kids fin).expectedRet := by
  unfold Node.expectedRet
  generalize (Node.mk form id g kids fin).bodyHow = h
  cases h with
  | none => cases form <;> simp [callerSees, escapes, Node.form, Node.name]
  | some e => cases e <;> cases form <;> simp [callerSees, escapes, Node.form]

/-! ## The run, expressed through the meaning -/

theorem expectedRet_exc (k : Node) (e : Exc) : k.expectedRet = .exc e ↔ k.escape = some e := by
  unfold Node.expectedRet Node.escape
  cases k.bodyHow with
  | none => by_cases hf : k.form = .ctx <;> simp [escapes, hf]
  | some x => cases x <;> by_cases hf : k.form = .ctx <;> simp [escapes, hf] <;> exact eq_comm

/-- What gets past the guard of a call that behaves as it should. -/
theorem passes_expectedRet (k : Node) :
    k.guard.passes k.expectedRet = if k.goesOn then none else k.escape := by
  unfold Node.goesOn
  cases he : k.escape with
  | none =>
    have : ∀ e, k.expectedRet ≠ .exc e := by
      intro e h; rw [expectedRet_exc] at h; rw [he] at h; cases h
    cases hr : k.expectedRet with
    | exc e => exact absurd hr (this e)
    | val v => rfl
    | none => rfl
    | unit => rfl
  | some e =>
    have hr : k.expectedRet = .exc e := (expectedRet_exc k e).2 he
    rw [hr]
    by_cases hc : k.guard.catches e <;> simp [Catch.passes, hc]

theorem kidsEscape_cons (k : Node) (ks : List Node) :
    kidsEscape (k :: ks) = if k.goesOn then kidsEscape ks else k.escape := by
  rw [kidsEscape]
  unfold Node.goesOn Node.escape
  cases escapes k.bodyHow with
  | none => simp
  | some e => by_cases hc : k.guard.catches e <;> simp [hc]

mutual
theorem runNode_sem : ∀ (n : Node) (nest : Int),
    (runNode nest n).nest = nest ∧ (runNode nest n).val = n.expectedRet
  | .mk form id g kids fin, nest => by
    have hk := runKids_sem kids (nest + 1)
    have hb : (Node.mk form id g kids fin).bodyHow = bodyEnds (kidsEscape kids) fin := by
      rw [Node.bodyHow]
    constructor
    · simp only [runNode, testcaseBegin, blockExit_nest, hk.1]; omega
    · simp only [runNode, testcaseBegin, blockExit_val, hk.2]
      rw [← hb]
      exact callerSees_eq form id g kids fin
theorem runKids_sem : ∀ (ks : List Node) (nest : Int),
    (runKids nest ks).nest = nest ∧ (runKids nest ks).val = kidsEscape ks
  | [], nest => by simp [runKids, kidsEscape]
  | k :: ks, nest => by
    have h1 := runNode_sem k nest
    have h2 := runKids_sem ks nest
    rw [runKids, h1.1, h1.2, passes_expectedRet, kidsEscape_cons]
    by_cases hg : k.goesOn
    · simp [hg, h2]
    · simp only [hg, Bool.false_eq_true, if_false]
      cases he : k.escape with
      | none => simp [Node.goesOn, he] at hg
      | some e => simp
end

theorem runNode_nest (n : Node) (nest : Int) : (runNode nest n).nest = nest := (runNode_sem n nest).1
theorem runNode_val (n : Node) (nest : Int) : (runNode nest n).val = n.expectedRet := (runNode_sem n nest).2
theorem runKids_nest (ks : List Node) (nest : Int) : (runKids nest ks).nest = nest := (runKids_sem ks nest).1
theorem runKids_val (ks : List Node) (nest : Int) : (runKids nest ks).val = kidsEscape ks := (runKids_sem ks nest).2

/-- The log of one testcase call. -/
theorem runNode_items (form : Form) (id : Nat) (g : Catch) (kids : List Node) (fin : How) (nest : Int) :
    (runNode nest (.mk form id g kids fin)).items
      = [.begin ⟨form, id⟩, .enter ⟨form, id⟩ (nest + 1)] ++ (runKids (nest + 1) kids).items
        ++ [.body ⟨form, id⟩ (Node.mk form id g kids fin).bodyHow,
            .end_ ⟨form, id⟩ (endSuccess (Node.mk form id g kids fin).bodyHow)
              (endSkipped (Node.mk form id g kids fin).bodyHow)] := by
  have hb : (Node.mk form id g kids fin).bodyHow = bodyEnds (kidsEscape kids) fin := by
    rw [Node.bodyHow]
  simp only [runNode, testcaseBegin, blockExit_items, runKids_val, runKids_nest]
  rw [← hb]
  simp

/-- The log of a sequence of guarded calls. -/
theorem runKids_items_cons (k : Node) (ks : List Node) (nest : Int) :
    (runKids nest (k :: ks)).items
      = (runNode nest k).items ++ [.ret k.name k.expectedRet]
        ++ (if k.goesOn then (runKids nest ks).items else []) := by
  rw [runKids, runNode_nest, runNode_val, passes_expectedRet]
  by_cases hg : k.goesOn
  · simp [hg]
  · simp only [hg, Bool.false_eq_true, if_false]
    cases he : k.escape with
    | none => simp [Node.goesOn, he] at hg
    | some e => simp

end Tc
