import TbotVerif.Props.Quote
/-! Lemmas about `_hush_quote` / `UBootShell.escape` and the hazard-rejecting hush tokenizer
    (quoting part of C19).  Headline theorems: `Props/C19Q.lean`. -/

namespace Hush
open Quote (SQ DQ SP joinSp segCheck Atom Good forbidden)

/-! ### Facts about the regenerated tables -/

/-- TABLE FACT: every byte `_hush_quote` leaves unquoted — hence every byte the tokenizer accepts
    outside single quotes — is an ASCII letter, digit or one of `% + , - . / : = @ _`, none of
    which hush's `parse_stream` maps to a special class. -/
theorem hushSafe_plain : Params.hushSafe.all Quote.posixPlain = true := by decide

/-- TABLE FACT: the empty string is rendered as `""` -/
theorem hushEmpty_eq : Params.hushEmpty = [DQ, DQ] := by decide

/-- TABLE FACT: every non-ASCII character makes `_hush_quote` quote (all 128 Latin-1 ones and probes) -/
theorem hushNonAsciiQuoted : Params.hushNonAsciiQuoted = true := by decide

theorem safeByte_plain {c : Byte} (h : safeByte c = true) : Quote.posixPlain c.toNat = true := by
  unfold safeByte at h
  exact List.all_eq_true.mp hushSafe_plain c.toNat (by simpa using h)

theorem safe_plainByte {c : Byte} (h : safeByte c = true) : plainByte c = true := safeByte_plain h

theorem safe_ne_SP {c : Byte} (h : safeByte c = true) : (c == SP) = false :=
  Quote.byte_ne_of_toNat_ne (Quote.plain_facts (safeByte_plain h)).1
theorem safe_ne_SQ {c : Byte} (h : safeByte c = true) : (c == SQ) = false :=
  Quote.byte_ne_of_toNat_ne (Quote.plain_facts (safeByte_plain h)).2.2.2.2.1
theorem safe_ne_DQ {c : Byte} (h : safeByte c = true) : (c == DQ) = false :=
  Quote.byte_ne_of_toNat_ne (Quote.plain_facts (safeByte_plain h)).2.2.2.2.2.1
theorem safe_ne_BS {c : Byte} (h : safeByte c = true) : (c == BS) = false :=
  Quote.byte_ne_of_toNat_ne (Quote.plain_facts (safeByte_plain h)).2.2.2.2.2.2.1

theorem safe_printable {c : Byte} (h : safeByte c = true) : printable c = true := by
  have := Quote.plain_facts (safeByte_plain h)
  have h1 : (32 : Byte) ≤ c := by rw [UInt8.le_iff_toNat_le]; have : (32 : Byte).toNat = 32 := rfl; omega
  have h2 : (c != 127) = true := by
    rw [bne_iff_ne]; intro e; subst e; have : (127 : Byte).toNat = 127 := rfl; omega
  simp [printable, h1, h2]

/-- the bytes hush gives a meaning to when unquoted are NOT safe: blank, `'`, `"`, backslash,
    `$`, `;`, `&`, `|`, `#`, tab, newline, CR, 0x03 (hush's variable marker), 0x00 -/
theorem hazards_not_safe :
    ([32, 39, 34, 92, 36, 59, 38, 124, 35, 9, 10, 13, 3, 0] : List Byte).all (fun c => !safeByte c) = true := by decide

@[simp] theorem SQ_printable : printable SQ = true := by decide
@[simp] theorem DQ_printable : printable DQ = true := by decide
@[simp] theorem BS_printable : printable BS = true := by decide
@[simp] theorem SP_printable : printable SP = true := by decide
@[simp] theorem BS_ne_SQ : (BS == SQ) = false := by decide
@[simp] theorem BS_ne_SP : (BS == SP) = false := by decide
@[simp] theorem BS_ne_DQ : (BS == DQ) = false := by decide
@[simp] theorem SQ_ne_BS : (SQ == BS) = false := by decide

/-! ### Backslash removal -/

/-- the raw bytes hush collects for the quoted form of `s`: `\` and `'` each preceded by `\` -/
def esc : Bytes → Bytes
  | [] => []
  | c :: cs => if c == BS || c == SQ then BS :: c :: esc cs else c :: esc cs

theorem unbs_cons_ne (c : Byte) (cs : Bytes) (h : (c == BS) = false) :
    unbs (c :: cs) = (unbs cs).map (c :: ·) := by
  cases cs with
  | nil => simp [unbs, h]
  | cons d ds => simp [unbs, h]

theorem unbs_bs_cons (d : Byte) (ds : Bytes) : unbs (BS :: d :: ds) = (unbs ds).map (d :: ·) := by
  simp [unbs]

theorem unbs_esc (s : Bytes) : unbs (esc s) = some s := by
  induction s with
  | nil => rfl
  | cons c cs ih =>
    unfold esc
    by_cases hb : c == BS
    · simp [hb, unbs_bs_cons, ih]
    · by_cases hq : c == SQ
      · simp [hq, unbs_bs_cons, ih]
      · have hb' : (c == BS) = false := by simpa using hb
        simp [hb, hq, unbs_cons_ne c _ hb', ih]

theorem unbs_safe (s : Bytes) (hs : s.all safeByte = true) : unbs s = some s := by
  induction s with
  | nil => rfl
  | cons c cs ih =>
    simp only [List.all_cons, Bool.and_eq_true] at hs
    rw [unbs_cons_ne c cs (safe_ne_BS hs.1), ih hs.2]; rfl

/-! ### The word reader on quoted text -/

theorem wordAux_safe (s : Bytes) (hs : s.all safeByte = true) (w rest : Bytes) :
    wordAux .U w (s ++ rest) = wordAux .U (w ++ s) rest := by
  induction s generalizing w with
  | nil => simp
  | cons c cs ih =>
    simp only [List.all_cons, Bool.and_eq_true] at hs
    simp only [List.cons_append, wordAux, safe_printable hs.1, safe_ne_SP hs.1, safe_ne_SQ hs.1, safe_ne_DQ hs.1,
      safe_ne_BS hs.1, safe_plainByte hs.1, Bool.not_true, Bool.false_eq_true, if_false, if_true]
    rw [ih hs.2]; simp

/-- inside single quotes the text `spliceQuote (dblBackslash s)` is collected as `esc s` -/
theorem wordAux_body (s : Bytes) (hp : s.all printable = true) (w rest : Bytes) :
    wordAux .S w (spliceQuote (dblBackslash s) ++ rest) = wordAux .S (w ++ esc s) rest := by
  induction s generalizing w with
  | nil => simp [dblBackslash, spliceQuote, esc]
  | cons c cs ih =>
    simp only [List.all_cons, Bool.and_eq_true] at hp
    by_cases hb : c == BS
    · have : c = BS := eq_of_beq hb
      subst this
      simp only [dblBackslash, beq_self_eq_true, if_true, spliceQuote, BS_ne_SQ, Bool.false_eq_true, if_false,
        List.cons_append, wordAux, BS_printable, Bool.not_true, esc, Bool.true_or]
      rw [ih hp.2]; simp
    · by_cases hq : c == SQ
      · have : c = SQ := eq_of_beq hq
        subst this
        simp only [dblBackslash, SQ_ne_BS, Bool.false_eq_true, if_false, spliceQuote, beq_self_eq_true, if_true,
          List.cons_append, wordAux, SQ_printable, BS_printable, Bool.not_true, BS_ne_SP, BS_ne_SQ, BS_ne_DQ,
          Quote.SQ_ne_SP, Quote.SQ_ne_DQ, esc, Bool.or_true]
        rw [ih hp.2]; simp
      · simp only [dblBackslash, hb, Bool.false_eq_true, if_false, spliceQuote, hq, List.cons_append, wordAux, hp.1,
          Bool.not_true, esc, Bool.or_self]
        rw [ih hp.2]; simp

theorem wordAux_quote_end (s : Bytes) (hp : s.all printable = true) :
    wordAux .U [] (hushQuote s) = some (s, none) := by
  unfold hushQuote
  by_cases he : s.isEmpty
  · have : s = [] := by simpa using he
    subst this
    simp [hushEmpty_eq, wordAux, unbs]
  · by_cases hs : s.all safeByte
    · have := wordAux_safe s hs [] []
      simp only [List.append_nil, List.nil_append] at this
      simp only [he, hs, Bool.false_eq_true, if_false, if_true, this, wordAux, unbs_safe s hs, Option.map_some]
    · have h := wordAux_body s hp [] [SQ]
      simp only [List.nil_append] at h
      simp only [he, hs, Bool.false_eq_true, if_false, wordAux, SQ_printable, Bool.not_true, Quote.SQ_ne_SP,
        beq_self_eq_true, if_true]
      simp [h, wordAux, unbs_esc]

theorem wordAux_quote_sp (s r : Bytes) (hp : s.all printable = true) :
    wordAux .U [] (hushQuote s ++ SP :: r) = some (s, some r) := by
  unfold hushQuote
  by_cases he : s.isEmpty
  · have : s = [] := by simpa using he
    subst this
    simp [hushEmpty_eq, wordAux, unbs]
  · by_cases hs : s.all safeByte
    · have := wordAux_safe s hs [] (SP :: r)
      simp only [List.nil_append] at this
      simp only [he, hs, Bool.false_eq_true, if_false, if_true, this, wordAux, SP_printable, Bool.not_true,
        beq_self_eq_true, unbs_safe s hs, Option.map_some]
    · have h := wordAux_body s hp [] (SQ :: SP :: r)
      simp only [List.nil_append] at h
      simp only [he, hs, Bool.false_eq_true, if_false, List.cons_append, List.append_assoc, List.nil_append, wordAux,
        SQ_printable, Bool.not_true, Quote.SQ_ne_SP, beq_self_eq_true, if_true, h, SP_printable, unbs_esc,
        Option.map_some]

/-- the quoted text is never empty and never starts with a blank -/
theorem hushQuote_head (s : Bytes) : ∃ c cs, hushQuote s = c :: cs ∧ (c == SP) = false := by
  unfold hushQuote
  by_cases he : s.isEmpty
  · exact ⟨DQ, [DQ], by simp [he, hushEmpty_eq], by decide⟩
  · by_cases hs : s.all safeByte
    · cases s with
      | nil => simp at he
      | cons c cs =>
        simp only [List.all_cons, Bool.and_eq_true] at hs
        exact ⟨c, cs, by simp [List.all_cons, hs.1, hs.2], safe_ne_SP hs.1⟩
    · exact ⟨SQ, spliceQuote (dblBackslash s) ++ [SQ], by simp [he, hs], by decide⟩

theorem firstWord_of_head {l : Bytes} (h : ∃ c cs, l = c :: cs ∧ (c == SP) = false) :
    firstWord l = wordAux .U [] l := by
  obtain ⟨c, cs, rfl, hc⟩ := h
  simp [firstWord, hc]

theorem firstWord_quote_end (s : Bytes) (hp : s.all printable = true) : firstWord (hushQuote s) = some (s, none) := by
  rw [firstWord_of_head (hushQuote_head s), wordAux_quote_end s hp]

theorem firstWord_quote_sp (s r : Bytes) (hp : s.all printable = true) :
    firstWord (hushQuote s ++ SP :: r) = some (s, some r) := by
  rw [firstWord_of_head, wordAux_quote_sp s r hp]
  obtain ⟨c, cs, h, hc⟩ := hushQuote_head s
  exact ⟨c, cs ++ SP :: r, by rw [h]; rfl, hc⟩

/-! ### `wordAux` and `split` agree -/

def after (acc : List Bytes) (x : Bytes) : Option Bytes → Option (List Bytes)
  | none => some ((x :: acc).reverse)
  | some r => split .U none (x :: acc) r

theorem split_of_wordAux (l : Bytes) : ∀ (q : HS) (w x : Bytes) (t : Option Bytes) (acc : List Bytes),
    wordAux q w l = some (x, t) → split q (some w) acc l = after acc x t := by
  induction l with
  | nil =>
    intro q w x t acc h
    cases q <;> simp [wordAux] at h
    obtain ⟨y, hy, rfl, rfl⟩ := h
    simp [split, done, hy, after]
  | cons c cs ih =>
    intro q w x t acc h
    cases q with
    | U =>
      simp only [wordAux] at h
      simp only [split, Option.getD_some]
      by_cases h0 : printable c
      · simp only [h0, Bool.not_true, Bool.false_eq_true, if_false] at h ⊢
        by_cases h1 : c == SP
        · simp only [h1, if_true, Option.map_eq_some_iff, Prod.mk.injEq] at h
          obtain ⟨y, hy, rfl, rfl⟩ := h
          simp [h1, done, hy, after]
        · simp only [h1, Bool.false_eq_true, if_false] at h ⊢
          by_cases h2 : c == SQ
          · simp only [h2, if_true] at h ⊢; exact ih _ _ _ _ _ h
          · simp only [h2, Bool.false_eq_true, if_false] at h ⊢
            by_cases h3 : c == DQ
            · simp only [h3, if_true] at h ⊢; exact ih _ _ _ _ _ h
            · simp only [h3, Bool.false_eq_true, if_false] at h ⊢
              by_cases h4 : c == BS
              · simp only [h4, if_true] at h ⊢; exact ih _ _ _ _ _ h
              · simp only [h4, Bool.false_eq_true, if_false] at h ⊢
                by_cases h5 : plainByte c
                · simp only [h5, if_true] at h ⊢; exact ih _ _ _ _ _ h
                · simp [h5] at h
      · simp [h0] at h
    | E =>
      simp only [wordAux] at h
      simp only [split, Option.getD_some]
      by_cases h0 : printable c
      · simp only [h0, Bool.not_true, Bool.false_eq_true, if_false] at h ⊢; exact ih _ _ _ _ _ h
      · simp [h0] at h
    | S =>
      simp only [wordAux] at h
      simp only [split, Option.getD_some]
      by_cases h0 : printable c
      · simp only [h0, Bool.not_true, Bool.false_eq_true, if_false] at h ⊢
        by_cases h1 : c == SQ
        · simp only [h1, if_true] at h ⊢; exact ih _ _ _ _ _ h
        · simp only [h1, Bool.false_eq_true, if_false] at h ⊢; exact ih _ _ _ _ _ h
      · simp [h0] at h
    | D =>
      simp only [wordAux] at h
      simp only [split, Option.getD_some]
      by_cases h1 : c == DQ
      · simp only [h1, if_true] at h ⊢; exact ih _ _ _ _ _ h
      · simp only [h1, Bool.false_eq_true, if_false] at h ⊢
        by_cases h2 : plainByte c
        · simp only [h2, if_true] at h ⊢; exact ih _ _ _ _ _ h
        · simp [h2] at h

theorem split_none_eq_some_nil (acc : List Bytes) (c : Byte) (cs : Bytes) (hc : (c == SP) = false) :
    split .U none acc (c :: cs) = split .U (some []) acc (c :: cs) := by
  simp [split, hc]

theorem split_of_firstWord {l x : Bytes} {t : Option Bytes} (acc : List Bytes)
    (h : firstWord l = some (x, t)) : split .U none acc l = after acc x t := by
  cases l with
  | nil => simp [firstWord] at h
  | cons c cs =>
    by_cases hc : c == SP
    · simp [firstWord, hc] at h
    · have hc' : (c == SP) = false := by simpa using hc
      simp only [firstWord, hc', Bool.false_eq_true, if_false] at h
      rw [split_none_eq_some_nil acc c cs hc']
      exact split_of_wordAux _ _ _ _ _ _ h

/-! ### hush's argument vector of `escape args` is `args` -/

theorem split_escape (args : List Bytes) (hp : ∀ a ∈ args, a.all printable = true) :
    ∀ acc, split .U none acc (escape args) = some (acc.reverse ++ args) := by
  induction args with
  | nil => intro acc; simp [escape, joinSp, split, done]
  | cons a rest ih =>
    intro acc
    have ha := hp a (by simp)
    have hrest : ∀ b ∈ rest, b.all printable = true := fun b hb => hp b (by simp [hb])
    cases rest with
    | nil =>
      simp only [escape, List.map, joinSp]
      rw [split_of_firstWord acc (firstWord_quote_end a ha)]
      simp [after]
    | cons b rest' =>
      have : escape (a :: b :: rest') = hushQuote a ++ SP :: escape (b :: rest') := by
        simp [escape, joinSp]
      rw [this, split_of_firstWord acc (firstWord_quote_sp a _ ha)]
      simp only [after]
      rw [ih hrest]; simp

/-! ### segment check -/

theorem good_arg (a : Arg) (hw : a.wf = true) (t : Bytes) (hr : a.render = some t) :
    Good firstWord a.atoms t := by
  cases a with
  | str s =>
    simp only [Arg.render, Option.some.injEq] at hr; subst hr
    simp only [Arg.wf] at hw
    refine ⟨by simp [Arg.atoms], by simp [Arg.atoms, segCheck, firstWord_quote_end s hw], ?_⟩
    intro B hB r
    cases B with
    | nil => exact absurd rfl hB
    | cons b bs => simp [Arg.atoms, segCheck, firstWord_quote_sp s r hw]
  | raw s =>
    simp only [Arg.render, Option.some.injEq] at hr; subst hr
    exact Quote.good_lit _ s
  | other => simp [Arg.render] at hr

theorem items_of_mapM : ∀ (args : List Arg) (ts : List Bytes), args.all Arg.wf = true → args.mapM Arg.render = some ts →
    ∃ items : List (List Atom × Bytes), items.map (·.2) = ts ∧ items.flatMap (·.1) = args.flatMap Arg.atoms
      ∧ ∀ i ∈ items, Good firstWord i.1 i.2 := by
  intro args
  induction args with
  | nil => intro ts _ h; simp at h; subst h; exact ⟨[], by simp⟩
  | cons a as ih =>
    intro ts hw h
    obtain ⟨y, ys', hy, hys, rfl⟩ := Quote.mapM_some_cons _ _ _ _ h
    simp only [List.all_cons, Bool.and_eq_true] at hw
    obtain ⟨items, h1, h2, h3⟩ := ih ys' hw.2 hys
    refine ⟨(a.atoms, y) :: items, by simp [h1], by simp [h2], ?_⟩
    intro i hi
    simp only [List.mem_cons] at hi
    rcases hi with rfl | hi
    · exact good_arg a hw.1 y hy
    · exact h3 i hi

theorem segCheck_escapeArgs (args : List Arg) (l : Bytes) (hw : args.all Arg.wf = true)
    (h : escapeArgs args = some l) : segCheck firstWord (args.flatMap Arg.atoms) l = true := by
  unfold escapeArgs at h
  cases hm : args.mapM Arg.render with
  | none => simp [hm] at h
  | some ts =>
    simp only [hm, Option.map_some, Option.some.injEq] at h
    obtain ⟨items, h1, h2, h3⟩ := items_of_mapM args ts hw hm
    rw [← h, ← h1, ← h2]
    exact Quote.segCheck_join firstWord items h3

/-! ### counts, CR/LF, black-lists -/

theorem count_dblBackslash (c : Byte) (h : c ≠ BS) (s : Bytes) : (dblBackslash s).count c = s.count c := by
  have e : (BS == c) = false := by simpa using fun h' => h h'.symm
  induction s with
  | nil => rfl
  | cons d ds ih =>
    unfold dblBackslash
    by_cases hd : d == BS
    · have : d = BS := eq_of_beq hd
      subst this
      simp [List.count_cons, e, ih]
    · simp [hd, List.count_cons, ih]

theorem count_spliceQuote (c : Byte) (h1 : c ≠ BS) (h2 : c ≠ SQ) (s : Bytes) : (spliceQuote s).count c = s.count c := by
  have e1 : (BS == c) = false := by simpa using fun h' => h1 h'.symm
  have e2 : (SQ == c) = false := by simpa using fun h' => h2 h'.symm
  induction s with
  | nil => rfl
  | cons d ds ih =>
    unfold spliceQuote
    by_cases hd : d == SQ
    · have : d = SQ := eq_of_beq hd
      subst this
      simp [List.count_cons, e1, e2, ih]
    · simp [hd, List.count_cons, ih]

/-- `_hush_quote` adds nothing but `'`, `"` and backslash -/
theorem count_hushQuote (c : Byte) (h1 : c ≠ SQ) (h2 : c ≠ DQ) (h3 : c ≠ BS) (s : Bytes) :
    (hushQuote s).count c = s.count c := by
  unfold hushQuote
  have e1 : (SQ == c) = false := by simpa using fun h => h1 h.symm
  have e2 : (DQ == c) = false := by simpa using fun h => h2 h.symm
  by_cases he : s.isEmpty
  · have : s = [] := by simpa using he
    subst this
    simp [hushEmpty_eq, List.count_cons, e2]
  · by_cases hs : s.all safeByte
    · simp [he, hs]
    · simp [he, hs, List.count_cons, e1, count_spliceQuote c h3 h1, count_dblBackslash c h3]

theorem count_render (c : Byte) (h1 : c ≠ SQ) (h2 : c ≠ DQ) (h3 : c ≠ BS) (a : Arg) (t : Bytes)
    (h : a.render = some t) : t.count c = a.payload.count c := by
  cases a with
  | str s => simp only [Arg.render, Option.some.injEq] at h; subst h; exact count_hushQuote c h1 h2 h3 s
  | raw s => simp only [Arg.render, Option.some.injEq] at h; subst h; rfl
  | other => simp [Arg.render] at h

theorem count_mapM_render (c : Byte) (h1 : c ≠ SQ) (h2 : c ≠ DQ) (h3 : c ≠ BS) : ∀ (args : List Arg) (ts : List Bytes),
    args.mapM Arg.render = some ts → (ts.map (·.count c)).sum = countPayload c args := by
  intro args
  induction args with
  | nil => intro ts h; simp at h; subst h; simp [countPayload]
  | cons a as ih =>
    intro ts h
    obtain ⟨y, ys', hy, hys, rfl⟩ := Quote.mapM_some_cons _ _ _ _ h
    have := ih ys' hys
    simp only [countPayload] at this ⊢
    simp [this, count_render c h1 h2 h3 a y hy]

/-- for every byte other than blank, `'`, `"`, `\`: the line contains it exactly as often as the
    arguments do -/
theorem count_escapeArgs (c : Byte) (h0 : c ≠ SP) (h1 : c ≠ SQ) (h2 : c ≠ DQ) (h3 : c ≠ BS) (args : List Arg)
    (l : Bytes) (h : escapeArgs args = some l) : l.count c = countPayload c args := by
  unfold escapeArgs at h
  cases hm : args.mapM Arg.render with
  | none => simp [hm] at h
  | some ts =>
    simp only [hm, Option.map_some, Option.some.injEq] at h
    rw [← h, Quote.count_joinSp c h0, count_mapM_render c h1 h2 h3 args ts hm]

theorem mem_iff_countPayload (c : Byte) (args : List Arg) :
    0 < countPayload c args ↔ ∃ a ∈ args, c ∈ a.payload := by
  unfold countPayload
  rw [Quote.sum_pos_iff]
  simp only [List.mem_map]
  constructor
  · rintro ⟨x, ⟨a, ha, rfl⟩, hx⟩; exact ⟨a, ha, List.count_pos_iff.mp hx⟩
  · rintro ⟨a, ha, hc⟩; exact ⟨_, ⟨a, ha, rfl⟩, List.count_pos_iff.mpr hc⟩

theorem blOk_iff (bl : Bytes) : blOk bl = true ↔ SP ∉ bl ∧ SQ ∉ bl ∧ DQ ∉ bl ∧ BS ∉ bl := by
  simp [blOk, and_assoc]

theorem forbidden_escapeArgs (bl : Bytes) (hbl : blOk bl = true) (args : List Arg) (l : Bytes)
    (h : escapeArgs args = some l) :
    forbidden bl l = true ↔ ∃ a ∈ args, forbidden bl a.payload = true := by
  obtain ⟨b0, b1, b2, b3⟩ := (blOk_iff bl).mp hbl
  simp only [Quote.forbidden_iff]
  constructor
  · rintro ⟨c, hc, hl⟩
    have hcnt := count_escapeArgs c (fun e => b0 (e ▸ hc)) (fun e => b1 (e ▸ hc)) (fun e => b2 (e ▸ hc))
      (fun e => b3 (e ▸ hc)) args l h
    have : 0 < countPayload c args := by rw [← hcnt]; exact List.count_pos_iff.mpr hl
    obtain ⟨a, ha, hca⟩ := (mem_iff_countPayload c args).mp this
    exact ⟨a, ha, c, hc, hca⟩
  · rintro ⟨a, ha, c, hc, hca⟩
    have hcnt := count_escapeArgs c (fun e => b0 (e ▸ hc)) (fun e => b1 (e ▸ hc)) (fun e => b2 (e ▸ hc))
      (fun e => b3 (e ▸ hc)) args l h
    have : 0 < countPayload c args := (mem_iff_countPayload c args).mpr ⟨a, ha, hca⟩
    exact ⟨c, hc, List.count_pos_iff.mp (by rw [hcnt]; exact this)⟩

theorem forbidden_escapeArgs_bool (bl : Bytes) (hbl : blOk bl = true) (args : List Arg) (l : Bytes)
    (h : escapeArgs args = some l) :
    (forbidden bl l == args.any (fun a => forbidden bl a.payload)) = true := by
  rw [beq_iff_eq, Bool.eq_iff_iff, forbidden_escapeArgs bl hbl args l h, List.any_eq_true]

theorem escapeArgs_str (args : List Bytes) : escapeArgs (args.map .str) = some (escape args) := by
  have : (args.map Arg.str).mapM Arg.render = some (args.map hushQuote) := by
    induction args with
    | nil => simp
    | cons a as ih => simp [List.mapM_cons, ih, Arg.render]
  simp [escapeArgs, this, escape]

end Hush
