import TbotVerif.Props.C06Loops
import TbotVerif.Props.C03
/-! C06 — which exceptions a `read_iter` with a timeout can end in when no death string is
    registered: only `TimeoutError` (needed for "`read_until_timeout(T)` returns at exactly
    `t0 + T`"). -/

namespace C06
open Chan Spec

theorem writeStream_deaths (buf : Bytes) (s : St) : (writeStream buf s).deaths = s.deaths := by
  unfold writeStream
  split
  · rfl
  · split <;> rfl

/-- `_check` without registrations does nothing -/
theorem check_nodeaths (b : Bytes) (s : St) (h : s.deaths = []) : check b s = (.ok (), s) := by
  unfold check
  simp [h]

/-- one resumption of a `read_iter` that has a timeout, no death string registered: the only
    exception is `TimeoutError`, and still no death string is registered afterwards -/
theorem riNext_clean (ri : RI) (s : St) (T : Nat) (hd : s.deaths = []) (hT : ri.timeout = some T) :
    (riNext ri s).2.2.deaths = [] ∧ (riNext ri s).2.1.timeout = some T
      ∧ ∀ e, (riNext ri s).1 = .err e → e = .timeout := by
  have hout := riNext_out ri s
  generalize riNext ri s = out at hout
  obtain ⟨st, ri', s'⟩ := out
  simp only at hout ⊢
  cases hout with
  | done h1 h2 => exact ⟨hd, hT, fun e h => by cases h⟩
  | expired hnd hrem => exact ⟨hd, hT, fun e h => by cases h; rfl⟩
  | ioErr rem rec s' e hnd hrem hio =>
    refine ⟨by rw [hio.deaths]; exact hd, hT, fun e' h => ?_⟩
    cases h
    obtain ⟨_, hk, _, hh, _⟩ := hio.err e rfl
    rcases hk with h | h
    · exact h
    · exfalso
      have := (hh h).1
      obtain ⟨_, hs⟩ := remaining_some hrem
      rw [(hs T hT).2] at this
      simp at this
  | chunk rem rec s1 b hnd hrem hio hchk =>
    have hd1 : (writeStream b s1).deaths = [] := by rw [writeStream_deaths, hio.deaths]; exact hd
    rw [check_nodeaths b _ hd1]
    exact ⟨hd1, hT, fun e h => by cases h⟩
  | death rem rec s1 b x m hnd hrem hio hchk =>
    have hd1 : (writeStream b s1).deaths = [] := by rw [writeStream_deaths, hio.deaths]; exact hd
    rw [check_nodeaths b _ hd1] at hchk
    simp at hchk

theorem riTake_clean : ∀ (f : Nat) (k : Option Nat) (ri : RI) (s : St) (acc : List Bytes) (T : Nat),
    s.deaths = [] → ri.timeout = some T →
    ∀ e, (riTake f k ri s acc).1.2 = some e → e = .timeout ∨ e = .fuel := by
  intro f
  induction f with
  | zero =>
    intro k ri s acc T _ _ e h
    unfold riTake at h
    simp only [Option.some.injEq] at h
    exact Or.inr h.symm
  | succ f ih =>
    intro k ri s acc T hd hT e
    unfold riTake
    split
    · intro h; simp at h
    · obtain ⟨h1, h2, h3⟩ := riNext_clean ri s T hd hT
      generalize riNext ri s = out at h1 h2 h3
      obtain ⟨st, ri', s'⟩ := out
      simp only at h1 h2 h3
      cases st with
      | done => intro h; simp at h
      | err e' =>
        intro h
        simp only [Option.some.injEq] at h
        subst h
        exact Or.inl (h3 e' rfl)
      | chunk b => exact ih (k.map (· - 1)) ri' s' (acc ++ [b]) T h1 h2 e

end C06
