import TbotVerif.Props.C02Extra
import TbotVerif.Props.C02G
/-! C02 — where "look only at the tail" is right and where it is wrong.
    For an assertion-free expression the end-anchored prompt test on the whole buffer and on its
    last `maxWidth` bytes agree (`tail_test_iff`, `tail_test_offset`): an optimisation of that kind
    preserves C02 on this subset — which is why seeded change C02-J could only be caught once
    look-behind prompts were modelled.  With a look-behind the two differ (`C02G`'s example and
    `tail_test_wrong_with_lookbehind`). -/

namespace C02
open Chan

theorem drop_tail (buf : Bytes) (w j : Nat) (hj : buf.length - w ≤ j) :
    (buf.drop (buf.length - w)).drop (j - (buf.length - w)) = buf.drop j := by
  rw [List.drop_drop]
  congr 1
  omega

/-- the prompt test fails on the whole buffer iff it fails on the last `maxWidth` bytes -/
theorem tail_test_none (r : Re) (hr : r.noEos = true) (buf : Bytes) :
    promptEnd (.re (.seq r .eos)) buf = none ↔
      promptEnd (.re (.seq r .eos)) (buf.drop (buf.length - r.maxWidth)) = none := by
  rw [promptEnd_anchored_none r hr, promptEnd_anchored_none r hr]
  constructor
  · intro h j' hj' hl
    have hlen : (buf.drop (buf.length - r.maxWidth)).length = buf.length - (buf.length - r.maxWidth) := by
      simp
    rw [List.drop_drop] at hl
    exact h _ (by omega) hl
  · intro h j hj hl
    have hw := Re.L_maxWidth r _ hl
    simp only [List.length_drop] at hw
    have hge : buf.length - r.maxWidth ≤ j := by omega
    refine h (j - (buf.length - r.maxWidth)) ?_ ?_
    · simp only [List.length_drop]; omega
    · rw [drop_tail buf r.maxWidth j hge]; exact hl

/-- **tail test = full test** on the assertion-free subset (as Booleans) -/
theorem tail_test_iff (r : Re) (hr : r.noEos = true) (buf : Bytes) :
    (promptEnd (.re (.seq r .eos)) buf).isSome =
      (promptEnd (.re (.seq r .eos)) (buf.drop (buf.length - r.maxWidth))).isSome := by
  have h := tail_test_none r hr buf
  cases h1 : promptEnd (.re (.seq r .eos)) buf with
  | none =>
    rw [h.mp h1]
  | some i =>
    cases h2 : promptEnd (.re (.seq r .eos)) (buf.drop (buf.length - r.maxWidth)) with
    | none => rw [h.mpr h2] at h1; simp at h1
    | some k => rfl

/-- … and the reported offsets correspond: the offset in the whole buffer is the tail's offset
    shifted by the length of what was cut off -/
theorem tail_test_offset (r : Re) (hr : r.noEos = true) (buf : Bytes) (i : Nat)
    (h : promptEnd (.re (.seq r .eos)) buf = some i) :
    promptEnd (.re (.seq r .eos)) (buf.drop (buf.length - r.maxWidth)) = some (i - (buf.length - r.maxWidth)) := by
  obtain ⟨hi, hl, hleast⟩ := (promptEnd_anchored_iff r hr buf i).mp h
  have hw := Re.L_maxWidth r _ hl
  simp only [List.length_drop] at hw
  have hge : buf.length - r.maxWidth ≤ i := by omega
  apply (promptEnd_anchored_iff r hr _ _).mpr
  refine ⟨?_, ?_, ?_⟩
  · simp only [List.length_drop]; omega
  · rw [drop_tail buf r.maxWidth i hge]; exact hl
  · intro j hj hl2
    rw [List.drop_drop] at hl2
    exact hleast _ (by omega) hl2

/-- with a look-behind the tail test is WRONG: `(?<![a-z])s> ` on `bas> ` -/
theorem tail_test_wrong_with_lookbehind :
    ∃ (g : Re.Guard) (r : Re) (buf : Bytes), r.noEos = true ∧
      GuardPrompt.gPromptEnd g r buf = none ∧
      (GuardPrompt.gPromptEnd g r (buf.drop (buf.length - r.maxWidth))).isSome = true :=
  ⟨⟨true, [(97, 122)], true⟩, Re.ofBytes [115, 62, 32], [98, 97, 115, 62, 32], by decide, by decide, by decide⟩

end C02
