import TbotVerif.Props.CtxWin
set_option linter.unusedSimpArgs false
set_option linter.unusedVariables false
/-! I6 (observable form), part 2: `teardown` and leaving a request *inside* the exit window
    (keep-alive on, no teardown has failed so far): every machine goes down after the machines
    built from it, and an exception leaves only after a logged teardown fault (which closes the
    window). -/
namespace Ctx

/-- class `d` is requested by the `from_context` of class `c` only -/
def OnlyReq (cfg : Cfg) (c d : Nat) : Prop := ∀ a, (cfg.depsOf a).any (·.1 == d) = true → a = c

/-- a class that some `from_context` requests exclusively is requested by no other class
    (`Cfg.exclUnique`, as a proposition about all classes) -/
def ExclOnly (cfg : Cfg) : Prop := ∀ c d, (d, true) ∈ cfg.depsOf c → OnlyReq cfg c d

theorem lt_of_depsOf_any {cfg : Cfg} {a d : Nat} (h : (cfg.depsOf a).any (·.1 == d) = true) :
    a < cfg.deps.length := by
  apply Classical.byContradiction
  intro hn
  have hle : cfg.deps.length ≤ a := by omega
  unfold Cfg.depsOf at h
  simp [List.getD, List.getElem?_eq_none hle] at h

theorem exclOnly_of_exclUnique {cfg : Cfg} (hwf : cfg.wf = true) (hx : cfg.exclUnique = true) :
    ExclOnly cfg := by
  intro c d hd a ha
  unfold Cfg.wf at hwf
  simp only [Bool.and_eq_true, beq_iff_eq] at hwf
  have hlen := hwf.1
  have hc : c < cfg.n := by
    rw [← hlen]
    exact lt_of_depsOf_any (d := d) (List.any_eq_true.mpr ⟨(d, true), hd, by simp⟩)
  have ha' : a < cfg.n := by rw [← hlen]; exact lt_of_depsOf_any ha
  unfold Cfg.exclUnique at hx
  rw [List.all_eq_true] at hx
  have h1 := hx c (List.mem_range.mpr hc)
  rw [List.all_eq_true] at h1
  have h2 := h1 (d, true) hd
  simp only [Bool.not_true, Bool.false_or] at h2
  rw [List.all_eq_true] at h2
  have h3 := h2 a (List.mem_range.mpr ha')
  simp only [Bool.or_eq_true, beq_iff_eq, Bool.not_eq_true'] at h3
  rcases h3 with h3 | h3
  · exact h3
  · rw [ha] at h3; cases h3

/-- while class `c` is busy (its machine is down), nothing that needs a class only `c` requests is up -/
theorem noDepUp_of_busy {cfg : Cfg} {B : List Nat} {s : St} (h : Inv B s) {c d : Nat} (hc : c ∈ B)
    (ho : OnlyReq cfg c d) : noDepUp cfg s.trace d = true := by
  unfold noDepUp
  rw [List.all_eq_true]
  intro a ha
  cases hany : (cfg.depsOf a.1).any (·.1 == d) with
  | false => rfl
  | true =>
    exfalso
    have hac := ho a.1 hany
    obtain ⟨_, hcls, hup⟩ := (h.upsIff a.1 a.2).mp ha
    have := (h.upInst a.2 hup).2
    rw [hcls, hac] at this
    exact this hc

theorem later_none_left (b : Option Exc) : later none b = b := by
  cases b <;> rfl

def Good (cfg : Cfg) (s : St) : Prop := always (condOrder cfg) s.trace = true

/-- `teardown` inside the window, on a level that suffices for the class -/
def TdW (cfg : Cfg) (kk : Nat) (td : Nat → St → R) : Prop :=
  ∀ (B : List Nat) (c : Nat) (s : St), c < kk → Inv B s → (∀ b ∈ B, c < b) → HeldDeps cfg s →
    s.keepAlive = true → inWindow s.trace = true → (s.mgrs c).inst ≠ none →
    noDepUp cfg s.trace c = true → Good cfg s →
    Good cfg (td c s).1 ∧ ((td c s).2 ≠ none → inWindow (td c s).1.trace = false)

/-- leaving a request inside the window (no exception is in flight there) -/
def RxW (cfg : Cfg) (kk : Nat) (rx : Frame → St → Option Exc → R) : Prop :=
  ∀ (B : List Nat) (f : Frame) (s : St), f.cls < kk → Inv B s → (∀ b ∈ B, f.cls < b) →
    f ∈ s.open_ → (∀ k, f ∉ (s.mgrs k).held) → HeldDeps cfg s →
    s.keepAlive = true → inWindow s.trace = true →
    (f.excl = true → noDepUp cfg s.trace f.cls = true) → Good cfg s →
    Good cfg (rx f s none).1 ∧ ((rx f s none).2 ≠ none → inWindow (rx f s none).1.trace = false)

theorem exitFrames_W {cfg : Cfg} {kk : Nat} {rx : Frame → St → Option Exc → R} (hS : RxSpec rx)
    (hY : RxSyn cfg rx) (hW : RxW cfg kk rx) :
    ∀ (L : List Frame) (B : List Nat) (s : St), Inv B s → Pend L s →
      (∀ f ∈ L, ∀ b ∈ B, f.cls < b) → (∀ f ∈ L, f.cls < kk) →
      (∀ f ∈ L, f.excl = true → ∀ s', Inv B s' → noDepUp cfg s'.trace f.cls = true) →
      HeldDeps cfg s → s.keepAlive = true → inWindow s.trace = true → Good cfg s →
      Good cfg (exitFramesWith rx L s none).1 ∧
      ((exitFramesWith rx L s none).2 ≠ none → inWindow (exitFramesWith rx L s none).1.trace = false) := by
  intro L
  induction L with
  | nil =>
    intro B s _ _ _ _ _ _ _ _ hg
    exact ⟨hg, fun hne => absurd rfl hne⟩
  | cons f fs ih =>
    intro B s h hp hb hk hnd hH hka hwin hg
    unfold exitFramesWith
    have hf := hp.isOpen f (by simp)
    have hh := hp.notHeld f (by simp)
    have h1 := hS B f s none h (hb f (by simp)) hf hh
    have y1 := hY f s none
    have w1 := hW B f s (hk f (by simp)) h (hb f (by simp)) hf hh hH hka hwin
      (fun hx => hnd f (by simp) hx s h) hg
    have hndp := List.nodup_cons.mp hp.nodup
    have hp' : Pend fs (rx f s none).1 :=
      hp.tail.tr h1.2.tr h.idLt (fun g hg hx => by
        simp at hx
        subst hx
        exact hndp.1 hg)
    generalize rx f s none = r at h1 y1 w1 hp' ⊢
    obtain ⟨s1, e1⟩ := r
    simp only at h1 y1 w1 hp' ⊢
    cases hw1 : inWindow s1.trace with
    | false =>
      have y2 := exitFrames_syn cfg hY fs s1 e1
      exact ⟨y2.good hw1 w1.1, fun _ => y2.closed hw1⟩
    | true =>
      have he1 : e1 = none := by
        cases e1 with
        | none => rfl
        | some ex =>
          have := w1.2 (by simp)
          rw [hw1] at this
          cases this
      subst he1
      exact ih B s1 h1.1 hp' (fun g hg => hb g (List.mem_cons_of_mem _ hg))
        (fun g hg => hk g (List.mem_cons_of_mem _ hg))
        (fun g hg => hnd g (List.mem_cons_of_mem _ hg)) (hH.syn y1) (y1.ka.trans hka) hw1 w1.1

section
variable (cfg : Cfg)

theorem tdStart_syn {s : St} {c o : Nat} :
    Syn cfg s (objExit cfg (((s.setObj o { s.obj o with rc := 1 })).setMgr c
        { (s.setObj o { s.obj o with rc := 1 }).mgr c with held := [] }) o).1 :=
  ((syn_setObj cfg s o _).trans (Syn.setMgr cfg _ c _ (by simp))).trans (objExit_syn cfg _ o)

/-- what `teardown` logs up to the machine going down: the `down` event, and a `created` event
    exactly if the connector's exit raises -/
theorem tdStart_trace {s : St} {c o : Nat} (hcls : (s.objs o).cls = c) :
    ((objExit cfg (((s.setObj o { s.obj o with rc := 1 })).setMgr c
        { (s.setObj o { s.obj o with rc := 1 }).mgr c with held := [] }) o).2 = none ∧
     (objExit cfg (((s.setObj o { s.obj o with rc := 1 })).setMgr c
        { (s.setObj o { s.obj o with rc := 1 }).mgr c with held := [] }) o).1.trace =
        .down c o :: s.trace) ∨
    (∃ e, (objExit cfg (((s.setObj o { s.obj o with rc := 1 })).setMgr c
        { (s.setObj o { s.obj o with rc := 1 }).mgr c with held := [] }) o).1.trace =
        .created e :: .down c o :: s.trace) := by
  unfold objExit machineDown
  simp only [St.obj, St.setObj, St.setMgr, St.mgr, St.log, St.newExc]
  simp only [Int.sub_self, beq_self_eq_true, if_true, ite_true]
  split
  · right
    exact ⟨⟨s.nExc, .fd⟩, by simp [hcls]⟩
  · left
    exact ⟨rfl, by simp [hcls]⟩

theorem teardownF_W {kk : Nat} {rx : Frame → St → Option Exc → R} (hx : ExclOnly cfg)
    (hS : RxSpec rx) (hY : RxSyn cfg rx) (hW : RxW cfg kk rx) :
    TdW cfg (kk + 1) (teardownF cfg rx) := by
  intro B c s hk h hb hH hka hwin hal hnd hg
  have hcB : c ∉ B := fun hm => Nat.lt_irrefl _ (hb c hm)
  unfold teardownF
  cases hi : (s.mgr c).inst with
  | none => exact absurd hi hal
  | some o =>
    simp only
    have hi' : (s.mgrs c).inst = some o := hi
    obtain ⟨_, hcls⟩ := h.instWf c o hi'
    have hxe := tdStart_ext cfg (s := s) (c := c) (o := o) hcls
    have y1 := tdStart_syn cfg (s := s) (c := c) (o := o)
    have t1 := tdStart_trace cfg (s := s) (c := c) (o := o) hcls
    have hd : Inv (c :: B) (s.downed c o) := h.downed hi' hcB
    generalize objExit cfg (((s.setObj o { s.obj o with rc := 1 })).setMgr c
        { (s.setObj o { s.obj o with rc := 1 }).mgr c with held := [] }) o = r1 at hxe y1 t1 ⊢
    have h1 : Inv (c :: B) r1.1 := hd.ext hxe
    have hheld : ((s.setObj o { s.obj o with rc := 1 }).mgr c).held = (s.mgrs c).held := rfl
    rw [hheld]
    have hdown : condOrder cfg s.trace (.down c o) = true := by
      rw [condOrder_down, hnd]; simp
    obtain ⟨s1, e1⟩ := r1
    simp only at hxe y1 t1 h1 ⊢
    rcases t1 with ⟨he1, ht1⟩ | ⟨ex, ht1⟩
    · -- the machine went down without a fault: the window is still open
      subst he1
      have hg1 : Good cfg s1 := by
        unfold Good
        rw [ht1, always_cons, hdown]
        exact hg
      have hw1 : inWindow s1.trace = true := by rw [ht1]; exact hwin
      have hp : Pend (s.mgrs c).held.reverse s1 := by
        refine Pend.reverse ⟨h.heldNodup c, ?_, ?_⟩
        · intro f hf
          rw [hxe.open_]
          exact (h.heldOpen c f hf).1
        · intro f hf k hkk
          rw [hxe.mgrs] at hkk
          simp only [St.downed] at hkk
          by_cases hkc : k = c
          · subst hkc; simp at hkk
          · simp [hkc] at hkk
            exact hkc (h.heldDisj k c f hkk hf)
      have hlt : ∀ f ∈ (s.mgrs c).held.reverse, ∀ b ∈ c :: B, f.cls < b := by
        intro f hf b hbm
        have hfc := (h.heldOpen c f (List.mem_reverse.mp hf)).2
        rcases List.mem_cons.mp hbm with rfl | hbm
        · exact hfc
        · exact Nat.lt_trans hfc (hb b hbm)
      have hlv : ∀ f ∈ (s.mgrs c).held.reverse, f.cls < kk := by
        intro f hf
        have hfc := (h.heldOpen c f (List.mem_reverse.mp hf)).2
        omega
      have hno : ∀ f ∈ (s.mgrs c).held.reverse, f.excl = true → ∀ s', Inv (c :: B) s' →
          noDepUp cfg s'.trace f.cls = true := by
        intro f hf hfx s' hs'
        have hdep := hH c f (List.mem_reverse.mp hf)
        rw [hfx] at hdep
        exact noDepUp_of_busy hs' (by simp) (hx c f.cls hdep)
      have q := exitFrames_W hS hY hW (s.mgrs c).held.reverse (c :: B) s1 h1 hp hlt hlv hno
        (hH.syn y1) (y1.ka.trans hka) hw1 hg1
      generalize exitFramesWith rx (s.mgrs c).held.reverse s1 none = r2 at q ⊢
      exact q
    · -- the connector's exit raised: the fault is logged, the window is closed
      have hg1 : Good cfg s1 := by
        unfold Good
        rw [ht1, always_cons, always_cons, hdown]
        exact hg
      have hw1 : inWindow s1.trace = false := by rw [ht1]; rfl
      have y2 := exitFrames_syn cfg hY (s.mgrs c).held.reverse s1 e1
      generalize exitFramesWith rx (s.mgrs c).held.reverse s1 e1 = r2 at y2 ⊢
      exact ⟨y2.good hw1 hg1, fun _ => y2.closed hw1⟩

theorem finallyStep_W {kk : Nat} {td : Nat → St → R} (hW : TdW cfg kk td) {B : List Nat} {c : Nat}
    (excl : Bool) {s : St} (hk : c < kk) (h : Inv B s) (hb : ∀ b ∈ B, c < b) (hH : HeldDeps cfg s)
    (hka : s.keepAlive = true) (hwin : inWindow s.trace = true)
    (hnd : excl = true → noDepUp cfg s.trace c = true) (hg : Good cfg s) :
    Good cfg (finallyStep td c excl s none).1 ∧
    ((finallyStep td c excl s none).2 ≠ none → inWindow (finallyStep td c excl s none).1.trace = false) := by
  unfold finallyStep
  split
  · rename_i hc
    have hex : excl = true := by
      cases excl with
      | true => rfl
      | false => simp [hka] at hc
    split
    · rename_i hal
      have hal' : (s.mgrs c).inst ≠ none := by
        simpa [St.alive, St.mgr, Option.isSome_iff_ne_none] using hal
      have w := hW B c s hk h hb hH hka hwin hal' (hnd hex) hg
      show Good cfg (td c s).1 ∧ (later none (td c s).2 ≠ none → inWindow (td c s).1.trace = false)
      rw [later_none_left]
      exact w
    · exact ⟨hg, fun hne => absurd rfl hne⟩
  · exact ⟨hg, fun hne => absurd rfl hne⟩

theorem reqExitF_W {kk : Nat} {td : Nat → St → R} (hW : TdW cfg kk td) : RxW cfg kk (reqExitF cfg td) := by
  intro B f s hk h hb hf hh hH hka hwin hnd hg
  have hcB : f.cls ∉ B := fun hm => Nat.lt_irrefl _ (hb _ hm)
  unfold reqExitF
  simp only [roeStep]
  have hrc := h.frame_rc hf hcB
  rw [objExit_ne cfg hrc]
  have hfo := h.frameOut hf hh hcB
  have hHo : HeldDeps cfg (s.frameOut f) := by
    intro k g hgm
    simp only [St.frameOut] at hgm
    by_cases hkc : k = f.cls
    · subst hkc; simp at hgm; exact hH _ g hgm
    · simp [hkc] at hgm; exact hH k g hgm
  have w := finallyStep_W cfg hW f.excl hk hfo hb hHo (s := s.frameOut f) hka hwin hnd hg
  change Good cfg ((finallyStep td f.cls f.excl (s.frameOut f) (later none none)).1.log _) ∧
    ((finallyStep td f.cls f.excl (s.frameOut f) (later none none)).2 ≠ none →
      inWindow ((finallyStep td f.cls f.excl (s.frameOut f) (later none none)).1.log _).trace = false)
  rw [later_none_left]
  generalize finallyStep td f.cls f.excl (s.frameOut f) none = r2 at w ⊢
  refine ⟨?_, ?_⟩
  · unfold Good
    simp only [St.log, always_cons, condOrder, Bool.true_and]
    exact w.1
  · intro hne
    simp only [St.log, inWindow]
    exact w.2 hne

theorem ops_W (hx : ExclOnly cfg) (hwf : cfg.depsBelow) :
    ∀ k, TdW cfg k (ops cfg k).teardown ∧ RxW cfg k (ops cfg k).reqExit := by
  intro k
  induction k with
  | zero =>
    refine ⟨?_, ?_⟩
    · intro B c s hk; exact absurd hk (Nat.not_lt_zero _)
    · intro B f s hk; exact absurd hk (Nat.not_lt_zero _)
  | succ k ih =>
    obtain ⟨_, hWx⟩ := ih
    obtain ⟨_, hSx, _⟩ := ops_spec cfg hwf k
    obtain ⟨_, hYx, _⟩ := ops_syn cfg k
    have hWtd : TdW cfg (k + 1) (teardownF cfg (ops cfg k).reqExit) := teardownF_W cfg hx hSx hYx hWx
    exact ⟨hWtd, reqExitF_W cfg hWtd⟩

end

end Ctx
