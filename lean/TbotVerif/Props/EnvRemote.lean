import TbotVerif.Props.EnvExec
import TbotVerif.Spec.Env
import TbotVerif.Props.Quote
/-! The remote side of C09: how the shell model reads the command lines the drivers build.
    Quoting (`Props/Quote.lean`) makes every argument one word; the assignment word of `export`
    and the expansion word `" ${NAME}"` are read as intended; the fixed lines of `_init_shell`
    are recognised. -/

namespace Env
open Chan Quote EnvChan

/-! ### bytes a command line may consist of -/

theorem clean_append (bl a b : Bytes) : clean bl (a ++ b) = (clean bl a && clean bl b) := by
  simp [clean, List.all_append]

theorem clean_cons (bl : Bytes) (c : Byte) (l : Bytes) : clean bl (c :: l) = (okByte bl c && clean bl l) := by
  simp [clean]

theorem clean_mem {bl l : Bytes} (h : clean bl l = true) {c : Byte} (hc : c ∈ l) : c ∉ bl ∧ c ≠ CR := by
  have := List.all_eq_true.mp h c hc
  simp only [okByte, Bool.and_eq_true, Bool.not_eq_true', bne_iff_ne, ne_eq] at this
  exact ⟨by simpa using this.1, this.2⟩

/-- the table facts about the two black-lists: quoting characters, blank, `=` and the line
    terminator are sendable -/
theorem bl_facts (ash : Bool) :
    okByte (blacklist ash) SQ = true ∧ okByte (blacklist ash) DQ = true ∧ okByte (blacklist ash) SP = true
      ∧ okByte (blacklist ash) EQ = true ∧ CR ∉ blacklist ash := by
  cases ash <;> decide

theorem forbidden_false_iff (bl buf : Bytes) : Chan.forbidden bl buf = false ↔ ∀ x ∈ bl, x ∉ buf := by
  unfold Chan.forbidden
  rw [List.any_eq_false]
  constructor
  · intro h x hx hm; exact h x hx (by simpa using hm)
  · intro h x hx; simpa using h x hx

/-- a clean line passes the black-list test of `send` (with its line terminator) -/
theorem clean_forbidden {ash : Bool} {l : Bytes} (h : clean (blacklist ash) l = true) :
    Chan.forbidden (blacklist ash) (l ++ [CR]) = false := by
  rw [forbidden_false_iff]
  intro x hx hm
  simp only [List.mem_append, List.mem_singleton] at hm
  rcases hm with hm | hm
  · exact (clean_mem h hm).1 hx
  · subst hm; exact (bl_facts ash).2.2.2.2 hx

/-- … and reaches the shell as typed -/
theorem clean_input {bl l : Bytes} (h : clean bl l = true) : Tty.input l = l := by
  unfold Tty.input
  induction l with
  | nil => rfl
  | cons c t ih =>
    rw [clean_cons, Bool.and_eq_true] at h
    have hc : c ≠ CR := by
      have := h.1
      simp only [okByte, Bool.and_eq_true, bne_iff_ne, ne_eq] at this
      exact this.2
    have : (c == Tty.CR) = false := by simpa [Tty.CR, CR] using hc
    simp only [List.map_cons, this, Bool.false_eq_true, if_false, ih h.2]

theorem clean_quoteBody {bl : Bytes} (hs : okByte bl SQ = true) (hd : okByte bl DQ = true) :
    ∀ s, clean bl s = true → clean bl (quoteBody s) = true := by
  intro s
  induction s with
  | nil => intro _; rfl
  | cons c t ih =>
    intro h
    rw [clean_cons, Bool.and_eq_true] at h
    unfold quoteBody
    split
    · simp only [clean_cons, hs, hd, ih h.2, Bool.and_self]
    · simp only [clean_cons, h.1, ih h.2, Bool.and_self]

theorem clean_shlexQuote {bl : Bytes} (hs : okByte bl SQ = true) (hd : okByte bl DQ = true) (s : Bytes)
    (h : clean bl s = true) : clean bl (shlexQuote s) = true := by
  unfold shlexQuote
  split
  · simp [clean_cons, hs, clean]
  · split
    · exact h
    · rw [clean_cons, clean_append, clean_quoteBody hs hd s h]
      simp [hs, clean_cons, clean]

theorem clean_joinSp {bl : Bytes} (hsp : okByte bl SP = true) :
    ∀ ws : List Bytes, (∀ w ∈ ws, clean bl w = true) → clean bl (joinSp ws) = true := by
  intro ws
  induction ws with
  | nil => intro _; rfl
  | cons w ws ih =>
    intro h
    cases ws with
    | nil => simpa [joinSp] using h w (by simp)
    | cons v vs =>
      simp only [joinSp]
      rw [clean_append, clean_cons, h w (by simp), hsp, ih (fun x hx => h x (by simp [hx]))]
      rfl

theorem clean_escape {ash : Bool} (ws : List Bytes) (h : ∀ w ∈ ws, clean (blacklist ash) w = true) :
    clean (blacklist ash) (escape ws) = true := by
  obtain ⟨h1, h2, h3, _, _⟩ := bl_facts ash
  unfold escape
  apply clean_joinSp h3
  intro w hw
  obtain ⟨a, ha, rfl⟩ := List.mem_map.mp hw
  exact clean_shlexQuote h1 h2 a (h a ha)

/-! ### words -/

theorem shlexQuote_head_ne_DQ (s : Bytes) : ∃ c cs, shlexQuote s = c :: cs ∧ (DQ == c) = false := by
  unfold shlexQuote
  by_cases he : s.isEmpty
  · exact ⟨SQ, [SQ], by simp [he], by decide⟩
  · by_cases hs : s.all safeByte
    · cases s with
      | nil => simp at he
      | cons c cs =>
        simp only [List.all_cons, Bool.and_eq_true] at hs
        refine ⟨c, cs, by simp [List.all_cons, hs.1, hs.2], ?_⟩
        have := safe_ne_DQ hs.1
        cases h : DQ == c with
        | false => rfl
        | true => rw [eq_of_beq h] at this; simp at this
    · exact ⟨SQ, quoteBody s ++ [SQ], by simp [he, hs], by decide⟩

/-- a quoted argument is never taken for the expansion word -/
theorem expWord_quote (env : List (Bytes × Bytes)) (s r : Bytes) : expWord env (shlexQuote s ++ r) = none := by
  obtain ⟨c, cs, h, hc⟩ := shlexQuote_head_ne_DQ s
  have hc' : ((34 : Byte) == c) = false := hc
  rw [h]
  simp [expWord, stripPrefix, hc']

theorem wordsX_quote_sp (env : List (Bytes × Bytes)) (f : Nat) (a r : Bytes) :
    wordsX env (f + 1) (shlexQuote a ++ SP :: r) = (wordsX env f r).map (a :: ·) := by
  simp only [wordsX, expWord_quote, firstWord_quote_sp]

theorem wordsX_quote_end (env : List (Bytes × Bytes)) (f : Nat) (a : Bytes) :
    wordsX env (f + 1) (shlexQuote a) = some [a] := by
  have := expWord_quote env a []
  rw [List.append_nil] at this
  simp only [wordsX, this, firstWord_quote_end]

/-- **every argument is one word**: the shell model reads `escape ws` as exactly `ws` -/
theorem wordsX_escape (env : List (Bytes × Bytes)) : ∀ (ws : List Bytes) (f : Nat), ws ≠ [] → ws.length ≤ f →
    wordsX env f (escape ws) = some ws := by
  intro ws
  induction ws with
  | nil => intro f h; exact absurd rfl h
  | cons a rest ih =>
    intro f _ hf
    cases f with
    | zero => simp at hf
    | succ f =>
      cases rest with
      | nil => simpa [escape, joinSp] using wordsX_quote_end env f a
      | cons b bs =>
        have : escape (a :: b :: bs) = shlexQuote a ++ SP :: escape (b :: bs) := by simp [escape, joinSp]
        rw [this, wordsX_quote_sp, ih f (by simp) (by simpa using hf)]
        rfl

theorem escape_length (ws : List Bytes) : ws.length ≤ (escape ws).length + 1 := by
  induction ws with
  | nil => simp
  | cons a rest ih =>
    cases rest with
    | nil => simp
    | cons b bs =>
      have : escape (a :: b :: bs) = shlexQuote a ++ SP :: escape (b :: bs) := by simp [escape, joinSp]
      rw [this]
      simp only [List.length_cons, List.length_append] at ih ⊢
      omega

theorem escape_ne_nil (ws : List Bytes) (h : ws ≠ []) : escape ws ≠ [] := by
  cases ws with
  | nil => exact absurd rfl h
  | cons a rest =>
    cases rest with
    | nil => simpa [escape, joinSp] using shlexQuote_ne_nil a
    | cons b bs =>
      have : escape (a :: b :: bs) = shlexQuote a ++ SP :: escape (b :: bs) := by simp [escape, joinSp]
      rw [this]; simp

/-- a command line of quoted words is run as the simple command with exactly these words -/
theorem step_escape (r : Remote) (f : Frame) (fs : List Frame) (ext : Bytes × Nat) (ws : List Bytes)
    (hf : r.frames = f :: fs) (hne : ws ≠ []) :
    step r ext (escape ws) = builtin r f fs ext ws := by
  unfold step
  rw [hf]
  have he : (escape ws).isEmpty = false := by
    cases h : escape ws with
    | nil => exact absurd h (escape_ne_nil ws hne)
    | cons _ _ => rfl
  simp only [he, Bool.false_eq_true, if_false]
  rw [wordsX_escape f.env ws _ hne (escape_length ws)]

/-! ### the assignment word of `export` and the expansion word -/

theorem wordAux_quote_end_acc (w s : Bytes) : wordAux .U w (shlexQuote s) = some (w ++ s, none) := by
  unfold shlexQuote
  by_cases he : s.isEmpty
  · have : s = [] := by simpa using he
    subst this
    simp [wordAux]
  · by_cases hs : s.all safeByte
    · have := wordAux_safe s hs w []
      simp only [List.append_nil] at this
      simp only [he, hs, Bool.false_eq_true, if_false, if_true, this, wordAux]
    · have h := wordAux_body s w [SQ]
      simp only [he, hs, Bool.false_eq_true, if_false, wordAux, beq_self_eq_true, if_true]
      have h0 : (SQ == SP) = false := by decide
      simp [h0, h, wordAux]

/-- a property of all 256 bytes, checked byte by byte -/
theorem byte_forall (p : Byte → Bool) (h : ∀ n : Fin 256, p (UInt8.ofNat n.val) = true) (c : Byte) : p c = true := by
  have := h ⟨c.toNat, c.toNat_lt⟩
  simpa using this

theorem identByte_safe {c : Byte} (h : identByte c = true) : safeByte c = true := by
  have := byte_forall (fun c => !identByte c || safeByte c) (by decide +kernel) c
  simpa [h] using this

theorem identByte_ne_EQ {c : Byte} (h : identByte c = true) : (c != EQ) = true := by
  have := byte_forall (fun c => !identByte c || (c != EQ)) (by decide +kernel) c
  simpa [h] using this

theorem isName_all {n : Bytes} (h : isName n = true) : n.all identByte = true ∧ n ≠ [] := by
  cases n with
  | nil => simp [isName] at h
  | cons c t =>
    simp only [isName, Bool.and_eq_true] at h
    exact ⟨h.1, by simp⟩

theorem isName_safe {n : Bytes} (h : isName n = true) : n.all safeByte = true := by
  rw [List.all_eq_true]
  intro c hc
  exact identByte_safe (List.all_eq_true.mp (isName_all h).1 c hc)

/-- a shell identifier is left alone by `shlex.quote` -/
theorem shlexQuote_name {n : Bytes} (h : isName n = true) : shlexQuote n = n := by
  unfold shlexQuote
  have hne : n.isEmpty = false := by
    cases n with
    | nil => exact absurd rfl (isName_all h).2
    | cons _ _ => rfl
  simp [hne, isName_safe h]

/-- `NAME=<quoted value>` is read as the one word `NAME=value` -/
theorem wordsX_assign (env : List (Bytes × Bytes)) (f : Nat) (n v : Bytes) (hn : isName n = true) :
    wordsX env (f + 1) (shlexQuote n ++ EQ :: shlexQuote v) = some [n ++ EQ :: v] := by
  rw [shlexQuote_name hn]
  obtain ⟨hall, hne⟩ := isName_all hn
  obtain ⟨c, t, rfl⟩ : ∃ c t, n = c :: t := by
    cases n with
    | nil => exact absurd rfl hne
    | cons c t => exact ⟨c, t, rfl⟩
  have hc : identByte c = true := by simp only [List.all_cons, Bool.and_eq_true] at hall; exact hall.1
  have hcDQ : ((34 : Byte) == c) = false := by
    have := safe_ne_DQ (identByte_safe hc)
    cases h : (34 : Byte) == c with
    | false => rfl
    | true => rw [← eq_of_beq h] at this; exact absurd this (by decide)
  have hexp : expWord env (c :: t ++ EQ :: shlexQuote v) = none := by
    simp [expWord, stripPrefix, hcDQ]
  have hfw : firstWord (c :: t ++ EQ :: shlexQuote v) = some ((c :: t) ++ EQ :: v, none) := by
    have hsp : (c == SP) = false := safe_ne_SP (identByte_safe hc)
    have h1 : firstWord (c :: t ++ EQ :: shlexQuote v) = wordAux .U [] (c :: t ++ EQ :: shlexQuote v) := by
      simp [firstWord, hsp]
    rw [h1, wordAux_safe (c :: t) (isName_safe hn) [] (EQ :: shlexQuote v)]
    have h2 := wordAux_safe [EQ] (by decide) ([] ++ (c :: t)) (shlexQuote v)
    simp only [List.nil_append, List.singleton_append] at h2
    rw [List.nil_append, h2, wordAux_quote_end_acc]
    simp
  simp only [wordsX, hexp, hfw]

theorem wordsX_export (env : List (Bytes × Bytes)) (n v : Bytes) (hn : isName n = true) (f : Nat) :
    wordsX env (f + 2) (exportLine n v) = some [b!"export", n ++ EQ :: v] := by
  have : exportLine n v = shlexQuote b!"export" ++ SP :: (shlexQuote n ++ EQ :: shlexQuote v) := by
    simp [exportLine, joinSp]
  rw [this, wordsX_quote_sp, wordsX_assign env f n v hn]
  rfl

theorem takeWhile_ident (n rest : Bytes) (c : Byte) (hn : n.all identByte = true) (hc : identByte c = false) :
    (n ++ c :: rest).takeWhile identByte = n := by
  induction n with
  | nil => simp [List.takeWhile, hc]
  | cons d t ih =>
    simp only [List.all_cons, Bool.and_eq_true] at hn
    simp [List.takeWhile, hn.1, ih hn.2]

theorem takeWhile_ne_EQ (n rest : Bytes) (hn : n.all identByte = true) :
    (n ++ EQ :: rest).takeWhile (· != EQ) = n := by
  induction n with
  | nil => simp [List.takeWhile]
  | cons d t ih =>
    simp only [List.all_cons, Bool.and_eq_true] at hn
    simp [List.takeWhile, identByte_ne_EQ hn.1, ih hn.2]

theorem readName_name {n : Bytes} (hn : isName n = true) : readName n = n := by
  unfold readName
  have h1 : (n == b!"!") = false := by
    cases h : n == b!"!" with
    | false => rfl
    | true => rw [eq_of_beq h] at hn; exact absurd hn (by decide)
  have h2 : (n == b!"$") = false := by
    cases h : n == b!"$" with
    | false => rfl
    | true => rw [eq_of_beq h] at hn; exact absurd hn (by decide)
  simp [h1, h2, shlexQuote_name hn]

/-- the word `" ${NAME}"` expands to a blank and the value -/
theorem expWord_name (env : List (Bytes × Bytes)) (n : Bytes) (hn : isName n = true) :
    expWord env (b!"\" ${" ++ n ++ b!"}\"") = some (SP :: (lookup env n).getD []) := by
  have hs : stripPrefix b!"\" ${" (b!"\" ${" ++ n ++ b!"}\"") = some (n ++ b!"}\"") := by
    simp [stripPrefix]
  have ht : (n ++ b!"}\"").takeWhile identByte = n := takeWhile_ident n _ 125 (isName_all hn).1 (by decide)
  unfold expWord
  rw [hs]
  simp only [ht, hn, List.drop_left, Bool.true_and, beq_self_eq_true, if_true]

theorem wordsX_read (env : List (Bytes × Bytes)) (n : Bytes) (hn : isName n = true) (f : Nat) :
    wordsX env (f + 3) (readLine true n) = some [b!"printf", b!"%s\\n", SP :: (lookup env n).getD []] := by
  have : readLine true n = shlexQuote b!"printf" ++ SP :: (shlexQuote b!"%s\\n" ++ SP :: (b!"\" ${" ++ n ++ b!"}\"")) := by
    simp [readLine, joinSp, readName_name hn]
  rw [this, wordsX_quote_sp, wordsX_quote_sp]
  simp only [wordsX, expWord_name env n hn]
  rfl

/-- the read-back line of the tree BEFORE the repair of F7 -/
theorem wordsX_read_echo (env : List (Bytes × Bytes)) (n : Bytes) (hn : isName n = true) (f : Nat) :
    wordsX env (f + 2) (readLine false n) = some [b!"echo", SP :: (lookup env n).getD []] := by
  have : readLine false n = shlexQuote b!"echo" ++ SP :: (b!"\" ${" ++ n ++ b!"}\"") := by
    simp [readLine, joinSp, readName_name hn]
  rw [this, wordsX_quote_sp]
  simp only [wordsX, expWord_name env n hn]
  rfl

end Env
