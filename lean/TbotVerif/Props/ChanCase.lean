import TbotVerif.Props.C03Op
/-! Lifting per-operation theorems to whole cases: every operation keeps the configuration
    hypotheses (`Good`), moves the observable configuration exactly as `Cfg.step` says, and
    conserves the transport's bytes. -/

namespace ChanCase
open Chan Spec C03

/-- what every operation guarantees about the state it leaves behind -/
structure Keeps (r r' : RunSt) (op : Op) (o : OpObs) : Prop where
  good : Good r'.st
  cfg : Cfg.ofRun r' = (Cfg.ofRun r).step op
  flat : (delivered o).flatten ++ flat r'.st.script = flat r.st.script

theorem good_of_io {s s' : St} {recs ws} (h : IOFrame s s' recs ws) (hg : Good s) : Good s' :=
  ⟨h.wf hg.wf, by rw [h.chunk]; exact hg.chunk, by rw [h.slice]; exact hg.slice,
   by rw [h.slowDelay, h.slowChunk]; exact hg.slow⟩

theorem good_of_read {s s' : St} {recs} (h : ReadFrame s s' recs) (hg : Good s) : Good s' :=
  good_of_io (IOFrame.ofRead h) hg

/-- an operation whose only effect on the state is described by an `IOFrame` from the cut state -/
theorem keeps_of_io (r : RunSt) (op : Op) (res : OpRes) (s' : St) (recs : List ReadRec) (ws : List (Bytes × Nat))
    (hg : Good r.st)
    (hrun : runOp op { r with st := cut r.st } = (res, { r with st := s' }))
    (hfr : IOFrame (cut r.st) s' recs ws)
    (hstep : (Cfg.ofRun r).step op = Cfg.ofRun r) :
    Keeps r (obsOp op r).2 op (obsOp op r).1 := by
  have hcut : ({ r with st := { r.st with reads := [], writes := [], fwd := [] } } : RunSt)
      = { r with st := cut r.st } := rfl
  unfold obsOp
  simp only [hcut, hrun]
  have hreads : s'.reads = recs := by rw [hfr.reads]; rfl
  refine ⟨good_of_io hfr hg.cut, ?_, ?_⟩
  · rw [hstep]
    simp only [Cfg.ofRun, hfr.chunk, hfr.slice, hfr.prompt, hfr.blacklist, hfr.slowDelay, hfr.slowChunk]
    rfl
  · simp only [Spec.delivered, hreads]
    exact hfr.flat

theorem keeps_of_io' (r : RunSt) (op : Op) (s' : St) (recs : List ReadRec) (ws : List (Bytes × Nat))
    (hg : Good r.st)
    (hsnd : (runOp op { r with st := cut r.st }).2 = { r with st := s' })
    (hfr : IOFrame (cut r.st) s' recs ws)
    (hstep : (Cfg.ofRun r).step op = Cfg.ofRun r) :
    Keeps r (obsOp op r).2 op (obsOp op r).1 :=
  keeps_of_io r op (runOp op { r with st := cut r.st }).1 s' recs ws hg
    (by rw [← hsnd]) hfr hstep

theorem read_none_frame (t : Option Nat) (s : St) : ∃ recs, ReadFrame s (Chan.read none t s).2 recs := by
  unfold Chan.read
  simp only
  obtain ⟨rec, hio⟩ := ioRead_spec s.chunk t s
  cases hr : ioRead s.chunk t s with
  | mk res s1 =>
    rw [hr] at hio
    cases res with
    | error e => exact ⟨[rec], hio.frame⟩
    | ok buf =>
      simp only
      have hfr := chunk_frame hio
      cases hc : check buf (writeStream buf s1) with
      | mk cr s2 =>
        rw [hc] at hfr
        cases cr <;> exact ⟨[rec], hfr⟩

theorem readUntilTimeout_frame (t : Option Nat) (s : St) (hg : Good s) :
    ∃ recs, ReadFrame s (readUntilTimeout t s).2 recs := by
  unfold readUntilTimeout
  obtain ⟨recs, hf, _⟩ := riTake_spec (fuelFor s) none (riStart none t s) s []
    (by unfold fuelFor riStart; simp) hg.wf hg.chunk (by intro m h; simp [riStart] at h) (fun _ => rfl)
  cases hr : riTake (fuelFor s) none (riStart none t s) s [] with
  | mk res s1 =>
    rw [hr] at hf
    obtain ⟨cs, e⟩ := res
    cases e with
    | none => exact ⟨recs, hf⟩
    | some e => cases e <;> exact ⟨recs, hf⟩

theorem streamExit_fields (id : Nat) (prev : Bool) (s : St) :
    (Chan.streamExit id prev s).reads = s.reads ∧ (Chan.streamExit id prev s).script = s.script
    ∧ (Chan.streamExit id prev s).chunk = s.chunk ∧ (Chan.streamExit id prev s).slice = s.slice
    ∧ (Chan.streamExit id prev s).prompt = s.prompt ∧ (Chan.streamExit id prev s).blacklist = s.blacklist
    ∧ (Chan.streamExit id prev s).slowDelay = s.slowDelay ∧ (Chan.streamExit id prev s).slowChunk = s.slowChunk := by
  exact ⟨rfl, rfl, rfl, rfl, rfl, rfl, rfl, rfl⟩

/-- operations a well-formed case may contain: slow sending is configured with a positive
    chunk size (with 0 the real write loop never terminates) -/
def opOk : Op → Bool
  | .setSlow (some _) c => 0 < c
  | _ => true

theorem keeps_direct (r r' : RunSt) (op : Op) (res : OpRes)
    (hrun : runOp op { r with st := cut r.st } = (res, r'))
    (hreads : r'.st.reads = []) (hscript : r'.st.script = r.st.script)
    (hgood : Good r'.st) (hcfg : Cfg.ofRun r' = (Cfg.ofRun r).step op) :
    Keeps r (obsOp op r).2 op (obsOp op r).1 := by
  have hcut : ({ r with st := { r.st with reads := [], writes := [], fwd := [] } } : RunSt)
      = { r with st := cut r.st } := rfl
  unfold obsOp
  simp only [hcut, hrun]
  refine ⟨hgood, hcfg, ?_⟩
  simp [Spec.delivered, hreads, hscript]

/-- **every operation keeps the invariants** -/
theorem keeps (r : RunSt) (op : Op) (hg : Good r.st) (hop : opOk op = true) : Keeps r (obsOp op r).2 op (obsOp op r).1 := by
  have hg0 : Good (cut r.st) := hg.cut
  cases op with
  | read n t =>
    cases n with
    | none =>
      obtain ⟨recs, hf⟩ := read_none_frame t (cut r.st)
      refine keeps_of_io' r _ _ recs [] hg ?_ (IOFrame.ofRead hf) rfl
      simp only [runOp]
      cases Chan.read none t (cut r.st) with
      | mk a b => cases a <;> rfl
    | some n =>
      obtain ⟨recs, hf, _⟩ := read_some_spec n t (cut r.st) hg0.wf hg0.chunk
      refine keeps_of_io' r _ _ recs [] hg ?_ (IOFrame.ofRead hf) rfl
      simp only [runOp]
      cases Chan.read (some n) t (cut r.st) with
      | mk a b => cases a <;> rfl
  | readIter m t k =>
    obtain ⟨recs, hf, _⟩ := riTake_spec (fuelFor (cut r.st)) k (riStart m t (cut r.st)) (cut r.st) []
      (by unfold fuelFor riStart; simp) hg0.wf hg0.chunk (by intro m' _; simp [riStart]) (fun _ => rfl)
    refine keeps_of_io' r _ _ recs [] hg ?_ (IOFrame.ofRead hf) rfl
    simp only [runOp]
  | readline e t =>
    obtain ⟨recs, hf, _⟩ := readlineLoop_spec (fuelFor (cut r.st)) e [] (cut r.st).now t (cut r.st)
      (by unfold fuelFor; omega) hg0.wf hg0.chunk
    refine keeps_of_io' r _ _ recs [] hg ?_ (IOFrame.ofRead hf) rfl
    simp only [runOp, readline]
    cases readlineLoop (fuelFor (cut r.st)) e [] (cut r.st).now t (cut r.st) with
    | mk a b => cases a <;> rfl
  | expect ps t =>
    obtain ⟨recs, hf, _⟩ := C04.expectLoop_spec (fuelFor (cut r.st)) ps [] (riStart none t (cut r.st)) (cut r.st) rfl
      (by unfold fuelFor; omega) hg0.wf hg0.chunk
    refine keeps_of_io' r _ _ recs [] hg ?_ (IOFrame.ofRead hf) rfl
    simp only [runOp, expect]
    cases expectLoop (fuelFor (cut r.st)) ps [] (riStart none t (cut r.st)) (cut r.st) with
    | mk a b => cases a <;> rfl
  | rup p t =>
    obtain ⟨recs, hf, _⟩ := C02.readUntilPrompt_spec p t (cut r.st) hg0.wf hg0.chunk
    refine keeps_of_io' r _ _ recs [] hg ?_ (IOFrame.ofRead hf) rfl
    simp only [runOp]
    cases readUntilPrompt p t (cut r.st) with
    | mk a b => cases a <;> rfl
  | rut t =>
    obtain ⟨recs, hf⟩ := readUntilTimeout_frame t (cut r.st) hg0
    refine keeps_of_io' r _ _ recs [] hg ?_ (IOFrame.ofRead hf) rfl
    simp only [runOp]
    cases readUntilTimeout t (cut r.st) with
    | mk a b => cases a <;> rfl
  | write b ign =>
    obtain ⟨ws, hf, _⟩ := write_spec b ign (cut r.st) hg0.slow
    refine keeps_of_io' r _ _ [] ws hg ?_ hf rfl
    simp only [runOp, ofUnit]
    cases write b ign (cut r.st) with
    | mk a b => cases a <;> rfl
  | send b rb t ign =>
    obtain ⟨recs, ws, hf, _⟩ := send_spec b rb t ign (cut r.st) hg0
    refine keeps_of_io' r _ _ recs ws hg ?_ hf rfl
    simp only [runOp, ofUnit]
    cases send b rb t ign (cut r.st) with
    | mk a b => cases a <;> rfl
  | sendline b rb t =>
    obtain ⟨recs, ws, hf, _⟩ := send_spec (b ++ [13]) rb t false (cut r.st) hg0
    refine keeps_of_io' r _ _ recs ws hg ?_ hf rfl
    simp only [runOp, ofUnit, sendline]
    cases send (b ++ [13]) rb t false (cut r.st) with
    | mk a b => cases a <;> rfl
  | sendcontrol n =>
    by_cases hn : n ≤ 31
    · obtain ⟨ws, hf, _⟩ := write_spec [UInt8.ofNat n] true (cut r.st) hg0.slow
      refine keeps_of_io' r _ _ [] ws hg ?_ hf rfl
      simp only [runOp, ofUnit, sendcontrol, hn, if_true]
      cases write [UInt8.ofNat n] true (cut r.st) with
      | mk a b => cases a <;> rfl
    · refine keeps_of_io' r _ (cut r.st) [] [] hg ?_ (IOFrame.refl _) rfl
      simp only [runOp, ofUnit, sendcontrol, hn, if_false]
  | setPrompt p =>
    exact keeps_direct r _ _ .unit rfl rfl rfl ⟨hg.wf, hg.chunk, hg.slice, hg.slow⟩ rfl
  | promptEnter p =>
    exact keeps_direct r _ _ .unit rfl rfl rfl ⟨hg.wf, hg.chunk, hg.slice, hg.slow⟩ rfl
  | promptExit =>
    cases hp : r.prompts with
    | nil =>
      refine keeps_direct r { r with st := cut r.st } _ .badop (by simp [runOp, hp]) rfl rfl hg0 ?_
      simp [Cfg.ofRun, Cfg.step, hp, cut]
    | cons p ps =>
      refine keeps_direct r { r with st := { cut r.st with prompt := p }, prompts := ps } _ .unit
        (by simp [runOp, hp]) rfl rfl ⟨hg.wf, hg.chunk, hg.slice, hg.slow⟩ ?_
      simp [Cfg.ofRun, Cfg.step, hp, cut]
  | setBlacklist b =>
    exact keeps_direct r _ _ .unit rfl rfl rfl ⟨hg.wf, hg.chunk, hg.slice, hg.slow⟩ rfl
  | setSlow d c =>
    refine keeps_direct r _ _ .unit rfl rfl rfl ⟨hg.wf, hg.chunk, hg.slice, ?_⟩ rfl
    intro hd
    cases d with
    | none => simp at hd
    | some d => simpa [opOk] using hop
  | streamEnter id sp =>
    exact keeps_direct r _ _ .unit rfl rfl rfl ⟨hg.wf, hg.chunk, hg.slice, hg.slow⟩ rfl
  | streamExit =>
    cases hs : r.streams with
    | nil =>
      refine keeps_direct r { r with st := cut r.st } _ .badop (by simp [runOp, hs]) rfl rfl hg0 ?_
      simp [Cfg.ofRun, Cfg.step, cut]
    | cons x xs =>
      obtain ⟨id, prev⟩ := x
      refine keeps_direct r { r with st := Chan.streamExit id prev (cut r.st), streams := xs } _ .unit
        (by simp [runOp, hs]) ?_ ?_ ?_ ?_
      · exact (streamExit_fields id prev (cut r.st)).1
      · exact (streamExit_fields id prev (cut r.st)).2.1
      · have h := streamExit_fields id prev (cut r.st)
        refine ⟨?_, by rw [h.2.2.1]; exact hg.chunk, by rw [h.2.2.2.1]; exact hg.slice, ?_⟩
        · unfold WF; rw [h.2.1]; exact hg.wf
        · rw [h.2.2.2.2.2.2.1, h.2.2.2.2.2.2.2]; exact hg.slow
      · have h := streamExit_fields id prev (cut r.st)
        simp only [Cfg.ofRun, Cfg.step, h.2.2.1, h.2.2.2.1, h.2.2.2.2.1, h.2.2.2.2.2.1, h.2.2.2.2.2.2.1,
          h.2.2.2.2.2.2.2]
        rfl
  | streamExitAt k =>
    cases hs : r.streams.find? (·.1 == k) with
    | none =>
      refine keeps_direct r { r with st := cut r.st } _ .badop (by simp [runOp, hs]) rfl rfl hg0 ?_
      simp [Cfg.ofRun, Cfg.step, cut]
    | some fr =>
      refine keeps_direct r { r with st := Chan.streamExit k fr.2 (cut r.st),
                                     streams := r.streams.eraseP (·.1 == k) } _ .unit
        (by simp [runOp, hs]) ?_ ?_ ?_ ?_
      · exact (streamExit_fields k fr.2 (cut r.st)).1
      · exact (streamExit_fields k fr.2 (cut r.st)).2.1
      · have h := streamExit_fields k fr.2 (cut r.st)
        refine ⟨?_, by rw [h.2.2.1]; exact hg.chunk, by rw [h.2.2.2.1]; exact hg.slice, ?_⟩
        · unfold WF; rw [h.2.1]; exact hg.wf
        · rw [h.2.2.2.2.2.2.1, h.2.2.2.2.2.2.2]; exact hg.slow
      · have h := streamExit_fields k fr.2 (cut r.st)
        simp only [Cfg.ofRun, Cfg.step, h.2.2.1, h.2.2.2.1, h.2.2.2.2.1, h.2.2.2.2.2.1, h.2.2.2.2.2.2.1,
          h.2.2.2.2.2.2.2]
        rfl
  | deathEnter p e =>
    exact keeps_direct r _ _ .unit rfl rfl rfl ⟨hg.wf, hg.chunk, hg.slice, hg.slow⟩ rfl
  | deathExit =>
    cases hd : r.deaths with
    | nil =>
      refine keeps_direct r { r with st := cut r.st } _ .badop (by simp [runOp, hd]) rfl rfl hg0 ?_
      simp [Cfg.ofRun, Cfg.step, cut]
    | cons id ids =>
      refine keeps_direct r { r with st := Chan.deathExit id (cut r.st), deaths := ids } _ .unit
        (by simp [runOp, hd]) rfl rfl ⟨hg.wf, hg.chunk, hg.slice, hg.slow⟩ ?_
      simp [Cfg.ofRun, Cfg.step, cut, Chan.deathExit]
  | deathAdd p e =>
    exact keeps_direct r _ _ .unit rfl rfl rfl ⟨hg.wf, hg.chunk, hg.slice, hg.slow⟩ rfl
  | sleep n =>
    exact keeps_direct r _ _ .unit rfl rfl rfl ⟨hg.wf, hg.chunk, hg.slice, hg.slow⟩ rfl

/-- a well-formed case: non-empty pieces, positive chunk and slice sizes, sane slow-send settings -/
structure WfCase (c : Case) : Prop where
  pieces : ∀ p ∈ c.script, p.data ≠ []
  chunk : 0 < c.chunk
  slice : 0 < c.slice
  ops : c.ops.all opOk = true

theorem good_init (c : Case) (h : WfCase c) : Good (initSt c).st :=
  ⟨h.pieces, h.chunk, h.slice, by intro hd; simp [initSt] at hd⟩

theorem runOps_cons (op : Op) (ops : List Op) (r : RunSt) :
    (runOps (op :: ops) r).1 = (obsOp op r).1 :: (runOps ops (obsOp op r).2).1
    ∧ (runOps (op :: ops) r).2 = (runOps ops (obsOp op r).2).2 := by
  simp only [runOps]
  exact ⟨trivial, trivial⟩

/-- a per-operation law that holds in every good state holds along every case -/
theorem foldOps_run (f : Cfg → Op → OpObs → Bool)
    (hf : ∀ r op, Good r.st → f (Cfg.ofRun r) op (obsOp op r).1 = true) :
    ∀ (ops : List Op) (r : RunSt), Good r.st → ops.all opOk = true →
      foldOps f (Cfg.ofRun r) ops (runOps ops r).1 = true := by
  intro ops
  induction ops with
  | nil => intro r _ _; rfl
  | cons op ops ih =>
    intro r hg hops
    simp only [List.all_cons, Bool.and_eq_true] at hops
    have hk := keeps r op hg hops.1
    rw [(runOps_cons op ops r).1]
    simp only [foldOps, Bool.and_eq_true]
    refine ⟨hf r op hg, ?_⟩
    rw [← hk.cfg]
    exact ih _ hk.good hops.2

/-- conservation along a case -/
theorem conservation_run : ∀ (ops : List Op) (r : RunSt), Good r.st → ops.all opOk = true →
    ((runOps ops r).1.map fun o => (delivered o).flatten).flatten ++ Chan.flat (runOps ops r).2.st.script
      = Chan.flat r.st.script := by
  intro ops
  induction ops with
  | nil => intro r _ _; simp [runOps]
  | cons op ops ih =>
    intro r hg hops
    simp only [List.all_cons, Bool.and_eq_true] at hops
    have hk := keeps r op hg hops.1
    rw [(runOps_cons op ops r).1, (runOps_cons op ops r).2]
    simp only [List.map_cons, List.flatten_cons, List.append_assoc]
    rw [ih _ hk.good hops.2, hk.flat]

end ChanCase

namespace C02
/-- **C02 (whole case).** -/
theorem case_spec (c : Case) (h : ChanCase.WfCase c) : Spec.C02 c (Chan.run c) = true := by
  unfold Spec.C02 Chan.run
  simp only
  exact ChanCase.foldOps_run Spec.c02 (fun r op hg => by
    cases op with
    | rup p t => exact rup_spec r p t hg.wf hg.chunk
    | _ => rfl) c.ops (Chan.initSt c) (ChanCase.good_init c h) h.ops
end C02

namespace C04
/-- **C04 (whole case).** -/
theorem case_spec (c : Case) (h : ChanCase.WfCase c) : Spec.C04 c (Chan.run c) = true := by
  unfold Spec.C04 Chan.run
  simp only
  exact ChanCase.foldOps_run (fun _ => Spec.c04) (fun r op hg => by
    cases op with
    | expect ps t => exact expect_spec r ps t hg.wf hg.chunk
    | _ => rfl) c.ops (Chan.initSt c) (ChanCase.good_init c h) h.ops
end C04

namespace C03
/-- **C03 (whole case)**: every raw I/O call meets its law, and the bytes the transport handed out
    plus what is left unread are exactly the scripted stream. -/
theorem case_spec (c : Case) (h : ChanCase.WfCase c) : Spec.C03 c (Chan.run c) = true := by
  unfold Spec.C03 Chan.run
  simp only [Bool.and_eq_true]
  refine ⟨?_, ?_⟩
  · exact ChanCase.foldOps_run (fun cfg op o => Spec.c03 cfg op o && Spec.c03Sizes cfg op o)
      (fun r op hg => by
        have := op_spec r op hg
        simp [this.1, this.2]) c.ops (Chan.initSt c) (ChanCase.good_init c h) h.ops
  · unfold Spec.conservation
    have := ChanCase.conservation_run c.ops (Chan.initSt c) (ChanCase.good_init c h) h.ops
    simp only [Chan.flat] at this
    simp only [beq_iff_eq]
    rw [this]
    rfl
end C03
