import TbotVerif.Props.CtxTrace
set_option linter.unusedSimpArgs false
set_option linter.unusedVariables false
/-! Third invariant: atomic steps and the recursive operations. -/
namespace Ctx

theorem plain_created (e : Exc) : (Ev.created e).plain = true ∧ (Ev.created e).neutral = true := ⟨rfl, rfl⟩

section
variable (cfg : Cfg)

theorem machineDown_same3 (s : St) (o : Nat) : Same3 s (machineDown cfg s o).1 := by
  unfold machineDown
  by_cases hf : (s.nDown + 1) ∈ cfg.fd
  · refine ⟨?_, ?_, [.created ⟨s.nExc, .fd⟩, .down (s.obj o).cls o], ?_, ?_⟩ <;>
      simp [St.obj, St.setObj, St.log, St.newExc, hf, Ev.plain, Ev.neutral]
  · refine ⟨?_, ?_, [.down (s.obj o).cls o], ?_, ?_⟩ <;>
      simp [St.obj, St.setObj, St.log, St.newExc, hf, Ev.plain, Ev.neutral]

theorem machineUp_same3 (s : St) (o : Nat) : Same3 s (machineUp cfg s o).1 := by
  unfold machineUp
  by_cases hf : (s.nInit + 1) ∈ cfg.fi
  · refine ⟨?_, ?_, [.down (s.obj o).cls o, .created ⟨s.nExc, .fi⟩, .init (s.obj o).cls o], ?_, ?_⟩ <;>
      simp [St.obj, St.setObj, St.log, St.newExc, hf, Ev.plain, Ev.neutral]
  · refine ⟨?_, ?_, [.init (s.obj o).cls o], ?_, ?_⟩ <;>
      simp [St.obj, St.setObj, St.log, St.newExc, hf, Ev.plain, Ev.neutral]

theorem objExit_same3 (s : St) (o : Nat) : Same3 s (objExit cfg s o).1 := by
  unfold objExit
  simp only
  split
  · have := machineDown_same3 cfg (s.setObj o { s.obj o with rc := (s.obj o).rc - 1 }) o
    exact ⟨this.mgrs, this.keepAlive, this.trace⟩
  · exact ⟨rfl, rfl, [], by simp [St.setObj], by simp⟩

theorem same3_newExc (s : St) (k : Kind) : Same3 s (s.newExc k).1 := ⟨rfl, rfl, [], by simp [St.newExc], by simp⟩

theorem same3_log (s : St) {ev : Ev} (h : ev.plain = true ∧ ev.neutral = true) : Same3 s (s.log ev) :=
  ⟨rfl, rfl, [ev], by simp [St.log], by simpa using h⟩

end

/-! ### atomic steps -/

theorem Inv3.popped {P : Nat → Nat} {s : St} (h : Inv3 P s) (c : Nat) :
    Inv3 P (s.setMgr c { s.mgr c with held := [] }) := by
  constructor
  · intro k f hf
    simp only [St.setMgr, St.mgr] at hf
    by_cases hk : k = c
    · subst hk; simp at hf
    · simp [hk] at hf; exact h.heldDep k f hf
  · intro k
    have := h.opens k
    simp only [St.setMgr, St.mgr]
    by_cases hk : k = c
    · subst hk; simpa using this
    · simpa [hk] using this

theorem Inv3.cleared {P : Nat → Nat} {s : St} (h : Inv3 P s) (c : Nat) :
    Inv3 P (s.setMgr c { s.mgr c with inst := none }) := by
  constructor
  · intro k f hf
    simp only [St.setMgr, St.mgr] at hf
    by_cases hk : k = c
    · subst hk; simp at hf; exact h.heldDep k f hf
    · simp [hk] at hf; exact h.heldDep k f hf
  · intro k
    have := h.opens k
    simp only [St.setMgr, St.mgr]
    by_cases hk : k = c
    · subst hk; simpa using this
    · simpa [hk] using this

/-- changing only `objs` (and other fields `Inv3` does not read) -/
theorem Inv3.congr {P : Nat → Nat} {s s' : St} (h : Inv3 P s) (hm : s'.mgrs = s.mgrs)
    (ht : s'.trace = s.trace) : Inv3 P s' := by
  constructor
  · rw [hm]; exact h.heldDep
  · rw [hm, ht]; exact h.opens

theorem Inv3.frameOut {P : Nat → Nat} {s : St} (h : Inv3 P s) (f : Frame)
    (hu : 1 ≤ (s.mgrs f.cls).users) :
    Inv3 (fun k => if k = f.cls then P k + 1 else P k) (s.frameOut f) := by
  constructor
  · intro k g hg
    simp only [St.frameOut] at hg
    by_cases hk : k = f.cls
    · subst hk; simp at hg; exact h.heldDep _ g hg
    · simp [hk] at hg; exact h.heldDep k g hg
  · intro k
    have := h.opens k
    simp only [St.frameOut]
    by_cases hk : k = f.cls
    · subst hk; simp; omega
    · simpa [hk] using this

theorem Inv3.setAvail {P : Nat → Nat} {s : St} (h : Inv3 P s) (c : Nat) (b : Bool) :
    Inv3 P (s.setAvail c b) := by
  constructor
  · intro k f hf
    simp only [St.setAvail] at hf
    by_cases hk : k = c
    · subst hk; simp at hf; exact h.heldDep k f hf
    · simp [hk] at hf; exact h.heldDep k f hf
  · intro k
    have := h.opens k
    simp only [St.setAvail]
    by_cases hk : k = c
    · subst hk; simpa using this
    · simpa [hk] using this

def TdG (td : Nat → St → R) : Prop :=
  ∀ (P : Nat → Nat) (B : List Nat) (c : Nat) (s : St), Inv B s → (∀ b ∈ B, c < b) → Inv3 P s →
    Inv3 P (td c s).1 ∧ TGrow s.trace (td c s).1.trace ∧ (G4 s → G4 (td c s).1) ∧
    (td c s).1.keepAlive = s.keepAlive

def RxG (rx : Frame → St → Option Exc → R) : Prop :=
  ∀ (P : Nat → Nat) (B : List Nat) (f : Frame) (s : St) (e : Option Exc), Inv B s →
    (∀ b ∈ B, f.cls < b) → f ∈ s.open_ → (∀ k, f ∉ (s.mgrs k).held) → Inv3 P s →
    Inv3 P (rx f s e).1 ∧
    (∃ t1, TGrow s.trace t1 ∧ ((rx f s e).1.trace = .released f.dep f.cls :: t1 ∨ (rx f s e).1.trace = t1)) ∧
    (G4 s → G4 (rx f s e).1) ∧ (rx f s e).1.keepAlive = s.keepAlive

/-- the strong form (every level above 0): the last log entry is the `released` event -/
def RxG1 (rx : Frame → St → Option Exc → R) : Prop :=
  ∀ (P : Nat → Nat) (B : List Nat) (f : Frame) (s : St) (e : Option Exc), Inv B s →
    (∀ b ∈ B, f.cls < b) → f ∈ s.open_ → (∀ k, f ∉ (s.mgrs k).held) → Inv3 P s →
    Inv3 P (rx f s e).1 ∧
    (∃ t1, TGrow s.trace t1 ∧ (rx f s e).1.trace = .released f.dep f.cls :: t1) ∧
    (G4 s → G4 (rx f s e).1) ∧ (rx f s e).1.keepAlive = s.keepAlive

theorem RxG.of_G1 {rx : Frame → St → Option Exc → R} (h : RxG1 rx) : RxG rx := by
  intro P B f s e hI hb hf hh h3
  obtain ⟨a, ⟨t1, ht, htr⟩, c, d⟩ := h P B f s e hI hb hf hh h3
  exact ⟨a, ⟨t1, ht, Or.inl htr⟩, c, d⟩

theorem exitFrames_G {rx : Frame → St → Option Exc → R} (hS : RxSpec rx) (hG : RxG rx) :
    ∀ (L : List Frame) (P : Nat → Nat) (B : List Nat) (s : St) (e : Option Exc), Inv B s →
      Pend L s → (∀ f ∈ L, f.dep = true ∧ ∀ b ∈ B, f.cls < b) → Inv3 P s →
      Inv3 P (exitFramesWith rx L s e).1 ∧ TGrow s.trace (exitFramesWith rx L s e).1.trace ∧
      (G4 s → G4 (exitFramesWith rx L s e).1) ∧
      (exitFramesWith rx L s e).1.keepAlive = s.keepAlive := by
  intro L
  induction L with
  | nil => intro P B s e _ _ _ h3; exact ⟨h3, TGrow.refl _, fun g => g, rfl⟩
  | cons f fs ih =>
    intro P B s e h hp hb h3
    unfold exitFramesWith
    have hf := hp.isOpen f (by simp)
    have hh := hp.notHeld f (by simp)
    obtain ⟨hdep, hbb⟩ := hb f (by simp)
    have h1 := hS B f s e h hbb hf hh
    have g1 := hG P B f s e h hbb hf hh h3
    have hnd := List.nodup_cons.mp hp.nodup
    have hp' : Pend fs (rx f s e).1 :=
      hp.tail.tr h1.2.tr h.idLt (fun g hg hx => by
        simp at hx
        subst hx
        exact hnd.1 hg)
    have := ih P B (rx f s e).1 (rx f s e).2 h1.1 hp' (fun g hg => hb g (List.mem_cons_of_mem _ hg)) g1.1
    refine ⟨this.1, ?_, fun g => this.2.2.1 (g1.2.2.1 g), this.2.2.2.trans g1.2.2.2⟩
    obtain ⟨t1, ht1, hor⟩ := g1.2.1
    have hg1 : TGrow s.trace (rx f s e).1.trace := by
      rcases hor with h' | h'
      · rw [h', hdep]; exact ht1.cons rfl
      · rw [h']; exact ht1
    exact hg1.trans this.2.1

section
variable (cfg : Cfg)

theorem teardownF_G {rx : Frame → St → Option Exc → R} (hS : RxSpec rx) (hG : RxG rx) :
    TdG (teardownF cfg rx) := by
  intro P B c s h hb h3
  have hcB : c ∉ B := fun hm => Nat.lt_irrefl _ (hb c hm)
  unfold teardownF
  cases hi : (s.mgr c).inst with
  | none =>
    simp only
    have hs := same3_newExc s .ctx
    exact ⟨h3.same hs, hs.tgrow, fun g => g.same hs, rfl⟩
  | some o =>
    simp only
    have hi' : (s.mgrs c).inst = some o := hi
    obtain ⟨ho, hcls⟩ := h.instWf c o hi'
    have hx := tdStart_ext cfg (s := s) (c := c) (o := o) hcls
    have hsm := objExit_same3 cfg (((s.setObj o { s.obj o with rc := 1 })).setMgr c
        { (s.setObj o { s.obj o with rc := 1 }).mgr c with held := [] }) o
    have hd : Inv (c :: B) (s.downed c o) := h.downed hi' hcB
    have h3a : Inv3 P (((s.setObj o { s.obj o with rc := 1 })).setMgr c
        { (s.setObj o { s.obj o with rc := 1 }).mgr c with held := [] }) :=
      (h3.popped c).congr rfl rfl
    generalize objExit cfg (((s.setObj o { s.obj o with rc := 1 })).setMgr c
        { (s.setObj o { s.obj o with rc := 1 }).mgr c with held := [] }) o = r1 at hx hsm ⊢
    have h1 : Inv (c :: B) r1.1 := hd.ext hx
    have hheld : ((s.setObj o { s.obj o with rc := 1 }).mgr c).held = (s.mgrs c).held := rfl
    rw [hheld]
    have hp : Pend (s.mgrs c).held.reverse r1.1 := by
      refine Pend.reverse ⟨h.heldNodup c, ?_, ?_⟩
      · intro f hf
        rw [hx.open_]
        exact (h.heldOpen c f hf).1
      · intro f hf k hk
        rw [hx.mgrs] at hk
        simp only [St.downed] at hk
        by_cases hkc : k = c
        · subst hkc; simp at hk
        · simp [hkc] at hk
          exact hkc (h.heldDisj k c f hk hf)
    have hlt : ∀ f ∈ (s.mgrs c).held.reverse, f.dep = true ∧ ∀ b ∈ c :: B, f.cls < b := by
      intro f hf
      have hfm := List.mem_reverse.mp hf
      have hfc := (h.heldOpen c f hfm).2
      refine ⟨h3.heldDep c f hfm, ?_⟩
      intro b hbm
      rcases List.mem_cons.mp hbm with rfl | hbm
      · exact hfc
      · exact Nat.lt_trans hfc (hb b hbm)
    have g := exitFrames_G hS hG (s.mgrs c).held.reverse P (c :: B) r1.1 r1.2 h1 hp hlt (h3a.same hsm)
    generalize exitFramesWith rx (s.mgrs c).held.reverse r1.1 r1.2 = r2 at g ⊢
    have hg1 : TGrow s.trace r1.1.trace := by
      have := hsm.tgrow
      simpa [St.setMgr, St.setObj] using this
    refine ⟨g.1.cleared c, hg1.trans g.2.1, ?_, ?_⟩
    · intro g4
      have g4a : G4 (((s.setObj o { s.obj o with rc := 1 })).setMgr c
          { (s.setObj o { s.obj o with rc := 1 }).mgr c with held := [] }) := ⟨g4.ka, g4.good⟩
      have := g.2.2.1 (g4a.same hsm)
      exact ⟨this.ka, this.good⟩
    · show r2.1.keepAlive = s.keepAlive
      rw [g.2.2.2, hsm.keepAlive]; rfl

theorem roeStep_G {td : Nat → St → R} (hG : TdG td) {P : Nat → Nat} {B : List Nat} {f : Frame}
    {s : St} (e : Option Exc) (h : Inv B s) (hb : ∀ b ∈ B, f.cls < b) (h3 : Inv3 P s) :
    Inv3 P (roeStep td f s e).1 ∧ TGrow s.trace (roeStep td f s e).1.trace ∧
    (G4 s → G4 (roeStep td f s e).1) ∧ (roeStep td f s e).1.keepAlive = s.keepAlive := by
  unfold roeStep
  cases e with
  | none => exact ⟨h3, TGrow.refl _, fun g => g, rfl⟩
  | some ex =>
    simp only
    split
    · exact hG P B f.cls s h hb h3
    · exact ⟨h3, TGrow.refl _, fun g => g, rfl⟩

theorem reqExitF_G1 {td : Nat → St → R} (hS : TdSpec td) (hG : TdG td)
    (hclr : ∀ c s, ((td c s).1.mgrs c).inst = none) : RxG1 (reqExitF cfg td) := by
  intro P B f s e h hb hf hh h3
  have hcB : f.cls ∉ B := fun hm => Nat.lt_irrefl _ (hb _ hm)
  unfold reqExitF
  simp only
  have h0 := roeStep_spec hS e h hb
  have g0 := roeStep_G hG e h hb h3
  generalize roeStep td f s e = r0 at h0 g0 ⊢
  have hp0 : Pend [f] r0.1 := (Pend.single hf hh).tr h0.2.tr h.idLt (by simp)
  have hf0 := hp0.isOpen f (by simp)
  have hh0 := hp0.notHeld f (by simp)
  have hrc := h0.1.frame_rc hf0 hcB
  rw [objExit_ne cfg hrc]
  have hfo := h0.1.frameOut hf0 hh0 hcB
  have hu1 : 1 ≤ (r0.1.mgrs f.cls).users := by
    rw [h0.1.users f.cls]
    unfold cntCls
    apply List.length_pos_of_mem (a := f)
    simp [List.mem_filter, hf0]
  have g3fo := g0.1.frameOut f hu1
  change Inv3 P ((finallyStep td f.cls f.excl (r0.1.frameOut f) (later r0.2 none)).1.log _) ∧
    (∃ t1, TGrow s.trace t1 ∧
      ((finallyStep td f.cls f.excl (r0.1.frameOut f) (later r0.2 none)).1.log (.released f.dep f.cls)).trace
          = .released f.dep f.cls :: t1) ∧
    (G4 s → G4 ((finallyStep td f.cls f.excl (r0.1.frameOut f) (later r0.2 none)).1.log _)) ∧
    ((finallyStep td f.cls f.excl (r0.1.frameOut f) (later r0.2 none)).1.log _).keepAlive = s.keepAlive
  -- the `finally:` step
  have key : Inv3 (fun k => if k = f.cls then P k + 1 else P k)
        (finallyStep td f.cls f.excl (r0.1.frameOut f) (later r0.2 none)).1 ∧
      TGrow (r0.1.frameOut f).trace (finallyStep td f.cls f.excl (r0.1.frameOut f) (later r0.2 none)).1.trace ∧
      (G4 (r0.1.frameOut f) → G4 (finallyStep td f.cls f.excl (r0.1.frameOut f) (later r0.2 none)).1) ∧
      (finallyStep td f.cls f.excl (r0.1.frameOut f) (later r0.2 none)).1.keepAlive = (r0.1.frameOut f).keepAlive ∧
      ((r0.1.frameOut f).keepAlive = false →
        ((finallyStep td f.cls f.excl (r0.1.frameOut f) (later r0.2 none)).1.mgrs f.cls).inst = none ∨
        ((finallyStep td f.cls f.excl (r0.1.frameOut f) (later r0.2 none)).1.mgrs f.cls).users ≠ 0) := by
    unfold finallyStep
    split
    · rename_i hcond
      split
      · have := hG _ B f.cls (r0.1.frameOut f) hfo hb g3fo
        exact ⟨this.1, this.2.1, this.2.2.1, this.2.2.2, fun _ => Or.inl (hclr _ _)⟩
      · rename_i hna
        refine ⟨g3fo, TGrow.refl _, fun g => g, rfl, fun _ => Or.inl ?_⟩
        simpa [St.alive, St.mgr] using hna
    · rename_i hcond
      refine ⟨g3fo, TGrow.refl _, fun g => g, rfl, fun hk => Or.inr ?_⟩
      intro hu
      apply hcond
      have : ((r0.1.frameOut f).mgr f.cls).users = 0 := hu
      simp [hk, this]
  have hInv := (finallyStep_spec hS f.excl (later r0.2 none) hfo hb).1
  generalize finallyStep td f.cls f.excl (r0.1.frameOut f) (later r0.2 none) = r2 at key hInv ⊢
  have hkfo : (r0.1.frameOut f).keepAlive = s.keepAlive := g0.2.2.2
  have hopen : opens f.cls r2.1.trace = (r2.1.mgrs f.cls).users + P f.cls + 1 := by
    have := key.1.opens f.cls
    simp only [if_true] at this
    omega
  refine ⟨?_, ⟨r2.1.trace, ?_, rfl⟩, ?_, ?_⟩
  · constructor
    · exact key.1.heldDep
    · intro k
      have := key.1.opens k
      simp only [St.log, opens_released]
      by_cases hk : k = f.cls
      · subst hk; simp at this ⊢; omega
      · have hk' : f.cls ≠ k := fun h' => hk h'.symm
        simpa [hk, hk'] using this
  · have hfo_tr : (r0.1.frameOut f).trace = r0.1.trace := rfl
    have := key.2.1
    rw [hfo_tr] at this
    exact g0.2.1.trans this
  · intro g4
    have g4r0 := g0.2.2.1 g4
    have g4fo : G4 (r0.1.frameOut f) := ⟨g4r0.ka, g4r0.good⟩
    have g4r2 := key.2.2.1 g4fo
    refine ⟨g4r2.ka, ?_⟩
    simp only [St.log, always_cons, g4r2.good, Bool.and_true, condRelease]
    -- I4 at this release
    have hcases := key.2.2.2.2 g4fo.ka
    by_cases hle : opens f.cls r2.1.trace ≤ 1
    · have hu0 : (r2.1.mgrs f.cls).users = 0 := by omega
      have hnone : (r2.1.mgrs f.cls).inst = none := by
        rcases hcases with h' | h'
        · exact h'
        · exact absurd hu0 h'
      have hcu : classUp r2.1.trace f.cls = false := by
        rw [Bool.eq_false_iff]
        intro hcu
        obtain ⟨o, hm⟩ := (classUp_iff _ _).mp hcu
        obtain ⟨_, hc, hup⟩ := (hInv.upsIff f.cls o).mp hm
        have := (hInv.upInst o hup).1
        rw [hc, hnone] at this
        cases this
      simp [hcu]
    · simp [hle]
  · show r2.1.keepAlive = s.keepAlive
    rw [key.2.2.2.1, hkfo]

theorem reqExitF_G {td : Nat → St → R} (hS : TdSpec td) (hG : TdG td)
    (hclr : ∀ c s, ((td c s).1.mgrs c).inst = none) : RxG (reqExitF cfg td) :=
  RxG.of_G1 (reqExitF_G1 cfg hS hG hclr)

end

end Ctx
