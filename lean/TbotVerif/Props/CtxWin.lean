import TbotVerif.Props.CtxOrder
set_option linter.unusedSimpArgs false
set_option linter.unusedVariables false
/-! I6 (observable form), part 1: facts about the operations of the context model that need no
    invariant — what they log (never a `ctxBody` event, so they never open the exit window of
    `Spec/Ctx.lean`), the link between the frames held by a `from_context` generator and
    `cfg.deps`, the keep-alive flag, duplicates in `_teardown_order`. -/
namespace Ctx

/-- no machine that was built from class `c` is up -/
def noDepUp (cfg : Cfg) (tr : List Ev) (c : Nat) : Bool :=
  (ups tr).all fun a => !((cfg.depsOf a.1).any (·.1 == c))

theorem condOrder_down (cfg : Cfg) (t : List Ev) (c o : Nat) :
    condOrder cfg t (.down c o) = (!inWindow t || noDepUp cfg t c) := rfl

/-- every event but the one that opens the exit window -/
def Ev.noBody : Ev → Bool
  | .ctxBody => false
  | _ => true

theorem inWindow_noBody {ev : Ev} (h : ev.noBody = true) (t : List Ev)
    (hw : inWindow (ev :: t) = true) : inWindow t = true := by
  cases ev <;> simp_all [Ev.noBody, inWindow]

theorem inWindow_noBody_append {evs : List Ev} (h : ∀ e ∈ evs, e.noBody = true) (t : List Ev)
    (hw : inWindow (evs ++ t) = true) : inWindow t = true := by
  induction evs with
  | nil => exact hw
  | cons e es ih =>
    exact ih (fun x hx => h x (by simp [hx])) (inWindow_noBody (h e (by simp)) _ hw)

theorem condOrder_closed (cfg : Cfg) {t : List Ev} (hw : inWindow t = false) (ev : Ev) :
    condOrder cfg t ev = true := by
  cases ev <;> simp [condOrder, hw]

/-- outside the window, events other than `ctxBody` keep I6 -/
theorem good_noBody_append (cfg : Cfg) {evs : List Ev} (h : ∀ e ∈ evs, e.noBody = true)
    {t : List Ev} (hw : inWindow t = false) (hg : always (condOrder cfg) t = true) :
    always (condOrder cfg) (evs ++ t) = true := by
  induction evs with
  | nil => exact hg
  | cons e es ih =>
    have hes : ∀ x ∈ es, x.noBody = true := fun x hx => h x (by simp [hx])
    have hclosed : inWindow (es ++ t) = false := by
      cases hc : inWindow (es ++ t) with
      | false => rfl
      | true => rw [inWindow_noBody_append hes t hc] at hw; cases hw
    rw [List.cons_append, always_cons, condOrder_closed cfg hclosed, ih hes]
    rfl

/-- the frames held by the `from_context` generator of class `k` are the dependency requests of `k`,
    with the exclusivity `cfg.deps` says -/
def HeldDeps (cfg : Cfg) (s : St) : Prop :=
  ∀ k f, f ∈ (s.mgrs k).held → (f.cls, f.excl) ∈ cfg.depsOf k

/-- what every operation below the program level does to the log, the held frames, the
    keep-alive flag and the teardown order -/
structure Syn (cfg : Cfg) (s s' : St) : Prop where
  trace : ∃ evs : List Ev, s'.trace = evs ++ s.trace ∧ ∀ e ∈ evs, e.noBody = true
  held : ∀ k f, f ∈ (s'.mgrs k).held → f ∈ (s.mgrs k).held ∨ (f.cls, f.excl) ∈ cfg.depsOf k
  ka : s'.keepAlive = s.keepAlive
  nodup : s.order.Nodup → s'.order.Nodup

theorem Syn.refl (cfg : Cfg) (s : St) : Syn cfg s s :=
  ⟨⟨[], rfl, by simp⟩, fun _ _ h => Or.inl h, rfl, fun h => h⟩

theorem Syn.trans {cfg : Cfg} {a b c : St} (h1 : Syn cfg a b) (h2 : Syn cfg b c) : Syn cfg a c := by
  obtain ⟨e1, t1, q1⟩ := h1.trace
  obtain ⟨e2, t2, q2⟩ := h2.trace
  refine ⟨⟨e2 ++ e1, by rw [t2, t1, List.append_assoc], ?_⟩, ?_, h2.ka.trans h1.ka,
    fun h => h2.nodup (h1.nodup h)⟩
  · intro e he
    rcases List.mem_append.mp he with h | h
    · exact q2 e h
    · exact q1 e h
  · intro k f hf
    rcases h2.held k f hf with h | h
    · exact h1.held k f h
    · exact Or.inr h

/-- only fields that `Syn` does not read differ -/
theorem Syn.same (cfg : Cfg) {s s' : St} (ht : s'.trace = s.trace) (hm : s'.mgrs = s.mgrs)
    (hk : s'.keepAlive = s.keepAlive) (ho : s'.order = s.order) : Syn cfg s s' :=
  ⟨⟨[], by simpa using ht, by simp⟩, fun k f h => Or.inl (by rwa [hm] at h), hk,
   fun h => by rwa [ho]⟩

/-- log entries other than `ctxBody` -/
theorem Syn.logs (cfg : Cfg) {s s' : St} (evs : List Ev) (ht : s'.trace = evs ++ s.trace)
    (hq : ∀ e ∈ evs, e.noBody = true) (hm : s'.mgrs = s.mgrs)
    (hk : s'.keepAlive = s.keepAlive) (ho : s'.order = s.order) : Syn cfg s s' :=
  ⟨⟨evs, ht, hq⟩, fun k f h => Or.inl (by rwa [hm] at h), hk, fun h => by rwa [ho]⟩

/-- one manager is replaced by one that holds no other frames -/
theorem Syn.setMgr (cfg : Cfg) (s : St) (c : Nat) (m : Mgr)
    (hm : ∀ f ∈ m.held, f ∈ (s.mgrs c).held ∨ (f.cls, f.excl) ∈ cfg.depsOf c) :
    Syn cfg s (s.setMgr c m) := by
  refine ⟨⟨[], rfl, by simp⟩, ?_, rfl, fun h => h⟩
  intro k f hf
  simp only [St.setMgr] at hf
  by_cases hk : k = c
  · subst hk
    simp only [if_true] at hf
    exact hm f hf
  · simp only [hk, if_false] at hf
    exact Or.inl hf

theorem HeldDeps.syn {cfg : Cfg} {s s' : St} (h : HeldDeps cfg s) (x : Syn cfg s s') :
    HeldDeps cfg s' := by
  intro k f hf
  rcases x.held k f hf with h1 | h1
  · exact h k f h1
  · exact h1

theorem Syn.closed {cfg : Cfg} {s s' : St} (x : Syn cfg s s') (hw : inWindow s.trace = false) :
    inWindow s'.trace = false := by
  obtain ⟨evs, ht, hq⟩ := x.trace
  cases hc : inWindow s'.trace with
  | false => rfl
  | true =>
    rw [ht] at hc
    rw [inWindow_noBody_append hq _ hc] at hw
    cases hw

theorem Syn.mono {cfg : Cfg} {s s' : St} (x : Syn cfg s s') (hw : inWindow s'.trace = true) :
    inWindow s.trace = true := by
  cases hc : inWindow s.trace with
  | true => rfl
  | false => rw [x.closed hc] at hw; cases hw

theorem Syn.good {cfg : Cfg} {s s' : St} (x : Syn cfg s s') (hw : inWindow s.trace = false)
    (hg : always (condOrder cfg) s.trace = true) : always (condOrder cfg) s'.trace = true := by
  obtain ⟨evs, ht, hq⟩ := x.trace
  rw [ht]
  exact good_noBody_append cfg hq hw hg

/-! ### the operations -/

def TdSyn (cfg : Cfg) (td : Nat → St → R) : Prop := ∀ c s, Syn cfg s (td c s).1

def RxSyn (cfg : Cfg) (rx : Frame → St → Option Exc → R) : Prop := ∀ f s e, Syn cfg s (rx f s e).1

/-- entering a request; the frame it returns is on the requested class with the requested
    exclusivity -/
def ReSyn (cfg : Cfg) (re : Bool → Nat → Bool → Bool → Option Bool → St → St × (Frame ⊕ Exc)) : Prop :=
  ∀ dep c reset excl roe s, Syn cfg s (re dep c reset excl roe s).1 ∧
    ∀ f, (re dep c reset excl roe s).2 = .inl f → f.cls = c ∧ f.excl = excl

def DepSyn (cfg : Cfg) (re : Nat → Bool → St → St × (Frame ⊕ Exc)) : Prop :=
  ∀ d x s, Syn cfg s (re d x s).1 ∧ ∀ f, (re d x s).2 = .inl f → f.cls = d ∧ f.excl = x

def IniSyn (cfg : Cfg) (ini : Nat → St → R) : Prop := ∀ c s, Syn cfg s (ini c s).1

section
variable (cfg : Cfg)

theorem syn_newExc (s : St) (k : Kind) : Syn cfg s (s.newExc k).1 := Syn.same cfg rfl rfl rfl rfl

theorem syn_ctxError (s : St) : Syn cfg s s.ctxError.1 := syn_newExc cfg s .ctx

theorem syn_log (s : St) {ev : Ev} (h : ev.noBody = true) : Syn cfg s (s.log ev) :=
  Syn.logs cfg [ev] rfl (by simpa using h) rfl rfl rfl

theorem syn_setObj (s : St) (o : Nat) (x : Obj) : Syn cfg s (s.setObj o x) := Syn.same cfg rfl rfl rfl rfl

theorem machineDown_syn (s : St) (o : Nat) : Syn cfg s (machineDown cfg s o).1 := by
  unfold machineDown
  simp only
  split
  · exact Syn.logs cfg [.created _, .down _ _] rfl (by simp [Ev.noBody]) rfl rfl rfl
  · exact Syn.logs cfg [.down _ _] rfl (by simp [Ev.noBody]) rfl rfl rfl

theorem machineUp_syn (s : St) (o : Nat) : Syn cfg s (machineUp cfg s o).1 := by
  unfold machineUp
  simp only
  split
  · exact Syn.logs cfg [.down _ _, .created _, .init _ _] rfl (by simp [Ev.noBody]) rfl rfl rfl
  · exact Syn.logs cfg [.init _ _] rfl (by simp [Ev.noBody]) rfl rfl rfl

theorem objExit_syn (s : St) (o : Nat) : Syn cfg s (objExit cfg s o).1 := by
  unfold objExit
  simp only
  split
  · exact (syn_setObj cfg s o _).trans (machineDown_syn cfg _ o)
  · exact syn_setObj cfg s o _

theorem objEnter_syn (s : St) (o : Nat) : Syn cfg s (objEnter cfg s o).1 := by
  unfold objEnter
  simp only
  split
  · exact syn_setObj cfg s o _
  · exact machineUp_syn cfg s o

theorem objEnter_syn_eq {s : St} {o : Nat} {r : R} (h : objEnter cfg s o = r) : Syn cfg s r.1 :=
  h ▸ objEnter_syn cfg s o

theorem exitFrames_syn {rx : Frame → St → Option Exc → R} (hrx : RxSyn cfg rx) :
    ∀ (L : List Frame) (s : St) (e : Option Exc), Syn cfg s (exitFramesWith rx L s e).1 := by
  intro L
  induction L with
  | nil => intro s e; exact Syn.refl cfg s
  | cons f fs ih =>
    intro s e
    unfold exitFramesWith
    exact (hrx f s e).trans (ih _ _)

theorem teardownF_syn {rx : Frame → St → Option Exc → R} (hrx : RxSyn cfg rx) :
    TdSyn cfg (teardownF cfg rx) := by
  intro c s
  unfold teardownF
  cases hi : (s.mgr c).inst with
  | none => exact syn_ctxError cfg s
  | some o =>
    simp only
    refine ((((syn_setObj cfg s o _).trans (Syn.setMgr cfg _ c _ (by simp))).trans
      (objExit_syn cfg _ o)).trans (exitFrames_syn cfg hrx _ _ _)).trans (Syn.setMgr cfg _ c _ ?_)
    intro f hf
    exact Or.inl hf

theorem roeStep_syn {td : Nat → St → R} (htd : TdSyn cfg td) (f : Frame) (s : St) (e : Option Exc) :
    Syn cfg s (roeStep td f s e).1 := by
  unfold roeStep
  cases e with
  | none => exact Syn.refl cfg s
  | some ex =>
    simp only
    split
    · exact htd f.cls s
    · exact Syn.refl cfg s

theorem finallyStep_syn {td : Nat → St → R} (htd : TdSyn cfg td) (c : Nat) (excl : Bool) (s : St)
    (e : Option Exc) : Syn cfg s (finallyStep td c excl s e).1 := by
  unfold finallyStep
  split
  · split
    · exact htd c s
    · exact Syn.refl cfg s
  · exact Syn.refl cfg s

theorem reqExitF_syn {td : Nat → St → R} (htd : TdSyn cfg td) : RxSyn cfg (reqExitF cfg td) := by
  intro f s e
  unfold reqExitF
  simp only
  have h0 := roeStep_syn cfg htd f s e
  generalize roeStep td f s e = r0 at h0 ⊢
  have h1 := objExit_syn cfg r0.1 f.obj
  generalize objExit cfg r0.1 f.obj = r1 at h1 ⊢
  refine Syn.trans ?_ (syn_log cfg _ rfl)
  refine Syn.trans ?_ (finallyStep_syn cfg htd f.cls f.excl _ _)
  refine Syn.trans (h0.trans h1) ?_
  exact Syn.trans (b := { r1.1 with open_ := r1.1.open_.filter fun g => g.id != f.id })
    (Syn.same cfg rfl rfl rfl rfl) (Syn.setMgr cfg _ f.cls _ (fun g hg => Or.inl hg))

theorem enterDeps_syn {re : Nat → Bool → St → St × (Frame ⊕ Exc)} (hre : DepSyn cfg re) (c : Nat) :
    ∀ (ds : List (Nat × Bool)) (s : St) (L : List Frame), (∀ d ∈ ds, d ∈ cfg.depsOf c) →
      (∀ f ∈ L, (f.cls, f.excl) ∈ cfg.depsOf c) →
      Syn cfg s (enterDepsWith re ds s L).1 ∧
      ∀ f ∈ (enterDepsWith re ds s L).2.1, (f.cls, f.excl) ∈ cfg.depsOf c := by
  intro ds
  induction ds with
  | nil => intro s L _ hL; exact ⟨Syn.refl cfg s, hL⟩
  | cons d ds ih =>
    intro s L hds hL
    unfold enterDepsWith
    have h1 := hre d.1 d.2 s
    generalize re d.1 d.2 s = r at h1 ⊢
    obtain ⟨s1, res⟩ := r
    cases res with
    | inr e => exact ⟨h1.1, hL⟩
    | inl f =>
      simp only
      obtain ⟨hc, hx⟩ := h1.2 f rfl
      have hL' : ∀ g ∈ L ++ [f], (g.cls, g.excl) ∈ cfg.depsOf c := by
        intro g hg
        rcases List.mem_append.mp hg with hg | hg
        · exact hL g hg
        · simp at hg
          subst hg
          rw [hc, hx]
          exact hds d (by simp)
      have h2 := ih s1 (L ++ [f]) (fun d' hd' => hds d' (List.mem_cons_of_mem _ hd')) hL'
      exact ⟨h1.1.trans h2.1, h2.2⟩

theorem initClsF_syn {re : Nat → Bool → St → St × (Frame ⊕ Exc)} {rx : Frame → St → Option Exc → R}
    (hre : DepSyn cfg re) (hrx : RxSyn cfg rx) : IniSyn cfg (initClsF cfg re rx) := by
  intro c s
  unfold initClsF
  split
  · exact syn_ctxError cfg s
  · simp only
    have ha : Syn cfg s (s.setMgr c { s.mgr c with avail := true }) :=
      Syn.setMgr cfg s c _ (fun f hf => Or.inl hf)
    have hE := enterDeps_syn cfg hre c (cfg.depsOf c) (s.setMgr c { s.mgr c with avail := true }) []
      (fun _ hd => hd) (by simp)
    generalize enterDepsWith re (cfg.depsOf c) (s.setMgr c { s.mgr c with avail := true }) [] = r at hE ⊢
    obtain ⟨s1, L, eo⟩ := r
    simp only at hE ⊢
    cases eo with
    | some ex =>
      simp only
      exact (ha.trans hE.1).trans (exitFrames_syn cfg hrx _ _ _)
    | none =>
      simp only
      have hn : Syn cfg s1 (({ s1 with nObj := s1.nObj + 1 } : St).setObj s1.nObj
          { cls := c, rc := 0, up := false }) := Syn.same cfg rfl rfl rfl rfl
      have hu := machineUp_syn cfg (({ s1 with nObj := s1.nObj + 1 } : St).setObj s1.nObj
          { cls := c, rc := 0, up := false }) s1.nObj
      generalize machineUp cfg (({ s1 with nObj := s1.nObj + 1 } : St).setObj s1.nObj
          { cls := c, rc := 0, up := false }) s1.nObj = r1 at hu ⊢
      cases hr1 : r1.2 with
      | some ex =>
        simp only
        exact (((ha.trans hE.1).trans hn).trans hu).trans (exitFrames_syn cfg hrx _ _ _)
      | none =>
        simp only
        refine (((ha.trans hE.1).trans hn).trans hu).trans (Syn.setMgr cfg _ c _ ?_)
        intro f hf
        exact Or.inr (hE.2 f hf)

theorem resetStep_syn {td : Nat → St → R} (htd : TdSyn cfg td) (c : Nat) (reset : Bool) (s : St) :
    Syn cfg s (resetStep td c reset s).1 := by
  unfold resetStep
  split
  · exact htd c s
  · exact Syn.refl cfg s

theorem ensureStep_syn {ini : Nat → St → R} (hini : IniSyn cfg ini) (c : Nat) (s : St) :
    Syn cfg s (ensureStep ini c s).1 := by
  unfold ensureStep
  split
  · exact hini c s
  · exact Syn.refl cfg s

theorem nodup_order_append {l : List Nat} {c : Nat} (h : l.Nodup) (hc : l.contains c = false) :
    (l ++ [c]).Nodup := by
  rw [List.nodup_append]
  refine ⟨h, by simp, ?_⟩
  intro a ha b hb
  simp at hb
  subst hb
  intro hab
  subst hab
  simp at hc
  exact hc ha

theorem syn_order (s : St) (c : Nat) :
    Syn cfg s (if s.order.contains c then s else { s with order := s.order ++ [c] }) := by
  split
  · exact Syn.refl cfg s
  · rename_i hc
    refine ⟨⟨[], rfl, by simp⟩, fun _ _ h => Or.inl h, rfl, ?_⟩
    intro hn
    exact nodup_order_append hn (by simpa using hc)

/-- the managers hold no more frames than before, the log is the same -/
theorem Syn.sub (cfg : Cfg) {s s' : St} (ht : s'.trace = s.trace) (hk : s'.keepAlive = s.keepAlive)
    (ho : s'.order = s.order) (hm : ∀ k f, f ∈ (s'.mgrs k).held → f ∈ (s.mgrs k).held) :
    Syn cfg s s' :=
  ⟨⟨[], by simpa using ht, by simp⟩, fun k f h => Or.inl (hm k f h), hk, fun h => by rwa [ho]⟩

theorem admitStep_syn {td : Nat → St → R} (htd : TdSyn cfg td) (dep : Bool) (c : Nat) (excl roe : Bool)
    (s : St) : Syn cfg s (admitStep cfg td dep c excl roe s).1 ∧
      ∀ f, (admitStep cfg td dep c excl roe s).2 = .inl f → f.cls = c ∧ f.excl = excl := by
  unfold admitStep
  simp only
  split
  · exact ⟨syn_newExc cfg s .ctx, by simp⟩
  · rename_i o hi
    split
    · exact ⟨syn_newExc cfg s .ctx, by simp⟩
    · generalize hr : objEnter cfg _ o = r2
      have h2 : Syn cfg _ r2.1 := objEnter_syn_eq cfg hr
      have h12 : Syn cfg s r2.1 := by
        refine Syn.trans ?_ h2
        refine Syn.sub cfg rfl rfl rfl ?_
        intro k f hf
        simp only [St.setMgr] at hf
        split at hf
        · rename_i hk
          subst hk
          exact hf
        · exact hf
      cases hr2 : r2.2 with
      | some ex =>
        simp only
        refine ⟨?_, by simp⟩
        refine Syn.trans ?_ (finallyStep_syn cfg htd c excl _ _)
        refine h12.trans (Syn.sub cfg rfl rfl rfl ?_)
        intro k f hf
        simp only [St.setMgr] at hf
        split at hf
        · rename_i hk
          subst hk
          exact hf
        · exact hf
      | none =>
        simp only
        refine ⟨?_, ?_⟩
        · exact (h12.trans (syn_order cfg r2.1 c)).trans (syn_log cfg _ rfl)
        · intro f hf
          simp at hf
          subst hf
          exact ⟨rfl, rfl⟩

theorem reqEnterF_syn {td ini : Nat → St → R} (htd : TdSyn cfg td) (hini : IniSyn cfg ini) :
    ReSyn cfg (reqEnterF cfg td ini) := by
  intro dep c reset excl roe s
  unfold reqEnterF
  simp only
  split
  · exact ⟨syn_newExc cfg s .ctx, by simp⟩
  · have h0 := resetStep_syn cfg htd c reset s
    generalize resetStep td c reset s = r0 at h0 ⊢
    cases he0 : r0.2 with
    | some ex => exact ⟨h0, by simp⟩
    | none =>
      simp only
      have h1 := ensureStep_syn cfg hini c r0.1
      generalize ensureStep ini c r0.1 = r1 at h1 ⊢
      cases he1 : r1.2 with
      | some ex => exact ⟨h0.trans h1, by simp⟩
      | none =>
        simp only
        have h2 := admitStep_syn cfg htd dep c excl (roe.getD s.roeDefault) r1.1
        exact ⟨(h0.trans h1).trans h2.1, h2.2⟩

theorem ops_syn : ∀ k, TdSyn cfg (ops cfg k).teardown ∧ RxSyn cfg (ops cfg k).reqExit ∧
    ReSyn cfg (ops cfg k).reqEnter := by
  intro k
  induction k with
  | zero =>
    refine ⟨fun c s => Syn.refl cfg s, fun f s e => Syn.refl cfg s, ?_⟩
    intro dep c reset excl roe s
    exact ⟨Syn.refl cfg s, by simp [ops]⟩
  | succ k ih =>
    obtain ⟨_, hrx, hre⟩ := ih
    have htd : TdSyn cfg (teardownF cfg (ops cfg k).reqExit) := teardownF_syn cfg hrx
    have hdep : DepSyn cfg (fun d x s => (ops cfg k).reqEnter true d false x none s) :=
      fun d x s => hre true d false x none s
    have hini := initClsF_syn cfg hdep hrx
    exact ⟨htd, reqExitF_syn cfg htd, reqEnterF_syn cfg htd hini⟩

theorem tdLoop_syn {td : Nat → St → R} (htd : TdSyn cfg td) (cond : St → Nat → Bool) :
    ∀ (cs : List Nat) (s : St) (e : Option Exc), Syn cfg s (tdLoop td cond cs s e).1 := by
  intro cs
  induction cs with
  | nil => intro s e; exact Syn.refl cfg s
  | cons c cs ih =>
    intro s e
    unfold tdLoop
    split
    · exact (htd c s).trans (ih _ _)
    · exact ih s e

end

end Ctx
