import TbotVerif.Spec.Quote
/-! Lemmas about `shlex.quote` / `escape` and the hazard-rejecting POSIX splitter
    (quoting part of C01).  The headline theorems are collected in `Props/C01Q.lean`. -/

namespace Quote

/-! ### Facts about the regenerated table `Params.shlexSafe` (re-checked whenever it changes) -/

/-- TABLE FACT: every byte `shlex.quote` leaves unquoted — hence every byte the splitter accepts
    outside quotes — is one a POSIX shell reads literally. -/
theorem shlexSafe_plain : Params.shlexSafe.all posixPlain = true := by decide

/-- TABLE FACT: non-ASCII characters are always quoted by `shlex.quote` (observed on probes) -/
theorem shlexNonAsciiQuoted : Params.shlexNonAsciiQuoted = true := by decide

theorem safeByte_plain {c : Byte} (h : safeByte c = true) : posixPlain c.toNat = true := by
  unfold safeByte at h
  have := List.all_eq_true.mp shlexSafe_plain c.toNat (by simpa using h)
  exact this

/-- what the theorems use: a plain byte is none of the bytes with a meaning to the shell or the
    tty — blank, tab, newline, CR, `'`, `"`, backslash, `$`, backquote, `!`, `#`, `&`, `;`, `|`,
    `<`, `>`, `(`, `)`, `*`, `?`, `[`, `]`, `{`, `}`, `~`, any control byte, any byte >= 0x80 -/
theorem plain_facts {n : Nat} (h : posixPlain n = true) :
    n ≠ 32 ∧ n ≠ 9 ∧ n ≠ 10 ∧ n ≠ 13 ∧ n ≠ 39 ∧ n ≠ 34 ∧ n ≠ 92 ∧ n ≠ 36 ∧ n ≠ 96 ∧ n ≠ 33 ∧ n ≠ 35
    ∧ n ≠ 38 ∧ n ≠ 59 ∧ n ≠ 124 ∧ n ≠ 60 ∧ n ≠ 62 ∧ n ≠ 40 ∧ n ≠ 41 ∧ n ≠ 42 ∧ n ≠ 63 ∧ n ≠ 91
    ∧ n ≠ 93 ∧ n ≠ 123 ∧ n ≠ 125 ∧ n ≠ 126 ∧ 32 < n ∧ n < 127 := by
  simp only [posixPlain, Bool.or_eq_true, Bool.and_eq_true, decide_eq_true_eq, beq_iff_eq] at h
  omega

theorem byte_ne_of_toNat_ne {c d : Byte} (h : c.toNat ≠ d.toNat) : (c == d) = false := by
  cases hcd : c == d
  · rfl
  · exact absurd (by rw [eq_of_beq hcd]) h

theorem safe_ne_SP {c : Byte} (h : safeByte c = true) : (c == SP) = false :=
  byte_ne_of_toNat_ne (plain_facts (safeByte_plain h)).1
theorem safe_ne_SQ {c : Byte} (h : safeByte c = true) : (c == SQ) = false :=
  byte_ne_of_toNat_ne (plain_facts (safeByte_plain h)).2.2.2.2.1
theorem safe_ne_DQ {c : Byte} (h : safeByte c = true) : (c == DQ) = false :=
  byte_ne_of_toNat_ne (plain_facts (safeByte_plain h)).2.2.2.2.2.1

/-- the hazard bytes named in DESIGN C01 are NOT safe: blank, both quotes, backslash, `$`,
    backquote, `!`, newline, CR, tab, `*`, `?`, `[`, `~`, `#`, `;`, `&`, `|`, `<`, `>`, `(`, `)` -/
theorem hazards_not_safe :
    ([32, 39, 34, 92, 36, 96, 33, 10, 13, 9, 42, 63, 91, 126, 35, 59, 38, 124, 60, 62, 40, 41] : List Byte).all
      (fun c => !safeByte c) = true := by decide

/-- every byte >= 0x80 and every control byte is NOT safe -/
theorem nonascii_not_safe {c : Byte} (h : 128 ≤ c.toNat ∨ c.toNat < 32 ∨ c.toNat = 127) : safeByte c = false := by
  cases hs : safeByte c
  · rfl
  · have := plain_facts (safeByte_plain hs); omega

/-! ### The word reader on quoted text -/

@[simp] theorem SQ_ne_SP : (SQ == SP) = false := by decide
@[simp] theorem DQ_ne_SP : (DQ == SP) = false := by decide
@[simp] theorem SQ_ne_DQ : (SQ == DQ) = false := by decide
@[simp] theorem DQ_ne_SQ : (DQ == SQ) = false := by decide
@[simp] theorem dqOk_SQ : dqOk SQ = true := by decide
@[simp] theorem SQ_ne_SP' : ¬ SQ = SP := by decide
@[simp] theorem DQ_ne_SP' : ¬ DQ = SP := by decide
@[simp] theorem SQ_ne_DQ' : ¬ SQ = DQ := by decide
@[simp] theorem DQ_ne_SQ' : ¬ DQ = SQ := by decide

theorem wordAux_safe (s : Bytes) (hs : s.all safeByte = true) (w rest : Bytes) :
    wordAux .U w (s ++ rest) = wordAux .U (w ++ s) rest := by
  induction s generalizing w with
  | nil => simp
  | cons c cs ih =>
    simp only [List.all_cons, Bool.and_eq_true] at hs
    simp only [List.cons_append, wordAux, safe_ne_SP hs.1, safe_ne_SQ hs.1, safe_ne_DQ hs.1, hs.1,
      Bool.false_eq_true, if_false, if_true]
    rw [ih hs.2]; simp

theorem wordAux_body (s : Bytes) (w rest : Bytes) :
    wordAux .S w (quoteBody s ++ rest) = wordAux .S (w ++ s) rest := by
  induction s generalizing w with
  | nil => simp [quoteBody]
  | cons c cs ih =>
    unfold quoteBody
    by_cases hc : c == SQ
    · have : c = SQ := eq_of_beq hc
      subst this
      simp only [beq_self_eq_true, if_true, List.cons_append, wordAux, DQ_ne_SQ, DQ_ne_SP, SQ_ne_DQ, SQ_ne_SP,
        dqOk_SQ, Bool.false_eq_true, if_false]
      rw [ih]; simp
    · simp only [hc, Bool.false_eq_true, if_false, List.cons_append, wordAux]
      rw [ih]; simp

/-- `shlex.quote s` followed by the end of the line is read as exactly the word `s` -/
theorem wordAux_quote_end (s : Bytes) : wordAux .U [] (shlexQuote s) = some (s, none) := by
  unfold shlexQuote
  by_cases he : s.isEmpty
  · have : s = [] := by simpa using he
    subst this
    simp [wordAux]
  · by_cases hs : s.all safeByte
    · have := wordAux_safe s hs [] []
      simp only [List.append_nil, List.nil_append] at this
      simp only [he, hs, Bool.false_eq_true, if_false, if_true, this, wordAux]
    · have h := wordAux_body s [] [SQ]
      simp only [List.nil_append] at h
      simp only [he, hs, Bool.false_eq_true, if_false, wordAux, beq_self_eq_true, if_true]
      have h0 : (SQ == SP) = false := by decide
      simp [h0, h, wordAux]

/-- `shlex.quote s` followed by a blank is read as exactly the word `s`, the rest is untouched -/
theorem wordAux_quote_sp (s r : Bytes) : wordAux .U [] (shlexQuote s ++ SP :: r) = some (s, some r) := by
  unfold shlexQuote
  by_cases he : s.isEmpty
  · have : s = [] := by simpa using he
    subst this
    simp [wordAux]
  · by_cases hs : s.all safeByte
    · have := wordAux_safe s hs [] (SP :: r)
      simp only [List.nil_append] at this
      simp only [he, hs, Bool.false_eq_true, if_false, if_true, this, wordAux, beq_self_eq_true]
    · have h := wordAux_body s [] (SQ :: SP :: r)
      simp only [List.nil_append] at h
      have h0 : (SQ == SP) = false := by decide
      simp only [he, hs, Bool.false_eq_true, if_false, List.cons_append, List.append_assoc, List.nil_append, wordAux,
        h0, beq_self_eq_true, if_true, h]

theorem shlexQuote_ne_nil (s : Bytes) : shlexQuote s ≠ [] := by
  unfold shlexQuote
  by_cases he : s.isEmpty
  · simp [he]
  · by_cases hs : s.all safeByte
    · simp only [he, hs, Bool.false_eq_true, if_false, if_true]; simpa using he
    · simp [he, hs]

/-- the quoted text never starts with a blank -/
theorem shlexQuote_head (s : Bytes) : ∃ c cs, shlexQuote s = c :: cs ∧ (c == SP) = false := by
  unfold shlexQuote
  by_cases he : s.isEmpty
  · exact ⟨SQ, [SQ], by simp [he], by decide⟩
  · by_cases hs : s.all safeByte
    · cases s with
      | nil => simp at he
      | cons c cs =>
        simp only [List.all_cons, Bool.and_eq_true] at hs
        exact ⟨c, cs, by simp [List.all_cons, hs.1, hs.2], safe_ne_SP hs.1⟩
    · exact ⟨SQ, quoteBody s ++ [SQ], by simp [he, hs], by decide⟩

theorem firstWord_of_head {l : Bytes} (h : ∃ c cs, l = c :: cs ∧ (c == SP) = false) :
    firstWord l = wordAux .U [] l := by
  obtain ⟨c, cs, rfl, hc⟩ := h
  simp [firstWord, hc]

theorem firstWord_quote_end (s : Bytes) : firstWord (shlexQuote s) = some (s, none) := by
  rw [firstWord_of_head (shlexQuote_head s), wordAux_quote_end]

theorem firstWord_quote_sp (s r : Bytes) : firstWord (shlexQuote s ++ SP :: r) = some (s, some r) := by
  rw [firstWord_of_head, wordAux_quote_sp]
  obtain ⟨c, cs, h, hc⟩ := shlexQuote_head s
  exact ⟨c, cs ++ SP :: r, by rw [h]; rfl, hc⟩

/-! ### From one word to the whole line: `wordAux` and `split` agree -/

/-- what `split` does after a word has been read -/
def after (acc : List Bytes) (x : Bytes) : Option Bytes → Option (List Bytes)
  | none => some ((x :: acc).reverse)
  | some r => split .U none (x :: acc) r

theorem split_of_wordAux (l : Bytes) : ∀ (q : QS) (w x : Bytes) (t : Option Bytes) (acc : List Bytes),
    wordAux q w l = some (x, t) → split q (some w) acc l = after acc x t := by
  induction l with
  | nil =>
    intro q w x t acc h
    cases q <;> simp [wordAux] at h
    obtain ⟨rfl, rfl⟩ := h
    simp [split, after]
  | cons c cs ih =>
    intro q w x t acc h
    cases q with
    | U =>
      simp only [wordAux] at h
      simp only [split, Option.getD_some]
      by_cases h1 : c == SP
      · simp only [h1, if_true, Option.some.injEq, Prod.mk.injEq] at h
        obtain ⟨rfl, rfl⟩ := h
        simp [h1, after]
      · simp only [h1, Bool.false_eq_true, if_false] at h ⊢
        by_cases h2 : c == SQ
        · simp only [h2, if_true] at h ⊢; exact ih _ _ _ _ _ h
        · simp only [h2, Bool.false_eq_true, if_false] at h ⊢
          by_cases h3 : c == DQ
          · simp only [h3, if_true] at h ⊢; exact ih _ _ _ _ _ h
          · simp only [h3, Bool.false_eq_true, if_false] at h ⊢
            by_cases h4 : safeByte c
            · simp only [h4, if_true] at h ⊢; exact ih _ _ _ _ _ h
            · simp [h4] at h
    | S =>
      simp only [wordAux] at h
      simp only [split, Option.getD_some]
      by_cases h1 : c == SQ
      · simp only [h1, if_true] at h ⊢; exact ih _ _ _ _ _ h
      · simp only [h1, Bool.false_eq_true, if_false] at h ⊢; exact ih _ _ _ _ _ h
    | D =>
      simp only [wordAux] at h
      simp only [split, Option.getD_some]
      by_cases h1 : c == DQ
      · simp only [h1, if_true] at h ⊢; exact ih _ _ _ _ _ h
      · simp only [h1, Bool.false_eq_true, if_false] at h ⊢
        by_cases h2 : dqOk c
        · simp only [h2, if_true] at h ⊢; exact ih _ _ _ _ _ h
        · simp [h2] at h

/-- at the start of a word it makes no difference whether a word "has started" -/
theorem split_none_eq_some_nil (acc : List Bytes) (c : Byte) (cs : Bytes) (hc : (c == SP) = false) :
    split .U none acc (c :: cs) = split .U (some []) acc (c :: cs) := by
  simp [split, hc]

theorem split_of_firstWord {l x : Bytes} {t : Option Bytes} (acc : List Bytes)
    (h : firstWord l = some (x, t)) : split .U none acc l = after acc x t := by
  cases l with
  | nil => simp [firstWord] at h
  | cons c cs =>
    by_cases hc : c == SP
    · simp [firstWord, hc] at h
    · have hc' : (c == SP) = false := by simpa using hc
      simp only [firstWord, hc', Bool.false_eq_true, if_false] at h
      rw [split_none_eq_some_nil acc c cs hc']
      exact split_of_wordAux _ _ _ _ _ _ h

/-! ### T1: the shell's argument vector of `escape args` is `args` -/

theorem split_escape (args : List Bytes) : ∀ acc, split .U none acc (escape args) = some (acc.reverse ++ args) := by
  induction args with
  | nil => intro acc; simp [escape, joinSp, split]
  | cons a rest ih =>
    intro acc
    cases rest with
    | nil =>
      simp only [escape, List.map, joinSp]
      rw [split_of_firstWord acc (firstWord_quote_end a)]
      simp [after]
    | cons b rest' =>
      have : escape (a :: b :: rest') = shlexQuote a ++ SP :: escape (b :: rest') := by
        simp [escape, joinSp]
      rw [this, split_of_firstWord acc (firstWord_quote_sp a _)]
      simp only [after]
      rw [ih]; simp

/-! ### The segment check on a blank-joined line (generic in the word reader) -/

/-- a piece of text `t` realises the atoms `A`: alone at the end of the line, and followed by a
    blank and more -/
def Good (fw : Bytes → Option (Bytes × Option Bytes)) (A : List Atom) (t : Bytes) : Prop :=
  A ≠ [] ∧ segCheck fw A t = true ∧
    ∀ B, B ≠ [] → ∀ r, segCheck fw (A ++ B) (t ++ SP :: r) = segCheck fw B r

theorem segCheck_join (fw : Bytes → Option (Bytes × Option Bytes)) :
    ∀ items : List (List Atom × Bytes), (∀ i ∈ items, Good fw i.1 i.2) →
      segCheck fw (items.flatMap (·.1)) (joinSp (items.map (·.2))) = true := by
  intro items
  induction items with
  | nil => intro _; simp [joinSp, segCheck]
  | cons i rest ih =>
    intro h
    have hi := h i (by simp)
    have hrest : ∀ j ∈ rest, Good fw j.1 j.2 := fun j hj => h j (by simp [hj])
    cases rest with
    | nil => simpa [joinSp] using hi.2.1
    | cons j rest' =>
      have hne : (j :: rest').flatMap (·.1) ≠ [] := by
        have := (hrest j (by simp)).1
        cases hj : j.1 with
        | nil => exact absurd hj this
        | cons a as => simp [List.flatMap_cons, hj]
      have : joinSp ((i :: j :: rest').map (·.2)) = i.2 ++ SP :: joinSp ((j :: rest').map (·.2)) := by
        simp [joinSp]
      rw [this, List.flatMap_cons, hi.2.2 _ hne]
      exact ih hrest

theorem good_word {fw : Bytes → Option (Bytes × Option Bytes)} {q : Bytes → Bytes}
    (h1 : ∀ s, fw (q s) = some (s, none)) (h2 : ∀ s r, fw (q s ++ SP :: r) = some (s, some r)) (s : Bytes) :
    Good fw [.word s] (q s) := by
  refine ⟨by simp, by simp [segCheck, h1], ?_⟩
  intro B hB r
  cases B with
  | nil => exact absurd rfl hB
  | cons b bs => simp [segCheck, h2]

theorem isPrefixOf_append_self (t r : Bytes) : t.isPrefixOf (t ++ r) = true := by
  induction t with
  | nil => simp
  | cons c cs ih => simp [ih]

theorem good_lit (fw : Bytes → Option (Bytes × Option Bytes)) (t : Bytes) : Good fw [.lit t] t := by
  refine ⟨by simp, by simp [segCheck], ?_⟩
  intro B hB r
  cases B with
  | nil => exact absurd rfl hB
  | cons b bs =>
    simp only [List.cons_append, List.nil_append, segCheck, isPrefixOf_append_self, Bool.true_and]
    rw [List.drop_left]
    simp

theorem good_redir (pre p post : Bytes) (hp : post.isEmpty || post.head? == some SP) :
    Good firstWord (Arg.atoms (.redir pre p post)) (pre ++ shlexQuote p ++ post) := by
  unfold Arg.atoms
  by_cases he : post.isEmpty
  · have : post = [] := by simpa using he
    subst this
    refine ⟨by simp, ?_, ?_⟩
    · simp [segCheck, isPrefixOf_append_self, firstWord_quote_end]
    · intro B hB r
      cases B with
      | nil => exact absurd rfl hB
      | cons b bs =>
        simp [segCheck, isPrefixOf_append_self, firstWord_quote_sp]
  · simp only [he, Bool.false_or, beq_iff_eq] at hp
    cases post with
    | nil => simp at he
    | cons c post' =>
      simp only [List.head?_cons, Option.some.injEq] at hp
      subst hp
      refine ⟨by simp, ?_, ?_⟩
      · simp [segCheck, isPrefixOf_append_self, firstWord_quote_sp]
      · intro B hB r
        cases B with
        | nil => exact absurd rfl hB
        | cons b bs =>
          simp only [List.isEmpty_cons, Bool.false_eq_true, if_false, List.drop_succ_cons, List.drop_zero,
            List.cons_append, List.nil_append, segCheck, List.append_assoc, isPrefixOf_append_self, Bool.true_and,
            List.drop_left, firstWord_quote_sp, beq_self_eq_true]

/-- every supported, well-formed argument renders to text that realises its atoms -/
theorem good_arg (a : Arg) (hw : a.wf = true) (t : Bytes) (hr : a.render = some t) :
    Good firstWord a.atoms t := by
  cases a with
  | str s =>
    simp only [Arg.render, Option.some.injEq] at hr; subst hr
    exact good_word firstWord_quote_end firstWord_quote_sp s
  | raw s =>
    simp only [Arg.render, Option.some.injEq] at hr; subst hr
    exact good_lit _ s
  | redir pre p post =>
    simp only [Arg.render, Option.some.injEq] at hr; subst hr
    exact good_redir pre p post hw
  | other => simp [Arg.render] at hr

theorem mapM_some_cons {α β} (f : α → Option β) (a : α) (as : List α) (ys : List β)
    (h : (a :: as).mapM f = some ys) : ∃ y ys', f a = some y ∧ as.mapM f = some ys' ∧ ys = y :: ys' := by
  simp only [List.mapM_cons] at h
  cases hfa : f a with
  | none => simp [hfa] at h
  | some y =>
    cases has : as.mapM f with
    | none => simp [hfa, has] at h
    | some ys' =>
      simp [hfa, has] at h
      exact ⟨y, ys', rfl, rfl, h.symm⟩

/-- the rendered pieces, paired with the atoms they must realise -/
theorem items_of_mapM : ∀ (args : List Arg) (ts : List Bytes), args.all Arg.wf = true → args.mapM Arg.render = some ts →
    ∃ items : List (List Atom × Bytes), items.map (·.2) = ts ∧ items.flatMap (·.1) = args.flatMap Arg.atoms
      ∧ ∀ i ∈ items, Good firstWord i.1 i.2 := by
  intro args
  induction args with
  | nil => intro ts _ h; simp at h; subst h; exact ⟨[], by simp⟩
  | cons a as ih =>
    intro ts hw h
    obtain ⟨y, ys', hy, hys, rfl⟩ := mapM_some_cons _ _ _ _ h
    simp only [List.all_cons, Bool.and_eq_true] at hw
    obtain ⟨items, h1, h2, h3⟩ := ih ys' hw.2 hys
    refine ⟨(a.atoms, y) :: items, by simp [h1], by simp [h2], ?_⟩
    intro i hi
    simp only [List.mem_cons] at hi
    rcases hi with rfl | hi
    · exact good_arg a hw.1 y hy
    · exact h3 i hi

/-- the line `escape` returns consists of exactly the expected atoms -/
theorem segCheck_escapeArgs (args : List Arg) (l : Bytes) (hw : args.all Arg.wf = true)
    (h : escapeArgs args = some l) : segCheck firstWord (args.flatMap Arg.atoms) l = true := by
  unfold escapeArgs at h
  cases hm : args.mapM Arg.render with
  | none => simp [hm] at h
  | some ts =>
    simp only [hm, Option.map_some, Option.some.injEq] at h
    obtain ⟨items, h1, h2, h3⟩ := items_of_mapM args ts hw hm
    rw [← h, ← h1, ← h2]
    exact segCheck_join firstWord items h3

/-! ### T2: quoting adds only blanks and quote characters (counts, CR/LF, black-lists) -/

theorem count_quoteBody (c : Byte) (h1 : c ≠ SQ) (h2 : c ≠ DQ) (s : Bytes) :
    (quoteBody s).count c = s.count c := by
  induction s with
  | nil => simp [quoteBody]
  | cons d ds ih =>
    unfold quoteBody
    by_cases hd : d == SQ
    · have : d = SQ := eq_of_beq hd
      subst this
      have e1 : (SQ == c) = false := by simpa using fun h => h1 h.symm
      have e2 : (DQ == c) = false := by simpa using fun h => h2 h.symm
      simp [List.count_cons, e1, e2, ih]
    · simp [hd, List.count_cons, ih]

/-- `shlex.quote` adds nothing but `'` and `"` -/
theorem count_shlexQuote (c : Byte) (h1 : c ≠ SQ) (h2 : c ≠ DQ) (s : Bytes) :
    (shlexQuote s).count c = s.count c := by
  unfold shlexQuote
  have e1 : (SQ == c) = false := by simpa using fun h => h1 h.symm
  by_cases he : s.isEmpty
  · have : s = [] := by simpa using he
    subst this
    simp [List.count_cons, e1]
  · by_cases hs : s.all safeByte
    · simp [he, hs]
    · simp [he, hs, List.count_cons, e1, count_quoteBody c h1 h2]

/-- joining adds nothing but blanks -/
theorem count_joinSp (c : Byte) (h : c ≠ SP) : ∀ ws : List Bytes, (joinSp ws).count c = (ws.map (·.count c)).sum := by
  have e : (SP == c) = false := by simpa using fun h' => h h'.symm
  intro ws
  induction ws with
  | nil => simp [joinSp]
  | cons w rest ih =>
    cases rest with
    | nil => simp [joinSp]
    | cons v rest' =>
      have : joinSp (w :: v :: rest') = w ++ SP :: joinSp (v :: rest') := by simp [joinSp]
      rw [this, List.count_append, List.count_cons, ih]
      simp [e]

theorem count_render (c : Byte) (h1 : c ≠ SQ) (h2 : c ≠ DQ) (a : Arg) (t : Bytes) (h : a.render = some t) :
    t.count c = a.payload.count c := by
  cases a with
  | str s => simp only [Arg.render, Option.some.injEq] at h; subst h; exact count_shlexQuote c h1 h2 s
  | raw s => simp only [Arg.render, Option.some.injEq] at h; subst h; rfl
  | redir pre p post =>
    simp only [Arg.render, Option.some.injEq] at h; subst h
    simp [Arg.payload, List.count_append, count_shlexQuote c h1 h2]
  | other => simp [Arg.render] at h

theorem count_mapM_render (c : Byte) (h1 : c ≠ SQ) (h2 : c ≠ DQ) : ∀ (args : List Arg) (ts : List Bytes),
    args.mapM Arg.render = some ts → (ts.map (·.count c)).sum = countPayload c args := by
  intro args
  induction args with
  | nil => intro ts h; simp at h; subst h; simp [countPayload]
  | cons a as ih =>
    intro ts h
    obtain ⟨y, ys', hy, hys, rfl⟩ := mapM_some_cons _ _ _ _ h
    have := ih ys' hys
    simp only [countPayload] at this ⊢
    simp [this, count_render c h1 h2 a y hy]

/-- for every byte other than blank, `'` and `"`: the line contains it exactly as often as the
    arguments do (in particular: `escape` never introduces CR or LF) -/
theorem count_escapeArgs (c : Byte) (h0 : c ≠ SP) (h1 : c ≠ SQ) (h2 : c ≠ DQ) (args : List Arg) (l : Bytes)
    (h : escapeArgs args = some l) : l.count c = countPayload c args := by
  unfold escapeArgs at h
  cases hm : args.mapM Arg.render with
  | none => simp [hm] at h
  | some ts =>
    simp only [hm, Option.map_some, Option.some.injEq] at h
    rw [← h, count_joinSp c h0, count_mapM_render c h1 h2 args ts hm]

theorem escapeArgs_str (args : List Bytes) : escapeArgs (args.map .str) = some (escape args) := by
  have : (args.map Arg.str).mapM Arg.render = some (args.map shlexQuote) := by
    induction args with
    | nil => simp
    | cons a as ih => simp [List.mapM_cons, ih, Arg.render]
  simp [escapeArgs, this, escape]

theorem countPayload_str (c : Byte) (args : List Bytes) :
    countPayload c (args.map .str) = (args.map (·.count c)).sum := by
  simp [countPayload, List.map_map, Function.comp_def, Arg.payload]

theorem count_escape (c : Byte) (h0 : c ≠ SP) (h1 : c ≠ SQ) (h2 : c ≠ DQ) (args : List Bytes) :
    (escape args).count c = (args.map (·.count c)).sum := by
  rw [count_escapeArgs c h0 h1 h2 _ _ (escapeArgs_str args), countPayload_str]

theorem forbidden_iff (bl l : Bytes) : forbidden bl l = true ↔ ∃ c, c ∈ bl ∧ c ∈ l := by
  simp only [forbidden, List.any_eq_true, List.contains_iff_mem]
  constructor
  · rintro ⟨c, h1, h2⟩; exact ⟨c, h2, h1⟩
  · rintro ⟨c, h1, h2⟩; exact ⟨c, h2, h1⟩

theorem sum_pos_iff (xs : List Nat) : 0 < xs.sum ↔ ∃ x ∈ xs, 0 < x := by
  induction xs with
  | nil => simp
  | cons x xs ih =>
    simp only [List.sum_cons, List.mem_cons, exists_eq_or_imp]
    rw [← ih]; omega

theorem mem_iff_countPayload (c : Byte) (args : List Arg) :
    0 < countPayload c args ↔ ∃ a ∈ args, c ∈ a.payload := by
  unfold countPayload
  rw [sum_pos_iff]
  simp only [List.mem_map]
  constructor
  · rintro ⟨x, ⟨a, ha, rfl⟩, hx⟩; exact ⟨a, ha, List.count_pos_iff.mp hx⟩
  · rintro ⟨a, ha, hc⟩; exact ⟨_, ⟨a, ha, rfl⟩, List.count_pos_iff.mpr hc⟩

theorem blOk_iff (bl : Bytes) : blOk bl = true ↔ SP ∉ bl ∧ SQ ∉ bl ∧ DQ ∉ bl := by
  simp [blOk, and_assoc]

/-- a black-listed byte is in the line iff it is in (the payload of) an argument -/
theorem forbidden_escapeArgs (bl : Bytes) (hbl : blOk bl = true) (args : List Arg) (l : Bytes)
    (h : escapeArgs args = some l) :
    forbidden bl l = true ↔ ∃ a ∈ args, forbidden bl a.payload = true := by
  obtain ⟨b0, b1, b2⟩ := (blOk_iff bl).mp hbl
  simp only [forbidden_iff]
  constructor
  · rintro ⟨c, hc, hl⟩
    have hcnt := count_escapeArgs c (fun e => b0 (e ▸ hc)) (fun e => b1 (e ▸ hc)) (fun e => b2 (e ▸ hc)) args l h
    have : 0 < countPayload c args := by rw [← hcnt]; exact List.count_pos_iff.mpr hl
    obtain ⟨a, ha, hca⟩ := (mem_iff_countPayload c args).mp this
    exact ⟨a, ha, c, hc, hca⟩
  · rintro ⟨a, ha, c, hc, hca⟩
    have hcnt := count_escapeArgs c (fun e => b0 (e ▸ hc)) (fun e => b1 (e ▸ hc)) (fun e => b2 (e ▸ hc)) args l h
    have : 0 < countPayload c args := (mem_iff_countPayload c args).mpr ⟨a, ha, hca⟩
    exact ⟨c, hc, List.count_pos_iff.mp (by rw [hcnt]; exact this)⟩

theorem forbidden_escapeArgs_bool (bl : Bytes) (hbl : blOk bl = true) (args : List Arg) (l : Bytes)
    (h : escapeArgs args = some l) :
    (forbidden bl l == args.any (fun a => forbidden bl a.payload)) = true := by
  rw [beq_iff_eq, Bool.eq_iff_iff, forbidden_escapeArgs bl hbl args l h, List.any_eq_true]

end Quote
