import TbotVerif.Props.ReProps
/-! C04 — where "search only a window in front of the new piece" is right.
    `expect()` searches the whole buffer after every piece.  For an assertion-free expression `r`
    that did not match before the piece arrived, the first match in `old ++ new` starts at most
    `maxWidth` bytes before the new piece, and searching `(old ++ new).drop (old.length - maxWidth)`
    finds the same span (shifted).  With a look-ahead this fails (`window_wrong_with_lookahead`):
    seeded change C04-K. -/

namespace Re

/-- `search` is determined by: least offset with a match, preferred match there -/
theorem search_eq_of_least (r : Re) (s : Bytes) (j n : Nat) (hj : j ≤ s.length)
    (hm : matchAt r (s.drop j) = some n) (hleast : ∀ j', j' < j → matchAt r (s.drop j') = none) :
    search r s = some (j, j + n) := by
  unfold search
  cases h : searchFrom r 0 s with
  | none =>
    have := searchFrom_none r s 0 h j hj
    rw [this] at hm; simp at hm
  | some v =>
    obtain ⟨a, e⟩ := v
    obtain ⟨j2, ha, hj2, hae, hm2, hl2⟩ := searchFrom_some r s 0 a e h
    have haj : a = j2 := by omega
    subst haj
    rcases Nat.lt_trichotomy a j with hlt | heq | hgt
    · rw [hleast a hlt] at hm2; simp at hm2
    · subst heq
      rw [hm] at hm2
      simp only [Option.some.injEq] at hm2
      have : e = a + n := by omega
      rw [this]
    · rw [hl2 j hgt] at hm; simp at hm

/-- a match that ends inside `old` would have been found in `old` alone -/
theorem matchAt_inside (r : Re) (hr : r.noEos = true) (old new : Bytes) (a n : Nat)
    (hm : matchAt r ((old ++ new).drop a) = some n) (hin : a + n ≤ old.length) :
    (matchAt r (old.drop a)).isSome = true := by
  obtain ⟨u, v, huv, hu, hn⟩ := matchAt_sound r hr _ _ hm
  have ha : a ≤ old.length := by omega
  have hd : (old ++ new).drop a = old.drop a ++ new := by
    rw [List.drop_append_of_le_length ha]
  rw [hd] at huv
  -- u is a prefix of old.drop a (it is no longer than it)
  have hlen : u.length ≤ (old.drop a).length := by simp only [List.length_drop]; omega
  have hu' : u = (old.drop a).take u.length := by
    have := congrArg (List.take u.length) huv
    rw [List.take_append_of_le_length hlen, List.take_left'] at this
    · exact this.symm
    · rfl
  have hsplit : old.drop a = u ++ (old.drop a).drop u.length := by
    conv => lhs; rw [← List.take_append_drop u.length (old.drop a)]
    rw [← hu']
  rw [hsplit]
  exact matchAt_complete r hr u _ hu

/-- **the window suffices** on the assertion-free subset -/
theorem window_search (r : Re) (hr : r.noEos = true) (old new : Bytes) (hnone : search r old = none)
    (a e : Nat) (h : search r (old ++ new) = some (a, e)) :
    old.length - r.maxWidth ≤ a ∧
      search r ((old ++ new).drop (old.length - r.maxWidth)) =
        some (a - (old.length - r.maxWidth), e - (old.length - r.maxWidth)) := by
  obtain ⟨j, ha, hj, hae, hm, hleast⟩ := searchFrom_some r (old ++ new) 0 a e h
  have : j = a := by omega
  subst this
  have hw : e - j ≤ r.maxWidth := by
    obtain ⟨u, v, _, hu, hn⟩ := matchAt_sound r hr _ _ hm
    rw [hn]; exact L_maxWidth r u hu
  have hout : ¬ (j + (e - j) ≤ old.length) := by
    intro hin
    have h1 := matchAt_inside r hr old new j (e - j) hm hin
    have h2 := searchFrom_none r old 0 hnone j (by omega)
    rw [h2] at h1; simp at h1
  have hge : old.length - r.maxWidth ≤ j := by omega
  refine ⟨hge, ?_⟩
  generalize hd : old.length - r.maxWidth = d at *
  have hdl : d ≤ (old ++ new).length := by simp only [List.length_append]; omega
  have key := search_eq_of_least r ((old ++ new).drop d) (j - d) (e - j) ?_ ?_ ?_
  · rw [key]
    congr 2
    omega
  · simp only [List.length_drop]; omega
  · rw [List.drop_drop]
    have : d + (j - d) = j := by omega
    rw [this]; exact hm
  · intro j' hj'
    rw [List.drop_drop]
    exact hleast (d + j') (by omega)

/-- with a look-ahead the window is WRONG: `st(?=RE)` on `xst R` | `E…`: the match exists in the
    whole buffer but not in the window `maxWidth` bytes in front of the new piece -/
theorem window_wrong_with_lookahead :
    ∃ (r : Re) (old new : Bytes), search r old = none ∧ (search r (old ++ new)).isSome = true ∧
      search r ((old ++ new).drop (old.length - r.maxWidth)) = none :=
  ⟨.seq (ofBytes [115, 116]) (.la (ofBytes [82, 69])), [120, 115, 116, 82], [69, 33],
   by decide, by decide, by decide⟩

end Re
