import TbotVerif.Spec.Ctx
set_option linter.unusedSimpArgs false
/-! Basic lemmas for the context cluster: counting open frames, the trace summaries of
    `Spec/Ctx.lean` under one more event. -/
namespace Ctx

/-! ### counting frames -/

/-- open frames bound to object `o` -/
def cntObj (o : Nat) (L : List Frame) : Nat := (L.filter fun f => f.obj == o).length

/-- open frames on class `c` -/
def cntCls (c : Nat) (L : List Frame) : Nat := (L.filter fun f => f.cls == c).length

/-- frame identities are pairwise distinct -/
def IdsNodup (L : List Frame) : Prop := L.Pairwise fun a b => a.id ≠ b.id

/-- remove the frame with the identity of `f` -/
def dropId (f : Frame) (L : List Frame) : List Frame := L.filter fun g => g.id != f.id

theorem mem_dropId {f g : Frame} {L : List Frame} : g ∈ dropId f L ↔ g ∈ L ∧ g.id ≠ f.id := by
  simp [dropId, List.mem_filter]

theorem IdsNodup.dropId {L : List Frame} (h : IdsNodup L) (f : Frame) : IdsNodup (dropId f L) :=
  List.Pairwise.filter _ h

theorem IdsNodup.append_new {L : List Frame} (h : IdsNodup L) (f : Frame)
    (hf : ∀ g ∈ L, g.id ≠ f.id) : IdsNodup (L ++ [f]) := by
  unfold IdsNodup
  rw [List.pairwise_append]
  refine ⟨h, by simp, ?_⟩
  intro a ha b hb
  simp at hb
  subst hb
  exact hf a ha

theorem IdsNodup.eq_of_id {L : List Frame} (h : IdsNodup L) {a b : Frame} (ha : a ∈ L) (hb : b ∈ L)
    (hid : a.id = b.id) : a = b := by
  induction L with
  | nil => simp at ha
  | cons x L ih =>
    have hpw := List.pairwise_cons.mp h
    rcases List.mem_cons.mp ha with rfl | ha' <;> rcases List.mem_cons.mp hb with rfl | hb'
    · rfl
    · exact absurd hid (hpw.1 b hb')
    · exact absurd hid.symm (hpw.1 a ha')
    · exact ih hpw.2 ha' hb'

theorem dropId_of_not_mem {L : List Frame} {f : Frame} (h : ∀ g ∈ L, g.id ≠ f.id) :
    dropId f L = L := by
  unfold dropId
  rw [List.filter_eq_self]
  intro g hg
  simpa using h g hg

/-- removing a frame that is present (identities distinct) lowers a filtered count by one iff
    the frame satisfies the filter -/
theorem length_filter_dropId (p : Frame → Bool) {L : List Frame} (h : IdsNodup L) {f : Frame}
    (hf : f ∈ L) :
    (L.filter p).length = ((dropId f L).filter p).length + (if p f then 1 else 0) := by
  induction L with
  | nil => simp at hf
  | cons a L ih =>
    have hpw := List.pairwise_cons.mp h
    rcases List.mem_cons.mp hf with rfl | hin
    · -- the head is the frame: nothing else has its id
      have hrest : dropId f L = L := dropId_of_not_mem (fun g hg => (hpw.1 g hg).symm)
      have : dropId f (f :: L) = L := by
        unfold dropId at hrest ⊢
        simp [List.filter_cons, hrest]
      rw [this]
      by_cases hp : p f <;> simp [List.filter_cons, hp]
    · have hne : a.id ≠ f.id := hpw.1 f hin
      have : dropId f (a :: L) = a :: dropId f L := by
        unfold dropId
        simp [List.filter_cons, hne]
      rw [this]
      have ih' := ih hpw.2 hin
      by_cases hp : p a <;> simp [List.filter_cons, hp] <;> omega

theorem cntObj_append (o : Nat) (L : List Frame) (f : Frame) :
    cntObj o (L ++ [f]) = cntObj o L + (if f.obj = o then 1 else 0) := by
  unfold cntObj
  by_cases h : f.obj = o <;> simp [List.filter_append, List.filter_cons, h]

theorem cntCls_append (c : Nat) (L : List Frame) (f : Frame) :
    cntCls c (L ++ [f]) = cntCls c L + (if f.cls = c then 1 else 0) := by
  unfold cntCls
  by_cases h : f.cls = c <;> simp [List.filter_append, List.filter_cons, h]

theorem cntObj_dropId {L : List Frame} (h : IdsNodup L) {f : Frame} (hf : f ∈ L) (o : Nat) :
    cntObj o L = cntObj o (dropId f L) + (if f.obj = o then 1 else 0) := by
  have := length_filter_dropId (fun g => g.obj == o) h hf
  simpa [cntObj] using this

theorem cntCls_dropId {L : List Frame} (h : IdsNodup L) {f : Frame} (hf : f ∈ L) (c : Nat) :
    cntCls c L = cntCls c (dropId f L) + (if f.cls = c then 1 else 0) := by
  have := length_filter_dropId (fun g => g.cls == c) h hf
  simpa [cntCls] using this

/-! ### the trace summaries under one more event -/

section
variable (t : List Ev)

@[simp] theorem ups_nil : ups [] = [] := rfl
@[simp] theorem ups_init (c o) : ups (.init c o :: t) = (c, o) :: ups t := rfl
@[simp] theorem ups_down (c o) : ups (.down c o :: t) = (ups t).filter (· != (c, o)) := rfl
@[simp] theorem ups_yielded (d c o) : ups (.yielded d c o :: t) = ups t := rfl
@[simp] theorem ups_released (d c) : ups (.released d c :: t) = ups t := rfl
@[simp] theorem ups_ctxEnter : ups (.ctxEnter :: t) = ups t := rfl
@[simp] theorem ups_ctxBody : ups (.ctxBody :: t) = ups t := rfl
@[simp] theorem ups_ctxLeave : ups (.ctxLeave :: t) = ups t := rfl
@[simp] theorem ups_tdRes (c b) : ups (.tdRes c b :: t) = ups t := rfl
@[simp] theorem ups_created (e) : ups (.created e :: t) = ups t := rfl
@[simp] theorem ups_leaves (e) : ups (.leaves e :: t) = ups t := rfl
@[simp] theorem ups_caught (e) : ups (.caught e :: t) = ups t := rfl
@[simp] theorem ups_fin (e) : ups (.fin e :: t) = ups t := rfl

@[simp] theorem nSeen_nil : nSeen [] = 0 := rfl
@[simp] theorem nSeen_init (c o) : nSeen (.init c o :: t) = nSeen t + 1 := rfl
@[simp] theorem nSeen_down (c o) : nSeen (.down c o :: t) = nSeen t := rfl
@[simp] theorem nSeen_yielded (d c o) : nSeen (.yielded d c o :: t) = nSeen t := rfl
@[simp] theorem nSeen_released (d c) : nSeen (.released d c :: t) = nSeen t := rfl
@[simp] theorem nSeen_ctxEnter : nSeen (.ctxEnter :: t) = nSeen t := rfl
@[simp] theorem nSeen_ctxBody : nSeen (.ctxBody :: t) = nSeen t := rfl
@[simp] theorem nSeen_ctxLeave : nSeen (.ctxLeave :: t) = nSeen t := rfl
@[simp] theorem nSeen_tdRes (c b) : nSeen (.tdRes c b :: t) = nSeen t := rfl
@[simp] theorem nSeen_created (e) : nSeen (.created e :: t) = nSeen t := rfl
@[simp] theorem nSeen_leaves (e) : nSeen (.leaves e :: t) = nSeen t := rfl
@[simp] theorem nSeen_caught (e) : nSeen (.caught e :: t) = nSeen t := rfl
@[simp] theorem nSeen_fin (e) : nSeen (.fin e :: t) = nSeen t := rfl

@[simp] theorem always_nil (cond : List Ev → Ev → Bool) : always cond [] = true := rfl
@[simp] theorem always_cons (cond : List Ev → Ev → Bool) (ev : Ev) :
    always cond (ev :: t) = (cond t ev && always cond t) := rfl

end

/-- an event that is neither `init`, `down` nor `yielded` (irrelevant for I1–I3) -/
def Ev.quiet : Ev → Bool
  | .init _ _ => false
  | .down _ _ => false
  | .yielded _ _ _ => false
  | _ => true

theorem ups_quiet {ev : Ev} (h : ev.quiet = true) (t : List Ev) : ups (ev :: t) = ups t := by
  cases ev <;> simp_all [Ev.quiet]

theorem nSeen_quiet {ev : Ev} (h : ev.quiet = true) (t : List Ev) : nSeen (ev :: t) = nSeen t := by
  cases ev <;> simp_all [Ev.quiet]

theorem condInit_quiet {ev : Ev} (h : ev.quiet = true) (t : List Ev) : condInit t ev = true := by
  cases ev <;> simp_all [Ev.quiet, condInit]

theorem condFresh_quiet {ev : Ev} (h : ev.quiet = true) (t : List Ev) : condFresh t ev = true := by
  cases ev <;> simp_all [Ev.quiet, condFresh]

theorem condDown_quiet {ev : Ev} (h : ev.quiet = true) (t : List Ev) : condDown t ev = true := by
  cases ev <;> simp_all [Ev.quiet, condDown]

theorem condYield_quiet {ev : Ev} (h : ev.quiet = true) (t : List Ev) : condYield t ev = true := by
  cases ev <;> simp_all [Ev.quiet, condYield]

theorem classUp_iff (t : List Ev) (c : Nat) : classUp t c = true ↔ ∃ o, (c, o) ∈ ups t := by
  unfold classUp
  simp only [List.any_eq_true]
  constructor
  · rintro ⟨⟨c', o⟩, hm, hc⟩
    have : c' = c := by simpa using hc
    subst this
    exact ⟨o, hm⟩
  · rintro ⟨o, hm⟩
    exact ⟨(c, o), hm, by simp⟩

end Ctx
