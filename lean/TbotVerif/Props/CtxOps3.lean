import TbotVerif.Props.CtxOps2
set_option linter.unusedSimpArgs false
set_option linter.unusedVariables false
/-! Specification of entering a request; all levels of `ops`; the teardown loops. -/
namespace Ctx

section
variable (cfg : Cfg)

theorem resetStep_spec {td : Nat → St → R} (htd : TdSpec td) {B : List Nat} {c : Nat} {s : St}
    (reset : Bool) (h : Inv B s) (hb : ∀ b ∈ B, c < b) :
    Inv B (resetStep td c reset s).1 ∧ Step B [] s (resetStep td c reset s).1 := by
  unfold resetStep
  split
  · exact htd B c s h hb
  · exact ⟨h, Step.refl B s⟩

theorem ensureStep_spec {ini : Nat → St → R} (hini : IniSpec ini) {B : List Nat} {c : Nat} {s : St}
    (h : Inv B s) (hb : ∀ b ∈ B, c < b) :
    Inv B (ensureStep ini c s).1 ∧ Step B [] s (ensureStep ini c s).1 := by
  unfold ensureStep
  split
  · exact hini B c s h hb
  · exact ⟨h, Step.refl B s⟩

/-- `admitStep` on a live, available instance -/
theorem admitStep_ok {td : Nat → St → R} {dep : Bool} {c : Nat} {excl roe : Bool} {s : St} {o : Nat}
    (hi : (s.mgrs c).inst = some o) (hav : (s.mgrs c).avail = true) (hpos : 1 ≤ (s.objs o).rc) :
    admitStep cfg td dep c excl roe s =
      (let fr : Frame := { id := s.nFrame, cls := c, obj := o, excl := excl, roe := roe, dep := dep }
       let s1 := s.frameIn fr (!excl)
       let s2 := if s1.order.contains c then s1 else { s1 with order := s1.order ++ [c] }
       (s2.log (.yielded dep c o), .inl fr)) := by
  unfold admitStep
  simp only [St.mgr, hi, hav]
  rw [objEnter_pos cfg (by simpa [St.setMgr] using hpos)]
  simp [St.frameIn, St.setMgr, St.setObj, St.obj, St.mgr, hi]

theorem ext_order (s : St) (c : Nat) :
    Ext s (if s.order.contains c then s else { s with order := s.order ++ [c] }) := by
  split
  · exact Ext.refl s
  · exact ⟨rfl, rfl, rfl, rfl, rfl, [], by simp, by simp⟩

theorem admitStep_spec {td : Nat → St → R} {B : List Nat} (dep : Bool) {c : Nat}
    (excl roe : Bool) {s : St} (h : Inv B s) (hb : ∀ b ∈ B, c < b) :
    Inv B (admitStep cfg td dep c excl roe s).1 ∧ Step B [] s (admitStep cfg td dep c excl roe s).1 ∧
    ∀ f, (admitStep cfg td dep c excl roe s).2 = .inl f →
      FrameOk c s (admitStep cfg td dep c excl roe s).1 f := by
  have hcB : c ∉ B := fun hm => Nat.lt_irrefl _ (hb _ hm)
  cases hi : (s.mgrs c).inst with
  | none =>
    have : admitStep cfg td dep c excl roe s = ((s.newExc .ctx).1, .inr (s.newExc .ctx).2) := by
      unfold admitStep; simp [St.mgr, hi]
    rw [this]
    exact ⟨h.ext (ext_newExc s .ctx), Step.of_ext B (ext_newExc s .ctx), by simp⟩
  | some o =>
    cases hav : (s.mgrs c).avail with
    | false =>
      have : admitStep cfg td dep c excl roe s = ((s.newExc .ctx).1, .inr (s.newExc .ctx).2) := by
        unfold admitStep; simp [St.mgr, hi, hav]
      rw [this]
      exact ⟨h.ext (ext_newExc s .ctx), Step.of_ext B (ext_newExc s .ctx), by simp⟩
    | true =>
      obtain ⟨hup, hrc⟩ := h.instLive c o hi hcB
      have hpos : 1 ≤ (s.objs o).rc := by omega
      rw [admitStep_ok cfg hi hav hpos]
      simp only
      generalize hfr : ({ id := s.nFrame, cls := c, obj := o, excl := excl, roe := roe, dep := dep } : Frame) = fr
      have hfc : fr.cls = c := by subst hfr; rfl
      have hfo : fr.obj = o := by subst hfr; rfl
      have hfid : fr.id = s.nFrame := by subst hfr; rfl
      have hI1 : Inv B (s.frameIn fr (!excl)) :=
        h.frameIn (!excl) (by rw [hfc, hfo]; exact hi) (by rw [hfc]; exact hcB) hfid
      have hS1 : Step B [] s (s.frameIn fr (!excl)) :=
        Step.of_tr (Tr.frameIn s fr _) c hcB (fun k hk => by simp [St.frameIn, hfc, hk])
      have hx := ext_order (s.frameIn fr (!excl)) c
      generalize (if (s.frameIn fr (!excl)).order.contains c then s.frameIn fr (!excl)
        else { s.frameIn fr (!excl) with order := (s.frameIn fr (!excl)).order ++ [c] }) = s2 at hx ⊢
      have hI2 : Inv B s2 := hI1.ext hx
      have hi2 : (s2.mgrs c).inst = some o := by
        rw [hx.mgrs]; simp [St.frameIn, hfc, hi]
      have hI3 : Inv B (s2.log (.yielded dep c o)) := hI2.logYielded dep hi2 hcB
      refine ⟨hI3, ?_, ?_⟩
      · refine ⟨⟨?_, ?_, ?_, ?_⟩, ?_⟩
        · show s.nFrame ≤ s2.nFrame
          rw [hx.nFrame]; exact hS1.tr.nFrame_le
        · intro f hf hn
          apply hS1.tr.gone f hf
          rw [← hx.open_]; exact hn
        · intro k f hf
          apply hS1.tr.newHeld k f
          rw [← hx.mgrs]; exact hf
        · show s.nObj ≤ s2.nObj
          rw [hx.nObj]; exact hS1.tr.nObj_le
        · intro b hbm
          show s2.mgrs b = s.mgrs b
          rw [hx.mgrs]; exact hS1.keep b hbm
      · intro f hf
        simp at hf
        subst hf
        refine ⟨?_, ?_, hfc, by omega⟩
        · show fr ∈ s2.open_
          rw [hx.open_]; simp [St.frameIn]
        · intro k hk
          have hk' : fr ∈ ((s.frameIn fr (!excl)).mgrs k).held := by rw [← hx.mgrs]; exact hk
          have hop := (hI1.heldOpen k fr hk').1
          -- a held frame was held in `s` already, so it was open in `s`: its id is below `nFrame`
          have hks : fr ∈ (s.mgrs k).held := by
            simp only [St.frameIn] at hk'
            by_cases hkc : k = fr.cls
            · subst hkc; simpa using hk'
            · simpa [hkc] using hk'
          have := h.idLt fr (h.heldOpen k fr hks).1
          omega

theorem reqEnterF_spec {td ini : Nat → St → R} (htd : TdSpec td) (hini : IniSpec ini) :
    ReSpec (reqEnterF cfg td ini) := by
  intro B dep c reset excl roe s h hb
  unfold reqEnterF
  simp only
  split
  · exact ⟨h.ext (ext_newExc s .ctx), Step.of_ext B (ext_newExc s .ctx), by simp⟩
  · have h0 := resetStep_spec htd reset h hb
    generalize resetStep td c reset s = r0 at h0 ⊢
    cases he0 : r0.2 with
    | some ex => simp only; exact ⟨h0.1, h0.2, by simp⟩
    | none =>
      simp only
      have h1 := ensureStep_spec hini h0.1 hb
      generalize ensureStep ini c r0.1 = r1 at h1 ⊢
      have t01 : Step B [] s r1.1 := h0.2.trans_nil h1.2 h.idLt
      cases he1 : r1.2 with
      | some ex => simp only; exact ⟨h1.1, t01, by simp⟩
      | none =>
        simp only
        have h2 := admitStep_spec cfg (td := td) dep excl (roe.getD s.roeDefault) h1.1 hb
        generalize admitStep cfg td dep c excl (roe.getD s.roeDefault) r1.1 = r2 at h2 ⊢
        refine ⟨h2.1, t01.trans_nil h2.2.1 h.idLt, ?_⟩
        intro f hf
        obtain ⟨a, b, c', d⟩ := h2.2.2 f hf
        exact ⟨a, b, c', Nat.le_trans t01.tr.nFrame_le d⟩

/-- all operations of every dependency level satisfy their specification -/
theorem ops_spec (hwf : cfg.depsBelow) :
    ∀ k, TdSpec (ops cfg k).teardown ∧ RxSpec (ops cfg k).reqExit ∧ ReSpec (ops cfg k).reqEnter := by
  intro k
  induction k with
  | zero =>
    refine ⟨?_, ?_, ?_⟩
    · intro B c s h _; exact ⟨h, Step.refl B s⟩
    · intro B f s e h _ _ _
      exact ⟨h, ⟨⟨Nat.le_refl _, fun g hg hn => absurd hg hn, fun k g hg => Or.inl hg, Nat.le_refl _⟩, fun _ _ => rfl⟩⟩
    · intro B dep c reset excl roe s h _
      exact ⟨h, Step.refl B s, by simp [ops]⟩
  | succ k ih =>
    obtain ⟨_, hrx, hre⟩ := ih
    have htd : TdSpec (teardownF cfg (ops cfg k).reqExit) := teardownF_spec cfg hrx
    have hdep : DepSpec (fun d x s => (ops cfg k).reqEnter true d false x none s) :=
      fun B d x s h hb => hre B true d false x none s h hb
    have hini : IniSpec (initClsF cfg (fun d x s => (ops cfg k).reqEnter true d false x none s)
        (ops cfg k).reqExit) := initClsF_spec cfg hwf hdep hrx
    exact ⟨htd, reqExitF_spec cfg htd, reqEnterF_spec cfg htd hini⟩

/-- the teardown loops -/
theorem tdLoop_spec {td : Nat → St → R} (htd : TdSpec td) (cond : St → Nat → Bool) :
    ∀ (cs : List Nat) (s : St) (e : Option Exc), Inv [] s →
      Inv [] (tdLoop td cond cs s e).1 ∧ Step [] [] s (tdLoop td cond cs s e).1 := by
  intro cs
  induction cs with
  | nil => intro s e h; exact ⟨h, Step.refl [] s⟩
  | cons c cs ih =>
    intro s e h
    unfold tdLoop
    split
    · have h1 := htd [] c s h (by simp)
      have h2 := ih (td c s).1 (first e (td c s).2) h1.1
      exact ⟨h2.1, h1.2.trans_nil h2.2 h.idLt⟩
    · exact ih s e h

end

end Ctx
