import TbotVerif.Props.RunRemote
/-! C10 — the operations of the shell protocol on a channel whose pending data has all arrived:
    `send` with and without read-back, `sendcontrol`, the prompt-delimited read that ends a
    command, and `posix_fetch_return_code`. -/

namespace Run
open Chan Spec

/-! ### no registration: nothing fires -/

theorem walk_none (res : OpRes) : ∀ (ds : List Bytes), (c05Walk res ds []).1 = true →
    deathOf res = none ∧ (c05Walk res ds []).2 = [] := by
  intro ds
  induction ds with
  | nil =>
    intro h
    simp only [c05Walk] at h ⊢
    refine ⟨?_, trivial⟩
    cases hd : deathOf res with
    | none => rfl
    | some v => rw [hd] at h; simp at h
  | cons d ds ih =>
    intro h
    rw [C05.c05Walk_cons] at h ⊢
    simp only [List.map_nil, List.any_nil, Bool.false_eq_true, if_false] at h ⊢
    cases ds with
    | nil =>
      simp only [List.isEmpty_nil, if_true] at h ⊢
      refine ⟨?_, trivial⟩
      cases hd : deathOf res with
      | none => rfl
      | some v =>
        obtain ⟨e, m⟩ := v
        rw [hd] at h
        simp [justified] at h
    | cons d2 ds2 =>
      simp only [List.isEmpty_cons, Bool.false_eq_true, if_false] at h ⊢
      exact ih h

/-- the channel has no death string registered (and the monitor agrees) -/
def Rel0 (r : RunSt) : Prop := ∃ m, C05.Rel m r ∧ m.regs = [] ∧ m.frames = []

theorem rel0_deaths {r : RunSt} (h : Rel0 r) : r.st.deaths = [] := by
  obtain ⟨m, hr, hm, _⟩ := h
  rw [hr.deaths, hm]; rfl

def plainOp : Op → Bool
  | .deathEnter _ _ | .deathAdd _ _ | .deathExit => false
  | _ => true

/-- an operation that does not touch the registrations keeps the channel free of them and
    raises no death-string exception -/
theorem rel0_step (r : RunSt) (op : Op) (h : Rel0 r) (hop : plainOp op = true) :
    Rel0 (obsOp op r).2 ∧ deathOf (obsOp op r).1.res = none := by
  obtain ⟨m, hr, hm, hfr⟩ := h
  have hok : C05.opDeathOk op := by
    cases op <;> simp [plainOp] at hop <;> exact trivial
  obtain ⟨h1, h2⟩ := C05.c05_step m r op hr hok
  cases hread : isReadOp op with
  | true =>
    have hc : c05 m op (obsOp op r).1 = ((c05Walk (obsOp op r).1.res (delivered (obsOp op r).1) m.regs).1,
        { m with regs := (c05Walk (obsOp op r).1.res (delivered (obsOp op r).1) m.regs).2 }) := by
      cases op <;> simp [plainOp] at hop <;> simp [c05, hread] <;> simp [isReadOp] at hread
    rw [hc, hm] at h1 h2
    obtain ⟨hd, hregs⟩ := walk_none _ _ h1
    exact ⟨⟨_, h2, hregs, hfr⟩, hd⟩
  | false =>
    have hc : c05 m op (obsOp op r).1 = ((deathOf (obsOp op r).1.res).isNone, m) := by
      cases op <;> simp [plainOp] at hop <;> simp [c05, hread] <;> simp [isReadOp] at hread
    rw [hc] at h1 h2
    refine ⟨⟨m, h2, hm, hfr⟩, ?_⟩
    cases hd : deathOf (obsOp op r).1.res with
    | none => rfl
    | some v => rw [hd] at h1; simp at h1

/-! ### send -/

theorem sendLoop_norb : ∀ (f : Nat) (buf : Bytes) (ign : Bool) (t0 : Nat) (s : St),
    buf.length < f → 0 < s.slice → (s.slowDelay.isSome → 0 < s.slowChunk) →
    (ign = true ∨ forbidden s.blacklist buf = false) →
    (sendLoop f buf false none ign t0 s).1 = .ok () ∧ (sendLoop f buf false none ign t0 s).2.script = s.script := by
  intro f
  induction f with
  | zero => intro buf _ _ s hf; omega
  | succ f ih =>
    intro buf ign t0 s hf hsl hsc hfine
    cases buf with
    | nil => exact ⟨rfl, rfl⟩
    | cons b t =>
      unfold sendLoop
      simp only
      obtain ⟨ws1, hf1, _, _, _, herr1⟩ := C03.write_spec ((b :: t).take s.slice) ign s hsc
      have hscr1 := write_script ((b :: t).take s.slice) ign s
      cases hw : write ((b :: t).take s.slice) ign s with
      | mk wr s1 =>
        rw [hw] at hf1 herr1 hscr1
        simp only at hscr1
        cases wr with
        | error e =>
          exfalso
          obtain ⟨_, hi, hfb, _⟩ := herr1 e rfl
          rcases hfine with h | h
          · rw [h] at hi; simp at hi
          · have := C03.forbidden_take _ _ _ hfb
            rw [h] at this; simp at this
        | ok u =>
          simp only [Bool.false_eq_true, if_false]
          have hdrop : ((b :: t).drop s1.slice).length < f := by
            have : s1.slice = s.slice := hf1.slice
            rw [this]
            simp only [List.length_drop, List.length_cons] at hf ⊢; omega
          have hfine2 : ign = true ∨ forbidden s1.blacklist ((b :: t).drop s1.slice) = false := by
            rcases hfine with h | h
            · exact Or.inl h
            · right
              have hb : s1.blacklist = s.blacklist := hf1.blacklist
              rw [hb]
              cases hx : forbidden s.blacklist ((b :: t).drop s1.slice) with
              | false => rfl
              | true => have := C03.forbidden_drop _ _ _ hx; rw [h] at this; simp at this
          have := ih ((b :: t).drop s1.slice) ign t0 s1 hdrop (by rw [hf1.slice]; exact hsl)
            (by rw [hf1.slowDelay, hf1.slowChunk]; exact hsc) hfine2
          exact ⟨this.1, by rw [this.2, hscr1]⟩

/-- `send(payload)` without read-back: succeeds, reads nothing, leaves the pending data alone -/
theorem send_norb_op (r : RunSt) (payload : Bytes) (hg : C03.Good r.st)
    (hnf : forbidden r.st.blacklist payload = false) :
    (obsOp (.send payload false none false) r).1.res = .unit
    ∧ sizesOf (obsOp (.send payload false none false) r).1 = []
    ∧ (obsOp (.send payload false none false) r).2.st.script = r.st.script := by
  have hq := C05.send_quiet payload none false (C03.cut r.st)
  have hres : (send payload false none false (C03.cut r.st)).1 = .ok ()
      ∧ (send payload false none false (C03.cut r.st)).2.script = r.st.script := by
    unfold send
    split
    · exact ⟨rfl, rfl⟩
    · split
      · rename_i _ h
        simp only [Bool.not_false, Bool.true_and] at h
        have : forbidden (C03.cut r.st).blacklist payload = forbidden r.st.blacklist payload := rfl
        rw [this, hnf] at h; simp at h
      · exact sendLoop_norb _ _ _ _ _ (by omega) hg.slice hg.slow (Or.inr hnf)
  refine ⟨?_, ?_, ?_⟩
  · rw [obsOp_res]
    simp only [runOp, C05.cutR]
    cases hs : send payload false none false (C03.cut r.st) with
    | mk res s' =>
      rw [hs] at hres
      cases res with
      | ok u => rfl
      | error e => simp at hres
  · unfold sizesOf
    rw [obsOp_reads]
    simp only [runOp, C05.cutR]
    have : (ofUnit (send payload false none false (C03.cut r.st))).2.reads = [] := by
      have h1 : (ofUnit (send payload false none false (C03.cut r.st))).2 = (send payload false none false (C03.cut r.st)).2 := by
        cases send payload false none false (C03.cut r.st) with
        | mk res s' => cases res <;> rfl
      rw [h1, hq.1.1]; rfl
    simp only [this, List.filterMap_nil]
  · rw [obsOp_snd]
    simp only [runOp, C05.cutR]
    have h1 : (ofUnit (send payload false none false (C03.cut r.st))).2 = (send payload false none false (C03.cut r.st)).2 := by
      cases send payload false none false (C03.cut r.st) with
      | mk res s' => cases res <;> rfl
    simp only [h1, hres.2]

/-- `sendcontrol`: one byte is written, nothing is read -/
theorem sendcontrol_op (r : RunSt) (n : Nat) (hn : n ≤ 0x1F) :
    (obsOp (.sendcontrol n) r).1.res = .unit
    ∧ sizesOf (obsOp (.sendcontrol n) r).1 = []
    ∧ (obsOp (.sendcontrol n) r).2.st.script = r.st.script := by
  have hq := C05.sendcontrol_quiet n (C03.cut r.st)
  have hval : sendcontrol n (C03.cut r.st) = (.ok (), writeLoop 1 [UInt8.ofNat n] (C03.cut r.st)) := by
    unfold sendcontrol
    rw [if_pos hn]
    unfold write
    simp
  refine ⟨?_, ?_, ?_⟩
  · rw [obsOp_res]; simp only [runOp, C05.cutR, hval, ofUnit]
  · unfold sizesOf
    rw [obsOp_reads]
    simp only [runOp, C05.cutR]
    rw [hval] at hq ⊢
    simp only [ofUnit]
    rw [hq.1.1]
    rfl
  · rw [obsOp_snd]
    simp only [runOp, C05.cutR, hval, ofUnit, writeLoop_script]
    rfl

/-- `send(payload, read_back=True)` when at least the echo is pending and no death string fires:
    it succeeds and takes exactly the echo -/
theorem send_rb_op (r : RunSt) (payload : Bytes) (hg : C03.Good r.st) (hz : Z r.st)
    (hnf : forbidden r.st.blacklist payload = false)
    (hlen : Tty.readBackLen payload ≤ (pending r.st).length)
    (hnd : deathOf (obsOp (.send payload true none false) r).1.res = none) :
    (obsOp (.send payload true none false) r).1.res = .unit
    ∧ (sizesOf (obsOp (.send payload true none false) r).1).sum = Tty.readBackLen payload
    ∧ Z (obsOp (.send payload true none false) r).2.st := by
  have hcons := consumed r (.send payload true none false) hg rfl
  have hsnd : (obsOp (.send payload true none false) r).2.st = (send payload true none false (C03.cut r.st)).2 := by
    rw [obsOp_snd]
    simp only [runOp, C05.cutR]
    cases send payload true none false (C03.cut r.st) with
    | mk res s' => cases res <;> rfl
  have hresv : (obsOp (.send payload true none false) r).1.res = (ofUnit (send payload true none false (C03.cut r.st))).1 := by
    rw [obsOp_res]; simp only [runOp, C05.cutR]
  have hpc : pending (C03.cut r.st) = pending r.st := rfl
  -- the value of `send`
  have hmain : (send payload true none false (C03.cut r.st)).1 = .ok ()
      ∧ (pending (send payload true none false (C03.cut r.st)).2).length + Tty.readBackLen payload = (pending r.st).length
      ∧ Z (send payload true none false (C03.cut r.st)).2 := by
    unfold send
    split
    · rename_i he
      have : payload = [] := by simpa using he
      subst this
      exact ⟨rfl, by simp [readBackLen_nil, hpc], hz⟩
    · split
      · rename_i _ h
        simp only [Bool.not_false, Bool.true_and] at h
        have : forbidden (C03.cut r.st).blacklist payload = forbidden r.st.blacklist payload := rfl
        rw [this, hnf] at h; simp at h
      · rename_i hne _
        obtain ⟨hzz, hok, hhang, hnt, hnfuel, _⟩ := sendLoop_rb (payload.length + 1) payload false (C03.cut r.st).now (C03.cut r.st)
          (by omega) hz hg.cut.wf hg.cut.chunk hg.cut.slice hg.cut.slow
        obtain ⟨recs, ws, _, _, _, _, _, herr, _⟩ := C03.sendLoop_spec (payload.length + 1) payload true none false
          (C03.cut r.st).now (C03.cut r.st) (by omega) hg.cut.slice hg.cut.wf hg.cut.chunk hg.cut.slow
        cases hsl : sendLoop (payload.length + 1) payload true none false (C03.cut r.st).now (C03.cut r.st) with
        | mk res s' =>
          rw [hsl] at hok hhang hnt hnfuel herr hzz
          cases res with
          | ok u => exact ⟨rfl, by rw [← hpc]; exact hok rfl, hzz⟩
          | error e =>
            exfalso
            rcases herr e rfl with ⟨_, _, h2⟩ | h | h | ⟨x, m, h⟩
            · have hnf' : forbidden (C03.cut r.st).blacklist payload = false := hnf
              rw [hnf'] at h2; simp at h2
            · subst h; exact hnt rfl
            · subst h
              have := hhang rfl
              rw [hpc] at this
              omega
            · subst h
              rw [hresv] at hnd
              unfold send at hnd
              rw [if_neg hne] at hnd
              simp only [Bool.not_false, Bool.true_and] at hnd
              have hnf' : forbidden (C03.cut r.st).blacklist payload = false := hnf
              rw [hnf'] at hnd
              simp only [Bool.false_eq_true, if_false] at hnd
              rw [hsl] at hnd
              simp [ofUnit, deathOf] at hnd
  refine ⟨?_, ?_, ?_⟩
  · rw [hresv]
    cases hs : send payload true none false (C03.cut r.st) with
    | mk res s' =>
      rw [hs] at hmain
      cases res with
      | ok u => rfl
      | error e => simp at hmain
  · have h3 := hcons.2.2
    rw [hsnd] at h3
    have h4 := congrArg List.length h3
    simp only [List.length_drop] at h4
    have := hmain.2.1
    have h1 := hcons.1
    omega
  · rw [hsnd]; exact hmain.2.2

/-- `send(read_back=True)` never takes more than the echo it counts on -/
theorem send_rb_le (r : RunSt) (payload : Bytes) (hg : C03.Good r.st) (hz : Z r.st) :
    (sizesOf (obsOp (.send payload true none false) r).1).sum ≤ Tty.readBackLen payload := by
  have hcons := consumed r (.send payload true none false) hg rfl
  have hsnd : (obsOp (.send payload true none false) r).2.st = (send payload true none false (C03.cut r.st)).2 := by
    rw [obsOp_snd]
    simp only [runOp, C05.cutR]
    cases send payload true none false (C03.cut r.st) with
    | mk res s' => cases res <;> rfl
  have hpc : pending (C03.cut r.st) = pending r.st := rfl
  have hle : (pending r.st).length ≤ (pending (send payload true none false (C03.cut r.st)).2).length + Tty.readBackLen payload := by
    unfold send
    split
    · simp [hpc]
    · split
      · simp [hpc]
      · have := (sendLoop_rb (payload.length + 1) payload false (C03.cut r.st).now (C03.cut r.st)
          (by omega) hz hg.cut.wf hg.cut.chunk hg.cut.slice hg.cut.slow).2.2.2.2.2
        rw [hpc] at this
        exact this
  have h3 := hcons.2.2
  rw [hsnd] at h3
  have h4 := congrArg List.length h3
  simp only [List.length_drop] at h4
  have h1 := hcons.1
  omega

theorem sendline_eq_send (b : Bytes) (rb : Bool) (t : Option Nat) (r : RunSt) :
    obsOp (.sendline b rb t) r = obsOp (.send (b ++ [13]) rb t false) r := rfl

/-! ### operations that only open or close a `with` block -/

def structOp : Op → Bool
  | .deathEnter _ _ | .deathExit | .streamEnter _ _ | .streamExit => true
  | _ => false

theorem struct_script (r : RunSt) (op : Op) (h : structOp op = true) :
    (obsOp op r).2.st.script = r.st.script ∧ (obsOp op r).2.st.now = r.st.now := by
  cases op <;> simp [structOp] at h
  · simp [obsOp, runOp, streamEnter]
  · simp only [obsOp, runOp]
    cases r.streams with
    | nil => exact ⟨rfl, rfl⟩
    | cons x xs => obtain ⟨id, prev⟩ := x; exact ⟨rfl, rfl⟩
  · simp [obsOp, runOp, deathEnter]
  · simp only [obsOp, runOp]
    cases r.deaths with
    | nil => exact ⟨rfl, rfl⟩
    | cons x xs => exact ⟨rfl, rfl⟩

theorem struct_z (r : RunSt) (op : Op) (h : structOp op = true) (hz : Z r.st) : Z (obsOp op r).2.st := by
  intro p hp
  rw [(struct_script r op h).1] at hp
  exact hz p hp

theorem struct_pending (r : RunSt) (op : Op) (h : structOp op = true) : pending (obsOp op r).2.st = pending r.st := by
  simp only [pending, (struct_script r op h).1]

/-! ### the read that ends a command, and the exit status -/

theorem honly_of (p w : Bytes) (h : NoEarly p w true) :
    ∀ k, 0 < k → k ≤ w.length → p <:+ w.take k → k = w.length := by
  intro k _ hk hs
  obtain ⟨x, hx⟩ := hs
  have hw : w = x ++ p ++ w.drop k := by rw [hx, List.take_append_drop]
  have hd := (h.only x _ hw).2
  have := congrArg List.length hd
  simp only [List.length_drop, List.length_nil] at this
  omega

/-- `read_until_prompt()` on a stream that ends with the prompt and does not contain it earlier:
    for every fragmentation it returns the text before the prompt and consumes everything -/
theorem rup_exact (r : RunSt) (ps1 w : Bytes) (hg : C03.Good r.st) (h0 : Rel0 r)
    (hpr : r.st.prompt = some (.lit ps1)) (hp : ps1 ≠ []) (hw : pending r.st = w) (hne : NoEarly ps1 w true) :
    (obsOp (.rup none none) r).1.res = .text (text (w.take (w.length - ps1.length)))
    ∧ (sizesOf (obsOp (.rup none none) r).1).sum = w.length
    ∧ (obsOp (.rup none none) r).2.st.script = [] := by
  have hfr := C02.rup_fragmentation_gen ps1 w hp (hne.fin rfl) (honly_of ps1 w hne) (C03.cut r.st) hpr
    (rel0_deaths h0) hg.cut.wf hg.cut.chunk hw none (Or.inl rfl)
  have hcons := consumed r (.rup none none) hg rfl
  have hres : (obsOp (.rup none none) r).1.res = .text (text (w.take (w.length - ps1.length))) := by
    rw [obsOp_res]
    simp only [runOp, C05.cutR]
    cases hr : readUntilPrompt none none (C03.cut r.st) with
    | mk res s' =>
      rw [hr] at hfr
      cases res with
      | ok v => obtain ⟨b, full⟩ := v; simp only at hfr; simp only [Except.ok.injEq, Prod.mk.injEq] at hfr; rw [hfr.1.1]
      | error e => simp at hfr
  have hscr : (obsOp (.rup none none) r).2.st.script = [] := by
    rw [obsOp_snd]
    simp only [runOp, C05.cutR]
    cases hr : readUntilPrompt none none (C03.cut r.st) with
    | mk res s' =>
      rw [hr] at hfr
      cases res with
      | ok v => obtain ⟨b, full⟩ := v; exact hfr.2
      | error e => simp at hfr
  refine ⟨hres, ?_, hscr⟩
  have h3 := hcons.2.2
  have hp0 : pending (obsOp (.rup none none) r).2.st = [] := by simp [pending, hscr]
  rw [hp0, hw] at h3
  have h4 := congrArg List.length h3
  simp only [List.length_drop, List.length_nil] at h4
  have h1 := hcons.1
  rw [hw] at h1
  omega

theorem rel_load {m : DeathMon} {r : RunSt} (sizes : List Nat) (extra : Bytes) (h : C05.Rel m r) :
    C05.Rel m (load sizes extra r) :=
  ⟨h.deaths, h.frames, h.next, h.inv⟩

theorem rel0_load {r : RunSt} (sizes : List Nat) (extra : Bytes) (h : Rel0 r) : Rel0 (load sizes extra r) := by
  obtain ⟨m, hr, hm, hfr⟩ := h
  exact ⟨m, rel_load sizes extra hr, hm, hfr⟩

/-- `posix_fetch_return_code` on a channel in sync: the status, exactly, for every fragmentation -/
theorem fetchRc_exact (c : Case) (sizes : List Nat) (st : Nat) (hst : st < 256) (r : RunSt)
    (hg : C03.Good r.st) (h0 : Rel0 r) (hpr : r.st.prompt = some (.lit (prompt c)))
    (hbl : r.st.blacklist = blacklist c) (hpend : pending r.st = []) :
    (fetchRc sizes (Shell.respStatus false (prompt c) st) r).1 = .ok st
    ∧ (fetchRc sizes (Shell.respStatus false (prompt c) st) r).2.1.sum = (Shell.respStatus false (prompt c) st).length
    ∧ (fetchRc sizes (Shell.respStatus false (prompt c) st) r).2.2.st.script = []
    ∧ C03.Good (fetchRc sizes (Shell.respStatus false (prompt c) st) r).2.2.st
    ∧ (fetchRc sizes (Shell.respStatus false (prompt c) st) r).2.2.st.prompt = some (.lit (prompt c))
    ∧ (fetchRc sizes (Shell.respStatus false (prompt c) st) r).2.2.st.blacklist = blacklist c := by
  generalize hr1 : load sizes (Shell.respStatus false (prompt c) st) r = r1
  have hg1 : C03.Good r1.st := by rw [← hr1]; exact load_good _ _ _ hg
  have hz1 : Z r1.st := by rw [← hr1]; exact load_z _ _ _
  have h01 : Rel0 r1 := by rw [← hr1]; exact rel0_load _ _ h0
  have hpr1 : r1.st.prompt = some (.lit (prompt c)) := by rw [← hr1]; exact hpr
  have hbl1 : r1.st.blacklist = blacklist c := by rw [← hr1]; exact hbl
  have hp1 : pending r1.st = Shell.respStatus false (prompt c) st := by
    rw [← hr1, load_pending, hpend, List.nil_append]
  have hecho : (Tty.echo false (Shell.echoStatusLine ++ [Tty.CR])).length = Tty.readBackLen (Shell.echoStatusLine ++ [13]) :=
    Tty.echo_length_noctl _
  -- sendline "echo $?" with read-back
  have hstep2 := rel0_step r1 (.send (Shell.echoStatusLine ++ [13]) true none false) h01 rfl
  have hsend := send_rb_op r1 (Shell.echoStatusLine ++ [13]) hg1 hz1 (by rw [hbl1]; exact echoStatus_allowed c)
    (by rw [hp1, respStatus_eq, List.length_append, hecho]; omega) hstep2.2
  have hk2 := ChanCase.keeps r1 (.send (Shell.echoStatusLine ++ [13]) true none false) hg1 rfl
  have hc2 := consumed r1 (.send (Shell.echoStatusLine ++ [13]) true none false) hg1 rfl
  generalize ho2 : obsOp (.send (Shell.echoStatusLine ++ [13]) true none false) r1 = out2 at hstep2 hsend hk2 hc2
  obtain ⟨o2, r2⟩ := out2
  simp only at hstep2 hsend hk2 hc2
  have hp2 : pending r2.st = Tty.cook (Shell.statusBytes st ++ [Tty.LF]) ++ prompt c := by
    rw [hc2.2.2, hsend.2.1, hp1, respStatus_eq, ← hecho, List.drop_left']
    rfl
  have hpr2 : r2.st.prompt = some (.lit (prompt c)) := by
    have := congrArg Cfg.prompt hk2.cfg
    simpa [Cfg.ofRun, Cfg.step, hpr1] using this
  have htab := status_table c.ash st hst
  have hps : (if c.ash then Params.ashPrompt else Params.bashPrompt) = prompt c := rfl
  rw [hps] at htab
  have hne := noEarly_of _ _ _ htab.1
  have hbl2 : r2.st.blacklist = blacklist c := by
    have := congrArg Cfg.blacklist hk2.cfg
    simpa [Cfg.ofRun, Cfg.step, hbl1] using this
  have hrup := rup_exact r2 (prompt c) _ hk2.good hstep2.1 hpr2 (prompt_ne c) hp2 hne
  have hk3 := ChanCase.keeps r2 (.rup none none) hk2.good rfl
  unfold fetchRc
  rw [hr1, sendline_eq_send, ho2]
  simp only [hsend.1]
  generalize ho3 : obsOp (.rup none none) r2 = out3 at hrup hk3
  obtain ⟨o3, r3⟩ := out3
  simp only at hrup hk3 ⊢
  rw [hrup.1]
  simp only [List.length_append, Nat.add_sub_cancel, List.take_left', htab.2]
  have hpr3 : r3.st.prompt = some (.lit (prompt c)) := by
    have := congrArg Cfg.prompt hk3.cfg
    simpa [Cfg.ofRun, Cfg.step, hpr2] using this
  have hbl3 : r3.st.blacklist = blacklist c := by
    have := congrArg Cfg.blacklist hk3.cfg
    simpa [Cfg.ofRun, Cfg.step, hbl2] using this
  refine ⟨trivial, ?_, hrup.2.2, hk3.good, hpr3, hbl3⟩
  rw [List.sum_append, hsend.2.1, hrup.2.1, respStatus_eq]
  simp only [List.length_append]
  rw [hecho]

end Run
