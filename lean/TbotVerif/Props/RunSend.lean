import TbotVerif.Props.RunRemote
/-! C10 — the operations of the shell protocol on a channel whose pending data has all arrived:
    `send` with and without read-back, `sendcontrol`, the prompt-delimited read that ends a
    command, and `posix_fetch_return_code`. -/

namespace Run
open Chan Spec

/-! ### no registration: nothing fires -/

theorem walk_none (res : OpRes) : ∀ (ds : List Bytes), (c05Walk res ds []).1 = true →
    deathOf res = none ∧ (c05Walk res ds []).2 = [] := by
  intro ds
  induction ds with
  | nil =>
    intro h
    simp only [c05Walk] at h ⊢
    refine ⟨?_, trivial⟩
    cases hd : deathOf res with
    | none => rfl
    | some v => rw [hd] at h; simp at h
  | cons d ds ih =>
    intro h
    rw [C05.c05Walk_cons] at h ⊢
    simp only [List.map_nil, List.any_nil, Bool.false_eq_true, if_false] at h ⊢
    cases ds with
    | nil =>
      simp only [List.isEmpty_nil, if_true] at h ⊢
      refine ⟨?_, trivial⟩
      cases hd : deathOf res with
      | none => rfl
      | some v =>
        obtain ⟨e, m⟩ := v
        rw [hd] at h
        simp [justified] at h
    | cons d2 ds2 =>
      simp only [List.isEmpty_cons, Bool.false_eq_true, if_false] at h ⊢
      exact ih h

/-- the channel has no death string registered (and the monitor agrees) -/
def Rel0 (r : RunSt) : Prop := ∃ m, C05.Rel m r ∧ m.regs = []

theorem rel0_deaths {r : RunSt} (h : Rel0 r) : r.st.deaths = [] := by
  obtain ⟨m, hr, hm⟩ := h
  rw [hr.deaths, hm]; rfl

def plainOp : Op → Bool
  | .deathEnter _ _ | .deathAdd _ _ | .deathExit => false
  | _ => true

/-- an operation that does not touch the registrations keeps the channel free of them and
    raises no death-string exception -/
theorem rel0_step (r : RunSt) (op : Op) (h : Rel0 r) (hop : plainOp op = true) :
    Rel0 (obsOp op r).2 ∧ deathOf (obsOp op r).1.res = none := by
  obtain ⟨m, hr, hm⟩ := h
  have hok : C05.opDeathOk op := by
    cases op <;> simp [plainOp] at hop <;> exact trivial
  obtain ⟨h1, h2⟩ := C05.c05_step m r op hr hok
  cases hread : isReadOp op with
  | true =>
    have hc : c05 m op (obsOp op r).1 = ((c05Walk (obsOp op r).1.res (delivered (obsOp op r).1) m.regs).1,
        { m with regs := (c05Walk (obsOp op r).1.res (delivered (obsOp op r).1) m.regs).2 }) := by
      cases op <;> simp [plainOp] at hop <;> simp [c05, hread] <;> simp [isReadOp] at hread
    rw [hc, hm] at h1 h2
    obtain ⟨hd, hregs⟩ := walk_none _ _ h1
    exact ⟨⟨_, h2, hregs⟩, hd⟩
  | false =>
    have hc : c05 m op (obsOp op r).1 = ((deathOf (obsOp op r).1.res).isNone, m) := by
      cases op <;> simp [plainOp] at hop <;> simp [c05, hread] <;> simp [isReadOp] at hread
    rw [hc] at h1 h2
    refine ⟨⟨m, h2, hm⟩, ?_⟩
    cases hd : deathOf (obsOp op r).1.res with
    | none => rfl
    | some v => rw [hd] at h1; simp at h1

/-! ### send -/

theorem sendLoop_norb : ∀ (f : Nat) (buf : Bytes) (ign : Bool) (t0 : Nat) (s : St),
    buf.length < f → 0 < s.slice → (s.slowDelay.isSome → 0 < s.slowChunk) →
    (ign = true ∨ forbidden s.blacklist buf = false) →
    (sendLoop f buf false none ign t0 s).1 = .ok () ∧ (sendLoop f buf false none ign t0 s).2.script = s.script := by
  intro f
  induction f with
  | zero => intro buf _ _ s hf; omega
  | succ f ih =>
    intro buf ign t0 s hf hsl hsc hfine
    cases buf with
    | nil => exact ⟨rfl, rfl⟩
    | cons b t =>
      unfold sendLoop
      simp only
      obtain ⟨ws1, hf1, _, _, _, herr1⟩ := C03.write_spec ((b :: t).take s.slice) ign s hsc
      have hscr1 := write_script ((b :: t).take s.slice) ign s
      cases hw : write ((b :: t).take s.slice) ign s with
      | mk wr s1 =>
        rw [hw] at hf1 herr1 hscr1
        simp only at hscr1
        cases wr with
        | error e =>
          exfalso
          obtain ⟨_, hi, hfb, _⟩ := herr1 e rfl
          rcases hfine with h | h
          · rw [h] at hi; simp at hi
          · have := C03.forbidden_take _ _ _ hfb
            rw [h] at this; simp at this
        | ok u =>
          simp only [Bool.false_eq_true, if_false]
          have hdrop : ((b :: t).drop s1.slice).length < f := by
            have : s1.slice = s.slice := hf1.slice
            rw [this]
            simp only [List.length_drop, List.length_cons] at hf ⊢; omega
          have hfine2 : ign = true ∨ forbidden s1.blacklist ((b :: t).drop s1.slice) = false := by
            rcases hfine with h | h
            · exact Or.inl h
            · right
              have hb : s1.blacklist = s.blacklist := hf1.blacklist
              rw [hb]
              cases hx : forbidden s.blacklist ((b :: t).drop s1.slice) with
              | false => rfl
              | true => have := C03.forbidden_drop _ _ _ hx; rw [h] at this; simp at this
          have := ih ((b :: t).drop s1.slice) ign t0 s1 hdrop (by rw [hf1.slice]; exact hsl)
            (by rw [hf1.slowDelay, hf1.slowChunk]; exact hsc) hfine2
          exact ⟨this.1, by rw [this.2, hscr1]⟩

/-- `send(payload)` without read-back: succeeds, reads nothing, leaves the pending data alone -/
theorem send_norb_op (r : RunSt) (payload : Bytes) (hg : C03.Good r.st)
    (hnf : forbidden r.st.blacklist payload = false) :
    (obsOp (.send payload false none false) r).1.res = .unit
    ∧ sizesOf (obsOp (.send payload false none false) r).1 = []
    ∧ (obsOp (.send payload false none false) r).2.st.script = r.st.script := by
  have hq := C05.send_quiet payload none false (C03.cut r.st)
  have hres : (send payload false none false (C03.cut r.st)).1 = .ok ()
      ∧ (send payload false none false (C03.cut r.st)).2.script = r.st.script := by
    unfold send
    split
    · exact ⟨rfl, rfl⟩
    · split
      · rename_i _ h
        simp only [Bool.not_false, Bool.true_and] at h
        have : forbidden (C03.cut r.st).blacklist payload = forbidden r.st.blacklist payload := rfl
        rw [this, hnf] at h; simp at h
      · exact sendLoop_norb _ _ _ _ _ (by omega) hg.slice hg.slow (Or.inr hnf)
  refine ⟨?_, ?_, ?_⟩
  · rw [obsOp_res]
    simp only [runOp, C05.cutR]
    cases hs : send payload false none false (C03.cut r.st) with
    | mk res s' =>
      rw [hs] at hres
      cases res with
      | ok u => rfl
      | error e => simp at hres
  · unfold sizesOf
    rw [obsOp_reads]
    simp only [runOp, C05.cutR]
    have : (ofUnit (send payload false none false (C03.cut r.st))).2.reads = [] := by
      have h1 : (ofUnit (send payload false none false (C03.cut r.st))).2 = (send payload false none false (C03.cut r.st)).2 := by
        cases send payload false none false (C03.cut r.st) with
        | mk res s' => cases res <;> rfl
      rw [h1, hq.1.1]; rfl
    simp only [this, List.filterMap_nil]
  · rw [obsOp_snd]
    simp only [runOp, C05.cutR]
    have h1 : (ofUnit (send payload false none false (C03.cut r.st))).2 = (send payload false none false (C03.cut r.st)).2 := by
      cases send payload false none false (C03.cut r.st) with
      | mk res s' => cases res <;> rfl
    simp only [h1, hres.2]

/-- `sendcontrol`: one byte is written, nothing is read -/
theorem sendcontrol_op (r : RunSt) (n : Nat) (hn : n ≤ 0x1F) :
    (obsOp (.sendcontrol n) r).1.res = .unit
    ∧ sizesOf (obsOp (.sendcontrol n) r).1 = []
    ∧ (obsOp (.sendcontrol n) r).2.st.script = r.st.script := by
  have hq := C05.sendcontrol_quiet n (C03.cut r.st)
  have hval : sendcontrol n (C03.cut r.st) = (.ok (), writeLoop 1 [UInt8.ofNat n] (C03.cut r.st)) := by
    unfold sendcontrol
    rw [if_pos hn]
    unfold write
    simp
  refine ⟨?_, ?_, ?_⟩
  · rw [obsOp_res]; simp only [runOp, C05.cutR, hval, ofUnit]
  · unfold sizesOf
    rw [obsOp_reads]
    simp only [runOp, C05.cutR]
    rw [hval] at hq ⊢
    simp only [ofUnit]
    rw [hq.1.1]
    rfl
  · rw [obsOp_snd]
    simp only [runOp, C05.cutR, hval, ofUnit, writeLoop_script]
    rfl

/-- `send(payload, read_back=True)` when at least the echo is pending and no death string fires:
    it succeeds and takes exactly the echo -/
theorem send_rb_op (r : RunSt) (payload : Bytes) (hg : C03.Good r.st) (hz : Z r.st)
    (hnf : forbidden r.st.blacklist payload = false)
    (hlen : Tty.readBackLen payload ≤ (pending r.st).length)
    (hnd : deathOf (obsOp (.send payload true none false) r).1.res = none) :
    (obsOp (.send payload true none false) r).1.res = .unit
    ∧ (sizesOf (obsOp (.send payload true none false) r).1).sum = Tty.readBackLen payload := by
  have hcons := consumed r (.send payload true none false) hg rfl
  have hsnd : (obsOp (.send payload true none false) r).2.st = (send payload true none false (C03.cut r.st)).2 := by
    rw [obsOp_snd]
    simp only [runOp, C05.cutR]
    cases send payload true none false (C03.cut r.st) with
    | mk res s' => cases res <;> rfl
  have hresv : (obsOp (.send payload true none false) r).1.res = (ofUnit (send payload true none false (C03.cut r.st))).1 := by
    rw [obsOp_res]; simp only [runOp, C05.cutR]
  have hpc : pending (C03.cut r.st) = pending r.st := rfl
  -- the value of `send`
  have hmain : (send payload true none false (C03.cut r.st)).1 = .ok ()
      ∧ (pending (send payload true none false (C03.cut r.st)).2).length + Tty.readBackLen payload = (pending r.st).length := by
    unfold send
    split
    · rename_i he
      have : payload = [] := by simpa using he
      subst this
      exact ⟨rfl, by simp [readBackLen_nil, hpc]⟩
    · split
      · rename_i _ h
        simp only [Bool.not_false, Bool.true_and] at h
        have : forbidden (C03.cut r.st).blacklist payload = forbidden r.st.blacklist payload := rfl
        rw [this, hnf] at h; simp at h
      · rename_i hne _
        obtain ⟨_, hok, hhang, hnt, hnfuel⟩ := sendLoop_rb (payload.length + 1) payload false (C03.cut r.st).now (C03.cut r.st)
          (by omega) hz hg.cut.wf hg.cut.chunk hg.cut.slice hg.cut.slow
        obtain ⟨recs, ws, _, _, _, _, _, herr⟩ := C03.sendLoop_spec (payload.length + 1) payload true none false
          (C03.cut r.st).now (C03.cut r.st) (by omega) hg.cut.slice hg.cut.wf hg.cut.chunk hg.cut.slow
        cases hsl : sendLoop (payload.length + 1) payload true none false (C03.cut r.st).now (C03.cut r.st) with
        | mk res s' =>
          rw [hsl] at hok hhang hnt hnfuel herr
          cases res with
          | ok u => exact ⟨rfl, by rw [← hpc]; exact hok rfl⟩
          | error e =>
            exfalso
            rcases herr e rfl with ⟨_, _, h2⟩ | h | h | ⟨x, m, h⟩
            · have hnf' : forbidden (C03.cut r.st).blacklist payload = false := hnf
              rw [hnf'] at h2; simp at h2
            · subst h; exact hnt rfl
            · subst h
              have := hhang rfl
              rw [hpc] at this
              omega
            · subst h
              rw [hresv] at hnd
              unfold send at hnd
              rw [if_neg hne] at hnd
              simp only [Bool.not_false, Bool.true_and] at hnd
              have hnf' : forbidden (C03.cut r.st).blacklist payload = false := hnf
              rw [hnf'] at hnd
              simp only [Bool.false_eq_true, if_false] at hnd
              rw [hsl] at hnd
              simp [ofUnit, deathOf] at hnd
  refine ⟨?_, ?_⟩
  · rw [hresv]
    cases hs : send payload true none false (C03.cut r.st) with
    | mk res s' =>
      rw [hs] at hmain
      cases res with
      | ok u => rfl
      | error e => simp at hmain
  · have h3 := hcons.2.2
    rw [hsnd] at h3
    have h4 := congrArg List.length h3
    simp only [List.length_drop] at h4
    have := hmain.2
    have h1 := hcons.1
    omega

end Run
