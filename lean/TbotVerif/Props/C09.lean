import TbotVerif.Props.EnvSub
/-! # C09 — Environment variables round-trip exactly and subshells isolate their changes

    Everything here is about the MODEL of `Model/Env.lean` (drivers `posix_environment`, `exec`,
    `_init_shell`, `subshell` over the channel model; remote = shell frames behind a tty), for ALL
    fragmentation oracles, nesting depths and test bodies.  The correspondence harness
    (`harness/c09.py`) ties the model to the real classes on real bash and dash. -/

namespace C09
open Env Chan EnvChan

/-! ## T1 — the text lemma (DESIGN §4 C09) -/

/-- `text (cook (encode (" " ++ x ++ "\n")))` minus first and last character is `x`, for every
    CR-free string (no bound on length or alphabet; NUL and every other control character
    included) -/
theorem readback_lemma (x : List Char) (h : '\r' ∉ x) :
    ((text (Tty.cook (Quote.SP :: enc x ++ [LF]))).drop 1).dropLast = x := readback_text x h

/-- the hypothesis is needed: LF CR does not survive (ONLCR, then the `\n\r` → `\n` normalisation) -/
example : ((text (Tty.cook (Quote.SP :: enc ['\n', '\r'] ++ [LF]))).drop 1).dropLast ≠ ['\n', '\r'] := by
  decide

/-! ## T2 — `env(v, x); env(v)` returns `x`, and the remote's map holds `x` -/

/-- **Round trip.**  In sync, for every variable name, every string `x` whose encoding has no
    black-listed byte and no CR and does not contain the prompt at a piece end, and EVERY pair of
    fragmentation oracles (`w.cuts`, `w.oracle` are arbitrary): `env(v, x)` returns `x`, afterwards
    the remote's current frame maps `v` to the encoding of `x`, and `env(v)` returns `x`; the world
    is in sync again. -/
theorem env_roundtrip {ash : Bool} (w : World) (f : Frame) (fs : List Frame) (v : Bytes) (x : List Char)
    (hs : InSync ash w) (hf : w.rem.frames = f :: fs) (hv : isName v = true)
    (hx : clean (blacklist ash) (enc x) = true) (hout : okOut ash (Quote.SP :: enc x ++ [LF]) = true) :
    ∃ w1 w2 f1, envSet v x w = (.ok x, w1) ∧ w1.rem.frames = f1 :: fs ∧ lookup f1.env v = some (enc x)
      ∧ envGet v w1 = (.ok x, w2) ∧ InSync ash w2 ∧ w2.rem.frames = f1 :: fs := by
  obtain ⟨w1, hset, hs1, hfr1⟩ := set_ok w f fs v x hs hf hv hx
  have hl : lookup ({ f with env := setVar f.env v (enc x) } : Frame).env v = some (enc x) := by
    simp [lookup, setVar]
  obtain ⟨w2, hget, hs2, hfr2⟩ := get_ok w1 _ fs v x hs1 hfr1 hv (by rw [hl]; rfl) hx hout
  exact ⟨w1, w2, _, hset, hfr1, hl, hget, hs2, hfr2⟩

/-- a value with a black-listed byte is rejected and NOTHING changes (channel, remote, oracle) -/
theorem env_set_rejected {ash : Bool} (w : World) (v : Bytes) (x : List Char) (hs : InSync ash w)
    (hx : Chan.forbidden (blacklist ash) (enc x) = true) :
    envSet v x w = (.error (.chan .illegal), w) := set_illegal w v x hs hx

/-! ### F7: the read-back through `echo` (the tree before the repair) is wrong on dash -/

/-- what the remote prints for the old read-back line, on dash, when `V` holds `a\nb`: a real
    newline instead of backslash-n — so `env("V")` returned `"a<LF>b"` -/
theorem f7_witness :
    let r : Remote := { ash := true, frames := [{ env := [(b!"V", b!"a\\nb")], cwd := [], opts := [], ps1 := [] }] }
    (step r ([], 0) (readLine false b!"V")).1 = b!" a\nb\n"
      ∧ ((text (Tty.cook (step r ([], 0) (readLine false b!"V")).1)).drop 1).dropLast ≠ "a\\nb".toList
      -- … while bash's echo and, on BOTH shells, `printf '%s\n'` print the value verbatim
      ∧ (step { r with ash := false } ([], 0) (readLine false b!"V")).1 = b!" a\\nb\n"
      ∧ (step r ([], 0) (readLine true b!"V")).1 = b!" a\\nb\n" := by
  decide +kernel

/-! ## T3 — test bodies: every result is the reference result; subshell blocks isolate -/

theorem abs_inner {f : Frame} {rf : RFrame} (h : Abs f rf) : Abs { f with opts := [] } { rf with opts := [] } :=
  ⟨h.env, h.cwd, rfl⟩

theorem rok_inner {ash : Bool} {rf : RFrame} (h : ROk ash rf) : ROk ash { rf with opts := [] } :=
  ⟨h.vals, h.cwd, by intro c hc; simp at hc⟩

/-- **Main theorem on test bodies.**  For every well-formed body, every world in sync whose remote's
    current frame is the image of the reference frame `rf`, every nesting below (`fs` arbitrary),
    and every fragmentation oracle: the observed results are exactly the reference results, the
    body ends the same way, the world is in sync again, the frames BELOW the current one are
    untouched, and the current frame is the image of the reference frame afterwards. -/
theorem runProg_spec {ash : Bool} (cols rows : Nat) : ∀ (p : Prog) (w : World) (rf : RFrame) (f : Frame)
    (fs : List Frame), p.wf ash = true → InSync ash w → w.rem.frames = f :: fs → Abs f rf → ROk ash rf →
    ∃ f', ((runProg ash cols rows p w).1.1.map fun o => (o.kind, o.val)) = (refProg ash p rf).1.1
      ∧ (runProg ash cols rows p w).1.2 = (refProg ash p rf).1.2
      ∧ InSync ash (runProg ash cols rows p w).2
      ∧ (runProg ash cols rows p w).2.rem.frames = f' :: fs
      ∧ Abs f' (refProg ash p rf).2 ∧ ROk ash (refProg ash p rf).2 := by
  intro p
  induction p with
  | done => intro w rf f fs _ hs hf ha hok; exact ⟨f, rfl, rfl, hs, hf, ha, hok⟩
  | raise => intro w rf f fs _ hs hf ha hok; exact ⟨f, rfl, rfl, hs, hf, ha, hok⟩
  | op o k ih =>
    intro w rf f fs hwf hs hf ha hok
    simp only [Prog.wf, Bool.and_eq_true] at hwf
    obtain ⟨f1, hk1, hv1, hs1, hf1, ha1, hok1⟩ := runOp_spec o w rf f fs hwf.1 hs hf ha hok
    obtain ⟨f2, hl2, ho2, hs2, hf2, ha2, hok2⟩ := ih (runOp o w).2 (refOp ash o rf).2 f1 fs hwf.2 hs1 hf1 ha1 hok1
    refine ⟨f2, ?_, ?_, ?_, ?_, ?_, ?_⟩
    · simp only [runProg, refProg, List.map_cons, hk1, hv1, hl2]
    · simp only [runProg, refProg, ho2]
    · simpa only [runProg] using hs2
    · simpa only [runProg] using hf2
    · simpa only [refProg] using ha2
    · simpa only [refProg] using hok2
  | sub c body k ihb ihk =>
    intro w rf f fs hwf hs hf ha hok
    simp only [Prog.wf, Bool.and_eq_true] at hwf
    -- enter
    obtain ⟨hs0, hrem0⟩ := beginOp_sync hs
    have hf0 : (beginOp w).rem.frames = f :: fs := by rw [hrem0]; exact hf
    obtain ⟨w1, hen, hs1, hf1, _⟩ := subEnter_ok cols rows (beginOp w) f fs hs0 hf0
    -- body, on a copy of the frame with fresh options, the old frames below it
    obtain ⟨fb, hlb, hob, hsb, hfb, _, _⟩ :=
      ihb w1 { rf with opts := [] } { f with opts := [] } (f :: fs) hwf.1 hs1 hf1 (abs_inner ha) (rok_inner hok)
    -- exit: whatever the body did, exactly its frame is popped
    obtain ⟨hsx0, hremx0⟩ := beginOp_sync hsb
    have hfx0 : (beginOp (runProg ash cols rows body w1).2).rem.frames = fb :: f :: fs := by rw [hremx0]; exact hfb
    obtain ⟨w3, hex, hs3, hf3, _⟩ := subExit_ok (beginOp (runProg ash cols rows body w1).2) fb f fs hsx0 hfx0
    -- continuation, in the state from before the block
    obtain ⟨fk, hlk, hok', hsk, hfk, hak, hokk⟩ := ihk w3 rf f fs hwf.2 hs3 hf3 ha hok
    have hrun : runProg ash cols rows (.sub c body k) w =
        (let rb := runProg ash cols rows body w1
         let en := mkObs .enter .ok w1
         let ex := mkObs .exit .ok w3
         match rb.1.2 with
         | .raised t =>
           if c && t == "user" then
             let rk := runProg ash cols rows k w3
             ((en :: rb.1.1 ++ ex :: rk.1.1, rk.1.2), rk.2)
           else ((en :: rb.1.1 ++ [ex], .raised t), w3)
         | .normal =>
           let rk := runProg ash cols rows k w3
           ((en :: rb.1.1 ++ ex :: rk.1.1, rk.1.2), rk.2)) := by
      rw [runProg]
      simp only [hen, hex]
      cases runProg ash cols rows body w1 with
      | mk r1 r2 =>
        cases r1 with
        | mk obs out => cases out <;> rfl
    rw [hrun]
    simp only [refProg]
    rw [← hob]
    cases hout : (runProg ash cols rows body w1).1.2 with
    | normal =>
      refine ⟨fk, ?_, ?_, ?_, ?_, ?_, ?_⟩
      · simp only [List.map_cons, List.map_append, mkObs, hlb, hlk, List.append_assoc, List.cons_append,
          List.nil_append]
      · simp only [hok']
      · exact hsk
      · exact hfk
      · exact hak
      · exact hokk
    | raised t =>
      by_cases hc : (c && t == "user") = true
      · simp only [hc, if_true]
        refine ⟨fk, ?_, hok', hsk, hfk, hak, hokk⟩
        simp only [List.map_cons, List.map_append, mkObs, hlb, hlk, List.append_assoc, List.cons_append,
          List.nil_append]
      · simp only [hc, Bool.false_eq_true, if_false]
        refine ⟨f, ?_, by trivial, hs3, hf3, ha, hok⟩
        simp only [List.map_cons, List.map_append, mkObs, hlb, List.map_nil, List.append_assoc, List.cons_append,
          List.nil_append]

/-! ## The Spec holds of the model, for all well-formed cases and all fragmentation oracles -/

theorem initWorld_sync (c : Env.Case) (oracle : List (List Nat)) (h : c.wf = true) :
    InSync c.ash (initWorld c oracle) ∧ (initWorld c oracle).rem.frames
        = [{ env := [], cwd := c.cwd, opts := [], ps1 := prompt c.ash }]
      ∧ Abs { env := [], cwd := c.cwd, opts := [], ps1 := prompt c.ash } (initFrame c) ∧ ROk c.ash (initFrame c) := by
  simp only [Case.wf, Bool.and_eq_true, decide_eq_true_eq] at h
  obtain ⟨⟨⟨hch, hcl⟩, hout⟩, _⟩ := h
  refine ⟨?_, rfl, ⟨rfl, rfl, rfl⟩, ⟨by intro p hp; simp [initFrame] at hp, ⟨hcl, hout⟩, by intro x hx; simp [initFrame] at hx⟩⟩
  exact {
    quiet := ⟨rfl, rfl, rfl, hch, (by show 0 < Params.sendSliceSize; decide), by intro p hp; simp [initWorld] at hp⟩
    script := rfl, chPrompt := rfl, chBl := rfl, remAsh := rfl, alive := rfl
    ps1 := by intro f hf; simp only [initWorld, List.mem_singleton] at hf; subst hf; rfl
    last := Nat.zero_lt_succ _ }

/-- **C09 (model).**  `∀ case, wellformed case → ∀ oracle, Spec.C09 case (run case oracle) = true` -/
theorem spec_holds (c : Env.Case) (oracle : List (List Nat)) (h : c.wf = true) :
    Spec.C09 c (Env.run c oracle) = true := by
  obtain ⟨hs, hf, ha, hok⟩ := initWorld_sync c oracle h
  have hp : c.prog.wf c.ash = true := by
    simp only [Case.wf, Bool.and_eq_true] at h; exact h.2
  obtain ⟨f', hl, ho, _⟩ := runProg_spec 80 24 c.prog (initWorld c oracle) (initFrame c) _ [] hp hs hf ha hok
  unfold Spec.C09 Env.run
  simp only [hl, ho, decide_true, Bool.and_self]

/-! ## Corollaries -/

/-- **Isolation, normal AND exceptional exit, any depth.**  In sync, with the remote's nesting
    `f :: fs` (any depth) and `f` the image of a reference frame: after a `with m.subshell():` block
    with ANY well-formed body — whether the body ended normally or raised — the remote's frame stack
    is EXACTLY what it was before the block (variables, working directory and options of every
    level), and the world is in sync with the outer shell. -/
theorem block_restores {ash : Bool} (cols rows : Nat) (c : Bool) (body : Prog) (w : World) (rf : RFrame)
    (f : Frame) (fs : List Frame) (hwf : body.wf ash = true) (hs : InSync ash w) (hf : w.rem.frames = f :: fs)
    (ha : Abs f rf) (hok : ROk ash rf) :
    InSync ash (runProg ash cols rows (.sub c body .done) w).2
      ∧ (runProg ash cols rows (.sub c body .done) w).2.rem.frames = f :: fs := by
  obtain ⟨f', _, _, hs', hf', ha', _⟩ :=
    runProg_spec cols rows (.sub c body .done) w rf f fs (by simp [Prog.wf, hwf]) hs hf ha hok
  refine ⟨hs', ?_⟩
  -- the reference state after the block is the reference state before it
  have hrf : (refProg ash (.sub c body .done) rf).2 = rf := by
    simp only [refProg]
    split
    · split <;> rfl
    · rfl
  rw [hrf] at ha'
  have hps' : f'.ps1 = prompt ash := hs'.ps1 f' (by rw [hf']; simp)
  have hps : f.ps1 = prompt ash := hs.ps1 f (by rw [hf]; simp)
  have : f' = f := by
    cases f; cases f'
    simp only [Frame.mk.injEq]
    exact ⟨ha'.env.trans ha.env.symm, ha'.cwd.trans ha.cwd.symm, ha'.opts.trans ha.opts.symm, hps'.trans hps.symm⟩
  rw [hf', this]

/-- … so that the next command's output and status are exact (C01 applies): after the block,
    `exec` of a command the outer shell answers with `out` / status returns exactly that -/
theorem exec_after_block {ash : Bool} (cols rows : Nat) (c : Bool) (body : Prog) (w : World) (rf : RFrame)
    (f : Frame) (fs : List Frame) (hwf : body.wf ash = true) (hs : InSync ash w) (hf : w.rem.frames = f :: fs)
    (ha : Abs f rf) (hok : ROk ash rf)
    (ext : Bytes × Nat) (line out : Bytes) (r' : Remote)
    (hfb : Chan.forbidden (blacklist ash) (line ++ [CR]) = false)
    (hans : Answers (prompt ash) (runProg ash cols rows (.sub c body .done) w).2.rem ext line out r')
    (hl : Lands ash r') (hend : OnlyAtEnd (prompt ash) (Tty.cook out ++ prompt ash)) :
    ∃ w', exec line ext (runProg ash cols rows (.sub c body .done) w).2 = (.ok (r'.last, text (Tty.cook out)), w')
      ∧ InSync ash w' :=
  let ⟨w', h1, h2, _⟩ := exec_ok _ (block_restores cols rows c body w rf f fs hwf hs hf ha hok).1 hfb hans hl hend
  ⟨w', h1, h2⟩

/-! ## Non-vacuity -/

/-- a well-formed case: bash, chunk size 3, `V = 'a\nb'` (backslash-n), a guarded block that changes
    `V`, the directory and an option and then raises, reads after it -/
def demo : Env.Case :=
  { ash := false, chunk := 3, cwd := b!"/tmp",
    prog := .op (.set b!"V" "a\\nb".toList) (.sub true
      (.op (.set b!"V" "x y".toList) (.op (.cd b!"/") (.op (.setopt 102 true) .raise)))
      (.op (.get b!"V") (.op .pwd (.op .getopt .done)))) }

example : demo.wf = true := by decide +kernel

/-- the hypotheses of `env_roundtrip` are satisfiable: dash, value `-n \c 'é'` -/
example : isName b!"V0" = true ∧ clean (blacklist true) (enc "-n \\c 'é'".toList) = true
    ∧ okOut true (Quote.SP :: enc "-n \\c 'é'".toList ++ [LF]) = true := by decide +kernel

end C09
