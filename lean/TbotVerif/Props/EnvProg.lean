import TbotVerif.Props.EnvOps
import TbotVerif.Props.EnvText
/-! C09: well-formed cases, and the per-operation theorem `runOp_spec`. -/

namespace Env
open Chan Quote EnvChan

/-! ### the domain of the theorems -/

/-- what holds of every reachable reference frame -/
structure ROk (ash : Bool) (rf : RFrame) : Prop where
  vals : ∀ p ∈ rf.env, clean (blacklist ash) (enc p.2) = true ∧ okOut ash (SP :: enc p.2 ++ [LF]) = true
  cwd : clean (blacklist ash) rf.cwd = true ∧ okOut ash (rf.cwd ++ [LF]) = true
  opts : ∀ c ∈ rf.opts, c ∈ tracked

theorem okOut_sound {ash : Bool} {out : Bytes} (h : okOut ash out = true) :
    OnlyAtEnd (prompt ash) (Tty.cook out ++ prompt ash) := noEarly_sound h

/-! ### table facts -/

theorem ident_ok (ash : Bool) {c : Byte} (h : identByte c = true) : okByte (blacklist ash) c = true := by
  cases ash
  · have := byte_forall (fun c => !identByte c || okByte (blacklist false) c) (by decide +kernel) c
    simpa [h] using this
  · have := byte_forall (fun c => !identByte c || okByte (blacklist true) c) (by decide +kernel) c
    simpa [h] using this

theorem name_clean (ash : Bool) {n : Bytes} (h : isName n = true) : clean (blacklist ash) n = true := by
  unfold clean
  rw [List.all_eq_true]
  intro c hc
  exact ident_ok ash (List.all_eq_true.mp (isName_all h).1 c hc)

theorem closed_clean (ash : Bool) :
    clean (blacklist ash) b!"export" = true ∧ clean (blacklist ash) b!"printf" = true
    ∧ clean (blacklist ash) b!"%s\\n" = true ∧ clean (blacklist ash) b!"\" ${" = true
    ∧ clean (blacklist ash) b!"}\"" = true ∧ clean (blacklist ash) b!"cd" = true
    ∧ clean (blacklist ash) b!"pwd" = true ∧ clean (blacklist ash) b!"set" = true
    ∧ clean (blacklist ash) b!"echo" = true ∧ clean (blacklist ash) optsLine = true
    ∧ clean (blacklist ash) b!"exit" = true := by
  cases ash <;> decide

theorem tracked_clean (ash : Bool) {c : Byte} (h : tracked.contains c = true) (on : Bool) :
    clean (blacklist ash) [if on then 45 else 43, c] = true := by
  have hc : c = 102 ∨ c = 67 := by simpa [tracked] using h
  rcases hc with rfl | rfl <;> cases ash <;> cases on <;> decide

/-! ### one command through `exec0` / `exec` -/

theorem exec0_escape {ash : Bool} {w0 : World} {f : Frame} {fs : List Frame} {ext : Bytes × Nat}
    {ws : List Bytes} {out : Bytes} {r' : Remote}
    (hs : InSync ash w0) (hf : w0.rem.frames = f :: fs) (hne : ws ≠ [])
    (hcl : ∀ w ∈ ws, clean (blacklist ash) w = true)
    (hb : builtin w0.rem f fs ext ws = (out, r')) (hl : Lands ash r')
    (hend : OnlyAtEnd (prompt ash) (Tty.cook out ++ prompt ash)) :
    ∃ w', exec0 (escape ws) ext w0
        = ((if r'.last = 0 then .ok (text (Tty.cook out)) else .error (.commandFailure r'.last)), w')
      ∧ InSync ash w' ∧ w'.rem = r'.setLast 0 :=
  let ⟨w', h1, h2, h3, _⟩ := exec0_ok w0 hs (clean_forbidden (clean_escape ws hcl))
    (answers_escape hf (hs.ps1 f (by rw [hf]; simp)) hne hcl hb hl.shows) hl hend
  ⟨w', h1, h2, h3⟩

theorem exec_escape {ash : Bool} {w0 : World} {f : Frame} {fs : List Frame} {ext : Bytes × Nat}
    {ws : List Bytes} {out : Bytes} {r' : Remote}
    (hs : InSync ash w0) (hf : w0.rem.frames = f :: fs) (hne : ws ≠ [])
    (hcl : ∀ w ∈ ws, clean (blacklist ash) w = true)
    (hb : builtin w0.rem f fs ext ws = (out, r')) (hl : Lands ash r')
    (hend : OnlyAtEnd (prompt ash) (Tty.cook out ++ prompt ash)) :
    ∃ w', exec (escape ws) ext w0 = (.ok (r'.last, text (Tty.cook out)), w')
      ∧ InSync ash w' ∧ w'.rem = r'.setLast 0 :=
  let ⟨w', h1, h2, h3, _⟩ := exec_ok w0 hs (clean_forbidden (clean_escape ws hcl))
    (answers_escape hf (hs.ps1 f (by rw [hf]; simp)) hne hcl hb hl.shows) hl hend
  ⟨w', h1, h2, h3⟩

/-! ### `env(name, value)` -/

theorem mem_quoteBody {c : Byte} : ∀ {s : Bytes}, c ∈ s → c ∈ quoteBody s := by
  intro s
  induction s with
  | nil => intro h; exact absurd h (by simp)
  | cons d t ih =>
    intro h
    unfold quoteBody
    rcases List.mem_cons.mp h with rfl | h
    · split
      · rename_i hd; rw [eq_of_beq hd]; simp
      · simp
    · split <;> simp [ih h]

theorem mem_shlexQuote {c : Byte} {s : Bytes} (h : c ∈ s) : c ∈ shlexQuote s := by
  unfold shlexQuote
  split
  · rename_i he
    have : s = [] := by simpa using he
    subst this; exact absurd h (by simp)
  · split
    · exact h
    · simp [mem_quoteBody h]

theorem exportLine_clean {ash : Bool} {n v : Bytes} (hn : isName n = true) (hv : clean (blacklist ash) v = true) :
    clean (blacklist ash) (exportLine n v) = true := by
  obtain ⟨h1, h2, h3, h4, _⟩ := bl_facts ash
  unfold exportLine
  apply clean_joinSp h3
  intro w hw
  simp only [List.mem_cons, List.mem_nil_iff, or_false] at hw
  rcases hw with rfl | rfl
  · exact clean_shlexQuote h1 h2 _ (closed_clean ash).1
  · rw [clean_append, clean_cons, clean_shlexQuote h1 h2 _ (name_clean ash hn), h4, clean_shlexQuote h1 h2 _ hv]
    rfl

theorem exportLine_forbidden {ash : Bool} (n : Bytes) {v : Bytes} (hv : Chan.forbidden (blacklist ash) v = true) :
    Chan.forbidden (blacklist ash) (exportLine n v ++ [CR]) = true := by
  rw [C03.forbidden_iff] at hv ⊢
  obtain ⟨x, hx, hm⟩ := hv
  refine ⟨x, hx, ?_⟩
  have : x ∈ shlexQuote v := mem_shlexQuote hm
  simp [exportLine, joinSp, this]

theorem step_export (r : Remote) (f : Frame) (fs : List Frame) (ext : Bytes × Nat) (n v : Bytes)
    (hf : r.frames = f :: fs) (hn : isName n = true) :
    step r ext (exportLine n v)
      = ([], { r with frames := { f with env := setVar f.env n v } :: fs, last := 0 }) := by
  have hlen : ∃ k, (exportLine n v).length + 1 = k + 2 := by
    have : exportLine n v = shlexQuote b!"export" ++ SP :: (shlexQuote n ++ EQ :: shlexQuote v) := by
      simp [exportLine, joinSp]
    rw [this]
    exact ⟨(shlexQuote b!"export").length + (shlexQuote n ++ EQ :: shlexQuote v).length, by simp; omega⟩
  obtain ⟨k, hk⟩ := hlen
  have he : (exportLine n v).isEmpty = false := by
    cases h : exportLine n v with
    | nil => rw [h] at hk; simp at hk
    | cons _ _ => rfl
  unfold step
  rw [hf]
  simp only [he, Bool.false_eq_true, if_false, hk, wordsX_export f.env n v hn k, builtin_export r f fs ext n v hn]

/-- **`env(name, value)` in sync**: returns the value; the remote's current frame holds its encoding -/
theorem set_ok {ash : Bool} (w : World) (f : Frame) (fs : List Frame) (n : Bytes) (v : List Char)
    (hs : InSync ash w) (hf : w.rem.frames = f :: fs) (hn : isName n = true)
    (hv : clean (blacklist ash) (enc v) = true) :
    ∃ w', envSet n v w = (.ok v, w') ∧ InSync ash w'
      ∧ w'.rem.frames = { f with env := setVar f.env n (enc v) } :: fs := by
  have hcl := exportLine_clean hn hv
  have hl : Lands ash { w.rem with frames := { f with env := setVar f.env n (enc v) } :: fs, last := 0 } :=
    lands_upd 0 w.rem.seen hs.remAsh hs.ps1 hf rfl (by decide)
  have ha : Answers (prompt ash) w.rem ([], 0) (exportLine n (enc v)) [] _ :=
    answers_of_step hs.shows hcl (step_export w.rem f fs _ n (enc v) hf hn) hl.shows
  obtain ⟨w', hex, hs', hrem, _⟩ := exec0_ok w hs (clean_forbidden hcl) ha hl (empty_onlyAtEnd ash)
  refine ⟨w', ?_, hs', by rw [hrem]; rfl⟩
  unfold envSet
  rw [hex]
  simp

/-- a value with a black-listed byte: `IllegalDataException`, and nothing at all has happened -/
theorem set_illegal {ash : Bool} (w : World) (n : Bytes) (v : List Char) (hs : InSync ash w)
    (hv : Chan.forbidden (blacklist ash) (enc v) = true) :
    envSet n v w = (.error (.chan .illegal), w) := by
  unfold envSet exec0
  rw [exec_illegal _ _ w hs (exportLine_forbidden n hv)]

/-! ### `env(name)` -/

theorem readLine_clean {ash : Bool} {n : Bytes} (hn : isName n = true) :
    clean (blacklist ash) (readLine true n) = true := by
  obtain ⟨h1, h2, h3, h4, _⟩ := bl_facts ash
  obtain ⟨_, c2, c3, c4, c5, _⟩ := closed_clean ash
  unfold readLine
  simp only [if_true]
  apply clean_joinSp h3
  intro w hw
  simp only [List.mem_cons, List.mem_nil_iff, or_false] at hw
  rcases hw with rfl | rfl | rfl
  · exact clean_shlexQuote h1 h2 _ c2
  · exact clean_shlexQuote h1 h2 _ c3
  · rw [readName_name hn, clean_append, clean_append, c4, name_clean ash hn, c5]
    rfl

theorem step_read (r : Remote) (f : Frame) (fs : List Frame) (ext : Bytes × Nat) (n : Bytes)
    (hf : r.frames = f :: fs) (hn : isName n = true) :
    step r ext (readLine true n) = (SP :: (lookup f.env n).getD [] ++ [LF], r.setLast 0) := by
  have hlen : ∃ k, (readLine true n).length + 1 = k + 3 := by
    have : readLine true n = shlexQuote b!"printf" ++ SP :: (shlexQuote b!"%s\\n" ++ SP :: (b!"\" ${" ++ n ++ b!"}\"")) := by
      simp [readLine, joinSp, readName_name hn]
    rw [this]
    exact ⟨(shlexQuote b!"printf").length + ((shlexQuote b!"%s\\n").length + (b!"\" ${" ++ n ++ b!"}\"").length),
      by simp; omega⟩
  obtain ⟨k, hk⟩ := hlen
  have he : (readLine true n).isEmpty = false := by
    cases h : readLine true n with
    | nil => rw [h] at hk; simp at hk
    | cons _ _ => rfl
  unfold step
  rw [hf]
  simp only [he, Bool.false_eq_true, if_false, hk, wordsX_read f.env n hn k, builtin_printf]

/-- **`env(name)` in sync**: returns the string whose encoding the remote holds -/
theorem get_ok {ash : Bool} (w : World) (f : Frame) (fs : List Frame) (n : Bytes) (x : List Char)
    (hs : InSync ash w) (hf : w.rem.frames = f :: fs) (hn : isName n = true)
    (hx : (lookup f.env n).getD [] = enc x) (hxc : clean (blacklist ash) (enc x) = true)
    (hxo : okOut ash (SP :: enc x ++ [LF]) = true) :
    ∃ w', envGet n w = (.ok x, w') ∧ InSync ash w' ∧ w'.rem.frames = f :: fs := by
  have hcl : clean (blacklist ash) (readLine true n) = true := readLine_clean hn
  have hl : Lands ash (w.rem.setLast 0) := lands_same 0 w.rem.seen hs.remAsh hs.alive hs.ps1 (by decide)
  have ha : Answers (prompt ash) w.rem ([], 0) (readLine true n) (SP :: enc x ++ [LF]) (w.rem.setLast 0) :=
    answers_of_step hs.shows hcl (by rw [step_read w.rem f fs _ n hf hn, hx]) hl.shows
  obtain ⟨w', hex, hs', hrem, _⟩ := exec0_ok w hs (clean_forbidden hcl) ha hl (okOut_sound hxo)
  refine ⟨w', ?_, hs', by rw [hrem]; exact hf⟩
  have hcr : '\r' ∉ x := by
    apply no_cr_of_enc
    intro hm
    exact (clean_mem hxc hm).2 rfl
  unfold envGet envGetWith
  rw [hex]
  simp only [Remote.setLast, if_true, readback_text x hcr]

/-! ### the tracked options on the wire -/

theorem tracked_enc : ∀ (l : Bytes), (∀ c ∈ l, c ∈ tracked) →
    l = enc (l.map fun b => Char.ofNat b.toNat) ∧ '\r' ∉ (l.map fun b => Char.ofNat b.toNat) := by
  intro l
  induction l with
  | nil => intro _; exact ⟨rfl, by simp⟩
  | cons c t ih =>
    intro h
    obtain ⟨h1, h2⟩ := ih (fun x hx => h x (by simp [hx]))
    have hc : c = 102 ∨ c = 67 := by simpa [tracked] using h c (by simp)
    have e : enc ((c :: t).map fun b => Char.ofNat b.toNat)
        = String.utf8EncodeChar (Char.ofNat c.toNat) ++ enc (t.map fun b => Char.ofNat b.toNat) := by
      simp [enc]
    rcases hc with rfl | rfl
    · refine ⟨by rw [e, ← h1]; rfl, ?_⟩
      simp only [List.map_cons, List.mem_cons, not_or]
      exact ⟨by decide, h2⟩
    · refine ⟨by rw [e, ← h1]; rfl, ?_⟩
      simp only [List.map_cons, List.mem_cons, not_or]
      exact ⟨by decide, h2⟩

/-- what `echo $-` prints, as text, re-encoded: the option letters and a newline -/
theorem opts_text (l : Bytes) (h : ∀ c ∈ l, c ∈ tracked) : enc (text (Tty.cook (l ++ [LF]))) = l ++ [LF] := by
  obtain ⟨h1, h2⟩ := tracked_enc l h
  have e : l ++ [LF] = enc ((l.map fun b => Char.ofNat b.toNat) ++ ['\n']) := by
    have : enc ((l.map fun b => Char.ofNat b.toNat) ++ ['\n'])
        = enc (l.map fun b => Char.ofNat b.toNat) ++ String.utf8EncodeChar '\n' := by
      simp [enc, List.flatMap_append]
    rw [this, ← h1]; rfl
  rw [e, text_cook_enc _ (by
    intro hm
    simp only [List.mem_append, List.mem_singleton] at hm
    rcases hm with hm | hm
    · exact h2 hm
    · exact absurd hm (by decide))]

theorem opts_filter (l : Bytes) : tracked.filter (l ++ [LF]).contains = tracked.filter l.contains := by
  simp [tracked, List.filter, LF]

theorem opts_onlyAtEnd (ash : Bool) (l : Bytes) (h : ∀ c ∈ l, c ∈ tracked) :
    OnlyAtEnd (prompt ash) (Tty.cook (l ++ [LF]) ++ prompt ash) := by
  apply onlyAtEnd_prompt
  intro hm
  simp only [Tty.cook, List.mem_flatMap] at hm
  obtain ⟨c, hc, hm⟩ := hm
  simp only [List.mem_append, List.mem_singleton] at hc
  rcases hc with hc | rfl
  · have : c = 102 ∨ c = 67 := by simpa [tracked] using h c hc
    rcases this with rfl | rfl <;> simp [Tty.LF] at hm
  · simp [Tty.LF, Tty.CR, LF] at hm

theorem setOpt_tracked {l : Bytes} {c : Byte} (on : Bool) (h : ∀ x ∈ l, x ∈ tracked) (hc : c ∈ tracked) :
    ∀ x ∈ setOpt l c on, x ∈ tracked := by
  intro x hx
  unfold setOpt at hx
  cases on with
  | true =>
    simp only [if_true] at hx
    split at hx
    · exact h x hx
    · simp only [List.mem_append, List.mem_singleton] at hx
      rcases hx with hx | rfl
      · exact h x hx
      · exact hc
  | false =>
    simp only [Bool.false_eq_true, if_false] at hx
    exact h x (List.mem_filter.mp hx).1

/-! ### every operation -/

theorem extPre_spec {bl : Bytes} {pre : List Bytes} (h : extPre bl pre = true) :
    ∃ t rest, pre = (47 :: t) :: rest ∧ ∀ w ∈ pre, clean bl w = true := by
  unfold extPre at h
  split at h
  · rename_i t rest
    exact ⟨t, rest, rfl, fun w hw => List.all_eq_true.mp h w hw⟩
  · exact absurd h (by simp)

theorem frames_setLast (r : Remote) (n : Nat) : (r.setLast n).frames = r.frames := rfl

/-- **one operation of a test body**: result as the reference semantics demands; the world is in
    sync again; only the current frame may have changed, and it is the image of the reference
    frame afterwards -/
theorem runOp_spec {ash : Bool} (o : Op) (w : World) (rf : RFrame) (f : Frame) (fs : List Frame)
    (hwf : o.wf ash = true) (hs : InSync ash w) (hf : w.rem.frames = f :: fs) (ha : Abs f rf) (hok : ROk ash rf) :
    ∃ f', (runOp o w).1.kind = kindOf o ∧ (runOp o w).1.val = (refOp ash o rf).1
      ∧ InSync ash (runOp o w).2 ∧ (runOp o w).2.rem.frames = f' :: fs
      ∧ Abs f' (refOp ash o rf).2 ∧ ROk ash (refOp ash o rf).2 := by
  obtain ⟨hs0, hrem0⟩ := beginOp_sync hs
  have hf0 : (beginOp w).rem.frames = f :: fs := by rw [hrem0]; exact hf
  have hps : f.ps1 = prompt ash := hs.ps1 f (by rw [hf]; simp)
  cases o with
  | set n v =>
    simp only [Op.wf, Bool.and_eq_true, Bool.or_eq_true] at hwf
    obtain ⟨hn, hv⟩ := hwf
    cases hfb : Chan.forbidden (blacklist ash) (enc v) with
    | true =>
      have := set_illegal (beginOp w) n v hs0 hfb
      refine ⟨f, rfl, ?_, ?_, ?_, ?_, ?_⟩
      · simp only [runOp, this, refOp, hfb, if_true]; rfl
      · simp only [runOp, this]; exact hs0
      · simp only [runOp, this]; exact hf0
      · simp only [refOp, hfb, if_true]; exact ha
      · simp only [refOp, hfb, if_true]; exact hok
    | false =>
      rw [hfb] at hv
      simp only [Bool.false_eq_true, false_or] at hv
      obtain ⟨hcl, hout⟩ := hv
      obtain ⟨w', hset, hs', hfr⟩ := set_ok (beginOp w) f fs n v hs0 hf0 hn hcl
      refine ⟨{ f with env := setVar f.env n (enc v) }, rfl, ?_, ?_, ?_, ?_, ?_⟩
      · simp only [runOp, hset, refOp, hfb]; rfl
      · simp only [runOp, hset]; exact hs'
      · simp only [runOp, hset]; exact hfr
      · simp only [refOp, hfb, Bool.false_eq_true, if_false]
        exact ⟨by simp only; rw [ha.env, setVar_abs], ha.cwd, ha.opts⟩
      · simp only [refOp, hfb, Bool.false_eq_true, if_false]
        refine ⟨?_, hok.cwd, hok.opts⟩
        intro p hp
        simp only [List.mem_cons] at hp
        rcases hp with rfl | hp
        · exact ⟨hcl, hout⟩
        · exact hok.vals p (List.mem_filter.mp hp).1
  | get n =>
    simp only [Op.wf] at hwf
    -- the value the reference frame holds (nothing if unset)
    have hx : (lookup f.env n).getD [] = enc ((rlookup rf.env n).getD []) := by
      rw [ha.env, lookup_abs]
      cases rlookup rf.env n <;> rfl
    have hval : clean (blacklist ash) (enc ((rlookup rf.env n).getD [])) = true
        ∧ okOut ash (SP :: enc ((rlookup rf.env n).getD []) ++ [LF]) = true := by
      cases hl : rlookup rf.env n with
      | none => cases ash <;> exact ⟨by decide, by decide +kernel⟩
      | some x =>
        unfold rlookup at hl
        cases hfind : rf.env.find? (·.1 == n) with
        | none => rw [hfind] at hl; simp at hl
        | some p =>
          rw [hfind] at hl
          simp only [Option.map_some, Option.some.injEq] at hl
          subst hl
          exact hok.vals p (List.mem_of_find?_eq_some hfind)
    obtain ⟨w', hget, hs', hfr⟩ := get_ok (beginOp w) f fs n _ hs0 hf0 hwf hx hval.1 hval.2
    refine ⟨f, rfl, ?_, ?_, ?_, ha, hok⟩
    · simp only [runOp, hget, refOp]; rfl
    · simp only [runOp, hget]; exact hs'
    · simp only [runOp, hget]; exact hfr
  | probe pre n =>
    simp only [Op.wf] at hwf
    obtain ⟨t, rest, rfl, hcl⟩ := extPre_spec hwf
    have hl : Lands ash { (beginOp w).rem with last := 0 % 256, seen := some ((47 :: t) :: rest) } :=
      lands_same _ _ hs0.remAsh hs0.alive hs0.ps1 (by decide)
    obtain ⟨w', hex, hs', hrem⟩ := exec0_escape (ext := ([], 0)) hs0 hf0 (by simp) hcl
      (builtin_ext (beginOp w).rem f fs ([], 0) t rest) hl (empty_onlyAtEnd ash)
    have hfr : w'.rem.frames = f :: fs := by rw [hrem]; exact hf0
    refine ⟨f, rfl, ?_, ?_, ?_, ha, hok⟩
    · simp only [runOp, hex, refOp, valOf, mkObs, curEnv, hfr]
      show Val.env (lookup f.env n) = _
      rw [ha.env, lookup_abs]
    · simp only [runOp, hex]; exact hs'
    · simp only [runOp, hex]; exact hfr
  | cd d =>
    simp only [Op.wf, Bool.and_eq_true] at hwf
    obtain ⟨hcl, hout⟩ := hwf
    have hl : Lands ash { (beginOp w).rem with frames := { f with cwd := d } :: fs, last := 0 } :=
      lands_upd 0 (beginOp w).rem.seen hs0.remAsh hs0.ps1 hf0 rfl (by decide)
    obtain ⟨w', hex, hs', hrem⟩ := exec0_escape (ext := ([], 0)) (ws := [b!"cd", d]) hs0 hf0 (by simp)
      (by
        intro x hx
        simp only [List.mem_cons, List.mem_nil_iff, or_false] at hx
        rcases hx with rfl | rfl
        · exact (closed_clean ash).2.2.2.2.2.1
        · exact hcl)
      (builtin_cd (beginOp w).rem f fs ([], 0) d) hl (empty_onlyAtEnd ash)
    refine ⟨{ f with cwd := d }, rfl, ?_, ?_, ?_, ⟨ha.env, rfl, ha.opts⟩, ⟨hok.vals, ⟨hcl, hout⟩, hok.opts⟩⟩
    · simp only [runOp, hex, refOp]; rfl
    · simp only [runOp, hex]; exact hs'
    · simp only [runOp, hex]; rw [hrem]; rfl
  | pwd =>
    have hl : Lands ash ((beginOp w).rem.setLast 0) :=
      lands_same 0 (beginOp w).rem.seen hs0.remAsh hs0.alive hs0.ps1 (by decide)
    obtain ⟨w', hex, hs', hrem⟩ := exec0_escape (ext := ([], 0)) (ws := [b!"pwd"]) hs0 hf0 (by simp)
      (by
        intro x hx
        simp only [List.mem_cons, List.mem_nil_iff, or_false] at hx
        subst hx
        exact (closed_clean ash).2.2.2.2.2.2.1)
      (builtin_pwd (beginOp w).rem f fs ([], 0)) hl (by rw [ha.cwd]; exact okOut_sound hok.cwd.2)
    refine ⟨f, rfl, ?_, ?_, ?_, ha, hok⟩
    · simp only [runOp, hex, refOp, ha.cwd]; rfl
    · simp only [runOp, hex]; exact hs'
    · simp only [runOp, hex]; rw [hrem]; exact hf0
  | setopt c on =>
    simp only [Op.wf] at hwf
    have hl : Lands ash { (beginOp w).rem with frames := { f with opts := setOpt f.opts c on } :: fs, last := 0 } :=
      lands_upd 0 (beginOp w).rem.seen hs0.remAsh hs0.ps1 hf0 rfl (by decide)
    obtain ⟨w', hex, hs', hrem⟩ := exec0_escape (ext := ([], 0)) (ws := [b!"set", [if on then 45 else 43, c]])
      hs0 hf0 (by simp)
      (by
        intro x hx
        simp only [List.mem_cons, List.mem_nil_iff, or_false] at hx
        rcases hx with rfl | rfl
        · exact (closed_clean ash).2.2.2.2.2.2.2.1
        · exact tracked_clean ash hwf on)
      (builtin_set (beginOp w).rem f fs ([], 0) c on) hl (empty_onlyAtEnd ash)
    refine ⟨{ f with opts := setOpt f.opts c on }, rfl, ?_, ?_, ?_, ⟨ha.env, ha.cwd, by simp only [refOp]; rw [ha.opts]⟩,
      ⟨hok.vals, hok.cwd, setOpt_tracked on hok.opts (by simpa using hwf)⟩⟩
    · simp only [runOp, hex, refOp]; rfl
    · simp only [runOp, hex]; exact hs'
    · simp only [runOp, hex]; rw [hrem]; rfl
  | getopt =>
    have hl : Lands ash ((beginOp w).rem.setLast 0) :=
      lands_same 0 (beginOp w).rem.seen hs0.remAsh hs0.alive hs0.ps1 (by decide)
    have hcl : clean (blacklist ash) optsLine = true := (closed_clean ash).2.2.2.2.2.2.2.2.2.1
    have hopts : ∀ c ∈ f.opts, c ∈ tracked := by rw [ha.opts]; exact hok.opts
    have hans : Answers (prompt ash) (beginOp w).rem ([], 0) optsLine (f.opts ++ [LF]) ((beginOp w).rem.setLast 0) :=
      answers_of_step hs0.shows hcl (step_opts _ f fs _ hf0) hl.shows
    obtain ⟨w', hex, hs', hrem, _⟩ := exec0_ok (beginOp w) hs0 (clean_forbidden hcl) hans hl (opts_onlyAtEnd ash _ hopts)
    refine ⟨f, rfl, ?_, ?_, ?_, ha, hok⟩
    · simp only [runOp, hex, refOp, Remote.setLast, if_true, valOf, mkObs, ha.opts, opts_text rf.opts hok.opts, opts_filter]
    · simp only [runOp, hex]; exact hs'
    · simp only [runOp, hex]; rw [hrem]; exact hf0
  | echo a =>
    simp only [Op.wf, Bool.and_eq_true] at hwf
    obtain ⟨hcl, hout⟩ := hwf
    have hl : Lands ash ((beginOp w).rem.setLast 0) :=
      lands_same 0 (beginOp w).rem.seen hs0.remAsh hs0.alive hs0.ps1 (by decide)
    have hash : (beginOp w).rem.ash = ash := hs0.remAsh
    obtain ⟨w', hex, hs', hrem⟩ := exec_escape (ext := ([], 0)) (ws := [b!"echo", SP :: enc a]) hs0 hf0 (by simp)
      (by
        intro x hx
        simp only [List.mem_cons, List.mem_nil_iff, or_false] at hx
        rcases hx with rfl | rfl
        · exact (closed_clean ash).2.2.2.2.2.2.2.2.1
        · rw [clean_cons, (bl_facts ash).2.2.1, hcl]; rfl)
      (builtin_echo (beginOp w).rem f fs ([], 0) [SP :: enc a]) hl (by rw [hash]; exact okOut_sound hout)
    refine ⟨f, rfl, ?_, ?_, ?_, ha, hok⟩
    · simp only [runOp, hex, refOp, hash, Remote.setLast]; rfl
    · simp only [runOp, hex]; exact hs'
    · simp only [runOp, hex]; rw [hrem]; exact hf0
  | run pre args out st =>
    simp only [Op.wf, Bool.and_eq_true] at hwf
    obtain ⟨⟨hpre, hargs⟩, hout⟩ := hwf
    obtain ⟨t, rest, rfl, hcl⟩ := extPre_spec hpre
    have hl : Lands ash { (beginOp w).rem with last := st % 256, seen := some ((47 :: t) :: (rest ++ args)) } :=
      lands_same _ _ hs0.remAsh hs0.alive hs0.ps1 (Nat.mod_lt _ (by decide))
    obtain ⟨w', hex, hs', hrem⟩ := exec_escape (ext := (out, st)) (ws := ((47 :: t) :: rest) ++ args) hs0 hf0 (by simp)
      (by
        intro x hx
        rcases List.mem_append.mp hx with hx | hx
        · exact hcl x hx
        · exact List.all_eq_true.mp hargs x hx)
      (builtin_ext (beginOp w).rem f fs (out, st) t (rest ++ args)) hl (okOut_sound hout)
    refine ⟨f, rfl, ?_, ?_, ?_, ha, hok⟩
    · simp only [runOp, hex, refOp, valOf, mkObs, hrem, Remote.setLast]
      simp
    · simp only [runOp, hex]; exact hs'
    · simp only [runOp, hex]; rw [hrem]; exact hf0

end Env
