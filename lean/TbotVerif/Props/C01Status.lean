import TbotVerif.Model.Shell
import TbotVerif.Props.C08Text
import TbotVerif.Props.QuoteUtf8
/-! C01 — the status round trip for EVERY natural number: what a shell prints for `$?`
    (`str(n)` in decimal), through ONLCR and tbot's text normalisation, parses back to `n`, and
    consists of ASCII digits, CR and LF only.  (For the range 0–255 a shell can produce, the
    same facts are also available as a finite table, `C01.status_table`.) -/

namespace C01
open Shell

/-! ### `ByteArray.toList` -/

theorem byteArray_toList_loop (bs : ByteArray) : ∀ (k i : Nat) (r : List UInt8), bs.size - i = k → i ≤ bs.size →
    ByteArray.toList.loop bs i r = r.reverse ++ bs.data.toList.drop i := by
  intro k
  induction k with
  | zero =>
    intro i r hk hi
    have hsz : bs.size = bs.data.toList.length := by rw [Array.length_toList]; rfl
    rw [ByteArray.toList.loop.eq_1, if_neg (by omega)]
    rw [List.drop_of_length_le (by omega)]
    simp
  | succ k ih =>
    intro i r hk hi
    have hsz : bs.size = bs.data.toList.length := by rw [Array.length_toList]; rfl
    have hlt : i < bs.size := by omega
    rw [ByteArray.toList.loop.eq_1, if_pos hlt, ih (i + 1) _ (by omega) (by omega)]
    rw [List.drop_eq_getElem_cons (by omega : i < bs.data.toList.length)]
    have hget : bs.get! i = bs.data.toList[i]'(by omega) := by
      cases bs with
      | mk data =>
        have hi' : i < data.size := by simpa [ByteArray.size] using hlt
        simp [ByteArray.get!, hi']
    rw [hget]
    simp

theorem byteArray_toList (bs : ByteArray) : bs.toList = bs.data.toList := by
  unfold ByteArray.toList
  rw [byteArray_toList_loop bs bs.size 0 [] rfl (Nat.zero_le _)]
  simp

/-! ### the bytes of `str(n)` -/

/-- the decimal digits of `n` as characters -/
def digits (n : Nat) : List Char := Nat.toDigits 10 n

theorem digits_ne_nil (n : Nat) : digits n ≠ [] := Nat.toDigits_ne_nil

theorem digits_isDigit (n : Nat) : ∀ c ∈ digits n, c.isDigit = true :=
  fun _ hc => Nat.isDigit_of_mem_toDigits (by decide) (by decide) hc

theorem isDigit_range {c : Char} (h : c.isDigit = true) : 48 ≤ c.toNat ∧ c.toNat ≤ 57 := by
  simp only [Char.isDigit, ge_iff_le, Bool.and_eq_true, decide_eq_true_eq] at h
  have h1 : ('0' : Char).val.toNat ≤ c.val.toNat := UInt32.le_iff_toNat_le.mp h.1
  have h2 : c.val.toNat ≤ ('9' : Char).val.toNat := UInt32.le_iff_toNat_le.mp h.2
  exact ⟨h1, h2⟩

/-- a digit as a byte -/
def byteOf (c : Char) : Byte := UInt8.ofNat c.toNat

theorem statusBytes_eq (n : Nat) : statusBytes n = (digits n).map byteOf := by
  have h1 : statusBytes n = ((digits n).flatMap String.utf8EncodeChar) := by
    unfold statusBytes digits
    show (Nat.repr n).toUTF8.toList = _
    rw [byteArray_toList, Nat.repr_eq_ofList_toDigits, String.toUTF8, String.toByteArray_ofList,
      List.utf8Encode, List.toList_data_toByteArray]
  rw [h1]
  have : ∀ l : List Char, (∀ c ∈ l, c.isDigit = true) → l.flatMap String.utf8EncodeChar = l.map byteOf := by
    intro l
    induction l with
    | nil => intro _; rfl
    | cons c t ih =>
      intro h
      have hc := isDigit_range (h c (by simp))
      rw [List.flatMap_cons, List.map_cons, ih (fun x hx => h x (by simp [hx])),
        Quote.enc_ascii c (by omega)]
      rfl
  exact this _ (digits_isDigit n)

theorem byteOf_range {c : Char} (h : c.isDigit = true) : 48 ≤ (byteOf c).toNat ∧ (byteOf c).toNat ≤ 57 := by
  have := isDigit_range h
  unfold byteOf
  rw [UInt8.toNat_ofNat']
  omega

theorem statusBytes_range (n : Nat) : ∀ b ∈ statusBytes n, 48 ≤ b.toNat ∧ b.toNat ≤ 57 := by
  intro b hb
  rw [statusBytes_eq, List.mem_map] at hb
  obtain ⟨c, hc, rfl⟩ := hb
  exact byteOf_range (digits_isDigit n c hc)

/-! ### through ONLCR and `text` -/

theorem cook_plain (l : Bytes) (h : ∀ b ∈ l, b ≠ Tty.LF) : Tty.cook l = l := by
  induction l with
  | nil => rfl
  | cons b t ih =>
    have hb := h b (by simp)
    have : Tty.cook (b :: t) = (if b == Tty.LF then [Tty.CR, Tty.LF] else [b]) ++ Tty.cook t := by
      simp [Tty.cook]
    rw [this, ih (fun x hx => h x (by simp [hx]))]
    simp [hb]

theorem cook_append (a b : Bytes) : Tty.cook (a ++ b) = Tty.cook a ++ Tty.cook b := by
  simp [Tty.cook, List.flatMap_append]

theorem cook_status (n : Nat) : Tty.cook (statusBytes n ++ [Tty.LF]) = statusBytes n ++ [Tty.CR, Tty.LF] := by
  rw [cook_append, cook_plain]
  · rfl
  · intro b hb hlf
    have := (statusBytes_range n b hb).1
    rw [hlf] at this
    exact absurd this (by decide)

theorem decodeFuel_ascii : ∀ (f : Nat) (l : Bytes), l.length ≤ f → (∀ b ∈ l, b < 128) →
    decodeFuel f l = l.map fun b => Char.ofNat b.toNat := by
  intro f
  induction f with
  | zero =>
    intro l hl _
    have : l = [] := List.length_eq_zero_iff.mp (by omega)
    subst this; rfl
  | succ f ih =>
    intro l hl h
    cases l with
    | nil => rfl
    | cons b t =>
      have hb : b < 0x80 := h b (by simp)
      unfold decodeFuel
      simp only [C08.decodeStep_lo b t hb, List.drop_succ_cons, List.drop_zero, List.map_cons]
      rw [ih t (by simp only [List.length_cons] at hl; omega) (fun x hx => h x (by simp [hx]))]

theorem decodeReplace_ascii (l : Bytes) (h : ∀ b ∈ l, b < 128) :
    decodeReplace l = l.map fun b => Char.ofNat b.toNat :=
  decodeFuel_ascii l.length l (Nat.le_refl _) h

theorem ofNat_byteOf {c : Char} (h : c.isDigit = true) : Char.ofNat (byteOf c).toNat = c := by
  have := isDigit_range h
  unfold byteOf
  rw [UInt8.toNat_ofNat', Nat.mod_eq_of_lt (by omega), Char.ofNat_toNat]

theorem decode_status (n : Nat) :
    decodeReplace (statusBytes n ++ [Tty.CR, Tty.LF]) = digits n ++ ['\r', '\n'] := by
  rw [decodeReplace_ascii]
  · rw [List.map_append, statusBytes_eq, List.map_map]
    congr 1
    have : ∀ l : List Char, (∀ c ∈ l, c.isDigit = true) →
        l.map ((fun b : Byte => Char.ofNat b.toNat) ∘ byteOf) = l := by
      intro l
      induction l with
      | nil => intro _; rfl
      | cons c t ih =>
        intro h
        rw [List.map_cons, ih (fun x hx => h x (by simp [hx]))]
        simp only [Function.comp_apply]
        rw [ofNat_byteOf (h c (by simp))]
    exact this _ (digits_isDigit n)
  · intro b hb
    rcases List.mem_append.mp hb with hb | hb
    · have := (statusBytes_range n b hb).2
      rw [UInt8.lt_iff_toNat_lt]
      have e : (128 : Byte).toNat = 128 := rfl
      omega
    · simp only [List.mem_cons, List.not_mem_nil, or_false] at hb
      rcases hb with rfl | rfl <;> decide

/-- `str.replace(a ++ b, r)` on a string in which `b` does not occur -/
theorem replace2_absent (a b r : Char) : ∀ l : List Char, b ∉ l → replace2 a b r l = l := by
  intro l
  induction l with
  | nil => intro _; rfl
  | cons x t ih =>
    intro h
    cases t with
    | nil => rfl
    | cons y u =>
      have hy : y ≠ b := by intro e; apply h; simp [e]
      have hyb : (y == b) = false := by simpa using hy
      unfold replace2
      rw [hyb, Bool.and_false]
      simp only [Bool.false_eq_true, if_false]
      rw [ih (fun hm => h (List.mem_cons_of_mem _ hm))]

/-- … and on a string that ends with the one occurrence of `a ++ b` -/
theorem replace2_tail (a b r : Char) : ∀ l : List Char, a ∉ l →
    replace2 a b r (l ++ [a, b]) = l ++ [r] := by
  intro l
  induction l with
  | nil => intro _; simp [replace2]
  | cons x t ih =>
    intro h
    have hx : (x == a) = false := by
      have : x ≠ a := by intro e; apply h; simp [e]
      simpa using this
    have ht := ih (fun hm => h (List.mem_cons_of_mem _ hm))
    cases t with
    | nil =>
      simp only [List.cons_append, List.nil_append] at ht ⊢
      unfold replace2
      rw [hx, Bool.false_and]
      simp only [Bool.false_eq_true, if_false]
      rw [ht]
    | cons y u =>
      simp only [List.cons_append] at ht ⊢
      unfold replace2
      rw [hx, Bool.false_and]
      simp only [Bool.false_eq_true, if_false]
      rw [ht]

theorem digit_ne {c : Char} (h : c.isDigit = true) : c ≠ '\r' ∧ c ≠ '\n' ∧ c ≠ ' ' ∧ c ≠ '\t' := by
  have := isDigit_range h
  refine ⟨?_, ?_, ?_, ?_⟩ <;> (intro e; rw [e] at this; revert this; decide)

theorem text_status (n : Nat) : text (Tty.cook (statusBytes n ++ [Tty.LF])) = digits n ++ ['\n'] := by
  unfold text normNl
  rw [cook_status, decode_status, replace2_tail]
  · apply replace2_absent
    intro hm
    rcases List.mem_append.mp hm with hm | hm
    · exact (digit_ne (digits_isDigit n _ hm)).1 rfl
    · simp at hm
  · intro hm
    exact (digit_ne (digits_isDigit n _ hm)).1 rfl

/-! ### `int()` -/

/-- the white space `parseInt` strips -/
def isWs (c : Char) : Bool := c == ' ' || c == '\n' || c == '\t' || c == '\r'

theorem isWs_digit {c : Char} (h : c.isDigit = true) : isWs c = false := by
  obtain ⟨h1, h2, h3, h4⟩ := digit_ne h
  simp [isWs, h1, h2, h3, h4]

theorem foldl_digits (l : List Char) (init : Nat) :
    l.foldl (fun acc c => acc * 10 + (c.toNat - 48)) init = Nat.ofDigitChars 10 l init := by
  rw [Nat.ofDigitChars_eq_foldl]
  induction l generalizing init with
  | nil => rfl
  | cons c t ih =>
    simp only [List.foldl_cons]
    rw [ih]
    congr 1
    have : ('0' : Char).toNat = 48 := rfl
    rw [this, Nat.mul_comm]

/-- `int(" 42\n") == 42`, for the digit string of every `n` followed by a newline -/
theorem parseInt_digits (n : Nat) : parseInt (digits n ++ ['\n']) = some n := by
  obtain ⟨d0, D0, hD⟩ : ∃ d0 D0, digits n = d0 :: D0 := by
    cases h : digits n with
    | nil => exact absurd h (digits_ne_nil n)
    | cons d0 D0 => exact ⟨d0, D0, rfl⟩
  have hdig := digits_isDigit n
  obtain ⟨e0, E0, hE⟩ : ∃ e0 E0, (digits n).reverse = e0 :: E0 := by
    cases h : (digits n).reverse with
    | nil => exact absurd (List.reverse_eq_nil_iff.mp h) (digits_ne_nil n)
    | cons e0 E0 => exact ⟨e0, E0, rfl⟩
  have he0 : e0.isDigit = true := hdig e0 (by
    have : e0 ∈ (digits n).reverse := by rw [hE]; simp
    exact List.mem_reverse.mp this)
  have hd0 : d0.isDigit = true := hdig d0 (by rw [hD]; simp)
  have hws : ∀ c, (c == ' ' || c == '\n' || c == '\t' || c == '\r') = isWs c := fun _ => rfl
  unfold parseInt
  simp only [hws]
  have h1 : List.dropWhile isWs (digits n ++ ['\n']) = digits n ++ ['\n'] := by
    rw [hD, List.cons_append, List.dropWhile_cons_of_neg (by rw [isWs_digit hd0]; simp)]
  have h2 : List.dropWhile isWs (digits n ++ ['\n']).reverse = (digits n).reverse := by
    rw [List.reverse_append]
    show List.dropWhile isWs ('\n' :: (digits n).reverse) = _
    rw [List.dropWhile_cons_of_pos (by decide), hE, List.dropWhile_cons_of_neg (by rw [isWs_digit he0]; simp)]
  rw [h1, h2, List.reverse_reverse]
  have h3 : (digits n).isEmpty = false := by rw [hD]; rfl
  have h4 : (digits n).all Char.isDigit = true := List.all_eq_true.mpr hdig
  rw [h3, h4]
  simp only [Bool.not_true, Bool.or_self, Bool.false_eq_true, if_false]
  rw [foldl_digits]
  exact congrArg some Nat.ofDigitChars_ten_toDigits

/-- **the status round trip, for every `n`** -/
theorem parseInt_status (n : Nat) : parseInt (text (Tty.cook (statusBytes n ++ [Tty.LF]))) = some n := by
  rw [text_status, parseInt_digits]

/-- the cooked status answer consists of digits, CR and LF -/
theorem status_bytes_kind (n : Nat) : ∀ c ∈ Tty.cook (statusBytes n ++ [Tty.LF]),
    (48 ≤ c.toNat ∧ c.toNat ≤ 57) ∨ c = 13 ∨ c = 10 := by
  intro c hc
  rw [cook_status] at hc
  rcases List.mem_append.mp hc with hc | hc
  · exact Or.inl (statusBytes_range n c hc)
  · simp only [List.mem_cons, List.not_mem_nil, or_false] at hc
    rcases hc with rfl | rfl
    · exact Or.inr (Or.inl rfl)
    · exact Or.inr (Or.inr rfl)

end C01
