import TbotVerif.Props.TcLemmas
/-! How the Spec's reader walks over the run of a subtree (C16): the log of one testcase call
    takes a reader that is ready for a call to the state "this call is over, it ended like
    `bodyHow`"; the log of the calls a body makes leaves the reader where it was. -/
namespace Tc

theorem feed_append (base : Int) (cli : Bool) : ∀ (a b : List Item) (s : Ck),
    feed base cli s (a ++ b) = (feed base cli s a).bind (fun s' => feed base cli s' b)
  | [], b, s => by simp [feed]
  | i :: a, b, s => by
    simp only [List.cons_append, feed]
    cases step base cli s i with
    | none => simp
    | some s' => simpa using feed_append base cli a b s'

theorem feed_cons (base : Int) (cli : Bool) (i : Item) (is : List Item) (s : Ck) :
    feed base cli s (i :: is) = (step base cli s i).bind (fun s' => feed base cli s' is) := by
  rw [feed]
  cases step base cli s i <;> rfl

/-- The reader is inside a running body: nothing pending, the innermost open testcase has started
    and not finished. -/
def Ck.InBody (s : Ck) : Prop :=
  s.pending = none ∧ ∃ f rest, s.stack = f :: rest ∧ f.entered = true ∧ f.how = none

/-- The reader is at top level and no failure has been seen. -/
def Ck.AtTop (s : Ck) : Prop :=
  s.pending = none ∧ s.stack = [] ∧ s.failed = none

/-- Reader state after a complete call of testcase `n` whose body ended like `h`. -/
def afterCall (cli : Bool) (s : Ck) (n : Name) (h : How) : Ck :=
  match s.stack with
  | [] =>
    if cli then { s with roots := s.roots ++ [n], failed := escapes h }
    else { s with roots := s.roots ++ [n], pending := some (n, h) }
  | _ :: _ => { s with pending := some (n, h) }

theorem flagsOk_end (h : How) : flagsOk h (endSuccess h) (endSkipped h) = true := by
  cases h with
  | none => rfl
  | some e => cases e <;> rfl

/-- The four tbot-independent steps of one call, given that the log of the children's calls leaves
    a reader that is inside the body unchanged. -/
theorem feed_call (base : Int) (cli : Bool) (n : Name) (h : How) (kidsItems : List Item) (nest : Int) (s : Ck)
    (hs : s.InBody ∨ s.AtTop) (hn : nest = base + (s.stack.length : Int))
    (hk : ∀ s' : Ck, s'.InBody → nest + 1 = base + (s'.stack.length : Int) →
      feed base cli s' kidsItems = some s') :
    feed base cli s ([.begin n, .enter n (nest + 1)] ++ kidsItems
        ++ [.body n h, .end_ n (endSuccess h) (endSkipped h)])
      = some (afterCall cli s n h) := by
  obtain ⟨stack, pending, roots, failed⟩ := s
  simp only at hn
  rcases hs with ⟨hp, f, rest, hst, hfe, hfh⟩ | ⟨hp, hst, hfa⟩
  · -- inside a body
    simp only at hp hst
    subst hp hst
    obtain ⟨fn, fe, fh⟩ := f
    simp only at hfe hfh
    subst hfe hfh
    let s2 : Ck := ⟨⟨n, true, none⟩ :: ⟨fn, true, none⟩ :: rest, none, roots, failed⟩
    have h2 : s2.InBody := ⟨rfl, ⟨n, true, none⟩, _, rfl, rfl, rfl⟩
    have hl : nest + 1 = base + (s2.stack.length : Int) := by
      simp only [s2, List.length_cons] at hn ⊢; omega
    have hkk := hk s2 h2 hl
    have hd : (nest + 1 == base + ((List.length (⟨n, false, none⟩ :: ⟨fn, true, none⟩ :: rest) : Nat) : Int)) = true := by
      simp only [List.length_cons] at hn ⊢
      rw [beq_iff_eq]; omega
    rw [List.append_assoc, List.cons_append, List.cons_append, List.nil_append, feed_cons]
    simp only [step, stepBegin, Option.isSome_none, Bool.false_eq_true, if_false, Option.isNone_none,
      Bool.and_self, if_true, Option.bind_some]
    rw [feed_cons]
    simp only [step, stepEnter, beq_self_eq_true, Bool.not_false, Option.isNone_none, Bool.and_self, hd,
      if_true, Option.bind_some]
    rw [feed_append]
    simp only [s2] at hkk
    rw [hkk]
    simp only [Option.bind_some, feed, step, stepBody, stepEnd, beq_self_eq_true, Option.isNone_none,
      Bool.and_self, if_true, flagsOk_end, List.isEmpty_cons, Bool.false_and, Bool.false_eq_true, if_false,
      afterCall]
  · -- at top level
    simp only at hp hst hfa
    subst hp hst hfa
    let s2 : Ck := ⟨[⟨n, true, none⟩], none, roots ++ [n], none⟩
    have h2 : s2.InBody := ⟨rfl, ⟨n, true, none⟩, _, rfl, rfl, rfl⟩
    have hl : nest + 1 = base + (s2.stack.length : Int) := by
      simp only [s2, List.length_cons, List.length_nil] at hn ⊢; omega
    have hkk := hk s2 h2 hl
    have hd : (nest + 1 == base + ((List.length [(⟨n, false, none⟩ : Frame)] : Nat) : Int)) = true := by
      simp only [List.length_cons, List.length_nil] at hn ⊢
      rw [beq_iff_eq]; omega
    rw [List.append_assoc, List.cons_append, List.cons_append, List.nil_append, feed_cons]
    simp only [step, stepBegin, Option.isSome_none, Bool.false_eq_true, if_false, Option.bind_some]
    rw [feed_cons]
    simp only [step, stepEnter, beq_self_eq_true, Bool.not_false, Option.isNone_none, Bool.and_self, hd,
      if_true, Option.bind_some]
    rw [feed_append]
    simp only [s2] at hkk
    rw [hkk]
    cases cli <;>
    simp only [Option.bind_some, feed, step, stepBody, stepEnd, beq_self_eq_true, Option.isNone_none,
      Bool.and_self, if_true, flagsOk_end, List.isEmpty_nil, Bool.true_and, Bool.and_true, Bool.false_eq_true,
      if_false, afterCall]

theorem retOk_expected (k : Node) : retOk k.name k.bodyHow k.expectedRet = true := by
  unfold Node.expectedRet retOk
  have hf : k.name.form = k.form := by cases k; rfl
  cases k.bodyHow with
  | none => by_cases h : k.form = .ctx <;> simp [hf, h]
  | some e => cases e <;> by_cases h : k.form = .ctx <;> simp [hf, h]

mutual
/-- The log of one call takes a reader that is ready for a call to "this call is over". -/
theorem feed_node (base : Int) (cli : Bool) : ∀ (n : Node) (nest : Int) (s : Ck),
    (s.InBody ∨ s.AtTop) → nest = base + (s.stack.length : Int) →
    feed base cli s (runNode nest n).items = some (afterCall cli s n.name n.bodyHow)
  | .mk form id g kids fin, nest, s, hs, hn => by
    rw [runNode_items]
    exact feed_call base cli ⟨form, id⟩ _ _ nest s hs hn
      (fun s' h' hl => feed_kids base cli kids (nest + 1) s' h' hl)
/-- The log of the calls a body makes leaves a reader that is inside that body unchanged. -/
theorem feed_kids (base : Int) (cli : Bool) : ∀ (ks : List Node) (nest : Int) (s : Ck),
    s.InBody → nest = base + (s.stack.length : Int) →
    feed base cli s (runKids nest ks).items = some s
  | [], nest, s, _, _ => by simp [runKids, feed]
  | k :: ks, nest, s, hs, hn => by
    have h1 := feed_node base cli k nest s (Or.inl hs) hn
    have h2 := feed_kids base cli ks nest s hs hn
    obtain ⟨hp, f, rest, hst, hfe, hfh⟩ := hs
    obtain ⟨stack, pending, roots, failed⟩ := s
    simp only at hp hst
    subst hp hst
    rw [runKids_items_cons, feed_append, feed_append, h1]
    simp only [afterCall, Option.bind_some, feed, step, stepRet, beq_self_eq_true, retOk_expected,
      Bool.and_self, if_true]
    by_cases hg : k.goesOn
    · simpa [hg] using h2
    · simp [hg, feed]
end

/-- Names of the top-level testcases the in-process driver gets to. -/
def ipRan : List Node → List Name
  | [] => []
  | k :: ks => k.name :: (if k.goesOn then ipRan ks else [])

/-- The in-process driver's log, read from top level. -/
theorem feed_top_ip (base : Int) : ∀ (ks : List Node) (s : Ck), s.AtTop →
    feed base false s (runKids base ks).items = some { s with roots := s.roots ++ ipRan ks }
  | [], s, _ => by simp [runKids, feed, ipRan]
  | k :: ks, s, hs => by
    have h1 := feed_node base false k base s (Or.inr hs) (by simp [hs.2.1])
    obtain ⟨hp, hst, hfa⟩ := hs
    obtain ⟨stack, pending, roots, failed⟩ := s
    simp only at hp hst hfa
    subst hp hst hfa
    have h2 := feed_top_ip base ks ⟨[], none, roots ++ [k.name], none⟩ ⟨rfl, rfl, rfl⟩
    rw [runKids_items_cons, feed_append, feed_append, h1]
    simp only [afterCall, Option.bind_some, feed, step, stepRet, beq_self_eq_true, retOk_expected,
      Bool.and_self, if_true, Bool.false_eq_true, if_false]
    by_cases hg : k.goesOn
    · simp only [hg, if_true, ipRan]
      rw [h2]
      simp
    · simp [hg, feed, ipRan]

theorem ipRan_prefix : ∀ ks : List Node, ipRan ks <+: ks.map Node.name
  | [] => by simp [ipRan]
  | k :: ks => by
    by_cases hg : k.goesOn
    · simpa [ipRan, hg] using ipRan_prefix ks
    · simp [ipRan, hg]

theorem ipRan_all : ∀ ks : List Node, kidsEscape ks = none → ipRan ks = ks.map Node.name
  | [], _ => by simp [ipRan]
  | k :: ks, h => by
    rw [kidsEscape_cons] at h
    by_cases hg : k.goesOn
    · simp only [hg, if_true] at h
      simp [ipRan, hg, ipRan_all ks h]
    · simp only [hg, Bool.false_eq_true, if_false] at h
      simp [Node.goesOn, h] at hg

/-! ## The CLI loop -/

/-- The first exception that leaves a top-level testcase. -/
def firstEscape : List Node → Option Exc
  | [] => none
  | k :: ks =>
    match k.escape with
    | some e => some e
    | none => firstEscape ks

/-- Names of the top-level testcases the CLI loop gets to. -/
def cliRan : List Node → List Name
  | [] => []
  | k :: ks => k.name :: (if k.escape = none then cliRan ks else [])

theorem cliLoop_cons (k : Node) (ks : List Node) (nest : Int) :
    cliLoop nest (k :: ks)
      = if k.escape = none then
          ⟨(runNode nest k).items ++ (cliLoop nest ks).items, (cliLoop nest ks).nest, (cliLoop nest ks).val⟩
        else ⟨(runNode nest k).items, nest, k.escape⟩ := by
  rw [cliLoop, runNode_nest, runNode_val]
  cases he : k.escape with
  | none =>
    have : ∀ e, k.expectedRet ≠ .exc e := by
      intro e h; rw [expectedRet_exc] at h; rw [he] at h; cases h
    cases hr : k.expectedRet with
    | exc e => exact absurd hr (this e)
    | val v => simp
    | none => simp
    | unit => simp
  | some e =>
    have hr : k.expectedRet = .exc e := (expectedRet_exc k e).2 he
    rw [hr]
    simp

theorem cliLoop_sem : ∀ (ks : List Node) (nest : Int),
    (cliLoop nest ks).nest = nest ∧ (cliLoop nest ks).val = firstEscape ks
  | [], nest => by simp [cliLoop, firstEscape]
  | k :: ks, nest => by
    have ih := cliLoop_sem ks nest
    rw [cliLoop_cons, firstEscape]
    cases he : k.escape with
    | none => simpa using ih
    | some e => simp

/-- The CLI loop's log, read from top level. -/
theorem feed_top_cli (base : Int) : ∀ (ks : List Node) (s : Ck), s.AtTop →
    feed base true s (cliLoop base ks).items
      = some { s with roots := s.roots ++ cliRan ks, failed := firstEscape ks }
  | [], s, hs => by
    obtain ⟨stack, pending, roots, failed⟩ := s
    obtain ⟨_, _, hfa⟩ := hs
    simp only at hfa
    subst hfa
    simp [cliLoop, feed, cliRan, firstEscape]
  | k :: ks, s, hs => by
    have h1 := feed_node base true k base s (Or.inr hs) (by simp [hs.2.1])
    obtain ⟨hp, hst, hfa⟩ := hs
    obtain ⟨stack, pending, roots, failed⟩ := s
    simp only at hp hst hfa
    subst hp hst hfa
    have h2 := feed_top_cli base ks ⟨[], none, roots ++ [k.name], none⟩ ⟨rfl, rfl, rfl⟩
    rw [cliLoop_cons]
    simp only [afterCall, if_true] at h1
    cases he : k.escape with
    | none =>
      simp only [if_true]
      rw [feed_append, h1]
      simp only [Option.bind_some]
      have : escapes k.bodyHow = none := he
      rw [this, h2]
      simp [cliRan, firstEscape, he]
    | some e =>
      have : escapes k.bodyHow = some e := he
      simp only [reduceCtorEq, if_false]
      rw [h1, this]
      simp [cliRan, firstEscape, he]

theorem cliRan_prefix : ∀ ks : List Node, cliRan ks <+: ks.map Node.name
  | [] => by simp [cliRan]
  | k :: ks => by
    by_cases hg : k.escape = none
    · simpa [cliRan, hg] using cliRan_prefix ks
    · simp [cliRan, hg]

theorem cliRan_all : ∀ ks : List Node, firstEscape ks = none → cliRan ks = ks.map Node.name
  | [], _ => by simp [cliRan]
  | k :: ks, h => by
    rw [firstEscape] at h
    cases he : k.escape with
    | none =>
      rw [he] at h
      simp [cliRan, he, cliRan_all ks h]
    | some e => rw [he] at h; cases h

/-! ## Only testcase-level items below the process level -/

mutual
theorem runNode_isTc : ∀ (n : Node) (nest : Int), ∀ i ∈ (runNode nest n).items, i.isTc = true
  | .mk form id g kids fin, nest => by
    intro i hi
    rw [runNode_items] at hi
    simp only [List.mem_append, List.mem_cons, List.not_mem_nil, or_false] at hi
    rcases hi with ((rfl | rfl) | hi) | rfl | rfl
    · rfl
    · rfl
    · exact runKids_isTc kids (nest + 1) i hi
    · rfl
    · rfl
theorem runKids_isTc : ∀ (ks : List Node) (nest : Int), ∀ i ∈ (runKids nest ks).items, i.isTc = true
  | [], nest => by simp [runKids]
  | k :: ks, nest => by
    intro i hi
    rw [runKids_items_cons] at hi
    simp only [List.mem_append, List.mem_cons, List.not_mem_nil, or_false] at hi
    rcases hi with (hi | rfl) | hi
    · exact runNode_isTc k nest i hi
    · rfl
    · by_cases hg : k.goesOn
      · simp only [hg, if_true] at hi
        exact runKids_isTc ks nest i hi
      · simp [hg] at hi
end

theorem cliLoop_isTc : ∀ (ks : List Node) (nest : Int), ∀ i ∈ (cliLoop nest ks).items, i.isTc = true
  | [], nest => by simp [cliLoop]
  | k :: ks, nest => by
    intro i hi
    rw [cliLoop_cons] at hi
    by_cases he : k.escape = none
    · simp only [he, if_true, List.mem_append] at hi
      rcases hi with hi | hi
      · exact runNode_isTc k nest i hi
      · exact cliLoop_isTc ks nest i hi
    · simp only [he, if_false] at hi
      exact runNode_isTc k nest i hi

end Tc
