import TbotVerif.Spec.UBoot
import TbotVerif.Props.C19Q
/-! The U-Boot console model: what it answers to a command line made of ordinary bytes. -/

namespace UBootCon
open UBoot

/-- a byte the console echoes and appends to the line it is collecting -/
def ordinary (c : Byte) : Bool := !(c == CR || c == LF) && !(c == 0x03) && !special.contains c

theorem special_control : special.all (fun c => !Hush.printable c) = true := by decide

theorem printable_ordinary {c : Byte} (h : Hush.printable c = true) : ordinary c = true := by
  have hs : special.contains c = false := by
    cases hc : special.contains c with
    | false => rfl
    | true =>
      have hm : c ∈ special := by simpa using hc
      have := List.all_eq_true.mp special_control c hm
      simp [h] at this
  have h13 : (c == CR) = false := by
    cases hc : c == CR with
    | false => rfl
    | true => have : c = CR := by simpa using hc
              subst this; exact absurd h (by decide)
  have h10 : (c == LF) = false := by
    cases hc : c == LF with
    | false => rfl
    | true => have : c = LF := by simpa using hc
              subst this; exact absurd h (by decide)
  have h3 : (c == 0x03) = false := by
    cases hc : c == 0x03 with
    | false => rfl
    | true => have : c = 0x03 := by simpa using hc
              subst this; exact absurd h (by decide)
  have hm : c ∉ special := by simpa using hs
  simp [ordinary, hm, h13, h10, h3]

theorem ordinary_iff {c : Byte} (h : ordinary c = true) :
    (c == CR || c == LF) = false ∧ (c == 0x03) = false ∧ special.contains c = false := by
  simp only [ordinary, Bool.and_eq_true, Bool.not_eq_true'] at h
  exact ⟨h.1.1, h.1.2, h.2⟩

theorem ordinary_ne {c : Byte} (h : ordinary c = true) : c ≠ 13 ∧ c ≠ 10 := by
  have := (ordinary_iff h).1
  simp only [Bool.or_eq_false_iff, beq_eq_false_iff_ne] at this
  exact this

theorem feed1_ordinary (c : Byte) (con : Con) (h : ordinary c = true) :
    feed1 c con = ([c], { con with line := con.line ++ [c] }) := by
  obtain ⟨h1, h2, h3⟩ := ordinary_iff h
  unfold feed1
  simp only [h1, h2, h3, Bool.false_eq_true, if_false]

theorem feed_ordinary : ∀ (l : Bytes) (con : Con), (∀ c ∈ l, ordinary c = true) →
    feed l con = (l, { con with line := con.line ++ l })
  | [], con, _ => by simp [feed]
  | c :: t, con, h => by
    have hc := h c (List.mem_cons_self ..)
    have ht := feed_ordinary t { con with line := con.line ++ [c] } (fun x hx => h x (List.mem_cons_of_mem _ hx))
    simp only [feed, feed1_ordinary c con hc, ht, List.append_assoc, List.cons_append, List.nil_append]

theorem feed_append : ∀ (a b : Bytes) (con : Con),
    feed (a ++ b) con = ((feed a con).1 ++ (feed b (feed a con).2).1, (feed b (feed a con).2).2)
  | [], b, con => by simp [feed]
  | c :: t, b, con => by
    simp only [List.cons_append, feed, feed_append t b (feed1 c con).2, List.append_assoc]

/-- **a command line**: ordinary bytes, then Enter — the console echoes the line and CR LF, runs
    the line, sends its output through the serial driver and prints the prompt -/
theorem feed_line (l : Bytes) (con : Con) (h : ∀ c ∈ l, ordinary c = true) :
    feed (l ++ [CR]) con =
      (l ++ CR :: LF :: (Tty.cook (runLine (con.line ++ l) { con with line := [] }).1 ++ con.prompt),
       (runLine (con.line ++ l) { con with line := [] }).2) := by
  rw [feed_append, feed_ordinary l con h]
  simp only [feed, feed1, beq_self_eq_true, Bool.true_or, if_true, List.append_nil]

/-! ### running a line -/

theorem echoStatus_hazard : Hush.hushWords echoStatus = none := by decide

theorem echoStatus_eq : echoStatus = Shell.echoStatusLine := by decide +kernel

theorem runLine_status (con : Con) :
    runLine echoStatus con =
      (statusBytes con.status ++ [LF], { con with status := 0, ran := con.ran ++ [Ran.status] }) := by
  simp [runLine]

theorem escape_ne_echoStatus (args : List Bytes) (hp : ∀ a ∈ args, a.all Hush.printable = true) :
    (Hush.escape args == echoStatus) = false := by
  cases h : Hush.escape args == echoStatus with
  | false => rfl
  | true =>
    have he : Hush.escape args = echoStatus := by simpa using h
    have := C19Q.hushWords_escape args hp
    rw [he, echoStatus_hazard] at this
    simp at this

/-- a quoted command line is dispatched with exactly the argument vector that was quoted -/
theorem runLine_escape (args : List Bytes) (hne : args ≠ []) (hp : ∀ a ∈ args, a.all Hush.printable = true)
    (con : Con) : runLine (Hush.escape args) con = dispatch args con := by
  unfold runLine
  rw [escape_ne_echoStatus args hp, C19Q.hushWords_escape args hp]
  cases args with
  | nil => exact absurd rfl hne
  | cons w ws => simp

theorem dispatch_hit (args : List Bytes) (out : Bytes) (status : Nat) (con : Con)
    (ht : con.table = some ⟨args, out, status⟩) :
    dispatch args con = (out, { con with ran := con.ran ++ [Ran.argv args], status := status }) := by
  unfold dispatch
  simp [ht]

theorem joinSp_single (x : Bytes) : Quote.joinSp [x] = x := rfl

theorem dispatch_setenv (var x : Bytes) (con : Con) (ht : con.table = none) (hn : nameOk var = true) :
    dispatch [setenvB, var, x] con =
      ([], { con with ran := con.ran ++ [Ran.argv [setenvB, var, x]], status := 0, env := envSet con.env var x }) := by
  unfold dispatch
  simp [ht, builtin, hn, joinSp_single]

theorem printenv_ne_setenv : (printenvB == setenvB) = false := by decide

theorem dispatch_printenv (var : Bytes) (con : Con) (ht : con.table = none) :
    dispatch [printenvB, var] con =
      match envGet con.env var with
      | some v => (printLine var v, { con with ran := con.ran ++ [Ran.argv [printenvB, var]], status := 0 })
      | none => (notDefinedMsg var, { con with ran := con.ran ++ [Ran.argv [printenvB, var]], status := 1 }) := by
  unfold dispatch
  simp only [ht, builtin, printenv_ne_setenv, Bool.false_eq_true, if_false, beq_self_eq_true, if_true]
  cases envGet con.env var <;> rfl

theorem envGet_envSet (e : List (Bytes × Bytes)) (k v : Bytes) : envGet (envSet e k v) k = some v := by
  simp [envGet, envSet]

end UBootCon
