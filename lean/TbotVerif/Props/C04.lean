import TbotVerif.Props.C02
import TbotVerif.Props.PatLemmas
/-! C04 — expect(). -/

namespace C04
open Chan Spec

theorem firstMatch_some (buf : Bytes) : ∀ (pats : List Pat) (i0 i a e : Nat),
    firstMatch buf i0 pats = some (i, a, e) →
    ∃ j p, i = i0 + j ∧ pats[j]? = some p ∧ p.search buf = some (a, e)
      ∧ (pats.take j).all (fun q => (q.search buf).isNone) = true := by
  intro pats
  induction pats with
  | nil => intro i0 i a e h; simp [firstMatch] at h
  | cons p ps ih =>
    intro i0 i a e h
    unfold firstMatch at h
    cases hs : p.search buf with
    | some v =>
      obtain ⟨a', e'⟩ := v
      rw [hs] at h
      simp only [Option.some.injEq, Prod.mk.injEq] at h
      obtain ⟨rfl, rfl, rfl⟩ := h
      exact ⟨0, p, rfl, rfl, hs, by simp⟩
    | none =>
      rw [hs] at h
      obtain ⟨j, q, hi, hq, hsq, hall⟩ := ih (i0 + 1) i a e h
      refine ⟨j + 1, q, by omega, by simpa using hq, hsq, ?_⟩
      simp [List.take_succ_cons, hs, hall]

theorem firstMatch_none (buf : Bytes) : ∀ (pats : List Pat) (i0 : Nat),
    firstMatch buf i0 pats = none → anyMatch pats buf = false := by
  intro pats
  induction pats with
  | nil => intro _ _; rfl
  | cons p ps ih =>
    intro i0 h
    unfold firstMatch at h
    cases hs : p.search buf with
    | some v => rw [hs] at h; obtain ⟨a', e'⟩ := v; simp at h
    | none =>
      rw [hs] at h
      have := ih (i0 + 1) h
      unfold anyMatch at *
      simp [hs, this]

theorem firstMatch_any (buf : Bytes) (pats : List Pat) (i0 i a e : Nat)
    (h : firstMatch buf i0 pats = some (i, a, e)) : anyMatch pats buf = true := by
  obtain ⟨j, p, _, hp, hs, _⟩ := firstMatch_some buf pats i0 i a e h
  unfold anyMatch
  rw [List.any_eq_true]
  exact ⟨p, List.mem_of_getElem? hp, by simp [hs]⟩

/-- The loop of `expect`. -/
theorem expectLoop_spec : ∀ (f : Nat) (pats : List Pat) (buf : Bytes) (ri : RI) (s : St),
    ri.max = none → bytesLeft s < f → WF s → 0 < s.chunk →
    ∃ recs, ReadFrame s (expectLoop f pats buf ri s).2 recs ∧ (∀ r ∈ recs, r.n ≤ s.chunk) ∧
      (∀ x, (expectLoop f pats buf ri s).1 = .ok x →
        x.buf = buf ++ (dataOf recs).flatten ∧ firstMatch x.buf 0 pats = some (x.idx, x.s, x.e)
          ∧ hitsOnlyAtEnd (anyMatch pats) buf (dataOf recs) = true) ∧
      (∀ e, (expectLoop f pats buf ri s).1 = .error e →
        (e = .timeout ∨ e = .hang ∨ ∃ x m, e = .death x m) ∧
        ((e = .timeout ∨ e = .hang) → neverHits (anyMatch pats) buf (dataOf recs) = true)) := by
  intro f
  induction f with
  | zero => intro pats buf ri s _ hf; omega
  | succ f ih =>
    intro pats buf ri s hmax hf hwf hc
    unfold expectLoop
    have hout := riNext_out ri s
    generalize riNext ri s = out at hout
    obtain ⟨st, ri', s'⟩ := out
    simp only at hout
    cases hout with
    | done h1 h2 => rw [hmax] at h1; simp at h1
    | expired hnd hrem =>
      refine ⟨[], ReadFrame.refl s, by simp, by simp, ?_⟩
      intro e he
      simp only [Except.error.injEq] at he
      subst he
      exact ⟨Or.inl rfl, fun _ => rfl⟩
    | ioErr rem rec s' e hnd hrem hio =>
      refine ⟨[rec], hio.frame, ?_, by simp, ?_⟩
      · intro r hr
        simp only [List.mem_singleton] at hr
        subst hr; rw [hio.hn]; exact maxRead_le _ _
      · intro e' he
        simp only [Except.error.injEq] at he
        subst he
        have herr := hio.err e rfl
        refine ⟨?_, fun _ => ?_⟩
        · rcases herr.2.1 with h | h
          · exact Or.inl h
          · exact Or.inr (Or.inl h)
        · rw [dataOf_cons_none _ _ herr.1]; rfl
    | death rem rec s1 b x m hnd hrem hio hchk =>
      refine ⟨[rec], chunk_frame hio, ?_, by simp, ?_⟩
      · intro r hr
        simp only [List.mem_singleton] at hr
        subst hr; rw [hio.hn]; exact maxRead_le _ _
      · intro e' he
        simp only [Except.error.injEq] at he
        subst he
        exact ⟨Or.inr (Or.inr ⟨x, m, rfl⟩), fun h => by rcases h with h | h <;> simp at h⟩
    | chunk rem rec s1 b hnd hrem hio hchk =>
      have hfr := chunk_frame hio
      have hdata := (hio.ok b rfl).1
      have hbne : b ≠ [] := (hio.ok b rfl).2.2 hwf (by rw [maxRead_none _ _ hmax]; exact hc)
      have hrn : ∀ r ∈ [rec], r.n ≤ s.chunk := by
        intro r hr
        simp only [List.mem_singleton] at hr
        subst hr; rw [hio.hn]; exact maxRead_le _ _
      generalize hs2 : (check b (writeStream b s1)).2 = s2 at hfr
      simp only
      have hbytes := hfr.bytes
      rw [dataOf_cons_some _ _ _ hdata] at hbytes
      simp only [dataOf_nil, List.flatten_cons, List.flatten_nil, List.append_nil] at hbytes
      have hblen : 0 < b.length := List.length_pos_iff.mpr hbne
      have hrec := ih pats (buf ++ b) { ri with got := ri.got + b.length, started := true } s2 hmax (by omega) (hfr.wf hwf)
        (by rw [hfr.chunk]; exact hc)
      cases hfm : firstMatch (buf ++ b) 0 pats with
      | some v =>
        obtain ⟨i, a, e⟩ := v
        simp only
        refine ⟨[rec], hfr, hrn, ?_, by simp⟩
        intro x hres
        simp only [Except.ok.injEq] at hres
        subst hres
        simp only
        refine ⟨?_, hfm, ?_⟩
        · rw [dataOf_cons_some _ _ _ hdata]; simp
        · rw [dataOf_cons_some _ _ _ hdata, dataOf_nil, hitsOnlyAtEnd_cons]
          simp [firstMatch_any _ _ _ _ _ _ hfm]
      | none =>
        simp only
        have hnm := firstMatch_none _ _ _ hfm
        obtain ⟨recs, hf2, hn2, hok2, herr2⟩ := hrec
        refine ⟨rec :: recs, hfr.trans hf2, ?_, ?_, ?_⟩
        · intro r hr
          rcases List.mem_cons.mp hr with rfl | hr
          · exact hrn _ (by simp)
          · have := hn2 r hr; rw [hfr.chunk] at this; exact this
        · intro x hres
          obtain ⟨hbuf, hfm', hhit⟩ := hok2 x hres
          refine ⟨?_, hfm', ?_⟩
          · rw [hbuf, dataOf_cons_some _ _ _ hdata]; simp
          · rw [dataOf_cons_some _ _ _ hdata, hitsOnlyAtEnd_cons]
            have hne : dataOf recs ≠ [] := by
              intro hc'; rw [hc'] at hhit; simp at hhit
            simp [hne, hnm, hhit]
        · intro e he
          refine ⟨(herr2 e he).1, fun hto => ?_⟩
          rw [dataOf_cons_some _ _ _ hdata, neverHits_cons]
          simp [hnm, (herr2 e he).2 hto]

/-- **C04 (per call).** -/
theorem expect_spec (r : RunSt) (pats : List Pat) (t : Option Nat) (hwf : WF r.st) (hc : 0 < r.st.chunk) :
    Spec.c04 (.expect pats t) (obsOp (.expect pats t) r).1 = true := by
  generalize hs0 : ({ r.st with reads := [], writes := [], fwd := [] } : St) = s0
  have hwf0 : WF s0 := by subst hs0; exact hwf
  have hc0 : 0 < s0.chunk := by subst hs0; exact hc
  have hrd0 : s0.reads = [] := by subst hs0; rfl
  obtain ⟨recs, hf, hn, hok, herr⟩ := expectLoop_spec (fuelFor s0) pats [] (riStart none t s0) s0 rfl
    (by unfold fuelFor; omega) hwf0 hc0
  unfold obsOp runOp
  simp only [hs0]
  unfold expect
  have hreads : (expectLoop (fuelFor s0) pats [] (riStart none t s0) s0).2.reads = recs := by
    rw [hf.reads, hrd0]; rfl
  unfold Spec.c04 Spec.delivered
  cases hres : expectLoop (fuelFor s0) pats [] (riStart none t s0) s0 with
  | mk res s1 =>
    rw [hres] at hreads hok herr
    simp only at hreads hok herr
    have hd : List.filterMap (fun x => x.data) recs = dataOf recs := rfl
    cases res with
    | ok x =>
      obtain ⟨hbuf, hfm, hhit⟩ := hok x rfl
      obtain ⟨j, p, hj, hp, hsearch, hall⟩ := firstMatch_some _ _ _ _ _ _ hfm
      simp only [Nat.zero_add] at hj
      simp only [hreads, hd]
      simp only [List.nil_append] at hbuf
      rw [← hbuf, hj, hp]
      simp only [hsearch, hhit, hall, Bool.true_and]
      have hb := Pat.search_bound p x.buf x.s x.e hsearch
      simp [hb.1, hb.2]
    | error e =>
      obtain ⟨hkind, hnever⟩ := herr e rfl
      simp only [hreads, hd]
      rcases hkind with rfl | rfl | ⟨x, m, rfl⟩
      · exact hnever (Or.inl rfl)
      · exact hnever (Or.inr rfl)
      · rfl

end C04
