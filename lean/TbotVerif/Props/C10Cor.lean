import TbotVerif.Props.C10
import TbotVerif.Props.C07
/-! C10 — corollaries: the clauses of the property read off the specification (which, by
    `C10.c10_partial`, the model satisfies), and the ownership facts on the model itself. -/

namespace C10
open Run Chan Spec

/-! ### (a) while the command runs the machine's own channel refuses use -/

/-- every use of the machine's channel inside the `with` block is refused with
    ChannelBorrowedError and changes nothing -/
theorem machine_refuses (k : Nat) (sizes : List Nat) (p : PSt) (hown : p.own = (Own.step {} (.borrowEnter 0)).2) :
    (Run.step (.probe k) sizes p).1 = ⟨.err .borrowed, []⟩ ∧ (Run.step (.probe k) sizes p).2.own = p.own := by
  simp [Run.step, hown, probe_own k, ownTag]

/-- the invariant `own = lent` holds for every state the body can reach -/
theorem own_invariant {c : Run.Case} {p : PSt} {r : Ref} (h : Sim c p r) : p.own = (Own.step {} (.borrowEnter 0)).2 := h.own

/-- … and the ownership model used here is the one C07 verifies: for every sequence of such uses,
    followed by the end of the borrow and a use of the machine's channel, the history satisfies
    `Spec.C07`, and the last use succeeds (the machine has its channel back) -/
theorem ownership_c07 (ks : List Nat) :
    Spec.C07 (.borrowEnter 0 :: ks.map probeOp ++ [.borrowExit, .io 0])
      (Own.run {} (.borrowEnter 0 :: ks.map probeOp ++ [.borrowExit, .io 0])) = true :=
  C07.c07 _

theorem machine_restored :
    (Own.step (Own.step (Own.step {} (.borrowEnter 0)).2 .borrowExit).2 (.io 0)).1 = .ok := rfl

/-! ### (c), (e) after the command has ended / was terminated every proxy call raises -/

/-- the proxy calls that use the channel (an empty `send` does nothing at all) -/
def isChanOp : TOp → Bool
  | .send b _ => !b.isEmpty
  | .sendline _ _ | .sendcontrol _ | .expect _ _ | .rup _ _ | .rut _ => true
  | _ => false

/-- whatever the specification accepts for a channel call on a proxy that is not running any
    more is: CommandEndedException, nothing read, nothing changed -/
theorem raises_after_end (ps1 bl : Bytes) (op : TOp) (o : Run.OpObs) (r r' : Ref) (hph : r.phase ≠ .running)
    (hop : isChanOp op = true) (h : Ref.step ps1 bl op o r = .ok r') :
    o.res = .err .ended ∧ o.pieces = [] ∧ r' = r := by
  have hb := phase_bne hph
  have key : ∀ {x : V Ref}, (if (o.res == TRes.err Tag.ended && o.pieces.isEmpty) = true then V.ok r else V.bad) = x →
      x = .ok r' → o.res = .err .ended ∧ o.pieces = [] ∧ r' = r := by
    intro x hx hx'
    rw [← hx] at hx'
    split at hx'
    · rename_i hc
      simp only [Bool.and_eq_true, beq_iff_eq, List.isEmpty_iff] at hc
      simp only [V.ok.injEq] at hx'
      exact ⟨hc.1, hc.2, hx'.symm⟩
    · simp at hx'
  cases op with
  | send b rb =>
    simp only [isChanOp, Bool.not_eq_true'] at hop
    simp only [Ref.step, Ref.sendLike, hop, Bool.false_eq_true, if_false, hb, if_true] at h
    exact key rfl h
  | sendline b rb =>
    have : (b ++ [Tty.CR]).isEmpty = false := by simp
    simp only [Ref.step, Ref.sendLike, this, Bool.false_eq_true, if_false, hb, if_true] at h
    exact key rfl h
  | sendcontrol n =>
    simp only [Ref.step, hb, if_true] at h
    exact key rfl h
  | expect ps t =>
    simp only [Ref.step, hb, if_true] at h
    split at h
    · simp at h
    · exact key rfl h
  | rup q t =>
    simp only [Ref.step, hb, if_true] at h
    split at h
    · simp at h
    · exact key rfl h
  | rut t =>
    simp only [Ref.step, hb, if_true] at h
    split at h
    · simp at h
    · exact key rfl h
  | terminate => simp [isChanOp] at hop
  | terminate0 => simp [isChanOp] at hop
  | raise => simp [isChanOp] at hop
  | wait => simp [isChanOp] at hop
  | probe k => simp [isChanOp] at hop

/-- a second `terminate` is refused (AssertionError) -/
theorem terminate_twice (ps1 bl : Bytes) (o : Run.OpObs) (r r' : Ref) (hph : r.phase = .terminated)
    (h : Ref.step ps1 bl .terminate o r = .ok r') : o.res = .err .assertion ∧ o.pieces = [] := by
  simp only [Ref.step, Ref.term, hph] at h
  split at h
  · rename_i hc
    simp only [Bool.and_eq_true, beq_iff_eq, List.isEmpty_iff] at hc
    exact hc
  · simp at h

/-! ### (b), (c), (d) what `terminate` / `terminate0` return -/

/-- `terminate*()` accepted on a live proxy: judged with the real status and the rest of the
    output up to the prompt (nothing, if the end had already been noticed); afterwards the proxy
    is terminated and nothing is pending (the machine is in sync) -/
theorem term_rule (ps1 : Bytes) (o : Run.OpObs) (r r' : Ref) (want : Nat → List Char → TRes)
    (hph : r.phase ≠ .terminated) (h : Ref.term ps1 o r want = .ok r') :
    ∃ st, r.rem.status = some st ∧ st < 256 ∧ r'.phase = .terminated ∧ r'.pend = []
      ∧ (r.phase = .ended → o.res = want st [])
      ∧ (r.phase = .running → o.res = want st (text (r.pend.take (r.pend.length - ps1.length))) ∧ ps1 <:+ r.pend) := by
  unfold Ref.term at h
  cases hp : r.phase with
  | terminated => exact absurd hp hph
  | running =>
    rw [hp] at h
    cases hst : r.rem.status with
    | none => rw [hst] at h; simp at h
    | some st =>
      rw [hst] at h
      simp only at h
      by_cases h256 : 256 ≤ st
      · rw [if_pos h256] at h; simp at h
      rw [if_neg h256] at h
      have hb1 : ((Phase.running : Phase) == .ended) = false := by decide
      have hb2 : ((Phase.running : Phase) == .running) = true := by decide
      simp only [hb1, hb2, Bool.false_and, Bool.false_eq_true, if_false] at h
      by_cases hc : (o.pieces.sum == r.pend.length + (Shell.respStatus false ps1 st).length && List.isSuffixOf ps1 r.pend == true
          && o.res == want st (text (r.pend.take (r.pend.length - ps1.length)))) = true
      · rw [if_pos hc] at h
        simp only [Bool.and_eq_true, beq_iff_eq] at hc
        simp only [V.ok.injEq] at h
        subst h
        exact ⟨st, rfl, by omega, rfl, rfl, by intro hc'; simp at hc',
          fun _ => ⟨hc.2, List.isSuffixOf_iff_suffix.mp hc.1.2⟩⟩
      · rw [if_neg hc] at h; simp at h
  | ended =>
    rw [hp] at h
    cases hst : r.rem.status with
    | none => rw [hst] at h; simp at h
    | some st =>
      rw [hst] at h
      simp only at h
      by_cases h256 : 256 ≤ st
      · rw [if_pos h256] at h; simp at h
      rw [if_neg h256] at h
      have hb1 : ((Phase.ended : Phase) == .ended) = true := by decide
      have hb2 : ((Phase.ended : Phase) == .running) = false := by decide
      simp only [hb1, hb2, Bool.true_and, if_true] at h
      by_cases hpe : (!r.pend.isEmpty) = true
      · rw [if_pos hpe] at h; simp at h
      rw [if_neg hpe] at h
      by_cases hc : (o.pieces.sum == ([] : Bytes).length + (Shell.respStatus false ps1 st).length && List.isSuffixOf ps1 [] == false
          && o.res == want st (text (List.take (([] : Bytes).length - ps1.length) []))) = true
      · rw [if_pos hc] at h
        simp only [Bool.and_eq_true, beq_iff_eq] at hc
        simp only [V.ok.injEq] at h
        subst h
        refine ⟨st, rfl, by omega, rfl, rfl, fun _ => ?_, by intro hc'; simp at hc'⟩
        have := hc.2
        simpa [text, decodeReplace, decodeFuel, normNl, replace2] using this
      · rw [if_neg hc] at h; simp at h

/-- `terminate()` returns the real status -/
theorem terminate_rule (ps1 bl : Bytes) (o : Run.OpObs) (r r' : Ref) (hph : r.phase ≠ .terminated)
    (h : Ref.step ps1 bl .terminate o r = .ok r') :
    ∃ st, r.rem.status = some st ∧ r'.phase = .terminated ∧ r'.pend = []
      ∧ (r.phase = .ended → o.res = .term st [])
      ∧ (r.phase = .running → o.res = .term st (text (r.pend.take (r.pend.length - ps1.length))) ∧ ps1 <:+ r.pend) := by
  have h' : Ref.term ps1 o r (fun st out => .term st out) = .ok r' := h
  obtain ⟨st, h1, _, h3, h4, h5, h6⟩ := term_rule ps1 o r r' _ hph h'
  exact ⟨st, h1, h3, h4, h5, h6⟩

/-- `terminate0()` raises CommandFailure exactly if the status is not zero -/
theorem terminate0_rule (ps1 bl : Bytes) (o : Run.OpObs) (r r' : Ref) (hph : r.phase ≠ .terminated)
    (h : Ref.step ps1 bl .terminate0 o r = .ok r') :
    ∃ st, r.rem.status = some st ∧ r'.phase = .terminated ∧ (o.res = .err .failure ↔ st ≠ 0) := by
  have h' : Ref.term ps1 o r (fun st out => if st = 0 then .out out else .err .failure) = .ok r' := h
  obtain ⟨st, h1, _, h3, _, h5, h6⟩ := term_rule ps1 o r r' _ hph h'
  refine ⟨st, h1, h3, ?_⟩
  have hres : ∃ txt, o.res = (if st = 0 then TRes.out txt else TRes.err Tag.failure) := by
    cases hp : r.phase with
    | terminated => exact absurd hp hph
    | running => exact ⟨_, (h6 hp).1⟩
    | ended => exact ⟨_, h5 hp⟩
  obtain ⟨txt, ho⟩ := hres
  rw [ho]
  by_cases h0 : st = 0 <;> simp [h0]

/-! ### (b) a returned value is the text of exactly the bytes taken from the stream -/

/-- an accepted read-type call on the running proxy: it raises CommandEndedException exactly if
    its deliveries reach the end of the prompt printed after the command; otherwise the bytes it
    took are moved — all of them, in order — from "pending" to "consumed", and a returned value
    is judged on exactly these bytes -/
theorem reading_rule (ps1 : Bytes) (t : Option Nat) (o : Run.OpObs) (r r' : Ref) (val : TRes → Bytes → Bool)
    (h : Ref.reading ps1 t o r val = .ok r') :
    o.pieces.sum ≤ r.pend.length
    ∧ r'.since = r.since ++ r.pend.take o.pieces.sum ∧ r'.pend = r.pend.drop o.pieces.sum ∧ r'.rem = r.rem
    ∧ (o.res = .err .ended ↔ r.fin o.pieces.sum = true)
    ∧ ((∀ tg, o.res ≠ .err tg) → val o.res (r.pend.take o.pieces.sum) = true ∧ r.leaves ps1 o.pieces.sum = true)
    ∧ ((o.res = .err .timeout ∨ o.res = .err .hang) → o.pieces.sum = r.pend.length) := by
  unfold Ref.reading at h
  by_cases ht : (t == some 0) = true
  · rw [if_pos ht] at h; simp at h
  rw [if_neg ht] at h
  simp only at h
  by_cases hlt : r.pend.length < o.pieces.sum
  · rw [if_pos hlt] at h; simp at h
  rw [if_neg hlt] at h
  have hle : o.pieces.sum ≤ r.pend.length := by omega
  have hval : ∀ res : TRes, o.res = res → (res ≠ .err .ended ∧ res ≠ .err .timeout ∧ res ≠ .err .hang) →
      (if (r.fin o.pieces.sum || !val res (r.pend.take o.pieces.sum)) = true then V.bad
       else if r.leaves ps1 o.pieces.sum = true then V.ok (r.consume o.pieces.sum) else V.split) = V.ok r' →
      o.pieces.sum ≤ r.pend.length
      ∧ r'.since = r.since ++ r.pend.take o.pieces.sum ∧ r'.pend = r.pend.drop o.pieces.sum ∧ r'.rem = r.rem
      ∧ (o.res = .err .ended ↔ r.fin o.pieces.sum = true)
      ∧ ((∀ tg, o.res ≠ .err tg) → val o.res (r.pend.take o.pieces.sum) = true ∧ r.leaves ps1 o.pieces.sum = true)
      ∧ ((o.res = .err .timeout ∨ o.res = .err .hang) → o.pieces.sum = r.pend.length) := by
    intro res hres hne h'
    split at h'
    · simp at h'
    · rename_i hc
      simp only [Bool.or_eq_true, Bool.not_eq_true', not_or, Bool.not_eq_true, Bool.not_eq_false] at hc
      split at h'
      · rename_i hl
        simp only [V.ok.injEq] at h'
        subst h'
        refine ⟨hle, rfl, rfl, rfl, ?_, fun _ => by rw [hres]; exact ⟨hc.2, hl⟩, ?_⟩
        · rw [hres, hc.1]
          constructor
          · intro hh; exact absurd hh hne.1
          · intro hh; simp at hh
        · rw [hres]; intro hh; rcases hh with hh | hh
          · exact absurd hh hne.2.1
          · exact absurd hh hne.2.2
      · simp at h'
  cases hres : o.res with
  | err tg =>
    rw [hres] at h
    cases tg with
    | ended =>
      simp only at h
      split at h
      · rename_i hf
        simp only [V.ok.injEq] at h
        subst h
        exact ⟨hle, rfl, rfl, rfl, by simp [hf], by intro hn; exact absurd rfl (hn _), by intro hh; rcases hh with hh | hh <;> simp at hh⟩
      · simp at h
    | timeout =>
      simp only at h
      split at h
      · rename_i hc
        simp only [Bool.and_eq_true, beq_iff_eq, Bool.not_eq_true'] at hc
        simp only [V.ok.injEq] at h
        subst h
        exact ⟨hle, rfl, rfl, rfl, by simp [hc.2], by intro hn; exact absurd rfl (hn _), fun _ => hc.1.2⟩
      · simp at h
    | hang =>
      simp only at h
      split at h
      · rename_i hc
        simp only [Bool.and_eq_true, beq_iff_eq, Bool.not_eq_true'] at hc
        simp only [V.ok.injEq] at h
        subst h
        exact ⟨hle, rfl, rfl, rfl, by simp [hc.2], by intro hn; exact absurd rfl (hn _), fun _ => hc.1.2⟩
      · simp at h
    | illegal => simp only at h; have := hval _ hres (by simp) h; rw [hres] at this; exact this
    | assertion => simp only at h; have := hval _ hres (by simp) h; rw [hres] at this; exact this
    | failure => simp only at h; have := hval _ hres (by simp) h; rw [hres] at this; exact this
    | borrowed => simp only at h; have := hval _ hres (by simp) h; rw [hres] at this; exact this
    | invalidRetcode => simp only at h; have := hval _ hres (by simp) h; rw [hres] at this; exact this
    | other => simp only at h; have := hval _ hres (by simp) h; rw [hres] at this; exact this
  | unit => rw [hres] at h; simp only at h; have := hval _ hres (by simp) h; rw [hres] at this; exact this
  | text tx => rw [hres] at h; simp only at h; have := hval _ hres (by simp) h; rw [hres] at this; exact this
  | expect i b m a => rw [hres] at h; simp only at h; have := hval _ hres (by simp) h; rw [hres] at this; exact this
  | term rc out => rw [hres] at h; simp only at h; have := hval _ hres (by simp) h; rw [hres] at this; exact this
  | out out => rw [hres] at h; simp only at h; have := hval _ hres (by simp) h; rw [hres] at this; exact this

end C10
