import TbotVerif.Props.CtxLeak6
set_option linter.unusedSimpArgs false
set_option linter.unusedVariables false
/-! Third invariant: the event log and the user counters (`opens`), keep-alive off implies I4,
    log growth below the program level leaves `depth` / `opensP` alone. -/
namespace Ctx

/-- events that change neither the `with ctx` depth nor the number of open program requests -/
def Ev.neutral : Ev → Bool
  | .ctxEnter => false
  | .ctxLeave => false
  | .yielded false _ _ => false
  | .released false _ => false
  | _ => true

/-- the log grew by neutral events -/
def TGrow (t t' : List Ev) : Prop := ∃ evs : List Ev, t' = evs ++ t ∧ ∀ e ∈ evs, e.neutral = true

theorem TGrow.refl (t : List Ev) : TGrow t t := ⟨[], rfl, by simp⟩

theorem TGrow.trans {a b c : List Ev} (h1 : TGrow a b) (h2 : TGrow b c) : TGrow a c := by
  obtain ⟨e1, rfl, q1⟩ := h1
  obtain ⟨e2, rfl, q2⟩ := h2
  refine ⟨e2 ++ e1, by simp, ?_⟩
  intro e he
  rcases List.mem_append.mp he with h | h
  · exact q2 e h
  · exact q1 e h

theorem TGrow.cons {t t' : List Ev} (h : TGrow t t') {ev : Ev} (hn : ev.neutral = true) :
    TGrow t (ev :: t') := by
  obtain ⟨evs, rfl, q⟩ := h
  refine ⟨ev :: evs, rfl, ?_⟩
  intro e he
  rcases List.mem_cons.mp he with rfl | he
  · exact hn
  · exact q e he

theorem depth_neutral {ev : Ev} (h : ev.neutral = true) (t : List Ev) : depth (ev :: t) = depth t := by
  cases ev <;> simp_all [Ev.neutral, depth]

theorem opensP_neutral {ev : Ev} (h : ev.neutral = true) (t : List Ev) :
    opensP (ev :: t) = opensP t := by
  cases ev with
  | yielded d c o => cases d <;> simp_all [Ev.neutral, opensP]
  | released d c => cases d <;> simp_all [Ev.neutral, opensP]
  | _ => simp_all [Ev.neutral, opensP]

theorem TGrow.depth {t t' : List Ev} (h : TGrow t t') : depth t' = depth t := by
  obtain ⟨evs, rfl, q⟩ := h
  induction evs with
  | nil => rfl
  | cons e es ih =>
    rw [List.cons_append, depth_neutral (q e (by simp))]
    exact ih (fun e he => q e (by simp [he]))

theorem TGrow.opensP {t t' : List Ev} (h : TGrow t t') : opensP t' = opensP t := by
  obtain ⟨evs, rfl, q⟩ := h
  induction evs with
  | nil => rfl
  | cons e es ih =>
    rw [List.cons_append, opensP_neutral (q e (by simp))]
    exact ih (fun e he => q e (by simp [he]))

/-- events that do not touch the per-class request counters -/
def Ev.plain : Ev → Bool
  | .yielded _ _ _ => false
  | .released _ _ => false
  | _ => true

theorem opens_plain {ev : Ev} (h : ev.plain = true) (c : Nat) (t : List Ev) :
    opens c (ev :: t) = opens c t := by
  cases ev <;> simp_all [Ev.plain, opens]

theorem condRelease_plain {ev : Ev} (h : ev.plain = true) (t : List Ev) : condRelease t ev = true := by
  cases ev <;> simp_all [Ev.plain, condRelease]

@[simp] theorem opens_yielded (c d : Bool) (k c' o : Nat) (t : List Ev) :
    opens k (.yielded d c' o :: t) = if c' = k then opens k t + 1 else opens k t := rfl
@[simp] theorem opens_released (d : Bool) (k c' : Nat) (t : List Ev) :
    opens k (.released d c' :: t) = if c' = k then opens k t - 1 else opens k t := rfl

/-- the third invariant: frames held by generators are dependency requests; the log's count of
    open requests per class is `_current_users` (plus an offset `P` for the requests that are
    just being left) -/
structure Inv3 (P : Nat → Nat) (s : St) : Prop where
  heldDep : ∀ k, ∀ f ∈ (s.mgrs k).held, f.dep = true
  opens : ∀ k, opens k s.trace = (s.mgrs k).users + P k

/-- keep-alive is off and I4 has held so far -/
structure G4 (s : St) : Prop where
  ka : s.keepAlive = false
  good : always condRelease s.trace = true

/-- what a step does to the fields `Inv3`/`G4` read: the managers' `held`/`users`, the flag, and
    a log that grew by plain events -/
structure Same3 (s s' : St) : Prop where
  mgrs : s'.mgrs = s.mgrs
  keepAlive : s'.keepAlive = s.keepAlive
  trace : ∃ evs : List Ev, s'.trace = evs ++ s.trace ∧ ∀ e ∈ evs, e.plain = true ∧ e.neutral = true

theorem Same3.refl (s : St) : Same3 s s := ⟨rfl, rfl, [], by simp, by simp⟩

theorem Same3.trans {a b c : St} (h1 : Same3 a b) (h2 : Same3 b c) : Same3 a c := by
  obtain ⟨e1, t1, q1⟩ := h1.trace
  obtain ⟨e2, t2, q2⟩ := h2.trace
  refine ⟨h2.mgrs.trans h1.mgrs, h2.keepAlive.trans h1.keepAlive, e2 ++ e1, by rw [t2, t1]; simp, ?_⟩
  intro e he
  rcases List.mem_append.mp he with h | h
  · exact q2 e h
  · exact q1 e h

theorem Same3.tgrow {s s' : St} (h : Same3 s s') : TGrow s.trace s'.trace := by
  obtain ⟨evs, t, q⟩ := h.trace
  exact ⟨evs, t, fun e he => (q e he).2⟩

theorem opens_plain_append {evs : List Ev} (h : ∀ e ∈ evs, e.plain = true) (c : Nat) (t : List Ev) :
    opens c (evs ++ t) = opens c t := by
  induction evs with
  | nil => rfl
  | cons e es ih =>
    rw [List.cons_append, opens_plain (h e (by simp)), ih (fun e he => h e (by simp [he]))]

theorem always_release_plain_append {evs : List Ev} (h : ∀ e ∈ evs, e.plain = true) (t : List Ev) :
    always condRelease (evs ++ t) = always condRelease t := by
  induction evs with
  | nil => rfl
  | cons e es ih =>
    rw [List.cons_append, always_cons, condRelease_plain (h e (by simp)),
      ih (fun e he => h e (by simp [he]))]
    simp

theorem Inv3.same {P : Nat → Nat} {s s' : St} (h : Inv3 P s) (x : Same3 s s') : Inv3 P s' := by
  obtain ⟨evs, t, q⟩ := x.trace
  constructor
  · rw [x.mgrs]; exact h.heldDep
  · intro k
    rw [t, opens_plain_append (fun e he => (q e he).1), x.mgrs]
    exact h.opens k

theorem G4.same {s s' : St} (h : G4 s) (x : Same3 s s') : G4 s' := by
  obtain ⟨evs, t, q⟩ := x.trace
  constructor
  · rw [x.keepAlive]; exact h.ka
  · rw [t, always_release_plain_append (fun e he => (q e he).1)]; exact h.good

end Ctx
