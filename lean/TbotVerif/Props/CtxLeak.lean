import TbotVerif.Props.CtxExec
set_option linter.unusedSimpArgs false
set_option linter.unusedVariables false
/-! Second invariant of the context model: who keeps an instance alive.

    `Inv2 n D X Q s`
      * `dh`  every open frame is held by a `from_context` generator or is one of the pending
              frames `Q` (program frames on the stack, dependency frames in flight);
      * `nd`  while keep-alive is off, an alive class without users is one of the classes `D` that
              were already dangling before, or exempt (`X`: the class being worked on);
      * `ord` an alive class is in `_teardown_order` (or exempt);
      * `bnd` classes `≥ n` are never instantiated. -/
namespace Ctx

structure Inv2 (n : Nat) (D X : Nat → Prop) (Q : List Frame) (s : St) : Prop where
  dh : ∀ f ∈ s.open_, (∃ k, f ∈ (s.mgrs k).held) ∨ f ∈ Q
  nd : s.keepAlive = false → ∀ c, (s.mgrs c).inst ≠ none → (s.mgrs c).users = 0 → D c ∨ X c
  ord : ∀ c, (s.mgrs c).inst ≠ none → c ∈ s.order ∨ X c
  bnd : ∀ c, n ≤ c → (s.mgrs c).inst = none

/-- the fields `Inv2` reads are unchanged -/
structure Same2 (s s' : St) : Prop where
  open_ : s'.open_ = s.open_
  mgrs : s'.mgrs = s.mgrs
  keepAlive : s'.keepAlive = s.keepAlive
  order : s'.order = s.order

theorem Same2.refl (s : St) : Same2 s s := ⟨rfl, rfl, rfl, rfl⟩

theorem Same2.trans {a b c : St} (h1 : Same2 a b) (h2 : Same2 b c) : Same2 a c :=
  ⟨h2.open_.trans h1.open_, h2.mgrs.trans h1.mgrs, h2.keepAlive.trans h1.keepAlive,
   h2.order.trans h1.order⟩

theorem Inv2.same {n : Nat} {D X : Nat → Prop} {Q : List Frame} {s s' : St} (h : Inv2 n D X Q s)
    (x : Same2 s s') : Inv2 n D X Q s' := by
  constructor
  · rw [x.open_, x.mgrs]; exact h.dh
  · rw [x.keepAlive, x.mgrs]; exact h.nd
  · rw [x.order, x.mgrs]; exact h.ord
  · rw [x.mgrs]; exact h.bnd

/-- more pending frames, more exemptions -/
theorem Inv2.weaken {n : Nat} {D X X' : Nat → Prop} {Q Q' : List Frame} {s : St}
    (h : Inv2 n D X Q s) (hq : ∀ f ∈ Q, f ∈ Q') (hx : ∀ c, X c → X' c) : Inv2 n D X' Q' s := by
  constructor
  · intro f hf; exact (h.dh f hf).imp id (hq f)
  · intro hk c hi hu; exact (h.nd hk c hi hu).imp id (hx c)
  · intro c hi; exact (h.ord c hi).imp id (hx c)
  · exact h.bnd

/-- drop the exemption of class `c` once it is in order again -/
theorem Inv2.unexempt {n : Nat} {D X : Nat → Prop} {Q : List Frame} {s : St} {c : Nat}
    (h : Inv2 n D (fun x => X x ∨ x = c) Q s)
    (h1 : s.keepAlive = false → (s.mgrs c).inst ≠ none → (s.mgrs c).users = 0 → D c ∨ X c)
    (h2 : (s.mgrs c).inst ≠ none → c ∈ s.order ∨ X c) : Inv2 n D X Q s := by
  constructor
  · exact h.dh
  · intro hk x hi hu
    rcases h.nd hk x hi hu with hd | hx | rfl
    · exact Or.inl hd
    · exact Or.inr hx
    · exact h1 hk hi hu
  · intro x hi
    rcases h.ord x hi with ho | hx | rfl
    · exact Or.inl ho
    · exact Or.inr hx
    · exact h2 hi
  · exact h.bnd

/-! ### atomic steps -/

theorem Inv2.downed {n : Nat} {D X : Nat → Prop} {Q : List Frame} {s : St} (h : Inv2 n D X Q s)
    (c o : Nat) : Inv2 n D (fun x => X x ∨ x = c) ((s.mgrs c).held ++ Q) (s.downed c o) := by
  constructor <;> simp only [St.downed]
  · intro f hf
    rcases h.dh f hf with ⟨k, hk⟩ | hq
    · by_cases hkc : k = c
      · subst hkc; right; exact List.mem_append_left _ hk
      · left; exact ⟨k, by simp [hkc, hk]⟩
    · right; exact List.mem_append_right _ hq
  · intro hk x hi hu
    by_cases hxc : x = c
    · right; right; exact hxc
    · simp [hxc] at hi hu
      rcases h.nd hk x hi hu with hd | hx
      · exact Or.inl hd
      · exact Or.inr (Or.inl hx)
  · intro x hi
    by_cases hxc : x = c
    · right; right; exact hxc
    · simp [hxc] at hi
      exact (h.ord x hi).imp id Or.inl
  · intro x hx
    have := h.bnd x hx
    by_cases hxc : x = c
    · subst hxc; simpa using this
    · simpa [hxc] using this

theorem Inv2.cleared {n : Nat} {D X : Nat → Prop} {Q : List Frame} {s : St} {c : Nat}
    (h : Inv2 n D (fun x => X x ∨ x = c) Q s) : Inv2 n D X Q (s.cleared c) := by
  constructor <;> simp only [St.cleared]
  · intro f hf
    rcases h.dh f hf with ⟨k, hk⟩ | hq
    · left
      refine ⟨k, ?_⟩
      by_cases hkc : k = c
      · subst hkc; simpa using hk
      · simpa [hkc] using hk
    · exact Or.inr hq
  · intro hk x hi hu
    by_cases hxc : x = c
    · subst hxc; simp at hi
    · simp [hxc] at hi hu
      rcases h.nd hk x hi hu with hd | hx | rfl
      · exact Or.inl hd
      · exact Or.inr hx
      · exact absurd rfl hxc
  · intro x hi
    by_cases hxc : x = c
    · subst hxc; simp at hi
    · simp [hxc] at hi
      rcases h.ord x hi with ho | hx | rfl
      · exact Or.inl ho
      · exact Or.inr hx
      · exact absurd rfl hxc
  · intro x hx
    by_cases hxc : x = c
    · subst hxc; simp
    · simpa [hxc] using h.bnd x hx

theorem Inv2.frameOut {n : Nat} {D X : Nat → Prop} {Q : List Frame} {s : St} {f : Frame}
    (h : Inv2 n D X (f :: Q) s) (hid : ∀ g ∈ s.open_, g.id = f.id → g = f) :
    Inv2 n D (fun x => X x ∨ x = f.cls) Q (s.frameOut f) := by
  constructor <;> simp only [St.frameOut]
  · intro g hg
    obtain ⟨hgo, hgid⟩ := mem_dropId.mp hg
    rcases h.dh g hgo with ⟨k, hk⟩ | hq
    · left
      refine ⟨k, ?_⟩
      by_cases hkc : k = f.cls
      · subst hkc; simpa using hk
      · simpa [hkc] using hk
    · rcases List.mem_cons.mp hq with rfl | hq
      · exact absurd rfl hgid
      · exact Or.inr hq
  · intro hk x hi hu
    by_cases hxc : x = f.cls
    · right; right; exact hxc
    · simp [hxc] at hi hu
      rcases h.nd hk x hi hu with hd | hx
      · exact Or.inl hd
      · exact Or.inr (Or.inl hx)
  · intro x hi
    by_cases hxc : x = f.cls
    · right; right; exact hxc
    · simp [hxc] at hi
      exact (h.ord x hi).imp id Or.inl
  · intro x hx
    have := h.bnd x hx
    by_cases hxc : x = f.cls
    · subst hxc; simpa using this
    · simpa [hxc] using this

theorem Inv2.frameIn {n : Nat} {D X : Nat → Prop} {Q : List Frame} {s : St} (h : Inv2 n D X Q s)
    (fr : Frame) (av : Bool) :
    Inv2 n D (fun x => X x ∨ x = fr.cls) (fr :: Q) (s.frameIn fr av) := by
  constructor <;> simp only [St.frameIn]
  · intro g hg
    rcases List.mem_append.mp hg with hg | hg
    · rcases h.dh g hg with ⟨k, hk⟩ | hq
      · left
        refine ⟨k, ?_⟩
        by_cases hkc : k = fr.cls
        · subst hkc; simpa using hk
        · simpa [hkc] using hk
      · exact Or.inr (List.mem_cons_of_mem _ hq)
    · simp at hg; subst hg; exact Or.inr (by simp)
  · intro hk x hi hu
    by_cases hxc : x = fr.cls
    · right; right; exact hxc
    · simp [hxc] at hi hu
      rcases h.nd hk x hi hu with hd | hx
      · exact Or.inl hd
      · exact Or.inr (Or.inl hx)
  · intro x hi
    by_cases hxc : x = fr.cls
    · right; right; exact hxc
    · simp [hxc] at hi
      exact (h.ord x hi).imp id Or.inl
  · intro x hx
    have := h.bnd x hx
    by_cases hxc : x = fr.cls
    · subst hxc; simpa using this
    · simpa [hxc] using this

theorem Inv2.setAvail {n : Nat} {D X : Nat → Prop} {Q : List Frame} {s : St} (h : Inv2 n D X Q s)
    (c : Nat) (b : Bool) : Inv2 n D X Q (s.setAvail c b) := by
  constructor <;> simp only [St.setAvail]
  · intro f hf
    rcases h.dh f hf with ⟨k, hk⟩ | hq
    · left
      refine ⟨k, ?_⟩
      by_cases hkc : k = c
      · subst hkc; simpa using hk
      · simpa [hkc] using hk
    · exact Or.inr hq
  · intro hk x hi hu
    by_cases hxc : x = c
    · subst hxc; simp at hi hu; exact h.nd hk x hi hu
    · simp [hxc] at hi hu; exact h.nd hk x hi hu
  · intro x hi
    by_cases hxc : x = c
    · subst hxc; simp at hi; exact h.ord x hi
    · simp [hxc] at hi; exact h.ord x hi
  · intro x hx
    have := h.bnd x hx
    by_cases hxc : x = c
    · subst hxc; simpa using this
    · simpa [hxc] using this

/-- `from_context` succeeded: the pending dependency frames `L` are now held by class `c` -/
theorem Inv2.created {n : Nat} {D X : Nat → Prop} {Q L : List Frame} {s : St} {c : Nat}
    (h : Inv2 n D X (L ++ Q) s) (hc : c < n) (hh : (s.mgrs c).held = []) :
    Inv2 n D (fun x => X x ∨ x = c) Q (s.created c L) := by
  constructor <;> simp only [St.created]
  · intro f hf
    rcases h.dh f hf with ⟨k, hk⟩ | hq
    · by_cases hkc : k = c
      · subst hkc
        rw [hh] at hk
        simp at hk
      · left; exact ⟨k, by simp [hkc, hk]⟩
    · rcases List.mem_append.mp hq with hl | hq
      · left; exact ⟨c, by simp [hl]⟩
      · exact Or.inr hq
  · intro hk x hi hu
    by_cases hxc : x = c
    · right; right; exact hxc
    · simp [hxc] at hi hu
      rcases h.nd hk x hi hu with hd | hx
      · exact Or.inl hd
      · exact Or.inr (Or.inl hx)
  · intro x hi
    by_cases hxc : x = c
    · right; right; exact hxc
    · simp [hxc] at hi
      exact (h.ord x hi).imp id Or.inl
  · intro x hx
    have := h.bnd x hx
    by_cases hxc : x = c
    · subst hxc; omega
    · simpa [hxc] using this

end Ctx

namespace Ctx

/-- the scalar configuration of the context is unchanged -/
structure Sc (s s' : St) : Prop where
  keepAlive : s'.keepAlive = s.keepAlive
  roeDefault : s'.roeDefault = s.roeDefault
  openCtx : s'.openCtx = s.openCtx
  order : s'.order = s.order

theorem Sc.refl (s : St) : Sc s s := ⟨rfl, rfl, rfl, rfl⟩
theorem Sc.trans {a b c : St} (h1 : Sc a b) (h2 : Sc b c) : Sc a c :=
  ⟨h2.keepAlive.trans h1.keepAlive, h2.roeDefault.trans h1.roeDefault, h2.openCtx.trans h1.openCtx,
   h2.order.trans h1.order⟩

/-- what operations may do to the configuration: flags and nesting depth are unchanged, the
    teardown order only grows -/
structure Eff (s s' : St) : Prop where
  keepAlive : s'.keepAlive = s.keepAlive
  roeDefault : s'.roeDefault = s.roeDefault
  openCtx : s'.openCtx = s.openCtx
  order : ∀ c ∈ s.order, c ∈ s'.order

theorem Eff.refl (s : St) : Eff s s := ⟨rfl, rfl, rfl, fun _ h => h⟩
theorem Eff.trans {a b c : St} (h1 : Eff a b) (h2 : Eff b c) : Eff a c :=
  ⟨h2.keepAlive.trans h1.keepAlive, h2.roeDefault.trans h1.roeDefault, h2.openCtx.trans h1.openCtx,
   fun x hx => h2.order x (h1.order x hx)⟩
theorem Eff.of_sc {s s' : St} (h : Sc s s') : Eff s s' :=
  ⟨h.keepAlive, h.roeDefault, h.openCtx, fun x hx => by rw [h.order]; exact hx⟩

/-- no class comes alive -/
def Down (s s' : St) : Prop := ∀ k, (s'.mgrs k).inst ≠ none → (s.mgrs k).inst ≠ none

theorem Down.refl (s : St) : Down s s := fun _ h => h
theorem Down.trans {a b c : St} (h1 : Down a b) (h2 : Down b c) : Down a c :=
  fun k h => h1 k (h2 k h)
theorem Down.of_mgrs {s s' : St} (h : s'.mgrs = s.mgrs) : Down s s' := fun k hk => by rwa [h] at hk

section
variable (cfg : Cfg)

theorem machineDown_same (s : St) (o : Nat) :
    (machineDown cfg s o).1.open_ = s.open_ ∧ (machineDown cfg s o).1.mgrs = s.mgrs ∧
    Sc s (machineDown cfg s o).1 := by
  unfold machineDown
  by_cases hf : (s.nDown + 1) ∈ cfg.fd <;>
    simp [St.obj, St.setObj, St.log, St.newExc, hf] <;> exact ⟨rfl, rfl, rfl, rfl⟩

theorem machineUp_same (s : St) (o : Nat) :
    (machineUp cfg s o).1.open_ = s.open_ ∧ (machineUp cfg s o).1.mgrs = s.mgrs ∧
    Sc s (machineUp cfg s o).1 := by
  unfold machineUp
  by_cases hf : (s.nInit + 1) ∈ cfg.fi <;>
    simp [St.obj, St.setObj, St.log, St.newExc, hf] <;> exact ⟨rfl, rfl, rfl, rfl⟩

theorem objExit_same (s : St) (o : Nat) :
    (objExit cfg s o).1.open_ = s.open_ ∧ (objExit cfg s o).1.mgrs = s.mgrs ∧
    Sc s (objExit cfg s o).1 := by
  unfold objExit
  simp only
  split
  · have := machineDown_same cfg (s.setObj o { s.obj o with rc := (s.obj o).rc - 1 }) o
    exact ⟨this.1, this.2.1, ⟨this.2.2.keepAlive, this.2.2.roeDefault, this.2.2.openCtx, this.2.2.order⟩⟩
  · exact ⟨rfl, rfl, rfl, rfl, rfl, rfl⟩

theorem same2_newExc (s : St) (k : Kind) : Same2 s (s.newExc k).1 ∧ Sc s (s.newExc k).1 :=
  ⟨⟨rfl, rfl, rfl, rfl⟩, ⟨rfl, rfl, rfl, rfl⟩⟩

theorem same2_log (s : St) (ev : Ev) : Same2 s (s.log ev) ∧ Sc s (s.log ev) :=
  ⟨⟨rfl, rfl, rfl, rfl⟩, ⟨rfl, rfl, rfl, rfl⟩⟩

theorem same2_ctxError (s : St) : Same2 s s.ctxError.1 ∧ Sc s s.ctxError.1 := same2_newExc s .ctx

end

end Ctx
