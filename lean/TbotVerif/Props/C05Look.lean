import TbotVerif.Props.C05
import TbotVerif.Props.ChanExamples
/-! C05 — the full statement is FALSE for death strings with a look-around assertion, both of the
    implementation and of its model (known finding KF-C05-lookaround-death-string).
    `_check` scans a ring buffer of `2 * len(pattern)` bytes in steps of `len(pattern)`, and
    `len(pattern)` (`Re.maxWidth`, sre's `getwidth`) counts an assertion as width 0: the bytes a
    look-ahead decides on are not guaranteed to be in the buffer together with the match.
    The theorems below are concrete witnesses on the model of the unchanged code (`Chan.run`),
    judged by `Spec.C05`; the same cases are `corpus/C05/kf_lookaround_death.case` for the
    implementation.  The proved theorems of C05 (`C05.case_spec`, `check_complete`, …) carry the
    hypothesis `PatOk`, which requires `noEos` and thereby excludes `Re.la`. -/

namespace C05Look
open Chan

/-- `AB(?=xA)` -/
def laPat : Pat := .re (.seq (Re.ofBytes [65, 66]) (.la (Re.ofBytes [120, 65])))

/-- the stream `xABxAy` -/
def stream : Bytes := [120, 65, 66, 120, 65, 121]

def caseOf (pieces : List Bytes) : Case :=
  { chunk := 4096, slice := 512, script := pieces.map fun p => ⟨0, p⟩, accept := [],
    ops := [.deathEnter laPat 0, .rut (some 1)] }

/-- the death string occurs in the stream (and its width is 2: the look-ahead adds nothing) -/
theorem occurs : laPat.search stream = some (1, 3) ∧ laPat.len = 2 := by decide

/-- delivered in ONE piece, the occurrence is not noticed: the read returns all six bytes … -/
theorem one_piece_missed :
    (((Chan.run (caseOf [stream])).1.map (·.res)) == [.unit, .text "xABxAy".toList]) = true := by decide

/-- … and the Spec rejects that observation: **C05 does not hold** of this case -/
theorem one_piece_violates_spec : Spec.C05 (caseOf [stream]) (Chan.run (caseOf [stream])) = false := by decide

/-- delivered as `xABxA` | `y`, the SAME stream raises the exception in the first read -/
theorem split_noticed :
    (((Chan.run (caseOf [[120, 65, 66, 120, 65], [121]])).1.map (·.res)) == [.unit, .err (.death 0 [65, 66])]) = true := by
  decide

theorem split_satisfies_spec :
    Spec.C05 (caseOf [[120, 65, 66, 120, 65], [121]]) (Chan.run (caseOf [[120, 65, 66, 120, 65], [121]])) = true := by
  decide

/-- delivered as `xABx` | `Ay`, it is missed again: whether the death string is noticed depends on
    where the pieces end -/
theorem other_split_missed :
    Spec.C05 (caseOf [[120, 65, 66, 120], [65, 121]]) (Chan.run (caseOf [[120, 65, 66, 120], [65, 121]])) = false := by
  decide

/-- the pattern is outside the domain of the C05 theorems -/
theorem not_PatOk : ¬ C05.PatOk laPat := by
  intro h
  have := h.1
  simp [Re.noEos] at this

end C05Look
