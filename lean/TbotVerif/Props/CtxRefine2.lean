import TbotVerif.Props.CtxRefine
set_option linter.unusedSimpArgs false
set_option linter.unusedVariables false
/-! Lock-step simulation, recursive operations: on every dependency level the implementation
    model and the reference model go through related states and raise the same exceptions. -/
namespace Ctx
open Ref (RSt RR Handle RMgr)

/-- results of entering a request correspond -/
def ResRel : Frame ⊕ Exc → Handle ⊕ Exc → Prop
  | .inl f, .inl h => h = eraseF f
  | .inr e, .inr e' => e = e'
  | _, _ => False

def TdSim (td : Nat → St → R) (tdR : Nat → RSt → RR) : Prop :=
  ∀ B c s r, Inv B s → Rel s r → (∀ b ∈ B, c < b) → RelR (td c s) (tdR c r)

def RxSim (rx : Frame → St → Option Exc → R) (rxR : Handle → RSt → Option Exc → RR) : Prop :=
  ∀ B f s r e, Inv B s → Rel s r → (∀ b ∈ B, f.cls < b) → f ∈ s.open_ →
    (∀ k, f ∉ (s.mgrs k).held) → RelR (rx f s e) (rxR (eraseF f) r e)

def ReSim (re : Bool → Nat → Bool → Bool → Option Bool → St → St × (Frame ⊕ Exc))
    (reR : Bool → Nat → Bool → Bool → Option Bool → RSt → RSt × (Handle ⊕ Exc)) : Prop :=
  ∀ B dep c reset excl roe s r, Inv B s → Rel s r → (∀ b ∈ B, c < b) →
    Rel (re dep c reset excl roe s).1 (reR dep c reset excl roe r).1 ∧
    ResRel (re dep c reset excl roe s).2 (reR dep c reset excl roe r).2

def DepSim (re : Nat → Bool → St → St × (Frame ⊕ Exc))
    (reR : Nat → Bool → RSt → RSt × (Handle ⊕ Exc)) : Prop :=
  ∀ B d x s r, Inv B s → Rel s r → (∀ b ∈ B, d < b) →
    Rel (re d x s).1 (reR d x r).1 ∧ ResRel (re d x s).2 (reR d x r).2

def IniSim (ini : Nat → St → R) (iniR : Nat → RSt → RR) : Prop :=
  ∀ B c s r, Inv B s → Rel s r → (∀ b ∈ B, c < b) → RelR (ini c s) (iniR c r)

theorem exitFrames_sim {rx : Frame → St → Option Exc → R} {rxR : Handle → RSt → Option Exc → RR}
    (hS : RxSpec rx) (hrx : RxSim rx rxR) :
    ∀ (L : List Frame) (B : List Nat) (s : St) (r : RSt) (e : Option Exc), Inv B s → Rel s r →
      Pend L s → (∀ f ∈ L, ∀ b ∈ B, f.cls < b) →
      RelR (exitFramesWith rx L s e) (Ref.releaseAllWith rxR (L.map eraseF) r e) := by
  intro L
  induction L with
  | nil =>
    intro B s r e _ hr _ _
    exact ⟨hr, rfl⟩
  | cons f fs ih =>
    intro B s r e h hr hp hb
    simp only [List.map_cons]
    unfold exitFramesWith Ref.releaseAllWith
    have hf := hp.isOpen f (by simp)
    have hh := hp.notHeld f (by simp)
    have h1 := hS B f s e h (hb f (by simp)) hf hh
    have r1 := hrx B f s r e h hr (hb f (by simp)) hf hh
    have hnd := List.nodup_cons.mp hp.nodup
    have hp' : Pend fs (rx f s e).1 :=
      hp.tail.tr h1.2.tr h.idLt (fun g hg hx => by
        simp at hx
        subst hx
        exact hnd.1 hg)
    have := ih B (rx f s e).1 (rxR (eraseF f) r e).1 (rx f s e).2 h1.1 r1.1 hp'
      (fun g hg => hb g (List.mem_cons_of_mem _ hg))
    have e2 : (rxR (eraseF f) r e).2 = (rx f s e).2 := r1.2.symm
    show RelR (exitFramesWith rx fs (rx f s e).1 (rx f s e).2)
      (Ref.releaseAllWith rxR (fs.map eraseF) (rxR (eraseF f) r e).1 (rxR (eraseF f) r e).2)
    rw [e2]
    exact this

section
variable (cfg : Cfg)

theorem teardownF_sim {rx : Frame → St → Option Exc → R} {rxR : Handle → RSt → Option Exc → RR}
    (hS : RxSpec rx) (hrx : RxSim rx rxR) : TdSim (teardownF cfg rx) (Ref.teardownF cfg rxR) := by
  intro B c s r h hr hb
  have hcB : c ∉ B := fun hm => Nat.lt_irrefl _ (hb c hm)
  unfold teardownF Ref.teardownF
  have hinst : (r.mgr c).inst = (s.mgr c).inst := hr.inst c
  rw [hinst]
  cases hi : (s.mgr c).inst with
  | none => exact hr.ctxError
  | some o =>
    simp only
    have hi' : (s.mgrs c).inst = some o := hi
    obtain ⟨ho, hcls⟩ := h.instWf c o hi'
    have hx := tdStart_ext cfg (s := s) (c := c) (o := o) hcls
    have hsim := hr.tdStart cfg (c := c) (o := o) hcls
    have hd : Inv (c :: B) (s.downed c o) := h.downed hi' hcB
    generalize objExit cfg (((s.setObj o { s.obj o with rc := 1 })).setMgr c
        { (s.setObj o { s.obj o with rc := 1 }).mgr c with held := [] }) o = r1 at hx hsim ⊢
    generalize Ref.bringDown cfg (r.setMgr c { r.mgr c with built := [] }) c o = q1 at hsim ⊢
    have h1 : Inv (c :: B) r1.1 := hd.ext hx
    have hheld : ((s.setObj o { s.obj o with rc := 1 }).mgr c).held = (s.mgrs c).held := rfl
    have hbuilt : (r.mgr c).built.reverse = ((s.mgrs c).held.reverse).map eraseF := by
      show (r.mgrs c).built.reverse = _
      rw [hr.built c, List.map_reverse]
    rw [hheld, hbuilt]
    have hp : Pend (s.mgrs c).held.reverse r1.1 := by
      refine Pend.reverse ⟨h.heldNodup c, ?_, ?_⟩
      · intro f hf
        rw [hx.open_]
        exact (h.heldOpen c f hf).1
      · intro f hf k hk
        rw [hx.mgrs] at hk
        simp only [St.downed] at hk
        by_cases hkc : k = c
        · subst hkc; simp at hk
        · simp [hkc] at hk
          exact hkc (h.heldDisj k c f hk hf)
    have hlt : ∀ f ∈ (s.mgrs c).held.reverse, ∀ b ∈ c :: B, f.cls < b := by
      intro f hf b hbm
      have hfc := (h.heldOpen c f (List.mem_reverse.mp hf)).2
      rcases List.mem_cons.mp hbm with rfl | hbm
      · exact hfc
      · exact Nat.lt_trans hfc (hb b hbm)
    have h2 := exitFrames_sim hS hrx (s.mgrs c).held.reverse (c :: B) r1.1 q1.1 r1.2 h1 hsim.1 hp hlt
    have e2 : q1.2 = r1.2 := hsim.2.symm
    rw [e2]
    generalize exitFramesWith rx (s.mgrs c).held.reverse r1.1 r1.2 = r2 at h2 ⊢
    generalize Ref.releaseAllWith rxR (List.map eraseF (s.mgrs c).held.reverse) q1.1 r1.2 = q2 at h2 ⊢
    exact ⟨h2.1.cleared c, h2.2⟩

theorem roeStep_sim {td : Nat → St → R} {tdR : Nat → RSt → RR} (htd : TdSim td tdR)
    {B : List Nat} {f : Frame} {s : St} {r : RSt} (e : Option Exc) (h : Inv B s) (hr : Rel s r)
    (hb : ∀ b ∈ B, f.cls < b) : RelR (roeStep td f s e) (Ref.roeStep tdR (eraseF f) r e) := by
  unfold roeStep Ref.roeStep
  cases e with
  | none => exact ⟨hr, rfl⟩
  | some ex =>
    simp only [eraseF, hr.alive]
    split
    · have := htd B f.cls s r h hr hb
      exact ⟨this.1, by simp [this.2]⟩
    · exact ⟨hr, rfl⟩

theorem finallyStep_sim {td : Nat → St → R} {tdR : Nat → RSt → RR} (htd : TdSim td tdR)
    {B : List Nat} {c : Nat} {s : St} {r : RSt} (excl : Bool) (e : Option Exc) (h : Inv B s)
    (hr : Rel s r) (hb : ∀ b ∈ B, c < b) :
    RelR (finallyStep td c excl s e) (Ref.lastStep tdR c excl r e) := by
  unfold finallyStep Ref.lastStep
  have hu : (r.mgr c).holders = (s.mgr c).users := hr.holders c
  simp only [hr.alive, hr.keepAlive, hu]
  split
  · split
    · have := htd B c s r h hr hb
      exact ⟨this.1, by simp [this.2]⟩
    · exact ⟨hr, rfl⟩
  · exact ⟨hr, rfl⟩

theorem reqExitF_sim {td : Nat → St → R} {tdR : Nat → RSt → RR} (hS : TdSpec td)
    (htd : TdSim td tdR) : RxSim (reqExitF cfg td) (Ref.releaseF tdR) := by
  intro B f s r e h hr hb hf hh
  have hcB : f.cls ∉ B := fun hm => Nat.lt_irrefl _ (hb _ hm)
  unfold reqExitF Ref.releaseF
  simp only
  have h0 := roeStep_spec hS e h hb
  have s0 := roeStep_sim htd e h hr hb
  generalize roeStep td f s e = r0 at h0 s0 ⊢
  generalize Ref.roeStep tdR (eraseF f) r e = q0 at s0 ⊢
  have hp0 : Pend [f] r0.1 := (Pend.single hf hh).tr h0.2.tr h.idLt (by simp)
  have hf0 := hp0.isOpen f (by simp)
  have hh0 := hp0.notHeld f (by simp)
  have hrc := h0.1.frame_rc hf0 hcB
  rw [objExit_ne cfg hrc]
  have hfo := h0.1.frameOut hf0 hh0 hcB
  have sfo := s0.1.frameOut f
  have h2 := finallyStep_sim htd f.excl (later r0.2 none) hfo sfo hb
  change RelR ((finallyStep td f.cls f.excl (r0.1.frameOut f) (later r0.2 none)).1.log _,
      (finallyStep td f.cls f.excl (r0.1.frameOut f) (later r0.2 none)).2) _
  have hl : later r0.2 none = q0.2 := by rw [← s0.2]; cases r0.2 <;> rfl
  rw [hl] at h2 ⊢
  generalize finallyStep td f.cls f.excl (r0.1.frameOut f) q0.2 = r2 at h2 ⊢
  have : (eraseF f).cls = f.cls := rfl
  simp only [eraseF] at h2 ⊢
  exact ⟨h2.1.log _, h2.2⟩

theorem enterDeps_sim {re : Nat → Bool → St → St × (Frame ⊕ Exc)}
    {reR : Nat → Bool → RSt → RSt × (Handle ⊕ Exc)} (hS : DepSpec re) (hre : DepSim re reR)
    (c n0 : Nat) :
    ∀ (ds : List (Nat × Bool)) (B : List Nat) (s : St) (r : RSt) (L : List Frame), Inv B s → Rel s r →
      (∀ d ∈ ds, d.1 < c) → (∀ d ∈ ds, ∀ b ∈ B, d.1 < b) → n0 ≤ s.nFrame → DepsOk c n0 L s →
      Rel (enterDepsWith re ds s L).1 (Ref.acquireAllWith reR ds r (L.map eraseF)).1 ∧
      (Ref.acquireAllWith reR ds r (L.map eraseF)).2.1 = (enterDepsWith re ds s L).2.1.map eraseF ∧
      (Ref.acquireAllWith reR ds r (L.map eraseF)).2.2 = (enterDepsWith re ds s L).2.2 := by
  intro ds
  induction ds with
  | nil =>
    intro B s r L _ hr _ _ _ _
    exact ⟨hr, rfl, rfl⟩
  | cons d ds ih =>
    intro B s r L h hr hc hb hn hd
    unfold enterDepsWith Ref.acquireAllWith
    have h1 := hS B d.1 d.2 s h (hb d (by simp))
    have s1 := hre B d.1 d.2 s r h hr (hb d (by simp))
    generalize re d.1 d.2 s = a at h1 s1 ⊢
    generalize reR d.1 d.2 r = q at s1 ⊢
    obtain ⟨sa, resa⟩ := a
    obtain ⟨sq, resq⟩ := q
    cases resa with
    | inr e =>
      cases resq with
      | inl _ => exact absurd s1.2 (by simp [ResRel])
      | inr e' =>
        have : e = e' := s1.2
        subst this
        exact ⟨s1.1, rfl, rfl⟩
    | inl f =>
      cases resq with
      | inr _ => exact absurd s1.2 (by simp [ResRel])
      | inl hq =>
        have : hq = eraseF f := s1.2
        subst this
        simp only
        obtain ⟨hfo, hfh, hfc, hfid⟩ := h1.2.2 f rfl
        simp only at hfo hfh hfid h1 s1
        have hp1 : Pend L sa := hd.pend.tr h1.2.1.tr h.idLt (by simp)
        have hnotin : f ∉ L := by
          intro hm
          have := h.idLt f (hd.pend.isOpen f hm)
          omega
        have hd1 : DepsOk c n0 (L ++ [f]) sa := by
          refine ⟨⟨?_, ?_, ?_⟩, ?_, ?_⟩
          · rw [List.nodup_append]
            refine ⟨hp1.nodup, by simp, ?_⟩
            intro a ha b hb
            simp at hb
            subst hb
            intro hab
            exact hnotin (hab ▸ ha)
          · intro g hg
            rcases List.mem_append.mp hg with hg | hg
            · exact hp1.isOpen g hg
            · simp at hg; subst hg; exact hfo
          · intro g hg
            rcases List.mem_append.mp hg with hg | hg
            · exact hp1.notHeld g hg
            · simp at hg; subst hg; exact hfh
          · intro g hg
            rcases List.mem_append.mp hg with hg | hg
            · exact hd.small g hg
            · simp at hg; subst hg; rw [hfc]; exact hc d (by simp)
          · intro g hg
            rcases List.mem_append.mp hg with hg | hg
            · exact hd.fresh g hg
            · simp at hg; subst hg; omega
        have := ih B sa sq (L ++ [f]) h1.1 s1.1 (fun d' hd' => hc d' (List.mem_cons_of_mem _ hd'))
          (fun d' hd' => hb d' (List.mem_cons_of_mem _ hd')) (Nat.le_trans hn h1.2.1.tr.nFrame_le) hd1
        simpa [List.map_append] using this

end

end Ctx
