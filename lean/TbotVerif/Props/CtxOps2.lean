import TbotVerif.Props.CtxOps
set_option linter.unusedSimpArgs false
set_option linter.unusedVariables false
/-! Specifications of leaving / entering a request and of `init`; all dependency levels. -/
namespace Ctx

section
variable (cfg : Cfg)

theorem roeStep_spec {td : Nat → St → R} (htd : TdSpec td) {B : List Nat} {f : Frame} {s : St}
    (e : Option Exc) (h : Inv B s) (hb : ∀ b ∈ B, f.cls < b) :
    Inv B (roeStep td f s e).1 ∧ Step B [] s (roeStep td f s e).1 := by
  unfold roeStep
  cases e with
  | none => exact ⟨h, Step.refl B s⟩
  | some ex =>
    simp only
    split
    · exact htd B f.cls s h hb
    · exact ⟨h, Step.refl B s⟩

theorem finallyStep_spec {td : Nat → St → R} (htd : TdSpec td) {B : List Nat} {c : Nat} {s : St}
    (excl : Bool) (e : Option Exc) (h : Inv B s) (hb : ∀ b ∈ B, c < b) :
    Inv B (finallyStep td c excl s e).1 ∧ Step B [] s (finallyStep td c excl s e).1 := by
  unfold finallyStep
  split
  · split
    · exact htd B c s h hb
    · exact ⟨h, Step.refl B s⟩
  · exact ⟨h, Step.refl B s⟩

theorem Pend.single {f : Frame} {s : St} (hf : f ∈ s.open_) (hh : ∀ k, f ∉ (s.mgrs k).held) :
    Pend [f] s :=
  ⟨by simp, by simpa using hf, by simpa using hh⟩

theorem reqExitF_spec {td : Nat → St → R} (htd : TdSpec td) : RxSpec (reqExitF cfg td) := by
  intro B f s e h hb hf hh
  have hcB : f.cls ∉ B := fun hm => Nat.lt_irrefl _ (hb _ hm)
  unfold reqExitF
  simp only
  have h0 := roeStep_spec htd e h hb
  generalize roeStep td f s e = r0 at h0 ⊢
  have hp0 : Pend [f] r0.1 := (Pend.single hf hh).tr h0.2.tr h.idLt (by simp)
  have hf0 := hp0.isOpen f (by simp)
  have hh0 := hp0.notHeld f (by simp)
  have hrc := h0.1.frame_rc hf0 hcB
  rw [objExit_ne cfg hrc]
  have hfo := h0.1.frameOut hf0 hh0 hcB
  have tfo : Step B [f] r0.1 (r0.1.frameOut f) :=
    Step.of_tr (Tr.frameOut h0.1 hf0) f.cls hcB (fun k hk => by simp [St.frameOut, hk])
  have h2 := finallyStep_spec htd f.excl (later r0.2 none) hfo hb
  change Inv B ((finallyStep td f.cls f.excl (r0.1.frameOut f) (later r0.2 none)).1.log _) ∧
    Step B [f] s ((finallyStep td f.cls f.excl (r0.1.frameOut f) (later r0.2 none)).1.log _)
  generalize finallyStep td f.cls f.excl (r0.1.frameOut f) (later r0.2 none) = r2 at h2 ⊢
  have hx : Ext r2.1 (r2.1.log (.released f.dep f.cls)) := ext_log (by simp [Ev.quiet])
  refine ⟨h2.1.ext hx, ?_⟩
  have t1 : Step B [f] s (r0.1.frameOut f) := h0.2.nil_trans tfo h.idLt
  have t2 : Step B [f] s r2.1 := t1.trans_nil h2.2 h.idLt
  exact t2.trans_nil (Step.of_ext B hx) h.idLt

/-- the dependency requests a `from_context` has entered: pending frames on smaller classes,
    created after `s0` -/
structure DepsOk (c : Nat) (n0 : Nat) (L : List Frame) (s : St) : Prop where
  pend : Pend L s
  small : ∀ f ∈ L, f.cls < c
  fresh : ∀ f ∈ L, n0 ≤ f.id

theorem enterDeps_spec {re : Nat → Bool → St → St × (Frame ⊕ Exc)} (hre : DepSpec re) (c n0 : Nat) :
    ∀ (ds : List (Nat × Bool)) (B : List Nat) (s : St) (L : List Frame), Inv B s →
      (∀ d ∈ ds, d.1 < c) → (∀ d ∈ ds, ∀ b ∈ B, d.1 < b) → n0 ≤ s.nFrame → DepsOk c n0 L s →
      Inv B (enterDepsWith re ds s L).1 ∧ Step B [] s (enterDepsWith re ds s L).1 ∧
      DepsOk c n0 (enterDepsWith re ds s L).2.1 (enterDepsWith re ds s L).1 := by
  intro ds
  induction ds with
  | nil =>
    intro B s L h _ _ _ hd
    exact ⟨h, Step.refl B s, hd⟩
  | cons d ds ih =>
    intro B s L h hc hb hn hd
    unfold enterDepsWith
    have h1 := hre B d.1 d.2 s h (hb d (by simp))
    generalize re d.1 d.2 s = r at h1 ⊢
    obtain ⟨s1, res⟩ := r
    cases res with
    | inr e =>
      simp only
      exact ⟨h1.1, h1.2.1, ⟨hd.pend.tr h1.2.1.tr h.idLt (by simp), hd.small, hd.fresh⟩⟩
    | inl f =>
      simp only
      obtain ⟨hfo, hfh, hfc, hfid⟩ := h1.2.2 f rfl
      simp only at hfo hfh hfid h1
      have hp1 : Pend L s1 := hd.pend.tr h1.2.1.tr h.idLt (by simp)
      have hnotin : f ∉ L := by
        intro hm
        have := h.idLt f (hd.pend.isOpen f hm)
        omega
      have hd1 : DepsOk c n0 (L ++ [f]) s1 := by
        refine ⟨⟨?_, ?_, ?_⟩, ?_, ?_⟩
        · rw [List.nodup_append]
          refine ⟨hp1.nodup, by simp, ?_⟩
          intro a ha b hb
          simp at hb
          subst hb
          intro hab
          exact hnotin (hab ▸ ha)
        · intro g hg
          rcases List.mem_append.mp hg with hg | hg
          · exact hp1.isOpen g hg
          · simp at hg; subst hg; exact hfo
        · intro g hg
          rcases List.mem_append.mp hg with hg | hg
          · exact hp1.notHeld g hg
          · simp at hg; subst hg; exact hfh
        · intro g hg
          rcases List.mem_append.mp hg with hg | hg
          · exact hd.small g hg
          · simp at hg; subst hg; rw [hfc]; exact hc d (by simp)
        · intro g hg
          rcases List.mem_append.mp hg with hg | hg
          · exact hd.fresh g hg
          · simp at hg; subst hg; omega
      have h2 := ih B s1 (L ++ [f]) h1.1 (fun d' hd' => hc d' (List.mem_cons_of_mem _ hd'))
        (fun d' hd' => hb d' (List.mem_cons_of_mem _ hd')) (Nat.le_trans hn h1.2.1.tr.nFrame_le) hd1
      exact ⟨h2.1, h1.2.1.trans_nil h2.2.1 h.idLt, h2.2.2⟩

/-- dependency requests only go to smaller classes -/
def Cfg.depsBelow (cfg : Cfg) : Prop := ∀ c, ∀ d ∈ cfg.depsOf c, d.1 < c

theorem initClsF_spec {re : Nat → Bool → St → St × (Frame ⊕ Exc)}
    {rx : Frame → St → Option Exc → R} (hwf : cfg.depsBelow) (hre : DepSpec re) (hrx : RxSpec rx) :
    IniSpec (initClsF cfg re rx) := by
  intro B c s h hb
  have hcB : c ∉ B := fun hm => Nat.lt_irrefl _ (hb _ hm)
  unfold initClsF
  split
  · exact ⟨h.ext (ext_ctxError s), Step.of_ext B (ext_ctxError s)⟩
  · rename_i hal
    have hi : (s.mgrs c).inst = none := by
      simpa [St.alive, St.mgr] using hal
    simp only
    have hsa : s.setMgr c { s.mgr c with avail := true } = s.setAvail c true := rfl
    rw [hsa]
    have ha : Inv (c :: B) (s.setAvail c true) :=
      (h.setAvail c true).busy (by simp [St.setAvail, hi])
    have ta : Step B [] s (s.setAvail c true) :=
      Step.of_tr (Tr.setAvail s c true) c hcB (fun k hk => by simp [St.setAvail, hk])
    have hlt : ∀ d ∈ cfg.depsOf c, ∀ b ∈ c :: B, d.1 < b := by
      intro d hd b hbm
      rcases List.mem_cons.mp hbm with rfl | hbm
      · exact hwf _ d hd
      · exact Nat.lt_trans (hwf c d hd) (hb b hbm)
    have hE := enterDeps_spec hre c s.nFrame (cfg.depsOf c) (c :: B) (s.setAvail c true) [] ha
      (hwf c) hlt (Nat.le_refl _) ⟨Pend.nil _, by simp, by simp⟩
    generalize enterDepsWith re (cfg.depsOf c) (s.setAvail c true) [] = r at hE ⊢
    obtain ⟨s1, L, eo⟩ := r
    simp only at hE ⊢
    obtain ⟨hI1, hS1, hD1⟩ := hE
    have hinst1 : (s1.mgrs c).inst = none := by
      rw [hS1.keep c (by simp)]; simp [St.setAvail, hi]
    have hltL : ∀ f ∈ L.reverse, ∀ b ∈ c :: B, f.cls < b := by
      intro f hf b hbm
      have hfc := hD1.small f (List.mem_reverse.mp hf)
      rcases List.mem_cons.mp hbm with rfl | hbm
      · exact hfc
      · exact Nat.lt_trans hfc (hb b hbm)
    cases eo with
    | some ex =>
      simp only
      have h2 := exitFrames_spec hrx L.reverse (c :: B) s1 (some ex) hI1 hD1.pend.reverse hltL
      generalize exitFramesWith rx L.reverse s1 (some ex) = r2 at h2 ⊢
      have hinst2 : (r2.1.mgrs c).inst = none := by
        rw [h2.2.keep c (by simp)]; exact hinst1
      refine ⟨h2.1.unbusy hinst2, ?_⟩
      have t : Step B L.reverse s r2.1 :=
        (ta.trans_nil hS1.weaken h.idLt).nil_trans h2.2.weaken h.idLt
      refine ⟨⟨t.tr.nFrame_le, ?_, t.tr.newHeld, t.tr.nObj_le⟩, t.keep⟩
      intro f hf hn
      rcases t.tr.gone f hf hn with hm | hk
      · -- the frames of `L` did not exist in `s`
        have := hD1.fresh f (List.mem_reverse.mp hm)
        have := h.idLt f hf
        omega
      · exact Or.inr hk
    | none =>
      simp only
      -- the new machine object
      have hmu := machineUp_new cfg (s := s1) (c := c)
      simp only at hmu
      generalize machineUp cfg (({ s1 with nObj := s1.nObj + 1 } : St).setObj s1.nObj
        { cls := c, rc := 0, up := false }) s1.nObj = r1 at hmu ⊢
      cases hr1 : r1.2 with
      | some ex =>
        simp only
        have hx := hmu.2 ex hr1
        have hI2 : Inv (c :: B) r1.1 := (hI1.failedInit ex).ext hx
        have hp2 : Pend L.reverse r1.1 := by
          refine Pend.reverse ⟨hD1.pend.nodup, ?_, ?_⟩
          · intro f hf; rw [hx.open_]; exact hD1.pend.isOpen f hf
          · intro f hf k; rw [hx.mgrs]; exact hD1.pend.notHeld f hf k
        have tf : Step (c :: B) [] s1 r1.1 := by
          refine ⟨⟨by rw [hx.nFrame]; exact Nat.le_refl _, ?_, ?_, ?_⟩, ?_⟩
          · intro f hf hn; rw [hx.open_] at hn; exact absurd hf hn
          · intro k f hf; rw [hx.mgrs] at hf; exact Or.inl hf
          · rw [hx.nObj]; simp [St.failedInit]
          · intro b _; rw [hx.mgrs]; rfl
        have h2 := exitFrames_spec hrx L.reverse (c :: B) r1.1 (some ex) hI2 hp2 hltL
        generalize exitFramesWith rx L.reverse r1.1 (some ex) = r2 at h2 ⊢
        have hinst2 : (r2.1.mgrs c).inst = none := by
          rw [h2.2.keep c (by simp), tf.keep c (by simp)]; exact hinst1
        refine ⟨h2.1.unbusy hinst2, ?_⟩
        have t : Step B L.reverse s r2.1 :=
          ((ta.trans_nil hS1.weaken h.idLt).trans_nil tf.weaken h.idLt).nil_trans h2.2.weaken h.idLt
        refine ⟨⟨t.tr.nFrame_le, ?_, t.tr.newHeld, t.tr.nObj_le⟩, t.keep⟩
        intro f hf hn
        rcases t.tr.gone f hf hn with hm | hk
        · have := hD1.fresh f (List.mem_reverse.mp hm)
          have := h.idLt f hf
          omega
        · exact Or.inr hk
      | none =>
        simp only
        have hx := hmu.1 hr1
        -- the final state is `s1.created c L` up to `Ext`
        have hc' : Inv B (s1.created c L) := hI1.created hinst1 hcB hD1.pend hD1.small
        have hxf : Ext (s1.created c L)
            (r1.1.setMgr c { r1.1.mgr c with inst := some s1.nObj, held := L }) := by
          obtain ⟨evs, hq, ht⟩ := hx.trace
          refine ⟨?_, ?_, ?_, ?_, ?_, evs, hq, ?_⟩
          · simp only [St.setMgr, St.created]; rw [hx.objs]
          · simp only [St.setMgr, St.created]; rw [hx.nObj]
          · simp only [St.setMgr, St.created, St.mgr]; rw [hx.mgrs]
          · simp only [St.setMgr, St.created]; rw [hx.nFrame]
          · simp only [St.setMgr, St.created]; rw [hx.open_]
          · simp only [St.setMgr, St.created]; rw [ht]
        refine ⟨hc'.ext hxf, ?_⟩
        have t01 : Step B [] s s1 := ta.trans_nil hS1.weaken h.idLt
        refine ⟨⟨?_, ?_, ?_, ?_⟩, ?_⟩
        · rw [hxf.nFrame]; simpa [St.created] using t01.tr.nFrame_le
        · intro f hf hn
          rw [hxf.open_] at hn
          simp only [St.created] at hn
          exact t01.tr.gone f hf hn
        · intro k f hf
          rw [hxf.mgrs] at hf
          simp only [St.created] at hf
          by_cases hk : k = c
          · subst hk
            simp at hf
            exact Or.inr (hD1.fresh f hf)
          · simp [hk] at hf
            exact t01.tr.newHeld k f hf
        · rw [hxf.nObj]
          have := t01.tr.nObj_le
          simp only [St.created]
          omega
        · intro b hbm
          rw [hxf.mgrs]
          have hbc : b ≠ c := fun heq => hcB (heq ▸ hbm)
          simp only [St.created, hbc, if_false]
          exact t01.keep b hbm

end

end Ctx
