import TbotVerif.Props.CtxLeak3
set_option linter.unusedSimpArgs false
set_option linter.unusedVariables false
/-! Second invariant: all levels, the teardown loops, programs; nothing stays alive. -/
namespace Ctx

section
variable (cfg : Cfg)

theorem ops_2 (hwf : cfg.depsBelow) :
    ∀ k, Td2 k (ops cfg k).teardown ∧ Rx2 k (ops cfg k).reqExit ∧ Re2 k (ops cfg k).reqEnter := by
  intro k
  induction k with
  | zero =>
    refine ⟨?_, ?_, ?_⟩
    · intro n D X Q B c s hk; omega
    · intro n D X Q B f s e hk; omega
    · intro n D X Q B dep c reset excl roe s hk; omega
  | succ k ih =>
    obtain ⟨_, hrx2, hre2⟩ := ih
    obtain ⟨_, hSx, hSe⟩ := ops_spec cfg hwf k
    have hStd : TdSpec (teardownF cfg (ops cfg k).reqExit) := teardownF_spec cfg hSx
    have htd2 : Td2 (k + 1) (teardownF cfg (ops cfg k).reqExit) := teardownF_2 cfg hSx hrx2
    have hSdep : DepSpec (fun d x s => (ops cfg k).reqEnter true d false x none s) :=
      fun B d x s h hb => hSe B true d false x none s h hb
    have hdep2 : Dep2 k (fun d x s => (ops cfg k).reqEnter true d false x none s) :=
      fun n D X Q B d x s hk hn h hb hI => hre2 n D X Q B true d false x none s hk hn h hb hI
    have hSini := initClsF_spec cfg hwf hSdep hSx
    have hini2 := initClsF_2 cfg hwf hSdep hdep2 hSx hrx2
    exact ⟨htd2, reqExitF_2 cfg hStd htd2, reqEnterF_2 cfg hStd htd2 hSini hini2⟩

end

/-- replace the set of tolerated dangling classes -/
theorem Inv2.reD {n : Nat} {D D' X : Nat → Prop} {Q : List Frame} {s : St} (h : Inv2 n D X Q s)
    (hd : s.keepAlive = false → ∀ c, (s.mgrs c).inst ≠ none → (s.mgrs c).users = 0 → D' c ∨ X c) :
    Inv2 n D' X Q s := ⟨h.dh, hd, h.ord, h.bnd⟩

/-- alive without users -/
def dang (s : St) (c : Nat) : Prop := (s.mgrs c).inst ≠ none ∧ (s.mgrs c).users = 0

theorem Inv2.toDang {n : Nat} {D X : Nat → Prop} {Q : List Frame} {s : St} (h : Inv2 n D X Q s) :
    Inv2 n (dang s) X Q s := h.reD (fun _ c hi hu => Or.inl ⟨hi, hu⟩)

def Fa : Nat → Prop := fun _ => False

theorem Inv2.alive_lt {n : Nat} {D X : Nat → Prop} {Q : List Frame} {s : St} (h : Inv2 n D X Q s)
    {c : Nat} (hal : s.alive c = true) : c < n := by
  apply Classical.byContradiction
  intro hn
  have := h.bnd c (by omega)
  simp [St.alive, St.mgr, this] at hal

theorem tdLoop_2 {kk : Nat} {td : Nat → St → R} (hS : TdSpec td) (h2 : Td2 kk td)
    (cond : St → Nat → Bool) (hcond : ∀ s c, cond s c = true → s.alive c = true)
    (n : Nat) (hkn : n ≤ kk) (D : Nat → Prop) (Q : List Frame) :
    ∀ (cs : List Nat) (s : St) (e : Option Exc), Inv [] s → Inv2 n D Fa Q s →
      Inv2 n D Fa Q (tdLoop td cond cs s e).1 ∧ Eff s (tdLoop td cond cs s e).1 ∧
      Down s (tdLoop td cond cs s e).1 := by
  intro cs
  induction cs with
  | nil => intro s e _ hI; exact ⟨hI, Eff.refl s, Down.refl s⟩
  | cons c cs ih =>
    intro s e h hI
    unfold tdLoop
    split
    · rename_i hc
      have hcn : c < n := hI.alive_lt (hcond s c hc)
      have h1 := hS [] c s h (by simp)
      have q1 := h2 n D Fa Q [] c s (by omega) hcn h (by simp) hI
      have := ih (td c s).1 (first e (td c s).2) h1.1 q1.1
      exact ⟨this.1, q1.2.1.trans this.2.1, q1.2.2.1.trans this.2.2⟩
    · exact ih s e h hI

/-- the keep-alive exit loop tears down every class of the list -/
theorem tdLoop_all {kk : Nat} {td : Nat → St → R} (hS : TdSpec td) (h2 : Td2 kk td)
    (n : Nat) (hkn : n ≤ kk) (D : Nat → Prop) (Q : List Frame) :
    ∀ (cs : List Nat) (s : St) (e : Option Exc), Inv [] s → Inv2 n D Fa Q s → s.keepAlive = true →
      ∀ c ∈ cs, ((tdLoop td (fun s c => s.alive c && s.keepAlive) cs s e).1.mgrs c).inst = none := by
  intro cs
  induction cs with
  | nil => intro s e _ _ _ c hc; simp at hc
  | cons c cs ih =>
    intro s e h hI hka x hx
    have hcondA : ∀ (s : St) (c : Nat), (s.alive c && s.keepAlive) = true → s.alive c = true := by
      intro s c hh; simp at hh; exact hh.1
    unfold tdLoop
    simp only
    by_cases hal : s.alive c = true
    · simp only [hal, hka, Bool.and_self, if_true]
      have hcn : c < n := hI.alive_lt hal
      have h1 := hS [] c s h (by simp)
      have q1 := h2 n D Fa Q [] c s (by omega) hcn h (by simp) hI
      have hka1 : (td c s).1.keepAlive = true := by rw [q1.2.1.keepAlive]; exact hka
      have hl := tdLoop_2 hS h2 (fun s c => s.alive c && s.keepAlive) hcondA n hkn D Q cs (td c s).1
        (first e (td c s).2) h1.1 q1.1
      rcases List.mem_cons.mp hx with rfl | hx
      · apply Classical.byContradiction
        intro hne
        exact hl.2.2 _ hne q1.2.2.2
      · exact ih (td c s).1 _ h1.1 q1.1 hka1 x hx
    · have hcond : (s.alive c && s.keepAlive) = false := by simp [hal]
      simp only [hcond, Bool.false_eq_true, if_false]
      have hl := tdLoop_2 hS h2 (fun s c => s.alive c && s.keepAlive) hcondA n hkn D Q cs s e h hI
      rcases List.mem_cons.mp hx with rfl | hx
      · apply Classical.byContradiction
        intro hne
        have := hl.2.2 _ hne
        apply hal
        simp only [St.alive, St.mgr, Option.isSome_iff_ne_none]
        exact this
      · exact ih s e h hI hka x hx

/-- the loop of `reconfigure`: with keep-alive off again, no class of the list dangles afterwards
    and nothing starts to dangle -/
theorem tdLoop_dang {kk : Nat} {td : Nat → St → R} (hS : TdSpec td) (h2 : Td2 kk td)
    (n : Nat) (hkn : n ≤ kk) (Q : List Frame) :
    ∀ (cs : List Nat) (D : Nat → Prop) (s : St) (e : Option Exc), Inv [] s → Inv2 n D Fa Q s →
      s.keepAlive = false →
      ∀ x, dang (tdLoop td (fun s c => s.alive c && (s.mgr c).users == 0) cs s e).1 x →
        dang s x ∧ x ∉ cs := by
  intro cs
  induction cs with
  | nil => intro D s e _ _ _ x hx; exact ⟨hx, by simp⟩
  | cons c cs ih =>
    intro D s e h hI hka x hx
    unfold tdLoop at hx
    simp only at hx
    by_cases hcond : (s.alive c && (s.mgr c).users == 0) = true
    · simp only [hcond, if_true] at hx
      have hcn : c < n := hI.alive_lt (by simp at hcond; exact hcond.1)
      have h1 := hS [] c s h (by simp)
      have q1 := h2 n (dang s) Fa Q [] c s (by omega) hcn h (by simp) hI.toDang
      have hka1 : (td c s).1.keepAlive = false := by rw [q1.2.1.keepAlive]; exact hka
      have := ih (dang s) (td c s).1 _ h1.1 q1.1 hka1 x hx
      have hds : dang s x := by
        rcases q1.1.nd hka1 x this.1.1 this.1.2 with hd | hf
        · exact hd
        · exact absurd hf id
      refine ⟨hds, ?_⟩
      intro hm
      rcases List.mem_cons.mp hm with rfl | hm
      · exact this.1.1 q1.2.2.2
      · exact this.2 hm
    · simp only [hcond, if_false] at hx
      have := ih D s e h hI hka x hx
      refine ⟨this.1, ?_⟩
      intro hm
      rcases List.mem_cons.mp hm with rfl | hm
      · apply hcond
        have h1 : s.alive x = true := by
          simp only [St.alive, St.mgr, Option.isSome_iff_ne_none]; exact this.1.1
        have h2' : (s.mgr x).users = 0 := this.1.2
        simp [h1, h2']
      · exact this.2 hm

/-- with keep-alive off, no tolerated dangling class and no pending frame, nothing is alive:
    the largest alive class has no user -/
theorem Inv2.noneAlive {n : Nat} {s : St} (h : Inv [] s) (h2 : Inv2 n Fa Fa [] s)
    (hka : s.keepAlive = false) : ∀ c, (s.mgrs c).inst = none := by
  -- every alive class has an alive class above it
  have up : ∀ c, (s.mgrs c).inst ≠ none → ∃ k, c < k ∧ (s.mgrs k).inst ≠ none := by
    intro c hi
    have hu : (s.mgrs c).users ≠ 0 := by
      intro hu
      rcases h2.nd hka c hi hu with hf | hf <;> exact hf
    rw [h.users c] at hu
    have : ∃ f ∈ s.open_, f.cls = c := by
      unfold cntCls at hu
      have hpos : 0 < (s.open_.filter fun f => f.cls == c).length := Nat.pos_of_ne_zero hu
      obtain ⟨f, hf⟩ := List.exists_mem_of_length_pos hpos
      rw [List.mem_filter] at hf
      exact ⟨f, hf.1, by simpa using hf.2⟩
    obtain ⟨f, hfo, hfc⟩ := this
    rcases h2.dh f hfo with ⟨k, hk⟩ | hq
    · refine ⟨k, ?_, ?_⟩
      · rw [← hfc]; exact (h.heldOpen k f hk).2
      · intro hn
        rw [h.deadHeld k hn] at hk
        simp at hk
    · simp at hq
  -- so there would be alive classes beyond `n`
  have far : ∀ (m : Nat) c, (s.mgrs c).inst ≠ none → ∃ k, c + m ≤ k ∧ (s.mgrs k).inst ≠ none := by
    intro m
    induction m with
    | zero => intro c hi; exact ⟨c, by omega, hi⟩
    | succ m ih =>
      intro c hi
      obtain ⟨k, hk, hki⟩ := up c hi
      obtain ⟨k', hk', hki'⟩ := ih k hki
      exact ⟨k', by omega, hki'⟩
  intro c
  apply Classical.byContradiction
  intro hi
  obtain ⟨k, hk, hki⟩ := far n c hi
  exact hki (h2.bnd k (by omega))

end Ctx
