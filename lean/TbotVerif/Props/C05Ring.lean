import TbotVerif.Props.ReProps
import TbotVerif.Spec.Chan
/-! C05 — the ring buffers of `Channel._check`.  Pure part: what `checkWindow` / `checkWindows`
    do to a list of registrations whose rings hold the tail of the data received since the
    registration (`toDeath`), and when a match is (not) found. -/

namespace C05
open Chan

/-! ### occurrences of a search string -/

/-- `u` is an occurrence of the death string -/
def Occ : Pat → Bytes → Prop
  | .lit b, u => u = b
  | .re r, u => Re.L r u

/-- admissible death strings: a non-empty literal, or an anchor-free regex that does not match
    the empty word -/
def PatOk : Pat → Prop
  | .lit b => b ≠ []
  | .re r => r.noEos = true ∧ ¬ Re.L r []

theorem findSub_prefix (p : Bytes) : ∀ (s : Bytes) (i : Nat), findSub p s = some i →
    ∃ y, s.drop i = p ++ y := by
  intro s
  induction s with
  | nil =>
    intro i h
    unfold findSub at h
    split at h
    · rename_i he
      have : p = [] := by simpa using he
      subst this
      exact ⟨[], by simp⟩
    · simp at h
  | cons c t ih =>
    intro i h
    unfold findSub at h
    split at h
    · rename_i hp
      simp only [Option.some.injEq] at h; subst h
      obtain ⟨y, hy⟩ := List.isPrefixOf_iff_prefix.mp hp
      exact ⟨y, by simp [hy]⟩
    · cases hf : findSub p t with
      | none => rw [hf] at h; simp at h
      | some j =>
        rw [hf] at h
        simp only [Option.map_some, Option.some.injEq] at h
        subst h
        obtain ⟨y, hy⟩ := ih j hf
        exact ⟨y, by simpa using hy⟩

theorem findSub_complete (p y : Bytes) : ∀ x : Bytes, (findSub p (x ++ p ++ y)).isSome = true := by
  intro x
  induction x with
  | nil =>
    simp only [List.nil_append]
    cases h : p ++ y with
    | nil =>
      have : p = [] := (List.append_eq_nil_iff.mp h).1
      subst this
      simp [findSub]
    | cons c t =>
      unfold findSub
      have : p.isPrefixOf (c :: t) = true := by
        rw [← h]; exact List.isPrefixOf_iff_prefix.mpr ⟨y, rfl⟩
      simp [this]
  | cons c x ih =>
    simp only [List.cons_append]
    unfold findSub
    split
    · rfl
    · simp only [List.append_assoc] at ih
      simp only [List.append_assoc, Option.isSome_map]
      exact ih

/-- a reported match is an occurrence at the reported place -/
theorem search_occ (p : Pat) (hp : PatOk p) (s : Bytes) (a e : Nat) (h : p.search s = some (a, e)) :
    a ≤ e ∧ e ≤ s.length ∧ Occ p ((s.drop a).take (e - a)) := by
  have hb := Pat.search_bound p s a e h
  cases p with
  | lit b =>
    simp only [Pat.search] at h
    cases hf : findSub b s with
    | none => rw [hf] at h; simp at h
    | some i =>
      rw [hf] at h
      simp only [Option.map_some, Option.some.injEq, Prod.mk.injEq] at h
      obtain ⟨rfl, rfl⟩ := h
      obtain ⟨y, hy⟩ := findSub_prefix b s i hf
      refine ⟨hb.1, hb.2, ?_⟩
      simp only [Occ, hy, Nat.add_sub_cancel_left]
      rw [List.take_left']
      rfl
  | re r =>
    exact Re.search_sound r hp.1 s a e h

/-- an occurrence anywhere in the data is found by the search -/
theorem occ_search (p : Pat) (hp : PatOk p) (u : Bytes) (hu : Occ p u) (x y : Bytes) :
    (p.search (x ++ u ++ y)).isSome = true := by
  cases p with
  | lit b =>
    simp only [Occ] at hu
    subst hu
    simp only [Pat.search, Option.isSome_map]
    exact findSub_complete u y x
  | re r => exact Re.search_complete r hp.1 x u y hu

theorem occ_len (p : Pat) (u : Bytes) (hu : Occ p u) : u.length ≤ p.len := by
  cases p with
  | lit b => simp only [Occ] at hu; subst hu; exact Nat.le_refl _
  | re r => exact Re.L_maxWidth r u hu

theorem occ_ne (p : Pat) (hp : PatOk p) (u : Bytes) (hu : Occ p u) : u ≠ [] := by
  cases p with
  | lit b => simp only [Occ] at hu; subst hu; exact hp
  | re r => intro h; subst h; exact hp.2 hu

/-- for a literal the occurrence is the string itself -/
theorem occ_lit (b u : Bytes) (hu : Occ (.lit b) u) : u = b := hu

/-! ### the last `n` bytes -/

/-- the last `n` bytes of `l` (all of `l` when it is shorter) -/
def lastN (n : Nat) (l : Bytes) : Bytes := l.drop (l.length - n)

theorem lastN_length (n : Nat) (l : Bytes) : (lastN n l).length = min n l.length := by
  simp only [lastN, List.length_drop]; omega

theorem lastN_suffix (n : Nat) (l : Bytes) : l = l.take (l.length - n) ++ lastN n l := by
  simp [lastN]

@[simp] theorem lastN_nil (n : Nat) : lastN n [] = [] := by simp [lastN]

theorem lastN_drop (n k : Nat) (l : Bytes) (h : k ≤ l.length - n) : lastN n (l.drop k) = lastN n l := by
  simp only [lastN, List.length_drop, List.drop_drop]
  congr 1; omega

theorem ringPush_eq (n : Nat) (ring w : Bytes) : ringPush n ring w = lastN n (ring ++ w) := rfl

/-- pushing a window into a ring that holds the tail of the history gives the tail of the
    extended history -/
theorem ringPush_lastN (n : Nat) (h w : Bytes) : ringPush n (lastN n h) w = lastN n (h ++ w) := by
  rw [ringPush_eq]
  have : lastN n h ++ w = (h ++ w).drop (h.length - n) := by
    simp only [lastN]
    rw [List.drop_append_of_le_length (Nat.sub_le _ _)]
  rw [this, lastN_drop]
  simp only [List.length_append]; omega

/-- an occurrence that ends at most `n - |u|` bytes before the end is inside the last `n` bytes -/
theorem infix_lastN (n : Nat) (x u y : Bytes) (h : u.length + y.length ≤ n) :
    ∃ x', lastN n (x ++ u ++ y) = x' ++ u ++ y := by
  refine ⟨x.drop (x.length - (n - (u.length + y.length))), ?_⟩
  simp only [lastN, List.append_assoc, List.length_append]
  rw [List.drop_append_of_le_length (by omega)]
  congr 2; omega

/-! ### registrations whose ring is the tail of the history -/

/-- the model registration that belongs to a monitor registration: its ring holds the last
    `min (2 * len) |since|` bytes of the data received since the registration -/
def toDeath (r : Spec.Reg) : Death :=
  { id := r.id, pat := r.pat, exc := r.exc, ring := lastN (2 * r.pat.len) r.since }

/-- the monitor registration after `b` more bytes were received -/
def ext (b : Bytes) (r : Spec.Reg) : Spec.Reg := { r with since := r.since ++ b }

@[simp] theorem ext_since (b : Bytes) (r : Spec.Reg) : (ext b r).since = r.since ++ b := rfl
@[simp] theorem ext_pat (b : Bytes) (r : Spec.Reg) : (ext b r).pat = r.pat := rfl
@[simp] theorem ext_exc (b : Bytes) (r : Spec.Reg) : (ext b r).exc = r.exc := rfl
@[simp] theorem ext_id (b : Bytes) (r : Spec.Reg) : (ext b r).id = r.id := rfl
@[simp] theorem ext_fired (b : Bytes) (r : Spec.Reg) : (ext b r).fired = r.fired := rfl

theorem ext_nil (r : Spec.Reg) : ext [] r = r := by
  simp [ext]

theorem ext_ext (a b : Bytes) (r : Spec.Reg) : ext b (ext a r) = ext (a ++ b) r := by
  simp [ext]

theorem map_ext_nil (regs : List Spec.Reg) : regs.map (ext []) = regs := by
  rw [List.map_congr_left (g := id) (fun r _ => ext_nil r)]; simp

theorem map_ext_ext (a b : Bytes) (regs : List Spec.Reg) :
    (regs.map (ext a)).map (ext b) = regs.map (ext (a ++ b)) := by
  rw [List.map_map]
  exact List.map_congr_left (fun r _ => ext_ext a b r)

/-- what one registration reports when its ring matches -/
def hit (r : Spec.Reg) : Option (Nat × Bytes) :=
  match r.pat.search (toDeath r).ring with
  | some (a, b) => some (r.exc, ((toDeath r).ring.drop a).take (b - a))
  | none => none

theorem toDeath_push (w : Bytes) (r : Spec.Reg) :
    ({ toDeath r with ring := ringPush (toDeath r).maxlen (toDeath r).ring w } : Death) = toDeath (ext w r) := by
  simp only [toDeath, Death.maxlen, ringPush_lastN, ext_since, ext_pat, ext_exc, ext_id]

/-- one window: every ring is extended by the window … -/
theorem checkWindow_snd (w : Bytes) : ∀ (regs : List Spec.Reg) (pend : Option (Nat × Bytes)),
    (checkWindow w pend (regs.map toDeath)).2 = (regs.map (ext w)).map toDeath := by
  intro regs
  induction regs with
  | nil => intro pend; rfl
  | cons r rs ih =>
    intro pend
    simp only [List.map_cons, checkWindow]
    rw [ih, toDeath_push]

/-- … and the first registration (in list order) whose ring matches is remembered, unless
    something is pending already -/
theorem checkWindow_fst (w : Bytes) : ∀ (regs : List Spec.Reg) (pend : Option (Nat × Bytes)),
    (checkWindow w pend (regs.map toDeath)).1 = pend.or ((regs.map (ext w)).findSome? hit) := by
  intro regs
  induction regs with
  | nil => intro pend; simp [checkWindow]
  | cons r rs ih =>
    intro pend
    simp only [List.map_cons, checkWindow, List.findSome?_cons]
    rw [ih]
    have h1 : ringPush (toDeath r).maxlen (toDeath r).ring w = (toDeath (ext w r)).ring := by
      simp only [toDeath, Death.maxlen, ringPush_lastN, ext_since, ext_pat]
    have hpat : (toDeath r).pat = (ext w r).pat := rfl
    have hexc : (toDeath r).exc = (ext w r).exc := rfl
    rw [h1, hpat, hexc]
    cases hsr : (ext w r).pat.search (toDeath (ext w r)).ring with
    | none =>
      have hh : hit (ext w r) = none := by unfold hit; rw [hsr]
      rw [hh]
      cases pend <;> simp
    | some v =>
      obtain ⟨a, k⟩ := v
      have hh : hit (ext w r) = some ((ext w r).exc, ((toDeath (ext w r)).ring.drop a).take (k - a)) := by
        unfold hit; rw [hsr]
      rw [hh]
      cases pend <;> simp

theorem checkWindows_cons (wsz f : Nat) (c : Byte) (t : Bytes) (pend : Option (Nat × Bytes)) (ds : List Death) :
    checkWindows wsz (f + 1) (c :: t) pend ds =
      checkWindows wsz f ((c :: t).drop wsz) (checkWindow ((c :: t).take wsz) pend ds).1
        (checkWindow ((c :: t).take wsz) pend ds).2 := rfl

/-- **ring invariant**: after `checkWindows` every ring is the tail of the history extended by
    all of the incoming data — whether or not a match was found on the way -/
theorem checkWindows_snd (wsz : Nat) (hw : 0 < wsz) : ∀ (f : Nat) (b : Bytes) (pend : Option (Nat × Bytes))
    (regs : List Spec.Reg), b.length ≤ f →
    (checkWindows wsz f b pend (regs.map toDeath)).2 = (regs.map (ext b)).map toDeath := by
  intro f
  induction f with
  | zero =>
    intro b pend regs hf
    have : b = [] := List.length_eq_zero_iff.mp (by omega)
    subst this
    simp [checkWindows, map_ext_nil]
  | succ f ih =>
    intro b pend regs hf
    cases b with
    | nil => simp [checkWindows, map_ext_nil]
    | cons c t =>
      rw [checkWindows_cons, checkWindow_snd, ih, map_ext_ext, List.take_append_drop]
      simp only [List.length_drop, List.length_cons] at hf ⊢
      omega

theorem checkWindows_pending (wsz : Nat) (x : Nat × Bytes) : ∀ (f : Nat) (b : Bytes) (regs : List Spec.Reg),
    (checkWindows wsz f b (some x) (regs.map toDeath)).1 = some x := by
  intro f
  induction f with
  | zero => intro b regs; rfl
  | succ f ih =>
    intro b regs
    cases b with
    | nil => rfl
    | cons c t =>
      rw [checkWindows_cons, checkWindow_snd, checkWindow_fst]
      exact ih _ _

/-- `A ++ rest = B ++ y` with `rest` no longer than `y`: `A` is `B` plus the front of `y` -/
theorem append_cancel_right {A rest B y : Bytes} (h : A ++ rest = B ++ y) (hl : rest.length ≤ y.length) :
    A = B ++ y.take (y.length - rest.length) := by
  have hlen := congrArg List.length h
  simp only [List.length_append] at hlen
  have h1 : A = (A ++ rest).take A.length := by simp
  rw [h1, h, List.take_append]
  have : A.length - B.length = y.length - rest.length := by omega
  rw [this, List.take_of_length_le (by omega : B.length ≤ A.length)]

/-- **completeness (windows)**: an occurrence of a registered string that ends inside the
    incoming data is seen by some ring, if no window is longer than that string's `len` -/
theorem checkWindows_complete (wsz : Nat) (hw : 0 < wsz) (u : Bytes) :
    ∀ (f : Nat) (b : Bytes) (pend : Option (Nat × Bytes)) (regs : List Spec.Reg) (r : Spec.Reg) (x y : Bytes),
    b.length ≤ f → r ∈ regs → wsz ≤ r.pat.len → u.length ≤ r.pat.len →
    (∀ x' y', (r.pat.search (x' ++ u ++ y')).isSome = true) →
    r.since ++ b = x ++ u ++ y → y.length < b.length →
    (checkWindows wsz f b pend (regs.map toDeath)).1.isSome = true := by
  intro f
  induction f with
  | zero => intro b pend regs r x y hf _ _ _ _ _ hy; omega
  | succ f ih =>
    intro b pend regs r x y hf hr hwl hul hs heq hy
    cases b with
    | nil => simp at hy
    | cons c t =>
      rw [checkWindows_cons, checkWindow_snd]
      cases hp : (checkWindow ((c :: t).take wsz) pend (regs.map toDeath)).1 with
      | some v => rw [checkWindows_pending]; rfl
      | none =>
        have hrest : ((c :: t).drop wsz).length ≤ f := by
          simp only [List.length_drop, List.length_cons] at hf ⊢; omega
        have hsplit : r.since ++ (c :: t).take wsz ++ (c :: t).drop wsz = x ++ u ++ y := by
          rw [List.append_assoc, List.take_append_drop]; exact heq
        by_cases hcase : ((c :: t).drop wsz).length ≤ y.length
        · -- the occurrence ends inside the first window: its ring must have matched
          exfalso
          rw [checkWindow_fst] at hp
          have hnone : (regs.map (ext ((c :: t).take wsz))).findSome? hit = none := by
            cases pend with
            | some v => simp at hp
            | none => simpa using hp
          have hh : hit (ext ((c :: t).take wsz) r) = none :=
            List.findSome?_eq_none_iff.mp hnone _ (List.mem_map_of_mem hr)
          have hA := append_cancel_right hsplit hcase
          have hy1 : (y.take (y.length - ((c :: t).drop wsz).length)).length < wsz := by
            simp only [List.length_take, List.length_drop, List.length_cons] at hy hcase ⊢
            omega
          obtain ⟨x', hx'⟩ := infix_lastN (2 * r.pat.len) x u (y.take (y.length - ((c :: t).drop wsz).length))
            (by omega)
          have hring : (toDeath (ext ((c :: t).take wsz) r)).ring = x' ++ u ++ y.take (y.length - ((c :: t).drop wsz).length) := by
            simp only [toDeath, ext_since, ext_pat]
            rw [hA, hx']
          have hsome := hs x' (y.take (y.length - ((c :: t).drop wsz).length))
          unfold hit at hh
          rw [hring] at hh
          simp only [ext_pat] at hh
          cases hsr : r.pat.search (x' ++ u ++ y.take (y.length - ((c :: t).drop wsz).length)) with
          | none => rw [hsr] at hsome; simp at hsome
          | some v => rw [hsr] at hh; simp at hh
        · exact ih _ _ _ (ext ((c :: t).take wsz) r) x y hrest (List.mem_map_of_mem hr) hwl hul hs
            (by simpa using hsplit) (by omega)

/-- **soundness (windows)**: a reported match was found by the search in the ring of a
    registration after some prefix of the incoming data -/
theorem checkWindows_sound (wsz : Nat) (e : Nat) (m : Bytes) :
    ∀ (f : Nat) (b : Bytes) (pend : Option (Nat × Bytes)) (regs : List Spec.Reg),
    (checkWindows wsz f b pend (regs.map toDeath)).1 = some (e, m) →
    pend = some (e, m) ∨ ∃ r ∈ regs, ∃ b1 b2, b = b1 ++ b2 ∧ hit (ext b1 r) = some (e, m) := by
  intro f
  induction f with
  | zero => intro b pend regs h; exact Or.inl h
  | succ f ih =>
    intro b pend regs h
    cases b with
    | nil => exact Or.inl h
    | cons c t =>
      rw [checkWindows_cons, checkWindow_snd] at h
      rcases ih _ _ _ h with hp | ⟨r', hr', b1, b2, hb, hh⟩
      · rw [checkWindow_fst] at hp
        cases pend with
        | some v => left; simpa using hp
        | none =>
          right
          simp only [Option.none_or] at hp
          obtain ⟨r', hr', hh⟩ := List.exists_of_findSome?_eq_some hp
          obtain ⟨r, hr, rfl⟩ := List.mem_map.mp hr'
          exact ⟨r, hr, (c :: t).take wsz, (c :: t).drop wsz, (List.take_append_drop _ _).symm, hh⟩
      · right
        obtain ⟨r, hr, rfl⟩ := List.mem_map.mp hr'
        refine ⟨r, hr, (c :: t).take wsz ++ b1, b2, ?_, ?_⟩
        · rw [List.append_assoc, ← hb, List.take_append_drop]
        · rw [← ext_ext]; exact hh

/-! ### the window size -/

theorem foldl_min_le : ∀ (ms : List Nat) (m : Nat), ms.foldl min m ≤ m ∧ ∀ x ∈ ms, ms.foldl min m ≤ x := by
  intro ms
  induction ms with
  | nil => intro m; simp
  | cons a as ih =>
    intro m
    simp only [List.foldl_cons]
    obtain ⟨h1, h2⟩ := ih (min m a)
    refine ⟨Nat.le_trans h1 (Nat.min_le_left _ _), ?_⟩
    intro x hx
    rcases List.mem_cons.mp hx with rfl | hx
    · exact Nat.le_trans h1 (Nat.min_le_right _ _)
    · exact h2 x hx

theorem windowSize_pos (ds : List Death) : 0 < windowSize ds := by
  unfold windowSize
  split
  · exact Nat.one_pos
  · exact Nat.lt_of_lt_of_le Nat.one_pos (Nat.le_max_left _ _)

/-- the window is no longer than any registered string (of length ≥ 1) -/
theorem windowSize_le (ds : List Death) (d : Death) (hd : d ∈ ds) (h1 : 1 ≤ d.pat.len) :
    windowSize ds ≤ d.pat.len := by
  unfold windowSize
  have hm : d.maxlen ∈ ds.map Death.maxlen := List.mem_map_of_mem hd
  split
  · rename_i he; rw [he] at hm; simp at hm
  · rename_i m ms he
    rw [he] at hm
    have hle : ms.foldl min m ≤ d.maxlen := by
      rcases List.mem_cons.mp hm with h | h
      · rw [h]; exact (foldl_min_le ms m).1
      · exact (foldl_min_le ms m).2 _ h
    simp only [Death.maxlen] at hle
    omega

/-! ### `_check` on the list of registrations -/

/-- `Channel._check` as a function of the registrations alone -/
def chk (ds : List Death) (b : Bytes) : Option (Nat × Bytes) × List Death :=
  if ds.isEmpty then (none, ds) else checkWindows (windowSize ds) b.length b none ds

theorem check_eq (b : Bytes) (s : St) :
    check b s = ((match (chk s.deaths b).1 with
                  | some (e, m) => .error (.death e m)
                  | none => .ok ()), { s with deaths := (chk s.deaths b).2 }) := by
  unfold check chk
  split
  · rfl
  · simp only
    split <;> rename_i h <;> simp [h]

/-- **INVARIANT.**  If every ring holds the last `min (2 * len) |since|` bytes of the data
    received since its registration, then after `_check incoming` every ring holds the last
    `min (2 * len) |since ++ incoming|` bytes of `since ++ incoming` — also when a match was
    found (all windows are processed). -/
theorem chk_invariant (regs : List Spec.Reg) (b : Bytes) :
    (chk (regs.map toDeath) b).2 = (regs.map (ext b)).map toDeath := by
  unfold chk
  split
  · rename_i h
    have : regs = [] := by simpa using h
    subst this; rfl
  · exact checkWindows_snd _ (windowSize_pos _) _ _ _ _ (Nat.le_refl _)

/-- **COMPLETENESS.**  If the string of some registration occurs in `since ++ incoming` with an
    occurrence that ends inside `incoming`, `_check incoming` finds a match. -/
theorem chk_complete (regs : List Spec.Reg) (b : Bytes) (r : Spec.Reg) (hr : r ∈ regs) (hp : PatOk r.pat)
    (x u y : Bytes) (hu : Occ r.pat u) (heq : r.since ++ b = x ++ u ++ y) (hy : y.length < b.length) :
    (chk (regs.map toDeath) b).1.isSome = true := by
  unfold chk
  split
  · rename_i h
    have : regs = [] := by simpa using h
    subst this; simp at hr
  · have hlen := occ_len r.pat u hu
    have hne : 0 < u.length := List.length_pos_iff.mpr (occ_ne r.pat hp u hu)
    exact checkWindows_complete _ (windowSize_pos _) u _ _ _ regs r x y (Nat.le_refl _) hr
      (windowSize_le _ (toDeath r) (List.mem_map_of_mem hr) (by simp only [toDeath]; omega)) hlen
      (fun x' y' => occ_search r.pat hp u hu x' y') heq hy

/-- **SOUNDNESS.**  A match reported by `_check incoming` belongs to a registration whose
    string occurs in its `since ++ incoming`; what is reported is that occurrence. -/
theorem chk_sound (regs : List Spec.Reg) (b : Bytes) (e : Nat) (m : Bytes)
    (h : (chk (regs.map toDeath) b).1 = some (e, m)) :
    ∃ r ∈ regs, r.exc = e ∧ (PatOk r.pat → Occ r.pat m ∧ ∃ x y, r.since ++ b = x ++ m ++ y) := by
  unfold chk at h
  split at h
  · simp at h
  · rcases checkWindows_sound _ e m _ _ _ _ h with hp | ⟨r, hr, b1, b2, hb, hh⟩
    · simp at hp
    · refine ⟨r, hr, ?_⟩
      unfold hit at hh
      cases hs : (ext b1 r).pat.search (toDeath (ext b1 r)).ring with
      | none => rw [hs] at hh; simp at hh
      | some v =>
        obtain ⟨a, k⟩ := v
        rw [hs] at hh
        simp only [Option.some.injEq, Prod.mk.injEq, ext_exc] at hh
        obtain ⟨he, hm⟩ := hh
        refine ⟨he, fun hp => ?_⟩
        simp only [ext_pat] at hs
        obtain ⟨hak, hk, hocc⟩ := search_occ r.pat hp _ a k hs
        rw [hm] at hocc
        refine ⟨hocc, ?_⟩
        -- the ring is a suffix of `since ++ b1`, the match is an infix of the ring
        generalize hring : (toDeath (ext b1 r)).ring = ring at hm hk
        obtain ⟨pre, hsuf⟩ : ∃ pre, r.since ++ b1 = pre ++ ring :=
          ⟨_, by rw [← hring]; exact lastN_suffix _ _⟩
        have hmid : ring = ring.take a ++ m ++ (ring.drop a).drop (k - a) := by
          rw [← hm, List.append_assoc, List.take_append_drop, List.take_append_drop]
        refine ⟨pre ++ ring.take a, (ring.drop a).drop (k - a) ++ b2, ?_⟩
        rw [hb, ← List.append_assoc, hsuf]
        conv => lhs; rw [hmid]
        simp only [List.append_assoc]

end C05
