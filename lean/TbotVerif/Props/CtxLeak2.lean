import TbotVerif.Props.CtxLeak
set_option linter.unusedSimpArgs false
set_option linter.unusedVariables false
/-! Second invariant: the recursive operations on a sufficient dependency level. -/
namespace Ctx

def Td2 (kk : Nat) (td : Nat → St → R) : Prop :=
  ∀ (n : Nat) (D X : Nat → Prop) (Q : List Frame) (B : List Nat) (c : Nat) (s : St),
    c < kk → c < n → Inv B s → (∀ b ∈ B, c < b) → Inv2 n D X Q s →
    Inv2 n D X Q (td c s).1 ∧ Eff s (td c s).1 ∧ Down s (td c s).1 ∧ ((td c s).1.mgrs c).inst = none

def Rx2 (kk : Nat) (rx : Frame → St → Option Exc → R) : Prop :=
  ∀ (n : Nat) (D X : Nat → Prop) (Q : List Frame) (B : List Nat) (f : Frame) (s : St) (e : Option Exc),
    f.cls < kk → f.cls < n → Inv B s → (∀ b ∈ B, f.cls < b) → f ∈ s.open_ →
    (∀ k, f ∉ (s.mgrs k).held) → Inv2 n D X (f :: Q) s →
    Inv2 n D X Q (rx f s e).1 ∧ Eff s (rx f s e).1 ∧ Down s (rx f s e).1

def Re2 (kk : Nat) (re : Bool → Nat → Bool → Bool → Option Bool → St → St × (Frame ⊕ Exc)) : Prop :=
  ∀ (n : Nat) (D X : Nat → Prop) (Q : List Frame) (B : List Nat) (dep : Bool) (c : Nat)
    (reset excl : Bool) (roe : Option Bool) (s : St),
    c < kk → c < n → Inv B s → (∀ b ∈ B, c < b) → Inv2 n D X Q s →
    Eff s (re dep c reset excl roe s).1 ∧
    (∀ f, (re dep c reset excl roe s).2 = .inl f → Inv2 n D X (f :: Q) (re dep c reset excl roe s).1) ∧
    (∀ e, (re dep c reset excl roe s).2 = .inr e → Inv2 n D X Q (re dep c reset excl roe s).1)

def Dep2 (kk : Nat) (re : Nat → Bool → St → St × (Frame ⊕ Exc)) : Prop :=
  ∀ (n : Nat) (D X : Nat → Prop) (Q : List Frame) (B : List Nat) (d : Nat) (x : Bool) (s : St),
    d < kk → d < n → Inv B s → (∀ b ∈ B, d < b) → Inv2 n D X Q s →
    Eff s (re d x s).1 ∧
    (∀ f, (re d x s).2 = .inl f → Inv2 n D X (f :: Q) (re d x s).1) ∧
    (∀ e, (re d x s).2 = .inr e → Inv2 n D X Q (re d x s).1)

def Ini2 (kk : Nat) (ini : Nat → St → R) : Prop :=
  ∀ (n : Nat) (D X : Nat → Prop) (Q : List Frame) (B : List Nat) (c : Nat) (s : St),
    c < kk → c < n → Inv B s → (∀ b ∈ B, c < b) → (s.mgrs c).inst = none → Inv2 n D X Q s →
    Eff s (ini c s).1 ∧
    ((Inv2 n D (fun x => X x ∨ x = c) Q (ini c s).1 ∧ ((ini c s).1.mgrs c).inst ≠ none ∧
        ((ini c s).1.mgrs c).avail = true ∧ (ini c s).2 = none) ∨
     (Inv2 n D X Q (ini c s).1 ∧ ((ini c s).1.mgrs c).inst = none))

theorem exitFrames_2 {kk : Nat} {rx : Frame → St → Option Exc → R} (hS : RxSpec rx) (h2 : Rx2 kk rx) :
    ∀ (L : List Frame) (n : Nat) (D X : Nat → Prop) (Q : List Frame) (B : List Nat) (s : St)
      (e : Option Exc), Inv B s → Pend L s →
      (∀ f ∈ L, f.cls < kk ∧ f.cls < n ∧ ∀ b ∈ B, f.cls < b) → Inv2 n D X (L ++ Q) s →
      Inv2 n D X Q (exitFramesWith rx L s e).1 ∧ Eff s (exitFramesWith rx L s e).1 ∧
      Down s (exitFramesWith rx L s e).1 := by
  intro L
  induction L with
  | nil =>
    intro n D X Q B s e _ _ _ h2'
    have h2'' : Inv2 n D X Q s := by simpa using h2'
    exact ⟨h2'', Eff.refl s, Down.refl s⟩
  | cons f fs ih =>
    intro n D X Q B s e h hp hb hI2
    unfold exitFramesWith
    have hf := hp.isOpen f (by simp)
    have hh := hp.notHeld f (by simp)
    obtain ⟨hk, hn, hbb⟩ := hb f (by simp)
    have h1 := hS B f s e h hbb hf hh
    have q1 := h2 n D X (fs ++ Q) B f s e hk hn h hbb hf hh (by simpa using hI2)
    have hnd := List.nodup_cons.mp hp.nodup
    have hp' : Pend fs (rx f s e).1 :=
      hp.tail.tr h1.2.tr h.idLt (fun g hg hx => by
        simp at hx
        subst hx
        exact hnd.1 hg)
    have := ih n D X Q B (rx f s e).1 (rx f s e).2 h1.1 hp'
      (fun g hg => hb g (List.mem_cons_of_mem _ hg)) q1.1
    exact ⟨this.1, q1.2.1.trans this.2.1, q1.2.2.trans this.2.2⟩

section
variable (cfg : Cfg)

theorem tdStart_same2 {s : St} {c o : Nat} :
    Same2 (s.downed c o)
      (objExit cfg (((s.setObj o { s.obj o with rc := 1 })).setMgr c
        { (s.setObj o { s.obj o with rc := 1 }).mgr c with held := [] }) o).1 ∧
    Sc s (objExit cfg (((s.setObj o { s.obj o with rc := 1 })).setMgr c
        { (s.setObj o { s.obj o with rc := 1 }).mgr c with held := [] }) o).1 := by
  have := objExit_same cfg (((s.setObj o { s.obj o with rc := 1 })).setMgr c
        { (s.setObj o { s.obj o with rc := 1 }).mgr c with held := [] }) o
  exact ⟨⟨this.1, this.2.1, this.2.2.keepAlive, this.2.2.order⟩,
    ⟨this.2.2.keepAlive, this.2.2.roeDefault, this.2.2.openCtx, this.2.2.order⟩⟩

theorem teardownF_2 {kk : Nat} {rx : Frame → St → Option Exc → R} (hS : RxSpec rx) (h2 : Rx2 kk rx) :
    Td2 (kk + 1) (teardownF cfg rx) := by
  intro n D X Q B c s hk hn h hb hI2
  have hcB : c ∉ B := fun hm => Nat.lt_irrefl _ (hb c hm)
  unfold teardownF
  cases hi : (s.mgr c).inst with
  | none =>
    simp only
    have hi' : (s.mgrs c).inst = none := hi
    have := same2_ctxError s
    exact ⟨hI2.same this.1, Eff.of_sc this.2, Down.of_mgrs this.1.mgrs, by rw [this.1.mgrs]; exact hi'⟩
  | some o =>
    simp only
    have hi' : (s.mgrs c).inst = some o := hi
    obtain ⟨ho, hcls⟩ := h.instWf c o hi'
    have hx := tdStart_ext cfg (s := s) (c := c) (o := o) hcls
    have hsm := tdStart_same2 cfg (s := s) (c := c) (o := o)
    have hd : Inv (c :: B) (s.downed c o) := h.downed hi' hcB
    generalize objExit cfg (((s.setObj o { s.obj o with rc := 1 })).setMgr c
        { (s.setObj o { s.obj o with rc := 1 }).mgr c with held := [] }) o = r1 at hx hsm ⊢
    have h1 : Inv (c :: B) r1.1 := hd.ext hx
    have hheld : ((s.setObj o { s.obj o with rc := 1 }).mgr c).held = (s.mgrs c).held := rfl
    rw [hheld]
    have hp : Pend (s.mgrs c).held.reverse r1.1 := by
      refine Pend.reverse ⟨h.heldNodup c, ?_, ?_⟩
      · intro f hf
        rw [hx.open_]
        exact (h.heldOpen c f hf).1
      · intro f hf k hk
        rw [hx.mgrs] at hk
        simp only [St.downed] at hk
        by_cases hkc : k = c
        · subst hkc; simp at hk
        · simp [hkc] at hk
          exact hkc (h.heldDisj k c f hk hf)
    have hlt : ∀ f ∈ (s.mgrs c).held.reverse, f.cls < kk ∧ f.cls < n ∧ ∀ b ∈ c :: B, f.cls < b := by
      intro f hf
      have hfc := (h.heldOpen c f (List.mem_reverse.mp hf)).2
      refine ⟨by omega, by omega, ?_⟩
      intro b hbm
      rcases List.mem_cons.mp hbm with rfl | hbm
      · exact hfc
      · exact Nat.lt_trans hfc (hb b hbm)
    have hI2d : Inv2 n D (fun x => X x ∨ x = c) ((s.mgrs c).held.reverse ++ Q) r1.1 :=
      ((hI2.downed c o).weaken (fun f hf => by
        rcases List.mem_append.mp hf with h' | h'
        · exact List.mem_append_left _ (List.mem_reverse.mpr h')
        · exact List.mem_append_right _ h') (fun _ hx => hx)).same hsm.1
    have q := exitFrames_2 hS h2 (s.mgrs c).held.reverse n D (fun x => X x ∨ x = c) Q (c :: B)
      r1.1 r1.2 h1 hp hlt hI2d
    generalize exitFramesWith rx (s.mgrs c).held.reverse r1.1 r1.2 = r2 at q ⊢
    refine ⟨q.1.cleared, ?_, ?_, by simp [St.setMgr]⟩
    · have e1 : Eff s r1.1 := Eff.of_sc hsm.2
      have e3 : Eff r2.1 (r2.1.setMgr c { r2.1.mgr c with inst := none }) :=
        ⟨rfl, rfl, rfl, fun _ hx => hx⟩
      exact (e1.trans q.2.1).trans e3
    · intro k hk
      have hk2 : (r2.1.mgrs k).inst ≠ none := by
        by_cases hkc : k = c
        · subst hkc; simp [St.setMgr] at hk
        · simpa [St.setMgr, hkc] using hk
      have hk1 := q.2.2 k hk2
      rw [hsm.1.mgrs] at hk1
      simp only [St.downed] at hk1
      by_cases hkc : k = c
      · subst hkc; rw [hi']; simp
      · simpa [hkc] using hk1

theorem roeStep_2 {kk : Nat} {td : Nat → St → R} (h2 : Td2 kk td) {n : Nat} {D X : Nat → Prop}
    {Q : List Frame} {B : List Nat} {f : Frame} {s : St} (e : Option Exc) (hk : f.cls < kk)
    (hn : f.cls < n) (h : Inv B s) (hb : ∀ b ∈ B, f.cls < b) (hI2 : Inv2 n D X Q s) :
    Inv2 n D X Q (roeStep td f s e).1 ∧ Eff s (roeStep td f s e).1 ∧ Down s (roeStep td f s e).1 := by
  unfold roeStep
  cases e with
  | none => exact ⟨hI2, Eff.refl s, Down.refl s⟩
  | some ex =>
    simp only
    split
    · have := h2 n D X Q B f.cls s hk hn h hb hI2
      exact ⟨this.1, this.2.1, this.2.2.1⟩
    · exact ⟨hI2, Eff.refl s, Down.refl s⟩

theorem reqExitF_2 {kk : Nat} {td : Nat → St → R} (hS : TdSpec td) (h2 : Td2 kk td) :
    Rx2 kk (reqExitF cfg td) := by
  intro n D X Q B f s e hk hn h hb hf hh hI2
  have hcB : f.cls ∉ B := fun hm => Nat.lt_irrefl _ (hb _ hm)
  unfold reqExitF
  simp only
  have h0 := roeStep_spec hS e h hb
  have q0 := roeStep_2 h2 e hk hn h hb hI2
  generalize roeStep td f s e = r0 at h0 q0 ⊢
  have hp0 : Pend [f] r0.1 := (Pend.single hf hh).tr h0.2.tr h.idLt (by simp)
  have hf0 := hp0.isOpen f (by simp)
  have hh0 := hp0.notHeld f (by simp)
  have hrc := h0.1.frame_rc hf0 hcB
  rw [objExit_ne cfg hrc]
  have hfo := h0.1.frameOut hf0 hh0 hcB
  have qfo : Inv2 n D (fun x => X x ∨ x = f.cls) Q (r0.1.frameOut f) :=
    q0.1.frameOut (fun g hg hid => h0.1.idsNodup.eq_of_id hg hf0 hid)
  change Inv2 n D X Q ((finallyStep td f.cls f.excl (r0.1.frameOut f) (later r0.2 none)).1.log _) ∧
    Eff s ((finallyStep td f.cls f.excl (r0.1.frameOut f) (later r0.2 none)).1.log _) ∧
    Down s ((finallyStep td f.cls f.excl (r0.1.frameOut f) (later r0.2 none)).1.log _)
  have efo : Eff r0.1 (r0.1.frameOut f) := ⟨rfl, rfl, rfl, fun _ hx => hx⟩
  have dfo : Down r0.1 (r0.1.frameOut f) := by
    intro k hk'
    simp only [St.frameOut] at hk'
    by_cases hkc : k = f.cls
    · subst hkc; simpa using hk'
    · simpa [hkc] using hk'
  -- the `finally:` of InstanceManager.request
  have key : Inv2 n D X Q (finallyStep td f.cls f.excl (r0.1.frameOut f) (later r0.2 none)).1 ∧
      Eff (r0.1.frameOut f) (finallyStep td f.cls f.excl (r0.1.frameOut f) (later r0.2 none)).1 ∧
      Down (r0.1.frameOut f) (finallyStep td f.cls f.excl (r0.1.frameOut f) (later r0.2 none)).1 := by
    unfold finallyStep
    have hordc : ((r0.1.frameOut f).mgrs f.cls).inst ≠ none → f.cls ∈ (r0.1.frameOut f).order ∨ X f.cls := by
      intro hi
      have : (r0.1.mgrs f.cls).inst ≠ none := by simpa [St.frameOut] using hi
      exact q0.1.ord f.cls this
    split
    · rename_i hcond
      split
      · have := h2 n D (fun x => X x ∨ x = f.cls) Q B f.cls (r0.1.frameOut f) hk hn hfo hb qfo
        refine ⟨this.1.unexempt ?_ ?_, this.2.1, this.2.2.1⟩
        · intro _ hi; exact absurd this.2.2.2 hi
        · intro hi; exact absurd this.2.2.2 hi
      · rename_i hna
        have hno : ((r0.1.frameOut f).mgrs f.cls).inst = none := by
          simpa [St.alive, St.mgr] using hna
        refine ⟨qfo.unexempt ?_ ?_, Eff.refl _, Down.refl _⟩
        · intro _ hi; exact absurd hno hi
        · intro hi; exact absurd hno hi
    · rename_i hcond
      refine ⟨qfo.unexempt ?_ hordc, Eff.refl _, Down.refl _⟩
      intro hka _ hu
      exfalso
      apply hcond
      have : ((r0.1.frameOut f).mgr f.cls).users = 0 := hu
      simp [hka, this]
  generalize finallyStep td f.cls f.excl (r0.1.frameOut f) (later r0.2 none) = r2 at key ⊢
  have hl := same2_log r2.1 (.released f.dep f.cls)
  exact ⟨key.1.same hl.1, ((q0.2.1.trans efo).trans key.2.1).trans (Eff.of_sc hl.2),
    ((q0.2.2.trans dfo).trans key.2.2).trans (Down.of_mgrs hl.1.mgrs)⟩

end

end Ctx
