import TbotVerif.Props.CtxLeak5
set_option linter.unusedSimpArgs false
set_option linter.unusedVariables false
/-! At a point outside every `with ctx` where no request is open and nothing is alive, running a
    program leaves nothing alive. -/
namespace Ctx

section
variable (cfg : Cfg)

/-- nothing is alive -/
def Quiet (s : St) : Prop := ∀ c, (s.mgrs c).inst = none

theorem Quiet.inv2 {s : St} (hq : Quiet s) (n : Nat) : Inv2 n Fa Fa [] s → True := fun _ => trivial

/-- with keep-alive off: by the second invariant -/
theorem quiet_of_kaOff (hwf : cfg.depsBelow) {s s' : St} (h' : Inv [] s') (q' : Inv2 cfg.n Fa Fa [] s')
    (hk : s'.keepAlive = false) : Quiet s' := q'.noneAlive h' hk

mutual
theorem exec_quiet (hwf : cfg.depsBelow) : ∀ (p : Stmt) (s : St),
    p.classesBelow cfg.n = true → Inv [] s → Inv2 cfg.n Fa Fa [] s → s.openCtx = 0 → Quiet s →
    Quiet (exec cfg p s).1
  | p, s, hcb, h, hI, ho, hq => by
    by_cases hk : s.keepAlive = false
    · -- keep-alive off: no class may dangle, no frame is pending
      have h1 := exec_inv cfg hwf p s h
      have q1 := exec_2 cfg hwf p s Fa [] hcb h hI
      exact q1.1.noneAlive h1.1 (by rw [q1.2.keepAlive]; exact hk)
    · have hk' : s.keepAlive = true := by simpa using hk
      match p, hcb with
      | .req c reset excl roe body, hcb =>
        rw [exec]
        have : (ops cfg cfg.n).reqEnter false c reset excl roe s =
            ((s.newExc .ctx).1, .inr (s.newExc .ctx).2) := by
          cases hn : cfg.n with
          | zero =>
            simp only [Stmt.classesBelow, Bool.and_eq_true, decide_eq_true_eq] at hcb
            omega
          | succ k =>
            simp only [ops, reqEnterF, hk', ho, beq_self_eq_true, Bool.and_self, if_true]
        rw [this]
        intro c'
        exact hq c'
      | .ctx body, hcb =>
        simp only [Stmt.classesBelow] at hcb
        rw [exec]
        have hx1 : Ext s ({ (s.log .ctxEnter) with openCtx := (s.log .ctxEnter).openCtx + 1 } : St) :=
          ⟨rfl, rfl, rfl, rfl, rfl, [.ctxEnter], by simp [Ev.quiet], by simp [St.log]⟩
        have hI1 : Inv2 cfg.n Fa Fa [] ({ (s.log .ctxEnter) with openCtx := (s.log .ctxEnter).openCtx + 1 } : St) :=
          hI.same ⟨rfl, rfl, rfl, rfl⟩
        have hb := execBlock_inv cfg hwf body _ (h.ext hx1)
        have qb := execBlock_2 cfg hwf body _ Fa [] hcb (h.ext hx1) hI1
        generalize execBlock cfg body ({ (s.log .ctxEnter) with openCtx := (s.log .ctxEnter).openCtx + 1 } : St) = rb at hb qb ⊢
        -- the outermost exit of a keep-alive context
        have hkb : rb.1.keepAlive = true := by rw [qb.2.keepAlive]; exact hk'
        have hob : rb.1.openCtx = 1 := by
          have : rb.1.openCtx = s.openCtx + 1 := qb.2.openCtx
          omega
        have hx2 : Ext rb.1 (rb.1.log .ctxBody) := ext_log (by simp [Ev.quiet])
        have hIb : Inv2 cfg.n Fa Fa [] (rb.1.log .ctxBody) := qb.1.same (same2_log rb.1 .ctxBody).1
        have hall := tdLoop_all (ops_spec cfg hwf cfg.n).1 (ops_2 cfg hwf cfg.n).1 cfg.n (Nat.le_refl _)
          Fa [] (rb.1.log .ctxBody).order.reverse (rb.1.log .ctxBody) none (hb.1.ext hx2) hIb hkb
        have hl := tdLoop_2 (ops_spec cfg hwf cfg.n).1 (ops_2 cfg hwf cfg.n).1
          (fun s c => s.alive c && s.keepAlive) (fun s c hh => by simp at hh; exact hh.1) cfg.n
          (Nat.le_refl _) Fa [] (rb.1.log .ctxBody).order.reverse (rb.1.log .ctxBody) none (hb.1.ext hx2) hIb
        have hce : ctxExit cfg (rb.1.log .ctxBody) =
            ({ (tdLoop (ops cfg cfg.n).teardown (fun s c => s.alive c && s.keepAlive)
                  (rb.1.log .ctxBody).order.reverse (rb.1.log .ctxBody) none).1 with
                openCtx := (tdLoop (ops cfg cfg.n).teardown (fun s c => s.alive c && s.keepAlive)
                  (rb.1.log .ctxBody).order.reverse (rb.1.log .ctxBody) none).1.openCtx - 1 },
             (tdLoop (ops cfg cfg.n).teardown (fun s c => s.alive c && s.keepAlive)
                  (rb.1.log .ctxBody).order.reverse (rb.1.log .ctxBody) none).2) := by
          unfold ctxExit
          have : (rb.1.log .ctxBody).openCtx = 1 := hob
          simp [this]
        rw [hce]
        generalize tdLoop (ops cfg cfg.n).teardown (fun s c => s.alive c && s.keepAlive)
          (rb.1.log .ctxBody).order.reverse (rb.1.log .ctxBody) none = r at hall hl ⊢
        have hs4 := logLeave_same (({ r.1 with openCtx := r.1.openCtx - 1 } : St).log .ctxLeave, later rb.2 r.2)
        intro c'
        rw [hs4.1.mgrs]
        show (r.1.mgrs c').inst = none
        apply Classical.byContradiction
        intro hne
        -- an alive class was alive before the loop, hence in the order, hence torn down
        have hbefore := hl.2.2 c' hne
        rcases hIb.ord c' hbefore with ho' | hf
        · exact hne (hall c' (List.mem_reverse.mpr ho'))
        · exact hf
      | .reconf ka roe body, hcb =>
        simp only [Stmt.classesBelow] at hcb
        rw [exec]
        have hx1 : Ext s ({ s with keepAlive := ka.getD s.keepAlive, roeDefault := roe.getD s.roeDefault } : St) :=
          ⟨rfl, rfl, rfl, rfl, rfl, [], by simp, by simp⟩
        have hI1 : Inv2 cfg.n Fa Fa [] ({ s with keepAlive := ka.getD s.keepAlive, roeDefault := roe.getD s.roeDefault } : St) :=
          ⟨hI.dh, fun _ c hi _ => absurd (hq c) hi, hI.ord, hI.bnd⟩
        have hqb := execBlock_quiet hwf body _ hcb (h.ext hx1) hI1 ho hq
        have hb := execBlock_inv cfg hwf body _ (h.ext hx1)
        generalize execBlock cfg body ({ s with keepAlive := ka.getD s.keepAlive, roeDefault := roe.getD s.roeDefault } : St) = rb at hb hqb ⊢
        -- keep-alive was on before the block: its `finally` only restores the flags
        have hre : reconfExit cfg s.keepAlive s.roeDefault ka rb.1 =
            ({ rb.1 with keepAlive := s.keepAlive, roeDefault := s.roeDefault }, none) := by
          unfold reconfExit
          simp [hk']
        rw [hre]
        have hs4 := logLeave_same (({ rb.1 with keepAlive := s.keepAlive, roeDefault := s.roeDefault } : St), later rb.2 none)
        intro c'
        rw [hs4.1.mgrs]
        exact hqb c'
      | .try_ body, hcb =>
        simp only [Stmt.classesBelow] at hcb
        rw [exec]
        have hqb := execBlock_quiet hwf body s hcb h hI ho hq
        generalize execBlock cfg body s = rb at hqb ⊢
        cases he : rb.2 with
        | some e => exact hqb
        | none => exact hqb
      | .raise, _ => rw [exec]; exact hq
      | .skip, _ => rw [exec]; exact hq
      | .td c, _ =>
        rw [exec]
        have : s.alive c = false := by simp [St.alive, St.mgr, hq c]
        simp only [this, Bool.false_eq_true, if_false]
        exact hq

theorem execBlock_quiet (hwf : cfg.depsBelow) : ∀ (b : Block) (s : St),
    b.classesBelow cfg.n = true → Inv [] s → Inv2 cfg.n Fa Fa [] s → s.openCtx = 0 → Quiet s →
    Quiet (execBlock cfg b s).1
  | .nil, s, _, _, _, _, hq => by rw [execBlock]; exact hq
  | .cons p rest, s, hcb, h, hI, ho, hq => by
    simp only [Block.classesBelow, Bool.and_eq_true] at hcb
    rw [execBlock]
    have h1 := exec_inv cfg hwf p s h
    have q1 := exec_2 cfg hwf p s Fa [] hcb.1 h hI
    have hq1 := exec_quiet hwf p s hcb.1 h hI ho hq
    generalize exec cfg p s = r at h1 q1 hq1 ⊢
    cases he : r.2 with
    | some e => exact hq1
    | none =>
      exact execBlock_quiet hwf rest r.1 hcb.2 h1.1 q1.1 (by rw [q1.2.openCtx]; exact ho) hq1
end

end

end Ctx
