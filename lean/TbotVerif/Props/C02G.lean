import TbotVerif.Props.ReProps
import TbotVerif.Spec.Guard
/-! Regex prompts behind a leading look-behind assertion (`\b`, `^` under MULTILINE,
    `(?<=[..])`, `(?<![..])`): `Re.gsearch` finds the LEAST offset whose previous byte satisfies
    the guard and at which the expression matches; for the end-anchored prompt test this is the
    least offset from which the rest of the buffer is in the language.  The point of the
    look-behind: the byte before the match is part of the decision, so the test cannot be made on
    a tail of the buffer alone. -/

namespace Re

/-- the byte before offset `j` of `s`, when `prev` is the byte before `s` -/
def prevAt (prev : Option Byte) (s : Bytes) : Nat → Option Byte
  | 0 => prev
  | j + 1 => s[j]?

theorem prevAt_cons (prev : Option Byte) (c : Byte) (t : Bytes) (j : Nat) :
    prevAt prev (c :: t) (j + 1) = prevAt (some c) t j := by
  cases j <;> simp [prevAt]

/-- guarded match at offset `j` -/
def gmatchAt (g : Guard) (r : Re) (prev : Option Byte) (s : Bytes) (j : Nat) : Option Nat :=
  if g.ok (prevAt prev s j) then matchAt r (s.drop j) else none

theorem gmatchAt_cons (g : Guard) (r : Re) (prev : Option Byte) (c : Byte) (t : Bytes) (j : Nat) :
    gmatchAt g r prev (c :: t) (j + 1) = gmatchAt g r (some c) t j := by
  simp only [gmatchAt, prevAt_cons, List.drop_succ_cons]

theorem gsearchFrom_some (g : Guard) (r : Re) : ∀ (s : Bytes) (i : Nat) (prev : Option Byte) (a e : Nat),
    gsearchFrom g r i prev s = some (a, e) →
    ∃ j, a = i + j ∧ j ≤ s.length ∧ a ≤ e ∧ gmatchAt g r prev s j = some (e - a)
      ∧ ∀ j', j' < j → gmatchAt g r prev s j' = none := by
  intro s
  induction s with
  | nil =>
    intro i prev a e h
    unfold gsearchFrom at h
    split at h
    · rename_i hg
      cases hm : matchAt r [] with
      | none => rw [hm] at h; simp at h
      | some n =>
        rw [hm] at h
        simp only [Option.map_some, Option.some.injEq, Prod.mk.injEq] at h
        obtain ⟨rfl, rfl⟩ := h
        refine ⟨0, rfl, Nat.le_refl _, Nat.le_add_right _ _, ?_, fun j' hj => by omega⟩
        simp only [gmatchAt, prevAt, hg, if_true, List.drop_nil, hm, Nat.add_sub_cancel_left]
    · simp at h
  | cons c t ih =>
    intro i prev a e h
    unfold gsearchFrom at h
    have h0 : gmatchAt g r prev (c :: t) 0 = (if g.ok prev then matchAt r (c :: t) else none) := by
      simp only [gmatchAt, prevAt, List.drop_zero]
    rw [← h0] at h
    cases hm : gmatchAt g r prev (c :: t) 0 with
    | some n =>
      rw [hm] at h
      simp only [Option.some.injEq, Prod.mk.injEq] at h
      obtain ⟨rfl, rfl⟩ := h
      refine ⟨0, rfl, Nat.zero_le _, Nat.le_add_right _ _, ?_, fun j' hj => by omega⟩
      simp only [hm, Nat.add_sub_cancel_left]
    | none =>
      rw [hm] at h
      obtain ⟨j, rfl, hj, hae, hmj, hleast⟩ := ih (i + 1) (some c) a e h
      refine ⟨j + 1, by omega, by simp only [List.length_cons]; omega, hae, ?_, ?_⟩
      · rw [gmatchAt_cons]; exact hmj
      · intro j' hj'
        cases j' with
        | zero => exact hm
        | succ j'' => rw [gmatchAt_cons]; exact hleast j'' (by omega)

theorem gsearchFrom_none (g : Guard) (r : Re) : ∀ (s : Bytes) (i : Nat) (prev : Option Byte),
    gsearchFrom g r i prev s = none → ∀ j, j ≤ s.length → gmatchAt g r prev s j = none := by
  intro s
  induction s with
  | nil =>
    intro i prev h j hj
    have : j = 0 := by simpa using hj
    subst this
    unfold gsearchFrom at h
    simp only [gmatchAt, prevAt, List.drop_nil]
    split at h
    · rename_i hg
      simp only [hg, if_true]
      cases hm : matchAt r [] with
      | none => rfl
      | some n => rw [hm] at h; simp at h
    · rename_i hg
      simp [hg]
  | cons c t ih =>
    intro i prev h j hj
    unfold gsearchFrom at h
    have h0 : gmatchAt g r prev (c :: t) 0 = (if g.ok prev then matchAt r (c :: t) else none) := by
      simp only [gmatchAt, prevAt, List.drop_zero]
    rw [← h0] at h
    cases hm : gmatchAt g r prev (c :: t) 0 with
    | some n => rw [hm] at h; simp at h
    | none =>
      rw [hm] at h
      cases j with
      | zero => exact hm
      | succ j' =>
        simp only [List.length_cons] at hj
        rw [gmatchAt_cons]
        exact ih (i + 1) (some c) h j' (by omega)

end Re

namespace C02G
open GuardPrompt Spec

/-- "the data from offset `j` on is the prompt": the byte before `j` satisfies the look-behind
    and the rest of the buffer is in the language of the expression -/
def GuardedAt (g : Re.Guard) (r : Re) (buf : Bytes) (j : Nat) : Prop :=
  g.ok (Re.prevAt none buf j) = true ∧ Re.L r (buf.drop j)

theorem gmatchAt_anchored (g : Re.Guard) (r : Re) (hr : r.noEos = true) (buf : Bytes) (j : Nat) :
    (Re.gmatchAt g (.seq r .eos) none buf j).isSome = true ↔ GuardedAt g r buf j := by
  simp only [Re.gmatchAt, GuardedAt]
  cases hg : g.ok (Re.prevAt none buf j) with
  | false => simp
  | true => simp only [if_true, true_and]; exact Re.matchAt_anchored r hr _

/-- **the guarded, end-anchored prompt test**: `promptEnd ((?<guard)r\Z) buf = some i` iff `i` is
    the LEAST offset at which the look-behind holds and from which the rest of the buffer is in
    the language of `r` -/
theorem gPromptEnd_iff (g : Re.Guard) (r : Re) (hr : r.noEos = true) (buf : Bytes) (i : Nat) :
    gPromptEnd g r buf = some i ↔
      i ≤ buf.length ∧ GuardedAt g r buf i ∧ ∀ j, j < i → ¬ GuardedAt g r buf j := by
  simp only [gPromptEnd, Re.gsearch]
  constructor
  · intro h
    cases hs : Re.gsearchFrom g (.seq r .eos) 0 none buf with
    | none => rw [hs] at h; simp at h
    | some v =>
      obtain ⟨a, e⟩ := v
      rw [hs] at h
      simp only [Option.map_some, Option.some.injEq] at h
      subst h
      obtain ⟨j, hj, hjl, _, hm, hleast⟩ := Re.gsearchFrom_some _ _ buf 0 none a e hs
      have : j = a := by omega
      subst this
      refine ⟨hjl, (gmatchAt_anchored g r hr buf _).mp (by rw [hm]; rfl), fun j' hj' hl => ?_⟩
      have := (gmatchAt_anchored g r hr buf j').mpr hl
      rw [hleast j' hj'] at this
      simp at this
  · rintro ⟨hi, hl, hleast⟩
    cases hs : Re.gsearchFrom g (.seq r .eos) 0 none buf with
    | none =>
      have := Re.gsearchFrom_none _ _ buf 0 none hs i hi
      have h2 := (gmatchAt_anchored g r hr buf i).mpr hl
      rw [this] at h2; simp at h2
    | some v =>
      obtain ⟨a, e⟩ := v
      simp only [Option.map_some, Option.some.injEq]
      obtain ⟨j, hj, hjl, _, hm, hl2⟩ := Re.gsearchFrom_some _ _ buf 0 none a e hs
      have : j = a := by omega
      subst this
      rcases Nat.lt_trichotomy j i with hlt | heq | hgt
      · exact absurd ((gmatchAt_anchored g r hr buf j).mp (by rw [hm]; rfl)) (hleast j hlt)
      · exact heq
      · have h2 := (gmatchAt_anchored g r hr buf i).mpr hl
        rw [hl2 i hgt] at h2; simp at h2

/-- no prompt is reported iff the look-behind and the language never hold together -/
theorem gPromptEnd_none (g : Re.Guard) (r : Re) (hr : r.noEos = true) (buf : Bytes) :
    gPromptEnd g r buf = none ↔ ∀ j, j ≤ buf.length → ¬ GuardedAt g r buf j := by
  constructor
  · intro h j hj hl
    simp only [gPromptEnd, Re.gsearch, Option.map_eq_none_iff] at h
    have := Re.gsearchFrom_none _ _ buf 0 none h j hj
    have h2 := (gmatchAt_anchored g r hr buf j).mpr hl
    rw [this] at h2; simp at h2
  · intro h
    cases hp : gPromptEnd g r buf with
    | none => rfl
    | some i =>
      have := (gPromptEnd_iff g r hr buf i).mp hp
      exact absurd this.2.1 (h i this.1)

/-- **why the tail is not enough** (the shape of seeded change C02-J): with the prompt
    `(?<![a-z])s> ` the buffer `bas> ` does not end with the prompt although its last
    `maxWidth` bytes, looked at alone, do. -/
example :
    let g : Re.Guard := ⟨true, [(97, 122)], true⟩
    let r : Re := Re.ofBytes [115, 62, 32]
    let buf : Bytes := [98, 97, 115, 62, 32]
    gPromptEnd g r buf = none ∧
    gPromptEnd g r (buf.drop (buf.length - r.maxWidth)) = some 0 := by decide

/-! ### the loop -/

/-- **the loop returns at the first delivery after which the prompt test holds, and only then**:
    for EVERY prompt test `pe`, start buffer and list of pieces. -/
theorem rupG_some (pe : Bytes → Option Nat) : ∀ (ds : List Bytes) (buf b : Bytes) (k : Nat),
    rupG pe buf ds = some (b, k) →
      k ≤ ds.length ∧ hitsOnlyAtEnd (fun x => (pe x).isSome) buf (ds.take k) = true ∧
      ∃ n, pe (buf ++ (ds.take k).flatten) = some n ∧ b = (buf ++ (ds.take k).flatten).take n := by
  intro ds
  induction ds with
  | nil => intro buf b k h; simp [rupG] at h
  | cons d ds ih =>
    intro buf b k h
    unfold rupG at h
    cases hp : pe (buf ++ d) with
    | some n =>
      rw [hp] at h
      simp only [Option.some.injEq, Prod.mk.injEq] at h
      obtain ⟨rfl, rfl⟩ := h
      refine ⟨by simp, ?_, n, ?_, ?_⟩
      · simp [hitsOnlyAtEnd, hp]
      · simpa using hp
      · simp
    | none =>
      rw [hp] at h
      cases hr : rupG pe (buf ++ d) ds with
      | none => rw [hr] at h; simp at h
      | some p =>
        obtain ⟨b', k'⟩ := p
        rw [hr] at h
        simp only [Option.map_some, Option.some.injEq, Prod.mk.injEq] at h
        obtain ⟨rfl, rfl⟩ := h
        obtain ⟨hk, hh, n, hn, hb⟩ := ih (buf ++ d) b' k' hr
        refine ⟨by simp only [List.length_cons]; omega, ?_, n, ?_, ?_⟩
        · simp only [List.take_succ_cons]
          cases hds : ds.take k' with
          | nil => rw [hds] at hh; simp [hitsOnlyAtEnd] at hh
          | cons e es =>
            rw [hds] at hh
            simp only [hitsOnlyAtEnd, hp, Option.isSome_none, Bool.not_false, Bool.true_and]
            exact hh
        · simpa [List.take_succ_cons, List.append_assoc] using hn
        · simpa [List.take_succ_cons, List.append_assoc] using hb

theorem rupG_none (pe : Bytes → Option Nat) : ∀ (ds : List Bytes) (buf : Bytes),
    rupG pe buf ds = none → neverHits (fun x => (pe x).isSome) buf ds = true := by
  intro ds
  induction ds with
  | nil => intro buf _; rfl
  | cons d ds ih =>
    intro buf h
    unfold rupG at h
    cases hp : pe (buf ++ d) with
    | some n => rw [hp] at h; simp at h
    | none =>
      rw [hp] at h
      simp only [Option.map_eq_none_iff] at h
      simp only [neverHits, hp, Option.isSome_none, Bool.not_false, Bool.true_and]
      exact ih _ h

/-- **C02 for guarded prompts, on the model**: the observation of the loop satisfies `Spec.C02G`
    for every look-behind, expression and fragmentation of the stream. -/
theorem spec_holds (c : GuardPrompt.Case) : Spec.C02G c (run c) = true := by
  unfold run
  cases h : rupG (gPromptEnd c.g c.r) [] c.pieces with
  | none =>
    have := rupG_none _ c.pieces [] h
    show (c.pieces.length == c.pieces.length && neverHits _ [] c.pieces) = true
    rw [this]; simp
  | some p =>
    obtain ⟨b, k⟩ := p
    obtain ⟨hk, hh, n, hn, hb⟩ := rupG_some _ c.pieces [] b k h
    simp only [List.nil_append] at hn hb
    show (decide (k ≤ c.pieces.length) && hitsOnlyAtEnd _ [] (c.pieces.take k) &&
      (match gPromptEnd c.g c.r (c.pieces.take k).flatten with
       | some n => text b == text ((c.pieces.take k).flatten.take n)
       | none => false)) = true
    rw [hh, hn, hb]
    simp [hk]

/-- **returned ⇒ the data ends with the prompt, for the first time, and the result is the text
    before it** — stated with the language of the expression and the look-behind -/
theorem returns_at_prompt (c : GuardPrompt.Case) (hr : c.r.noEos = true) (out : List Char) (k : Nat)
    (h : run c = .text out k) :
    ∃ n, n ≤ ((c.pieces.take k).flatten).length ∧ GuardedAt c.g c.r (c.pieces.take k).flatten n ∧
      (∀ j, j < n → ¬ GuardedAt c.g c.r (c.pieces.take k).flatten j) ∧
      out = text ((c.pieces.take k).flatten.take n) := by
  unfold run at h
  cases hh : rupG (gPromptEnd c.g c.r) [] c.pieces with
  | none => rw [hh] at h; simp at h
  | some p =>
    obtain ⟨b, k'⟩ := p
    rw [hh] at h
    simp only [Obs.text.injEq] at h
    obtain ⟨rfl, rfl⟩ := h
    obtain ⟨_, _, n, hn, hb⟩ := rupG_some _ c.pieces [] b k' hh
    simp only [List.nil_append] at hn hb
    obtain ⟨h1, h2, h3⟩ := (gPromptEnd_iff c.g c.r hr _ n).mp hn
    exact ⟨n, h1, h2, h3, by rw [hb]⟩

/-- **timed out ⇒ after no delivery did the data end with the prompt** -/
theorem timeout_never_at_prompt (c : GuardPrompt.Case) (hr : c.r.noEos = true) (k : Nat) (h : run c = .timeout k) :
    ∀ m, 0 < m → m ≤ c.pieces.length → ∀ j, j ≤ ((c.pieces.take m).flatten).length →
      ¬ GuardedAt c.g c.r (c.pieces.take m).flatten j := by
  unfold run at h
  cases hh : rupG (gPromptEnd c.g c.r) [] c.pieces with
  | some p => rw [hh] at h; simp at h
  | none =>
    have hnv := rupG_none _ c.pieces [] hh
    have key : ∀ (ds : List Bytes) (buf : Bytes), neverHits (fun x => (gPromptEnd c.g c.r x).isSome) buf ds = true →
        ∀ m, 0 < m → m ≤ ds.length → gPromptEnd c.g c.r (buf ++ (ds.take m).flatten) = none := by
      intro ds
      induction ds with
      | nil => intro buf _ m hm hml; simp at hml; omega
      | cons d ds ih =>
        intro buf hn m hm hml
        simp only [neverHits, Bool.and_eq_true, Bool.not_eq_true', Option.isSome_eq_false_iff, Option.isNone_iff_eq_none] at hn
        cases m with
        | zero => omega
        | succ m' =>
          cases m' with
          | zero => simpa using hn.1
          | succ m'' =>
            have := ih (buf ++ d) hn.2 (m'' + 1) (by omega) (by simp only [List.length_cons] at hml; omega)
            simpa [List.take_succ_cons, List.append_assoc] using this
    intro m hm hml j hj
    have := key c.pieces [] hnv m hm hml
    simp only [List.nil_append] at this
    exact (gPromptEnd_none c.g c.r hr _).mp this j hj

/-- non-vacuity: a stream on which a tail-only test would return too early (`bash> ` is not the
    prompt `(?<![a-z])s> `), cut inside the prompt; the loop returns at the last piece -/
example :
    run ⟨⟨true, [(97, 122)], true⟩, Re.ofBytes [115, 62, 32],
         [[101, 99, 104, 111, 32, 98, 97], [115, 104, 62, 32], [120, 10, 115, 62], [32]]⟩
      = .text "echo bash> x\n".toList 4 := by decide

end C02G
