import TbotVerif.Spec.Log
/-! Lemmas about the printer of `EventIO` (`splitFrags` / `printFrags`), its character-level
    form `emit`, the batch specification `render`, and the per-write normalisation. -/

namespace Log

/-- character-level form of the fragment loop: the prefix is due before the first character
    after a CR / LF (or at the very beginning) -/
def emit (pfx : Str) : Bool → Str → Str × Bool
  | nl, [] => ([], nl)
  | nl, c :: t =>
    let r := emit pfx (isSep c) t
    ((if nl then pfx else []) ++ c :: r.1, r.2)

theorem isSepFrag_single (c : Char) : isSepFrag [c] = isSep c := by
  simp [isSepFrag, isSep]

theorem isSepFrag_nil : isSepFrag [] = false := by
  simp [isSepFrag]

theorem isSepFrag_cons_cons (c d : Char) (f : Str) : isSepFrag (c :: d :: f) = false := by
  simp [isSepFrag]

theorem isSepFrag_of_head {d : Char} {f : Str} (h : isSep d = false) : isSepFrag (d :: f) = false := by
  cases f with
  | nil => rw [isSepFrag_single]; exact h
  | cons e f => exact isSepFrag_cons_cons d e f

/-- the fragment loop over `re.split` fragments is the character-level printer -/
theorem printFrags_split (pfx : Str) : ∀ (s : Str) (nl : Bool),
    printFrags pfx nl (splitFrags s) = emit pfx nl s := by
  intro s
  induction s with
  | nil => intro nl; rfl
  | cons c t ih =>
    intro nl
    unfold splitFrags
    by_cases hc : isSep c = true
    · simp only [hc, if_true]
      simp only [printFrags, emit, isSepFrag_single, hc, ih true]
      simp
    · have hc' : isSep c = false := by simpa using hc
      simp only [hc', Bool.false_eq_true, if_false]
      have iht := ih false
      cases hs : splitFrags t with
      | nil =>
        rw [hs] at iht
        simp only [printFrags, emit, isSepFrag_single, hc'] at *
        rw [← iht]; simp
      | cons f fs =>
        rw [hs] at iht
        cases f with
        | nil =>
          simp only [printFrags, emit, isSepFrag_single, isSepFrag_nil, hc'] at *
          rw [← iht]; simp
        | cons d f =>
          by_cases hd : isSep d = true
          · simp only [hd, if_true]
            simp only [printFrags, emit, isSepFrag_single, hc'] at *
            rw [← iht]; simp
          · have hd' : isSep d = false := by simpa using hd
            simp only [hd', Bool.false_eq_true, if_false]
            simp only [printFrags, emit, isSepFrag_cons_cons, isSepFrag_of_head hd', hc'] at *
            rw [← iht]; simp

theorem emit_append (pfx : Str) : ∀ (a b : Str) (nl : Bool),
    emit pfx nl (a ++ b) =
      ((emit pfx nl a).1 ++ (emit pfx (emit pfx nl a).2 b).1, (emit pfx (emit pfx nl a).2 b).2) := by
  intro a
  induction a with
  | nil => intro b nl; simp [emit]
  | cons c t ih =>
    intro b nl
    simp only [List.cons_append, emit, ih b (isSep c)]
    simp

/-- after printing `s` a prefix is due iff `s` ends in CR / LF (or nothing was printed) -/
theorem emit_nl (pfx : Str) : ∀ (s : Str) (nl : Bool),
    (emit pfx nl s).2 = (match s.getLast? with | none => nl | some c => isSep c) := by
  intro s
  induction s with
  | nil => intro nl; rfl
  | cons c t ih =>
    intro nl
    simp only [emit, ih (isSep c)]
    cases t with
    | nil => simp
    | cons d t =>
      rw [List.getLast?_cons_cons]
      obtain ⟨x, hx⟩ : ∃ x, (d :: t).getLast? = some x := by
        cases h : (d :: t).getLast? with
        | none => simp at h
        | some x => exact ⟨x, rfl⟩
      rw [hx]

/-- `render` (batch, line-based) is what the character-level printer writes from a line start -/
theorem emit_lines (pfx : Str) : ∀ (s : Str) (nl : Bool),
    (emit pfx nl s).1 =
      (match linesKeep s with
       | [] => []
       | l :: ls => (if nl then pfx else []) ++ l ++ ls.flatMap (pfx ++ ·)) := by
  intro s
  induction s with
  | nil => intro nl; rfl
  | cons c t ih =>
    intro nl
    unfold linesKeep
    by_cases hc : isSep c = true
    · simp only [emit, hc, if_true, ih true]
      cases linesKeep t <;> simp
    · have hc' : isSep c = false := by simpa using hc
      simp only [emit, hc', Bool.false_eq_true, if_false, ih false]
      cases linesKeep t <;> simp

theorem render_eq_emit' (pfx s : Str) : render pfx s = (emit pfx true s).1 := by
  rw [emit_lines, render]
  cases linesKeep s <;> simp

theorem openEnd_eq (pfx s : Str) : openEnd s = !(emit pfx true s).2 := by
  rw [emit_nl, openEnd]
  cases s.getLast? <;> simp

/-! ### normalisation -/

theorem replaceGo_nil_of_le (pat rep : Str) : ∀ (s : Str) (skip : Nat), s.length ≤ skip →
    replaceGo pat rep skip s = [] := by
  intro s
  induction s with
  | nil => intro skip _; cases skip <;> rfl
  | cons c t ih =>
    intro skip h
    cases skip with
    | zero => simp at h
    | succ k => simp only [replaceGo]; exact ih k (by simpa using h)

/-- a string without any occurrence of some character of `pat` is left alone -/
theorem replaceGo_id (pat rep : Str) (x : Char) (hx : x ∈ pat) : ∀ (s : Str), x ∉ s →
    replaceGo pat rep 0 s = s := by
  intro s
  induction s with
  | nil => intro _; rfl
  | cons c t ih =>
    intro h
    have hc : x ≠ c := fun e => h (e ▸ List.mem_cons_self)
    have ht : x ∉ t := fun e => h (List.mem_cons_of_mem _ e)
    simp only [replaceGo]
    have hp : pat.isPrefixOf (c :: t) = false := by
      cases hpre : pat.isPrefixOf (c :: t) with
      | false => rfl
      | true =>
        exfalso
        have := List.isPrefixOf_iff_prefix.mp hpre
        exact h (this.subset hx)
    simp [hp, ih ht]

/-- text ends with a line feed -/
def EndsLf (s : Str) : Prop := ∃ r, s = r ++ ['\n']

/-- replacing keeps a final line feed, provided a pattern that ends in a line feed is
    replaced by something that ends in a line feed -/
theorem replaceGo_endsLf (pat rep : Str) (hne : pat ≠ [])
    (hrep : pat.getLast? = some '\n' → EndsLf rep) : ∀ (s : Str) (skip : Nat), skip ≤ s.length →
    EndsLf (replaceGo pat rep skip (s ++ ['\n'])) := by
  intro s
  induction s with
  | nil =>
    intro skip h
    have : skip = 0 := by simpa using h
    subst this
    simp only [List.nil_append, replaceGo]
    by_cases hp : pat.isPrefixOf ['\n'] = true
    · simp only [hp, if_true]
      have hpre := List.isPrefixOf_iff_prefix.mp hp
      have hpat : pat = ['\n'] := by
        cases pat with
        | nil => exact absurd rfl hne
        | cons a p =>
          obtain ⟨r, hr⟩ := hpre
          cases p with
          | nil => simp at hr; rw [hr.1]
          | cons b p => simp at hr
      subst hpat
      obtain ⟨r, hr⟩ := hrep rfl
      exact ⟨r, by simp [hr]⟩
    · simp only [hp]
      exact ⟨[], rfl⟩
  | cons c t ih =>
    intro skip h
    cases skip with
    | succ k =>
      simp only [List.cons_append, replaceGo]
      exact ih k (by simpa using h)
    | zero =>
      simp only [List.cons_append, replaceGo]
      by_cases hp : pat.isPrefixOf (c :: (t ++ ['\n'])) = true
      · simp only [hp, if_true]
        have hpre := List.isPrefixOf_iff_prefix.mp hp
        have hlen : pat.length ≤ t.length + 2 := by
          have := hpre.length_le; simpa using this
        by_cases hfull : pat.length = t.length + 2
        · -- the match covers the final line feed
          have hpat : pat = c :: (t ++ ['\n']) := by
            apply hpre.eq_of_length
            simp [hfull]
          have hlast : pat.getLast? = some '\n' := by
            rw [hpat, ← List.cons_append, List.getLast?_append]
            simp
          obtain ⟨r, hr⟩ := hrep hlast
          have hnil : replaceGo pat rep (pat.length - 1) (t ++ ['\n']) = [] :=
            replaceGo_nil_of_le pat rep _ _ (by simp [hfull])
          exact ⟨r, by rw [hnil, hr]; simp⟩
        · obtain ⟨r, hr⟩ := ih (pat.length - 1) (by omega)
          exact ⟨rep ++ r, by rw [hr]; simp⟩
      · simp only [hp]
        obtain ⟨r, hr⟩ := ih 0 (by omega)
        exact ⟨c :: r, by rw [hr]; simp⟩

theorem replaceAll_endsLf (pat rep : Str) (hne : pat ≠ [])
    (hrep : pat.getLast? = some '\n' → EndsLf rep) (s : Str) (h : EndsLf s) :
    EndsLf (replaceAll pat rep s) := by
  obtain ⟨r, rfl⟩ := h
  exact replaceGo_endsLf pat rep hne hrep r 0 (by omega)

/-- `writeln` always terminates the stored line: normalisation keeps the final line feed -/
theorem normalise_endsLf (s : Str) (h : EndsLf s) : EndsLf (normalise s) := by
  unfold normalise
  apply replaceAll_endsLf _ _ (by simp) (by simp)
  apply replaceAll_endsLf _ _ (by simp) (fun _ => ⟨[], rfl⟩)
  simp only [deletions, List.foldl]
  repeat (apply replaceAll_endsLf _ _ (by decide) (fun h => absurd h (by decide)))
  exact h

/-- text without ESC and CR is stored as it is -/
theorem normalise_plain' (s : Str) (hesc : esc ∉ s) (hcr : '\r' ∉ s) : normalise s = s := by
  unfold normalise
  have hd : deletions.foldl (fun acc p => replaceAll p [] acc) s = s := by
    simp only [deletions, List.foldl, replaceAll]
    repeat (rw [replaceGo_id _ _ (esc) (by decide) s hesc])
  rw [hd]
  simp only [replaceAll]
  rw [replaceGo_id _ _ '\r' (by decide) s hcr, replaceGo_id _ _ '\r' (by decide) s hcr]

end Log
