import TbotVerif.Props.TcFeed
/-! # C16 — verdicts are truthful

All theorems are about the model of `Model/Tc.lean` and hold for every testcase tree (any size,
any depth) — by structural induction on trees. -/

namespace C16
open Tc

/-! ## The model satisfies the Spec -/

theorem takeWhile_append_all {α} (p : α → Bool) : ∀ (l r : List α), (∀ x ∈ l, p x = true) →
    (l ++ r).takeWhile p = l ++ r.takeWhile p
  | [], r, _ => rfl
  | a :: l, r, h => by
    have ha : p a = true := h a (by simp)
    simp only [List.cons_append, List.takeWhile_cons, ha, if_true]
    rw [takeWhile_append_all p l r (fun x hx => h x (by simp [hx]))]

theorem dropWhile_append_all {α} (p : α → Bool) : ∀ (l r : List α), (∀ x ∈ l, p x = true) →
    (l ++ r).dropWhile p = r.dropWhile p
  | [], r, _ => rfl
  | a :: l, r, h => by
    have ha : p a = true := h a (by simp)
    simp only [List.cons_append, List.dropWhile_cons, ha, if_true]
    exact dropWhile_append_all p l r (fun x hx => h x (by simp [hx]))

theorem takeWhile_all {α} (p : α → Bool) (l : List α) (h : ∀ x ∈ l, p x = true) : l.takeWhile p = l := by
  simpa using takeWhile_append_all p l [] h

theorem dropWhile_all {α} (p : α → Bool) (l : List α) (h : ∀ x ∈ l, p x = true) : l.dropWhile p = [] := by
  simpa using dropWhile_append_all p l [] h

theorem kidsEscape_ne_skip : ∀ ks : List Node, kidsEscape ks ≠ some .skip
  | [] => by simp [kidsEscape]
  | k :: ks => by
    rw [kidsEscape_cons]
    by_cases hg : k.goesOn
    · simpa [hg] using kidsEscape_ne_skip ks
    · simpa [hg] using k.escape_ne_skip

theorem firstEscape_ne_skip : ∀ ks : List Node, firstEscape ks ≠ some .skip
  | [] => by simp [firstEscape]
  | k :: ks => by
    rw [firstEscape]
    cases he : k.escape with
    | none => simpa using firstEscape_ne_skip ks
    | some e =>
      have := k.escape_ne_skip
      rw [he] at this
      simpa using this

/-- In-process level. -/
theorem run_spec_ip (nest0 : Nat) (roots : List Node) :
    Spec.C16 ⟨.ip, nest0, roots⟩ (run ⟨.ip, nest0, roots⟩) = true := by
  have htc := runKids_isTc roots (nest0 : Int)
  have hfeed := feed_top_ip (nest0 : Int) roots Ck.init ⟨rfl, rfl, rfl⟩
  have hpre := ipRan_prefix roots
  have hall := ipRan_all roots
  simp only [Ck.init, List.nil_append] at hfeed
  simp only [Spec.C16, run, Case.base, Case.rootNames, takeWhile_all _ _ htc, dropWhile_all _ _ htc,
    Ck.init, runKids_nest, runKids_val, show (Mode.ip != Mode.ip) = false from by decide, hfeed]
  simp only [List.isEmpty_nil, Option.isNone_none, beq_self_eq_true, Bool.true_and,
    List.isPrefixOf_iff_prefix.2 hpre, Bool.and_true]
  cases hk : kidsEscape roots with
  | none => simp [hall hk]
  | some e =>
    have : e ≠ .skip := by
      intro he; subst he
      exact kidsEscape_ne_skip roots hk
    cases e <;> simp at this ⊢

/-- What the model's CLI run is, in terms of the meaning of the trees. -/
theorem cliMain_eq (roots : List Node) :
    cliMain roots =
      match firstEscape roots with
      | none => ⟨(cliLoop topNesting roots).items ++ [.tbotEnd true], .exit 0, topNesting⟩
      | some .kbd =>
        ⟨(cliLoop topNesting roots).items ++ [.excev .kbd, .tbotEnd false], .exit 130, topNesting⟩
      | some e => ⟨(cliLoop topNesting roots).items ++ [.excev e, .tbotEnd false], .exit 1, topNesting⟩ := by
  unfold cliMain
  simp only [(cliLoop_sem roots topNesting).1, (cliLoop_sem roots topNesting).2]
  cases firstEscape roots with
  | none => rfl
  | some e => cases e <;> rfl

/-- CLI level (both tools). -/
theorem run_spec_cli (m : Mode) (hm : m ≠ .ip) (nest0 : Nat) (roots : List Node) :
    Spec.C16 ⟨m, nest0, roots⟩ (run ⟨m, nest0, roots⟩) = true := by
  have htc := cliLoop_isTc roots topNesting
  have hfeed := feed_top_cli topNesting roots Ck.init ⟨rfl, rfl, rfl⟩
  have hpre := cliRan_prefix roots
  have hall := cliRan_all roots
  have hrun : run ⟨m, nest0, roots⟩ = cliMain roots := by cases m <;> first | exact absurd rfl hm | rfl
  have hbase : Case.base ⟨m, nest0, roots⟩ = topNesting := by cases m <;> first | exact absurd rfl hm | rfl
  have hcli : (m != Mode.ip) = true := by cases m <;> first | exact absurd rfl hm | rfl
  simp only [Ck.init, List.nil_append] at hfeed
  rw [hrun, cliMain_eq]
  unfold Spec.C16
  simp only [hbase, hcli, Case.rootNames]
  cases hf : firstEscape roots with
  | none =>
    simp only [takeWhile_append_all _ _ _ htc, dropWhile_append_all _ _ _ htc, Ck.init]
    simp only [List.takeWhile_cons, List.dropWhile_cons, Item.isTc, Bool.false_eq_true, if_false,
      List.append_nil, hfeed, hf]
    cases m <;> first | exact absurd rfl hm | simp [hall hf]
  | some e =>
    cases e <;>
    simp only [takeWhile_append_all _ _ _ htc, dropWhile_append_all _ _ _ htc, Ck.init,
      List.takeWhile_cons, List.dropWhile_cons, Item.isTc, Bool.false_eq_true, if_false,
      List.append_nil, hfeed, hf] <;>
    cases m <;> first | exact absurd rfl hm | simp [List.isPrefixOf_iff_prefix.2 hpre]

/-- **Main theorem.**  For every case — every forest of testcase trees, at the in-process level and
    through either command line tool — what the model shows satisfies `Spec.C16`. -/
theorem run_spec (c : Case) : Spec.C16 c (run c) = true := by
  obtain ⟨m, nest0, roots⟩ := c
  by_cases hm : m = .ip
  · subst hm; exact run_spec_ip nest0 roots
  · exact run_spec_cli m hm nest0 roots

/-- The form the task asks for (the hypothesis is not needed). -/
theorem run_spec_wellformed (c : Case) (_h : c.wellformed = true) : Spec.C16 c (run c) = true :=
  run_spec c

/-! ## NESTING is restored -/

/-- One testcase call, whatever is nested in it and however it ends, leaves `log.NESTING` as it
    found it. -/
theorem node_nest_restored (n : Node) (nest : Int) : (runNode nest n).nest = nest := runNode_nest n nest

theorem kids_nest_restored (ks : List Node) (nest : Int) : (runKids nest ks).nest = nest := runKids_nest ks nest

/-- After a whole run `log.NESTING` is the level the top-level testcases started at. -/
theorem run_nest_restored (c : Case) : (run c).nest = c.base := by
  obtain ⟨m, nest0, roots⟩ := c
  cases m
  · exact runKids_nest roots _
  · show (cliMain roots).nest = topNesting
    rw [cliMain_eq]; cases firstEscape roots with
    | none => rfl
    | some e => cases e <;> rfl
  · show (cliMain roots).nest = topNesting
    rw [cliMain_eq]; cases firstEscape roots with
    | none => rfl
    | some e => cases e <;> rfl

/-! ## Events are properly nested, names match -/

/-- The testcase events of a log. -/
def evs (items : List Item) : List Item :=
  items.filter (fun i => match i with | .begin _ => true | .end_ _ _ _ => true | _ => false)

/-- Properly nested begin/end events with matching names:  `B ::= ε | begin n · B · end n · B`. -/
inductive Balanced : List Item → Prop
  | nil : Balanced []
  | call (n : Name) (a b : Bool) {inner rest : List Item} :
      Balanced inner → Balanced rest → Balanced (.begin n :: inner ++ .end_ n a b :: rest)

theorem Balanced.append {x y : List Item} (hx : Balanced x) (hy : Balanced y) : Balanced (x ++ y) := by
  induction hx with
  | nil => simpa using hy
  | call n a b _ _ _ ih2 =>
    simp only [List.cons_append, List.append_assoc]
    exact Balanced.call n a b ‹_› ih2

theorem evs_append (x y : List Item) : evs (x ++ y) = evs x ++ evs y := by
  simp [evs]

mutual
/-- The events of one call: its own begin, a properly nested inside, its own end with the flags
    that tell how the body ended. -/
theorem node_events_bracketed : ∀ (n : Node) (nest : Int),
    ∃ inner, Balanced inner ∧
      evs (runNode nest n).items
        = .begin n.name :: inner ++ [.end_ n.name (endSuccess n.bodyHow) (endSkipped n.bodyHow)]
  | .mk form id g kids fin, nest => by
    refine ⟨evs (runKids (nest + 1) kids).items, kids_events_balanced kids (nest + 1), ?_⟩
    rw [runNode_items, evs_append, evs_append]
    simp [evs, Node.name]
theorem kids_events_balanced : ∀ (ks : List Node) (nest : Int), Balanced (evs (runKids nest ks).items)
  | [], nest => by simpa [runKids, evs] using Balanced.nil
  | k :: ks, nest => by
    obtain ⟨inner, hb, he⟩ := node_events_bracketed k nest
    have h2 := kids_events_balanced ks nest
    rw [runKids_items_cons, evs_append, evs_append, he]
    have h1 : Balanced (.begin k.name :: inner ++ [.end_ k.name (endSuccess k.bodyHow) (endSkipped k.bodyHow)]) :=
      Balanced.call _ _ _ hb Balanced.nil
    refine Balanced.append (Balanced.append h1 (by simpa [evs] using Balanced.nil)) ?_
    by_cases hg : k.goesOn
    · simpa [hg] using h2
    · simpa [hg, evs] using Balanced.nil
end

theorem cliLoop_events_balanced : ∀ (ks : List Node) (nest : Int), Balanced (evs (cliLoop nest ks).items)
  | [], nest => by simpa [cliLoop, evs] using Balanced.nil
  | k :: ks, nest => by
    obtain ⟨inner, hb, he⟩ := node_events_bracketed k nest
    have h1 : Balanced (evs (runNode nest k).items) := by
      rw [he]; exact Balanced.call _ _ _ hb Balanced.nil
    rw [cliLoop_cons]
    by_cases hg : k.escape = none
    · simp only [hg, if_true, evs_append]
      exact Balanced.append h1 (cliLoop_events_balanced ks nest)
    · simpa [hg] using h1

/-- The testcase events of every run — in-process or through a command line tool, whatever fails
    and wherever — are properly nested with matching names. -/
theorem run_events_balanced (c : Case) : Balanced (evs (run c).items) := by
  obtain ⟨m, nest0, roots⟩ := c
  have hcli : Balanced (evs (cliMain roots).items) := by
    rw [cliMain_eq]
    have := cliLoop_events_balanced roots topNesting
    cases firstEscape roots with
    | none => simpa [evs_append, evs] using this
    | some e => cases e <;> simpa [evs_append, evs] using this
  cases m
  · exact kids_events_balanced roots _
  · exact hcli
  · exact hcli

/-! ## The end event tells how the body ended; the caller gets what it should -/

/-- The log of a call ends with the mark "the body ended like `bodyHow`" followed directly by the
    end event, whose flags are functions of that. -/
theorem node_end_flags (n : Node) (nest : Int) :
    ∃ pre, (runNode nest n).items
      = pre ++ [.body n.name n.bodyHow, .end_ n.name (endSuccess n.bodyHow) (endSkipped n.bodyHow)] := by
  obtain ⟨form, id, g, kids, fin⟩ := n
  exact ⟨_, runNode_items form id g kids fin nest⟩

/-- The event says "success" (`success` and not `skipped`) exactly when the body finished without
    an exception. -/
theorem node_says_success_iff (h : How) : (endSuccess h = true ∧ endSkipped h = false) ↔ h = none := by
  cases h with
  | none => simp [endSuccess, endSkipped]
  | some e => cases e <;> simp [endSuccess, endSkipped]

/-- `skipped` exactly when the body raised the skip exception. -/
theorem node_skip_flag_iff (h : How) : endSkipped h = true ↔ h = some .skip := by
  cases h with
  | none => simp [endSkipped]
  | some e => cases e <;> simp [endSkipped]

/-- The raw `success` flag is false exactly when an exception other than the skip exception left
    the body. -/
theorem node_success_iff_not_failed (h : How) : endSuccess h = false ↔ (h = some .err ∨ h = some .kbd) := by
  cases h with
  | none => simp [endSuccess]
  | some e => cases e <;> simp [endSuccess]

/-- Named fact about the reading of "says success": for a skipped testcase the raw `success` flag of
    the event is `true` (`testcase_end(name, duration, skipped=…)` leaves the default), together with
    `skipped = true`.  A consumer that looks at `success` alone takes a skipped testcase for a
    passed one. -/
theorem skip_reports_success_flag (form : Form) (id : Nat) (g : Catch) (nest : Int) :
    (runNode nest (.mk form id g [] (some .skip))).items
      = [.begin ⟨form, id⟩, .enter ⟨form, id⟩ (nest + 1), .body ⟨form, id⟩ (some .skip),
         .end_ ⟨form, id⟩ true true] := by
  rw [runNode_items]
  simp [runKids, Node.bodyHow, kidsEscape, bodyEnds, endSuccess, endSkipped]

/-- A skipped testcase yields `None` to its caller (nothing, for the `with` form) instead of the
    exception. -/
theorem node_skip_yields_none (n : Node) (nest : Int) (h : n.bodyHow = some .skip) :
    (runNode nest n).val = if n.form = .ctx then .unit else .none := by
  rw [runNode_val, Node.expectedRet, h]

/-- The skip exception never reaches a caller. -/
theorem node_never_raises_skip (n : Node) (nest : Int) : (runNode nest n).val ≠ .exc .skip := by
  rw [runNode_val]
  intro h
  exact n.escape_ne_skip ((expectedRet_exc n .skip).1 h)

/-- Any other exception reaches the caller unchanged. -/
theorem node_propagates (n : Node) (nest : Int) (e : Exc) (h : n.bodyHow = some e) (he : e ≠ .skip) :
    (runNode nest n).val = .exc e := by
  rw [runNode_val, Node.expectedRet, h]
  cases e <;> simp at he ⊢

/-- A body that finishes gives its value to the caller. -/
theorem node_returns_value (n : Node) (nest : Int) (h : n.bodyHow = none) :
    (runNode nest n).val = if n.form = .ctx then .unit else .val n.name.id := by
  rw [runNode_val, Node.expectedRet, h]

/-! ## The command line tools -/

theorem firstEscape_eq_none_iff : ∀ roots : List Node, firstEscape roots = none ↔ ∀ r ∈ roots, r.escape = none
  | [] => by simp [firstEscape]
  | k :: ks => by
    rw [firstEscape]
    cases he : k.escape with
    | none => simp [he, firstEscape_eq_none_iff ks]
    | some e => simp [he]

/-- Exit status 0 exactly when no exception escapes a top-level testcase. -/
theorem cli_exit_zero_iff (roots : List Node) :
    (cliMain roots).fin = .exit 0 ↔ ∀ r ∈ roots, r.escape = none := by
  rw [← firstEscape_eq_none_iff, cliMain_eq]
  cases firstEscape roots with
  | none => simp
  | some e => cases e <;> simp

/-- Exit status 130 exactly when the exception that ends the run is KeyboardInterrupt. -/
theorem cli_exit_130_iff (roots : List Node) :
    (cliMain roots).fin = .exit 130 ↔ firstEscape roots = some .kbd := by
  rw [cliMain_eq]
  cases firstEscape roots with
  | none => simp
  | some e => cases e <;> simp

/-- Otherwise a failing run exits with status 1. -/
theorem cli_exit_one_iff (roots : List Node) :
    (cliMain roots).fin = .exit 1 ↔ firstEscape roots = some .err := by
  have hs := firstEscape_ne_skip roots
  rw [cliMain_eq]
  cases hf : firstEscape roots with
  | none => simp
  | some e => cases e <;> simp_all

/-- The log ends with the one and only `["tbot","end"]` event; it says success exactly when the
    exit status is 0; on failure it is preceded by the exception event naming what escaped. -/
theorem cli_final_event (roots : List Node) :
    ∃ pre, (cliMain roots).items = pre ++ [.tbotEnd (decide ((cliMain roots).fin = .exit 0))] ∧
      (∀ i ∈ pre, ∀ b, i ≠ .tbotEnd b) ∧
      (∀ e, firstEscape roots = some e → ∃ pre', pre = pre' ++ [.excev e]) := by
  have htc := cliLoop_isTc roots topNesting
  have hno : ∀ i ∈ (cliLoop topNesting roots).items, ∀ b, i ≠ .tbotEnd b := by
    intro i hi b hb
    have := htc i hi
    rw [hb] at this
    cases this
  rw [cliMain_eq]
  cases hf : firstEscape roots with
  | none => exact ⟨_, rfl, hno, by simp⟩
  | some e =>
    cases e with
    | err =>
      refine ⟨(cliLoop topNesting roots).items ++ [.excev .err], by simp, ?_, ?_⟩
      · intro i hi b
        rcases List.mem_append.1 hi with h | h
        · exact hno i h b
        · simp at h; subst h; simp
      · intro e he; cases he; exact ⟨_, rfl⟩
    | skip =>
      refine ⟨(cliLoop topNesting roots).items ++ [.excev .skip], by simp, ?_, ?_⟩
      · intro i hi b
        rcases List.mem_append.1 hi with h | h
        · exact hno i h b
        · simp at h; subst h; simp
      · intro e he; cases he; exact ⟨_, rfl⟩
    | kbd =>
      refine ⟨(cliLoop topNesting roots).items ++ [.excev .kbd], by simp, ?_, ?_⟩
      · intro i hi b
        rcases List.mem_append.1 hi with h | h
        · exact hno i h b
        · simp at h; subst h; simp
      · intro e he; cases he; exact ⟨_, rfl⟩

theorem cliLoop_stops : ∀ (pre : List Node) (r : Node) (post : List Node) (nest : Int) (e : Exc),
    (∀ p ∈ pre, p.escape = none) → r.escape = some e →
    cliLoop nest (pre ++ r :: post) = cliLoop nest (pre ++ [r])
  | [], r, post, nest, e, _, he => by
    simp only [List.nil_append]
    rw [cliLoop_cons, cliLoop_cons]
    simp [he]
  | p :: pre, r, post, nest, e, hp, he => by
    have ih := cliLoop_stops pre r post nest e (fun q hq => hp q (by simp [hq])) he
    simp only [List.cons_append]
    rw [cliLoop_cons, cliLoop_cons, ih]

/-- Testcases after the failing one are not run and not reported: the whole observation (log, exit
    status, nesting) is the one of the command line cut after the first failing testcase. -/
theorem cli_nothing_after_failure (pre : List Node) (r : Node) (post : List Node) (e : Exc)
    (hpre : ∀ p ∈ pre, p.escape = none) (hr : r.escape = some e) :
    cliMain (pre ++ r :: post) = cliMain (pre ++ [r]) := by
  simp only [cliMain]
  rw [cliLoop_stops pre r post _ e hpre hr]

/-- Both tools: the model of the top-level loop is the same for `newbot` and the legacy `tbot`. -/
theorem cli_modes_agree (nest0 : Nat) (roots : List Node) :
    run ⟨.newbot, nest0, roots⟩ = run ⟨.legacy, nest0, roots⟩ := rfl

/-! ## What acceptance by the Spec means for an arbitrary observation

The Spec is evaluated on the *implementation's* observations.  Independently of the model: whatever
log the reader accepts has properly nested testcase events with matching names. -/

/-- Stack discipline on the testcase events: `begin n` pushes `n`, `end n` pops `n`. -/
inductive BalancedFrom : List Name → List Item → List Name → Prop
  | nil (stk : List Name) : BalancedFrom stk [] stk
  | push (n : Name) {stk stk' : List Name} {rest : List Item} :
      BalancedFrom (n :: stk) rest stk' → BalancedFrom stk (.begin n :: rest) stk'
  | pop (n : Name) (a b : Bool) {stk stk' : List Name} {rest : List Item} :
      BalancedFrom stk rest stk' → BalancedFrom (n :: stk) (.end_ n a b :: rest) stk'

/-- With the names `stk` open (innermost first), `l` closes them one after the other, with properly
    nested stretches in between. -/
def Closes : List Name → List Item → Prop
  | [], l => Balanced l
  | n :: stk, l => ∃ inner a b rest, Balanced inner ∧ l = inner ++ .end_ n a b :: rest ∧ Closes stk rest

theorem closes_of_balancedFrom {stk stk' : List Name} {l : List Item} (h : BalancedFrom stk l stk')
    (he : stk' = []) : Closes stk l := by
  induction h with
  | nil stk => subst he; exact Balanced.nil
  | @push n stk stk' rest _ ih =>
    obtain ⟨inner, a, b, rest', hin, hrest, hcl⟩ := ih he
    subst hrest
    cases stk with
    | nil => exact Balanced.call n a b hin hcl
    | cons m stk2 =>
      obtain ⟨inner2, a2, b2, rest2, hin2, hrest2, hcl2⟩ := hcl
      subst hrest2
      refine ⟨.begin n :: inner ++ .end_ n a b :: inner2, a2, b2, rest2, Balanced.call n a b hin hin2, ?_, hcl2⟩
      simp
  | @pop n a b stk stk' rest _ ih =>
    exact ⟨[], a, b, rest, Balanced.nil, rfl, ih he⟩

theorem step_balancedFrom (base : Int) (cli : Bool) (s s' : Ck) (i : Item) (h : step base cli s i = some s')
    {rest : List Item} {stk' : List Name}
    (hr : BalancedFrom (s'.stack.map Frame.n) (evs rest) stk') :
    BalancedFrom (s.stack.map Frame.n) (evs (i :: rest)) stk' := by
  obtain ⟨stack, pending, roots, failed⟩ := s
  cases i with
  | begin n =>
    have he : evs (.begin n :: rest) = .begin n :: evs rest := by simp [evs]
    rw [he]
    simp only [step, stepBegin] at h
    split at h
    · cases h
    · cases stack with
      | nil =>
        simp only at h
        split at h
        · cases h
        · cases h; exact BalancedFrom.push n hr
      | cons f fs =>
        simp only at h
        split at h
        · cases h; exact BalancedFrom.push n hr
        · cases h
  | end_ n a b =>
    have he : evs (.end_ n a b :: rest) = .end_ n a b :: evs rest := by simp [evs]
    rw [he]
    simp only [step, stepEnd] at h
    cases stack with
    | nil => cases h
    | cons f fs =>
      simp only at h
      cases hh : f.how with
      | none => rw [hh] at h; cases h
      | some x =>
        rw [hh] at h
        simp only at h
        split at h
        · rename_i hc
          have hn : f.n = n := by
            rw [Bool.and_eq_true] at hc
            exact beq_iff_eq.1 hc.1
          split at h <;> (cases h; simp only [List.map_cons, hn]; exact BalancedFrom.pop n a b hr)
        · cases h
  | enter n d =>
    have he : evs (.enter n d :: rest) = evs rest := by simp [evs]
    rw [he]
    simp only [step, stepEnter] at h
    cases stack with
    | nil => cases h
    | cons f fs =>
      simp only at h
      split at h
      · cases h; simpa using hr
      · cases h
  | body n x =>
    have he : evs (.body n x :: rest) = evs rest := by simp [evs]
    rw [he]
    simp only [step, stepBody] at h
    cases stack with
    | nil => cases h
    | cons f fs =>
      simp only at h
      split at h
      · cases h; simpa using hr
      · cases h
  | ret n r =>
    have he : evs (.ret n r :: rest) = evs rest := by simp [evs]
    rw [he]
    simp only [step, stepRet] at h
    cases pending with
    | none => cases h
    | some mh =>
      obtain ⟨m, x⟩ := mh
      simp only at h
      split at h
      · cases h; exact hr
      · cases h
  | excev e => cases h
  | tbotEnd b => cases h

theorem feed_balancedFrom (base : Int) (cli : Bool) : ∀ (items : List Item) (s s' : Ck),
    feed base cli s items = some s' →
    BalancedFrom (s.stack.map Frame.n) (evs items) (s'.stack.map Frame.n)
  | [], s, s', h => by
    simp only [feed, Option.some.injEq] at h
    subst h
    exact BalancedFrom.nil _
  | i :: is, s, s', h => by
    rw [feed_cons] at h
    cases hs : step base cli s i with
    | none => rw [hs] at h; cases h
    | some s1 =>
      rw [hs] at h
      exact step_balancedFrom base cli s s1 i hs (feed_balancedFrom base cli is s1 s' h)

/-- **Soundness of the Spec's reader.**  Any observation the Spec accepts — in particular every
    observation of the real tbot that passes the check — has properly nested testcase begin/end
    events with matching names, and `NESTING` back at the starting level. -/
theorem spec_accepts_only_balanced (c : Case) (o : Obs) (h : Spec.C16 c o = true) :
    Balanced (evs o.items) ∧ o.nest = c.base := by
  unfold Spec.C16 at h
  simp only at h
  cases hf : feed c.base (c.mode != Mode.ip) Ck.init (List.takeWhile Item.isTc o.items) with
  | none => rw [hf] at h; cases h
  | some s =>
    rw [hf] at h
    simp only [Bool.and_eq_true] at h
    obtain ⟨⟨⟨⟨hstack, _⟩, hnest⟩, _⟩, hmode⟩ := h
    have hb := feed_balancedFrom _ _ _ _ _ hf
    have hs : s.stack = [] := List.isEmpty_iff.1 hstack
    rw [hs] at hb
    have hbal : Balanced (evs (List.takeWhile Item.isTc o.items)) :=
      closes_of_balancedFrom hb rfl
    have htail : evs (List.dropWhile Item.isTc o.items) = [] := by
      cases hm : c.mode with
      | ip =>
        rw [hm] at hmode
        simp only [Bool.and_eq_true, beq_iff_eq] at hmode
        rw [hmode.1]; rfl
      | newbot =>
        rw [hm] at hmode
        simp only at hmode
        cases hfa : s.failed with
        | none =>
          rw [hfa] at hmode
          simp only [Bool.and_eq_true, beq_iff_eq] at hmode
          rw [hmode.1.1]; rfl
        | some e =>
          rw [hfa] at hmode
          simp only [Bool.and_eq_true, beq_iff_eq] at hmode
          rw [hmode.1]; rfl
      | legacy =>
        rw [hm] at hmode
        simp only at hmode
        cases hfa : s.failed with
        | none =>
          rw [hfa] at hmode
          simp only [Bool.and_eq_true, beq_iff_eq] at hmode
          rw [hmode.1.1]; rfl
        | some e =>
          rw [hfa] at hmode
          simp only [Bool.and_eq_true, beq_iff_eq] at hmode
          rw [hmode.1]; rfl
    refine ⟨?_, by simpa using hnest⟩
    have : o.items = List.takeWhile Item.isTc o.items ++ List.dropWhile Item.isTc o.items :=
      (List.takeWhile_append_dropWhile).symm
    rw [this, evs_append, htail, List.append_nil]
    exact hbal

/-! ## Non-vacuity: the hypotheses are satisfiable, the Spec is not trivially true -/

/-- `d1` calls the block `w2` inside `except Exception` (`w2` calls `m3`, which is interrupted) and
    would then call `m4`. -/
def exTree : Node :=
  .mk .dec 1 .no
    [.mk .ctx 2 .exc [.mk .named 3 .no [] (some .kbd)] none,
     .mk .named 4 .all [] (some .skip)]
    (some .err)

/-- `d5` skips; `m6` catches its child's error and passes. -/
def exSkip : Node := .mk .dec 5 .no [] (some .skip)
def exCatch : Node := .mk .named 6 .no [.mk .ctx 7 .exc [] (some .err)] none

-- KeyboardInterrupt is not caught by `except Exception`: it leaves `w2` and `d1`
example : exTree.bodyHow = some .kbd := by decide
example : exSkip.bodyHow = some .skip ∧ exSkip.escape = none := by decide
example : exCatch.bodyHow = none := by decide
-- `run_spec_wellformed`: a well-formed CLI case that fails in the middle
example : (⟨.newbot, 0, [exSkip, exCatch, exTree, exSkip]⟩ : Case).wellformed = true := by decide
example : (run ⟨.newbot, 0, [exSkip, exCatch, exTree, exSkip]⟩).fin = .exit 130 := by decide
example : (run ⟨.legacy, 0, [exSkip, exCatch]⟩).fin = .exit 0 := by decide
-- `cli_nothing_after_failure`: its hypotheses hold for pre = [exSkip, exCatch], r = exTree
example : (∀ p ∈ [exSkip, exCatch], p.escape = none) ∧ exTree.escape = some .kbd := by decide
-- `node_skip_yields_none`, `node_propagates`, `node_returns_value`
example : (runNode 0 exSkip).val = .none := by decide
example : (runNode 0 exTree).val = .exc .kbd := by decide
example : (runNode 0 exCatch).val = .val 6 := by decide
-- an in-process run
example : run ⟨.ip, 2, [exSkip]⟩
    = ⟨[.begin ⟨.dec, 5⟩, .enter ⟨.dec, 5⟩ 3, .body ⟨.dec, 5⟩ (some .skip), .end_ ⟨.dec, 5⟩ true true,
        .ret ⟨.dec, 5⟩ .none], .escaped none, 2⟩ := by decide

/-- The observations the Spec must refuse (each differs from the run above / below in one place). -/
example : -- a failed testcase reported as success
    Spec.C16 ⟨.ip, 0, [.mk .dec 1 .all [] (some .err)]⟩
      ⟨[.begin ⟨.dec, 1⟩, .enter ⟨.dec, 1⟩ 1, .body ⟨.dec, 1⟩ (some .err), .end_ ⟨.dec, 1⟩ true false,
        .ret ⟨.dec, 1⟩ (.exc .err)], .escaped none, 0⟩ = false := by decide
example : -- the skip exception reaches the caller
    Spec.C16 ⟨.ip, 2, [exSkip]⟩
      ⟨[.begin ⟨.dec, 5⟩, .enter ⟨.dec, 5⟩ 3, .body ⟨.dec, 5⟩ (some .skip), .end_ ⟨.dec, 5⟩ true true,
        .ret ⟨.dec, 5⟩ (.exc .skip)], .escaped (some .skip), 2⟩ = false := by decide
example : -- a skip not flagged as skipped
    Spec.C16 ⟨.ip, 2, [exSkip]⟩
      ⟨[.begin ⟨.dec, 5⟩, .enter ⟨.dec, 5⟩ 3, .body ⟨.dec, 5⟩ (some .skip), .end_ ⟨.dec, 5⟩ true false,
        .ret ⟨.dec, 5⟩ .none], .escaped none, 2⟩ = false := by decide
example : -- no end event (KeyboardInterrupt not handled by the block), NESTING off by one
    Spec.C16 ⟨.ip, 0, [.mk .dec 1 .all [] (some .kbd)]⟩
      ⟨[.begin ⟨.dec, 1⟩, .enter ⟨.dec, 1⟩ 1, .body ⟨.dec, 1⟩ (some .kbd), .ret ⟨.dec, 1⟩ (.exc .kbd)],
        .escaped none, 1⟩ = false := by decide
example : -- NESTING not restored although the events are fine
    Spec.C16 ⟨.ip, 0, [.mk .dec 1 .all [] none]⟩
      ⟨[.begin ⟨.dec, 1⟩, .enter ⟨.dec, 1⟩ 1, .body ⟨.dec, 1⟩ none, .end_ ⟨.dec, 1⟩ true false,
        .ret ⟨.dec, 1⟩ (.val 1)], .escaped none, 1⟩ = false := by decide
example : -- wrong name in the end event
    Spec.C16 ⟨.ip, 0, [.mk .named 1 .all [] none]⟩
      ⟨[.begin ⟨.named, 1⟩, .enter ⟨.named, 1⟩ 1, .body ⟨.named, 1⟩ none, .end_ ⟨.dec, 1⟩ true false,
        .ret ⟨.named, 1⟩ (.val 1)], .escaped none, 0⟩ = false := by decide
example : -- CLI: failure reported as SUCCESS with exit status 0
    Spec.C16 ⟨.newbot, 0, [.mk .dec 1 .no [] (some .err)]⟩
      ⟨[.begin ⟨.dec, 1⟩, .enter ⟨.dec, 1⟩ 1, .body ⟨.dec, 1⟩ (some .err), .end_ ⟨.dec, 1⟩ false false,
        .tbotEnd true], .exit 0, 0⟩ = false := by decide
example : -- CLI: FAILURE event but exit status 0
    Spec.C16 ⟨.legacy, 0, [.mk .dec 1 .no [] (some .err)]⟩
      ⟨[.begin ⟨.dec, 1⟩, .enter ⟨.dec, 1⟩ 1, .body ⟨.dec, 1⟩ (some .err), .end_ ⟨.dec, 1⟩ false false,
        .excev .err, .tbotEnd false], .exit 0, 0⟩ = false := by decide
example : -- CLI: KeyboardInterrupt with exit status 1
    Spec.C16 ⟨.newbot, 0, [.mk .dec 1 .no [] (some .kbd)]⟩
      ⟨[.begin ⟨.dec, 1⟩, .enter ⟨.dec, 1⟩ 1, .body ⟨.dec, 1⟩ (some .kbd), .end_ ⟨.dec, 1⟩ false false,
        .excev .kbd, .tbotEnd false], .exit 1, 0⟩ = false := by decide
example : -- CLI: the testcase after the failing one is run
    Spec.C16 ⟨.newbot, 0, [.mk .dec 1 .no [] (some .err), .mk .dec 2 .no [] none]⟩
      ⟨[.begin ⟨.dec, 1⟩, .enter ⟨.dec, 1⟩ 1, .body ⟨.dec, 1⟩ (some .err), .end_ ⟨.dec, 1⟩ false false,
        .begin ⟨.dec, 2⟩, .enter ⟨.dec, 2⟩ 1, .body ⟨.dec, 2⟩ none, .end_ ⟨.dec, 2⟩ true false,
        .excev .err, .tbotEnd false], .exit 1, 0⟩ = false := by decide
example : -- CLI: SUCCESS although the second testcase was never run
    Spec.C16 ⟨.newbot, 0, [.mk .dec 1 .no [] none, .mk .dec 2 .no [] none]⟩
      ⟨[.begin ⟨.dec, 1⟩, .enter ⟨.dec, 1⟩ 1, .body ⟨.dec, 1⟩ none, .end_ ⟨.dec, 1⟩ true false,
        .tbotEnd true], .exit 0, 0⟩ = false := by decide

end C16
