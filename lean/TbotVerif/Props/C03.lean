import TbotVerif.Props.C04
/-! C03 — raw channel I/O: read side. -/

namespace C03
open Chan Spec

/-- delivered byte count of a log segment -/
def total (recs : List ReadRec) : Nat := (dataOf recs).flatten.length

@[simp] theorem total_nil : total [] = 0 := rfl

theorem total_cons_some (r : ReadRec) (rs : List ReadRec) (d : Bytes) (h : r.data = some d) :
    total (r :: rs) = d.length + total rs := by
  simp [total, dataOf_cons_some _ _ _ h]

theorem total_cons_none (r : ReadRec) (rs : List ReadRec) (h : r.data = none) :
    total (r :: rs) = total rs := by
  simp [total, dataOf_cons_none _ _ h]

/-- `read_iter` pulled to exhaustion / for `k` chunks: frame, request sizes, and what the
    collected chunks are in terms of the transport log. -/
theorem riTake_spec : ∀ (f : Nat) (k : Option Nat) (ri : RI) (s : St) (acc : List Bytes),
    bytesLeft s + 1 < f + (if ri.started then 1 else 0) → WF s → 0 < s.chunk →
    (∀ m, ri.max = some m → ri.got ≤ m) → (ri.started = false → ri.got = 0) →
    ∃ recs, ReadFrame s (riTake f k ri s acc).2 recs
      ∧ boundedReqs s.chunk ri.max ri.got recs = true
      ∧ (∀ m, ri.max = some m → ri.got + total recs ≤ m)
      ∧ (∀ cs, (riTake f k ri s acc).1 = (cs, none) →
          cs = acc ++ dataOf recs ∧ (∀ j, k = some j → (dataOf recs).length ≤ j)
            ∧ (k = none → ri.max = some (ri.got + total recs)))
      ∧ (∀ cs e, (riTake f k ri s acc).1 = (cs, some e) →
          (e = .timeout ∨ e = .hang ∨ ∃ x m, e = .death x m)
          ∧ ((e = .timeout ∨ e = .hang) → cs = acc ++ dataOf recs
                ∧ (∀ m, ri.max = some m → ri.got + total recs < m ∨ m = 0))
          ∧ (∀ x m, e = .death x m → cs = acc ++ (dataOf recs).dropLast ∧ dataOf recs ≠ [])) := by
  intro f
  induction f with
  | zero =>
    intro k ri s acc hf
    split at hf <;> omega
  | succ f ih =>
    intro k ri s acc hf hwf hc hgot hst
    unfold riTake
    split
    · rename_i hk0
      refine ⟨[], ReadFrame.refl s, rfl, by simpa using hgot, ?_, by simp⟩
      intro cs h
      simp only [Prod.mk.injEq, and_true] at h
      subst h
      refine ⟨by simp, fun j hj => by simp, fun h => by rw [h] at hk0; simp at hk0⟩
    · rename_i hk0
      have hout := riNext_out ri s
      generalize riNext ri s = out at hout
      obtain ⟨st, ri', s'⟩ := out
      simp only at hout
      -- when the generator is not exhausted there is room below `max`
      have room : ¬ (ri.started = true ∧ ri.max = some ri.got) → ∀ m, ri.max = some m → ri.got < m ∨ m = 0 := by
        intro hnd m hm
        have hle := hgot m hm
        cases hs : ri.started with
        | true =>
          left
          rcases Nat.lt_or_ge ri.got m with h | h
          · exact h
          · exfalso; apply hnd; refine ⟨hs, ?_⟩; rw [hm]; congr; omega
        | false =>
          have := hst hs
          rcases Nat.eq_zero_or_pos m with h | h
          · right; exact h
          · left; omega
      have hwant : ∀ rec : ReadRec, rec.n = ri.maxRead s.chunk →
          (rec.n == match ri.max with | none => s.chunk | some m => min s.chunk (m - ri.got)) = true := by
        intro rec h
        rw [h]; unfold RI.maxRead
        cases ri.max <;> simp
      cases hout with
      | done h1 h2 =>
        simp only
        refine ⟨[], ReadFrame.refl s, rfl, by simpa using hgot, ?_, by simp⟩
        intro cs h
        simp only [Prod.mk.injEq, and_true] at h
        subst h
        exact ⟨by simp, fun j _ => by simp, fun _ => by simpa using h1⟩
      | expired hnd hrem =>
        simp only
        refine ⟨[], ReadFrame.refl s, rfl, by simpa using hgot, by simp, ?_⟩
        intro cs e h
        simp only [Prod.mk.injEq, Option.some.injEq] at h
        obtain ⟨rfl, rfl⟩ := h
        refine ⟨Or.inl rfl, fun _ => ⟨by simp, fun m hm => ?_⟩, fun x m h => by simp at h⟩
        simpa using room hnd m hm
      | ioErr rem rec s' e hnd hrem hio =>
        simp only
        have herr := hio.err e rfl
        refine ⟨[rec], hio.frame, ?_, ?_, by simp, ?_⟩
        · have := hwant rec hio.hn
          simp only [boundedReqs, herr.1, List.isEmpty_nil, Bool.and_true]
          exact this
        · intro m hm; rw [total_cons_none _ _ herr.1]; simpa using hgot m hm
        · intro cs e' h
          simp only [Prod.mk.injEq, Option.some.injEq] at h
          obtain ⟨rfl, rfl⟩ := h
          refine ⟨?_, fun _ => ⟨?_, fun m hm => ?_⟩, fun x m h => ?_⟩
          · rcases herr.2.1 with h | h
            · exact Or.inl h
            · exact Or.inr (Or.inl h)
          · rw [dataOf_cons_none _ _ herr.1]; simp
          · rw [total_cons_none _ _ herr.1]; simpa using room hnd m hm
          · rcases herr.2.1 with h' | h' <;> rw [h'] at h <;> simp at h
      | death rem rec s1 b x m hnd hrem hio hchk =>
        simp only
        have hok := hio.ok b rfl
        have hlen : ∀ m', ri.max = some m' → ri.got + b.length ≤ m' := by
          intro m' hm
          have h1 := hok.2.1
          unfold RI.maxRead at h1; rw [hm] at h1
          have := hgot m' hm
          have : b.length ≤ m' - ri.got := Nat.le_trans h1 (Nat.min_le_right _ _)
          omega
        refine ⟨[rec], chunk_frame hio, ?_, ?_, by simp, ?_⟩
        · have := hwant rec hio.hn
          simp only [boundedReqs, hok.1, Bool.and_true, Bool.and_eq_true, decide_eq_true_eq]
          exact ⟨this, by rw [hio.hn]; exact hok.2.1⟩
        · intro m' hm; rw [total_cons_some _ _ _ hok.1]; simpa using hlen m' hm
        · intro cs e' h
          simp only [Prod.mk.injEq, Option.some.injEq] at h
          obtain ⟨rfl, rfl⟩ := h
          refine ⟨Or.inr (Or.inr ⟨x, m, rfl⟩), fun h => by rcases h with h | h <;> simp at h, fun _ _ _ => ?_⟩
          rw [dataOf_cons_some _ _ _ hok.1]; simp
      | chunk rem rec s1 b hnd hrem hio hchk =>
        have hfr := chunk_frame hio
        have hok := hio.ok b rfl
        generalize hs2 : (check b (writeStream b s1)).2 = s2 at hfr
        simp only
        have hlen : ∀ m', ri.max = some m' → ri.got + b.length ≤ m' := by
          intro m' hm
          have h1 := hok.2.1
          unfold RI.maxRead at h1; rw [hm] at h1
          have := hgot m' hm
          have : b.length ≤ m' - ri.got := Nat.le_trans h1 (Nat.min_le_right _ _)
          omega
        have hbytes := hfr.bytes
        rw [dataOf_cons_some _ _ _ hok.1] at hbytes
        simp only [dataOf_nil, List.flatten_cons, List.flatten_nil, List.append_nil] at hbytes
        -- fuel for the recursive call
        have hfuel : bytesLeft s2 + 1 < f + (if ({ ri with got := ri.got + b.length, started := true } : RI).started then 1 else 0) := by
          simp only [if_true]
          cases hs : ri.started with
          | false => rw [hs] at hf; simp at hf; omega
          | true =>
            rw [hs] at hf; simp only [if_true] at hf
            have hpos : 0 < ri.maxRead s.chunk := by
              unfold RI.maxRead
              cases hm : ri.max with
              | none => exact hc
              | some m' =>
                simp only
                rcases room hnd m' hm with h | h
                · exact Nat.lt_min.mpr ⟨hc, by omega⟩
                · exfalso; apply hnd; refine ⟨hs, ?_⟩
                  have := hgot m' hm
                  rw [hm]; congr; omega
            have hbne := hok.2.2 hwf hpos
            have : 0 < b.length := List.length_pos_iff.mpr hbne
            omega
        obtain ⟨recs, hf2, hb2, hm2, hok2, herr2⟩ := ih (k.map (· - 1)) { ri with got := ri.got + b.length, started := true }
          s2 (acc ++ [b]) hfuel (hfr.wf hwf) (by rw [hfr.chunk]; exact hc) (fun m' hm => hlen m' hm) (fun h => by simp at h)
        refine ⟨rec :: recs, hfr.trans hf2, ?_, ?_, ?_, ?_⟩
        · have := hwant rec hio.hn
          simp only [boundedReqs, hok.1, Bool.and_eq_true, decide_eq_true_eq]
          refine ⟨this, by rw [hio.hn]; exact hok.2.1, ?_⟩
          rw [hfr.chunk] at hb2; exact hb2
        · intro m' hm
          rw [total_cons_some _ _ _ hok.1]
          have := hm2 m' hm
          simp only at this; omega
        · intro cs h
          obtain ⟨h1, h2, h3⟩ := hok2 cs h
          refine ⟨?_, ?_, ?_⟩
          · rw [h1, dataOf_cons_some _ _ _ hok.1]; simp
          · intro j hj
            rw [dataOf_cons_some _ _ _ hok.1]
            subst hj
            have hj0 : j ≠ 0 := fun h => hk0 (by rw [h])
            have := h2 (j - 1) rfl
            simp only [List.length_cons]; omega
          · intro hkn
            subst hkn
            have := h3 rfl
            simp only at this
            rw [this, total_cons_some _ _ _ hok.1]; congr 1; omega
        · intro cs e h
          obtain ⟨h1, h2, h3⟩ := herr2 cs e h
          refine ⟨h1, fun hto => ?_, fun x m hx => ?_⟩
          · obtain ⟨hc1, hc2⟩ := h2 hto
            refine ⟨by rw [hc1, dataOf_cons_some _ _ _ hok.1]; simp, fun m' hm => ?_⟩
            rw [total_cons_some _ _ _ hok.1]
            rcases hc2 m' hm with h | h
            · left; simp only at h; omega
            · right; exact h
          · obtain ⟨hc1, hc2⟩ := h3 x m hx
            rw [dataOf_cons_some _ _ _ hok.1]
            refine ⟨?_, by simp⟩
            rw [hc1, List.dropLast_cons_of_ne_nil hc2]; simp

theorem riTake_len : ∀ (f : Nat) (k : Option Nat) (ri : RI) (s : St) (acc : List Bytes) (j : Nat),
    k = some j → (riTake f k ri s acc).1.1.length ≤ acc.length + j := by
  intro f
  induction f with
  | zero => intro k ri s acc j _; simp [riTake]
  | succ f ih =>
    intro k ri s acc j hk
    unfold riTake
    split
    · simp
    · rename_i hk0
      have hj0 : j ≠ 0 := fun h => hk0 (by rw [hk, h])
      generalize riNext ri s = out
      obtain ⟨st, ri', s'⟩ := out
      cases st with
      | done => simp
      | err e => simp
      | chunk b =>
        simp only
        have := ih (k.map (· - 1)) ri' s' (acc ++ [b]) (j - 1) (by rw [hk]; rfl)
        simp only [List.length_append, List.length_cons, List.length_nil] at this
        omega

/-- `read(n)` for `n ≥ 0` on any state. -/
theorem read_some_spec (n : Nat) (t : Option Nat) (s : St) (hwf : WF s) (hc : 0 < s.chunk) :
    ∃ recs, ReadFrame s (read (some n) t s).2 recs
      ∧ boundedReqs s.chunk (some n) 0 recs = true
      ∧ total recs ≤ n
      ∧ (∀ b, (read (some n) t s).1 = .ok b → b = (dataOf recs).flatten ∧ b.length = n)
      ∧ (∀ e, (read (some n) t s).1 = .error e →
          (e = .timeout ∨ e = .hang ∨ ∃ x m, e = .death x m)
          ∧ ((e = .timeout ∨ e = .hang) → total recs < n ∨ n = 0)) := by
  obtain ⟨recs, hf, hb, hm, hok, herr⟩ := riTake_spec (fuelFor s) none (riStart (some n) t s) s []
    (by unfold fuelFor riStart; simp) hwf hc (by intro m hm; simp [riStart]) (fun _ => rfl)
  have hmax : (riStart (some n) t s).max = some n := rfl
  have hgot0 : (riStart (some n) t s).got = 0 := rfl
  rw [hmax, hgot0] at hb
  have htot : total recs ≤ n := by have := hm n hmax; rw [hgot0] at this; omega
  unfold Chan.read
  simp only
  cases hres : riTake (fuelFor s) none (riStart (some n) t s) s [] with
  | mk res s' =>
    rw [hres] at hf hok herr
    obtain ⟨cs, e⟩ := res
    cases e with
    | none =>
      obtain ⟨hcs, _, hdone⟩ := hok cs rfl
      have hn : n = total recs := by
        have := hdone rfl; rw [hmax, hgot0] at this; simpa using this
      simp only [List.nil_append] at hcs
      have hlen : cs.flatten.length = n := by rw [hcs, hn]; rfl
      simp only [hlen, beq_self_eq_true, if_true]
      refine ⟨recs, hf, hb, htot, ?_, by simp⟩
      intro b hb'
      simp only [Except.ok.injEq] at hb'
      subst hb'
      exact ⟨by rw [hcs], hlen⟩
    | some e =>
      simp only
      obtain ⟨hkind, hto, _⟩ := herr cs e rfl
      refine ⟨recs, hf, hb, htot, by simp, ?_⟩
      intro e' he
      simp only [Except.error.injEq] at he
      subst he
      refine ⟨hkind, fun h => ?_⟩
      have := (hto h).2 n hmax
      rw [hgot0] at this; simpa using this

/-- `read(1)`: exactly one transport request of one byte. -/
theorem read_one_spec (t : Option Nat) (s : St) (hwf : WF s) (hc : 0 < s.chunk) :
    (∃ rec c, ReadFrame s (read (some 1) t s).2 [rec] ∧ rec.n = 1 ∧ rec.data = some [c]
        ∧ ((read (some 1) t s).1 = .ok [c] ∨ ∃ x m, (read (some 1) t s).1 = .error (.death x m)))
    ∨ (∃ recs e, ReadFrame s (read (some 1) t s).2 recs ∧ (∀ r ∈ recs, r.n = 1) ∧ dataOf recs = []
        ∧ (read (some 1) t s).1 = .error e ∧ (e = .timeout ∨ e = .hang)) := by
  unfold Chan.read
  simp only
  have hfuel : fuelFor s = (bytesLeft s) + 1 + 1 := by unfold fuelFor; omega
  rw [hfuel]
  unfold riTake
  simp only [reduceCtorEq, if_false]
  have hmr : (riStart (some 1) t s).maxRead s.chunk = 1 := by
    unfold RI.maxRead riStart; simp only [Nat.sub_zero]; omega
  have hout := riNext_out (riStart (some 1) t s) s
  generalize riNext (riStart (some 1) t s) s = out at hout
  obtain ⟨st, ri', s'⟩ := out
  simp only at hout
  cases hout with
  | done h1 h2 => simp [riStart] at h2
  | expired hnd hrem =>
    right
    exact ⟨[], .timeout, ReadFrame.refl s, by simp, rfl, rfl, Or.inl rfl⟩
  | ioErr rem rec s' e hnd hrem hio =>
    right
    have herr := hio.err e rfl
    refine ⟨[rec], e, hio.frame, ?_, dataOf_cons_none _ _ herr.1, rfl, herr.2.1⟩
    intro r hr; simp only [List.mem_singleton] at hr; subst hr; rw [hio.hn, hmr]
  | death rem rec s1 b x m hnd hrem hio hchk =>
    left
    have hok := hio.ok b rfl
    have hbne := hok.2.2 hwf (by rw [hmr]; exact Nat.one_pos)
    have hb1 : b.length ≤ 1 := by have := hok.2.1; rw [hmr] at this; exact this
    obtain ⟨c, rfl⟩ : ∃ c, b = [c] := by
      match b, hbne, hb1 with
      | [c], _, _ => exact ⟨c, rfl⟩
      | _ :: _ :: _, _, h => simp at h
    exact ⟨rec, c, chunk_frame hio, by rw [hio.hn, hmr], hok.1, Or.inr ⟨x, m, rfl⟩⟩
  | chunk rem rec s1 b hnd hrem hio hchk =>
    left
    have hok := hio.ok b rfl
    have hbne := hok.2.2 hwf (by rw [hmr]; exact Nat.one_pos)
    have hb1 : b.length ≤ 1 := by have := hok.2.1; rw [hmr] at this; exact this
    obtain ⟨c, rfl⟩ : ∃ c, b = [c] := by
      match b, hbne, hb1 with
      | [c], _, _ => exact ⟨c, rfl⟩
      | _ :: _ :: _, _, h => simp at h
    simp only
    -- second resumption: the generator is exhausted
    unfold riTake
    simp only [Option.map_none, reduceCtorEq, if_false]
    have hdone : riNext { riStart (some 1) t s with got := (riStart (some 1) t s).got + [c].length, started := true }
        (check [c] (writeStream [c] s1)).2 =
        (.done, { riStart (some 1) t s with got := (riStart (some 1) t s).got + [c].length, started := true },
          (check [c] (writeStream [c] s1)).2) := by
      unfold riNext riStart; simp
    simp only [hdone]
    refine ⟨rec, c, chunk_frame hio, by rw [hio.hn, hmr], hok.1, Or.inl ?_⟩
    simp

/-- The loop of `readline`. -/
theorem readlineLoop_spec : ∀ (f : Nat) (end_ line : Bytes) (t0 : Nat) (timeout : Option Nat) (s : St),
    bytesLeft s < f → WF s → 0 < s.chunk →
    ∃ recs, ReadFrame s (readlineLoop f end_ line t0 timeout s).2 recs ∧ (∀ r ∈ recs, r.n = 1) ∧
      (∀ l, (readlineLoop f end_ line t0 timeout s).1 = .ok l →
        l = line ++ (dataOf recs).flatten
          ∧ hitsOnlyAtEnd (fun b => end_.isSuffixOf b) line (dataOf recs) = true) ∧
      (∀ e, (readlineLoop f end_ line t0 timeout s).1 = .error e →
        (e = .timeout ∨ e = .hang ∨ ∃ x m, e = .death x m) ∧
        ((e = .timeout ∨ e = .hang) → neverHits (fun b => end_.isSuffixOf b) line (dataOf recs) = true)) := by
  intro f
  induction f with
  | zero => intro _ _ _ _ s hf; omega
  | succ f ih =>
    intro end_ line t0 timeout s hf hwf hc
    unfold readlineLoop
    cases hrem : remaining timeout t0 s.now with
    | none =>
      simp only
      refine ⟨[], ReadFrame.refl s, by simp, by simp, ?_⟩
      intro e he
      simp only [Except.error.injEq] at he
      subst he
      exact ⟨Or.inl rfl, fun _ => rfl⟩
    | some rem =>
      simp only
      rcases read_one_spec rem s hwf hc with ⟨rec, c, hfr, hn, hdata, hres⟩ | ⟨recs, e, hfr, hn, hdata, hres, hkind⟩
      · have hrn : ∀ r ∈ [rec], r.n = 1 := by
          intro r hr; simp only [List.mem_singleton] at hr; subst hr; exact hn
        generalize hs2 : (Chan.read (some 1) rem s).2 = s2 at hfr
        rcases hres with hok | ⟨x, m, herr⟩
        · -- one byte was read
          have hsplit : Chan.read (some 1) rem s = (.ok [c], s2) := by
            rw [← hs2, ← hok]
          rw [hsplit]
          simp only
          have hbytes := hfr.bytes
          rw [dataOf_cons_some _ _ _ hdata] at hbytes
          simp only [dataOf_nil, List.flatten_cons, List.flatten_nil, List.append_nil, List.length_cons,
            List.length_nil] at hbytes
          split
          · rename_i hend
            refine ⟨[rec], hfr, hrn, ?_, by simp⟩
            intro l hl
            simp only [Except.ok.injEq] at hl
            subst hl
            refine ⟨by rw [dataOf_cons_some _ _ _ hdata]; simp, ?_⟩
            rw [dataOf_cons_some _ _ _ hdata, dataOf_nil, hitsOnlyAtEnd_cons]
            simp [hend]
          · rename_i hend
            obtain ⟨recs, hf2, hn2, hok2, herr2⟩ := ih end_ (line ++ [c]) t0 timeout s2 (by omega) (hfr.wf hwf)
              (by rw [hfr.chunk]; exact hc)
            refine ⟨rec :: recs, hfr.trans hf2, ?_, ?_, ?_⟩
            · intro r hr
              rcases List.mem_cons.mp hr with rfl | hr
              · exact hn
              · exact hn2 r hr
            · intro l hl
              obtain ⟨h1, h2⟩ := hok2 l hl
              refine ⟨by rw [h1, dataOf_cons_some _ _ _ hdata]; simp, ?_⟩
              rw [dataOf_cons_some _ _ _ hdata, hitsOnlyAtEnd_cons]
              have hne : dataOf recs ≠ [] := by intro hc'; rw [hc'] at h2; simp at h2
              simp [hne, hend, h2]
            · intro e he
              refine ⟨(herr2 e he).1, fun hto => ?_⟩
              rw [dataOf_cons_some _ _ _ hdata, neverHits_cons]
              simp [hend, (herr2 e he).2 hto]
        · have hsplit : Chan.read (some 1) rem s = (.error (.death x m), s2) := by
            rw [← hs2, ← herr]
          rw [hsplit]
          simp only
          refine ⟨[rec], hfr, hrn, by simp, ?_⟩
          intro e he
          simp only [Except.error.injEq] at he
          subst he
          exact ⟨Or.inr (Or.inr ⟨x, m, rfl⟩), fun h => by rcases h with h | h <;> simp at h⟩
      · generalize hs2 : (Chan.read (some 1) rem s).2 = s2 at hfr
        have hsplit : Chan.read (some 1) rem s = (.error e, s2) := by
          rw [← hs2, ← hres]
        rw [hsplit]
        simp only
        refine ⟨recs, hfr, hn, by simp, ?_⟩
        intro e' he
        simp only [Except.error.injEq] at he
        subst he
        refine ⟨?_, fun _ => by rw [hdata]; rfl⟩
        rcases hkind with h | h
        · exact Or.inl h
        · exact Or.inr (Or.inl h)

end C03
