import TbotVerif.Props.C04
namespace C03
theorem placeholder : True := trivial
end C03
