import TbotVerif.Props.C03Op
/-! C03 — `send` / `sendline` and their read-back.

    `Channel.send(..., read_back=True)` reads back `len(slice) + count(CR) + count(LF)` bytes after
    every slice it has written (`Spec.readBack`, the model's own expression: `readBack_model`).
    The corollaries below say when such a call may end in `TimeoutError` (or block for ever):
    only while the echo of what it has written is still incomplete.  A call that raised
    `TimeoutError` although every byte of the echo had been delivered to it (the extra, empty
    slice of a payload that is an exact multiple of the slice size, whose read-back `read(0)`
    waits for data that never comes) is rejected by `Spec.c03`. -/

namespace C03
open Chan Spec

/-! ### the observation of a `send` / `sendline` in terms of the model function -/

theorem ofUnit_snd (x : Res Unit) : (ofUnit x).2 = x.2 := by
  obtain ⟨a, s⟩ := x
  cases a <;> rfl

theorem obs_send (r : RunSt) (b : Bytes) (rb : Bool) (t : Option Nat) (ign : Bool) :
    (obsOp (.send b rb t ign) r).1.res = (ofUnit (send b rb t ign (cut r.st))).1
    ∧ (obsOp (.send b rb t ign) r).1.reads = (send b rb t ign (cut r.st)).2.reads
    ∧ (obsOp (.send b rb t ign) r).1.writes = (send b rb t ign (cut r.st)).2.writes
    ∧ (obsOp (.send b rb t ign) r).2.st = (send b rb t ign (cut r.st)).2 := by
  have h := ofUnit_snd (send b rb t ign (cut r.st))
  refine ⟨rfl, ?_, ?_, ?_⟩
  · show (ofUnit (send b rb t ign (cut r.st))).2.reads = _
    rw [h]
  · show (ofUnit (send b rb t ign (cut r.st))).2.writes = _
    rw [h]
  · show (ofUnit (send b rb t ign (cut r.st))).2 = _
    rw [h]

theorem obs_sendline (r : RunSt) (b : Bytes) (rb : Bool) (t : Option Nat) :
    (obsOp (.sendline b rb t) r).1.res = (ofUnit (send (b ++ [13]) rb t false (cut r.st))).1
    ∧ (obsOp (.sendline b rb t) r).1.reads = (send (b ++ [13]) rb t false (cut r.st)).2.reads
    ∧ (obsOp (.sendline b rb t) r).1.writes = (send (b ++ [13]) rb t false (cut r.st)).2.writes
    ∧ (obsOp (.sendline b rb t) r).2.st = (send (b ++ [13]) rb t false (cut r.st)).2 := by
  have h := ofUnit_snd (send (b ++ [13]) rb t false (cut r.st))
  refine ⟨rfl, ?_, ?_, ?_⟩
  · show (ofUnit (send (b ++ [13]) rb t false (cut r.st))).2.reads = _
    rw [h]
  · show (ofUnit (send (b ++ [13]) rb t false (cut r.st))).2.writes = _
    rw [h]
  · show (ofUnit (send (b ++ [13]) rb t false (cut r.st))).2 = _
    rw [h]

theorem ofUnit_unit {x : Res Unit} (h : (ofUnit x).1 = .unit) : x.1 = .ok () := by
  obtain ⟨a, s⟩ := x
  cases a with
  | ok u => rfl
  | error e => simp [ofUnit] at h

theorem ofUnit_err {x : Res Unit} {e : Exc} (h : (ofUnit x).1 = .err e) : x.1 = .error e := by
  obtain ⟨a, s⟩ := x
  cases a with
  | ok u => simp [ofUnit] at h
  | error e' =>
    simp only [ofUnit, OpRes.err.injEq] at h
    rw [h]

/-! ### on a state whose logs were cut (the state an operation starts from) -/

/-- complete read-back: a `send` with read-back that returns has been handed exactly the next
    `readBack payload` bytes of the incoming stream, and has written exactly `payload` -/
theorem rb_complete_cut (payload : Bytes) (t : Option Nat) (ign : Bool) (s : St) (hg : Good s)
    (hok : (send payload true t ign (cut s)).1 = .ok ()) :
    (dataOf (send payload true t ign (cut s)).2.reads).flatten = (flat s.script).take (readBack payload)
    ∧ (dataOf (send payload true t ign (cut s)).2.reads).flatten.length = readBack payload
    ∧ accepted (send payload true t ign (cut s)).2.writes = payload
    ∧ flat (send payload true t ign (cut s)).2.script = (flat s.script).drop (readBack payload) := by
  obtain ⟨recs, ws, hfr, _, _, hres, _, _, hokr, _⟩ := send_spec payload true t ign (cut s) hg.cut
  have hreads : (send payload true t ign (cut s)).2.reads = recs := by rw [hfr.reads]; rfl
  have hwrites : (send payload true t ign (cut s)).2.writes = ws := by rw [hfr.writes]; rfl
  have hflat : (dataOf recs).flatten ++ flat (send payload true t ign (cut s)).2.script = flat s.script :=
    hfr.flat
  simp only [hok] at hres
  have hacc : accepted ws = payload := hres.2
  have htot : (dataOf recs).flatten.length = readBack payload := by
    have := hokr hok rfl
    rw [hacc] at this
    exact this
  rw [hreads, hwrites]
  refine ⟨?_, htot, hacc, ?_⟩
  · rw [← hflat, List.take_left' htot]
  · rw [← hflat, List.drop_left' htot]

/-- a time-out (or blocking for ever) is justified: read-back was asked for and the echo of what
    was written has not been delivered completely -/
theorem timeout_justified_cut (payload : Bytes) (rb : Bool) (t : Option Nat) (ign : Bool) (s : St) (hg : Good s)
    (e : Exc) (he : e = .timeout ∨ e = .hang)
    (herr : (send payload rb t ign (cut s)).1 = .error e) :
    rb = true
    ∧ (dataOf (send payload rb t ign (cut s)).2.reads).flatten.length
        < readBack (accepted (send payload rb t ign (cut s)).2.writes)
    ∧ ∃ rest, payload = accepted (send payload rb t ign (cut s)).2.writes ++ rest := by
  obtain ⟨recs, ws, hfr, _, _, hres, _, _, _, hto⟩ := send_spec payload rb t ign (cut s) hg.cut
  have hreads : (send payload rb t ign (cut s)).2.reads = recs := by rw [hfr.reads]; rfl
  have hwrites : (send payload rb t ign (cut s)).2.writes = ws := by rw [hfr.writes]; rfl
  obtain ⟨hrb, hlt⟩ := hto e herr he
  rw [hreads, hwrites]
  refine ⟨hrb, hlt, ?_⟩
  simp only [herr] at hres
  rcases he with rfl | rfl
  · exact hres.2.1
  · exact hres.2.1

theorem write_err (buf : Bytes) (ign : Bool) (s : St) (e : Exc) (h : (write buf ign s).1 = .error e) :
    e = .illegal := by
  unfold write at h
  split at h
  · simp only [Except.error.injEq] at h
    exact h.symm
  · simp at h

/-- the slice loop without read-back fails only by refusing a forbidden byte -/
theorem sendLoop_no_rb_err : ∀ (f : Nat) (buf : Bytes) (timeout : Option Nat) (ign : Bool) (t0 : Nat) (s : St) (e : Exc),
    (sendLoop f buf false timeout ign t0 s).1 = .error e → e = .illegal ∨ e = .fuel := by
  intro f
  induction f with
  | zero =>
    intro buf timeout ign t0 s e h
    simp only [sendLoop, Except.error.injEq] at h
    exact Or.inr h.symm
  | succ f ih =>
    intro buf timeout ign t0 s e h
    cases buf with
    | nil => simp [sendLoop] at h
    | cons b t =>
      unfold sendLoop at h
      simp only at h
      have hwe := write_err ((b :: t).take s.slice) ign s
      cases hw : write ((b :: t).take s.slice) ign s with
      | mk wr s1 =>
        rw [hw] at h hwe
        cases wr with
        | error e' =>
          simp only [Except.error.injEq] at h
          subst h
          exact Or.inl (hwe e' rfl)
        | ok u =>
          simp only [Bool.false_eq_true, if_false] at h
          exact ih _ _ _ _ _ _ h

/-- without read-back `send` makes no transport read, and it either succeeds or refuses a
    forbidden byte: it never waits, so it never times out -/
theorem no_rb_cut (payload : Bytes) (t : Option Nat) (ign : Bool) (s : St) (hg : Good s) :
    (send payload false t ign (cut s)).2.reads = []
    ∧ ((send payload false t ign (cut s)).1 = .ok () ∨ (send payload false t ign (cut s)).1 = .error .illegal) := by
  obtain ⟨recs, ws, hfr, _, _, hres, hnr, _, _, _⟩ := send_spec payload false t ign (cut s) hg.cut
  have hreads : (send payload false t ign (cut s)).2.reads = recs := by rw [hfr.reads]; rfl
  refine ⟨by rw [hreads]; exact hnr rfl, ?_⟩
  cases hx : (send payload false t ign (cut s)).1 with
  | ok u => exact Or.inl rfl
  | error e =>
    right
    have hk : e = .illegal ∨ e = .fuel := by
      unfold send at hx
      split at hx
      · simp at hx
      · split at hx
        · simp only [Except.error.injEq] at hx
          exact Or.inl hx.symm
        · exact sendLoop_no_rb_err _ _ _ _ _ _ e hx
    rcases hk with rfl | rfl
    · rfl
    · simp only [hx] at hres
      obtain ⟨_, _, h⟩ := hres
      rcases h with h | h | ⟨_, _, h⟩ <;> simp at h

/-! ### per operation (what the harness observes) -/

/-- **read-back is complete.**  `send(b, read_back=True)` that returns has been handed exactly
    `readBack b` bytes, they are the next bytes of the incoming stream in order, nothing more was
    taken from the transport, and what the transport accepted is exactly `b`. -/
theorem send_rb_complete (r : RunSt) (b : Bytes) (t : Option Nat) (ign : Bool) (hg : Good r.st)
    (hres : (obsOp (.send b true t ign) r).1.res = .unit) :
    (delivered (obsOp (.send b true t ign) r).1).flatten = (flat r.st.script).take (readBack b)
    ∧ (delivered (obsOp (.send b true t ign) r).1).flatten.length = readBack b
    ∧ accepted (obsOp (.send b true t ign) r).1.writes = b
    ∧ flat (obsOp (.send b true t ign) r).2.st.script = (flat r.st.script).drop (readBack b) := by
  obtain ⟨h1, h2, h3, h4⟩ := obs_send r b true t ign
  rw [h1] at hres
  have := rb_complete_cut b t ign r.st hg (ofUnit_unit hres)
  unfold delivered
  rw [h2, h3, h4, filterMap_data]
  exact this

theorem sendline_rb_complete (r : RunSt) (b : Bytes) (t : Option Nat) (hg : Good r.st)
    (hres : (obsOp (.sendline b true t) r).1.res = .unit) :
    (delivered (obsOp (.sendline b true t) r).1).flatten = (flat r.st.script).take (readBack (b ++ [13]))
    ∧ (delivered (obsOp (.sendline b true t) r).1).flatten.length = readBack (b ++ [13])
    ∧ accepted (obsOp (.sendline b true t) r).1.writes = b ++ [13]
    ∧ flat (obsOp (.sendline b true t) r).2.st.script = (flat r.st.script).drop (readBack (b ++ [13])) := by
  obtain ⟨h1, h2, h3, h4⟩ := obs_sendline r b true t
  rw [h1] at hres
  have := rb_complete_cut (b ++ [13]) t false r.st hg (ofUnit_unit hres)
  unfold delivered
  rw [h2, h3, h4, filterMap_data]
  exact this

/-- **a time-out is justified.**  `send` raises `TimeoutError` (or blocks for ever) only if it was
    called with read-back and fewer bytes were delivered to it than the echo of what it had
    written; what it had written is a prefix of the payload. -/
theorem send_timeout_justified (r : RunSt) (b : Bytes) (rb : Bool) (t : Option Nat) (ign : Bool) (hg : Good r.st)
    (e : Exc) (he : e = .timeout ∨ e = .hang)
    (hres : (obsOp (.send b rb t ign) r).1.res = .err e) :
    rb = true
    ∧ (delivered (obsOp (.send b rb t ign) r).1).flatten.length
        < readBack (accepted (obsOp (.send b rb t ign) r).1.writes)
    ∧ ∃ rest, b = accepted (obsOp (.send b rb t ign) r).1.writes ++ rest := by
  obtain ⟨h1, h2, h3, _⟩ := obs_send r b rb t ign
  rw [h1] at hres
  have := timeout_justified_cut b rb t ign r.st hg e he (ofUnit_err hres)
  unfold delivered
  rw [h2, h3, filterMap_data]
  exact this

theorem sendline_timeout_justified (r : RunSt) (b : Bytes) (rb : Bool) (t : Option Nat) (hg : Good r.st)
    (e : Exc) (he : e = .timeout ∨ e = .hang)
    (hres : (obsOp (.sendline b rb t) r).1.res = .err e) :
    rb = true
    ∧ (delivered (obsOp (.sendline b rb t) r).1).flatten.length
        < readBack (accepted (obsOp (.sendline b rb t) r).1.writes)
    ∧ ∃ rest, b ++ [13] = accepted (obsOp (.sendline b rb t) r).1.writes ++ rest := by
  obtain ⟨h1, h2, h3, _⟩ := obs_sendline r b rb t
  rw [h1] at hres
  have := timeout_justified_cut (b ++ [13]) rb t false r.st hg e he (ofUnit_err hres)
  unfold delivered
  rw [h2, h3, filterMap_data]
  exact this

/-- the contrapositive the seeded defect violates: once the whole echo of what was written has
    been delivered, `send` does not end in a time-out -/
theorem send_no_timeout_after_echo (r : RunSt) (b : Bytes) (rb : Bool) (t : Option Nat) (ign : Bool) (hg : Good r.st)
    (hecho : readBack (accepted (obsOp (.send b rb t ign) r).1.writes)
              ≤ (delivered (obsOp (.send b rb t ign) r).1).flatten.length) :
    (obsOp (.send b rb t ign) r).1.res ≠ .err .timeout ∧ (obsOp (.send b rb t ign) r).1.res ≠ .err .hang := by
  constructor
  · intro h
    have := (send_timeout_justified r b rb t ign hg .timeout (Or.inl rfl) h).2.1
    omega
  · intro h
    have := (send_timeout_justified r b rb t ign hg .hang (Or.inr rfl) h).2.1
    omega

/-- **no read-back, no read.**  Without read-back `send` makes no transport read and never waits:
    it returns, or it refuses a forbidden byte. -/
theorem send_no_rb_no_read (r : RunSt) (b : Bytes) (t : Option Nat) (ign : Bool) (hg : Good r.st) :
    (obsOp (.send b false t ign) r).1.reads = []
    ∧ ((obsOp (.send b false t ign) r).1.res = .unit ∨ (obsOp (.send b false t ign) r).1.res = .err .illegal) := by
  obtain ⟨h1, h2, _, _⟩ := obs_send r b false t ign
  obtain ⟨hr, hk⟩ := no_rb_cut b t ign r.st hg
  rw [h1, h2]
  refine ⟨hr, ?_⟩
  generalize send b false t ign (cut r.st) = x at hk
  obtain ⟨a, s'⟩ := x
  rcases hk with h | h
  · left; simp only at h; subst h; rfl
  · right; simp only at h; subst h; rfl

theorem sendline_no_rb_no_read (r : RunSt) (b : Bytes) (t : Option Nat) (hg : Good r.st) :
    (obsOp (.sendline b false t) r).1.reads = []
    ∧ ((obsOp (.sendline b false t) r).1.res = .unit ∨ (obsOp (.sendline b false t) r).1.res = .err .illegal) := by
  obtain ⟨h1, h2, _, _⟩ := obs_sendline r b false t
  obtain ⟨hr, hk⟩ := no_rb_cut (b ++ [13]) t false r.st hg
  rw [h1, h2]
  refine ⟨hr, ?_⟩
  generalize send (b ++ [13]) false t false (cut r.st) = x at hk
  obtain ⟨a, s'⟩ := x
  rcases hk with h | h
  · left; simp only at h; subst h; rfl
  · right; simp only at h; subst h; rfl

/-! ### the Spec objects to the defect: a time-out after a complete echo -/

/-- an observation with result `TimeoutError` in which every byte of the echo of the written
    payload has been delivered is rejected, whatever else it contains -/
theorem c03_rejects_timeout_after_echo (cfg : Cfg) (b : Bytes) (rb : Bool) (t : Option Nat) (ign : Bool) (o : OpObs)
    (hres : o.res = .err .timeout)
    (hecho : readBack (accepted o.writes) ≤ (delivered o).flatten.length) :
    Spec.c03 cfg (.send b rb t ign) o = false := by
  unfold Spec.c03
  simp only [hres]
  have : decide ((delivered o).flatten.length < readBack (accepted o.writes)) = false := by
    simp only [decide_eq_false_iff_not]; omega
  rw [this]
  simp

/-! ### non-vacuity: concrete states -/

/-- chunk 4, slice 2; the echo of `ab\r` (4 bytes: `a b \r \n`) arrives in two pieces -/
def sendDemo : RunSt :=
  { st := { chunk := 4, slice := 2, script := [⟨1, [97, 98]⟩, ⟨3, [13, 10, 36]⟩] } }

theorem sendDemo_good : Good sendDemo.st := ⟨by unfold WF; decide, by decide, by decide, by decide⟩

/-- `send_rb_complete` applies: the call returns, having read back 4 bytes for 3 written ones -/
example : ((obsOp (.send [97, 98, 13] true (some 5) false) sendDemo).1.res == .unit) = true := by decide
example : readBack [97, 98, 13] = 4 := by decide
example : (delivered (obsOp (.send [97, 98, 13] true (some 5) false) sendDemo).1) = [[97, 98], [13, 10]] := by
  decide
example : flat (obsOp (.send [97, 98, 13] true (some 5) false) sendDemo).2.st.script = [36] := by decide

/-- `send_timeout_justified` applies: with 2 ticks only the echo of the first slice arrives; the
    call times out owing 2 of the 4 bytes of the echo of what it wrote -/
example : ((obsOp (.send [97, 98, 13] true (some 2) false) sendDemo).1.res == .err .timeout) = true := by decide
example : (delivered (obsOp (.send [97, 98, 13] true (some 2) false) sendDemo).1).flatten.length = 2
    ∧ readBack (accepted (obsOp (.send [97, 98, 13] true (some 2) false) sendDemo).1.writes) = 4 := by decide

/-- … and the `hang` variant: no timeout, the echo of the second slice never comes -/
example : ((obsOp (.send [97, 98, 13] true none false)
    { st := { chunk := 4, slice := 2, script := [⟨1, [97, 98]⟩] } }).1.res == .err .hang) = true := by decide

/-- `send_no_rb_no_read` applies -/
example : ((obsOp (.send [97, 98, 13] false (some 2) false) sendDemo).1.res == .unit) = true
    ∧ (obsOp (.send [97, 98, 13] false (some 2) false) sendDemo).1.reads.length = 0 := by decide

/-- the defect's observation (payload = 2 slices exactly, whole echo read back, then an extra
    `read(0)` that times out at the deadline) is rejected by the Spec, while the model's own
    observation of the same call is accepted -/
example : Spec.c03 { chunk := 4, slice := 2 } (.send [97, 98, 99, 100] true (some 9) false)
    { res := .err .timeout, t0 := 0, t1 := 9,
      reads := [⟨2, some 9, 0, 1, some [97, 98]⟩, ⟨2, some 8, 1, 3, some [99, 100]⟩, ⟨0, some 6, 3, 9, none⟩],
      writes := [([97, 98], 2), ([99, 100], 2)], fwd := [] } = false := by decide

example : Spec.c03 { chunk := 4, slice := 2 } (.send [97, 98, 99, 100] true (some 9) false)
    { res := .unit, t0 := 0, t1 := 3,
      reads := [⟨2, some 9, 0, 1, some [97, 98]⟩, ⟨2, some 8, 1, 3, some [99, 100]⟩],
      writes := [([97, 98], 2), ([99, 100], 2)], fwd := [] } = true := by decide

end C03
