import TbotVerif.Props.UBootSend
import TbotVerif.Props.UBootText
/-! `UBootShell.exec` over the console model: the pieces (`echo $?`, the output read, the crc32
    override) and their composition, for every fragmentation schedule. -/

namespace UBootExec
open Chan UBoot UBootChan UBootCon UBootSend UBootText

/-- what holds of a session between two calls: nothing pending, the configured prompt and
    black-list installed, the console at the start of a line -/
structure Inv (P : Bytes) (ss : Sess) : Prop where
  quiet : Quiet ss.st
  script : ss.st.script = []
  prompt : ss.st.prompt = some (.lit P)
  bl : ss.st.blacklist = Params.ubootBlacklist
  line : ss.con.line = []
  cprompt : ss.con.prompt = P

theorem con_line_eta (con : Con) (h : con.line = []) : ({ con with line := [] } : Con) = con := by
  cases con; simp_all

theorem dispatch_line (argv : List Bytes) (con : Con) : (dispatch argv con).2.line = con.line := by
  unfold dispatch
  dsimp only
  cases con.table with
  | none => rfl
  | some e =>
    dsimp only
    split <;> rfl

theorem dispatch_prompt (argv : List Bytes) (con : Con) : (dispatch argv con).2.prompt = con.prompt := by
  unfold dispatch
  dsimp only
  cases con.table with
  | none => rfl
  | some e =>
    dsimp only
    split <;> rfl

/-! ### what can be sent -/

theorem forbidden_iff (bl : List Byte) (buf : Bytes) :
    Chan.forbidden bl buf = true ↔ ∃ x ∈ bl, x ∈ buf := by
  simp [Chan.forbidden]

theorem forbidden_eq_false (bl : List Byte) (buf : Bytes) (h : ∀ c ∈ buf, c ∉ bl) :
    Chan.forbidden bl buf = false := by
  cases hf : Chan.forbidden bl buf with
  | false => rfl
  | true =>
    obtain ⟨x, hx, hxb⟩ := (forbidden_iff bl buf).mp hf
    exact absurd hx (h x hxb)

/-- every byte the console does not simply echo, in one list -/
def nonOrdinary : List Byte := CR :: LF :: 0x03 :: special

theorem nonOrdinary_control : nonOrdinary.all (fun c => !Hush.printable c) = true := by decide

theorem nonOrdinary_quoting : Quote.SP ∉ nonOrdinary ∧ Quote.SQ ∉ nonOrdinary ∧ Quote.DQ ∉ nonOrdinary ∧ Hush.BS ∉ nonOrdinary := by
  decide

theorem blacklist_quoting : Quote.SP ∉ Params.ubootBlacklist ∧ Quote.SQ ∉ Params.ubootBlacklist
    ∧ Quote.DQ ∉ Params.ubootBlacklist ∧ Hush.BS ∉ Params.ubootBlacklist := by
  decide

theorem blacklist_control : Params.ubootBlacklist.all (fun c => !Hush.printable c) = true := by decide

theorem ordinary_of_not_mem {c : Byte} (h : c ∉ nonOrdinary) : ordinary c = true := by
  simp only [nonOrdinary, List.mem_cons, not_or] at h
  obtain ⟨h1, h2, h3, h4⟩ := h
  have e1 : (c == CR) = false := by simpa using h1
  have e2 : (c == LF) = false := by simpa using h2
  have e3 : (c == 0x03) = false := by simpa using h3
  simp [ordinary, e1, e2, e3, h4]

/-- no byte of a control-only list occurs in the quoted form of printable arguments -/
theorem escape_avoids (bl : Bytes) (hq : Quote.SP ∉ bl ∧ Quote.SQ ∉ bl ∧ Quote.DQ ∉ bl ∧ Hush.BS ∉ bl)
    (hc : bl.all (fun c => !Hush.printable c) = true)
    (args : List Bytes) (hp : ∀ a ∈ args, a.all Hush.printable = true) :
    ∀ c ∈ Hush.escape args, c ∉ bl := by
  intro c hcm hcb
  have hf : Quote.forbidden bl (Hush.escape args) = true := by
    unfold Quote.forbidden
    rw [List.any_eq_true]
    exact ⟨c, hcm, by simpa using hcb⟩
  obtain ⟨a, ha, x, hx, hxb⟩ := (C19Q.forbidden_escape bl hq.1 hq.2.1 hq.2.2.1 hq.2.2.2 args).mp hf
  have h1 := List.all_eq_true.mp (hp a ha) x hx
  have h2 := List.all_eq_true.mp hc x hxb
  simp [h1] at h2

theorem escape_ordinary (args : List Bytes) (hp : ∀ a ∈ args, a.all Hush.printable = true) :
    ∀ c ∈ Hush.escape args, ordinary c = true :=
  fun c hc => ordinary_of_not_mem (escape_avoids nonOrdinary nonOrdinary_quoting nonOrdinary_control args hp c hc)

/-- **a quoted line of printable arguments can always be sent** -/
theorem escape_sendable (args : List Bytes) (hp : ∀ a ∈ args, a.all Hush.printable = true) :
    Chan.forbidden Params.ubootBlacklist (Hush.escape args ++ [CR]) = false := by
  apply forbidden_eq_false
  intro c hc
  rcases List.mem_append.mp hc with hc | hc
  · exact escape_avoids Params.ubootBlacklist blacklist_quoting blacklist_control args hp c hc
  · have : c = CR := by simpa using hc
    subst this
    decide

theorem echoStatus_ordinary : ∀ c ∈ echoStatus, ordinary c = true := by decide

theorem echoStatus_sendable : Chan.forbidden Params.ubootBlacklist (echoStatus ++ [CR]) = false := by decide

/-! ### windows -/

theorem good_iff (w : Win) : w.good = true ↔ w.prompt.isSuffixOf w.body = true ∧ onlyEnd w.prompt w.body = true := by
  simp [Win.good, Win.readable]

theorem take_sub_append (a p : Bytes) : (a ++ p).take ((a ++ p).length - p.length) = a := by
  simp

/-! ### `echo $?` -/

theorem statusBytes_noLf (n : Nat) : ∀ c ∈ statusBytes n, c ≠ Tty.LF := by
  intro c hc h
  have := statusBytes_ascii n c hc
  subst h
  simp only [statusBytes, List.mem_map] at hc
  obtain ⟨d, hd, hdc⟩ := hc
  have hb := isDigit_bounds (digits_isDigit n d hd)
  have : (UInt8.ofNat d.toNat).toNat = d.toNat := by rw [UInt8.toNat_ofNat']; omega
  rw [hdc] at this
  have e : (Tty.LF).toNat = 10 := rfl
  omega

theorem cook_status (n : Nat) : Tty.cook (statusBytes n ++ [LF]) = statusBytes n ++ [13, 10] := by
  rw [cook_append, cook_noLf _ (statusBytes_noLf n)]
  rfl

/-- **the status is fetched exactly**: whatever `$?` is, `int()` of what is read is that number,
    for every fragmentation; afterwards `$?` is 0 (the `echo` succeeded) -/
theorem fetchRetcode_spec (P : Bytes) (hP : P ≠ []) (ss : Sess) (hinv : Inv P ss)
    (hgood : Win.good ⟨echoStatus.length + 2, statusBytes ss.con.status ++ CRLF ++ P, P⟩ = true) :
    ∃ ss', fetchRetcode ss = (.ok ss.con.status, ss') ∧ Inv P ss'
      ∧ ss'.con = { ss.con with status := 0, ran := ss.con.ran ++ [Ran.status] } := by
  have hforb : Chan.forbidden ss.st.blacklist (echoStatus ++ [CR]) = false := by
    rw [hinv.bl]; exact echoStatus_sendable
  obtain ⟨ss1, hsend, hcon1, hflat1, hwf1, hk1⟩ :=
    sendLoopRB_line (echoStatus.length + 2) echoStatus ss (by omega) hinv.quiet hinv.script
      echoStatus_ordinary hforb
  rw [hinv.line, List.nil_append, con_line_eta _ hinv.line, runLine_status] at hcon1 hflat1
  simp only at hcon1 hflat1
  rw [cook_status, hinv.cprompt] at hflat1
  have hq1 : Quiet ss1.st := hinv.quiet.keeps hk1 hwf1
  obtain ⟨hsuf, honly⟩ := (good_iff _).mp hgood
  simp only [CRLF, CR, LF] at hsuf honly
  obtain ⟨s2, hrup, hsc2, hk2⟩ := rup_good P (statusBytes ss.con.status ++ [13, 10] ++ P) ss1.st hq1
    (by rw [hk1.prompt]; exact hinv.prompt) hP hflat1 hsuf honly
  have hwf2 : WF s2 := by intro q hq; rw [hsc2] at hq; simp at hq
  refine ⟨{ ss1 with st := s2 }, ?_, ?_, hcon1⟩
  · unfold fetchRetcode sendlineRB
    simp only [hforb, Bool.false_eq_true, if_false, hsend, hrup, take_sub_append, text_status,
      parseInt_digits]
  · exact {
      quiet := hinv.quiet.keeps (hk1.trans hk2) hwf2
      script := hsc2
      prompt := by rw [hk2.prompt, hk1.prompt]; exact hinv.prompt
      bl := by rw [hk2.blacklist, hk1.blacklist]; exact hinv.bl
      line := by
        show ss1.con.line = []
        rw [hcon1]
        exact hinv.line
      cprompt := by
        show ss1.con.prompt = P
        rw [hcon1]
        exact hinv.cprompt }

/-! ### collecting the output -/

theorem streamEnter_keeps (id : Nat) (sp : Bool) (s : St) :
    Keeps s (streamEnter id sp s).2 ∧ (streamEnter id sp s).2.script = s.script :=
  ⟨⟨rfl, rfl, rfl, rfl, rfl, rfl, rfl⟩, rfl⟩

theorem streamExit_keeps (id : Nat) (prev : Bool) (s : St) :
    Keeps s (streamExit id prev s) ∧ (streamExit id prev s).script = s.script :=
  ⟨⟨rfl, rfl, rfl, rfl, rfl, rfl, rfl⟩, rfl⟩

/-- no override: the output is everything in front of the configured prompt -/
theorem readOutput_plain (p w : Bytes) (s : St) (hq : Quiet s) (hpr : s.prompt = some (.lit p)) (hp : p ≠ [])
    (hflat : flat s.script = w) (hsuf : p.isSuffixOf w = true) (honly : onlyEnd p w = true) :
    ∃ s', readOutput none s = (.ok (w.take (w.length - p.length), w), s') ∧ s'.script = [] ∧ Keeps s s' := by
  obtain ⟨hke, hse⟩ := streamEnter_keeps 0 false s
  have hqe : Quiet (streamEnter 0 false s).2 := hq.keeps hke (by
    intro q hq'; rw [hse] at hq'; exact hq.wf q hq')
  obtain ⟨s2, hrup, hsc2, hk2⟩ := rup_good p w (streamEnter 0 false s).2 hqe
    (by rw [hke.prompt]; exact hpr) hp (by rw [hse]; exact hflat) hsuf honly
  obtain ⟨hkx, hsx⟩ := streamExit_keeps 0 (streamEnter 0 false s).1 s2
  refine ⟨streamExit 0 (streamEnter 0 false s).1 s2, ?_, by rw [hsx]; exact hsc2, (hke.trans hk2).trans hkx⟩
  unfold readOutput
  simp only [hrup]

/-- the override: the per-call prompt `q` is in force for the read, the configured one is back
    afterwards -/
theorem readOutput_ovr (q w : Bytes) (s : St) (hq : Quiet s) (hq' : q ≠ [])
    (hflat : flat s.script = w) (hsuf : q.isSuffixOf w = true) (honly : onlyEnd q w = true) :
    ∃ s', readOutput (some (.lit q)) s = (.ok (w.take (w.length - q.length), w), s') ∧ s'.script = []
      ∧ Keeps s s' := by
  generalize hs1 : ({ s with prompt := some (Pat.lit q) } : St) = s1
  have hk1 : s1.deaths = s.deaths ∧ s1.accept = s.accept ∧ s1.slowDelay = s.slowDelay ∧ s1.chunk = s.chunk
      ∧ s1.slice = s.slice ∧ s1.blacklist = s.blacklist ∧ s1.script = s.script ∧ s1.prompt = some (.lit q) := by
    subst hs1; exact ⟨rfl, rfl, rfl, rfl, rfl, rfl, rfl, rfl⟩
  obtain ⟨h1, h2, h3, h4, h5, h6, h7, h8⟩ := hk1
  have hq1 : Quiet s1 := ⟨by rw [h1]; exact hq.deaths, by rw [h2]; exact hq.accept, by rw [h3]; exact hq.slow,
    by rw [h4]; exact hq.chunk, by rw [h5]; exact hq.slice, by intro x hx; rw [h7] at hx; exact hq.wf x hx⟩
  obtain ⟨hke, hse⟩ := streamEnter_keeps 0 false s1
  have hqe : Quiet (streamEnter 0 false s1).2 := hq1.keeps hke (by
    intro x hx; rw [hse] at hx; exact hq1.wf x hx)
  have hpe : (streamEnter 0 false s1).2.prompt = some (.lit q) := by rw [hke.prompt]; exact h8
  have heta : ({ (streamEnter 0 false s1).2 with prompt := some (Pat.lit q) } : St) = (streamEnter 0 false s1).2 := by
    generalize (streamEnter 0 false s1).2 = x at hpe
    cases x; simp_all
  obtain ⟨s2, hrup, hsc2, hk2⟩ := rup_good q w (streamEnter 0 false s1).2 hqe hpe hq'
    (by rw [hse, h7]; exact hflat) hsuf honly
  have hrs := rup_some_eq q none (streamEnter 0 false s1).2
  rw [heta, hrup] at hrs
  simp only at hrs
  refine ⟨{ streamExit 0 (streamEnter 0 false s1).1 { s2 with prompt := (streamEnter 0 false s1).2.prompt } with
            prompt := s.prompt }, ?_, ?_, ?_⟩
  · unfold readOutput
    simp only [anchor, hs1, hrs]
  · exact hsc2
  · exact ⟨rfl, by show s2.deaths = s.deaths; rw [hk2.deaths, hke.deaths, h1],
      by show s2.accept = s.accept; rw [hk2.accept, hke.accept, h2],
      by show s2.slowDelay = s.slowDelay; rw [hk2.slowDelay, hke.slowDelay, h3],
      by show s2.chunk = s.chunk; rw [hk2.chunk, hke.chunk, h4],
      by show s2.slice = s.slice; rw [hk2.slice, hke.slice, h5],
      by show s2.blacklist = s.blacklist; rw [hk2.blacklist, hke.blacklist, h6]⟩

/-! ### the newline the override eats -/

theorem suffix_cons_append (x : Byte) (p a : Bytes) (h : (x :: p).isSuffixOf (a ++ p) = true) :
    ∃ a', a = a' ++ [x] := by
  obtain ⟨t, ht⟩ := List.isSuffixOf_iff_suffix.mp h
  have : (t ++ [x]) ++ p = a ++ p := by rw [← ht]; simp
  exact ⟨t, (List.append_cancel_right this).symm⟩

theorem cook_single (x : Byte) : Tty.cook [x] = if x == Tty.LF then [Tty.CR, Tty.LF] else [x] := by
  simp [Tty.cook]

/-- cooked output that ends in LF ends in CR LF -/
theorem cook_snoc_lf (o c' : Bytes) (h : Tty.cook o = c' ++ [10]) : ∃ c'', c' = c'' ++ [13] := by
  rcases List.eq_nil_or_concat o with rfl | ⟨o', x, rfl⟩
  · have := congrArg List.length h
    simp [Tty.cook] at this
  · rw [List.concat_eq_append, cook_append, cook_single] at h
    by_cases hx : (x == Tty.LF) = true
    · rw [if_pos hx] at h
      have : (Tty.cook o' ++ [13]) ++ [10] = c' ++ [10] := by rw [← h]; simp [Tty.CR, Tty.LF]
      exact ⟨Tty.cook o', (List.append_cancel_right this).symm⟩
    · rw [if_neg hx] at h
      have := (List.append_singleton_inj.mp h).2
      subst this
      exact absurd rfl hx

/-- **the crc32 special case returns the same text**: the output read up to `"\n" + prompt`,
    its left-over CR stripped and the newline restored, is the text of the whole cooked output -/
theorem crc_text (out p : Bytes) (hsuf : (10 :: p).isSuffixOf (Tty.cook out ++ p) = true) :
    stripCr (text ((Tty.cook out ++ p).take ((Tty.cook out ++ p).length - (10 :: p).length))) ++ ['\n']
      = text (Tty.cook out) := by
  obtain ⟨c', hc'⟩ := suffix_cons_append 10 p (Tty.cook out) hsuf
  obtain ⟨c'', rfl⟩ := cook_snoc_lf out c' hc'
  have htake : (Tty.cook out ++ p).take ((Tty.cook out ++ p).length - (10 :: p).length) = c'' ++ [13] := by
    rw [hc']
    have : (c'' ++ [13] ++ [10] ++ p) = (c'' ++ [13]) ++ (10 :: p) := by simp
    rw [this]
    exact take_sub_append (c'' ++ [13]) (10 :: p)
  rw [htake, hc', text_crc_restore]
  simp

/-! ### `exec` -/

theorem isCrc_eq (P : Bytes) (args : List Bytes) (s : St) (hpr : s.prompt = some (.lit P)) :
    isCrc args s = (args.head? == some crcName && P == crcPrompt) := by
  unfold isCrc
  rw [hpr]

theorem crcOverride_eq : Params.ubootCrcOverride = 10 :: crcPrompt := by decide

/-- **`exec` over the console**, whatever the console does with the argument vector (`dispatch`):
    the call returns the status the console reported and the text of exactly what the command
    printed; the console saw exactly `args`, then `echo $?` -/
theorem exec_general (P : Bytes) (hP : P ≠ []) (args : List Bytes) (ss : Sess) (hinv : Inv P ss)
    (hne : args ≠ []) (hp : ∀ a ∈ args, a.all Hush.printable = true)
    (hgood : (cmdWins P args (dispatch args ss.con).1 (dispatch args ss.con).2.status).all Win.good = true) :
    ∃ ss', exec args ss
        = (.ok ((dispatch args ss.con).2.status, text (Tty.cook (dispatch args ss.con).1)), ss')
      ∧ Inv P ss'
      ∧ ss'.con = { (dispatch args ss.con).2 with
                      status := 0, ran := (dispatch args ss.con).2.ran ++ [Ran.status] } := by
  have hdl := dispatch_line args ss.con
  have hdp := dispatch_prompt args ss.con
  rw [hinv.line] at hdl
  rw [hinv.cprompt] at hdp
  -- the command line
  have hforb : Chan.forbidden ss.st.blacklist (Hush.escape args ++ [CR]) = false := by
    rw [hinv.bl]; exact escape_sendable args hp
  obtain ⟨ss1, hsend, hcon1, hflat1, hwf1, hk1⟩ :=
    sendLoopRB_line ((Hush.escape args).length + 2) (Hush.escape args) ss (by omega) hinv.quiet hinv.script
      (escape_ordinary args hp) hforb
  have hsl : sendlineRB (Hush.escape args) ss = (.ok (), ss1) := by
    unfold sendlineRB
    simp only [hforb, Bool.false_eq_true, if_false, hsend]
  have hrun : runLine (ss.con.line ++ Hush.escape args) { ss.con with line := [] } = dispatch args ss.con := by
    rw [hinv.line, List.nil_append, con_line_eta _ hinv.line, runLine_escape args hne hp]
  rw [hrun] at hcon1 hflat1
  rw [hinv.cprompt] at hflat1
  generalize dispatch args ss.con = d at hgood hdl hdp hcon1 hflat1 ⊢
  have hq1 : Quiet ss1.st := hinv.quiet.keeps hk1 hwf1
  have hpr1 : ss1.st.prompt = some (.lit P) := by rw [hk1.prompt]; exact hinv.prompt
  -- the two windows
  simp only [cmdWins, winsOf, List.all_cons, List.all_nil, Bool.and_true, Bool.and_eq_true] at hgood
  obtain ⟨hw1, hw2⟩ := hgood
  obtain ⟨hsuf1, honly1⟩ := (good_iff _).mp hw1
  simp only at hsuf1 honly1
  -- the output
  have hout : ∃ b w s2,
      readOutput (if isCrc args ss.st = true then some (Pat.lit Params.ubootCrcOverride) else none) ss1.st
        = (.ok (b, w), s2)
      ∧ s2.script = [] ∧ Keeps ss1.st s2
      ∧ (if (if isCrc args ss.st = true then some (Pat.lit Params.ubootCrcOverride) else none).isSome = true
          then stripCr (text b) ++ ['\n'] else text b) = text (Tty.cook d.1) := by
    rw [isCrc_eq P args ss.st hinv.prompt]
    unfold effPrompt at hsuf1 honly1
    by_cases hc : (args.head? == some crcName && P == crcPrompt) = true
    · rw [if_pos hc] at hsuf1 honly1
      have hPeq : P = crcPrompt := by
        simp only [Bool.and_eq_true, beq_iff_eq] at hc
        exact hc.2
      obtain ⟨s2, hro, hsc2, hk2⟩ := readOutput_ovr Params.ubootCrcOverride (Tty.cook d.1 ++ P) ss1.st hq1
        (by decide) hflat1 hsuf1 honly1
      refine ⟨_, _, s2, by rw [if_pos hc]; exact hro, hsc2, hk2, ?_⟩
      rw [if_pos hc]
      simp only [Option.isSome_some, if_true]
      rw [crcOverride_eq, ← hPeq] at hsuf1 ⊢
      exact crc_text d.1 P hsuf1
    · rw [if_neg hc] at hsuf1 honly1
      obtain ⟨s2, hro, hsc2, hk2⟩ := readOutput_plain P (Tty.cook d.1 ++ P) ss1.st hq1 hpr1 hP hflat1 hsuf1 honly1
      refine ⟨_, _, s2, by rw [if_neg hc]; exact hro, hsc2, hk2, ?_⟩
      rw [if_neg hc]
      simp only [Option.isSome_none, Bool.false_eq_true, if_false, take_sub_append]
  obtain ⟨b, w, s2, hro, hsc2, hk2, htext⟩ := hout
  -- the status
  have hwf2 : WF s2 := by intro q hq; rw [hsc2] at hq; simp at hq
  have hinv2 : Inv P { ss1 with st := s2 } := {
    quiet := hinv.quiet.keeps (hk1.trans hk2) hwf2
    script := hsc2
    prompt := by show s2.prompt = _; rw [hk2.prompt]; exact hpr1
    bl := by show s2.blacklist = _; rw [hk2.blacklist, hk1.blacklist]; exact hinv.bl
    line := by show ss1.con.line = []; rw [hcon1]; exact hdl
    cprompt := by show ss1.con.prompt = P; rw [hcon1]; exact hdp }
  obtain ⟨ss3, hfr, hinv3, hcon3⟩ := fetchRetcode_spec P hP { ss1 with st := s2 } hinv2 (by
    show Win.good ⟨echoStatus.length + 2, statusBytes ss1.con.status ++ CRLF ++ P, P⟩ = true
    rw [hcon1]; exact hw2)
  have hst : ({ ss1 with st := s2 } : Sess).con = d.2 := hcon1
  have hfr' : fetchRetcode { ss1 with st := s2 } = (.ok d.2.status, ss3) := by
    rw [hfr]
    show (Except.ok ss1.con.status, ss3) = _
    rw [hcon1]
  rw [hst] at hcon3
  refine ⟨ss3, ?_, hinv3, hcon3⟩
  unfold exec
  simp only [hsl, hro, hfr', htext]

end UBootExec
