import TbotVerif.Props.C08Text
import TbotVerif.Model.UBoot
/-! Text-level lemmas for C19: `bytes.decode("utf-8", "replace")` around an ASCII separator, the
    CR/LF normalisation at the end of a stream, the crc32 newline restoration, `int()` of the
    digits the console prints, and the slice `env()` takes out of `printenv`'s line. -/

set_option linter.unusedSimpArgs false

namespace UBootText
open C08 Spec

/-! ### `decodeReplace` and an ASCII byte in the middle -/

theorem lt80_toNat {c : Byte} (hc : c < 0x80) : c.toNat < 128 := by
  have e : (0x80 : Byte).toNat = 128 := rfl
  rw [UInt8.lt_iff_toNat_lt] at hc
  omega

theorem isCont_ascii {c : Byte} (hc : c < 0x80) : isCont c = false := by
  have := lt80_toNat hc
  unfold isCont
  simp only [Bool.and_eq_false_imp, decide_eq_true_eq]
  intro h
  rw [UInt8.le_iff_toNat_le] at h
  have e : (0x80 : Byte).toNat = 128 := rfl
  omega

theorem inR_ascii {lo hi c : Byte} (hlo : 0x80 ≤ lo) (hc : c < 0x80) : inR lo hi c = false := by
  have := lt80_toNat hc
  unfold inR
  simp only [Bool.and_eq_false_imp, decide_eq_true_eq]
  intro h
  rw [UInt8.le_iff_toNat_le] at h hlo
  have e : (0x80 : Byte).toNat = 128 := rfl
  omega

theorem snd3_ascii (x : Byte) {c : Byte} (hc : c < 0x80) : snd3 x c = false := by
  unfold snd3
  split
  · exact inR_ascii (by decide) hc
  · split
    · exact inR_ascii (by decide) hc
    · exact isCont_ascii hc

theorem snd4_ascii (x : Byte) {c : Byte} (hc : c < 0x80) : snd4 x c = false := by
  unfold snd4
  split
  · exact inR_ascii (by decide) hc
  · split
    · exact inR_ascii (by decide) hc
    · exact isCont_ascii hc

/-- an ASCII byte behind a non-empty string does not change how its first character decodes -/
theorem decodeStep_sep (b0 : Byte) (t : Bytes) (c : Byte) (rest : Bytes) (hc : c < 0x80) :
    decodeStep ((b0 :: t) ++ c :: rest) = decodeStep (b0 :: t) := by
  have h1 := isCont_ascii hc
  have h3 := fun x => snd3_ascii x hc
  have h4 := fun x => snd4_ascii x hc
  match t with
  | [] =>
    simp (config := { failIfUnchanged := false }) only [List.cons_append, List.nil_append, decodeStep, h1, h3, h4]
    repeat' split
    all_goals simp_all
  | [b1] =>
    simp (config := { failIfUnchanged := false }) only [List.cons_append, List.nil_append, decodeStep, h1, h3, h4]
    repeat' split
    all_goals simp_all
  | [b1, b2] =>
    simp (config := { failIfUnchanged := false }) only [List.cons_append, List.nil_append, decodeStep, h1, h3, h4]
    repeat' split
    all_goals simp_all
  | b1 :: b2 :: b3 :: t' =>
    simp only [List.cons_append, decodeStep]

theorem decodeFuel_nil (n : Nat) : decodeFuel n [] = [] := by cases n <;> rfl

theorem decodeFuel_irrel : ∀ (n m : Nat) (l : Bytes), l.length ≤ n → l.length ≤ m → decodeFuel n l = decodeFuel m l := by
  intro n
  induction n with
  | zero =>
    intro m l hl _
    have : l = [] := List.eq_nil_of_length_eq_zero (by omega)
    subst this
    rw [decodeFuel_nil, decodeFuel_nil]
  | succ n ih =>
    intro m l hl hm
    cases l with
    | nil => rw [decodeFuel_nil, decodeFuel_nil]
    | cons b0 t =>
      cases m with
      | zero => simp only [List.length_cons] at hm; omega
      | succ m =>
        obtain ⟨h1, h2, _⟩ := decodeStep_spec b0 t
        have hlen : ((b0 :: t).drop (decodeStep (b0 :: t)).2).length ≤ t.length := by
          rw [List.length_drop]; simp only [List.length_cons] at h2 ⊢; omega
        simp only [List.length_cons] at hl hm
        show (decodeStep (b0 :: t)).1 :: decodeFuel n ((b0 :: t).drop (decodeStep (b0 :: t)).2) =
          (decodeStep (b0 :: t)).1 :: decodeFuel m ((b0 :: t).drop (decodeStep (b0 :: t)).2)
        rw [ih m _ (by omega) (by omega)]

theorem decodeFuel_ge (n : Nat) (l : Bytes) (h : l.length ≤ n) : decodeFuel n l = decodeFuel l.length l :=
  decodeFuel_irrel n l.length l h (Nat.le_refl _)

theorem decodeReplace_cons_lo (c : Byte) (b : Bytes) (hc : c < 0x80) :
    decodeReplace (c :: b) = Char.ofNat c.toNat :: decodeReplace b := by
  show (decodeStep (c :: b)).1 :: decodeFuel b.length ((c :: b).drop (decodeStep (c :: b)).2) = _
  rw [decodeStep_lo c b hc]
  rfl

/-- **ASCII separator**: for EVERY `a` and `b`, `(a + bytes([c]) + b).decode(…)` is
    `a.decode(…) + chr(c) + b.decode(…)` when `c` is ASCII -/
theorem decode_ascii_sep (c : Byte) (b : Bytes) (hc : c < 0x80) : ∀ (n : Nat) (a : Bytes), a.length ≤ n →
    decodeReplace (a ++ c :: b) = decodeReplace a ++ Char.ofNat c.toNat :: decodeReplace b := by
  intro n
  induction n with
  | zero =>
    intro a ha
    have : a = [] := List.eq_nil_of_length_eq_zero (by omega)
    subst this
    exact decodeReplace_cons_lo c b hc
  | succ n ih =>
    intro a ha
    cases a with
    | nil => exact decodeReplace_cons_lo c b hc
    | cons b0 t =>
      obtain ⟨h1, h2, _⟩ := decodeStep_spec b0 t
      have hstep := decodeStep_sep b0 t c b hc
      have hdrop : ((b0 :: t) ++ c :: b).drop (decodeStep (b0 :: t)).2
          = (b0 :: t).drop (decodeStep (b0 :: t)).2 ++ c :: b := by
        rw [List.drop_append_of_le_length h2]
      have hlen : ((b0 :: t).drop (decodeStep (b0 :: t)).2).length ≤ n := by
        rw [List.length_drop]; simp only [List.length_cons] at h2 ha ⊢; omega
      have hlen' : ((b0 :: t).drop (decodeStep (b0 :: t)).2).length ≤ t.length := by
        rw [List.length_drop]; simp only [List.length_cons] at h2 ⊢; omega
      have ihd := ih _ hlen
      unfold decodeReplace at ihd ⊢
      show (decodeStep ((b0 :: t) ++ c :: b)).1 ::
          decodeFuel (t ++ c :: b).length (((b0 :: t) ++ c :: b).drop (decodeStep ((b0 :: t) ++ c :: b)).2) =
        ((decodeStep (b0 :: t)).1 :: decodeFuel t.length ((b0 :: t).drop (decodeStep (b0 :: t)).2)) ++ _
      rw [hstep, hdrop]
      rw [decodeFuel_ge (t ++ c :: b).length _ (by
        simp only [List.length_append, List.length_cons] at hlen' ⊢; omega)]
      rw [ihd, decodeFuel_ge t.length _ hlen']
      rfl

theorem decode_sep (a : Bytes) (c : Byte) (b : Bytes) (hc : c < 0x80) :
    decodeReplace (a ++ c :: b) = decodeReplace a ++ Char.ofNat c.toNat :: decodeReplace b :=
  decode_ascii_sep c b hc a.length a (Nat.le_refl _)

theorem decode_nil : decodeReplace [] = [] := rfl

/-- all-ASCII bytes decode to themselves -/
theorem decode_all_ascii : ∀ (b : Bytes), (∀ c ∈ b, c < 0x80) → decodeReplace b = b.map fun c => Char.ofNat c.toNat
  | [], _ => rfl
  | c :: t, h => by
    rw [decodeReplace_cons_lo c t (h c (List.mem_cons_self ..)),
      decode_all_ascii t (fun x hx => h x (List.mem_cons_of_mem _ hx))]
    rfl

/-- an ASCII character comes out of the decoder only where the ASCII byte went in -/
theorem mem_decode_ascii (b : Bytes) (ch : Char) (hch : ch.toNat < 128) (h : ch ∈ decodeReplace b) :
    ∃ c ∈ b, c < 128 ∧ Char.ofNat c.toNat = ch := by
  have h1 : ch ∈ asciiT (decodeReplace b) := by
    simp only [asciiT, List.mem_filter, decide_eq_true_eq]
    exact ⟨h, hch⟩
  rw [asciiT_decodeReplace] at h1
  simp only [asciiB, List.mem_map, List.mem_filter, decide_eq_true_eq] at h1
  obtain ⟨c, ⟨hc, hlt⟩, heq⟩ := h1
  exact ⟨c, hc, hlt, heq⟩


/-! ### `str.replace` of a two-character pattern -/

theorem replace2_append (a b r : Char) : ∀ (n : Nat) (u v : List Char), u.length ≤ n →
    (u.getLast? ≠ some a ∨ v.head? ≠ some b) →
    replace2 a b r (u ++ v) = replace2 a b r u ++ replace2 a b r v := by
  intro n
  induction n with
  | zero =>
    intro u v hu _
    have : u = [] := List.eq_nil_of_length_eq_zero (by omega)
    subst this
    simp [replace2]
  | succ n ih =>
    intro u v hu h
    match u with
    | [] => simp [replace2]
    | [x] =>
      cases v with
      | nil => simp [replace2]
      | cons y t =>
        have hne : (x == a && y == b) = false := by
          rcases h with h | h
          · simp only [List.getLast?_singleton, ne_eq, Option.some.injEq] at h
            simp [h]
          · simp only [List.head?_cons, ne_eq, Option.some.injEq] at h
            simp [h]
        simp only [List.cons_append, List.nil_append, replace2, hne, Bool.false_eq_true, if_false]
    | x :: y :: t =>
      simp only [List.cons_append, replace2]
      simp only [List.length_cons] at hu
      split
      · have hl : t.getLast? ≠ some a ∨ v.head? ≠ some b := by
          rcases h with h | h
          · cases t with
            | nil => left; simp
            | cons z t' => left; simpa [List.getLast?_cons_cons] using h
          · exact Or.inr h
        rw [ih t v (by omega) hl]
        rfl
      · have hl : (y :: t).getLast? ≠ some a ∨ v.head? ≠ some b := by
          rcases h with h | h
          · left; simpa [List.getLast?_cons_cons] using h
          · exact Or.inr h
        have := ih (y :: t) v (by simp only [List.length_cons]; omega) hl
        simp only [List.cons_append] at this
        rw [this]
        rfl

theorem replace2_app (a b r : Char) (u v : List Char) (h : u.getLast? ≠ some a ∨ v.head? ≠ some b) :
    replace2 a b r (u ++ v) = replace2 a b r u ++ replace2 a b r v :=
  replace2_append a b r u.length u v (Nat.le_refl _) h

theorem replace2_id (a b r : Char) : ∀ (n : Nat) (s : List Char), s.length ≤ n → a ∉ s → replace2 a b r s = s := by
  intro n
  induction n with
  | zero =>
    intro s hs _
    have : s = [] := List.eq_nil_of_length_eq_zero (by omega)
    subst this; rfl
  | succ n ih =>
    intro s hs h
    match s with
    | [] => rfl
    | [x] => rfl
    | x :: y :: t =>
      have hx : (x == a) = false := by
        simp only [List.mem_cons, not_or] at h
        simp [Ne.symm h.1]
      simp only [replace2, hx, Bool.false_and, Bool.false_eq_true, if_false]
      rw [ih (y :: t) (by simp only [List.length_cons] at hs ⊢; omega)
        (fun hm => h (List.mem_cons_of_mem _ hm))]

theorem replace2_noop (a b r : Char) (s : List Char) (h : a ∉ s) : replace2 a b r s = s :=
  replace2_id a b r s.length s (Nat.le_refl _) h

/-- a stream without CR / LF characters followed by the line ending: `text` turns CR LF into LF -/
theorem normNl_line (s : List Char) (hr : '\r' ∉ s) (hn : '\n' ∉ s) :
    normNl (s ++ ['\r', '\n']) = s ++ ['\n'] := by
  unfold normNl
  rw [replace2_app _ _ _ s ['\r', '\n'] (Or.inr (by simp)), replace2_noop _ _ _ s hr]
  have h1 : replace2 '\r' '\n' '\n' ['\r', '\n'] = ['\n'] := by simp [replace2]
  rw [h1, replace2_app _ _ _ s ['\n'] (Or.inr (by simp)), replace2_noop _ _ _ s hn]
  rfl

/-! ### the crc32 newline restoration -/

theorem getLast?_append_singleton {α} (l : List α) (x : α) : (l ++ [x]).getLast? = some x := by
  simp

/-- characters: what `exec` returns after the `"\n=> "` override (`strip a trailing CR, add LF`)
    is what the normalisation makes of the whole output -/
theorem normNl_crc (d : List Char) :
    UBoot.stripCr (normNl (d ++ ['\r'])) ++ ['\n'] = normNl (d ++ ['\r', '\n']) := by
  unfold normNl
  have hp1 : replace2 '\r' '\n' '\n' (d ++ ['\r']) = replace2 '\r' '\n' '\n' d ++ ['\r'] := by
    rw [replace2_app _ _ _ d ['\r'] (Or.inr (by simp))]; rfl
  have hp1' : replace2 '\r' '\n' '\n' (d ++ ['\r', '\n']) = replace2 '\r' '\n' '\n' d ++ ['\n'] := by
    rw [replace2_app _ _ _ d ['\r', '\n'] (Or.inr (by simp))]
    have : replace2 '\r' '\n' '\n' ['\r', '\n'] = ['\n'] := by simp [replace2]
    rw [this]
  rw [hp1, hp1']
  generalize replace2 '\r' '\n' '\n' d = e
  have hrhs : replace2 '\n' '\r' '\n' (e ++ ['\n']) = replace2 '\n' '\r' '\n' e ++ ['\n'] := by
    rw [replace2_app _ _ _ e ['\n'] (Or.inr (by simp))]; rfl
  rw [hrhs]
  by_cases hl : e.getLast? = some '\n'
  · -- `… \n \r`: the pair becomes `\n`, nothing is left to strip
    obtain ⟨e', rfl⟩ : ∃ e', e = e' ++ ['\n'] := by
      cases h : e.reverse with
      | nil =>
        have : e = [] := by simpa using h
        subst this; simp at hl
      | cons z t =>
        have he : e = t.reverse ++ [z] := by
          have := congrArg List.reverse h
          simpa using this
        subst he
        simp only [getLast?_append_singleton, Option.some.injEq] at hl
        subst hl
        exact ⟨_, rfl⟩
    have h2 : replace2 '\n' '\r' '\n' (e' ++ ['\n'] ++ ['\r']) = replace2 '\n' '\r' '\n' e' ++ ['\n'] := by
      rw [List.append_assoc, replace2_app _ _ _ e' (['\n'] ++ ['\r']) (Or.inr (by simp))]
      have : replace2 '\n' '\r' '\n' (['\n'] ++ ['\r']) = ['\n'] := by simp [replace2]
      rw [this]
    have h3 : replace2 '\n' '\r' '\n' (e' ++ ['\n']) = replace2 '\n' '\r' '\n' e' ++ ['\n'] := by
      rw [replace2_app _ _ _ e' ['\n'] (Or.inr (by simp))]; rfl
    rw [h2, h3]
    unfold UBoot.stripCr
    rw [getLast?_append_singleton]
    simp
  · have h2 : replace2 '\n' '\r' '\n' (e ++ ['\r']) = replace2 '\n' '\r' '\n' e ++ ['\r'] := by
      rw [replace2_app _ _ _ e ['\r'] (Or.inl hl)]; rfl
    rw [h2]
    unfold UBoot.stripCr
    rw [getLast?_append_singleton]
    simp

/-- **bytes**: for EVERY byte string `b`, restoring the newline after the `"\n=> "` override gives
    the text of `b` followed by CR LF -/
theorem text_crc_restore (b : Bytes) :
    UBoot.stripCr (text (b ++ [13])) ++ ['\n'] = text (b ++ [13, 10]) := by
  unfold text
  rw [decode_sep b 13 [] (by decide), decode_sep b 13 [10] (by decide)]
  have h1 : decodeReplace [10] = ['\n'] := by decide
  rw [decode_nil, h1]
  exact normNl_crc (decodeReplace b)

/-! ### the serial driver (`\\n` → `\\r\\n`) -/

theorem cook_append (a b : Bytes) : Tty.cook (a ++ b) = Tty.cook a ++ Tty.cook b := by
  simp [Tty.cook, List.flatMap_append]

theorem cook_noLf : ∀ (a : Bytes), (∀ c ∈ a, c ≠ Tty.LF) → Tty.cook a = a
  | [], _ => rfl
  | c :: t, h => by
    have hc : (c == Tty.LF) = false := by simpa using h c (List.mem_cons_self ..)
    have ht := cook_noLf t (fun x hx => h x (List.mem_cons_of_mem _ hx))
    unfold Tty.cook at ht ⊢
    simp only [List.flatMap_cons, hc, Bool.false_eq_true, if_false, ht]
    rfl

theorem cook_lf : Tty.cook [10] = [13, 10] := by decide

/-! ### `int()` of what `echo $?` prints -/

theorem isDigit_bounds {c : Char} (h : c.isDigit = true) : 48 ≤ c.toNat ∧ c.toNat ≤ 57 := by
  simp only [Char.isDigit, Bool.and_eq_true, decide_eq_true_eq] at h
  have h1 : c.val.toNat = c.toNat := rfl
  have e0 : ('0' : Char).val.toNat = 48 := rfl
  have e9 : ('9' : Char).val.toNat = 57 := rfl
  obtain ⟨a, b⟩ := h
  have a' : ('0' : Char).val ≤ c.val := a
  rw [UInt32.le_iff_toNat_le] at a' b
  omega

theorem digits_isDigit (n : Nat) : ∀ c ∈ Nat.toDigits 10 n, c.isDigit = true :=
  fun _ hc => Nat.isDigit_of_mem_toDigits (by decide) (by decide) hc

theorem ofNat_toNat_byte {c : Char} (h : c.toNat < 128) : Char.ofNat (UInt8.ofNat c.toNat).toNat = c := by
  have : (UInt8.ofNat c.toNat).toNat = c.toNat := by
    rw [UInt8.toNat_ofNat']
    omega
  rw [this, Char.ofNat_toNat]

theorem statusBytes_ascii (n : Nat) : ∀ c ∈ UBoot.statusBytes n, c < 0x80 := by
  intro c hc
  simp only [UBoot.statusBytes, List.mem_map] at hc
  obtain ⟨d, hd, rfl⟩ := hc
  have := isDigit_bounds (digits_isDigit n d hd)
  rw [UInt8.lt_iff_toNat_lt, UInt8.toNat_ofNat']
  have e : (0x80 : UInt8).toNat = 128 := rfl
  omega

theorem decode_statusBytes (n : Nat) : decodeReplace (UBoot.statusBytes n) = Nat.toDigits 10 n := by
  rw [decode_all_ascii _ (statusBytes_ascii n)]
  unfold UBoot.statusBytes
  rw [List.map_map]
  have : ∀ d ∈ Nat.toDigits 10 n, ((fun c : Byte => Char.ofNat c.toNat) ∘ fun c : Char => UInt8.ofNat c.toNat) d = d := by
    intro d hd
    have := isDigit_bounds (digits_isDigit n d hd)
    exact ofNat_toNat_byte (by omega)
  rw [List.map_congr_left this, List.map_id']
  
theorem digits_noCrLf (n : Nat) : '\r' ∉ Nat.toDigits 10 n ∧ '\n' ∉ Nat.toDigits 10 n := by
  constructor <;> intro h <;> have := isDigit_bounds (digits_isDigit n _ h) <;> simp at this

/-- what tbot reads as the answer to `echo $?` -/
theorem text_status (n : Nat) : text (UBoot.statusBytes n ++ [13, 10]) = Nat.toDigits 10 n ++ ['\n'] := by
  unfold text
  rw [decode_sep _ 13 [10] (by decide), decode_statusBytes]
  have h1 : decodeReplace [10] = ['\n'] := by decide
  rw [h1]
  exact normNl_line _ (digits_noCrLf n).1 (digits_noCrLf n).2

theorem dropWhile_head_neg {α} (p : α → Bool) : ∀ (l : List α), (∀ x, l.head? = some x → p x = false) → l.dropWhile p = l
  | [], _ => rfl
  | x :: t, h => by
    rw [List.dropWhile_cons_of_neg]
    simp [h x rfl]

/-- **`int(str(n) + "\n") = n`** as `Shell.parseInt` computes it -/
theorem parseInt_digits (n : Nat) : Shell.parseInt (Nat.toDigits 10 n ++ ['\n']) = some n := by
  have hne : Nat.toDigits 10 n ≠ [] := Nat.toDigits_ne_nil
  have hdig := digits_isDigit n
  have hws : ∀ c ∈ Nat.toDigits 10 n, (c == ' ' || c == '\n' || c == '\t' || c == '\r') = false := by
    intro c hc
    have := isDigit_bounds (hdig c hc)
    have h1 : c ≠ ' ' := by intro h; subst h; simp at this
    have h2 : c ≠ '\n' := by intro h; subst h; simp at this
    have h3 : c ≠ '\t' := by intro h; subst h; simp at this
    have h4 : c ≠ '\r' := by intro h; subst h; simp at this
    simp [h1, h2, h3, h4]
  unfold Shell.parseInt
  simp only
  generalize hds : Nat.toDigits 10 n = ds at hne hdig hws
  have e1 : (ds ++ ['\n']).dropWhile (fun c => c == ' ' || c == '\n' || c == '\t' || c == '\r') = ds ++ ['\n'] := by
    apply dropWhile_head_neg
    intro x hx
    cases ds with
    | nil => exact absurd rfl hne
    | cons d t =>
      simp only [List.cons_append, List.head?_cons, Option.some.injEq] at hx
      subst hx
      exact hws _ (List.mem_cons_self ..)
  rw [e1]
  have e2 : (ds ++ ['\n']).reverse = '\n' :: ds.reverse := by simp
  rw [e2]
  have e3 : ('\n' :: ds.reverse).dropWhile (fun c => c == ' ' || c == '\n' || c == '\t' || c == '\r') = ds.reverse := by
    rw [List.dropWhile_cons_of_pos (by decide)]
    apply dropWhile_head_neg
    intro x hx
    have : x ∈ ds.reverse := List.mem_of_mem_head? hx
    exact hws x (List.mem_reverse.mp this)
  rw [e3, List.reverse_reverse]
  have e4 : ds.isEmpty = false := by
    cases ds with
    | nil => exact absurd rfl hne
    | cons _ _ => rfl
  have e5 : ds.all Char.isDigit = true := List.all_eq_true.mpr hdig
  simp only [e4, e5, Bool.not_true, Bool.or_self, Bool.false_eq_true, if_false, Option.some.injEq]
  have e6 : ds.foldl (fun acc c => acc * 10 + (c.toNat - 48)) 0 = Nat.ofDigitChars 10 ds 0 := by
    rw [Nat.ofDigitChars_eq_foldl]
    congr 1
    funext acc c
    rw [Nat.mul_comm]
    rfl
  rw [e6, ← hds]
  exact Nat.ofDigitChars_ten_toDigits

/-! ### `env()`: the slice taken out of `printenv`'s line -/

theorem char_of_byte_eq {c : Byte} (hlt : c < 128) {k : Byte} (hk : k < 128)
    (h : Char.ofNat c.toNat = Char.ofNat k.toNat) : c = k := by
  have hc := lt80_toNat hlt
  have hk' := lt80_toNat hk
  have := congrArg Char.toNat h
  rw [toNat_ofNat_valid _ (by omega), toNat_ofNat_valid _ (by omega)] at this
  exact UInt8.toNat_inj.mp this

theorem decode_noCrLf (b : Bytes) (h : ∀ c ∈ b, c ≠ 13 ∧ c ≠ 10) :
    '\r' ∉ decodeReplace b ∧ '\n' ∉ decodeReplace b := by
  constructor
  · intro hm
    obtain ⟨c, hc, hlt, heq⟩ := mem_decode_ascii b '\r' (by decide) hm
    have : c = 13 := char_of_byte_eq hlt (by decide) (by rw [heq]; rfl)
    exact (h c hc).1 this
  · intro hm
    obtain ⟨c, hc, hlt, heq⟩ := mem_decode_ascii b '\n' (by decide) hm
    have : c = 10 := char_of_byte_eq hlt (by decide) (by rw [heq]; rfl)
    exact (h c hc).2 this

/-- the text of `NAME=VALUE\n` as the console sends it, for CR/LF-free name and value -/
theorem text_printLine (var x : Bytes) (hv : ∀ c ∈ var, c ≠ 13 ∧ c ≠ 10) (hx : ∀ c ∈ x, c ≠ 13 ∧ c ≠ 10) :
    text (Tty.cook (UBoot.printLine var x)) = decodeReplace var ++ '=' :: decodeReplace x ++ ['\n'] := by
  have hcook : Tty.cook (UBoot.printLine var x) = var ++ 61 :: (x ++ [13, 10]) := by
    unfold UBoot.printLine
    rw [cook_append, cook_noLf (var ++ UBoot.EQ :: x) (by
      intro c hc
      rcases List.mem_append.mp hc with hc | hc
      · exact (hv c hc).2
      · rcases List.mem_cons.mp hc with rfl | hc
        · decide
        · exact (hx c hc).2)]
    have : Tty.cook [UBoot.LF] = [13, 10] := by decide
    rw [this]
    simp only [List.append_assoc, List.cons_append]
    rfl
  rw [hcook]
  unfold text
  rw [decode_sep var 61 _ (by decide), decode_sep x 13 [10] (by decide)]
  have h1 : decodeReplace [10] = ['\n'] := by decide
  rw [h1]
  have hs : decodeReplace var ++ Char.ofNat (61 : Byte).toNat :: (decodeReplace x ++ Char.ofNat (13 : Byte).toNat :: ['\n'])
      = (decodeReplace var ++ '=' :: decodeReplace x) ++ ['\r', '\n'] := by
    simp only [List.append_assoc, List.cons_append]
    rfl
  rw [hs, normNl_line]
  · intro h
    rcases List.mem_append.mp h with h | h
    · exact (decode_noCrLf var hv).1 h
    · rcases List.mem_cons.mp h with h | h
      · exact absurd h (by decide)
      · exact (decode_noCrLf x hx).1 h
  · intro h
    rcases List.mem_append.mp h with h | h
    · exact (decode_noCrLf var hv).2 h
    · rcases List.mem_cons.mp h with h | h
      · exact absurd h (by decide)
      · exact (decode_noCrLf x hx).2 h

/-- **`output[len(var) + 1 : -1]`** of `printenv`'s line is the value -/
theorem sliceValue_printLine (var x : Bytes) (hv : ∀ c ∈ var, c ≠ 13 ∧ c ≠ 10) (hx : ∀ c ∈ x, c ≠ 13 ∧ c ≠ 10) :
    UBoot.sliceValue var (text (Tty.cook (UBoot.printLine var x))) = decodeReplace x := by
  rw [text_printLine var x hv hx]
  unfold UBoot.sliceValue
  have e : (decodeReplace var ++ '=' :: decodeReplace x ++ ['\n'])
      = decodeReplace var ++ ('=' :: (decodeReplace x ++ ['\n'])) := by simp
  rw [e, List.drop_append]
  simp

end UBootText
