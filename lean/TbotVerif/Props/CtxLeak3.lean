import TbotVerif.Props.CtxLeak2
set_option linter.unusedSimpArgs false
set_option linter.unusedVariables false
/-! Second invariant: `init`, entering a request, all levels. -/
namespace Ctx

theorem enterDeps_2 {kk : Nat} {re : Nat → Bool → St → St × (Frame ⊕ Exc)} (hS : DepSpec re)
    (h2 : Dep2 kk re) (c n0 : Nat) :
    ∀ (ds : List (Nat × Bool)) (n : Nat) (D X : Nat → Prop) (Q : List Frame) (B : List Nat) (s : St)
      (L : List Frame), Inv B s → (∀ d ∈ ds, d.1 < c) → (∀ d ∈ ds, d.1 < kk ∧ d.1 < n) →
      (∀ d ∈ ds, ∀ b ∈ B, d.1 < b) → n0 ≤ s.nFrame → DepsOk c n0 L s → Inv2 n D X (L ++ Q) s →
      Inv2 n D X ((enterDepsWith re ds s L).2.1 ++ Q) (enterDepsWith re ds s L).1 ∧
      Eff s (enterDepsWith re ds s L).1 := by
  intro ds
  induction ds with
  | nil =>
    intro n D X Q B s L _ _ _ _ _ _ hI2
    exact ⟨hI2, Eff.refl s⟩
  | cons d ds ih =>
    intro n D X Q B s L h hc hkn hb hn hd hI2
    unfold enterDepsWith
    have h1 := hS B d.1 d.2 s h (hb d (by simp))
    have q1 := h2 n D X (L ++ Q) B d.1 d.2 s (hkn d (by simp)).1 (hkn d (by simp)).2 h (hb d (by simp)) hI2
    generalize re d.1 d.2 s = r at h1 q1 ⊢
    obtain ⟨s1, res⟩ := r
    cases res with
    | inr e =>
      simp only
      exact ⟨q1.2.2 e rfl, q1.1⟩
    | inl f =>
      simp only
      obtain ⟨hfo, hfh, hfc, hfid⟩ := h1.2.2 f rfl
      simp only at hfo hfh hfid h1 q1
      have hp1 : Pend L s1 := hd.pend.tr h1.2.1.tr h.idLt (by simp)
      have hnotin : f ∉ L := by
        intro hm
        have := h.idLt f (hd.pend.isOpen f hm)
        omega
      have hd1 : DepsOk c n0 (L ++ [f]) s1 := by
        refine ⟨⟨?_, ?_, ?_⟩, ?_, ?_⟩
        · rw [List.nodup_append]
          refine ⟨hp1.nodup, by simp, ?_⟩
          intro a ha b hb
          simp at hb
          subst hb
          intro hab
          exact hnotin (hab ▸ ha)
        · intro g hg
          rcases List.mem_append.mp hg with hg | hg
          · exact hp1.isOpen g hg
          · simp at hg; subst hg; exact hfo
        · intro g hg
          rcases List.mem_append.mp hg with hg | hg
          · exact hp1.notHeld g hg
          · simp at hg; subst hg; exact hfh
        · intro g hg
          rcases List.mem_append.mp hg with hg | hg
          · exact hd.small g hg
          · simp at hg; subst hg; rw [hfc]; exact hc d (by simp)
        · intro g hg
          rcases List.mem_append.mp hg with hg | hg
          · exact hd.fresh g hg
          · simp at hg; subst hg; omega
      have hI2' : Inv2 n D X ((L ++ [f]) ++ Q) s1 :=
        (q1.2.1 f rfl).weaken (fun g hg => by
          simp at hg ⊢
          rcases hg with rfl | hg | hg
          · exact Or.inr (Or.inl rfl)
          · exact Or.inl hg
          · exact Or.inr (Or.inr hg)) (fun _ hx => hx)
      have := ih n D X Q B s1 (L ++ [f]) h1.1 (fun d' hd' => hc d' (List.mem_cons_of_mem _ hd'))
        (fun d' hd' => hkn d' (List.mem_cons_of_mem _ hd'))
        (fun d' hd' => hb d' (List.mem_cons_of_mem _ hd')) (Nat.le_trans hn h1.2.1.tr.nFrame_le) hd1 hI2'
      exact ⟨this.1, q1.1.trans this.2⟩

section
variable (cfg : Cfg)

theorem initClsF_2 {kk : Nat} {re : Nat → Bool → St → St × (Frame ⊕ Exc)}
    {rx : Frame → St → Option Exc → R} (hwf : cfg.depsBelow) (hS : DepSpec re) (h2 : Dep2 kk re)
    (hSx : RxSpec rx) (hx2 : Rx2 kk rx) : Ini2 (kk + 1) (initClsF cfg re rx) := by
  intro n D X Q B c s hk hn h hb hi hI2
  have hcB : c ∉ B := fun hm => Nat.lt_irrefl _ (hb _ hm)
  have hal : s.alive c = false := by simp [St.alive, St.mgr, hi]
  unfold initClsF
  simp only [hal, Bool.false_eq_true, if_false]
  have hsa : s.setMgr c { s.mgr c with avail := true } = s.setAvail c true := rfl
  rw [hsa]
  have ha : Inv (c :: B) (s.setAvail c true) :=
    (h.setAvail c true).busy (by simp [St.setAvail, hi])
  have ea : Eff s (s.setAvail c true) := ⟨rfl, rfl, rfl, fun _ hx => hx⟩
  have hlt : ∀ d ∈ cfg.depsOf c, ∀ b ∈ c :: B, d.1 < b := by
    intro d hd b hbm
    rcases List.mem_cons.mp hbm with rfl | hbm
    · exact hwf _ d hd
    · exact Nat.lt_trans (hwf c d hd) (hb b hbm)
  have hkn : ∀ d ∈ cfg.depsOf c, d.1 < kk ∧ d.1 < n := by
    intro d hd
    have := hwf c d hd
    exact ⟨by omega, by omega⟩
  have hE := enterDeps_spec hS c s.nFrame (cfg.depsOf c) (c :: B) (s.setAvail c true) [] ha
    (hwf c) hlt (Nat.le_refl _) ⟨Pend.nil _, by simp, by simp⟩
  have qE := enterDeps_2 hS h2 c s.nFrame (cfg.depsOf c) n D X Q (c :: B) (s.setAvail c true) [] ha
    (hwf c) hkn hlt (Nat.le_refl _) ⟨Pend.nil _, by simp, by simp⟩ (by simpa using hI2.setAvail c true)
  generalize enterDepsWith re (cfg.depsOf c) (s.setAvail c true) [] = r at hE qE ⊢
  obtain ⟨s1, L, eo⟩ := r
  simp only at hE qE ⊢
  obtain ⟨hI1, hS1, hD1⟩ := hE
  have hm1 : s1.mgrs c = (s.setAvail c true).mgrs c := hS1.keep c (by simp)
  have hinst1 : (s1.mgrs c).inst = none := by
    rw [hm1]; simp [St.setAvail, hi]
  have hav1 : (s1.mgrs c).avail = true := by
    rw [hm1]; simp [St.setAvail]
  have hltL : ∀ f ∈ L.reverse, f.cls < kk ∧ f.cls < n ∧ ∀ b ∈ c :: B, f.cls < b := by
    intro f hf
    have hfc := hD1.small f (List.mem_reverse.mp hf)
    refine ⟨by omega, by omega, ?_⟩
    intro b hbm
    rcases List.mem_cons.mp hbm with rfl | hbm
    · exact hfc
    · exact Nat.lt_trans hfc (hb b hbm)
  have hrev : ∀ {s' : St}, Inv2 n D X (L ++ Q) s' → Inv2 n D X (L.reverse ++ Q) s' :=
    fun h' => h'.weaken (fun g hg => by
      rcases List.mem_append.mp hg with h'' | h''
      · exact List.mem_append_left _ (List.mem_reverse.mpr h'')
      · exact List.mem_append_right _ h'') (fun _ hx => hx)
  cases eo with
  | some ex =>
    simp only
    have q := exitFrames_2 hSx hx2 L.reverse n D X Q (c :: B) s1 (some ex) hI1 hD1.pend.reverse hltL
      (hrev qE.1)
    have h2' := exitFrames_spec hSx L.reverse (c :: B) s1 (some ex) hI1 hD1.pend.reverse
      (fun f hf => (hltL f hf).2.2)
    generalize exitFramesWith rx L.reverse s1 (some ex) = r2 at q h2' ⊢
    refine ⟨(ea.trans qE.2).trans q.2.1, Or.inr ⟨q.1, ?_⟩⟩
    rw [h2'.2.keep c (by simp)]; exact hinst1
  | none =>
    simp only
    have hmu := machineUp_new cfg (s := s1) (c := c)
    have hms := machineUp_same cfg (({ s1 with nObj := s1.nObj + 1 } : St).setObj s1.nObj
      { cls := c, rc := 0, up := false }) s1.nObj
    simp only at hmu
    generalize machineUp cfg (({ s1 with nObj := s1.nObj + 1 } : St).setObj s1.nObj
      { cls := c, rc := 0, up := false }) s1.nObj = r1 at hmu hms ⊢
    have hsame : Same2 s1 r1.1 := ⟨hms.1, hms.2.1, hms.2.2.keepAlive, hms.2.2.order⟩
    have e1 : Eff s1 r1.1 := ⟨hms.2.2.keepAlive, hms.2.2.roeDefault, hms.2.2.openCtx,
      fun x hx => by rw [hms.2.2.order]; exact hx⟩
    cases hr1 : r1.2 with
    | some ex =>
      simp only
      have hx := hmu.2 ex hr1
      have hI2' : Inv (c :: B) r1.1 := (hI1.failedInit ex).ext hx
      have hp2 : Pend L.reverse r1.1 := by
        refine Pend.reverse ⟨hD1.pend.nodup, ?_, ?_⟩
        · intro f hf; rw [hx.open_]; exact hD1.pend.isOpen f hf
        · intro f hf k; rw [hx.mgrs]; exact hD1.pend.notHeld f hf k
      have q := exitFrames_2 hSx hx2 L.reverse n D X Q (c :: B) r1.1 (some ex) hI2' hp2 hltL
        (hrev (qE.1.same hsame))
      have h2' := exitFrames_spec hSx L.reverse (c :: B) r1.1 (some ex) hI2' hp2
        (fun f hf => (hltL f hf).2.2)
      generalize exitFramesWith rx L.reverse r1.1 (some ex) = r2 at q h2' ⊢
      refine ⟨((ea.trans qE.2).trans e1).trans q.2.1, Or.inr ⟨q.1, ?_⟩⟩
      rw [h2'.2.keep c (by simp), hsame.mgrs]; exact hinst1
    | none =>
      simp only
      have hx := hmu.1 hr1
      have hheld1 : (s1.mgrs c).held = [] := hI1.deadHeld c hinst1
      -- the final state has the managers / open frames of `s1.created c L`
      have hfin : Same2 (s1.created c L)
          (r1.1.setMgr c { r1.1.mgr c with inst := some s1.nObj, held := L }) := by
        refine ⟨?_, ?_, ?_, ?_⟩
        · simp only [St.setMgr, St.created]; exact hsame.open_
        · simp only [St.setMgr, St.created, St.mgr]; rw [hsame.mgrs]
        · simp only [St.setMgr, St.created]; exact hsame.keepAlive
        · simp only [St.setMgr, St.created]; exact hsame.order
      have qc : Inv2 n D (fun x => X x ∨ x = c) Q (s1.created c L) := qE.1.created hn hheld1
      refine ⟨?_, Or.inl ⟨qc.same hfin, by simp [St.setMgr], ?_, trivial⟩⟩
      · have e2 : Eff r1.1 (r1.1.setMgr c { r1.1.mgr c with inst := some s1.nObj, held := L }) :=
          ⟨rfl, rfl, rfl, fun _ hx => hx⟩
        exact ((ea.trans qE.2).trans e1).trans e2
      · simp only [St.setMgr, St.mgr, if_true]
        rw [hsame.mgrs]; exact hav1

theorem Inv2.orderGrow {n : Nat} {D X : Nat → Prop} {Q : List Frame} {s s' : St}
    (h : Inv2 n D X Q s) (ho : s'.open_ = s.open_) (hm : s'.mgrs = s.mgrs)
    (hk : s'.keepAlive = s.keepAlive) (hord : ∀ c ∈ s.order, c ∈ s'.order) : Inv2 n D X Q s' := by
  constructor
  · rw [ho, hm]; exact h.dh
  · rw [hk, hm]; exact h.nd
  · intro c hi
    rw [hm] at hi
    exact (h.ord c hi).imp (hord c) id
  · rw [hm]; exact h.bnd

/-- the instance is alive and available: the request is admitted -/
theorem admitStep_2ok {td : Nat → St → R} {n : Nat} {D X : Nat → Prop} {Q : List Frame}
    {B : List Nat} (dep : Bool) {c : Nat} (excl roe : Bool) {s : St} (h : Inv B s) (hcB : c ∉ B)
    {o : Nat} (hi : (s.mgrs c).inst = some o) (hav : (s.mgrs c).avail = true)
    (hI2 : Inv2 n D (fun x => X x ∨ x = c) Q s) :
    Eff s (admitStep cfg td dep c excl roe s).1 ∧
    ∃ f, (admitStep cfg td dep c excl roe s).2 = .inl f ∧
      Inv2 n D X (f :: Q) (admitStep cfg td dep c excl roe s).1 := by
  obtain ⟨hup, hrc⟩ := h.instLive c o hi hcB
  have hpos : 1 ≤ (s.objs o).rc := by omega
  rw [admitStep_ok cfg hi hav hpos]
  simp only
  generalize hfr : ({ id := s.nFrame, cls := c, obj := o, excl := excl, roe := roe, dep := dep } : Frame) = fr
  have hfc : fr.cls = c := by subst hfr; rfl
  have q1 : Inv2 n D (fun x => (X x ∨ x = c) ∨ x = fr.cls) (fr :: Q) (s.frameIn fr (!excl)) :=
    hI2.frameIn fr (!excl)
  have q1' : Inv2 n D (fun x => X x ∨ x = c) (fr :: Q) (s.frameIn fr (!excl)) :=
    q1.weaken (fun _ hg => hg) (fun x hx => by
      rcases hx with hx | hx
      · exact hx
      · exact Or.inr (hx.trans hfc))
  -- the final state
  have hord : ∀ x ∈ (s.frameIn fr (!excl)).order,
      x ∈ ((if (s.frameIn fr (!excl)).order.contains c then s.frameIn fr (!excl)
        else { s.frameIn fr (!excl) with order := (s.frameIn fr (!excl)).order ++ [c] }).log
          (.yielded dep c o)).order := by
    intro x hx
    simp only [St.log]
    split
    · exact hx
    · simp [hx]
  have hcin : c ∈ ((if (s.frameIn fr (!excl)).order.contains c then s.frameIn fr (!excl)
        else { s.frameIn fr (!excl) with order := (s.frameIn fr (!excl)).order ++ [c] }).log
          (.yielded dep c o)).order := by
    simp only [St.log]
    split
    · rename_i hc; simpa using hc
    · simp
  have hfin_open : ((if (s.frameIn fr (!excl)).order.contains c then s.frameIn fr (!excl)
        else { s.frameIn fr (!excl) with order := (s.frameIn fr (!excl)).order ++ [c] }).log
          (.yielded dep c o)).open_ = (s.frameIn fr (!excl)).open_ := by
    simp only [St.log]; split <;> rfl
  have hfin_mgrs : ((if (s.frameIn fr (!excl)).order.contains c then s.frameIn fr (!excl)
        else { s.frameIn fr (!excl) with order := (s.frameIn fr (!excl)).order ++ [c] }).log
          (.yielded dep c o)).mgrs = (s.frameIn fr (!excl)).mgrs := by
    simp only [St.log]; split <;> rfl
  have hfin_ka : ((if (s.frameIn fr (!excl)).order.contains c then s.frameIn fr (!excl)
        else { s.frameIn fr (!excl) with order := (s.frameIn fr (!excl)).order ++ [c] }).log
          (.yielded dep c o)).keepAlive = (s.frameIn fr (!excl)).keepAlive := by
    simp only [St.log]; split <;> rfl
  have hfin_roe : ((if (s.frameIn fr (!excl)).order.contains c then s.frameIn fr (!excl)
        else { s.frameIn fr (!excl) with order := (s.frameIn fr (!excl)).order ++ [c] }).log
          (.yielded dep c o)).roeDefault = (s.frameIn fr (!excl)).roeDefault := by
    simp only [St.log]; split <;> rfl
  have hfin_oc : ((if (s.frameIn fr (!excl)).order.contains c then s.frameIn fr (!excl)
        else { s.frameIn fr (!excl) with order := (s.frameIn fr (!excl)).order ++ [c] }).log
          (.yielded dep c o)).openCtx = (s.frameIn fr (!excl)).openCtx := by
    simp only [St.log]; split <;> rfl
  generalize ((if (s.frameIn fr (!excl)).order.contains c then s.frameIn fr (!excl)
        else { s.frameIn fr (!excl) with order := (s.frameIn fr (!excl)).order ++ [c] }).log
          (.yielded dep c o)) = sf at hord hcin hfin_open hfin_mgrs hfin_ka hfin_roe hfin_oc ⊢
  have q2 : Inv2 n D (fun x => X x ∨ x = c) (fr :: Q) sf :=
    q1'.orderGrow hfin_open hfin_mgrs hfin_ka hord
  refine ⟨⟨hfin_ka, hfin_roe, hfin_oc, fun x hx => hord x hx⟩, fr, rfl, q2.unexempt ?_ ?_⟩
  · intro _ _ hu
    rw [hfin_mgrs] at hu
    simp [St.frameIn, hfc] at hu
  · intro _; exact Or.inl hcin

theorem admitStep_2 {td : Nat → St → R} {n : Nat} {D X : Nat → Prop} {Q : List Frame}
    {B : List Nat} (dep : Bool) {c : Nat} (excl roe : Bool) {s : St} (h : Inv B s) (hcB : c ∉ B)
    (hI2 : Inv2 n D X Q s) :
    Eff s (admitStep cfg td dep c excl roe s).1 ∧
    (∀ f, (admitStep cfg td dep c excl roe s).2 = .inl f →
      Inv2 n D X (f :: Q) (admitStep cfg td dep c excl roe s).1) ∧
    (∀ e, (admitStep cfg td dep c excl roe s).2 = .inr e →
      Inv2 n D X Q (admitStep cfg td dep c excl roe s).1) := by
  cases hi : (s.mgrs c).inst with
  | none =>
    have : admitStep cfg td dep c excl roe s = ((s.newExc .ctx).1, .inr (s.newExc .ctx).2) := by
      unfold admitStep; simp [St.mgr, hi]
    rw [this]
    have hs := same2_newExc s .ctx
    exact ⟨Eff.of_sc hs.2, by simp, fun _ _ => hI2.same hs.1⟩
  | some o =>
    cases hav : (s.mgrs c).avail with
    | false =>
      have : admitStep cfg td dep c excl roe s = ((s.newExc .ctx).1, .inr (s.newExc .ctx).2) := by
        unfold admitStep; simp [St.mgr, hi, hav]
      rw [this]
      have hs := same2_newExc s .ctx
      exact ⟨Eff.of_sc hs.2, by simp, fun _ _ => hI2.same hs.1⟩
    | true =>
      obtain ⟨he, f, hf, hq⟩ := admitStep_2ok cfg (td := td) dep excl roe h hcB hi hav
        (hI2.weaken (fun _ hg => hg) (fun _ hx => Or.inl hx))
      refine ⟨he, ?_, ?_⟩
      · intro f' hf'
        rw [hf] at hf'
        cases hf'
        exact hq
      · intro e he'
        rw [hf] at he'
        cases he'

theorem reqEnterF_2 {kk : Nat} {td ini : Nat → St → R} (hS : TdSpec td) (h2 : Td2 kk td)
    (hSi : IniSpec ini) (hi2 : Ini2 kk ini) : Re2 kk (reqEnterF cfg td ini) := by
  intro n D X Q B dep c reset excl roe s hk hn h hb hI2
  have hcB : c ∉ B := fun hm => Nat.lt_irrefl _ (hb _ hm)
  unfold reqEnterF
  simp only
  split
  · have hs := same2_newExc s .ctx
    exact ⟨Eff.of_sc hs.2, by simp, fun _ _ => hI2.same hs.1⟩
  · -- reset
    have h0 := resetStep_spec hS reset h hb
    have q0 : Inv2 n D X Q (resetStep td c reset s).1 ∧ Eff s (resetStep td c reset s).1 := by
      unfold resetStep
      split
      · have := h2 n D X Q B c s hk hn h hb hI2
        exact ⟨this.1, this.2.1⟩
      · exact ⟨hI2, Eff.refl s⟩
    generalize resetStep td c reset s = r0 at h0 q0 ⊢
    cases he0 : r0.2 with
    | some ex =>
      simp only
      exact ⟨q0.2, by simp, fun _ _ => q0.1⟩
    | none =>
      simp only
      have h1 := ensureStep_spec hSi h0.1 hb
      -- init if necessary
      by_cases hal : r0.1.alive c = true
      · have hr1 : ensureStep ini c r0.1 = (r0.1, none) := by simp [ensureStep, hal]
        rw [hr1] at h1 ⊢
        simp only
        have := admitStep_2 cfg (td := td) dep excl (roe.getD s.roeDefault) h0.1 hcB q0.1
        exact ⟨q0.2.trans this.1, this.2.1, this.2.2⟩
      · have hno : (r0.1.mgrs c).inst = none := by
          simpa [St.alive, St.mgr] using hal
        have hr1 : ensureStep ini c r0.1 = ini c r0.1 := by
          simp [ensureStep, hal]
        rw [hr1] at h1 ⊢
        have q1 := hi2 n D X Q B c r0.1 hk hn h0.1 hb hno q0.1
        generalize ini c r0.1 = r1 at h1 q1 ⊢
        cases he1 : r1.2 with
        | some ex =>
          simp only
          rcases q1.2 with ⟨_, _, _, hnone⟩ | ⟨qq, _⟩
          · rw [he1] at hnone; cases hnone
          · exact ⟨q0.2.trans q1.1, by simp, fun _ _ => qq⟩
        | none =>
          simp only
          rcases q1.2 with ⟨qq, hin, hav, _⟩ | ⟨qq, hin⟩
          · obtain ⟨o, ho⟩ := Option.ne_none_iff_exists'.mp hin
            obtain ⟨he, f, hf, hq⟩ := admitStep_2ok cfg (td := td) dep excl (roe.getD s.roeDefault)
              h1.1 hcB ho hav qq
            refine ⟨(q0.2.trans q1.1).trans he, ?_, ?_⟩
            · intro f' hf'
              rw [hf] at hf'
              cases hf'
              exact hq
            · intro e he'
              rw [hf] at he'
              cases he'
          · have := admitStep_2 cfg (td := td) dep excl (roe.getD s.roeDefault) h1.1 hcB qq
            exact ⟨(q0.2.trans q1.1).trans this.1, this.2.1, this.2.2⟩

end

end Ctx
