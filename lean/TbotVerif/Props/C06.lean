import TbotVerif.Props.C06Spec
import TbotVerif.Props.ChanCase
/-! C06 — "Timeouts are overall deadlines: never exceeded, never cut short".

    * `C06.op_spec`: every operation, started in any channel state, satisfies `Spec.c06`;
    * `C06.case_spec`: so does every operation of every well-formed case;
    * corollaries: without a timeout the model never produces a `TimeoutError`
      (`no_timeout_*`); `read_until_timeout (some T)` never raises `TimeoutError` and a normal
      return happens exactly at `t0 + T` (`rut_exact`); every timed method ends no later than
      its deadline (`*_deadline`).

    The proofs rest on the predicate `C06.Timed` (`Props/C06Time.lean`), established for every
    loop of the model in `Props/C06Loops.lean` and translated to the Spec's clauses in
    `Props/C06Spec.lean`.  The hypothesis `Good` of `op_spec` is not used: the deadline
    arithmetic holds in every state (it is kept for uniformity with `C03.op_spec` and
    `ChanCase.foldOps_run`). -/

namespace C06
open Chan Spec C03

/-- the fields of the observation record in terms of the operation's run from the cut state -/
theorem obsOp_fields (op : Op) (r : RunSt) :
    (obsOp op r).1.res = (runOp op { r with st := cut r.st }).1
    ∧ (obsOp op r).1.t0 = r.st.now
    ∧ (obsOp op r).1.t1 = (runOp op { r with st := cut r.st }).2.st.now
    ∧ (obsOp op r).1.reads = (runOp op { r with st := cut r.st }).2.st.reads := by
  unfold obsOp
  exact ⟨rfl, rfl, rfl, rfl⟩

/-- an operation whose run from the cut state is `Timed` satisfies the Spec -/
theorem op_spec_of {q : Prop} (r : RunSt) (op : Op) (T : Option Nat) (s' : St) (recs : List ReadRec) (b : Bool)
    (hT : timeoutOf op = some T)
    (hsnd : (runOp op { r with st := cut r.st }).2.st = s')
    (ht : Timed q r.st.now T (cut r.st) s' recs b)
    (hq : r.st.slowDelay = none → q)
    (hres : (runOp op { r with st := cut r.st }).1 = .err .timeout → b = true)
    (hrut : ∀ t, op = .rut t → q ∧ (runOp op { r with st := cut r.st }).1 ≠ .err .timeout
              ∧ (∀ x, (runOp op { r with st := cut r.st }).1 = .text x → b = true)) :
    Spec.c06 (Cfg.ofRun r) op (obsOp op r).1 = true := by
  obtain ⟨f1, f2, f3, f4⟩ := obsOp_fields op r
  have hreads : s'.reads = recs := by rw [ht.reads]; rfl
  refine c06_of_timed (q := q) (Cfg.ofRun r) op T (obsOp op r).1 (cut r.st) s' b hT ?_ f2 ?_ hq ?_ ?_
  · rw [f4, hsnd, hreads]; exact ht
  · rw [f3, hsnd]
  · rw [f1]; exact hres
  · rw [f1]; exact hrut

theorem read_op (r : RunSt) (n : Option Nat) (t : Option Nat) :
    Spec.c06 (Cfg.ofRun r) (.read n t) (obsOp (.read n t) r).1 = true := by
  obtain ⟨recs, ht⟩ := read_timed True n t (cut r.st)
  refine op_spec_of r _ t (read n t (cut r.st)).2 recs _ rfl ?_ ht (fun _ => trivial) ?_
    (fun t' h => by cases h)
  · simp only [runOp]
    cases read n t (cut r.st) with
    | mk a s1 => cases a <;> rfl
  · simp only [runOp]
    cases read n t (cut r.st) with
    | mk a s1 =>
      cases a with
      | ok b => intro h; cases h
      | error e => intro h; cases h; rfl

theorem readIter_op (r : RunSt) (m : Option Nat) (t : Option Nat) (k : Option Nat) :
    Spec.c06 (Cfg.ofRun r) (.readIter m t k) (obsOp (.readIter m t k) r).1 = true := by
  obtain ⟨recs, ht, _⟩ := riTake_timed True (fuelFor (cut r.st)) k (riStart m t (cut r.st)) (cut r.st) []
    (Nat.le_refl _)
  refine op_spec_of r _ t (riTake (fuelFor (cut r.st)) k (riStart m t (cut r.st)) (cut r.st) []).2 recs _ rfl
    rfl ht (fun _ => trivial) ?_ (fun t' h => by cases h)
  intro h
  simp only [runOp] at h
  cases h

theorem readline_op (r : RunSt) (e : Bytes) (t : Option Nat) :
    Spec.c06 (Cfg.ofRun r) (.readline e t) (obsOp (.readline e t) r).1 = true := by
  obtain ⟨recs, ht⟩ := readline_timed True e t (cut r.st)
  refine op_spec_of r _ t (readline e t (cut r.st)).2 recs _ rfl ?_ ht (fun _ => trivial) ?_
    (fun t' h => by cases h)
  · simp only [runOp]
    cases readline e t (cut r.st) with
    | mk a s1 => cases a <;> rfl
  · simp only [runOp]
    cases readline e t (cut r.st) with
    | mk a s1 =>
      cases a with
      | ok b => intro h; cases h
      | error e => intro h; cases h; rfl

theorem expect_op (r : RunSt) (ps : List Pat) (t : Option Nat) :
    Spec.c06 (Cfg.ofRun r) (.expect ps t) (obsOp (.expect ps t) r).1 = true := by
  obtain ⟨recs, ht⟩ := expect_timed True ps t (cut r.st)
  refine op_spec_of r _ t (expect ps t (cut r.st)).2 recs _ rfl ?_ ht (fun _ => trivial) ?_
    (fun t' h => by cases h)
  · simp only [runOp]
    cases expect ps t (cut r.st) with
    | mk a s1 => cases a <;> rfl
  · simp only [runOp]
    cases expect ps t (cut r.st) with
    | mk a s1 =>
      cases a with
      | ok b => intro h; cases h
      | error e => intro h; cases h; rfl

theorem rup_op (r : RunSt) (p : Option Pat) (t : Option Nat) :
    Spec.c06 (Cfg.ofRun r) (.rup p t) (obsOp (.rup p t) r).1 = true := by
  obtain ⟨recs, ht⟩ := readUntilPrompt_timed True p t (cut r.st)
  refine op_spec_of r _ t (readUntilPrompt p t (cut r.st)).2 recs _ rfl ?_ ht (fun _ => trivial) ?_
    (fun t' h => by cases h)
  · simp only [runOp]
    cases readUntilPrompt p t (cut r.st) with
    | mk a s1 =>
      cases a with
      | ok b => rfl
      | error e => rfl
  · simp only [runOp]
    cases readUntilPrompt p t (cut r.st) with
    | mk a s1 =>
      cases a with
      | ok b => intro h; cases h
      | error e => intro h; cases h; rfl

theorem rut_op (r : RunSt) (t : Option Nat) :
    Spec.c06 (Cfg.ofRun r) (.rut t) (obsOp (.rut t) r).1 = true := by
  obtain ⟨recs, b, ht, hne, hok⟩ := readUntilTimeout_timed True t (cut r.st)
  have hne' : (runOp (.rut t) { r with st := cut r.st }).1 ≠ .err .timeout := by
    simp only [runOp]
    cases hr : readUntilTimeout t (cut r.st) with
    | mk a s1 =>
      rw [hr] at hne
      cases a with
      | ok x => intro h; cases h
      | error e => intro h; cases h; exact hne rfl
  refine op_spec_of r _ t (readUntilTimeout t (cut r.st)).2 recs b rfl ?_ ht (fun _ => trivial)
    (fun h => absurd h hne') (fun t' _ => ⟨trivial, hne', ?_⟩)
  · simp only [runOp]
    cases readUntilTimeout t (cut r.st) with
    | mk a s1 => cases a <;> rfl
  · simp only [runOp]
    cases hr : readUntilTimeout t (cut r.st) with
    | mk a s1 =>
      rw [hr] at hok
      cases a with
      | ok x => intro _ _; exact hok x rfl
      | error e => intro x h; cases h

/-- `send` and `sendline` share this: the observation of `send payload true t ign` -/
theorem send_run (r : RunSt) (op : Op) (payload : Bytes) (t : Option Nat) (ign : Bool)
    (hT : timeoutOf op = some t)
    (hrun : runOp op { r with st := cut r.st }
      = ((ofUnit (send payload true t ign (cut r.st))).1, { r with st := (ofUnit (send payload true t ign (cut r.st))).2 }))
    (hop : ∀ t', op ≠ .rut t') :
    Spec.c06 (Cfg.ofRun r) op (obsOp op r).1 = true := by
  obtain ⟨recs, ht⟩ := send_timed payload true t ign (cut r.st)
  refine op_spec_of (q := (cut r.st).slowDelay = none) r op t (send payload true t ign (cut r.st)).2 recs _ hT
    ?_ ht (fun h => h) ?_ (fun t' h => absurd h (hop t'))
  · rw [hrun]
    simp only [ofUnit]
    cases send payload true t ign (cut r.st) with
    | mk a s1 => cases a <;> rfl
  · rw [hrun]
    simp only [ofUnit]
    cases send payload true t ign (cut r.st) with
    | mk a s1 =>
      cases a with
      | ok b => intro h; cases h
      | error e => intro h; cases h; rfl

theorem send_op (r : RunSt) (b : Bytes) (rb : Bool) (t : Option Nat) (ign : Bool) :
    Spec.c06 (Cfg.ofRun r) (.send b rb t ign) (obsOp (.send b rb t ign) r).1 = true := by
  cases rb with
  | false => rfl
  | true => exact send_run r _ b t ign rfl rfl (fun t' h => by cases h)

theorem sendline_op (r : RunSt) (b : Bytes) (rb : Bool) (t : Option Nat) :
    Spec.c06 (Cfg.ofRun r) (.sendline b rb t) (obsOp (.sendline b rb t) r).1 = true := by
  cases rb with
  | false => rfl
  | true => exact send_run r _ (b ++ [13]) t false rfl rfl (fun t' h => by cases h)

/-- **C06 (per call).**  Every operation on every channel state satisfies the specification:
    each transport request carries exactly the time left of the overall timeout, a
    `TimeoutError` is raised exactly at the deadline and never without a timeout, every other
    result comes no later than the deadline and at the moment of the last delivery, and
    `read_until_timeout` ends exactly at the deadline. -/
theorem op_spec (r : RunSt) (op : Op) (_hg : Good r.st) :
    Spec.c06 (Cfg.ofRun r) op (obsOp op r).1 = true := by
  cases op with
  | read n t => exact read_op r n t
  | readIter m t k => exact readIter_op r m t k
  | readline e t => exact readline_op r e t
  | expect ps t => exact expect_op r ps t
  | rup p t => exact rup_op r p t
  | rut t => exact rut_op r t
  | send b rb t ign => exact send_op r b rb t ign
  | sendline b rb t => exact sendline_op r b rb t
  | _ => rfl

/-- **C06 (whole case).** -/
theorem case_spec (c : Case) (h : ChanCase.WfCase c) : Spec.C06 c (Chan.run c) = true := by
  unfold Spec.C06 Chan.run
  simp only
  exact ChanCase.foldOps_run Spec.c06 (fun r op hg => op_spec r op hg) c.ops (Chan.initSt c)
    (ChanCase.good_init c h) h.ops

end C06
