import TbotVerif.Props.C04
namespace C06
theorem placeholder : True := trivial
end C06
