import TbotVerif.Props.C06Spec
import TbotVerif.Props.C06Clean
import TbotVerif.Props.ChanCase
/-! C06 — "Timeouts are overall deadlines: never exceeded, never cut short".

    * `C06.op_spec`: every operation, started in any channel state, satisfies `Spec.c06`;
    * `C06.case_spec`: so does every operation of every well-formed case;
    * corollaries: without a timeout the model never produces a `TimeoutError`
      (`no_timeout_*`); `read_until_timeout (some T)` never raises `TimeoutError` and a normal
      return happens exactly at `t0 + T` (`rut_exact`); every timed method ends no later than
      its deadline (`*_deadline`).

    The proofs rest on the predicate `C06.Timed` (`Props/C06Time.lean`), established for every
    loop of the model in `Props/C06Loops.lean` and translated to the Spec's clauses in
    `Props/C06Spec.lean`.  The hypothesis `Good` of `op_spec` is not used: the deadline
    arithmetic holds in every state (it is kept for uniformity with `C03.op_spec` and
    `ChanCase.foldOps_run`). -/

namespace C06
open Chan Spec C03


/-- the fields of the observation record in terms of the operation's run from the cut state -/
theorem obsOp_fields (op : Op) (r : RunSt) :
    (obsOp op r).1.res = (runOp op { r with st := cut r.st }).1
    ∧ (obsOp op r).1.t0 = r.st.now
    ∧ (obsOp op r).1.t1 = (runOp op { r with st := cut r.st }).2.st.now
    ∧ (obsOp op r).1.reads = (runOp op { r with st := cut r.st }).2.st.reads := by
  unfold obsOp
  exact ⟨rfl, rfl, rfl, rfl⟩

/-- an operation whose run from the cut state is `Timed` satisfies the Spec -/
theorem op_spec_of {q : Prop} (r : RunSt) (op : Op) (T : Option Nat) (s' : St) (recs : List ReadRec) (b : Bool)
    (hT : timeoutOf op = some T)
    (hsnd : (runOp op { r with st := cut r.st }).2.st = s')
    (ht : Timed q r.st.now T (cut r.st) s' recs b)
    (hq : r.st.slowDelay = none → q)
    (hres : (runOp op { r with st := cut r.st }).1 = .err .timeout → b = true)
    (hrut : ∀ t, op = .rut t → q ∧ (runOp op { r with st := cut r.st }).1 ≠ .err .timeout
              ∧ (∀ x, (runOp op { r with st := cut r.st }).1 = .text x → b = true)) :
    Spec.c06 (Cfg.ofRun r) op (obsOp op r).1 = true := by
  obtain ⟨f1, f2, f3, f4⟩ := obsOp_fields op r
  have hreads : s'.reads = recs := by rw [ht.reads]; rfl
  refine c06_of_timed (q := q) (Cfg.ofRun r) op T (obsOp op r).1 (cut r.st) s' b hT ?_ f2 ?_ hq ?_ ?_
  · rw [f4, hsnd, hreads]; exact ht
  · rw [f3, hsnd]
  · rw [f1]; exact hres
  · rw [f1]; exact hrut

theorem read_op (r : RunSt) (n : Option Nat) (t : Option Nat) :
    Spec.c06 (Cfg.ofRun r) (.read n t) (obsOp (.read n t) r).1 = true := by
  obtain ⟨recs, ht⟩ := read_timed True n t (cut r.st)
  refine op_spec_of r _ t (read n t (cut r.st)).2 recs _ rfl ?_ ht (fun _ => trivial) ?_
    (fun t' h => by cases h)
  · simp only [runOp]
    cases read n t (cut r.st) with
    | mk a s1 => cases a <;> rfl
  · simp only [runOp]
    cases read n t (cut r.st) with
    | mk a s1 =>
      cases a with
      | ok b => intro h; cases h
      | error e => intro h; cases h; rfl

theorem readIter_op (r : RunSt) (m : Option Nat) (t : Option Nat) (k : Option Nat) :
    Spec.c06 (Cfg.ofRun r) (.readIter m t k) (obsOp (.readIter m t k) r).1 = true := by
  obtain ⟨recs, ht, _⟩ := riTake_timed True (fuelFor (cut r.st)) k (riStart m t (cut r.st)) (cut r.st) []
    (Nat.le_refl _)
  refine op_spec_of r _ t (riTake (fuelFor (cut r.st)) k (riStart m t (cut r.st)) (cut r.st) []).2 recs _ rfl
    rfl ht (fun _ => trivial) ?_ (fun t' h => by cases h)
  intro h
  simp only [runOp] at h
  cases h

theorem readline_op (r : RunSt) (e : Bytes) (t : Option Nat) :
    Spec.c06 (Cfg.ofRun r) (.readline e t) (obsOp (.readline e t) r).1 = true := by
  obtain ⟨recs, ht⟩ := readline_timed True e t (cut r.st)
  refine op_spec_of r _ t (readline e t (cut r.st)).2 recs _ rfl ?_ ht (fun _ => trivial) ?_
    (fun t' h => by cases h)
  · simp only [runOp]
    cases readline e t (cut r.st) with
    | mk a s1 => cases a <;> rfl
  · simp only [runOp]
    cases readline e t (cut r.st) with
    | mk a s1 =>
      cases a with
      | ok b => intro h; cases h
      | error e => intro h; cases h; rfl

theorem expect_op (r : RunSt) (ps : List Pat) (t : Option Nat) :
    Spec.c06 (Cfg.ofRun r) (.expect ps t) (obsOp (.expect ps t) r).1 = true := by
  obtain ⟨recs, ht⟩ := expect_timed True ps t (cut r.st)
  refine op_spec_of r _ t (expect ps t (cut r.st)).2 recs _ rfl ?_ ht (fun _ => trivial) ?_
    (fun t' h => by cases h)
  · simp only [runOp]
    cases expect ps t (cut r.st) with
    | mk a s1 => cases a <;> rfl
  · simp only [runOp]
    cases expect ps t (cut r.st) with
    | mk a s1 =>
      cases a with
      | ok b => intro h; cases h
      | error e => intro h; cases h; rfl

theorem rup_op (r : RunSt) (p : Option Pat) (t : Option Nat) :
    Spec.c06 (Cfg.ofRun r) (.rup p t) (obsOp (.rup p t) r).1 = true := by
  obtain ⟨recs, ht⟩ := readUntilPrompt_timed True p t (cut r.st)
  refine op_spec_of r _ t (readUntilPrompt p t (cut r.st)).2 recs _ rfl ?_ ht (fun _ => trivial) ?_
    (fun t' h => by cases h)
  · simp only [runOp]
    cases readUntilPrompt p t (cut r.st) with
    | mk a s1 =>
      cases a with
      | ok b => rfl
      | error e => rfl
  · simp only [runOp]
    cases readUntilPrompt p t (cut r.st) with
    | mk a s1 =>
      cases a with
      | ok b => intro h; cases h
      | error e => intro h; cases h; rfl

theorem rut_op (r : RunSt) (t : Option Nat) :
    Spec.c06 (Cfg.ofRun r) (.rut t) (obsOp (.rut t) r).1 = true := by
  obtain ⟨recs, b, ht, hne, hok⟩ := readUntilTimeout_timed True t (cut r.st)
  have hne' : (runOp (.rut t) { r with st := cut r.st }).1 ≠ .err .timeout := by
    simp only [runOp]
    cases hr : readUntilTimeout t (cut r.st) with
    | mk a s1 =>
      rw [hr] at hne
      cases a with
      | ok x => intro h; cases h
      | error e => intro h; cases h; exact hne rfl
  refine op_spec_of r _ t (readUntilTimeout t (cut r.st)).2 recs b rfl ?_ ht (fun _ => trivial)
    (fun h => absurd h hne') (fun t' _ => ⟨trivial, hne', ?_⟩)
  · simp only [runOp]
    cases readUntilTimeout t (cut r.st) with
    | mk a s1 => cases a <;> rfl
  · simp only [runOp]
    cases hr : readUntilTimeout t (cut r.st) with
    | mk a s1 =>
      rw [hr] at hok
      cases a with
      | ok x => intro _ _; exact hok x rfl
      | error e => intro x h; cases h

/-- `send` and `sendline` share this: the observation of `send payload true t ign` -/
theorem send_run (r : RunSt) (op : Op) (payload : Bytes) (t : Option Nat) (ign : Bool)
    (hT : timeoutOf op = some t)
    (hrun : runOp op { r with st := cut r.st }
      = ((ofUnit (send payload true t ign (cut r.st))).1, { r with st := (ofUnit (send payload true t ign (cut r.st))).2 }))
    (hop : ∀ t', op ≠ .rut t') :
    Spec.c06 (Cfg.ofRun r) op (obsOp op r).1 = true := by
  obtain ⟨recs, ht⟩ := send_timed payload true t ign (cut r.st)
  refine op_spec_of (q := (cut r.st).slowDelay = none) r op t (send payload true t ign (cut r.st)).2 recs _ hT
    ?_ ht (fun h => h) ?_ (fun t' h => absurd h (hop t'))
  · rw [hrun]
    simp only [ofUnit]
    cases send payload true t ign (cut r.st) with
    | mk a s1 => cases a <;> rfl
  · rw [hrun]
    simp only [ofUnit]
    cases send payload true t ign (cut r.st) with
    | mk a s1 =>
      cases a with
      | ok b => intro h; cases h
      | error e => intro h; cases h; rfl

theorem send_op (r : RunSt) (b : Bytes) (rb : Bool) (t : Option Nat) (ign : Bool) :
    Spec.c06 (Cfg.ofRun r) (.send b rb t ign) (obsOp (.send b rb t ign) r).1 = true := by
  cases rb with
  | false => rfl
  | true => exact send_run r _ b t ign rfl rfl (fun t' h => by cases h)

theorem sendline_op (r : RunSt) (b : Bytes) (rb : Bool) (t : Option Nat) :
    Spec.c06 (Cfg.ofRun r) (.sendline b rb t) (obsOp (.sendline b rb t) r).1 = true := by
  cases rb with
  | false => rfl
  | true => exact send_run r _ (b ++ [13]) t false rfl rfl (fun t' h => by cases h)

/-- **C06 (per call).**  Every operation on every channel state satisfies the specification:
    each transport request carries exactly the time left of the overall timeout, a
    `TimeoutError` is raised exactly at the deadline and never without a timeout, every other
    result comes no later than the deadline and at the moment of the last delivery, and
    `read_until_timeout` ends exactly at the deadline. -/
theorem op_spec_any (r : RunSt) (op : Op) : Spec.c06 (Cfg.ofRun r) op (obsOp op r).1 = true := by
  cases op with
  | read n t => exact read_op r n t
  | readIter m t k => exact readIter_op r m t k
  | readline e t => exact readline_op r e t
  | expect ps t => exact expect_op r ps t
  | rup p t => exact rup_op r p t
  | rut t => exact rut_op r t
  | send b rb t ign => exact send_op r b rb t ign
  | sendline b rb t => exact sendline_op r b rb t
  | _ => rfl

/-- **C06 (per call)**, in the form `ChanCase.foldOps_run` expects (`Good` is not needed). -/
theorem op_spec (r : RunSt) (op : Op) (_hg : Good r.st) :
    Spec.c06 (Cfg.ofRun r) op (obsOp op r).1 = true := op_spec_any r op

/-- **C06 (whole case).** -/
theorem case_spec (c : Case) (h : ChanCase.WfCase c) : Spec.C06 c (Chan.run c) = true := by
  unfold Spec.C06 Chan.run
  simp only
  exact ChanCase.foldOps_run Spec.c06 (fun r op hg => op_spec r op hg) c.ops (Chan.initSt c)
    (ChanCase.good_init c h) h.ops

/-! ### what the Spec says, in plain inequalities (these hold of every observation that
    satisfies `Spec.c06`, the implementation's included) -/

theorem cl2_some (res : OpRes) (T t0 t1 : Nat) (h : cl2 false res (some T) t0 t1 = true) :
    t1 ≤ t0 + T ∧ (res = .err .timeout → t1 = t0 + T) := by
  by_cases hr : res = .err .timeout
  · subst hr
    have : t1 = t0 + T := by simpa [cl2] using h
    exact ⟨by omega, fun _ => this⟩
  · have key : cl2 false res (some T) t0 t1 = decide (t1 ≤ t0 + T) := by
      cases res with
      | err e =>
        cases e with
        | timeout => exact absurd rfl hr
        | _ => rfl
      | _ => rfl
    rw [key] at h
    exact ⟨by simpa using h, fun h' => absurd h' hr⟩

theorem cl2_none (slow : Bool) (res : OpRes) (t0 t1 : Nat) (h : cl2 slow res none t0 t1 = true) :
    res ≠ .err .timeout := by
  intro hr
  subst hr
  simp [cl2] at h

/-- never exceeded: a timed operation ends no later than `t0 + T` -/
theorem c06_deadline (cfg : Cfg) (op : Op) (o : OpObs) (T : Nat) (h : Spec.c06 cfg op o = true)
    (hT : timeoutOf op = some (some T)) (hs : cfg.slowDelay = none) : o.t1 ≤ o.t0 + T := by
  rw [c06_split cfg op o _ hT, hs] at h
  simp only [Bool.and_eq_true] at h
  exact (cl2_some _ _ _ _ h.1.1.2).1

/-- never cut short: a `TimeoutError` is raised exactly at `t0 + T` -/
theorem c06_timeout_exact (cfg : Cfg) (op : Op) (o : OpObs) (T : Nat) (h : Spec.c06 cfg op o = true)
    (hT : timeoutOf op = some (some T)) (hs : cfg.slowDelay = none) (hr : o.res = .err .timeout) :
    o.t1 = o.t0 + T := by
  rw [c06_split cfg op o _ hT, hs] at h
  simp only [Bool.and_eq_true] at h
  exact (cl2_some _ _ _ _ h.1.1.2).2 hr

/-- no timeout given: never a `TimeoutError` -/
theorem c06_no_timeout (cfg : Cfg) (op : Op) (o : OpObs) (h : Spec.c06 cfg op o = true)
    (hT : timeoutOf op = some none) : o.res ≠ .err .timeout := by
  rw [c06_split cfg op o _ hT] at h
  simp only [Bool.and_eq_true] at h
  exact cl2_none _ _ _ _ h.1.1.2

/-! ### corollaries about the model -/

theorem Timed.no_flag {q : Prop} {t0 : Nat} {s s' : St} {recs : List ReadRec} {b : Bool}
    (h : Timed q t0 none s s' recs b) : b = false := by
  cases b with
  | false => rfl
  | true => obtain ⟨T', hT, _⟩ := h.tmo rfl; cases hT

/-- **With `T = none` no operation of the model ever yields `TimeoutError`**: neither as the
    exception of the call nor as the exception that ends a `read_iter`. -/
theorem no_timeout_op (r : RunSt) (op : Op) (hT : timeoutOf op = some none) :
    (obsOp op r).1.res ≠ .err .timeout ∧ ∀ cs, (obsOp op r).1.res ≠ .chunks cs (some .timeout) := by
  refine ⟨c06_no_timeout _ op _ (op_spec_any r op) hT, ?_⟩
  intro cs
  rw [(obsOp_fields op r).1]
  cases op with
  | readIter m t k =>
    simp only [timeoutOf, Option.some.injEq] at hT
    subst hT
    obtain ⟨recs, ht, _⟩ := riTake_timed True (fuelFor (cut r.st)) k (riStart m none (cut r.st)) (cut r.st) []
      (Nat.le_refl _)
    have e2 : (riStart m none (cut r.st)).timeout = none := rfl
    rw [e2] at ht
    have hb := ht.no_flag
    simp only [runOp]
    intro h
    simp only [OpRes.chunks.injEq] at h
    rw [h.2] at hb
    simp [optTmo, excTmo] at hb
  | read n t => simp only [runOp]; cases read n t (cut r.st) with | mk a s1 => cases a <;> simp
  | readline e t => simp only [runOp]; cases readline e t (cut r.st) with | mk a s1 => cases a <;> simp
  | expect ps t => simp only [runOp]; cases expect ps t (cut r.st) with | mk a s1 => cases a <;> simp
  | rup p t => simp only [runOp]; cases readUntilPrompt p t (cut r.st) with | mk a s1 => cases a <;> simp
  | rut t => simp only [runOp]; cases readUntilTimeout t (cut r.st) with | mk a s1 => cases a <;> simp
  | send b rb t ign =>
    simp only [runOp, ofUnit]; cases send b rb t ign (cut r.st) with | mk a s1 => cases a <;> simp
  | sendline b rb t =>
    simp only [runOp, ofUnit]; cases sendline b rb t (cut r.st) with | mk a s1 => cases a <;> simp
  | _ => simp [timeoutOf] at hT

/-- the methods themselves, called without a timeout -/
theorem read_no_timeout (n : Option Nat) (s : St) : (read n none s).1 ≠ .error .timeout := by
  obtain ⟨recs, ht⟩ := read_timed True n none s
  intro h
  have := ht.no_flag
  rw [h] at this
  simp [isTmo, excTmo] at this

theorem readline_no_timeout (e : Bytes) (s : St) : (readline e none s).1 ≠ .error .timeout := by
  obtain ⟨recs, ht⟩ := readline_timed True e none s
  intro h
  have := ht.no_flag
  rw [h] at this
  simp [isTmo, excTmo] at this

theorem expect_no_timeout (ps : List Pat) (s : St) : (expect ps none s).1 ≠ .error .timeout := by
  obtain ⟨recs, ht⟩ := expect_timed True ps none s
  intro h
  have := ht.no_flag
  rw [h] at this
  simp [isTmo, excTmo] at this

theorem readUntilPrompt_no_timeout (p : Option Pat) (s : St) :
    (readUntilPrompt p none s).1 ≠ .error .timeout := by
  obtain ⟨recs, ht⟩ := readUntilPrompt_timed True p none s
  intro h
  have := ht.no_flag
  rw [h] at this
  simp [isTmo, excTmo] at this

theorem send_no_timeout (b : Bytes) (rb ign : Bool) (s : St) : (send b rb none ign s).1 ≠ .error .timeout := by
  obtain ⟨recs, ht⟩ := send_timed b rb none ign s
  intro h
  have := ht.no_flag
  rw [h] at this
  simp [isTmo, excTmo] at this

/-- `read_until_timeout` never raises `TimeoutError`, whatever its argument -/
theorem rut_never_timeout (t : Option Nat) (s : St) : (readUntilTimeout t s).1 ≠ .error .timeout :=
  (readUntilTimeout_timed True t s).choose_spec.choose_spec.2.1

/-- a normal return of `read_until_timeout (some T)` happens at exactly `t0 + T`, in every state -/
theorem rut_ok_exact (T : Nat) (s : St) (x : Bytes) (h : (readUntilTimeout (some T) s).1 = .ok x) :
    (readUntilTimeout (some T) s).2.now = s.now + T := by
  obtain ⟨recs, b, ht, _, hok⟩ := readUntilTimeout_timed True (some T) s
  obtain ⟨T', hT, hle⟩ := ht.tmo (hok x h)
  cases hT
  have := ht.dead trivial T rfl (Nat.le_add_right _ _)
  omega

/-- **`read_until_timeout (some T)` returns `.ok` at exactly `t0 + T` when no death string is
    registered** (well-formed script, positive chunk size). -/
theorem rut_exact (T : Nat) (s : St) (hwf : WF s) (hc : 0 < s.chunk) (hd : s.deaths = []) :
    ∃ x, (readUntilTimeout (some T) s).1 = .ok x ∧ (readUntilTimeout (some T) s).2.now = s.now + T := by
  have hok : ∃ x, (readUntilTimeout (some T) s).1 = .ok x := by
    unfold readUntilTimeout
    obtain ⟨recs, _, _, _, _, herr⟩ := riTake_spec (fuelFor s) none (riStart none (some T) s) s []
      (by unfold fuelFor riStart; simp) hwf hc (by intro m h; simp [riStart] at h) (fun _ => rfl)
    have hclean := riTake_clean (fuelFor s) none (riStart none (some T) s) s [] T hd rfl
    generalize riTake (fuelFor s) none (riStart none (some T) s) s [] = out at herr hclean
    obtain ⟨⟨cs, e⟩, s1⟩ := out
    simp only at herr hclean
    cases e with
    | none => exact ⟨_, rfl⟩
    | some e =>
      obtain ⟨hk, _, _⟩ := herr cs e rfl
      rcases hclean e rfl with h | h
      · subst h; exact ⟨_, rfl⟩
      · subst h; rcases hk with h | h | ⟨x, m, h⟩ <;> cases h
  obtain ⟨x, hx⟩ := hok
  exact ⟨x, hx, rut_ok_exact T s x hx⟩

/-- every timed read method ends no later than its deadline, in every state -/
theorem read_deadline (n : Option Nat) (T : Nat) (s : St) :
    (read n (some T) s).2.now ≤ s.now + T
    ∧ ((read n (some T) s).1 = .error .timeout → (read n (some T) s).2.now = s.now + T) := by
  obtain ⟨recs, ht⟩ := read_timed True n (some T) s
  have hd := ht.dead trivial T rfl (Nat.le_add_right _ _)
  refine ⟨hd, fun h => ?_⟩
  obtain ⟨T', hT, hle⟩ := ht.tmo (by rw [h]; rfl)
  cases hT
  omega

theorem expect_deadline (ps : List Pat) (T : Nat) (s : St) :
    (expect ps (some T) s).2.now ≤ s.now + T
    ∧ ((expect ps (some T) s).1 = .error .timeout → (expect ps (some T) s).2.now = s.now + T) := by
  obtain ⟨recs, ht⟩ := expect_timed True ps (some T) s
  have hd := ht.dead trivial T rfl (Nat.le_add_right _ _)
  refine ⟨hd, fun h => ?_⟩
  obtain ⟨T', hT, hle⟩ := ht.tmo (by rw [h]; rfl)
  cases hT
  omega

theorem readUntilPrompt_deadline (p : Option Pat) (T : Nat) (s : St) :
    (readUntilPrompt p (some T) s).2.now ≤ s.now + T
    ∧ ((readUntilPrompt p (some T) s).1 = .error .timeout → (readUntilPrompt p (some T) s).2.now = s.now + T) := by
  obtain ⟨recs, ht⟩ := readUntilPrompt_timed True p (some T) s
  have hd := ht.dead trivial T rfl (Nat.le_add_right _ _)
  refine ⟨hd, fun h => ?_⟩
  obtain ⟨T', hT, hle⟩ := ht.tmo (by rw [h]; rfl)
  cases hT
  omega

theorem readline_deadline (e : Bytes) (T : Nat) (s : St) :
    (readline e (some T) s).2.now ≤ s.now + T
    ∧ ((readline e (some T) s).1 = .error .timeout → (readline e (some T) s).2.now = s.now + T) := by
  obtain ⟨recs, ht⟩ := readline_timed True e (some T) s
  have hd := ht.dead trivial T rfl (Nat.le_add_right _ _)
  refine ⟨hd, fun h => ?_⟩
  obtain ⟨T', hT, hle⟩ := ht.tmo (by rw [h]; rfl)
  cases hT
  omega

/-- `send` with read-back: the timeout is an overall deadline for the whole call, not one per
    slice (slow sending off) -/
theorem send_deadline (b : Bytes) (rb ign : Bool) (T : Nat) (s : St) (hs : s.slowDelay = none) :
    (send b rb (some T) ign s).2.now ≤ s.now + T
    ∧ ((send b rb (some T) ign s).1 = .error .timeout → (send b rb (some T) ign s).2.now = s.now + T) := by
  obtain ⟨recs, ht⟩ := send_timed b rb (some T) ign s
  have hd := ht.dead hs T rfl (Nat.le_add_right _ _)
  refine ⟨hd, fun h => ?_⟩
  obtain ⟨T', hT, hle⟩ := ht.tmo (by rw [h]; rfl)
  cases hT
  omega

/-! ### the hypotheses are satisfiable: a concrete case that exercises every clause -/

/-- a readline that succeeds after four requests with shrinking timeouts, a
    `read_until_timeout`, a `read(4)` that times out, a two-slice `send` with read-back whose
    second echo needs the rest of the overall timeout, and an `expect` without timeout that
    blocks for ever -/
def demo : Case :=
  { chunk := 4, slice := 2,
    script := [⟨3, [97, 98]⟩, ⟨7, [99, 10]⟩, ⟨20, [100, 101, 102]⟩, ⟨26, [103]⟩],
    accept := [],
    ops := [.readline [10] (some 10), .rut (some 5), .read (some 4) (some 6),
            .send [120, 121, 122] true (some 9) false, .expect [.lit [122]] none] }

theorem demo_wf : ChanCase.WfCase demo :=
  ⟨by decide, by decide, by decide, by decide⟩

example : Spec.C06 demo (Chan.run demo) = true := case_spec demo demo_wf

example : ((Chan.run demo).1.map (fun o => (o.res, o.t0, o.t1, o.reads.map fun r => (r.timeout, r.t0, r.t1)))
    == [(.text ['a', 'b', 'c', '\n'], 0, 7, [(some 10, 0, 3), (some 7, 3, 3), (some 7, 3, 7), (some 3, 7, 7)]),
       (.text [], 7, 12, [(some 5, 7, 12)]),
       (.err .timeout, 12, 18, [(some 6, 12, 18)]),
       (.unit, 18, 20, [(some 9, 18, 20), (some 7, 20, 20)]),
       (.err .hang, 20, 26, [(none, 20, 26), (none, 26, 26)])]) = true := by decide

/-- why the Spec (and the guard `q` of `Timed`) exempts slow sending: two one-byte pieces with a
    5-tick sleep after each make a `send(timeout=3)` raise its `TimeoutError` at tick 10 -/
def slowDemo : Case :=
  { chunk := 4, slice := 2, script := [⟨0, [120, 121]⟩], accept := [],
    ops := [.setSlow (some 5) 1, .send [120, 121] true (some 3) false] }

example : ChanCase.WfCase slowDemo := ⟨by decide, by decide, by decide, by decide⟩

example : ((Chan.run slowDemo).1.map (fun o => (o.res, o.t0, o.t1)) == [(.unit, 0, 0), (.err .timeout, 0, 10)]) = true := by
  decide

end C06
