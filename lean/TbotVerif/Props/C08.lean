import TbotVerif.Props.C08Mon
/-! C08 — "Attached log streams get every read byte once, minus only the suppressed prompt".

    (1) byte level: `attached_invariant` and its corollaries (`fw_prefix`, `fw_all`, `fw_literal`,
        `fw_at_prompt`, `detach_clean`, `detach_regex`), characterisation of `Chan.overlap` in
        `C08Overlap.lean` (`overlap_spec`, `ovl_longest`), and `reads_pass_through`: every
        operation feeds exactly the delivered chunks, in order, through `writeStream`.
    (2) text level: `asciiT_decodeReplace`, `asciiT_fragments` (`C08Text.lean`), `fwdFor_text`.
    (3) case level: `case_spec_partial`; the full statement is FALSE for the model (and for the
        code it mirrors) — `case_spec_full_is_false`.
    (4) overlapping attachments that all show the prompt, ended in any order (`streamExitAt`):
        `C08OverlapAttach.lean` (`case_spec_overlapping`, `stream_gets_exactly_its_window`). -/

namespace C08
open Chan Spec C03 ChanCase

/-! ## (1) byte level, one attachment -/

/-- the chunks `ds` delivered one after the other -/
def wsAll (ds : List Bytes) (s : St) : St := ds.foldl (fun s b => writeStream b s) s

theorem ssOf_wsAll (ds : List Bytes) : ∀ s : St, ssOf (wsAll ds s) = (ssOf s).writes ds := by
  induction ds with
  | nil => intro s; rfl
  | cons d ds ih =>
    intro s
    show ssOf (wsAll ds (writeStream d s)) = _
    rw [ih, ssOf_writeStream]; rfl

/-- **every operation other than prompt configuration, attach and detach feeds exactly the chunks the
    transport delivered during the operation, in order, through `writeStream`** (`cut` = the logs
    are cut at the operation boundary, as `obsOp` does) -/
theorem reads_pass_through (r : RunSt) (op : Op) (h : isReading op = true) (hc : changesPrompt op = false) :
    ssOf (obsOp op r).2.st = (ssOf (cut r.st)).writes (delivered (obsOp op r).1)
    ∧ (obsOp op r).1.fwd = fwdText (obsOp op r).2.st.fwd := by
  obtain ⟨q, hq, hss⟩ := (eff r op h).ss
  rw [hq hc] at hss
  refine ⟨?_, rfl⟩
  rw [hss]
  exact SS.withPrompt_self _ _ (by rw [SS.writes_prompt]; rfl)

/-- **the invariant of one attachment**: attach to any state in which nothing is attached and the
    hold-back buffer is empty, with any mode `sp` and any prompt; after any sequence of deliveries
    `ds`: what was appended to the forwarded log went to that stream only, and with `R` = the bytes
    delivered and `fw` = the bytes forwarded, `HB sp prompt fw streambuf R` holds. -/
theorem attached_invariant (s0 : St) (id : Nat) (sp : Bool) (ds : List Bytes)
    (h0 : s0.streams = []) (hb0 : s0.streambuf = []) :
    ∃ g : List (Nat × Bytes),
      (wsAll ds (streamEnter id sp s0).2).fwd = s0.fwd ++ g ∧ (∀ e ∈ g, e.1 = id)
      ∧ HB sp s0.prompt (bytesOf g) (wsAll ds (streamEnter id sp s0).2).streambuf ds.flatten
      ∧ (wsAll ds (streamEnter id sp s0).2).streams = [id]
      ∧ (wsAll ds (streamEnter id sp s0).2).logPrompt = sp
      ∧ (wsAll ds (streamEnter id sp s0).2).prompt = s0.prompt := by
  have hs : (ssOf (streamEnter id sp s0).2).streams = [id] := by
    show s0.streams ++ [id] = [id]
    rw [h0]; rfl
  have hb : HB (ssOf (streamEnter id sp s0).2).logPrompt (ssOf (streamEnter id sp s0).2).prompt []
      (ssOf (streamEnter id sp s0).2).streambuf [] := by
    show HB sp s0.prompt [] s0.streambuf []
    rw [hb0]; exact HB_init _ _
  obtain ⟨g, h1, h2, h3, h4, h5, h6⟩ := HB_writes id ds (ssOf (streamEnter id sp s0).2) [] [] hs hb
  have hss := ssOf_wsAll ds (streamEnter id sp s0).2
  refine ⟨g, ?_, h2, ?_, ?_, ?_, ?_⟩
  · exact (congrArg SS.fwd hss).trans h1
  · have : (wsAll ds (streamEnter id sp s0).2).streambuf = ((ssOf (streamEnter id sp s0).2).writes ds).streambuf :=
      congrArg SS.streambuf hss
    rw [this]
    have h3' : HB sp s0.prompt ([] ++ bytesOf g) ((ssOf (streamEnter id sp s0).2).writes ds).streambuf
        ([] ++ ds.flatten) := h3
    simpa using h3'
  · exact (congrArg SS.streams hss).trans (h4.trans hs)
  · exact (congrArg SS.logPrompt hss).trans h5
  · exact (congrArg SS.prompt hss).trans h6

/-- (a) the stream content is always a prefix of what was read -/
theorem fw_prefix {lp : Bool} {prompt : Option Pat} {fw sb R : Bytes} (h : HB lp prompt fw sb R) : fw <+: R :=
  h.prefix

/-- (b) suppression off, or no prompt set: the stream holds everything -/
theorem fw_all {lp : Bool} {prompt : Option Pat} {fw sb R : Bytes} (h : HB lp prompt fw sb R)
    (hm : lp = true ∨ prompt = none) : fw = R ∧ sb = [] := by
  rcases hm with rfl | rfl
  · exact ⟨h.all_of_show, h.sb_nil_of_show⟩
  · exact h.all_of_noprompt

/-- (c) suppression on, literal prompt `p`: `R = fw ++ streambuf` and the hold-back buffer is the
    LONGEST suffix of `R` that is a prefix of `p` -/
theorem fw_literal {p fw sb R : Bytes} (h : HB false (some (.lit p)) fw sb R) :
    R = fw ++ sb ∧ sb <:+ R ∧ sb <+: p ∧ (∀ t, t <:+ R → t <+: p → t.length ≤ sb.length)
    ∧ sb.length = Chan.overlap p R (min p.length R.length) :=
  ⟨h.lit_longest.1, h.lit_longest.2.1, h.lit_longest.2.2.1, h.lit_longest.2.2.2, h.lit_len⟩

/-- (d) when `R` ends with the prompt, the stream holds exactly `R` without the prompt -/
theorem fw_at_prompt {p fw sb R : Bytes} (h : HB false (some (.lit p)) fw sb R) (hend : p <:+ R) :
    fw ++ p = R ∧ fw = R.take (R.length - p.length) :=
  ⟨(h.lit_at_prompt hend).1, (h.lit_at_prompt hend).2.2⟩

/-- (e) `with_stream` exit: whatever the mode and the prompt, the hold-back buffer is left empty
    (nothing leaks into a later attachment), the stream is detached and nothing is forwarded by any
    later delivery -/
theorem detach_clean (s : St) (id : Nat) (prev : Bool) (fw R : Bytes) (hs : s.streams = [id])
    (h : HB s.logPrompt s.prompt fw s.streambuf R) :
    (streamExit id prev s).streambuf = [] ∧ (streamExit id prev s).streams = []
    ∧ ∀ ds, wsAll ds (streamExit id prev s) = streamExit id prev s := by
  have h2 : (streamExit id prev s).streams = [] := by
    show s.streams.erase id = []
    rw [hs]; simp
  refine ⟨exitKeep_nil s fw R h, h2, ?_⟩
  intro ds
  induction ds with
  | nil => rfl
  | cons d ds ih =>
    show wsAll ds (writeStream d (streamExit id prev s)) = _
    have : writeStream d (streamExit id prev s) = streamExit id prev s := by
      unfold writeStream; simp [h2]
    rw [this, ih]

/-- (f) regex prompt (always installed end-anchored): the exit flush forwards a prefix of the
    hold-back buffer to the stream being detached; if the prompt matches the held-back bytes at
    offset `a`, the stream has then received exactly `R` up to the match — which is the first match
    of the prompt in all of `R` -/
theorem detach_regex (s : St) (id : Nat) (prev : Bool) (r : Re) (fw R : Bytes) (hs : s.streams = [id])
    (hlp : s.logPrompt = false) (hp : s.prompt = some (.re (.seq r .eos)))
    (h : HB false (some (.re (.seq r .eos))) fw s.streambuf R) :
    (streamExit id prev s).fwd = s.fwd ++ exitFlush s ∧ (∀ e ∈ exitFlush s, e.1 = id)
    ∧ fw ++ bytesOf (exitFlush s) <+: R
    ∧ (∀ a e, Re.search (.seq r .eos) s.streambuf = some (a, e) →
        fw ++ bytesOf (exitFlush s) = R.take (fw.length + a))
    ∧ (∀ n e, Re.search (.seq r .eos) R = some (n, e) → fw ++ bytesOf (exitFlush s) = R.take n) := by
  refine ⟨rfl, exitFlush_ids s id hs, ?_, (exit_regex s id r fw R hs hlp hp h).1, (exit_regex s id r fw R hs hlp hp h).2⟩
  rw [h.1]
  exact (List.prefix_append_right_inj fw).mpr (exitFlush_prefix s id hs)

/-! ## (3) whole cases -/

/- FULL STATEMENT (false, see `case_spec_full_is_false`):

     theorem case_spec (c : Case) (h : WfCase c) (hn : noNesting c.ops = true) :
         Spec.C08 c (Chan.run c) = true

   What is proved adds the hypothesis `promptQuiet c.ops`: while an attachment with
   `show_prompt=False` is open the prompt in force is not changed (`ch.prompt = …`, entering or
   leaving `with_prompt`, `read_until_prompt(prompt=…)`).  Reason: the hold-back buffer is
   computed relative to the prompt in force at the time of each delivery and is neither flushed
   nor re-examined when the prompt changes, see the two counterexamples below. -/

/-- **C08 (whole case)**, literal and regex prompts, any number of sequential attachments. -/
theorem case_spec_partial (c : Case) (h : WfCase c) (hn : noNesting c.ops = true)
    (hq : promptQuiet c.ops = true) : Spec.C08 c (Chan.run c) = true := by
  unfold Spec.C08 Chan.run
  simp only
  exact fold_inv c.ops (initSt c) {} (good_init c h) h.ops
    (Inv.closed true _ rfl rfl rfl ⟨fun r h => by simp [initSt] at h, fun p hp => by simp [initSt] at hp⟩) hn hq

/-- the hypotheses are satisfiable by a non-trivial case: literal prompt `PQ`, suppressing
    attachment, a read that ends inside the prompt (`P` held back), a read that completes it,
    detach, a second attachment with suppression off and a prompt change inside it -/
def exOk : Case :=
  { chunk := 4, slice := 8, accept := []
    script := [⟨0, [97, 98, 80]⟩, ⟨0, [81, 120]⟩, ⟨1, [121, 80, 81]⟩]
    ops := [.setPrompt (some [80, 81]), .streamEnter 0 false, .read none (some 1), .rup none (some 1), .streamExit,
            .streamEnter 1 true, .setPrompt (some [120]), .read none (some 5), .streamExit] }

example : noNesting exOk.ops = true ∧ promptQuiet exOk.ops = true := by decide

example : WfCase exOk :=
  ⟨by decide, by decide, by decide, by decide⟩

/-! ### why the full statement fails -/

/-- (A) the prompt is cleared while `P` is held back: `_write_stream` forwards the next chunk
    directly and the held-back byte never reaches the stream — the stream holds `ab` + `xyz` while
    `abPxyz` was read: not a prefix. -/
def cexA : Case :=
  { chunk := 100, slice := 100, accept := []
    script := [⟨0, [97, 98, 80]⟩, ⟨0, [120, 121, 122]⟩]
    ops := [.setPrompt (some [80, 81]), .streamEnter 0 false, .read none (some 1), .setPrompt none,
            .read none (some 1), .streamExit] }

/-- (B) a regex prompt of width 3 holds back `def`; the prompt is replaced by the literal `x`
    before detaching, so the exit drops `len(prompt)` = 1 byte and `ef` leaks into the next
    attachment, which receives `efgh` although only `gh` was read while it was attached. -/
def cexB : Case :=
  { chunk := 100, slice := 100, accept := []
    script := [⟨0, [97, 98, 99, 100, 101, 102]⟩, ⟨0, [103, 104]⟩]
    ops := [.promptEnter (.re (.rep (.cls false [(120, 120)]) 3 3)), .streamEnter 0 false, .read none (some 1),
            .setPrompt (some [120]), .streamExit, .streamEnter 1 false, .read none (some 1), .streamExit] }

/-- (C) a per-call prompt: `read_until_prompt(prompt=<regex of width 5>)` inside a suppressing
    attachment whose configured prompt is the literal `ab` holds back `world`; the call times out,
    the literal prompt is back, the exit drops 2 bytes and `rld` leaks into the next attachment. -/
def cexC : Case :=
  { chunk := 100, slice := 100, accept := []
    script := [⟨0, [104, 101, 108, 108, 111, 32, 119, 111, 114, 108, 100]⟩, ⟨5, [103, 104]⟩]
    ops := [.setPrompt (some [97, 98]), .streamEnter 0 false,
            .rup (some (.re (.rep (.cls false [(100, 100)]) 5 5))) (some 1), .streamExit,
            .streamEnter 1 false, .read none (some 10), .streamExit] }

theorem cexC_wf : WfCase cexC ∧ noNesting cexC.ops = true :=
  ⟨⟨by decide, by decide, by decide, by decide⟩, by decide⟩

theorem cexC_fails : Spec.C08 cexC (Chan.run cexC) = false := by decide +kernel

theorem cexA_wf : WfCase cexA ∧ noNesting cexA.ops = true :=
  ⟨⟨by decide, by decide, by decide, by decide⟩, by decide⟩

theorem cexB_wf : WfCase cexB ∧ noNesting cexB.ops = true :=
  ⟨⟨by decide, by decide, by decide, by decide⟩, by decide⟩

theorem cexA_fails : Spec.C08 cexA (Chan.run cexA) = false := by decide +kernel

theorem cexB_fails : Spec.C08 cexB (Chan.run cexB) = false := by decide +kernel

/-- the statement without `promptQuiet` does not hold of the model -/
theorem case_spec_full_is_false :
    ¬ ∀ c : Case, WfCase c → noNesting c.ops = true → Spec.C08 c (Chan.run c) = true := by
  intro h
  have := h cexA cexA_wf.1 cexA_wf.2
  rw [cexA_fails] at this
  exact Bool.noConfusion this


end C08
