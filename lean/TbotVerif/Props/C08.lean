import TbotVerif.Props.C04
namespace C08
theorem placeholder : True := trivial
end C08
