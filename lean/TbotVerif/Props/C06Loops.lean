import TbotVerif.Props.C06Time
/-! C06 — every loop of the channel model runs under its overall deadline: `Timed` for
    `riNext`, `riTake`, `read`, `expectLoop`, `rupLoop`, `readlineLoop`, `writeLoop`, `sendLoop`
    and the methods built from them.  No fuel hypothesis is needed: the time laws hold of
    every prefix of a run. -/

namespace C06
open Chan Spec

/-! ### read_iter -/

/-- one resumption of `read_iter` under the deadline `(ri.t0, ri.timeout)` -/
theorem riNext_timed (q : Prop) (ri : RI) (s : St) (hle : ri.t0 ≤ s.now) :
    ∃ recs, Timed q ri.t0 ri.timeout s (riNext ri s).2.2 recs (stepTmo (riNext ri s).1)
      ∧ (riNext ri s).2.1.t0 = ri.t0 ∧ (riNext ri s).2.1.timeout = ri.timeout
      ∧ (riNext ri s).2.1.max = ri.max
      ∧ ((riNext ri s).1 = .done → ri.max = some ri.got) := by
  unfold riNext
  split
  · rename_i h
    simp only [Bool.and_eq_true, beq_iff_eq] at h
    exact ⟨[], Timed.refl q _ _ s, rfl, rfl, rfl, fun _ => h.2⟩
  · cases hrem : remaining ri.timeout ri.t0 s.now with
    | none => exact ⟨[], Timed.expired q s hrem hle, rfl, rfl, rfl, by simp⟩
    | some rem =>
      simp only
      obtain ⟨rec, hio⟩ := ioRead_timed q (ri.maxRead s.chunk) rem s
      cases hr : ioRead (ri.maxRead s.chunk) rem s with
      | mk r s1 =>
        rw [hr] at hio
        cases r with
        | error e => exact ⟨[rec], Timed.nest hle hrem hio, rfl, rfl, rfl, by simp⟩
        | ok b =>
          simp only
          have hside := (writeStream_side b s1).trans (check_side b (writeStream b s1))
          have ht := (Timed.nest hle hrem hio).side hside
          cases hc : check b (writeStream b s1) with
          | mk c s2 =>
            rw [hc] at ht
            cases c with
            | ok u => exact ⟨[rec], ht, rfl, rfl, rfl, by simp⟩
            | error e =>
              obtain ⟨x, m, rfl⟩ := check_err b _ e (by rw [hc])
              exact ⟨[rec], ht, rfl, rfl, rfl, by simp⟩

/-- `read_iter` pulled for `k` chunks / to exhaustion.  An unbounded iterator pulled to
    exhaustion never just ends: it ends in an exception. -/
theorem riTake_timed (q : Prop) : ∀ (f : Nat) (k : Option Nat) (ri : RI) (s : St) (acc : List Bytes),
    ri.t0 ≤ s.now →
    ∃ recs, Timed q ri.t0 ri.timeout s (riTake f k ri s acc).2 recs (optTmo (riTake f k ri s acc).1.2)
      ∧ (k = none → ri.max = none → (riTake f k ri s acc).1.2 ≠ none) := by
  intro f
  induction f with
  | zero =>
    intro k ri s acc _
    unfold riTake
    exact ⟨[], Timed.refl q _ _ s, by simp⟩
  | succ f ih =>
    intro k ri s acc hle
    unfold riTake
    split
    · rename_i hk0
      exact ⟨[], Timed.refl q _ _ s, fun hk => by rw [hk] at hk0; simp at hk0⟩
    · obtain ⟨recs, ht, h1, h2, h3, h4⟩ := riNext_timed q ri s hle
      generalize riNext ri s = out at ht h1 h2 h3 h4
      obtain ⟨st, ri', s'⟩ := out
      simp only at ht h1 h2 h3 h4
      cases st with
      | done =>
        refine ⟨recs, ht, fun _ hm => ?_⟩
        have := h4 rfl
        rw [hm] at this
        simp at this
      | err e => exact ⟨recs, ht, by simp⟩
      | chunk b =>
        simp only
        obtain ⟨recs2, ht2, hn2⟩ := ih (k.map (· - 1)) ri' s' (acc ++ [b]) (by rw [h1]; exact Nat.le_trans hle ht.mono)
        rw [h1, h2] at ht2
        refine ⟨recs ++ recs2, ht.trans ht2, fun hk hm => ?_⟩
        exact hn2 (by rw [hk]; rfl) (by rw [h3]; exact hm)

/-- `Channel.read(n, timeout)` runs under the deadline `(now, timeout)` -/
theorem read_timed (q : Prop) (n : Option Nat) (t : Option Nat) (s : St) :
    ∃ recs, Timed q s.now t s (read n t s).2 recs (isTmo (read n t s).1) := by
  unfold Chan.read
  cases n with
  | none =>
    simp only
    obtain ⟨rec, hio⟩ := ioRead_timed q s.chunk t s
    cases hr : ioRead s.chunk t s with
    | mk r s1 =>
      rw [hr] at hio
      cases r with
      | error e => exact ⟨[rec], hio⟩
      | ok b =>
        simp only
        have hside := (writeStream_side b s1).trans (check_side b (writeStream b s1))
        have ht := hio.side hside
        cases hc : check b (writeStream b s1) with
        | mk c s2 =>
          rw [hc] at ht
          cases c with
          | ok u => exact ⟨[rec], ht⟩
          | error e =>
            obtain ⟨x, m, rfl⟩ := check_err b _ e (by rw [hc])
            exact ⟨[rec], ht⟩
  | some n =>
    simp only
    obtain ⟨recs, ht, _⟩ := riTake_timed q (fuelFor s) none (riStart (some n) t s) s [] (Nat.le_refl _)
    have e1 : (riStart (some n) t s).t0 = s.now := rfl
    have e2 : (riStart (some n) t s).timeout = t := rfl
    rw [e1, e2] at ht
    generalize riTake (fuelFor s) none (riStart (some n) t s) s [] = out at ht
    obtain ⟨⟨cs, e⟩, s1⟩ := out
    simp only at ht
    cases e with
    | some e => exact ⟨recs, ht⟩
    | none =>
      simp only
      split
      · exact ⟨recs, ht⟩
      · exact ⟨recs, ht⟩

/-! ### expect / read_until_prompt / readline -/

theorem expectLoop_timed (q : Prop) : ∀ (f : Nat) (pats : List Pat) (buf : Bytes) (ri : RI) (s : St),
    ri.t0 ≤ s.now →
    ∃ recs, Timed q ri.t0 ri.timeout s (expectLoop f pats buf ri s).2 recs
      (isTmo (expectLoop f pats buf ri s).1) := by
  intro f
  induction f with
  | zero =>
    intro pats buf ri s _
    unfold expectLoop
    exact ⟨[], Timed.refl q _ _ s⟩
  | succ f ih =>
    intro pats buf ri s hle
    unfold expectLoop
    obtain ⟨recs, ht, h1, h2, _, _⟩ := riNext_timed q ri s hle
    generalize riNext ri s = out at ht h1 h2
    obtain ⟨st, ri', s'⟩ := out
    simp only at ht h1 h2
    cases st with
    | done => exact ⟨recs, ht⟩
    | err e => exact ⟨recs, ht⟩
    | chunk b =>
      simp only
      cases firstMatch (buf ++ b) 0 pats with
      | some v =>
        obtain ⟨i, a, e⟩ := v
        exact ⟨recs, ht⟩
      | none =>
        simp only
        obtain ⟨recs2, ht2⟩ := ih pats (buf ++ b) ri' s' (by rw [h1]; exact Nat.le_trans hle ht.mono)
        rw [h1, h2] at ht2
        exact ⟨recs ++ recs2, ht.trans ht2⟩

theorem expect_timed (q : Prop) (pats : List Pat) (t : Option Nat) (s : St) :
    ∃ recs, Timed q s.now t s (expect pats t s).2 recs (isTmo (expect pats t s).1) := by
  unfold expect
  exact expectLoop_timed q (fuelFor s) pats [] (riStart none t s) s (Nat.le_refl _)

theorem rupLoop_timed (q : Prop) : ∀ (f : Nat) (buf : Bytes) (ri : RI) (s : St),
    ri.t0 ≤ s.now →
    ∃ recs, Timed q ri.t0 ri.timeout s (rupLoop f buf ri s).2 recs (isTmo (rupLoop f buf ri s).1) := by
  intro f
  induction f with
  | zero =>
    intro buf ri s _
    unfold rupLoop
    exact ⟨[], Timed.refl q _ _ s⟩
  | succ f ih =>
    intro buf ri s hle
    unfold rupLoop
    obtain ⟨recs, ht, h1, h2, _, _⟩ := riNext_timed q ri s hle
    generalize riNext ri s = out at ht h1 h2
    obtain ⟨st, ri', s'⟩ := out
    simp only at ht h1 h2
    cases st with
    | done => exact ⟨recs, ht⟩
    | err e => exact ⟨recs, ht⟩
    | chunk b =>
      simp only
      obtain ⟨recs2, ht2⟩ := ih (buf ++ b) ri' s' (by rw [h1]; exact Nat.le_trans hle ht.mono)
      rw [h1, h2] at ht2
      cases s'.prompt with
      | none => exact ⟨recs ++ recs2, ht.trans ht2⟩
      | some p =>
        simp only
        cases promptEnd p (buf ++ b) with
        | some n => exact ⟨recs, ht⟩
        | none => exact ⟨recs ++ recs2, ht.trans ht2⟩

theorem readUntilPrompt_timed (q : Prop) (p : Option Pat) (t : Option Nat) (s : St) :
    ∃ recs, Timed q s.now t s (readUntilPrompt p t s).2 recs (isTmo (readUntilPrompt p t s).1) := by
  unfold readUntilPrompt
  simp only
  cases p with
  | none =>
    simp only
    exact rupLoop_timed q (fuelFor s) [] (riStart none t s) s (Nat.le_refl _)
  | some p =>
    simp only
    generalize hs0 : ({ s with prompt := some (anchor p) } : St) = s0
    have hn : s0.now = s.now := by subst hs0; rfl
    have hr : s0.reads = s.reads := by subst hs0; rfl
    have hd : s0.slowDelay = s.slowDelay := by subst hs0; rfl
    obtain ⟨recs, ht⟩ := rupLoop_timed q (fuelFor s0) [] (riStart none t s0) s0 (Nat.le_refl _)
    have e1 : (riStart none t s0).t0 = s.now := hn
    have e2 : (riStart none t s0).timeout = t := rfl
    rw [e1, e2] at ht
    exact ⟨recs, ht.of_eq hn.symm hr.symm hd.symm rfl rfl rfl⟩

theorem readlineLoop_timed (q : Prop) : ∀ (f : Nat) (end_ line : Bytes) (t0 : Nat) (T : Option Nat) (s : St),
    t0 ≤ s.now →
    ∃ recs, Timed q t0 T s (readlineLoop f end_ line t0 T s).2 recs
      (isTmo (readlineLoop f end_ line t0 T s).1) := by
  intro f
  induction f with
  | zero =>
    intro end_ line t0 T s _
    unfold readlineLoop
    exact ⟨[], Timed.refl q _ _ s⟩
  | succ f ih =>
    intro end_ line t0 T s hle
    unfold readlineLoop
    cases hrem : remaining T t0 s.now with
    | none => exact ⟨[], Timed.expired q s hrem hle⟩
    | some rem =>
      simp only
      obtain ⟨recs, ht⟩ := read_timed q (some 1) rem s
      have ht := Timed.nest hle hrem ht
      generalize read (some 1) rem s = out at ht
      obtain ⟨r, s1⟩ := out
      simp only at ht
      cases r with
      | error e => exact ⟨recs, ht⟩
      | ok c =>
        simp only
        split
        · exact ⟨recs, ht⟩
        · obtain ⟨recs2, ht2⟩ := ih end_ (line ++ c) t0 T s1 (Nat.le_trans hle ht.mono)
          exact ⟨recs ++ recs2, ht.trans ht2⟩

theorem readline_timed (q : Prop) (end_ : Bytes) (t : Option Nat) (s : St) :
    ∃ recs, Timed q s.now t s (readline end_ t s).2 recs (isTmo (readline end_ t s).1) := by
  unfold readline
  exact readlineLoop_timed q (fuelFor s) end_ [] s.now t s (Nat.le_refl _)

/-! ### read_until_timeout -/

/-- `read_until_timeout` swallows exactly the `TimeoutError`: it never raises it, and a normal
    return means the deadline was reached (`b = true`) -/
theorem readUntilTimeout_timed (q : Prop) (t : Option Nat) (s : St) :
    ∃ recs b, Timed q s.now t s (readUntilTimeout t s).2 recs b
      ∧ (readUntilTimeout t s).1 ≠ .error .timeout
      ∧ (∀ x, (readUntilTimeout t s).1 = .ok x → b = true) := by
  unfold readUntilTimeout
  obtain ⟨recs, ht, hnn⟩ := riTake_timed q (fuelFor s) none (riStart none t s) s [] (Nat.le_refl _)
  have e1 : (riStart none t s).t0 = s.now := rfl
  have e2 : (riStart none t s).timeout = t := rfl
  rw [e1, e2] at ht
  have hnn := hnn rfl rfl
  generalize riTake (fuelFor s) none (riStart none t s) s [] = out at ht hnn
  obtain ⟨⟨cs, e⟩, s1⟩ := out
  simp only at ht hnn
  cases e with
  | none => exact absurd rfl hnn
  | some e =>
    cases e with
    | timeout => exact ⟨recs, true, ht, by simp, fun _ _ => rfl⟩
    | hang => exact ⟨recs, false, ht, by simp, by simp⟩
    | death x m => exact ⟨recs, false, ht, by simp, by simp⟩
    | illegal => exact ⟨recs, false, ht, by simp, by simp⟩
    | assertion => exact ⟨recs, false, ht, by simp, by simp⟩
    | fuel => exact ⟨recs, false, ht, by simp, by simp⟩

/-! ### writing -/

theorem ioWrite_fields (buf : Bytes) (s : St) :
    (ioWrite buf s).2.now = s.now ∧ (ioWrite buf s).2.reads = s.reads
      ∧ (ioWrite buf s).2.slowDelay = s.slowDelay := by
  unfold ioWrite
  cases s.accept <;> exact ⟨rfl, rfl, rfl⟩

/-- the write loop does not touch the read log; it sleeps only when slow sending is on -/
theorem writeLoop_fields : ∀ (f : Nat) (buf : Bytes) (s : St),
    (writeLoop f buf s).reads = s.reads ∧ (writeLoop f buf s).slowDelay = s.slowDelay
      ∧ s.now ≤ (writeLoop f buf s).now ∧ (s.slowDelay = none → (writeLoop f buf s).now = s.now) := by
  intro f
  induction f with
  | zero => intro buf s; unfold writeLoop; exact ⟨rfl, rfl, Nat.le_refl _, fun _ => rfl⟩
  | succ f ih =>
    intro buf s
    cases buf with
    | nil => unfold writeLoop; exact ⟨rfl, rfl, Nat.le_refl _, fun _ => rfl⟩
    | cons b t =>
      unfold writeLoop
      cases hsd : s.slowDelay with
      | none =>
        simp only
        obtain ⟨h1, h2, h3⟩ := ioWrite_fields (b :: t) s
        generalize ioWrite (b :: t) s = io at h1 h2 h3
        obtain ⟨k, s1⟩ := io
        simp only at h1 h2 h3 ⊢
        obtain ⟨i1, i2, i3, i4⟩ := ih ((b :: t).drop k) s1
        refine ⟨by rw [i1, h2], by rw [i2, h3, hsd], by omega, fun _ => ?_⟩
        rw [i4 (by rw [h3, hsd]), h1]
      | some d =>
        simp only
        obtain ⟨h1, h2, h3⟩ := ioWrite_fields ((b :: t).take s.slowChunk) s
        generalize ioWrite ((b :: t).take s.slowChunk) s = io at h1 h2 h3
        obtain ⟨k, s1⟩ := io
        simp only at h1 h2 h3 ⊢
        obtain ⟨i1, i2, i3, _⟩ := ih ((b :: t).drop k) { s1 with now := s1.now + d }
        simp only at i1 i2 i3
        refine ⟨by rw [i1, h2], by rw [i2, h3, hsd], by omega, fun h => by simp at h⟩

/-- `Channel.write` under any deadline: no request; no delay unless slow sending is on -/
theorem write_timed (t0 : Nat) (T : Option Nat) (buf : Bytes) (ign : Bool) (s : St) :
    Timed (s.slowDelay = none) t0 T s (write buf ign s).2 [] false
      ∧ isTmo (write buf ign s).1 = false := by
  unfold write
  split
  · exact ⟨Timed.refl _ t0 T s, rfl⟩
  · obtain ⟨h1, h2, h3, h4⟩ := writeLoop_fields buf.length buf s
    refine ⟨?_, rfl⟩
    exact {
      reads := by simp [h1], slow := h2, recOk := by simp, mono := h3
      dead := by intro hq T' _ h; simp only; rw [h4 hq]; exact h
      last := by intro hq; simp only; rw [h4 hq]; rfl
      tmo := by simp }

/-- The slice loop of `Channel.send` under the overall deadline `(t0, T)`.  Every read-back
    request carries the time left whatever the configuration; the clock is tied to the
    transport log when slow sending is off. -/
theorem sendLoop_timed : ∀ (f : Nat) (buf : Bytes) (rb : Bool) (T : Option Nat) (ign : Bool) (t0 : Nat) (s : St),
    t0 ≤ s.now →
    ∃ recs, Timed (s.slowDelay = none) t0 T s (sendLoop f buf rb T ign t0 s).2 recs
      (isTmo (sendLoop f buf rb T ign t0 s).1) := by
  intro f
  induction f with
  | zero =>
    intro buf rb T ign t0 s _
    unfold sendLoop
    exact ⟨[], Timed.refl _ _ _ s⟩
  | succ f ih =>
    intro buf rb T ign t0 s hle
    cases buf with
    | nil => unfold sendLoop; exact ⟨[], Timed.refl _ _ _ s⟩
    | cons b t =>
      unfold sendLoop
      simp only
      obtain ⟨hw, hwe⟩ := write_timed t0 T ((b :: t).take s.slice) ign s
      generalize write ((b :: t).take s.slice) ign s = w at hw hwe
      obtain ⟨wr, s1⟩ := w
      simp only at hw hwe
      cases wr with
      | error e => exact ⟨[], hw.flag (by rw [hwe]; simp)⟩
      | ok u =>
        simp only
        have hle1 : t0 ≤ s1.now := Nat.le_trans hle hw.mono
        -- the continuation of the loop from any later state
        have cont : ∀ (s2 : St) (recs1 : List ReadRec) (x : Bool),
            Timed (s.slowDelay = none) t0 T s s2 recs1 x →
            ∃ recs, Timed (s.slowDelay = none) t0 T s
              (sendLoop f ((b :: t).drop s2.slice) rb T ign t0 s2).2 recs
              (isTmo (sendLoop f ((b :: t).drop s2.slice) rb T ign t0 s2).1) := by
          intro s2 recs1 x h12
          obtain ⟨recs2, ht2⟩ := ih ((b :: t).drop s2.slice) rb T ign t0 s2 (Nat.le_trans hle h12.mono)
          exact ⟨recs1 ++ recs2, h12.trans (ht2.guard (fun h => by rw [h12.slow]; exact h))⟩
        cases rb with
        | false =>
          simp only [Bool.false_eq_true, if_false]
          exact cont s1 [] false hw
        | true =>
          simp only [if_true]
          cases hrem : remaining T t0 s1.now with
          | none =>
            have := hw.trans (Timed.expired (s.slowDelay = none) s1 hrem hle1)
            exact ⟨[] ++ [], this⟩
          | some rem =>
            simp only
            obtain ⟨recs1, hr⟩ := read_timed (s.slowDelay = none)
              (some (((b :: t).take s.slice).length + countNl ((b :: t).take s.slice))) rem s1
            have hr := hw.trans (Timed.nest hle1 hrem hr)
            generalize read (some (((b :: t).take s.slice).length + countNl ((b :: t).take s.slice))) rem s1 = out at hr
            obtain ⟨rr, s2⟩ := out
            simp only at hr
            cases rr with
            | error e => exact ⟨[] ++ recs1, hr⟩
            | ok bb =>
              simp only
              exact cont s2 ([] ++ recs1) _ hr

/-- `Channel.send(buf, read_back, timeout)` runs under the deadline `(now, timeout)` -/
theorem send_timed (buf : Bytes) (rb : Bool) (t : Option Nat) (ign : Bool) (s : St) :
    ∃ recs, Timed (s.slowDelay = none) s.now t s (send buf rb t ign s).2 recs
      (isTmo (send buf rb t ign s).1) := by
  unfold send
  split
  · exact ⟨[], Timed.refl _ _ _ s⟩
  · split
    · exact ⟨[], Timed.refl _ _ _ s⟩
    · exact sendLoop_timed (buf.length + 1) buf rb t ign s.now s (Nat.le_refl _)

end C06
