import TbotVerif.Props.C01Shell
import TbotVerif.Props.C01Status
/-! C01 — "Linux shell commands get exactly the given args; output and status are exact":
    the END-TO-END theorems of the channel + shell-driver model against the answer of a POSIX
    shell behind a canonical-mode tty (ECHO on, ECHOCTL off — see `Tty.echo_length_ctl` for what
    goes wrong otherwise, F2).

    * `exec_exact`: for every command line without black-listed byte, every program output
      without early prompt, every status, every fragmentation of the two answers (cut
      anywhere, but with a piece boundary between the answer to the command and the answer to
      `echo $?` — the second answer does not exist before `echo $?` was sent), every arrival
      schedule, every chunk size ≥ 1, every slice size ≥ 1 (multi-slice lines included) and every
      partial-write oracle: `exec` returns `(status, text (cook out))`, writes exactly
      `line ⏎ echo $? ⏎`, consumes exactly its own answers, and leaves the channel IN SYNC.
    * `execSeq_exact`: hence every command of a SEQUENCE is exact (no residue).
    * `exec0_exact`, `test_exact`, `exec_rejects` (a black-listed byte ⇒ `IllegalData`, nothing
      written).
    * `specCmd_runCmd` / `spec_holds`: the Spec `Spec.C01` holds of the model run.

    The quoting half of C01 (the command line denotes exactly the given argv) is `C01Q`. -/

namespace C01
open Chan Shell Spec

/-! ### no early prompt -/

/-- the prompt cannot occur early in `pre ++ prompt` when its first byte does not occur in `pre`
    (in particular a prompt never overlaps itself in a way that matters) -/
theorem noEarly_of_head (c : Byte) (t pre : Bytes) (h : c ∉ pre) : NoEarly (c :: t) (pre ++ c :: t) := by
  intro k _ hle hsuf
  rcases Nat.lt_or_ge k (pre ++ c :: t).length with hlt | hge
  · exfalso
    obtain ⟨u, hu⟩ := hsuf
    have hlen : u.length + (t.length + 1) = k := by
      have := congrArg List.length hu
      simp only [List.length_append, List.length_cons, List.length_take] at this
      simp only [List.length_append, List.length_cons] at hle
      omega
    have hul : u.length < pre.length := by
      simp only [List.length_append, List.length_cons] at hlt
      omega
    have h1 : ((pre ++ c :: t).take k)[u.length]? = some c := by
      rw [← hu, List.getElem?_append_right (Nat.le_refl _)]
      simp
    rw [List.getElem?_take_of_lt (by omega), List.getElem?_append_left hul] at h1
    exact h (List.mem_of_getElem? h1)
  · omega

/-- ASCII digit, CR or LF -/
def digitOrNl (c : Byte) : Bool := (48 ≤ c && c ≤ 57) || c == 13 || c == 10

/-- a prompt that cannot be mistaken for (part of) the answer to `echo $?`: it is non-empty and
    does not start with a digit, CR or LF -/
def promptOk : Bytes → Bool
  | [] => false
  | c :: _ => !digitOrNl c

theorem promptOk_bash : promptOk Params.bashPrompt = true := by decide
theorem promptOk_ash : promptOk Params.ashPrompt = true := by decide

theorem promptOk_ne {ps1 : Bytes} (h : promptOk ps1 = true) : ps1 ≠ [] := by
  intro h'; subst h'; simp [promptOk] at h

/-- the status round trip as a finite table over the range a shell can produce (0–255), checked
    by kernel evaluation of the model functions themselves — an independent cross-check of the
    general `parseInt_status` / `status_bytes_kind` (C01Status), which hold for every `n` -/
theorem status_table : ∀ n : Fin 256,
    parseInt (text (Tty.cook (statusBytes n.val ++ [Tty.LF]))) = some n.val
      ∧ ∀ c ∈ Tty.cook (statusBytes n.val ++ [Tty.LF]), digitOrNl c = true := by
  decide +kernel

theorem status_digitOrNl (n : Nat) : ∀ c ∈ Tty.cook (statusBytes n ++ [Tty.LF]), digitOrNl c = true := by
  intro c hc
  rcases status_bytes_kind n c hc with ⟨h1, h2⟩ | rfl | rfl
  · have e1 : (48 : Byte) ≤ c := UInt8.le_iff_toNat_le.mpr h1
    have e2 : c ≤ (57 : Byte) := UInt8.le_iff_toNat_le.mpr h2
    simp [digitOrNl, e1, e2]
  · rfl
  · rfl

/-- for EVERY status `st`: the answer to `echo $?` parses back to `st`, and a prompt that does
    not start with a digit, CR or LF does not occur early in it -/
theorem statusOk_of (ps1 : Bytes) (st : Nat) (hp : promptOk ps1 = true) : StatusOk ps1 st := by
  refine ⟨?_, parseInt_status st⟩
  cases ps1 with
  | nil => simp [promptOk] at hp
  | cons c t =>
    apply noEarly_of_head
    intro hc
    have := status_digitOrNl st c hc
    simp only [promptOk, this, Bool.not_true] at hp
    exact absurd hp (by simp)

/-! ### (2) EXEC EXACT -/

/-- general form: the status part is the hypothesis `StatusOk` (the prompt may be anything that
    does not occur early in the status answer) -/
theorem exec_exact_gen (ps1 line out : Bytes) (st : Nat) (s : St) (sc1 sc2 tl : List Piece)
    (hps : ps1 ≠ []) (hsync : InSync ps1 s) (hscript : s.script = sc1 ++ sc2 ++ tl)
    (hwf1 : ∀ q ∈ sc1, q.data ≠ []) (hwf2 : ∀ q ∈ sc2, q.data ≠ [])
    (hflat1 : flat sc1 = respCmd false ps1 line out) (hflat2 : flat sc2 = respStatus false ps1 st)
    (hbl1 : forbidden s.blacklist (line ++ [Tty.CR]) = false)
    (hbl2 : forbidden s.blacklist (echoStatusLine ++ [Tty.CR]) = false)
    (hearly : NoEarly ps1 (Tty.cook out ++ ps1)) (hst : StatusOk ps1 st) :
    ∃ s', exec line s = (.ok (st, text (Tty.cook out)), s') ∧ s'.script = tl
      ∧ accepted s'.writes = accepted s.writes ++ (line ++ [Tty.CR] ++ (echoStatusLine ++ [Tty.CR]))
      ∧ InSync ps1 s' ∧ Same s s' := by
  generalize hs0 : ({ s with script := sc1 } : St) = s0
  have hs : s = app (app s0 sc2) tl := by
    subst hs0
    cases s
    simp only at hscript
    subst hscript
    rfl
  have hsync0 : InSync ps1 s0 := by
    subst hs0
    exact ⟨hsync.prompt, hsync.deaths, hsync.streams, hsync.streambuf, hsync.chunk, hsync.slice, hsync.slow⟩
  have hwf0 : WF s0 := by subst hs0; exact hwf1
  have hbl0 : s0.blacklist = s.blacklist := by subst hs0; rfl
  have hw0 : s0.writes = s.writes := by subst hs0; rfl
  have hsame0 : Same s s0 := by subst hs0; exact ⟨rfl, rfl, rfl, rfl, rfl, rfl, rfl, rfl⟩
  have hfl0 : flat s0.script = respCmd false ps1 line out := by subst hs0; exact hflat1
  -- first half on the first answer alone, then with the rest of the script behind it
  obtain ⟨s1, hp1, hsc1, hacc1, hsync1, hsame1⟩ :=
    phase1_exact ps1 line out s0 hps hsync0 hwf0 (by rw [hbl0]; exact hbl1) hfl0 hearly
  have hp1' := phase1_app line s0 sc2 _ _ hp1
  -- second half
  have hwf1' : WF (app s1 sc2) := by
    intro q hq
    rw [app_script, hsc1, List.nil_append] at hq
    exact hwf2 q hq
  have hfl1' : flat (app s1 sc2).script = respStatus false ps1 st := by
    rw [app_script, hsc1, List.nil_append]; exact hflat2
  obtain ⟨s2, hf2, hsc2, hacc2, hsync2, hsame2⟩ :=
    fetchRetcode_exact ps1 st (app s1 sc2) hps (hsync1.app sc2) hwf1'
      (by rw [app_blacklist, hsame1.blacklist, hbl0]; exact hbl2) hfl1' hst
  have hexec : exec line (app s0 sc2) = (.ok (st, text (Tty.cook out)), s2) := by
    rw [exec_eq, hp1']
    simp only
    rw [hf2]
  have hexec' := exec_app line (app s0 sc2) tl _ _ hexec
  refine ⟨app s2 tl, by rw [hs]; exact hexec', by rw [app_script, hsc2]; rfl, ?_, hsync2.app tl, ?_⟩
  · rw [app_writes, hacc2, app_writes, hacc1, hw0, List.append_assoc]
  · exact hsame0.trans ((((hsame1.app sc2).trans hsame2)).app tl)

/-- **(2) EXEC EXACT.**  `s` is IN SYNC at the literal prompt `ps1` (which does not start with a
    digit, CR or LF); its script holds ANY fragmentation `sc1` of the answer to the command line
    and ANY fragmentation `sc2` of the answer to `echo $?` (non-empty pieces, arbitrary arrival
    ticks), followed by anything (`tl`); the black-list hits neither `line ⏎` nor `echo $? ⏎`;
    the prompt does not occur early in `cook out ++ ps1`; `st` is ANY status.  Then, whatever the chunk
    size, slice size, partial-write oracle: `exec line` returns `(st, text (cook out))`; the
    bytes accepted by the transport are exactly `line ⏎ echo $? ⏎`; exactly the two answers have
    been consumed; the final state is IN SYNC with the same configuration. -/
theorem exec_exact (ps1 line out : Bytes) (st : Nat) (s : St) (sc1 sc2 tl : List Piece)
    (hp : promptOk ps1 = true) (hsync : InSync ps1 s) (hscript : s.script = sc1 ++ sc2 ++ tl)
    (hwf1 : ∀ q ∈ sc1, q.data ≠ []) (hwf2 : ∀ q ∈ sc2, q.data ≠ [])
    (hflat1 : flat sc1 = respCmd false ps1 line out) (hflat2 : flat sc2 = respStatus false ps1 st)
    (hbl1 : forbidden s.blacklist (line ++ [Tty.CR]) = false)
    (hbl2 : forbidden s.blacklist (echoStatusLine ++ [Tty.CR]) = false)
    (hearly : NoEarly ps1 (Tty.cook out ++ ps1)) :
    ∃ s', exec line s = (.ok (st, text (Tty.cook out)), s') ∧ s'.script = tl
      ∧ accepted s'.writes = accepted s.writes ++ (line ++ [Tty.CR] ++ (echoStatusLine ++ [Tty.CR]))
      ∧ InSync ps1 s' ∧ Same s s' :=
  exec_exact_gen ps1 line out st s sc1 sc2 tl (promptOk_ne hp) hsync hscript hwf1 hwf2 hflat1 hflat2 hbl1 hbl2
    hearly (statusOk_of ps1 st hp)

/-! ### (3) `exec0`, `test`, rejection -/

/-- `exec0` raises `CommandFailure` iff the status is not 0 (same final state as `exec`) -/
theorem exec0_of_exec (line : Bytes) (s s' : St) (st : Nat) (o : List Char)
    (h : exec line s = (.ok (st, o), s')) :
    exec0 line s = (if st = 0 then .ok o else .error (.commandFailure st), s') := by
  unfold exec0
  rw [h]
  simp only
  split <;> rfl

/-- `test` is `status == 0` -/
theorem test_of_exec (line : Bytes) (s s' : St) (st : Nat) (o : List Char)
    (h : exec line s = (.ok (st, o), s')) : Shell.test line s = (.ok (st == 0), s') := by
  unfold Shell.test
  rw [h]

theorem exec0_exact (ps1 line out : Bytes) (st : Nat) (s : St) (sc1 sc2 tl : List Piece)
    (hp : promptOk ps1 = true) (hsync : InSync ps1 s) (hscript : s.script = sc1 ++ sc2 ++ tl)
    (hwf1 : ∀ q ∈ sc1, q.data ≠ []) (hwf2 : ∀ q ∈ sc2, q.data ≠ [])
    (hflat1 : flat sc1 = respCmd false ps1 line out) (hflat2 : flat sc2 = respStatus false ps1 st)
    (hbl1 : forbidden s.blacklist (line ++ [Tty.CR]) = false)
    (hbl2 : forbidden s.blacklist (echoStatusLine ++ [Tty.CR]) = false)
    (hearly : NoEarly ps1 (Tty.cook out ++ ps1)) :
    ∃ s', exec0 line s = (if st = 0 then .ok (text (Tty.cook out)) else .error (.commandFailure st), s')
      ∧ s'.script = tl
      ∧ accepted s'.writes = accepted s.writes ++ (line ++ [Tty.CR] ++ (echoStatusLine ++ [Tty.CR]))
      ∧ InSync ps1 s' ∧ Same s s' := by
  obtain ⟨s', h, rest⟩ := exec_exact ps1 line out st s sc1 sc2 tl hp hsync hscript hwf1 hwf2 hflat1 hflat2
    hbl1 hbl2 hearly
  exact ⟨s', exec0_of_exec _ _ _ _ _ h, rest⟩

theorem test_exact (ps1 line out : Bytes) (st : Nat) (s : St) (sc1 sc2 tl : List Piece)
    (hp : promptOk ps1 = true) (hsync : InSync ps1 s) (hscript : s.script = sc1 ++ sc2 ++ tl)
    (hwf1 : ∀ q ∈ sc1, q.data ≠ []) (hwf2 : ∀ q ∈ sc2, q.data ≠ [])
    (hflat1 : flat sc1 = respCmd false ps1 line out) (hflat2 : flat sc2 = respStatus false ps1 st)
    (hbl1 : forbidden s.blacklist (line ++ [Tty.CR]) = false)
    (hbl2 : forbidden s.blacklist (echoStatusLine ++ [Tty.CR]) = false)
    (hearly : NoEarly ps1 (Tty.cook out ++ ps1)) :
    ∃ s', Shell.test line s = (.ok (st == 0), s') ∧ s'.script = tl
      ∧ accepted s'.writes = accepted s.writes ++ (line ++ [Tty.CR] ++ (echoStatusLine ++ [Tty.CR]))
      ∧ InSync ps1 s' ∧ Same s s' := by
  obtain ⟨s', h, rest⟩ := exec_exact ps1 line out st s sc1 sc2 tl hp hsync hscript hwf1 hwf2 hflat1 hflat2
    hbl1 hbl2 hearly
  exact ⟨s', test_of_exec _ _ _ _ _ h, rest⟩

/-- **REJECTION**: a black-listed byte in the line (or the Enter key) makes `exec` raise
    `IllegalDataException` and leaves the state untouched — NOTHING is written, nothing read -/
theorem exec_rejects (line : Bytes) (s : St) (h : forbidden s.blacklist (line ++ [Tty.CR]) = true) :
    exec line s = (.error (.chan .illegal), s) := by
  unfold exec
  rw [sendline_illegal _ _ _ _ h]

theorem exec0_rejects (line : Bytes) (s : St) (h : forbidden s.blacklist (line ++ [Tty.CR]) = true) :
    exec0 line s = (.error (.chan .illegal), s) := by
  unfold exec0
  rw [exec_rejects _ _ h]

theorem test_rejects (line : Bytes) (s : St) (h : forbidden s.blacklist (line ++ [Tty.CR]) = true) :
    Shell.test line s = (.error (.chan .illegal), s) := by
  unfold Shell.test
  rw [exec_rejects _ _ h]

/-! ### sequences of commands: no residue -/

/-- one command of a session: its line, what the program prints, its status, and how the
    transport happens to cut the two answers -/
structure Cmd where
  line : Bytes
  out : Bytes
  st : Nat
  sc1 : List Piece
  sc2 : List Piece

structure Cmd.Ok (ps1 : Bytes) (bl : List Byte) (c : Cmd) : Prop where
  wf1 : ∀ q ∈ c.sc1, q.data ≠ []
  wf2 : ∀ q ∈ c.sc2, q.data ≠ []
  flat1 : flat c.sc1 = respCmd false ps1 c.line c.out
  flat2 : flat c.sc2 = respStatus false ps1 c.st
  legal : forbidden bl (c.line ++ [Tty.CR]) = false
  early : NoEarly ps1 (Tty.cook c.out ++ ps1)

/-- `exec` called for each line in turn on the same channel -/
def execSeq : List Bytes → St → List (Except ShExc (Nat × List Char)) × St
  | [], s => ([], s)
  | l :: ls, s => ((exec l s).1 :: (execSeq ls (exec l s).2).1, (execSeq ls (exec l s).2).2)

/-- **EVERY COMMAND OF A SEQUENCE IS EXACT.**  The script holds the answers to all commands,
    one after the other (each cut in any way); every `exec` returns its own command's status and
    output, and the transport sees exactly the concatenation of `line ⏎ echo $? ⏎`. -/
theorem execSeq_exact (ps1 : Bytes) (hp : promptOk ps1 = true) : ∀ (cmds : List Cmd) (s : St) (tl : List Piece),
    InSync ps1 s → (∀ c ∈ cmds, c.Ok ps1 s.blacklist) →
    forbidden s.blacklist (echoStatusLine ++ [Tty.CR]) = false →
    s.script = (cmds.map fun c => c.sc1 ++ c.sc2).flatten ++ tl →
    ∃ s', execSeq (cmds.map (·.line)) s = (cmds.map (fun c => .ok (c.st, text (Tty.cook c.out))), s')
      ∧ s'.script = tl
      ∧ accepted s'.writes = accepted s.writes
          ++ (cmds.map fun c => c.line ++ [Tty.CR] ++ (echoStatusLine ++ [Tty.CR])).flatten
      ∧ InSync ps1 s' ∧ Same s s' := by
  intro cmds
  induction cmds with
  | nil =>
    intro s tl hsync _ _ hscript
    exact ⟨s, rfl, by simpa using hscript, by simp, hsync, Same.refl s⟩
  | cons c cs ih =>
    intro s tl hsync hok hbl2 hscript
    have hc := hok c (List.mem_cons_self ..)
    have hscript' : s.script = c.sc1 ++ c.sc2 ++ ((cs.map fun c => c.sc1 ++ c.sc2).flatten ++ tl) := by
      rw [hscript]; simp [List.append_assoc]
    obtain ⟨s1, hexec, hsc1, hacc1, hsync1, hsame1⟩ := exec_exact ps1 c.line c.out c.st s c.sc1 c.sc2 _ hp hsync
      hscript' hc.wf1 hc.wf2 hc.flat1 hc.flat2 hc.legal hbl2 hc.early
    obtain ⟨s', hseq, hsc', hacc', hsync', hsame'⟩ := ih s1 tl hsync1
      (by intro c' hc'; rw [hsame1.blacklist]; exact hok c' (List.mem_cons_of_mem _ hc'))
      (by rw [hsame1.blacklist]; exact hbl2) hsc1
    refine ⟨s', ?_, hsc', ?_, hsync', hsame1.trans hsame'⟩
    · simp only [List.map_cons, execSeq, hexec, hseq]
    · rw [hacc', hacc1]; simp [List.append_assoc]

/-! ### (4) the Spec holds of the model run -/

theorem cutBy_nil (ns : List Nat) : cutBy ns [] = [] := by
  cases ns <;> rfl

theorem cutBy_flatten : ∀ (ns : List Nat) (b : Bytes), (cutBy ns b).flatten = b := by
  intro ns
  induction ns with
  | nil =>
    intro b
    cases b with
    | nil => rfl
    | cons x t => simp [cutBy]
  | cons n ns ih =>
    intro b
    cases b with
    | nil => rfl
    | cons x t =>
      unfold cutBy
      split
      · exact ih _
      · rw [List.flatten_cons, ih, List.take_append_drop]

theorem cutBy_ne : ∀ (ns : List Nat) (b : Bytes), ∀ d ∈ cutBy ns b, d ≠ [] := by
  intro ns
  induction ns with
  | nil =>
    intro b
    cases b with
    | nil => intro d hd; simp [cutBy] at hd
    | cons x t => intro d hd; simp only [cutBy, List.mem_singleton] at hd; subst hd; simp
  | cons n ns ih =>
    intro b
    cases b with
    | nil => intro d hd; simp [cutBy] at hd
    | cons x t =>
      intro d hd
      unfold cutBy at hd
      split at hd
      · exact ih _ d hd
      · rename_i hn
        rcases List.mem_cons.mp hd with rfl | hd
        · intro h
          have := congrArg List.length h
          simp only [List.length_take, List.length_cons, List.length_nil] at this
          omega
        · exact ih _ d hd

/-- a cut list whose first part adds up to the length of the first answer cuts at the boundary
    between the two answers (this is what the sizes of real transport deliveries do: the second
    answer does not exist before `echo $?` has been sent) -/
theorem cutBy_boundary : ∀ (p1 p2 : List Nat) (r1 r2 : Bytes), p1.sum = r1.length →
    cutBy (p1 ++ p2) (r1 ++ r2) = cutBy p1 r1 ++ cutBy p2 r2 := by
  intro p1
  induction p1 with
  | nil =>
    intro p2 r1 r2 h
    have : r1 = [] := List.length_eq_zero_iff.mp (by simpa using h.symm)
    subst this
    simp [cutBy_nil]
  | cons n p1 ih =>
    intro p2 r1 r2 h
    simp only [List.sum_cons] at h
    by_cases hn : n = 0
    · subst hn
      have h' : p1.sum = r1.length := by omega
      cases hr : r1 ++ r2 with
      | nil =>
        have h1 : r1 = [] := (List.append_eq_nil_iff.mp hr).1
        have h2 : r2 = [] := (List.append_eq_nil_iff.mp hr).2
        subst h1; subst h2
        simp [cutBy_nil]
      | cons x t =>
        have e1 : cutBy (0 :: (p1 ++ p2)) (x :: t) = cutBy (p1 ++ p2) (x :: t) := by
          simp [cutBy]
        have e2 : cutBy (0 :: p1) r1 = cutBy p1 r1 := by
          cases r1 with
          | nil => simp [cutBy_nil]
          | cons y u => simp [cutBy]
        rw [List.cons_append, e1, e2, ← hr]
        exact ih p2 r1 r2 h'
    · have hr1 : r1 ≠ [] := by
        intro h0; subst h0; simp at h; omega
      obtain ⟨y, u, rfl⟩ : ∃ y u, r1 = y :: u := by
        cases r1 with
        | nil => exact absurd rfl hr1
        | cons y u => exact ⟨y, u, rfl⟩
      have hle : n ≤ (y :: u).length := by omega
      have e1 : cutBy (n :: (p1 ++ p2)) (y :: u ++ r2)
          = ((y :: u) ++ r2).take n :: cutBy (p1 ++ p2) (((y :: u) ++ r2).drop n) := by
        simp [cutBy, hn]
      have e2 : cutBy (n :: p1) (y :: u) = (y :: u).take n :: cutBy p1 ((y :: u).drop n) := by
        simp [cutBy, hn]
      rw [List.cons_append, e1, e2, List.take_append_of_le_length hle, List.drop_append_of_le_length hle,
        ih p2 ((y :: u).drop n) r2 (by simp only [List.length_drop]; omega)]
      rfl

theorem flat_toScript (ps : List Bytes) : flat (toScript ps) = ps.flatten := by
  simp [flat, toScript, List.map_map, Function.comp_def]

theorem wf_toScript (ns : List Nat) (b : Bytes) : ∀ q ∈ toScript (cutBy ns b), q.data ≠ [] := by
  intro q hq
  simp only [toScript, List.mem_map] at hq
  obtain ⟨d, hd, rfl⟩ := hq
  exact cutBy_ne ns b d hd

/-- the state `runCmd` starts from -/
def initSt (c : ShCase) (script : List Piece) : St :=
  { chunk := c.chunk, prompt := some (.lit (prompt c)), blacklist := blacklist c, script := script }

theorem initSt_sync (c : ShCase) (script : List Piece) (hc : 0 < c.chunk) : InSync (prompt c) (initSt c script) :=
  ⟨rfl, rfl, rfl, rfl, hc, by show 0 < Params.sendSliceSize; decide, by intro h; simp [initSt] at h⟩

theorem promptOk_case (c : ShCase) : promptOk (prompt c) = true := by
  unfold prompt
  split
  · exact promptOk_ash
  · exact promptOk_bash

theorem echoStatus_legal (c : ShCase) : forbidden (blacklist c) (echoStatusLine ++ [Tty.CR]) = false := by
  unfold blacklist
  split <;> decide +kernel

theorem rc_beq (n : Nat) (l : List Char) : (ShVal.rc n l == ShVal.rc n l) = true := by
  show instBEqShVal.beq _ _ = true
  simp [instBEqShVal.beq]

theorem out_beq (l : List Char) : (ShVal.out l == ShVal.out l) = true := by
  show instBEqShVal.beq _ _ = true
  simp [instBEqShVal.beq]

theorem bool_beq (b : Bool) : (ShVal.bool b == ShVal.bool b) = true := by
  show instBEqShVal.beq _ _ = true
  simp [instBEqShVal.beq]

theorem err_beq (t : String) : (ShVal.err t == ShVal.err t) = true := by
  show instBEqShVal.beq _ _ = true
  simp [instBEqShVal.beq]

theorem writes_ne_of_accepted {ws : List (Bytes × Nat)} {b : Bytes} (h : accepted ws = b) (hb : b ≠ []) :
    ws.isEmpty = false := by
  cases ws with
  | nil => exact absurd h.symm hb
  | cons w t => rfl

/-- **(4) the Spec holds of the model run of one command**, for every cut list `pieces` that
    cuts the remote's answer at (among other places) the boundary between the answer to the
    command and the answer to `echo $?` — i.e. `cutBy pieces (r1 ++ r2) = cutBy p1 r1 ++ cutBy p2 r2`
    for some `p1 p2` — when the program's output has no early prompt (any status).
    (In the rejected case no hypothesis but the black-list hit is used.) -/
theorem specCmd_runCmd (c : ShCase) (cmd : ShCmd) (pieces p1 p2 : List Nat) (hc : 0 < c.chunk)
    (hearly : NoEarly (prompt c) (Tty.cook cmd.out ++ prompt c))
    (hcut : cutBy pieces (respCmd false (prompt c) (lineOf cmd) cmd.out ++ respStatus false (prompt c) cmd.status)
      = cutBy p1 (respCmd false (prompt c) (lineOf cmd) cmd.out) ++ cutBy p2 (respStatus false (prompt c) cmd.status)) :
    specCmd c cmd (runCmd c cmd pieces) = true := by
  have hinit : runCmd c cmd pieces =
      (let s := initSt c (toScript (cutBy pieces (respCmd false (prompt c) (lineOf cmd) cmd.out
          ++ respStatus false (prompt c) cmd.status)))
       let fin (v : ShVal) (s : St) : CmdObs :=
         { val := v, argv := if !s.writes.isEmpty then some cmd.args else none,
           written := (s.writes.map fun w => w.1.take w.2).flatten,
           pieces := s.reads.filterMap fun r => r.data.map List.length }
       match cmd.op with
       | .exec => match exec (lineOf cmd) s with
         | (.ok (rc, out), s) => fin (.rc rc out) s
         | (.error e, s) => fin (.err (excTag e)) s
       | .exec0 => match exec0 (lineOf cmd) s with
         | (.ok out, s) => fin (.out out) s
         | (.error e, s) => fin (.err (excTag e)) s
       | .test => match Shell.test (lineOf cmd) s with
         | (.ok b, s) => fin (.bool b) s
         | (.error e, s) => fin (.err (excTag e)) s) := rfl
  rw [hinit, hcut]
  generalize hs0 : initSt c (toScript (cutBy p1 (respCmd false (prompt c) (lineOf cmd) cmd.out)
    ++ cutBy p2 (respStatus false (prompt c) cmd.status))) = s0
  have hbl0 : s0.blacklist = blacklist c := by subst hs0; rfl
  have hw0 : s0.writes = [] := by subst hs0; rfl
  unfold specCmd
  simp only
  by_cases hdom : containsSub (prompt c) (Tty.cook cmd.out) = true
  · rw [if_pos hdom]
  rw [if_neg hdom]
  by_cases hf : forbidden (blacklist c) (lineOf cmd ++ [Tty.CR]) = true
  · -- rejected
    rw [if_pos hf]
    have hf0 : forbidden s0.blacklist (lineOf cmd ++ [Tty.CR]) = true := by rw [hbl0]; exact hf
    cases cmd.op with
    | exec =>
      simp only [exec_rejects _ _ hf0, hw0]
      exact Bool.and_eq_true_iff.mpr ⟨err_beq _, rfl⟩
    | exec0 =>
      simp only [exec0_rejects _ _ hf0, hw0]
      exact Bool.and_eq_true_iff.mpr ⟨err_beq _, rfl⟩
    | test =>
      simp only [test_rejects _ _ hf0, hw0]
      exact Bool.and_eq_true_iff.mpr ⟨err_beq _, rfl⟩
  · rw [if_neg hf]
    have hf' : forbidden (blacklist c) (lineOf cmd ++ [Tty.CR]) = false := by
      cases h : forbidden (blacklist c) (lineOf cmd ++ [Tty.CR]) with
      | false => rfl
      | true => exact absurd h hf
    have hscript : s0.script = toScript (cutBy p1 (respCmd false (prompt c) (lineOf cmd) cmd.out))
        ++ toScript (cutBy p2 (respStatus false (prompt c) cmd.status)) ++ [] := by
      subst hs0
      simp [initSt, toScript]
    have hsync0 : InSync (prompt c) s0 := by subst hs0; exact initSt_sync c _ hc
    obtain ⟨s', hexec, _, hacc, _, _⟩ := exec_exact (prompt c) (lineOf cmd) cmd.out cmd.status s0 _ _ [] (promptOk_case c)
      hsync0 hscript (wf_toScript _ _) (wf_toScript _ _)
      (by rw [flat_toScript, cutBy_flatten]) (by rw [flat_toScript, cutBy_flatten])
      (by rw [hbl0]; exact hf') (by rw [hbl0]; exact echoStatus_legal c) hearly
    have hran : s'.writes.isEmpty = false := by
      refine writes_ne_of_accepted hacc ?_
      rw [hw0]
      simp [accepted]
    cases hop : cmd.op with
    | exec =>
      simp only [hexec, hran, Bool.not_false, if_true, beq_self_eq_true, Bool.true_and]
      exact rc_beq _ _
    | exec0 =>
      have hx0 := exec0_of_exec _ _ _ _ _ hexec
      by_cases h0 : cmd.status = 0
      · rw [if_pos h0] at hx0
        simp only [hx0, hran, Bool.not_false, if_true, beq_self_eq_true, Bool.true_and, h0]
        exact out_beq _
      · rw [if_neg h0] at hx0
        simp only [hx0, hran, Bool.not_false, if_true, beq_self_eq_true, Bool.true_and, h0, if_false]
        exact err_beq _
    | test =>
      simp only [test_of_exec _ _ _ _ _ hexec, hran, Bool.not_false, if_true, beq_self_eq_true, Bool.true_and]
      exact bool_beq _

/-- (4) with the boundary condition in arithmetic form -/
theorem specCmd_runCmd_sum (c : ShCase) (cmd : ShCmd) (p1 p2 : List Nat) (hc : 0 < c.chunk)
    (hearly : NoEarly (prompt c) (Tty.cook cmd.out ++ prompt c))
    (hsum : p1.sum = (respCmd false (prompt c) (lineOf cmd) cmd.out).length) :
    specCmd c cmd (runCmd c cmd (p1 ++ p2)) = true :=
  specCmd_runCmd c cmd (p1 ++ p2) p1 p2 hc hearly (cutBy_boundary p1 p2 _ _ hsum)

/-- a case the model run of which is covered by the theorem: positive chunk size, and for every
    command no early prompt and a cut list that respects the phase boundary -/
structure CaseOk (c : ShCase) (pieces : List (List Nat)) : Prop where
  chunk : 0 < c.chunk
  len : pieces.length = c.cmds.length
  cmds : ∀ x ∈ c.cmds.zip pieces,
    NoEarly (prompt c) (Tty.cook x.1.out ++ prompt c)
      ∧ ∃ p1 p2, cutBy x.2 (respCmd false (prompt c) (lineOf x.1) x.1.out
          ++ respStatus false (prompt c) x.1.status)
        = cutBy p1 (respCmd false (prompt c) (lineOf x.1) x.1.out)
          ++ cutBy p2 (respStatus false (prompt c) x.1.status)

theorem specAll_zip (c : ShCase) : ∀ (cmds : List ShCmd) (pieces : List (List Nat)),
    pieces.length = cmds.length →
    (∀ x ∈ cmds.zip pieces, specCmd c x.1 (runCmd c x.1 x.2) = true) →
    specAll c cmds ((cmds.zip pieces).map fun x => runCmd c x.1 x.2) = true := by
  intro cmds
  induction cmds with
  | nil => intro pieces hl _; cases pieces <;> simp_all [specAll]
  | cons cmd cs ih =>
    intro pieces hl h
    cases pieces with
    | nil => simp at hl
    | cons p ps =>
      simp only [List.zip_cons_cons, List.map_cons, specAll, Bool.and_eq_true]
      refine ⟨h (cmd, p) (by simp), ih ps (by simpa using hl) ?_⟩
      intro x hx
      exact h x (by simp [hx])

/-- **`Spec.C01` holds of the model run** -/
theorem spec_holds (c : ShCase) (pieces : List (List Nat)) (h : CaseOk c pieces) :
    Spec.C01 c (Shell.run c pieces) = true := by
  unfold Spec.C01 Shell.run
  refine specAll_zip c c.cmds pieces h.len ?_
  intro x hx
  obtain ⟨h2, p1, p2, h3⟩ := h.cmds x hx
  exact specCmd_runCmd c x.1 x.2 p1 p2 h.chunk h2 h3

/-! ### non-vacuity, and why the hypotheses are there -/

/-- for the prompt tbot configures (it starts with `T`): output without the byte `T` cannot
    contain an early prompt -/
theorem noEarly_bash (out : Bytes) (h : 84 ∉ Tty.cook out) :
    NoEarly Params.bashPrompt (Tty.cook out ++ Params.bashPrompt) :=
  noEarly_of_head 84 _ (Tty.cook out) h

/-- `ls` printing "a\nb\n" with status 42 on bash: chunk size 3, slice size 1 (the line goes out
    in three slices, each echo read back separately), a partial-write oracle, the first answer
    cut as 2·3·4·rest, the second as 1·5·rest, and a trailing piece that must survive -/
example :
    let s : St := { chunk := 3, slice := 1, prompt := some (.lit Params.bashPrompt),
                    blacklist := Params.bashBlacklist, accept := [1, 5, 2],
                    script := toScript (cutBy [2, 3, 4] (respCmd false Params.bashPrompt [108, 115] [97, 10, 98, 10]))
                      ++ toScript (cutBy [1, 5] (respStatus false Params.bashPrompt 42)) ++ [⟨7, [120]⟩] }
    ∃ s', exec [108, 115] s = (.ok (42, text (Tty.cook [97, 10, 98, 10])), s') ∧ s'.script = [⟨7, [120]⟩]
      ∧ accepted s'.writes = [108, 115, Tty.CR] ++ (echoStatusLine ++ [Tty.CR]) ∧ InSync Params.bashPrompt s' := by
  intro s
  obtain ⟨s', h1, h2, h3, h4, _⟩ := exec_exact Params.bashPrompt [108, 115] [97, 10, 98, 10] 42 s _ _ [⟨7, [120]⟩]
    promptOk_bash ⟨rfl, rfl, rfl, rfl, by decide, by decide, by intro h; simp [s] at h⟩ rfl
    (wf_toScript _ _) (wf_toScript _ _) (by rw [flat_toScript, cutBy_flatten]) (by rw [flat_toScript, cutBy_flatten])
    (by decide) (by decide +kernel) (noEarly_bash _ (by decide))
  exact ⟨s', h1, h2, by simpa [accepted, s] using h3, h4⟩

/-- two commands in a row on dash (`true`, status 0, no output; then `false`, status 1): the
    answers of both are in the script, each `exec` consumes exactly its own -/
example :
    let c1 : Cmd := { line := [116, 114, 117, 101], out := [], st := 0,
                      sc1 := toScript (cutBy [1, 1, 9] (respCmd false Params.ashPrompt [116, 114, 117, 101] [])),
                      sc2 := toScript (cutBy [20] (respStatus false Params.ashPrompt 0)) }
    let c2 : Cmd := { line := [102, 97, 108, 115, 101], out := [], st := 1,
                      sc1 := toScript (cutBy [] (respCmd false Params.ashPrompt [102, 97, 108, 115, 101] [])),
                      sc2 := toScript (cutBy [3, 3, 3] (respStatus false Params.ashPrompt 1)) }
    let s : St := { chunk := 7, prompt := some (.lit Params.ashPrompt), blacklist := Params.ashBlacklist,
                    script := c1.sc1 ++ c1.sc2 ++ (c2.sc1 ++ c2.sc2) }
    ∃ s', execSeq [c1.line, c2.line] s = ([.ok (0, []), .ok (1, [])], s') ∧ s'.script = [] := by
  intro c1 c2 s
  have ok1 : c1.Ok Params.ashPrompt s.blacklist :=
    ⟨wf_toScript _ _, wf_toScript _ _, by rw [flat_toScript, cutBy_flatten], by rw [flat_toScript, cutBy_flatten],
     by decide, noEarly_of_head 84 _ (Tty.cook []) (by decide)⟩
  have ok2 : c2.Ok Params.ashPrompt s.blacklist :=
    ⟨wf_toScript _ _, wf_toScript _ _, by rw [flat_toScript, cutBy_flatten], by rw [flat_toScript, cutBy_flatten],
     by decide, noEarly_of_head 84 _ (Tty.cook []) (by decide)⟩
  obtain ⟨s', h1, h2, _⟩ := execSeq_exact Params.ashPrompt promptOk_ash [c1, c2] s []
    ⟨rfl, rfl, rfl, rfl, by decide, by decide, by intro h; simp [s] at h⟩
    (by intro c hc
        simp only [List.mem_cons, List.not_mem_nil, or_false] at hc
        rcases hc with rfl | rfl
        · exact ok1
        · exact ok2)
    (by decide +kernel) (by simp [s])
  exact ⟨s', h1, h2⟩

/-- a case of the check (`echo 'a b' '$x'` through `exec0` on bash, chunk size 5, the first answer
    — 48 bytes — delivered as 10·20·18, the second as 7·rest) satisfies `CaseOk` -/
example :
    let cmd : ShCmd := { op := .exec0, pre := [[101, 99, 104, 111]], args := [[97, 32, 98], [36, 120]],
                         out := [97, 32, 98, 32, 36, 120, 10], status := 0 }
    let c : ShCase := { ash := false, chunk := 5, cmds := [cmd] }
    Spec.C01 c (Shell.run c [[10, 20, 18] ++ [7, 100]]) = true := by
  intro cmd c
  refine spec_holds c _ ⟨by decide, rfl, ?_⟩
  intro x hx
  simp only [c, List.zip_cons_cons, List.zip_nil_right, List.mem_singleton] at hx
  subst hx
  refine ⟨noEarly_bash _ (by decide), [10, 20, 18], [7, 100], ?_⟩
  exact cutBy_boundary _ _ _ _ (by decide +kernel)

/-- NO-EARLY-PROMPT is needed: prompt "$ ", a program that prints "$ " (status 0), and a
    transport that happens to deliver exactly that in one piece — `exec` takes the program's
    output for the prompt and returns the empty output (the left-over prompt is then swallowed
    by the read-back of `echo $?`, so the error goes unnoticed) -/
example :
    (match (exec [120] { chunk := 4096, prompt := some (.lit [36, 32]),
                         script := toScript (cutBy [3, 2] (respCmd false [36, 32] [120] [36, 32]))
                           ++ toScript (cutBy [] (respStatus false [36, 32] 0)) }).1 with
     | .ok (0, []) => true
     | _ => false) = true := by decide +kernel

/-- the piece boundary between the two answers is needed IN THE MODEL (in reality the second
    answer does not exist before `echo $?` has been sent): if one delivery carries the prompt and
    the beginning of the second answer, `read_until_prompt` does not see the prompt at the end of
    its buffer and blocks for ever -/
example :
    (match (exec [120] { chunk := 4096, prompt := some (.lit [36, 32]),
                         script := toScript (cutBy [] (respCmd false [36, 32] [120] [121, 10]
                           ++ respStatus false [36, 32] 0)) }).1 with
     | .error (.chan .hang) => true
     | _ => false) = true := by decide +kernel

/-- the rejection theorem on a concrete input: `^C` in the line, nothing is written -/
example :
    let s : St := { prompt := some (.lit Params.bashPrompt), blacklist := Params.bashBlacklist }
    exec [108, 3, 115] s = (.error (.chan .illegal), s) :=
  exec_rejects _ _ (by decide)

end C01
