import TbotVerif.Spec.Log
/-! The loop of `logparser.logfile` over an abstract codec: what the codec has to satisfy
    (`DecoderSpec`), the theorem that the loop then yields exactly the events of the file for
    every read size ≥ 1, and two codecs that satisfy the specification (the framing codec the
    driver runs, and a character-level toy codec with string escapes). -/

namespace Log

/-- What `logfile` needs from `json.JSONDecoder.raw_decode` (`rawDecode`), the encoder
    (`enc`, what `json.dump(ev, indent=2)` writes) and `str.lstrip` (`isSpace`):
    a complete document followed by anything decodes to the value and its length; a proper
    prefix of a document (in particular the empty buffer) raises; a document does not start
    with white space.  CPython's `json` is *trusted* to satisfy this for the documents tbot
    writes; the harness checks it on every generated file. -/
structure DecoderSpec {χ α : Type} (isSpace : χ → Bool) (enc : α → List χ)
    (rawDecode : List χ → Option (α × Nat)) : Prop where
  complete : ∀ v rest, rawDecode (enc v ++ rest) = some (v, (enc v).length)
  prefix_fails : ∀ v k, k < (enc v).length → rawDecode ((enc v).take k) = none
  nil_fails : rawDecode [] = none
  head_nonspace : ∀ v, ∃ c t, enc v = c :: t ∧ isSpace c = false

section
variable {χ α : Type} {isSpace : χ → Bool}

/-- does not start with white space (`lstrip` leaves it alone) -/
def Clean (isSpace : χ → Bool) (F : List χ) : Prop := ∀ c t, F = c :: t → isSpace c = false

theorem lstrip_clean {F : List χ} (h : Clean isSpace F) : lstrip isSpace F = F := by
  cases F with
  | nil => rfl
  | cons c t => simp [lstrip, List.dropWhile, h c t rfl]

theorem clean_take {F : List χ} (h : Clean isSpace F) (k : Nat) : Clean isSpace (F.take k) := by
  cases F with
  | nil => intro c t e; simp at e
  | cons a F =>
    cases k with
    | zero => intro c t e; simp at e
    | succ k =>
      intro c t e
      simp only [List.take_succ_cons, List.cons.injEq] at e
      exact e.1 ▸ h a F rfl

theorem lstrip_space_append (ws F : List χ) (h : ∀ c ∈ ws, isSpace c = true) :
    lstrip isSpace (ws ++ F) = lstrip isSpace F := by
  induction ws with
  | nil => rfl
  | cons a ws ih =>
    have ha : isSpace a = true := h a List.mem_cons_self
    simp only [lstrip, List.cons_append, List.dropWhile, ha]
    exact ih (fun c hc => h c (List.mem_cons_of_mem _ hc))

/-- stripping the first `j` characters of white space followed by a clean text -/
theorem lstrip_take_ws (ws F : List χ) (h : ∀ c ∈ ws, isSpace c = true) (hF : Clean isSpace F) (j : Nat) :
    lstrip isSpace ((ws ++ F).take j) = F.take (j - ws.length) := by
  rw [List.take_append, lstrip_space_append _ _ (fun c hc => h c (List.mem_of_mem_take hc))]
  exact lstrip_clean (clean_take hF _)

theorem clean_fileOf {enc : α → List χ} {rawDecode : List χ → Option (α × Nat)}
    (D : DecoderSpec isSpace enc rawDecode) (sep : List χ) (es : List α) :
    Clean isSpace (fileOf enc sep es) := by
  cases es with
  | nil => intro c t e; simp [fileOf] at e
  | cons e es =>
    obtain ⟨a, r, hr, ha⟩ := D.head_nonspace e
    intro c t h
    simp only [fileOf, List.flatMap_cons, hr, List.cons_append, List.cons.injEq] at h
    exact h.1 ▸ ha

theorem fileOf_cons (enc : α → List χ) (sep : List χ) (e : α) (es : List α) :
    fileOf enc sep (e :: es) = enc e ++ (sep ++ fileOf enc sep es) := by
  simp [fileOf]

/-- The loop invariant.  `k` characters of the remaining file `F` are in the buffer (`k = 0`
    or no pending white space `ws`), the rest is unread; with enough fuel the loop yields
    exactly the remaining events and never stops for lack of fuel. -/
theorem parseLoop_inv {enc : α → List χ} {rawDecode : List χ → Option (α × Nat)}
    (D : DecoderSpec isSpace enc rawDecode) (sep : List χ) (hsep : ∀ c ∈ sep, isSpace c = true)
    (n : Nat) (hn : 1 ≤ n) :
    ∀ (f : Nat) (es : List α) (k : Nat) (ws : List χ), (∀ c ∈ ws, isSpace c = true) →
      (k = 0 ∨ ws = []) →
      ((fileOf enc sep es).take k).length + 2 * (ws ++ (fileOf enc sep es).drop k).length + 1 ≤ f →
      (parseLoop isSpace rawDecode n f ((fileOf enc sep es).take k) (ws ++ (fileOf enc sep es).drop k)).1 = es
      ∧ PStep.fuel ∉ (parseLoop isSpace rawDecode n f ((fileOf enc sep es).take k)
          (ws ++ (fileOf enc sep es).drop k)).2 := by
  intro f
  induction f with
  | zero => intro es k ws _ _ hf; omega
  | succ f ih =>
    intro es k ws hws hk hf
    cases es with
    | nil =>
      -- nothing left but white space
      simp only [fileOf, List.flatMap_nil, List.take_nil, List.drop_nil, List.append_nil] at hf ⊢
      unfold parseLoop
      simp only [D.nil_fails]
      by_cases hnew : (ws.take n).isEmpty = true
      · simp [hnew]
      · simp only [hnew, Bool.false_eq_true, if_false, List.nil_append]
        have hl : lstrip isSpace (ws.take n) = [] := by
          have := lstrip_space_append (ws.take n) ([] : List χ) (fun c hc => hws c (List.mem_of_mem_take hc))
          simpa [lstrip] using this
        rw [hl]
        have hwn : ws ≠ [] := by intro e; simp [e] at hnew
        have hlen : 0 < ws.length := List.length_pos_iff.mpr hwn
        have := ih [] 0 (ws.drop n) (fun c hc => hws c (List.mem_of_mem_drop hc)) (Or.inl rfl)
          (by simp only [fileOf, List.flatMap_nil, List.take_nil, List.drop_nil, List.append_nil,
                List.length_nil, List.length_drop]; simp at hf; omega)
        simp only [fileOf, List.flatMap_nil, List.take_nil, List.drop_nil, List.append_nil] at this
        refine ⟨this.1, ?_⟩
        simp [this.2]
    | cons e es =>
      obtain ⟨a, r, hr, ha⟩ := D.head_nonspace e
      have hE : 1 ≤ (enc e).length := by rw [hr]; simp
      have hclean := clean_fileOf D sep (e :: es)
      have hclean' := clean_fileOf D sep es
      have hF := fileOf_cons enc sep e es
      generalize hFdef : fileOf enc sep (e :: es) = F at hF hf hclean ⊢
      have hFlen : F.length = (enc e).length + (sep.length + (fileOf enc sep es).length) := by
        rw [hF]; simp
      by_cases hkL : k < (enc e).length
      · -- the buffer holds a proper prefix of the next document: decode fails, read on
        have hbuf : F.take k = (enc e).take k := by
          rw [hF, List.take_append_of_le_length (by omega)]
        have hfail : rawDecode (F.take k) = none := by rw [hbuf]; exact D.prefix_fails e k hkL
        have hrest : 0 < (ws ++ F.drop k).length := by
          simp only [List.length_append, List.length_drop]; omega
        unfold parseLoop
        simp only [hfail]
        have hnew : ((ws ++ F.drop k).take n).isEmpty = false := by
          cases hh : (ws ++ F.drop k) with
          | nil => simp [hh] at hrest
          | cons x xs =>
            cases n with
            | zero => omega
            | succ n => simp
        simp only [hnew, Bool.false_eq_true, if_false]
        by_cases hk0 : k = 0
        · -- nothing buffered yet
          subst hk0
          simp only [List.take_zero, List.drop_zero, List.nil_append] at hf ⊢
          rw [lstrip_take_ws ws F hws hclean n, List.drop_append]
          have := ih (e :: es) (n - ws.length) (ws.drop n)
            (fun c hc => hws c (List.mem_of_mem_drop hc))
            (by by_cases h : n ≤ ws.length
                · left; omega
                · right; exact List.drop_eq_nil_of_le (by omega))
            (by rw [hFdef]
                simp only [List.length_append, List.length_take, List.length_drop] at hf ⊢
                omega)
          rw [hFdef] at this
          refine ⟨this.1, ?_⟩
          simp [this.2]
        · have hws0 : ws = [] := by
            rcases hk with h | h
            · exact absurd h hk0
            · exact h
          subst hws0
          simp only [List.nil_append] at hf hrest ⊢
          have hk1 : 1 ≤ k := by omega
          rw [← List.take_add, List.drop_drop,
            lstrip_clean (clean_take hclean (k + n))]
          have := ih (e :: es) (k + n) [] (by simp) (Or.inr rfl)
            (by rw [hFdef]
                simp only [List.nil_append, List.length_take, List.length_drop] at hf ⊢
                omega)
          rw [hFdef] at this
          simp only [List.nil_append] at this
          refine ⟨this.1, ?_⟩
          simp [this.2]
      · -- a complete document is buffered
        have hkL' : (enc e).length ≤ k := by omega
        have hws0 : ws = [] := by
          rcases hk with h0 | h0
          · omega
          · exact h0
        subst hws0
        simp only [List.nil_append] at hf ⊢
        have hbuf : F.take k = enc e ++ (sep ++ fileOf enc sep es).take (k - (enc e).length) := by
          rw [hF, List.take_append]
          rw [List.take_of_length_le hkL']
        have hdrop : F.drop k = (sep ++ fileOf enc sep es).drop (k - (enc e).length) := by
          rw [hF, List.drop_append]
          rw [List.drop_eq_nil_of_le hkL']
          rfl
        unfold parseLoop
        rw [hbuf, D.complete e]
        simp only [List.drop_left']
        rw [lstrip_take_ws sep _ hsep hclean', hdrop, List.drop_append]
        have := ih es (k - (enc e).length - sep.length) (sep.drop (k - (enc e).length))
          (fun c hc => hsep c (List.mem_of_mem_drop hc))
          (by by_cases h : k - (enc e).length ≤ sep.length
              · left; omega
              · right; exact List.drop_eq_nil_of_le (by omega))
          (by rw [hbuf, hdrop] at hf
              simp only [List.length_append, List.length_take, List.length_drop] at hf ⊢
              omega)
        refine ⟨by rw [this.1], ?_⟩
        simp [this.2]

/-- For every event list, every white-space separator and every read size ≥ 1, `logfile`
    yields exactly the events, in the order of the file, and the model's fuel is never the
    reason for stopping. -/
theorem logfile_spec {enc : α → List χ} {rawDecode : List χ → Option (α × Nat)}
    (D : DecoderSpec isSpace enc rawDecode) (sep : List χ) (hsep : ∀ c ∈ sep, isSpace c = true)
    (es : List α) (n : Nat) (hn : 1 ≤ n) :
    (logfile isSpace rawDecode n (fileOf enc sep es)).1 = es
    ∧ PStep.fuel ∉ (logfile isSpace rawDecode n (fileOf enc sep es)).2 := by
  unfold logfile
  have := parseLoop_inv D sep hsep n hn (2 * (fileOf enc sep es).length + 2) es n [] (by simp)
    (Or.inr rfl) (by simp only [List.nil_append, List.length_take, List.length_drop]; omega)
  simp only [List.nil_append] at this
  refine ⟨this.1, ?_⟩
  simp [this.2]

end

/-! ### the framing codec (what the driver runs) satisfies `DecoderSpec` -/

theorem frameEnc_eq (d : FDoc) :
    frameEnc d = FTok.doc d.1 0 d.2 :: (List.range d.2).map (fun i => FTok.doc d.1 (i + 1) d.2) := by
  simp [frameEnc, List.range_succ_eq_map, Function.comp_def]

theorem frame_decoderSpec' : DecoderSpec frameSpace frameEnc frameDecode where
  complete := by
    intro v rest
    rw [frameEnc_eq]
    simp [frameDecode]
  prefix_fails := by
    intro v k hk
    rw [frameEnc_eq] at hk ⊢
    cases k with
    | zero => rfl
    | succ k =>
      simp only [List.length_cons, List.length_map, List.length_range] at hk
      simp only [List.take_succ_cons, frameDecode, List.length_take, List.length_map, List.length_range]
      have : ¬ v.2 ≤ min k v.2 := by omega
      simp [this]
  nil_fails := rfl
  head_nonspace := by
    intro v
    exact ⟨_, _, frameEnc_eq v, rfl⟩

/-! ### a character-level toy codec: `{"…"}` with `\"` and `\\` escapes

It shows that `DecoderSpec` is satisfiable by a codec over characters whose payloads contain
quotes, backslashes, braces and white space. -/

def toyEsc : Str → Str
  | [] => []
  | c :: t => if c == '"' || c == '\\' then '\\' :: c :: toyEsc t else c :: toyEsc t

def toyEnc (s : Str) : Str := '{' :: '"' :: (toyEsc s ++ ['"', '}'])

/-- decode the body after the opening quote: payload and number of characters consumed
    (including the closing `"}`) -/
def toyBody : Str → Option (Str × Nat)
  | [] => none
  | c :: t =>
    if c == '"' then
      match t with
      | d :: _ => if d == '}' then some ([], 2) else none
      | [] => none
    else if c == '\\' then
      match t with
      | d :: t' => (toyBody t').map (fun r => (d :: r.1, r.2 + 2))
      | [] => none
    else (toyBody t).map (fun r => (c :: r.1, r.2 + 1))

def toyDecode : Str → Option (Str × Nat)
  | c :: d :: t => if c == '{' && d == '"' then (toyBody t).map (fun r => (r.1, r.2 + 2)) else none
  | _ => none

theorem toyBody_complete : ∀ (s rest : Str),
    toyBody (toyEsc s ++ ('"' :: '}' :: rest)) = some (s, (toyEsc s).length + 2) := by
  intro s
  induction s with
  | nil => intro rest; simp [toyEsc, toyBody]
  | cons c t ih =>
    intro rest
    unfold toyEsc
    by_cases hq : c = '"'
    · subst hq
      simp [toyBody, ih rest]
    · by_cases hb : c = '\\'
      · subst hb
        simp [toyBody, ih rest]
      · have hcond : (c == '"' || c == '\\') = false := by simp [hq, hb]
        have h1 : (c == '"') = false := by simp [hq]
        have h2 : (c == '\\') = false := by simp [hb]
        simp only [hcond, Bool.false_eq_true, if_false, List.cons_append]
        unfold toyBody
        simp [h1, h2, ih rest]

/-- every proper prefix of an encoded body (with its closing `"}`) fails -/
theorem toyBody_prefix : ∀ (s : Str) (k : Nat), k < (toyEsc s).length + 2 →
    toyBody ((toyEsc s ++ ['"', '}']).take k) = none := by
  intro s
  induction s with
  | nil =>
    intro k hk
    simp only [toyEsc, List.length_nil, Nat.zero_add] at hk
    match k, hk with
    | 0, _ => rfl
    | 1, _ => simp [toyEsc, toyBody]
  | cons c t ih =>
    intro k hk
    unfold toyEsc at hk ⊢
    by_cases hq : c = '"'
    · subst hq
      simp only [BEq.rfl, Bool.true_or, if_true, List.length_cons] at hk ⊢
      match k, hk with
      | 0, _ => rfl
      | 1, _ => simp [toyBody]
      | k + 2, hk =>
        simp only [List.cons_append, List.take_succ_cons, toyBody]
        simp [ih k (by omega)]
    · by_cases hb : c = '\\'
      · subst hb
        simp only [BEq.rfl, Bool.or_true, if_true, List.length_cons] at hk ⊢
        match k, hk with
        | 0, _ => rfl
        | 1, _ => simp [toyBody]
        | k + 2, hk =>
          simp only [List.cons_append, List.take_succ_cons, toyBody]
          simp [ih k (by omega)]
      · have hcond : (c == '"' || c == '\\') = false := by simp [hq, hb]
        have h1 : (c == '"') = false := by simp [hq]
        have h2 : (c == '\\') = false := by simp [hb]
        simp only [hcond, Bool.false_eq_true, if_false, List.length_cons] at hk ⊢
        match k, hk with
        | 0, _ => rfl
        | k + 1, hk =>
          simp only [List.cons_append, List.take_succ_cons]
          unfold toyBody
          simp [h1, h2, ih k (by omega)]

theorem toy_decoderSpec' : DecoderSpec pySpace toyEnc toyDecode where
  complete := by
    intro v rest
    simp [toyEnc, toyDecode, toyBody_complete]
  prefix_fails := by
    intro v k hk
    simp only [toyEnc, List.length_cons, List.length_append, List.length_nil] at hk
    match k, hk with
    | 0, _ => rfl
    | 1, _ => rfl
    | k + 2, hk =>
      simp only [toyEnc, List.take_succ_cons, toyDecode]
      simp [toyBody_prefix v k (by omega)]
  nil_fails := rfl
  head_nonspace := by
    intro v
    exact ⟨'{', _, rfl, by decide⟩

end Log
