import TbotVerif.Props.ChanLemmas
/-! C01 — LOCALITY of the channel operations in the scripted transport.
    A successful operation only ever looks at the head of the script: whatever it does on a
    script `sc`, it does on `sc ++ tail`, returning the same value and leaving `rest ++ tail`.
    (`app s tail` appends `tail` to the script of `s`; all other fields are untouched.)
    The statements are for *successful* runs: a run that blocks or times out on an exhausted
    script would go on reading from `tail`. -/

namespace C01
open Chan

/-- `tail` arrives after everything that is in the script already -/
def app (s : St) (tail : List Piece) : St := { s with script := s.script ++ tail }

@[simp] theorem app_script (s : St) (tl : List Piece) : (app s tl).script = s.script ++ tl := rfl
@[simp] theorem app_now (s : St) (tl : List Piece) : (app s tl).now = s.now := rfl
@[simp] theorem app_chunk (s : St) (tl : List Piece) : (app s tl).chunk = s.chunk := rfl
@[simp] theorem app_slice (s : St) (tl : List Piece) : (app s tl).slice = s.slice := rfl
@[simp] theorem app_prompt (s : St) (tl : List Piece) : (app s tl).prompt = s.prompt := rfl
@[simp] theorem app_deaths (s : St) (tl : List Piece) : (app s tl).deaths = s.deaths := rfl
@[simp] theorem app_streams (s : St) (tl : List Piece) : (app s tl).streams = s.streams := rfl
@[simp] theorem app_streambuf (s : St) (tl : List Piece) : (app s tl).streambuf = s.streambuf := rfl
@[simp] theorem app_logPrompt (s : St) (tl : List Piece) : (app s tl).logPrompt = s.logPrompt := rfl
@[simp] theorem app_blacklist (s : St) (tl : List Piece) : (app s tl).blacklist = s.blacklist := rfl
@[simp] theorem app_slowDelay (s : St) (tl : List Piece) : (app s tl).slowDelay = s.slowDelay := rfl
@[simp] theorem app_slowChunk (s : St) (tl : List Piece) : (app s tl).slowChunk = s.slowChunk := rfl
@[simp] theorem app_accept (s : St) (tl : List Piece) : (app s tl).accept = s.accept := rfl
@[simp] theorem app_writes (s : St) (tl : List Piece) : (app s tl).writes = s.writes := rfl
@[simp] theorem app_reads (s : St) (tl : List Piece) : (app s tl).reads = s.reads := rfl
@[simp] theorem app_fwd (s : St) (tl : List Piece) : (app s tl).fwd = s.fwd := rfl
@[simp] theorem app_nextDeath (s : St) (tl : List Piece) : (app s tl).nextDeath = s.nextDeath := rfl

theorem app_nil (s : St) : app s [] = s := by
  cases s; simp [app]

theorem app_app (s : St) (a b : List Piece) : app (app s a) b = app s (a ++ b) := by
  simp [app, List.append_assoc]

theorem bytesLeft_app (s : St) (tl : List Piece) : bytesLeft s ≤ bytesLeft (app s tl) := by
  simp [bytesLeft, List.map_append, List.sum_append]

theorem fuelFor_app (s : St) (tl : List Piece) : fuelFor s ≤ fuelFor (app s tl) := by
  have := bytesLeft_app s tl
  unfold fuelFor; omega

/-! ### the transport -/

theorem takeHead_app (n : Nat) (p : Piece) (ps tl : List Piece) :
    takeHead n p (ps ++ tl) = ((takeHead n p ps).1, (takeHead n p ps).2 ++ tl) := by
  unfold takeHead
  split <;> rfl

theorem ioRead_nil (n : Nat) (t : Option Nat) (s : St) (h : s.script = []) :
    ∃ e, (ioRead n t s).1 = .error e := by
  unfold ioRead
  rw [h]
  cases t <;> exact ⟨_, rfl⟩

/-- one transport read on a non-empty script never looks behind the first piece -/
theorem ioRead_app (n : Nat) (t : Option Nat) (s : St) (tl : List Piece) (h : s.script ≠ []) :
    ioRead n t (app s tl) = ((ioRead n t s).1, app (ioRead n t s).2 tl) := by
  obtain ⟨pc, ps, hs⟩ : ∃ pc ps, s.script = pc :: ps := by
    cases hsc : s.script with
    | nil => exact absurd hsc h
    | cons pc ps => exact ⟨pc, ps, rfl⟩
  have hs' : (app s tl).script = pc :: (ps ++ tl) := by rw [app_script, hs]; rfl
  have hdel : ∀ t1, ioDeliver n t (app s tl) t1 pc (ps ++ tl)
      = ((ioDeliver n t s t1 pc ps).1, app (ioDeliver n t s t1 pc ps).2 tl) := by
    intro t1
    unfold ioDeliver
    rw [takeHead_app]
    rfl
  have hfail : ∀ t1 e, ioFail n t (app s tl) t1 e = ((ioFail n t s t1 e).1, app (ioFail n t s t1 e).2 tl) := by
    intro t1 e; rfl
  unfold ioRead
  rw [hs', hs]
  rw [show (app s tl).now = s.now from rfl]
  simp only
  by_cases hc : pc.tick ≤ s.now
  · rw [if_pos hc, if_pos hc]; exact hdel _
  · rw [if_neg hc, if_neg hc]
    cases t with
    | none => exact hdel _
    | some T =>
      simp only
      by_cases hc2 : pc.tick ≤ s.now + T
      · rw [if_pos hc2, if_pos hc2]; exact hdel _
      · rw [if_neg hc2, if_neg hc2]; exact hfail _ _

/-! ### log streams and death strings do not look at the script -/

theorem writeStream_app (b : Bytes) (s : St) (tl : List Piece) :
    writeStream b (app s tl) = app (writeStream b s) tl := by
  unfold writeStream
  rw [show (app s tl).streams = s.streams from rfl, show (app s tl).logPrompt = s.logPrompt from rfl,
    show (app s tl).prompt = s.prompt from rfl, show (app s tl).streambuf = s.streambuf from rfl]
  by_cases he : s.streams.isEmpty = true
  · rw [if_pos he, if_pos he]
  · rw [if_neg he, if_neg he]
    cases s.logPrompt with
    | true => rfl
    | false =>
      cases s.prompt with
      | none => rfl
      | some p => cases p <;> rfl

theorem check_app (b : Bytes) (s : St) (tl : List Piece) :
    check b (app s tl) = ((check b s).1, app (check b s).2 tl) := by
  unfold check
  rw [show (app s tl).deaths = s.deaths from rfl]
  by_cases he : s.deaths.isEmpty = true
  · rw [if_pos he, if_pos he]
  · rw [if_neg he, if_neg he]
    cases checkWindows (windowSize s.deaths) b.length b none s.deaths with
    | mk r ds =>
      simp only
      cases r with
      | none => rfl
      | some x => rfl

/-! ### `read_iter` -/

theorem riNext_done_flag (ri : RI) (s : St) (h : (riNext ri s).1 = .done) :
    (ri.started && ri.max == some ri.got) = true ∧ riNext ri s = (.done, ri, s) := by
  by_cases hf : (ri.started && ri.max == some ri.got) = true
  · refine ⟨hf, ?_⟩
    unfold riNext; rw [if_pos hf]
  · exfalso
    have hout := riNext_out ri s
    generalize riNext ri s = out at hout h
    obtain ⟨st, ri', s'⟩ := out
    simp only at hout h
    subst h
    cases hout with
    | done h1 h2 => apply hf; simp [h1, h2]

theorem riNext_chunk_script (ri : RI) (s : St) (b : Bytes) (h : (riNext ri s).1 = .chunk b) :
    s.script ≠ [] := by
  intro hs
  unfold riNext at h
  split at h
  · simp at h
  · cases hrem : remaining ri.timeout ri.t0 s.now with
    | none => rw [hrem] at h; simp at h
    | some rem =>
      rw [hrem] at h
      simp only at h
      obtain ⟨e, he⟩ := ioRead_nil (ri.maxRead s.chunk) rem s hs
      cases hr : ioRead (ri.maxRead s.chunk) rem s with
      | mk r s1 =>
        rw [hr] at h he
        simp only at he
        subst he
        simp at h

/-- one resumption of `read_iter` on a non-empty script (or when the generator is finished) -/
theorem riNext_app (ri : RI) (s : St) (tl : List Piece)
    (h : s.script ≠ [] ∨ (ri.started && ri.max == some ri.got) = true) :
    riNext ri (app s tl) = ((riNext ri s).1, (riNext ri s).2.1, app (riNext ri s).2.2 tl) := by
  by_cases hf : (ri.started && ri.max == some ri.got) = true
  · unfold riNext; rw [if_pos hf, if_pos hf]
  · have hne : s.script ≠ [] := by
      rcases h with h | h
      · exact h
      · exact absurd h hf
    unfold riNext
    rw [if_neg hf, if_neg hf]
    simp only [app_now, app_chunk]
    cases remaining ri.timeout ri.t0 s.now with
    | none => rfl
    | some rem =>
      simp only
      rw [ioRead_app _ _ _ _ hne]
      cases ioRead (ri.maxRead s.chunk) rem s with
      | mk r s1 =>
        cases r with
        | error e => rfl
        | ok new =>
          simp only
          rw [writeStream_app, check_app]
          cases check new (writeStream new s1) with
          | mk c s2 =>
            cases c with
            | error e => rfl
            | ok u => rfl

/-- pulling chunks out of a `read_iter`: a run that ends without exception is reproduced on the
    longer script (with any larger fuel) -/
theorem riTake_app (tl : List Piece) : ∀ (f : Nat) (k : Option Nat) (ri : RI) (s : St) (acc cs : List Bytes) (s' : St),
    riTake f k ri s acc = ((cs, none), s') → ∀ f', f ≤ f' →
    riTake f' k ri (app s tl) acc = ((cs, none), app s' tl) := by
  intro f
  induction f with
  | zero => intro k ri s acc cs s' h; simp [riTake] at h
  | succ f ih =>
    intro k ri s acc cs s' h f' hf'
    obtain ⟨g, rfl⟩ : ∃ g, f' = g + 1 := ⟨f' - 1, by omega⟩
    unfold riTake at h ⊢
    split
    · rename_i hk
      rw [if_pos hk] at h
      simp only [Prod.mk.injEq, and_true] at h
      obtain ⟨h1, h2⟩ := h
      subst h1; subst h2; rfl
    · rename_i hk
      rw [if_neg hk] at h
      cases hn : riNext ri s with
      | mk st rest =>
        obtain ⟨ri', s1⟩ := rest
        rw [hn] at h
        cases st with
        | done =>
          simp only [Prod.mk.injEq, and_true] at h
          obtain ⟨h1, h2⟩ := h
          subst h1; subst h2
          have := riNext_done_flag ri s (by rw [hn])
          rw [riNext_app ri s tl (Or.inr this.1), hn]
        | err e => simp at h
        | chunk b =>
          simp only at h
          have hne := riNext_chunk_script ri s b (by rw [hn])
          rw [riNext_app ri s tl (Or.inl hne), hn]
          simp only
          exact ih _ _ _ _ _ _ h g (by omega)

/-- **LOCALITY of `read(n)`** -/
theorem read_some_app (n : Nat) (t : Option Nat) (s : St) (tl : List Piece) (d : Bytes) (s' : St)
    (h : Chan.read (some n) t s = (.ok d, s')) : Chan.read (some n) t (app s tl) = (.ok d, app s' tl) := by
  unfold Chan.read at h ⊢
  simp only at h ⊢
  cases hr : riTake (fuelFor s) none (riStart (some n) t s) s [] with
  | mk res s1 =>
    obtain ⟨cs, e⟩ := res
    rw [hr] at h
    cases e with
    | some e => simp at h
    | none =>
      simp only at h
      have hri : riStart (some n) t (app s tl) = riStart (some n) t s := rfl
      rw [hri, riTake_app tl _ _ _ _ _ _ _ hr _ (fuelFor_app s tl)]
      simp only
      split at h
      · rename_i hlen
        rw [if_pos hlen]
        simp only [Prod.mk.injEq, Except.ok.injEq] at h
        rw [h.1, h.2]
      · simp at h

/-- **LOCALITY of `read()`** -/
theorem read_none_app (t : Option Nat) (s : St) (tl : List Piece) (d : Bytes) (s' : St)
    (h : Chan.read none t s = (.ok d, s')) : Chan.read none t (app s tl) = (.ok d, app s' tl) := by
  have hne : s.script ≠ [] := by
    intro hs
    obtain ⟨e, he⟩ := ioRead_nil s.chunk t s hs
    unfold Chan.read at h
    simp only at h
    cases hr : ioRead s.chunk t s with
    | mk r s1 =>
      rw [hr] at h he
      simp only at he
      subst he
      simp at h
  unfold Chan.read at h ⊢
  simp only [app_chunk] at h ⊢
  rw [ioRead_app _ _ _ _ hne]
  cases hr : ioRead s.chunk t s with
  | mk r s1 =>
    rw [hr] at h
    cases r with
    | error e => simp at h
    | ok buf =>
      simp only at h ⊢
      rw [writeStream_app, check_app]
      cases hc : check buf (writeStream buf s1) with
      | mk c s2 =>
        rw [hc] at h
        cases c with
        | error e => simp at h
        | ok u =>
          simp only [Prod.mk.injEq, Except.ok.injEq] at h ⊢
          exact ⟨h.1, by rw [h.2]⟩

/-! ### `read_until_prompt` -/

theorem rupLoop_app (tl : List Piece) : ∀ (f : Nat) (buf : Bytes) (ri : RI) (s : St) (r : Bytes × Bytes) (s' : St),
    rupLoop f buf ri s = (.ok r, s') → ∀ f', f ≤ f' →
    rupLoop f' buf ri (app s tl) = (.ok r, app s' tl) := by
  intro f
  induction f with
  | zero => intro buf ri s r s' h; simp [rupLoop] at h
  | succ f ih =>
    intro buf ri s r s' h f' hf'
    obtain ⟨g, rfl⟩ : ∃ g, f' = g + 1 := ⟨f' - 1, by omega⟩
    unfold rupLoop at h ⊢
    cases hn : riNext ri s with
    | mk st rest =>
      obtain ⟨ri', s1⟩ := rest
      rw [hn] at h
      cases st with
      | done => simp at h
      | err e => simp at h
      | chunk b =>
        simp only at h
        have hne := riNext_chunk_script ri s b (by rw [hn])
        rw [riNext_app ri s tl (Or.inl hne), hn]
        simp only [app_prompt]
        cases hp : s1.prompt with
        | none =>
          rw [hp] at h
          simp only at h ⊢
          exact ih _ _ _ _ _ h g (by omega)
        | some p =>
          rw [hp] at h
          simp only at h ⊢
          cases hpe : promptEnd p (buf ++ b) with
          | some n =>
            rw [hpe] at h
            simp only [Prod.mk.injEq, Except.ok.injEq] at h ⊢
            exact ⟨h.1, by rw [h.2]⟩
          | none =>
            rw [hpe] at h
            simp only at h ⊢
            exact ih _ _ _ _ _ h g (by omega)

/-- **LOCALITY of `read_until_prompt`** -/
theorem readUntilPrompt_app (p : Option Pat) (t : Option Nat) (s : St) (tl : List Piece)
    (r : Bytes × Bytes) (s' : St) (h : readUntilPrompt p t s = (.ok r, s')) :
    readUntilPrompt p t (app s tl) = (.ok r, app s' tl) := by
  cases p with
  | none =>
    unfold readUntilPrompt at h ⊢
    simp only at h ⊢
    cases hr : rupLoop (fuelFor s) [] (riStart none t s) s with
    | mk x s1 =>
      rw [hr] at h
      simp only [Prod.mk.injEq] at h
      obtain ⟨h1, h2⟩ := h
      subst h1; subst h2
      have hri : riStart none t (app s tl) = riStart none t s := rfl
      rw [hri, rupLoop_app tl _ _ _ _ _ _ hr _ (fuelFor_app s tl)]
  | some q =>
    unfold readUntilPrompt at h ⊢
    simp only at h ⊢
    generalize hs0 : ({ s with prompt := some (anchor q) } : St) = s0 at h
    have hs0' : ({ app s tl with prompt := some (anchor q) } : St) = app s0 tl := by
      subst hs0; rfl
    rw [hs0']
    cases hr : rupLoop (fuelFor s0) [] (riStart none t s0) s0 with
    | mk x s1 =>
      rw [hr] at h
      simp only [Prod.mk.injEq] at h
      obtain ⟨h1, h2⟩ := h
      subst h1; subst h2
      have hri : riStart none t (app s0 tl) = riStart none t s0 := rfl
      rw [hri, rupLoop_app tl _ _ _ _ _ _ hr _ (fuelFor_app s0 tl)]
      rfl

/-! ### writing and `send` -/

theorem ioWrite_app (buf : Bytes) (s : St) (tl : List Piece) :
    ioWrite buf (app s tl) = ((ioWrite buf s).1, app (ioWrite buf s).2 tl) := by
  unfold ioWrite
  simp only [app_accept]
  cases s.accept <;> rfl

theorem writeLoop_app (tl : List Piece) : ∀ (f : Nat) (buf : Bytes) (s : St),
    writeLoop f buf (app s tl) = app (writeLoop f buf s) tl := by
  intro f
  induction f with
  | zero => intro buf s; rfl
  | succ f ih =>
    intro buf s
    cases buf with
    | nil => rfl
    | cons b t =>
      unfold writeLoop
      simp only [app_slowDelay, app_slowChunk]
      cases s.slowDelay with
      | none =>
        simp only
        rw [ioWrite_app]
        exact ih _ _
      | some d =>
        simp only
        rw [ioWrite_app]
        exact ih _ { (ioWrite ((b :: t).take s.slowChunk) s).2 with
          now := (ioWrite ((b :: t).take s.slowChunk) s).2.now + d }

theorem write_app (buf : Bytes) (ign : Bool) (s : St) (tl : List Piece) :
    write buf ign (app s tl) = ((write buf ign s).1, app (write buf ign s).2 tl) := by
  unfold write
  rw [show (app s tl).blacklist = s.blacklist from rfl]
  by_cases hf : (!ign && forbidden s.blacklist buf) = true
  · rw [if_pos hf, if_pos hf]
  · rw [if_neg hf, if_neg hf, writeLoop_app]

theorem sendLoop_app (tl : List Piece) : ∀ (f : Nat) (buf : Bytes) (rb : Bool) (t : Option Nat) (ign : Bool)
    (t0 : Nat) (s s' : St), sendLoop f buf rb t ign t0 s = (.ok (), s') →
    sendLoop f buf rb t ign t0 (app s tl) = (.ok (), app s' tl) := by
  intro f
  induction f with
  | zero => intro buf rb t ign t0 s s' h; simp [sendLoop] at h
  | succ f ih =>
    intro buf rb t ign t0 s s' h
    cases buf with
    | nil =>
      simp only [sendLoop, Prod.mk.injEq, true_and] at h ⊢
      rw [h]
    | cons b tt =>
      unfold sendLoop at h ⊢
      simp only [app_slice] at h ⊢
      rw [write_app]
      cases hw : write ((b :: tt).take s.slice) ign s with
      | mk wr s1 =>
        rw [hw] at h
        cases wr with
        | error e => simp at h
        | ok u =>
          simp only at h ⊢
          cases rb with
          | false =>
            simp only [Bool.false_eq_true, if_false, app_slice] at h ⊢
            exact ih _ _ _ _ _ _ _ h
          | true =>
            simp only [if_true, app_now] at h ⊢
            cases hrem : remaining t t0 s1.now with
            | none => rw [hrem] at h; simp at h
            | some rem =>
              rw [hrem] at h
              simp only at h ⊢
              cases hrd : Chan.read (some (((b :: tt).take s.slice).length + countNl ((b :: tt).take s.slice))) rem s1 with
              | mk rr s2 =>
                rw [hrd] at h
                cases rr with
                | error e => simp at h
                | ok d =>
                  rw [read_some_app _ _ _ tl _ _ hrd]
                  simp only [app_slice] at h ⊢
                  exact ih _ _ _ _ _ _ _ h

/-- **LOCALITY of `send`** -/
theorem send_app (buf : Bytes) (rb : Bool) (t : Option Nat) (ign : Bool) (s s' : St) (tl : List Piece)
    (h : send buf rb t ign s = (.ok (), s')) : send buf rb t ign (app s tl) = (.ok (), app s' tl) := by
  unfold send at h ⊢
  rw [show (app s tl).blacklist = s.blacklist from rfl, show (app s tl).now = s.now from rfl]
  split
  · rename_i he
    rw [if_pos he] at h
    simp only [Prod.mk.injEq, true_and] at h
    rw [h]
  · rename_i he
    rw [if_neg he] at h
    split
    · rename_i hf
      rw [if_pos hf] at h
      simp at h
    · rename_i hf
      rw [if_neg hf] at h
      exact sendLoop_app tl _ _ _ _ _ _ _ _ h

theorem sendline_app (buf : Bytes) (rb : Bool) (t : Option Nat) (s s' : St) (tl : List Piece)
    (h : sendline buf rb t s = (.ok (), s')) : sendline buf rb t (app s tl) = (.ok (), app s' tl) :=
  send_app _ _ _ _ _ _ tl h

/-! ### `with_stream` -/

theorem streamEnter_app (id : Nat) (sp : Bool) (s : St) (tl : List Piece) :
    streamEnter id sp (app s tl) = ((streamEnter id sp s).1, app (streamEnter id sp s).2 tl) := rfl

theorem streamExit_app (id : Nat) (prev : Bool) (s : St) (tl : List Piece) :
    streamExit id prev (app s tl) = app (streamExit id prev s) tl := rfl

end C01
