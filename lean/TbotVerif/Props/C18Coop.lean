import TbotVerif.Props.BoardProg
import TbotVerif.Props.C18
/-! C18 (c) — success: against a console that follows the protocol — at power-on and in answer
    to every write it shows output that completes what tbot waits for exactly at its end, with
    ARBITRARY fragmentation, ARBITRARY garbage in front of the prompts and ARBITRARY delays within
    the configured time-outs (for the U-Boot prompt: within one poll read) — bring-up returns. -/

namespace C18
open Board Chan Spec C06

/-! ### console output -/

def total (o : Out) : Nat := (o.map (·.1)).sum
def outText (o : Out) : Bytes := (o.map (·.2)).flatten

theorem flat_stamp : ∀ (o : Out) (now : Nat), flat (stamp now o) = outText o := by
  intro o
  induction o with
  | nil => intro now; rfl
  | cons p ps ih =>
    intro now
    obtain ⟨dt, d⟩ := p
    simp only [stamp, flat, List.map_cons, List.flatten_cons, outText]
    have := ih (now + dt)
    simp only [flat, outText] at this
    rw [this]

theorem stamp_ticks : ∀ (o : Out) (now : Nat), ∀ q ∈ stamp now o, now ≤ q.tick ∧ q.tick ≤ now + total o := by
  intro o
  induction o with
  | nil => intro now q hq; simp [stamp] at hq
  | cons p ps ih =>
    intro now q hq
    obtain ⟨dt, d⟩ := p
    simp only [stamp, List.mem_cons] at hq
    have htot : total ((dt, d) :: ps) = dt + total ps := by simp [total]
    rcases hq with rfl | hq
    · simp only; omega
    · have := ih (now + dt) q hq
      omega

theorem lastTick_mono_base : ∀ (sc : List Piece) (a : Nat), a ≤ lastTick a sc := by
  intro sc
  induction sc with
  | nil => intro a; exact Nat.le_refl _
  | cons p ps ih => intro a; rw [lastTick_cons]; exact Nat.le_trans (Nat.le_max_left _ _) (ih _)

theorem lastTick_stamp : ∀ (o : Out) (now : Nat), lastTick now (stamp now o) = now + total o := by
  intro o
  induction o with
  | nil => intro now; simp [stamp, total]
  | cons p ps ih =>
    intro now
    obtain ⟨dt, d⟩ := p
    have htot : total ((dt, d) :: ps) = dt + total ps := by simp [total]
    simp only [stamp, lastTick_cons]
    rw [Nat.max_eq_right (Nat.le_add_right _ _), ih, htot]
    omega

theorem stamp_append : ∀ (a b : Out) (now : Nat), stamp now (a ++ b) = stamp now a ++ stamp (now + total a) b := by
  intro a
  induction a with
  | nil => intro b now; simp [stamp, total]
  | cons p ps ih =>
    intro b now
    obtain ⟨dt, d⟩ := p
    have htot : total ((dt, d) :: ps) = dt + total ps := by simp [total]
    simp only [List.cons_append, stamp, ih, htot]
    rw [Nat.add_assoc]

theorem insertPiece_last (p : Piece) : ∀ sc : List Piece, (∀ q ∈ sc, q.tick ≤ p.tick) → insertPiece p sc = sc ++ [p] := by
  intro sc
  induction sc with
  | nil => intro _; rfl
  | cons x xs ih =>
    intro h
    unfold insertPiece
    rw [if_pos (h x (List.mem_cons_self ..)), ih fun q hq => h q (List.mem_cons_of_mem _ hq)]
    rfl

theorem insertAll_stamp : ∀ (o : Out) (now : Nat) (sc : List Piece), (∀ q ∈ sc, q.tick ≤ now) →
    insertAll (stamp now o) sc = sc ++ stamp now o := by
  intro o
  induction o with
  | nil => intro now sc _; simp [stamp, insertAll]
  | cons p ps ih =>
    intro now sc h
    obtain ⟨dt, d⟩ := p
    simp only [stamp, insertAll, List.foldl_cons]
    rw [insertPiece_last _ sc (fun q hq => by have := h q hq; show q.tick ≤ now + dt; omega)]
    have := ih (now + dt) (sc ++ [⟨now + dt, d⟩]) (by
      intro q hq
      rcases List.mem_append.mp hq with h1 | h1
      · have := h q h1; omega
      · simp only [List.mem_singleton] at h1; subst h1; exact Nat.le_refl _)
    unfold insertAll at this
    rw [this]
    simp

theorem insertAll_stamp_nil (o : Out) (now : Nat) : insertAll (stamp now o) [] = stamp now o := by
  rw [insertAll_stamp o now [] (by simp)]
  rfl

theorem stamp_wf (o : Out) (h : ∀ p ∈ o, p.2 ≠ []) : ∀ now, ∀ q ∈ stamp now o, q.data ≠ [] := by
  intro now q hq
  obtain ⟨p, hp, hd⟩ := stamp_mem q o now hq
  rw [hd]; exact h p hp


/-! ### the bring-up state between the console's answers -/

/-- the console has just been triggered (or powered): its answer `o` is on its way -/
structure PS (b : BS) (o : Out) : Prop where
  calm : Calm b.st
  accept : b.st.accept = []
  slow : b.st.slowDelay = none
  slice : b.st.slice = Params.sendSliceSize
  script : b.st.script = stamp b.st.now o

/-- `o` completes what `test` waits for exactly at its end -/
def Ends (test : Bytes → Bool) (o : Out) : Prop :=
  test (outText o) = true ∧ ∀ k, 0 < k → k < (outText o).length → test ((outText o).take k) = false

/-- the delay `d` is within the time-out `t` -/
def fits (d : Nat) : Option Nat → Prop
  | none => True
  | some r => d < r

theorem PS.of_same {b b' : BS} {o : Out} (h : PS b o) (hs : SameCfg b.st b'.st) (hwf : WF b'.st)
    (o' : Out) (hsc : b'.st.script = stamp b'.st.now o') : PS b' o' :=
  ⟨hs.calm h.calm hwf, by rw [hs.accept]; exact h.accept, by rw [hs.slowDelay]; exact h.slow,
   by rw [hs.slice]; exact h.slice, hsc⟩

theorem wf_nil {s : St} (h : s.script = []) : WF s := by
  unfold WF; rw [h]; simp

/-- a wait (`read_until_prompt` or `expect`, through the common loop) on the pending answer -/
theorem ps_wait {α : Type} (test : Bytes → Option α) (t : Option Nat) (s : St) (o : Out) (hc : Calm s)
    (hsc : s.script = stamp s.now o) (hne : o ≠ [])
    (hend : Ends (fun b => (test b).isSome) o) (hfit : fits (total o) t) :
    ∃ a s', waitLoop test (fuelFor s) [] (riStart none t s) s = (.ok (a, outText o), s') ∧ s'.script = []
      ∧ s'.now = s.now + total o ∧ SameCfg s s' := by
  have hflat : flat s.script = outText o := by rw [hsc, flat_stamp]
  have hscne : s.script ≠ [] := by
    rw [hsc]
    cases o with
    | nil => exact absurd rfl hne
    | cons p ps => obtain ⟨dt, d⟩ := p; simp [stamp]
  have htime : InTime (riStart none t s) s := by
    cases t with
    | none => exact Or.inl rfl
    | some T =>
      refine Or.inr ⟨T, rfl, ?_, ?_⟩
      · show s.now < s.now + T
        have : total o < T := hfit
        omega
      · intro q hq
        rw [hsc] at hq
        have := (stamp_ticks o s.now q hq).2
        have h2 : total o < T := hfit
        show q.tick < s.now + T
        omega
  obtain ⟨a, s', hres, hsc', hnow', hsame⟩ := waitLoop_progress test (fuelFor s) [] (riStart none t s) s rfl
    (by unfold fuelFor; omega) hc (Nat.le_refl _) htime hscne
    (by rw [List.nil_append, hflat]; exact hend.1)
    (by
      intro k hk hlt
      rw [hflat] at hlt ⊢
      have := hend.2 k hk hlt
      simp only [List.nil_append]
      cases h : test (List.take k (outText o)) with
      | none => rfl
      | some x => simp only [h] at this; simp at this)
  refine ⟨a, s', ?_, hsc', ?_, hsame⟩
  · rw [hres, List.nil_append, hflat]
  · rw [hnow', hsc, lastTick_stamp]

/-- `read_until_prompt` on the pending answer -/
theorem ps_rup (b : BS) (o : Out) (h : PS b o) (hne : o ≠ []) (p : Option Pat) (t : Option Nat) (P : Pat)
    (hP : effPrompt p b.st.prompt = some P) (hend : Ends (fun buf => (promptEnd P buf).isSome) o)
    (hfit : fits (total o) t) :
    ∃ v b', rd (readUntilPrompt p t) b = (.ok v, b') ∧ PS b' [] ∧ b'.st.now = b.st.now + total o ∧ b'.con = b.con
      ∧ SameCfg b.st b'.st := by
  generalize hs0 : ({ b.st with reads := [] } : St) = s0
  have hc0 : Calm s0 := by subst hs0; exact h.calm.cutReads
  have hsc0 : s0.script = stamp s0.now o := by subst hs0; exact h.script
  have hsame0 : SameCfg b.st s0 := by subst hs0; exact ⟨rfl, rfl, rfl, rfl, rfl, rfl, rfl, rfl, rfl⟩
  have hnow0 : s0.now = b.st.now := by subst hs0; rfl
  have key : ∃ v s', readUntilPrompt p t s0 = (.ok v, s') ∧ s'.script = [] ∧ s'.now = s0.now + total o ∧ SameCfg s0 s' := by
    unfold readUntilPrompt
    cases p with
    | none =>
      have hpr : s0.prompt = some P := by rw [hsame0.prompt]; simpa [effPrompt] using hP
      simp only
      rw [rupLoop_eq P _ _ _ _ hpr]
      obtain ⟨a, s', hres, hsc', hnow', hsame⟩ := ps_wait (promptEnd P) t s0 o hc0 hsc0 hne hend hfit
      rw [hres]
      exact ⟨_, s', rfl, hsc', hnow', hsame⟩
    | some p =>
      simp only [effPrompt, Option.some.injEq] at hP
      subst hP
      simp only
      generalize hs1 : ({ s0 with prompt := some (anchor p) } : St) = s1
      have hc1 : Calm s1 := by subst hs1; exact hc0.withPrompt _
      have hsc1 : s1.script = stamp s1.now o := by subst hs1; exact hsc0
      rw [rupLoop_eq (anchor p) _ _ _ _ (by subst hs1; rfl)]
      obtain ⟨a, s', hres, hsc', hnow', hsame⟩ := ps_wait (promptEnd (anchor p)) t s1 o hc1 hsc1 hne hend hfit
      rw [hres]
      refine ⟨_, _, rfl, hsc', ?_, ?_⟩
      · show s'.now = _; rw [hnow']; subst hs1; rfl
      · subst hs1
        exact ⟨hsame.chunk, hsame.slice, rfl, hsame.blacklist, hsame.accept, hsame.slowDelay, hsame.streams,
          hsame.logPrompt, hsame.deaths⟩
  obtain ⟨v, s', hres, hsc', hnow', hsame⟩ := key
  have hrd : rd (readUntilPrompt p t) b = (.ok v, { b with st := s', evs := b.evs ++ s'.reads.map .rd }) := by
    unfold rd
    simp only [hs0, hres]
  refine ⟨v, _, hrd, ?_, ?_, rfl, hsame0.trans hsame⟩
  · exact h.of_same (hsame0.trans hsame) (wf_nil hsc') [] (by show s'.script = _; rw [hsc']; rfl)
  · show s'.now = _; rw [hnow', hnow0]

/-- `expect` on the pending answer -/
theorem ps_expect (b : BS) (o : Out) (h : PS b o) (hne : o ≠ []) (pats : List Pat) (t : Option Nat)
    (hend : Ends (fun buf => (firstMatch buf 0 pats).isSome) o) (hfit : fits (total o) t) :
    ∃ v b', rd (expect pats t) b = (.ok v, b') ∧ PS b' [] ∧ b'.st.now = b.st.now + total o ∧ b'.con = b.con
      ∧ SameCfg b.st b'.st := by
  generalize hs0 : ({ b.st with reads := [] } : St) = s0
  have hc0 : Calm s0 := by subst hs0; exact h.calm.cutReads
  have hsc0 : s0.script = stamp s0.now o := by subst hs0; exact h.script
  have hsame0 : SameCfg b.st s0 := by subst hs0; exact ⟨rfl, rfl, rfl, rfl, rfl, rfl, rfl, rfl, rfl⟩
  have hnow0 : s0.now = b.st.now := by subst hs0; rfl
  obtain ⟨a, s', hres, hsc', hnow', hsame⟩ := ps_wait (fun buf => firstMatch buf 0 pats) t s0 o hc0 hsc0 hne hend hfit
  have hex : expect pats t s0 = (.ok { idx := a.1, s := a.2.1, e := a.2.2, buf := outText o }, s') := by
    unfold expect
    rw [expectLoop_eq, hres]
  have hrd : rd (expect pats t) b = (.ok { idx := a.1, s := a.2.1, e := a.2.2, buf := outText o },
      { b with st := s', evs := b.evs ++ s'.reads.map .rd }) := by
    unfold rd
    simp only [hs0, hex]
  refine ⟨_, _, hrd, ?_, ?_, rfl, hsame0.trans hsame⟩
  · exact h.of_same (hsame0.trans hsame) (wf_nil hsc') [] (by show s'.script = _; rw [hsc']; rfl)
  · show s'.now = _; rw [hnow', hnow0]


theorem wr_one (b : BS) (op : St → Res Unit) (buf : Bytes)
    (hop : op { b.st with writes := [] } = (.ok (), { b.st with writes := [(buf, buf.length)] })) :
    wr op b = (.ok (), { b with
      st := { b.st with writes := [(buf, buf.length)], script := (react b.st.now buf (b.st.script, b.con)).1 },
      con := (react b.st.now buf (b.st.script, b.con)).2, evs := b.evs ++ [.wr b.st.now buf] }) := by
  unfold wr
  simp only [hop, List.map_cons, List.map_nil, List.foldl_cons, List.foldl_nil]

/-- what the console does with a write when nothing is pending -/
def Answer (buf : Bytes) (con : List Stage) (b' : BS) : Prop :=
  match con with
  | [] => PS b' [] ∧ b'.con = []
  | st :: rest => if st.trig.fires buf = true then PS b' st.out ∧ b'.con = rest else PS b' [] ∧ b'.con = st :: rest

/-- one `send` (one slice, no read-back) while nothing is pending -/
theorem ps_send (b : BS) (h : PS b []) (hcon : ConOk b.con) (buf : Bytes) (ign : Bool) (hne : buf ≠ [])
    (hlen : buf.length ≤ Params.sendSliceSize) (hbl : ign = true ∨ forbidden b.st.blacklist buf = false) :
    ∃ b', wr (send buf false none ign) b = (.ok (), b') ∧ b'.st.now = b.st.now ∧ SameCfg b.st b'.st
      ∧ ConOk b'.con ∧ Answer buf b.con b' := by
  have hop : send buf false none ign { b.st with writes := [] } = (.ok (), { b.st with writes := [(buf, buf.length)] }) :=
    send_one buf ign { b.st with writes := [] } hne
      (by rw [show ({ b.st with writes := [] } : St).slice = b.st.slice from rfl, h.slice]; exact hlen)
      h.accept h.slow hbl
  have hsc : b.st.script = [] := h.script
  refine ⟨_, wr_one b _ buf hop, rfl, ⟨rfl, rfl, rfl, rfl, rfl, rfl, rfl, rfl, rfl⟩, ?_, ?_⟩
  · exact (react_ok b.st.now buf b.st.script b.con h.calm.wf hcon).2
  · rw [hsc]
    unfold Answer react
    cases hc : b.con with
    | nil =>
      exact ⟨⟨⟨wf_nil rfl, h.calm.chunk, h.calm.deaths, h.calm.lp⟩, h.accept, h.slow, h.slice, rfl⟩, rfl⟩
    | cons st rest =>
      simp only
      by_cases hf : st.trig.fires buf = true
      · rw [if_pos hf, if_pos hf]
        refine ⟨⟨⟨?_, h.calm.chunk, h.calm.deaths, h.calm.lp⟩, h.accept, h.slow, h.slice, ?_⟩, rfl⟩
        · intro q hq
          have hq : q ∈ insertAll (stamp b.st.now st.out) [] := hq
          rw [insertAll_stamp_nil] at hq
          exact stamp_wf st.out (hcon st (by rw [hc]; exact List.mem_cons_self ..)) _ q hq
        · show insertAll (stamp b.st.now st.out) [] = stamp b.st.now st.out
          exact insertAll_stamp_nil _ _
      · rw [if_neg hf, if_neg hf]
        exact ⟨⟨⟨wf_nil rfl, h.calm.chunk, h.calm.deaths, h.calm.lp⟩, h.accept, h.slow, h.slice, rfl⟩, rfl⟩

theorem rd_same {T : Option Nat} {t0 : Nat} {s s' : St} {recs : List ReadRec} (h : Rd T t0 s s' recs)
    (hd : s.deaths = []) : SameCfg s s' :=
  ⟨h.frame.chunk, h.frame.slice, h.frame.prompt, h.frame.blacklist, h.frame.accept, h.frame.slowDelay,
   h.frame.streams, h.frame.logPrompt, by rw [h.deaths, hd]⟩

/-- `read_until_timeout(T)` while nothing is pending: `T` later, still nothing -/
theorem ps_rut (b : BS) (h : PS b []) (T : Nat) :
    ∃ v b', rd (readUntilTimeout (some T)) b = (.ok v, b') ∧ PS b' [] ∧ b'.st.now = b.st.now + T ∧ b'.con = b.con
      ∧ SameCfg b.st b'.st := by
  obtain ⟨recs, v, hv, hrd, hnow⟩ := rut_out T { b.st with reads := [] } h.calm.cutReads
  have hsame0 : SameCfg b.st { b.st with reads := [] } := ⟨rfl, rfl, rfl, rfl, rfl, rfl, rfl, rfl, rfl⟩
  have hsame := rd_same hrd h.calm.deaths
  have hwf := hrd.frame.wf h.calm.cutReads.wf
  have hsc : (readUntilTimeout (some T) { b.st with reads := [] }).2.script = [] := by
    apply C02.script_nil_of_flat hwf
    have hfl := hrd.frame.flat
    have h0 : flat ({ b.st with reads := [] } : St).script = [] := by
      show flat b.st.script = []
      rw [h.script]; rfl
    rw [h0] at hfl
    exact (List.append_eq_nil_iff.mp hfl).2
  refine ⟨v, (rd (readUntilTimeout (some T)) b).2, ?_, ?_, hnow, rfl, hsame0.trans hsame⟩
  · exact Prod.ext hv rfl
  · exact h.of_same (hsame0.trans hsame) hwf [] (by
      show (readUntilTimeout (some T) { b.st with reads := [] }).2.script = _
      rw [hsc]; rfl)

/-- `read(n)` when the pending answer begins with pieces of exactly `n` bytes (the echo) -/
theorem ps_readn (b : BS) (eo o2 : Out) (h : PS b (eo ++ o2)) (n : Nat) (hn : (outText eo).length = n) (hpos : 0 < n) :
    ∃ v b', rd (read (some n) none) b = (.ok v, b') ∧ PS b' o2 ∧ b'.st.now = b.st.now + total eo ∧ b'.con = b.con
      ∧ SameCfg b.st b'.st := by
  have hsame0 : SameCfg b.st { b.st with reads := [] } := ⟨rfl, rfl, rfl, rfl, rfl, rfl, rfl, rfl, rfl⟩
  have hsc0 : ({ b.st with reads := [] } : St).script = stamp b.st.now eo ++ stamp (b.st.now + total eo) o2 := by
    show b.st.script = _
    rw [h.script, stamp_append]
  obtain ⟨v, s', hres, hsc', hnow', hsame⟩ := readn_progress n { b.st with reads := [] } h.calm.cutReads _ _ hsc0
    (by rw [flat_stamp]; exact hn) hpos
  have hnow2 : s'.now = b.st.now + total eo := by
    rw [hnow']
    show lastTick b.st.now (stamp b.st.now eo) = _
    exact lastTick_stamp eo b.st.now
  have hwf' : WF s' := by
    unfold WF
    rw [hsc']
    intro q hq
    exact h.calm.wf q (by rw [h.script, stamp_append]; exact List.mem_append_right _ hq)
  refine ⟨v, { b with st := s', evs := b.evs ++ s'.reads.map .rd }, ?_, ?_, hnow2, rfl, hsame0.trans hsame⟩
  · unfold rd
    simp only [hres]
  · exact h.of_same (hsame0.trans hsame) hwf' o2 (by show s'.script = stamp s'.now o2; rw [hsc', hnow2])


/-! ### cooperative consoles -/

/-- what tbot waits for -/
def loginTest (l : LnxCfg) : Bytes → Bool := fun buf => (promptEnd (anchor (.lit l.login)) buf).isSome
def pwTest (l : LnxCfg) : Bytes → Bool := fun buf => (promptEnd (anchor l.pwPrompt) buf).isSome
def askTest (banner : Bytes) : Bytes → Bool := fun buf => (firstMatch buf 0 [.lit banner]).isSome
def autoTest (p : Pat) : Bytes → Bool := fun buf => (promptEnd (anchor p) buf).isSome
def ubTest (u : UbCfg) : Bytes → Bool := fun buf => (promptEnd (.lit u.prompt) buf).isSome

/-- a non-empty answer that completes the awaited text exactly at its end -/
def Answers (test : Bytes → Bool) (o : Out) : Prop := o ≠ [] ∧ Ends test o

/-- what is left of a time budget after `d` -/
def after (d : Nat) : Option Nat → Option Nat := Option.map (· - d)

/-- after the user name: the password prompt, within the boot time-out and `no_password_timeout` -/
def CoopPw (l : LnxCfg) (stages : List Stage) (budget : Option Nat) : Prop :=
  match l.password with
  | none => True
  | some _ => ∃ s rest, stages = s :: rest ∧ s.trig.fires (l.user ++ [13]) = true ∧ Answers (pwTest l) s.out
      ∧ fits (total s.out) budget ∧ fits (total s.out) l.noPw

/-- the login prompt (again after the login delay, when there is one), then `CoopPw` -/
def CoopLogin (l : LnxCfg) (o : Out) (stages : List Stage) (budget : Option Nat) : Prop :=
  Answers (loginTest l) o ∧ fits (total o) budget ∧
  if l.delay = 0 then CoopPw l stages (after (total o) budget)
  else fits l.delay (after (total o) budget) ∧ ∃ s rest, stages = s :: rest ∧ s.trig.fires ([] ++ [13]) = true
    ∧ Answers (loginTest l) s.out ∧ fits (total s.out) (after l.delay (after (total o) budget))
    ∧ CoopPw l rest (after (total s.out) (after l.delay (after (total o) budget)))

/-- the Linux boot stage: the askfirst banner when it is configured, then `CoopLogin` -/
def CoopLnx (l : LnxCfg) (o : Out) (stages : List Stage) : Prop :=
  match l.askfirst with
  | none => CoopLogin l o stages l.timeout
  | some banner => Answers (askTest banner) o ∧ fits (total o) l.timeout ∧ ∃ s rest, stages = s :: rest
      ∧ s.trig.fires ([] ++ [13]) = true ∧ CoopLogin l s.out rest (after (total o) l.timeout)

/-- the U-Boot stage: the autoboot prompt within the boot time-out (when it is intercepted), then
    the U-Boot prompt within one poll read; `k` says what the remaining stages must do -/
def CoopUb (u : UbCfg) (init : Out) (stages : List Stage) (k : List Stage → Prop) : Prop :=
  match u.autoboot with
  | none => Answers (ubTest u) init ∧ total init < Params.ubootPollRead ∧ k stages
  | some p => Answers (autoTest p) init ∧ fits (total init) u.timeout ∧ ∃ s rest, stages = s :: rest
      ∧ s.trig.fires u.keys = true ∧ Answers (ubTest u) s.out ∧ total s.out < Params.ubootPollRead ∧ k rest

/-- `boot` is echoed (any pieces of exactly the read-back length), then the Linux stage -/
def CoopBoot (l : LnxCfg) (stages : List Stage) : Prop :=
  ∃ s rest eo o2, stages = s :: rest ∧ s.trig.fires bootLine = true ∧ s.out = eo ++ o2
    ∧ (outText eo).length = bootLine.length + countNl bootLine ∧ CoopLnx l o2 rest

/-- **cooperative console** for a configuration -/
def Coop (c : Board.Case) : Prop :=
  match c.ub, c.lnx with
  | none, none => False
  | some u, none => CoopUb u c.init c.stages fun _ => True
  | none, some l => CoopLnx l c.init c.stages
  | some u, some l => CoopUb u c.init c.stages (CoopBoot l)

/-! ### the Linux stage succeeds -/

/-- `start + boot_timeout = now + budget` -/
def Bud (T : Option Nat) (start now : Nat) (budget : Option Nat) : Prop :=
  match T, budget with
  | none, none => True
  | some T, some r => now + r = start + T ∧ start ≤ now
  | _, _ => False

/-- the Linux stage, the console's answer `o` pending, `budget` left of `boot_timeout` -/
structure LS (l : LnxCfg) (start : Nat) (b : BS) (o : Out) (budget : Option Nat) : Prop where
  ps : PS b o
  con : ConOk b.con
  bud : Bud l.timeout start b.st.now budget
  ok : LnxOk l b.st.blacklist

theorem tmo_ok {l : LnxCfg} {start : Nat} {b : BS} {budget : Option Nat} (h : Bud l.timeout start b.st.now budget)
    (hpos : fits 0 budget) : tmoRemaining l.timeout start b = .ok budget := by
  unfold tmoRemaining Chan.remaining
  unfold Bud at h
  cases hT : l.timeout with
  | none =>
    rw [hT] at h
    cases budget with
    | none => rfl
    | some r => simp at h
  | some T =>
    rw [hT] at h
    cases budget with
    | none => simp at h
    | some r =>
      simp only at h
      have hr : 0 < r := hpos
      dsimp only
      rw [if_neg (by omega)]
      dsimp only
      congr 2
      omega

theorem Bud.step {T : Option Nat} {start now : Nat} {budget : Option Nat} (h : Bud T start now budget) (d : Nat)
    (hfit : fits d budget) : Bud T start (now + d) (after d budget) := by
  unfold Bud at h ⊢
  cases T with
  | none => cases budget with
    | none => trivial
    | some r => simp at h
  | some T => cases budget with
    | none => simp at h
    | some r =>
      have : d < r := hfit
      simp only [after, Option.map_some] at h ⊢
      omega

theorem fits_zero {d : Nat} {budget : Option Nat} (h : fits d budget) : fits 0 budget := by
  cases budget with
  | none => trivial
  | some r => have : d < r := h; show 0 < r; omega

theorem fits_after {d e : Nat} {budget : Option Nat} (h : fits e (after d budget)) : fits 0 (after d budget) :=
  fits_zero h

/-- a wait for the login prompt on the pending answer -/
theorem loginWait_ok (l : LnxCfg) (start : Nat) (b : BS) (o : Out) (budget : Option Nat) (h : LS l start b o budget)
    (ha : Answers (loginTest l) o) (hfit : fits (total o) budget) :
    ∃ b', lnxLoginWait l start b = (.ok (), b') ∧ LS l start b' [] (after (total o) budget) ∧ b'.con = b.con := by
  unfold lnxLoginWait
  rw [tmo_ok h.bud (fits_zero hfit)]
  dsimp only
  obtain ⟨v, b', hrd, hps, hnow, hcon, hsame⟩ := ps_rup b o h.ps ha.1 (some (.lit l.login)) budget (anchor (.lit l.login)) rfl
    ha.2 hfit
  rw [hrd]
  dsimp only
  refine ⟨b', rfl, ⟨hps, by rw [hcon]; exact h.con, ?_, by rw [hsame.blacklist]; exact h.ok⟩, hcon⟩
  rw [hnow]
  exact h.bud.step _ hfit


theorem Answer.fired {buf : Bytes} {s : Stage} {rest : List Stage} {b' : BS} (h : Answer buf (s :: rest) b')
    (hf : s.trig.fires buf = true) : PS b' s.out ∧ b'.con = rest := by
  unfold Answer at h
  simpa [hf] using h

/-- a line is sent while nothing is pending -/
theorem sendline_ok (l : LnxCfg) (start : Nat) (b : BS) (budget : Option Nat) (h : LS l start b [] budget)
    (payload : Bytes) (hlen : (payload ++ [13]).length ≤ Params.sendSliceSize)
    (hbl : forbidden b.st.blacklist (payload ++ [13]) = false) :
    ∃ b', wr (sendline payload false none) b = (.ok (), b') ∧ Answer (payload ++ [13]) b.con b' ∧ ConOk b'.con
      ∧ Bud l.timeout start b'.st.now budget ∧ LnxOk l b'.st.blacklist := by
  obtain ⟨b', hwr, hnow, hsame, hcon, hans⟩ := ps_send b h.ps h.con (payload ++ [13]) false (by simp) hlen (Or.inr hbl)
  refine ⟨b', ?_, hans, hcon, by rw [hnow]; exact h.bud, by rw [hsame.blacklist]; exact h.ok⟩
  unfold sendline
  exact hwr

theorem fits_pwTimeout {d : Nat} {noPw budget : Option Nat} (h1 : fits d budget) (h2 : fits d noPw) :
    fits d (pwTimeout noPw budget) := by
  unfold pwTimeout
  cases noPw with
  | none => exact h1
  | some n =>
    cases budget with
    | none => exact h2
    | some r =>
      have a : d < r := h1
      have b : d < n := h2
      show d < min r n
      omega

/-- the body of `LinuxBootLogin._init_machine` against a cooperative console -/
theorem lnxLoginBody_ok (l : LnxCfg) (start : Nat) (b : BS) (o : Out) (budget : Option Nat) (h : LS l start b o budget)
    (hco : CoopLogin l o b.con budget) : ∃ b', lnxLoginBody l start b = (.ok (), b') := by
  obtain ⟨ha, hfit, hrest⟩ := hco
  unfold lnxLoginBody
  obtain ⟨b1, hw1, hls1, hcon1⟩ := loginWait_ok l start b o budget h ha hfit
  rw [hw1]
  dsimp only
  -- the optional login delay
  have hstage : ∃ b2 budget2, (if l.delay = 0 then ((.ok (), b1) : R Unit) else lnxDelay l start b1) = (.ok (), b2)
      ∧ LS l start b2 [] budget2 ∧ CoopPw l b2.con budget2 := by
    by_cases hd : l.delay = 0
    · rw [if_pos hd] at hrest ⊢
      exact ⟨b1, _, rfl, hls1, by rw [hcon1]; exact hrest⟩
    · rw [if_neg hd] at hrest ⊢
      obtain ⟨hfd, s, rest, hst, hfire, ha2, hfit2, hpw⟩ := hrest
      unfold lnxDelay
      rw [tmo_ok hls1.bud (fits_zero hfd)]
      dsimp only
      have hex : exceeds l.delay (after (total o) budget) = false := by
        cases hb : after (total o) budget with
        | none => rfl
        | some r =>
          rw [hb] at hfd
          have : l.delay < r := hfd
          simp only [exceeds, decide_eq_false_iff_not]
          omega
      rw [hex]
      simp only [Bool.false_eq_true, if_false]
      obtain ⟨v, b2, hrut, hps2, hnow2, hcon2, hsame2⟩ := ps_rut b1 hls1.ps l.delay
      rw [hrut]
      dsimp only
      have hls2 : LS l start b2 [] (after l.delay (after (total o) budget)) :=
        ⟨hps2, by rw [hcon2]; exact hls1.con, by rw [hnow2]; exact hls1.bud.step _ hfd,
         by rw [hsame2.blacklist]; exact hls1.ok⟩
      obtain ⟨b3, hwr3, hans3, hcon3, hbud3, hok3⟩ := sendline_ok l start b2 _ hls2 [] (by decide) hls2.ok.crBl
      rw [hwr3]
      dsimp only
      rw [hcon2, hcon1, hst] at hans3
      obtain ⟨hps3, hc3⟩ := hans3.fired hfire
      obtain ⟨b4, hw4, hls4, hcon4⟩ := loginWait_ok l start b3 s.out _ ⟨hps3, hcon3, hbud3, hok3⟩ ha2 hfit2
      exact ⟨b4, _, hw4, hls4, by rw [hcon4, hc3]; exact hpw⟩
  obtain ⟨b2, budget2, hst2, hls2, hpw⟩ := hstage
  rw [hst2]
  dsimp only
  obtain ⟨b3, hwr3, hans3, hcon3, hbud3, hok3⟩ := sendline_ok l start b2 _ hls2 l.user hls2.ok.userLen hls2.ok.userBl
  rw [hwr3]
  dsimp only
  unfold CoopPw at hpw
  cases hpwd : l.password with
  | none => exact ⟨b3, rfl⟩
  | some pw =>
    rw [hpwd] at hpw
    dsimp only at hpw ⊢
    obtain ⟨s, rest, hst, hfire, ha3, hfit3, hfitn⟩ := hpw
    rw [hst] at hans3
    obtain ⟨hps3, hc3⟩ := hans3.fired hfire
    unfold lnxPassword
    rw [tmo_ok hbud3 (fits_zero hfit3)]
    dsimp only
    obtain ⟨v, b4, hrd4, hps4, hnow4, hcon4, hsame4⟩ := ps_rup b3 s.out hps3 ha3.1 (some l.pwPrompt)
      (pwTimeout l.noPw budget2) (anchor l.pwPrompt) rfl ha3.2 (fits_pwTimeout hfit3 hfitn)
    rw [hrd4]
    dsimp only
    have hls4 : LS l start b4 [] (after (total s.out) budget2) :=
      ⟨hps4, by rw [hcon4]; exact hcon3, by rw [hnow4]; exact hbud3.step _ hfit3, by rw [hsame4.blacklist]; exact hok3⟩
    obtain ⟨b5, hwr5, _, _, _, _⟩ := sendline_ok l start b4 _ hls4 pw (hls4.ok.pwLen pw hpwd) (hls4.ok.pwBl pw hpwd)
    exact ⟨b5, hwr5⟩


theorem PS.streamOn {b : BS} {o : Out} (h : PS b o) (id : Nat) : PS (streamOn id b) o :=
  ⟨⟨h.calm.wf, h.calm.chunk, h.calm.deaths, rfl⟩, h.accept, h.slow, h.slice, h.script⟩

theorem PS.streamOff {b : BS} {o : Out} (h : PS b o) (id : Nat) : PS (streamOff id b) o := by
  unfold Board.streamOff
  rw [streamExit_shown id b.st h.calm.lp]
  exact ⟨⟨h.calm.wf, h.calm.chunk, h.calm.deaths, h.calm.lp⟩, h.accept, h.slow, h.slice, h.script⟩

theorem Bud.init (T : Option Nat) (start : Nat) : Bud T start start T := by
  unfold Bud
  cases T with
  | none => trivial
  | some T => exact ⟨rfl, Nat.le_refl _⟩

/-- the initializers of the Linux machine against a cooperative console, from the moment the
    boot stage begins -/
theorem lnxUp_ok (l : LnxCfg) (b : BS) (o : Out) (hps : PS b o) (hcon : ConOk b.con) (hok : LnxOk l b.st.blacklist)
    (hco : CoopLnx l o b.con) : ∃ b', lnxUp l b = (.ok (), b') := by
  unfold lnxUp
  have hstage : ∃ s? b1 o1 budget, lnxAskStage l b = (.ok s?, b1) ∧ LS l (s?.getD b1.st.now) b1 o1 budget
      ∧ CoopLogin l o1 b1.con budget := by
    unfold lnxAskStage
    unfold CoopLnx at hco
    cases hask : l.askfirst with
    | none =>
      rw [hask] at hco
      exact ⟨none, b, o, l.timeout, rfl, ⟨hps, hcon, Bud.init _ _, hok⟩, hco⟩
    | some banner =>
      rw [hask] at hco
      dsimp only at hco ⊢
      obtain ⟨ha, hfit, s, rest, hst, hfire, hlogin⟩ := hco
      unfold lnxAskfirst
      dsimp only
      obtain ⟨v, b1, hrd, hps1, hnow1, hcon1, hsame1⟩ := ps_expect (streamOn 2 b) o (hps.streamOn 2) ha.1 [.lit banner]
        l.timeout ha.2 hfit
      rw [hrd]
      dsimp only
      have hls1 : LS l b.st.now b1 [] (after (total o) l.timeout) :=
        ⟨hps1, by rw [hcon1]; exact hcon, by rw [hnow1]; exact (Bud.init _ _).step _ hfit,
         by rw [hsame1.blacklist]; exact hok⟩
      obtain ⟨b2, hwr2, hans2, hcon2, hbud2, hok2⟩ := sendline_ok l b.st.now b1 _ hls1 [] (by decide) hls1.ok.crBl
      rw [hwr2]
      dsimp only
      have hc1 : b1.con = b.con := hcon1
      rw [hc1, hst] at hans2
      obtain ⟨hps2, hc2⟩ := hans2.fired hfire
      refine ⟨some b.st.now, streamOff 2 b2, s.out, _, rfl, ⟨hps2.streamOff 2, hcon2, hbud2, hok2⟩, ?_⟩
      show CoopLogin l s.out b2.con _
      rw [hc2]
      exact hlogin
  obtain ⟨s?, b1, o1, budget, hst, hls, hlogin⟩ := hstage
  rw [hst]
  dsimp only
  unfold lnxLogin
  dsimp only
  have hls' : LS l (s?.getD (streamOn 2 b1).st.now) (streamOn 2 b1) o1 budget :=
    ⟨hls.ps.streamOn 2, hls.con, hls.bud, hls.ok⟩
  obtain ⟨b2, hbody⟩ := lnxLoginBody_ok l _ (streamOn 2 b1) o1 budget hls' hlogin
  rw [hbody]
  exact ⟨_, rfl⟩

/-! ### the U-Boot stage succeeds -/

/-- entering the U-Boot machine against a cooperative console; the remaining stages satisfy `k` -/
theorem ubUp_ok (u : UbCfg) (cap : Nat) (b : BS) (hps : PS b c_init) (hcon : ConOk b.con) (huok : UbOk u)
    (k : List Stage → Prop) (hco : CoopUb u c_init b.con k) (hpr : b.st.prompt = none) :
    ∃ b', ubUp u cap b = (.ok (), b') ∧ PS b' [] ∧ ConOk b'.con ∧ k b'.con
      ∧ b'.st.blacklist = Params.ubootBlacklist := by
  unfold ubUp
  -- the autoboot intercept
  have hauto : ∃ b1 o1, ubAutoStage u b.st.now b = (.ok (), b1) ∧ PS b1 o1 ∧ ConOk b1.con ∧ Answers (ubTest u) o1
      ∧ total o1 < Params.ubootPollRead ∧ k b1.con ∧ exceeds (b1.st.now - b.st.now) u.timeout = false := by
    unfold ubAutoStage
    unfold CoopUb at hco
    cases ha : u.autoboot with
    | none =>
      rw [ha] at hco
      obtain ⟨h1, h2, h3⟩ := hco
      refine ⟨b, c_init, rfl, hps, hcon, h1, h2, h3, ?_⟩
      rw [Nat.sub_self]
      cases u.timeout <;> simp [exceeds]
    | some p =>
      rw [ha] at hco
      dsimp only at hco ⊢
      obtain ⟨h1, hfit, s, rest, hst, hfire, h2, h3, h4⟩ := hco
      unfold ubAutoboot
      dsimp only
      have htmo : (u.timeout.map fun T => T - ((streamOn 1 b).st.now - b.st.now)) = u.timeout := by
        show (u.timeout.map fun T => T - (b.st.now - b.st.now)) = u.timeout
        rw [Nat.sub_self]
        cases u.timeout <;> simp
      rw [htmo]
      obtain ⟨v, b1, hrd, hps1, hnow1, hcon1, hsame1⟩ := ps_rup (streamOn 1 b) c_init (hps.streamOn 1) h1.1 (some p)
        u.timeout (anchor p) rfl h1.2 hfit
      rw [hrd]
      dsimp only
      obtain ⟨b2, hwr2, hnow2, hsame2, hcon2, hans2⟩ := ps_send b1 hps1 (by rw [hcon1]; exact hcon) u.keys true
        huok.keysNe huok.keysLen (Or.inl rfl)
      rw [hwr2]
      dsimp only
      have hc1 : b1.con = b.con := hcon1
      rw [hc1, hst] at hans2
      obtain ⟨hps2, hc2⟩ := hans2.fired hfire
      refine ⟨streamOff 1 b2, s.out, rfl, hps2.streamOff 1, hcon2, h2, h3, by show k b2.con; rw [hc2]; exact h4, ?_⟩
      show exceeds (b2.st.now - b.st.now) u.timeout = false
      rw [hnow2, hnow1]
      show exceeds (b.st.now + total c_init - b.st.now) u.timeout = false
      rw [Nat.add_sub_cancel_left]
      cases hT : u.timeout with
      | none => rfl
      | some T =>
        rw [hT] at hfit
        have : total c_init < T := hfit
        simp only [exceeds, decide_eq_false_iff_not]
        omega
  obtain ⟨b1, o1, hst1, hps1, hcon1, ha1, htot1, hk1, hex1⟩ := hauto
  rw [hst1]
  dsimp only
  -- `_init_shell`: the first poll finds the prompt
  unfold ubShell
  dsimp only
  have hps0 : PS (ubSetShell u (streamOn 1 b1)) o1 :=
    ⟨⟨hps1.calm.wf, hps1.calm.chunk, hps1.calm.deaths, rfl⟩, hps1.accept, hps1.slow, hps1.slice, hps1.script⟩
  obtain ⟨v, b2, hrd2, hps2, hnow2, hcon2, hsame2⟩ := ps_rup (ubSetShell u (streamOn 1 b1)) o1 hps0 ha1.1 none
    (some Params.ubootPollRead) (.lit u.prompt) rfl ha1.2 htot1
  have hloop : ubLoop u.timeout b.st.now cap (cap + 2) (ubSetShell u (streamOn 1 b1)) = (.ok (), b2) := by
    unfold ubLoop
    have : exceeds ((ubSetShell u (streamOn 1 b1)).st.now - b.st.now) u.timeout = false := hex1
    rw [this]
    simp only [Bool.false_eq_true, if_false, hrd2]
  rw [hloop]
  dsimp only
  refine ⟨_, rfl, ?_, ?_, ?_, ?_⟩
  · have h := hps2.streamOff 1
    exact ⟨h.calm, h.accept, h.slow, h.slice, h.script⟩
  · show ConOk b2.con
    rw [hcon2]; exact hcon1
  · show k b2.con
    rw [hcon2]; exact hk1
  · show b2.st.blacklist = _
    rw [hsame2.blacklist]; rfl


/-- `boot` with its echo read back, against a cooperative console -/
theorem ubBoot_ok (l : LnxCfg) (b : BS) (hps : PS b []) (hcon : ConOk b.con) (hbl : b.st.blacklist = Params.ubootBlacklist)
    (hok : LnxOk l Params.ubootBlacklist) (hco : CoopBoot l b.con) :
    ∃ b' o2, ubBoot b = (.ok (), b') ∧ PS b' o2 ∧ ConOk b'.con ∧ CoopLnx l o2 b'.con ∧ LnxOk l b'.st.blacklist := by
  obtain ⟨s, rest, eo, o2, hst, hfire, hout, hlen, hlnx⟩ := hco
  obtain ⟨hbl0, hlen0, hne0⟩ := bootLine_ok
  unfold ubBoot sendRb
  obtain ⟨b1, hwr1, hnow1, hsame1, hcon1, hans1⟩ := ps_send b hps hcon bootLine false hne0 hlen0
    (Or.inr (by rw [hbl]; exact hbl0))
  have hwr1' : wr (send (Params.ubootBootCmd ++ [13]) false none false) b = (.ok (), b1) := hwr1
  rw [hwr1']
  dsimp only
  rw [hst] at hans1
  obtain ⟨hps1, hc1⟩ := hans1.fired hfire
  rw [hout] at hps1
  obtain ⟨v, b2, hrd2, hps2, hnow2, hcon2, hsame2⟩ := ps_readn b1 eo o2 hps1 _ hlen (by
    have : 0 < bootLine.length := List.length_pos_iff.mpr hne0
    omega)
  have hrd2' : rd (read (some ((Params.ubootBootCmd ++ [13]).length + countNl (Params.ubootBootCmd ++ [13]))) none) b1
      = (.ok v, b2) := hrd2
  rw [hrd2']
  dsimp only
  refine ⟨_, o2, rfl, ⟨hps2.calm, hps2.accept, hps2.slow, hps2.slice, hps2.script⟩, ?_, ?_, ?_⟩
  · show ConOk b2.con
    rw [hcon2]; exact hcon1
  · show CoopLnx l o2 b2.con
    rw [hcon2, hc1]; exact hlnx
  · show LnxOk l b2.st.blacklist
    rw [hsame2.blacklist, hsame1.blacklist, hbl]; exact hok

theorem powerOn_ps (c : Board.Case) (h : WfCase c) : PS (powerOn c) c.init :=
  ⟨powerOn_calm c h, rfl, rfl, rfl, insertAll_stamp_nil c.init 0⟩

/-- **(c) SUCCESS.**  For every well-formed configuration and every cooperative console — whatever
    the fragmentation of its answers, the garbage in front of the prompts and the delays within
    the time-outs — bring-up returns normally. -/
theorem coop_success (c : Board.Case) (h : WfCase c) (hco : Coop c) : (Board.run c).res = none := by
  have hps := powerOn_ps c h
  have hcon : ConOk (powerOn c).con := h.stages
  suffices hb : ∃ b', bringup c (powerOn c) = (.ok (), b') by
    obtain ⟨b', hb⟩ := hb
    unfold Board.run
    rw [hb]
  unfold bringup
  unfold Coop at hco
  cases hub : c.ub with
  | none =>
    cases hlnx : c.lnx with
    | none => rw [hub, hlnx] at hco; exact absurd hco id
    | some l =>
      rw [hub, hlnx] at hco
      dsimp only at hco ⊢
      have hok := h.lnx l hlnx
      rw [hub] at hok
      exact lnxUp_ok l (powerOn c) c.init hps hcon hok hco
  | some u =>
    obtain ⟨huok, _⟩ := h.ub u hub
    cases hlnx : c.lnx with
    | none =>
      rw [hub, hlnx] at hco
      dsimp only at hco ⊢
      obtain ⟨b', hb', _⟩ := ubUp_ok u c.cap (powerOn c) hps hcon huok _ hco rfl
      exact ⟨b', hb'⟩
    | some l =>
      rw [hub, hlnx] at hco
      dsimp only at hco ⊢
      have hok := h.lnx l hlnx
      rw [hub] at hok
      obtain ⟨b1, hb1, hps1, hcon1, hk1, hbl1⟩ := ubUp_ok u c.cap (powerOn c) hps hcon huok _ hco rfl
      rw [hb1]
      dsimp only
      obtain ⟨b2, o2, hb2, hps2, hcon2, hlnx2, hok2⟩ := ubBoot_ok l b1 hps1 hcon1 hbl1 hok hk1
      rw [hb2]
      dsimp only
      exact lnxUp_ok l b2 o2 hps2 hcon2 hok2 hlnx2

/-! ### `coopB` decides cooperativeness -/

theorem outTotal_eq (o : Out) : outTotal o = total o := rfl
theorem outBytes_eq (o : Out) : outBytes o = outText o := rfl

theorem endsB_sound {test : Bytes → Bool} {o : Out} (h : endsB test o = true) : Answers test o := by
  unfold endsB at h
  simp only [Bool.and_eq_true, Bool.not_eq_true', List.all_eq_true, List.mem_range, Bool.or_eq_true, beq_iff_eq,
    outBytes_eq] at h
  obtain ⟨⟨h1, h2⟩, h3⟩ := h
  refine ⟨fun h0 => by rw [h0] at h1; simp at h1, h2, fun k hk hlt => ?_⟩
  rcases h3 k hlt with h | h
  · omega
  · exact h

theorem fitsB_sound {d : Nat} {t : Option Nat} (h : fitsB d t = true) : fits d t := by
  cases t with
  | none => trivial
  | some r =>
    have : d < r := by simpa [fitsB] using h
    exact this

theorem afterB_eq (d : Nat) (t : Option Nat) : afterB d t = after d t := rfl

theorem coopPwB_sound {l : LnxCfg} {stages : List Stage} {budget : Option Nat} (h : coopPwB l stages budget = true) :
    CoopPw l stages budget := by
  unfold coopPwB at h
  unfold CoopPw
  cases hp : l.password with
  | none => trivial
  | some pw =>
    rw [hp] at h
    dsimp only at h ⊢
    cases stages with
    | nil => simp at h
    | cons s rest =>
      simp only [Bool.and_eq_true, outTotal_eq] at h
      exact ⟨s, rest, rfl, h.1.1.1, endsB_sound h.1.1.2, fitsB_sound h.1.2, fitsB_sound h.2⟩

theorem coopLoginB_sound {l : LnxCfg} {o : Out} {stages : List Stage} {budget : Option Nat}
    (h : coopLoginB l o stages budget = true) : CoopLogin l o stages budget := by
  unfold coopLoginB at h
  unfold CoopLogin
  simp only [Bool.and_eq_true, outTotal_eq, afterB_eq] at h
  obtain ⟨⟨h1, h2⟩, h3⟩ := h
  refine ⟨endsB_sound h1, fitsB_sound h2, ?_⟩
  by_cases hd : l.delay = 0
  · rw [if_pos hd] at h3 ⊢
    exact coopPwB_sound h3
  · rw [if_neg hd] at h3 ⊢
    simp only [Bool.and_eq_true] at h3
    obtain ⟨h4, h5⟩ := h3
    cases stages with
    | nil => simp at h5
    | cons s rest =>
      simp only [Bool.and_eq_true] at h5
      exact ⟨fitsB_sound h4, s, rest, rfl, h5.1.1.1, endsB_sound h5.1.1.2, fitsB_sound h5.1.2, coopPwB_sound h5.2⟩

theorem coopLnxB_sound {l : LnxCfg} {o : Out} {stages : List Stage} (h : coopLnxB l o stages = true) :
    CoopLnx l o stages := by
  unfold coopLnxB at h
  unfold CoopLnx
  cases ha : l.askfirst with
  | none => rw [ha] at h; exact coopLoginB_sound h
  | some banner =>
    rw [ha] at h
    dsimp only at h ⊢
    simp only [Bool.and_eq_true, outTotal_eq, afterB_eq] at h
    obtain ⟨⟨h1, h2⟩, h3⟩ := h
    cases stages with
    | nil => simp at h3
    | cons s rest =>
      simp only [Bool.and_eq_true] at h3
      exact ⟨endsB_sound h1, fitsB_sound h2, s, rest, rfl, h3.1, coopLoginB_sound h3.2⟩

theorem coopUbB_sound {u : UbCfg} {init : Out} {stages : List Stage} {kb : List Stage → Bool} {k : List Stage → Prop}
    (hk : ∀ st, kb st = true → k st) (h : coopUbB u init stages kb = true) : CoopUb u init stages k := by
  unfold coopUbB at h
  unfold CoopUb
  cases ha : u.autoboot with
  | none =>
    rw [ha] at h
    simp only [Bool.and_eq_true, outTotal_eq] at h
    exact ⟨endsB_sound h.1.1, of_decide_eq_true h.1.2, hk _ h.2⟩
  | some p =>
    rw [ha] at h
    dsimp only at h ⊢
    simp only [Bool.and_eq_true, outTotal_eq] at h
    obtain ⟨⟨h1, h2⟩, h3⟩ := h
    cases stages with
    | nil => simp at h3
    | cons s rest =>
      simp only [Bool.and_eq_true, outTotal_eq] at h3
      exact ⟨endsB_sound h1, fitsB_sound h2, s, rest, rfl, h3.1.1.1, endsB_sound h3.1.1.2, of_decide_eq_true h3.1.2, hk _ h3.2⟩

theorem splitEcho_sound : ∀ (o : Out) (n : Nat) (eo o2 : Out), splitEcho n o = some (eo, o2) →
    o = eo ++ o2 ∧ (outText eo).length = n := by
  intro o
  induction o with
  | nil =>
    intro n eo o2 h
    cases n with
    | zero =>
      simp only [splitEcho, Option.some.injEq, Prod.mk.injEq] at h
      obtain ⟨rfl, rfl⟩ := h
      exact ⟨rfl, rfl⟩
    | succ n => simp [splitEcho] at h
  | cons p r ih =>
    intro n eo o2 h
    obtain ⟨dt, d⟩ := p
    cases n with
    | zero =>
      simp only [splitEcho, Option.some.injEq, Prod.mk.injEq] at h
      obtain ⟨rfl, rfl⟩ := h
      exact ⟨rfl, rfl⟩
    | succ n =>
      simp only [splitEcho] at h
      split at h
      · rename_i hle
        cases hs : splitEcho (n + 1 - d.length) r with
        | none => rw [hs] at h; simp at h
        | some x =>
          rw [hs] at h
          simp only [Option.map_some, Option.some.injEq, Prod.mk.injEq] at h
          obtain ⟨rfl, rfl⟩ := h
          obtain ⟨h1, h2⟩ := ih (n + 1 - d.length) x.1 x.2 (by rw [hs])
          refine ⟨by rw [h1]; rfl, ?_⟩
          simp only [outText, List.map_cons, List.flatten_cons, List.length_append] at h2 ⊢
          omega
      · simp at h

theorem coopBootB_sound {l : LnxCfg} {stages : List Stage} (h : coopBootB l stages = true) : CoopBoot l stages := by
  unfold coopBootB at h
  cases stages with
  | nil => simp at h
  | cons s rest =>
    simp only [Bool.and_eq_true] at h
    obtain ⟨h1, h2⟩ := h
    cases hs : splitEcho (bootLine.length + countNl bootLine) s.out with
    | none => rw [hs] at h2; simp at h2
    | some x =>
      rw [hs] at h2
      obtain ⟨eo, o2⟩ := x
      obtain ⟨h3, h4⟩ := splitEcho_sound s.out _ eo o2 hs
      exact ⟨s, rest, eo, o2, rfl, h1, h3, h4, coopLnxB_sound h2⟩

/-- `coopB` is sound for `Coop` -/
theorem coopB_sound (c : Board.Case) (h : coopB c = true) : Coop c := by
  unfold coopB at h
  unfold Coop
  cases hub : c.ub with
  | none =>
    cases hlnx : c.lnx with
    | none => rw [hub, hlnx] at h; simp at h
    | some l => rw [hub, hlnx] at h; exact coopLnxB_sound h
  | some u =>
    cases hlnx : c.lnx with
    | none => rw [hub, hlnx] at h; exact coopUbB_sound (fun _ _ => trivial) h
    | some l => rw [hub, hlnx] at h; exact coopUbB_sound (fun _ hk => coopBootB_sound hk) h

/-- **C18 for the model**: for every well-formed configuration and every console the monitor
    accepts the observation, and if the console is cooperative bring-up returned normally -/
theorem run_spec (c : Board.Case) (h : WfCase c) : Spec.C18 c (Board.run c) = true := by
  unfold Spec.C18
  rw [run_monitor c h, Bool.true_and]
  cases hc : coopB c with
  | false => rfl
  | true =>
    rw [coop_success c h (coopB_sound c hc)]
    rfl

theorem coop_spec (c : Board.Case) (h : WfCase c) (hco : Coop c) :
    Spec.C18 c (Board.run c) = true ∧ (Board.run c).res = none :=
  ⟨run_spec c h, coop_success c h hco⟩

end C18
