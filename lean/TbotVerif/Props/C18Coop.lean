import TbotVerif.Props.BoardProg
import TbotVerif.Props.C18
/-! C18 (c) — success: against a console that follows the protocol — at power-on and in answer
    to every write it shows output that completes what tbot waits for exactly at its end, with
    ARBITRARY fragmentation, ARBITRARY garbage in front of the prompts and ARBITRARY delays within
    the configured time-outs (for the U-Boot prompt: within one poll read) — bring-up returns. -/

namespace C18
open Board Chan Spec C06

/-! ### console output -/

def total (o : Out) : Nat := (o.map (·.1)).sum
def outText (o : Out) : Bytes := (o.map (·.2)).flatten

theorem flat_stamp : ∀ (o : Out) (now : Nat), flat (stamp now o) = outText o := by
  intro o
  induction o with
  | nil => intro now; rfl
  | cons p ps ih =>
    intro now
    obtain ⟨dt, d⟩ := p
    simp only [stamp, flat, List.map_cons, List.flatten_cons, outText]
    have := ih (now + dt)
    simp only [flat, outText] at this
    rw [this]

theorem stamp_ticks : ∀ (o : Out) (now : Nat), ∀ q ∈ stamp now o, now ≤ q.tick ∧ q.tick ≤ now + total o := by
  intro o
  induction o with
  | nil => intro now q hq; simp [stamp] at hq
  | cons p ps ih =>
    intro now q hq
    obtain ⟨dt, d⟩ := p
    simp only [stamp, List.mem_cons] at hq
    have htot : total ((dt, d) :: ps) = dt + total ps := by simp [total]
    rcases hq with rfl | hq
    · simp only; omega
    · have := ih (now + dt) q hq
      omega

theorem lastTick_mono_base : ∀ (sc : List Piece) (a : Nat), a ≤ lastTick a sc := by
  intro sc
  induction sc with
  | nil => intro a; exact Nat.le_refl _
  | cons p ps ih => intro a; rw [lastTick_cons]; exact Nat.le_trans (Nat.le_max_left _ _) (ih _)

theorem lastTick_stamp : ∀ (o : Out) (now : Nat), lastTick now (stamp now o) = now + total o := by
  intro o
  induction o with
  | nil => intro now; simp [stamp, total]
  | cons p ps ih =>
    intro now
    obtain ⟨dt, d⟩ := p
    have htot : total ((dt, d) :: ps) = dt + total ps := by simp [total]
    simp only [stamp, lastTick_cons]
    rw [Nat.max_eq_right (Nat.le_add_right _ _), ih, htot]
    omega

theorem stamp_append : ∀ (a b : Out) (now : Nat), stamp now (a ++ b) = stamp now a ++ stamp (now + total a) b := by
  intro a
  induction a with
  | nil => intro b now; simp [stamp, total]
  | cons p ps ih =>
    intro b now
    obtain ⟨dt, d⟩ := p
    have htot : total ((dt, d) :: ps) = dt + total ps := by simp [total]
    simp only [List.cons_append, stamp, ih, htot]
    rw [Nat.add_assoc]

theorem insertPiece_last (p : Piece) : ∀ sc : List Piece, (∀ q ∈ sc, q.tick ≤ p.tick) → insertPiece p sc = sc ++ [p] := by
  intro sc
  induction sc with
  | nil => intro _; rfl
  | cons x xs ih =>
    intro h
    unfold insertPiece
    rw [if_pos (h x (List.mem_cons_self ..)), ih fun q hq => h q (List.mem_cons_of_mem _ hq)]
    rfl

theorem insertAll_stamp : ∀ (o : Out) (now : Nat) (sc : List Piece), (∀ q ∈ sc, q.tick ≤ now) →
    insertAll (stamp now o) sc = sc ++ stamp now o := by
  intro o
  induction o with
  | nil => intro now sc _; simp [stamp, insertAll]
  | cons p ps ih =>
    intro now sc h
    obtain ⟨dt, d⟩ := p
    simp only [stamp, insertAll, List.foldl_cons]
    rw [insertPiece_last _ sc (fun q hq => by have := h q hq; show q.tick ≤ now + dt; omega)]
    have := ih (now + dt) (sc ++ [⟨now + dt, d⟩]) (by
      intro q hq
      rcases List.mem_append.mp hq with h1 | h1
      · have := h q h1; omega
      · simp only [List.mem_singleton] at h1; subst h1; exact Nat.le_refl _)
    unfold insertAll at this
    rw [this]
    simp

theorem insertAll_stamp_nil (o : Out) (now : Nat) : insertAll (stamp now o) [] = stamp now o := by
  rw [insertAll_stamp o now [] (by simp)]
  rfl

theorem stamp_wf (o : Out) (h : ∀ p ∈ o, p.2 ≠ []) : ∀ now, ∀ q ∈ stamp now o, q.data ≠ [] := by
  intro now q hq
  obtain ⟨p, hp, hd⟩ := stamp_mem q o now hq
  rw [hd]; exact h p hp


/-! ### the bring-up state between the console's answers -/

/-- the console has just been triggered (or powered): its answer `o` is on its way -/
structure PS (b : BS) (o : Out) : Prop where
  calm : Calm b.st
  accept : b.st.accept = []
  slow : b.st.slowDelay = none
  slice : b.st.slice = Params.sendSliceSize
  script : b.st.script = stamp b.st.now o

/-- `o` completes what `test` waits for exactly at its end -/
def Ends (test : Bytes → Bool) (o : Out) : Prop :=
  test (outText o) = true ∧ ∀ k, 0 < k → k < (outText o).length → test ((outText o).take k) = false

/-- the delay `d` is within the time-out `t` -/
def fits (d : Nat) : Option Nat → Prop
  | none => True
  | some r => d < r

theorem PS.of_same {b b' : BS} {o : Out} (h : PS b o) (hs : SameCfg b.st b'.st) (hwf : WF b'.st)
    (o' : Out) (hsc : b'.st.script = stamp b'.st.now o') : PS b' o' :=
  ⟨hs.calm h.calm hwf, by rw [hs.accept]; exact h.accept, by rw [hs.slowDelay]; exact h.slow,
   by rw [hs.slice]; exact h.slice, hsc⟩

theorem wf_nil {s : St} (h : s.script = []) : WF s := by
  unfold WF; rw [h]; simp

/-- a wait (`read_until_prompt` or `expect`, through the common loop) on the pending answer -/
theorem ps_wait {α : Type} (test : Bytes → Option α) (t : Option Nat) (s : St) (o : Out) (hc : Calm s)
    (hsc : s.script = stamp s.now o) (hne : o ≠ [])
    (hend : Ends (fun b => (test b).isSome) o) (hfit : fits (total o) t) :
    ∃ a s', waitLoop test (fuelFor s) [] (riStart none t s) s = (.ok (a, outText o), s') ∧ s'.script = []
      ∧ s'.now = s.now + total o ∧ SameCfg s s' := by
  have hflat : flat s.script = outText o := by rw [hsc, flat_stamp]
  have hscne : s.script ≠ [] := by
    rw [hsc]
    cases o with
    | nil => exact absurd rfl hne
    | cons p ps => obtain ⟨dt, d⟩ := p; simp [stamp]
  have htime : InTime (riStart none t s) s := by
    cases t with
    | none => exact Or.inl rfl
    | some T =>
      refine Or.inr ⟨T, rfl, ?_, ?_⟩
      · show s.now < s.now + T
        have : total o < T := hfit
        omega
      · intro q hq
        rw [hsc] at hq
        have := (stamp_ticks o s.now q hq).2
        have h2 : total o < T := hfit
        show q.tick < s.now + T
        omega
  obtain ⟨a, s', hres, hsc', hnow', hsame⟩ := waitLoop_progress test (fuelFor s) [] (riStart none t s) s rfl
    (by unfold fuelFor; omega) hc (Nat.le_refl _) htime hscne
    (by rw [List.nil_append, hflat]; exact hend.1)
    (by
      intro k hk hlt
      rw [hflat] at hlt ⊢
      have := hend.2 k hk hlt
      simp only [List.nil_append]
      cases h : test (List.take k (outText o)) with
      | none => rfl
      | some x => simp only [h] at this; simp at this)
  refine ⟨a, s', ?_, hsc', ?_, hsame⟩
  · rw [hres, List.nil_append, hflat]
  · rw [hnow', hsc, lastTick_stamp]

/-- `read_until_prompt` on the pending answer -/
theorem ps_rup (b : BS) (o : Out) (h : PS b o) (hne : o ≠ []) (p : Option Pat) (t : Option Nat) (P : Pat)
    (hP : effPrompt p b.st.prompt = some P) (hend : Ends (fun buf => (promptEnd P buf).isSome) o)
    (hfit : fits (total o) t) :
    ∃ v b', rd (readUntilPrompt p t) b = (.ok v, b') ∧ PS b' [] ∧ b'.st.now = b.st.now + total o ∧ b'.con = b.con
      ∧ SameCfg b.st b'.st := by
  generalize hs0 : ({ b.st with reads := [] } : St) = s0
  have hc0 : Calm s0 := by subst hs0; exact h.calm.cutReads
  have hsc0 : s0.script = stamp s0.now o := by subst hs0; exact h.script
  have hsame0 : SameCfg b.st s0 := by subst hs0; exact ⟨rfl, rfl, rfl, rfl, rfl, rfl, rfl, rfl, rfl⟩
  have hnow0 : s0.now = b.st.now := by subst hs0; rfl
  have key : ∃ v s', readUntilPrompt p t s0 = (.ok v, s') ∧ s'.script = [] ∧ s'.now = s0.now + total o ∧ SameCfg s0 s' := by
    unfold readUntilPrompt
    cases p with
    | none =>
      have hpr : s0.prompt = some P := by rw [hsame0.prompt]; simpa [effPrompt] using hP
      simp only
      rw [rupLoop_eq P _ _ _ _ hpr]
      obtain ⟨a, s', hres, hsc', hnow', hsame⟩ := ps_wait (promptEnd P) t s0 o hc0 hsc0 hne hend hfit
      rw [hres]
      exact ⟨_, s', rfl, hsc', hnow', hsame⟩
    | some p =>
      simp only [effPrompt, Option.some.injEq] at hP
      subst hP
      simp only
      generalize hs1 : ({ s0 with prompt := some (anchor p) } : St) = s1
      have hc1 : Calm s1 := by subst hs1; exact hc0.withPrompt _
      have hsc1 : s1.script = stamp s1.now o := by subst hs1; exact hsc0
      rw [rupLoop_eq (anchor p) _ _ _ _ (by subst hs1; rfl)]
      obtain ⟨a, s', hres, hsc', hnow', hsame⟩ := ps_wait (promptEnd (anchor p)) t s1 o hc1 hsc1 hne hend hfit
      rw [hres]
      refine ⟨_, _, rfl, hsc', ?_, ?_⟩
      · show s'.now = _; rw [hnow']; subst hs1; rfl
      · subst hs1
        exact ⟨hsame.chunk, hsame.slice, rfl, hsame.blacklist, hsame.accept, hsame.slowDelay, hsame.streams,
          hsame.logPrompt, hsame.deaths⟩
  obtain ⟨v, s', hres, hsc', hnow', hsame⟩ := key
  have hrd : rd (readUntilPrompt p t) b = (.ok v, { b with st := s', evs := b.evs ++ s'.reads.map .rd }) := by
    unfold rd
    simp only [hs0, hres]
  refine ⟨v, _, hrd, ?_, ?_, rfl, hsame0.trans hsame⟩
  · exact h.of_same (hsame0.trans hsame) (wf_nil hsc') [] (by show s'.script = _; rw [hsc']; rfl)
  · show s'.now = _; rw [hnow', hnow0]

/-- `expect` on the pending answer -/
theorem ps_expect (b : BS) (o : Out) (h : PS b o) (hne : o ≠ []) (pats : List Pat) (t : Option Nat)
    (hend : Ends (fun buf => (firstMatch buf 0 pats).isSome) o) (hfit : fits (total o) t) :
    ∃ v b', rd (expect pats t) b = (.ok v, b') ∧ PS b' [] ∧ b'.st.now = b.st.now + total o ∧ b'.con = b.con
      ∧ SameCfg b.st b'.st := by
  generalize hs0 : ({ b.st with reads := [] } : St) = s0
  have hc0 : Calm s0 := by subst hs0; exact h.calm.cutReads
  have hsc0 : s0.script = stamp s0.now o := by subst hs0; exact h.script
  have hsame0 : SameCfg b.st s0 := by subst hs0; exact ⟨rfl, rfl, rfl, rfl, rfl, rfl, rfl, rfl, rfl⟩
  have hnow0 : s0.now = b.st.now := by subst hs0; rfl
  obtain ⟨a, s', hres, hsc', hnow', hsame⟩ := ps_wait (fun buf => firstMatch buf 0 pats) t s0 o hc0 hsc0 hne hend hfit
  have hex : expect pats t s0 = (.ok { idx := a.1, s := a.2.1, e := a.2.2, buf := outText o }, s') := by
    unfold expect
    rw [expectLoop_eq, hres]
  have hrd : rd (expect pats t) b = (.ok { idx := a.1, s := a.2.1, e := a.2.2, buf := outText o },
      { b with st := s', evs := b.evs ++ s'.reads.map .rd }) := by
    unfold rd
    simp only [hs0, hex]
  refine ⟨_, _, hrd, ?_, ?_, rfl, hsame0.trans hsame⟩
  · exact h.of_same (hsame0.trans hsame) (wf_nil hsc') [] (by show s'.script = _; rw [hsc']; rfl)
  · show s'.now = _; rw [hnow', hnow0]


theorem wr_one (b : BS) (op : St → Res Unit) (buf : Bytes)
    (hop : op { b.st with writes := [] } = (.ok (), { b.st with writes := [(buf, buf.length)] })) :
    wr op b = (.ok (), { b with
      st := { b.st with writes := [(buf, buf.length)], script := (react b.st.now buf (b.st.script, b.con)).1 },
      con := (react b.st.now buf (b.st.script, b.con)).2, evs := b.evs ++ [.wr b.st.now buf] }) := by
  unfold wr
  simp only [hop, List.map_cons, List.map_nil, List.foldl_cons, List.foldl_nil]

/-- what the console does with a write when nothing is pending -/
def Answer (buf : Bytes) (con : List Stage) (b' : BS) : Prop :=
  match con with
  | [] => PS b' [] ∧ b'.con = []
  | st :: rest => if st.trig.fires buf = true then PS b' st.out ∧ b'.con = rest else PS b' [] ∧ b'.con = st :: rest

/-- one `send` (one slice, no read-back) while nothing is pending -/
theorem ps_send (b : BS) (h : PS b []) (hcon : ConOk b.con) (buf : Bytes) (ign : Bool) (hne : buf ≠ [])
    (hlen : buf.length ≤ Params.sendSliceSize) (hbl : ign = true ∨ forbidden b.st.blacklist buf = false) :
    ∃ b', wr (send buf false none ign) b = (.ok (), b') ∧ b'.st.now = b.st.now ∧ SameCfg b.st b'.st
      ∧ ConOk b'.con ∧ Answer buf b.con b' := by
  have hop : send buf false none ign { b.st with writes := [] } = (.ok (), { b.st with writes := [(buf, buf.length)] }) :=
    send_one buf ign { b.st with writes := [] } hne
      (by rw [show ({ b.st with writes := [] } : St).slice = b.st.slice from rfl, h.slice]; exact hlen)
      h.accept h.slow hbl
  have hsc : b.st.script = [] := h.script
  refine ⟨_, wr_one b _ buf hop, rfl, ⟨rfl, rfl, rfl, rfl, rfl, rfl, rfl, rfl, rfl⟩, ?_, ?_⟩
  · exact (react_ok b.st.now buf b.st.script b.con h.calm.wf hcon).2
  · rw [hsc]
    unfold Answer react
    cases hc : b.con with
    | nil =>
      exact ⟨⟨⟨wf_nil rfl, h.calm.chunk, h.calm.deaths, h.calm.lp⟩, h.accept, h.slow, h.slice, rfl⟩, rfl⟩
    | cons st rest =>
      simp only
      by_cases hf : st.trig.fires buf = true
      · rw [if_pos hf, if_pos hf]
        refine ⟨⟨⟨?_, h.calm.chunk, h.calm.deaths, h.calm.lp⟩, h.accept, h.slow, h.slice, ?_⟩, rfl⟩
        · intro q hq
          have hq : q ∈ insertAll (stamp b.st.now st.out) [] := hq
          rw [insertAll_stamp_nil] at hq
          exact stamp_wf st.out (hcon st (by rw [hc]; exact List.mem_cons_self ..)) _ q hq
        · show insertAll (stamp b.st.now st.out) [] = stamp b.st.now st.out
          exact insertAll_stamp_nil _ _
      · rw [if_neg hf, if_neg hf]
        exact ⟨⟨⟨wf_nil rfl, h.calm.chunk, h.calm.deaths, h.calm.lp⟩, h.accept, h.slow, h.slice, rfl⟩, rfl⟩

theorem rd_same {T : Option Nat} {t0 : Nat} {s s' : St} {recs : List ReadRec} (h : Rd T t0 s s' recs)
    (hd : s.deaths = []) : SameCfg s s' :=
  ⟨h.frame.chunk, h.frame.slice, h.frame.prompt, h.frame.blacklist, h.frame.accept, h.frame.slowDelay,
   h.frame.streams, h.frame.logPrompt, by rw [h.deaths, hd]⟩

/-- `read_until_timeout(T)` while nothing is pending: `T` later, still nothing -/
theorem ps_rut (b : BS) (h : PS b []) (T : Nat) :
    ∃ v b', rd (readUntilTimeout (some T)) b = (.ok v, b') ∧ PS b' [] ∧ b'.st.now = b.st.now + T ∧ b'.con = b.con
      ∧ SameCfg b.st b'.st := by
  obtain ⟨recs, v, hv, hrd, hnow⟩ := rut_out T { b.st with reads := [] } h.calm.cutReads
  have hsame0 : SameCfg b.st { b.st with reads := [] } := ⟨rfl, rfl, rfl, rfl, rfl, rfl, rfl, rfl, rfl⟩
  have hsame := rd_same hrd h.calm.deaths
  have hwf := hrd.frame.wf h.calm.cutReads.wf
  have hsc : (readUntilTimeout (some T) { b.st with reads := [] }).2.script = [] := by
    apply C02.script_nil_of_flat hwf
    have hfl := hrd.frame.flat
    have h0 : flat ({ b.st with reads := [] } : St).script = [] := by
      show flat b.st.script = []
      rw [h.script]; rfl
    rw [h0] at hfl
    exact (List.append_eq_nil_iff.mp hfl).2
  refine ⟨v, (rd (readUntilTimeout (some T)) b).2, ?_, ?_, hnow, rfl, hsame0.trans hsame⟩
  · exact Prod.ext hv rfl
  · exact h.of_same (hsame0.trans hsame) hwf [] (by
      show (readUntilTimeout (some T) { b.st with reads := [] }).2.script = _
      rw [hsc]; rfl)

/-- `read(n)` when the pending answer begins with pieces of exactly `n` bytes (the echo) -/
theorem ps_readn (b : BS) (eo o2 : Out) (h : PS b (eo ++ o2)) (n : Nat) (hn : (outText eo).length = n) (hpos : 0 < n) :
    ∃ v b', rd (read (some n) none) b = (.ok v, b') ∧ PS b' o2 ∧ b'.st.now = b.st.now + total eo ∧ b'.con = b.con
      ∧ SameCfg b.st b'.st := by
  have hsame0 : SameCfg b.st { b.st with reads := [] } := ⟨rfl, rfl, rfl, rfl, rfl, rfl, rfl, rfl, rfl⟩
  have hsc0 : ({ b.st with reads := [] } : St).script = stamp b.st.now eo ++ stamp (b.st.now + total eo) o2 := by
    show b.st.script = _
    rw [h.script, stamp_append]
  obtain ⟨v, s', hres, hsc', hnow', hsame⟩ := readn_progress n { b.st with reads := [] } h.calm.cutReads _ _ hsc0
    (by rw [flat_stamp]; exact hn) hpos
  have hnow2 : s'.now = b.st.now + total eo := by
    rw [hnow']
    show lastTick b.st.now (stamp b.st.now eo) = _
    exact lastTick_stamp eo b.st.now
  have hwf' : WF s' := by
    unfold WF
    rw [hsc']
    intro q hq
    exact h.calm.wf q (by rw [h.script, stamp_append]; exact List.mem_append_right _ hq)
  refine ⟨v, { b with st := s', evs := b.evs ++ s'.reads.map .rd }, ?_, ?_, hnow2, rfl, hsame0.trans hsame⟩
  · unfold rd
    simp only [hres]
  · exact h.of_same (hsame0.trans hsame) hwf' o2 (by show s'.script = stamp s'.now o2; rw [hsc', hnow2])

end C18
