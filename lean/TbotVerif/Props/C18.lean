import TbotVerif.Props.BoardUb
/-! C18 — board bring-up reaches the login-complete state for any console timing or times out
    duly.

    `run_monitor`: for EVERY well-formed configuration and EVERY console (any stages, any pieces,
    any delays — the console is not constrained at all) the observation of the model is accepted
    by the reference monitor of `Spec.C18`.  `Props/C18Cor.lean` spells out what the monitor's
    verdict means — (a) deadlines, (b) credentials, (d) bootlogs.  (c) — success against a
    cooperative console — and the full `run_spec` are in `Props/C18Coop.lean`. -/

namespace C18
open Board Chan Spec C06

/-- well-formed configurations: positive chunk size, non-empty console pieces, at least one
    machine, keys / user name / password that fit a send slice and pass the write black-list
    in force, and a virtual-time cap beyond `boot_timeout` + one poll period of the U-Boot loop -/
structure WfCase (c : Board.Case) : Prop where
  chunk : 0 < c.chunk
  init : ∀ p ∈ c.init, p.2 ≠ []
  stages : ConOk c.stages
  ub : ∀ u, c.ub = some u → UbOk u ∧ ∀ T', u.timeout = some T' → T' + poll ≤ c.cap
  lnx : ∀ l, c.lnx = some l → LnxOk l (if c.ub.isSome then Params.ubootBlacklist else [])
  some : c.ub.isSome ∨ c.lnx.isSome

theorem powerOn_calm (c : Board.Case) (h : WfCase c) : Calm (powerOn c).st := by
  refine ⟨?_, h.chunk, rfl, rfl⟩
  intro q hq
  have hq : q ∈ insertAll (stamp 0 c.init) [] := hq
  rcases insertAll_mem q _ _ hq with h1 | h1
  · obtain ⟨p, hp, hd⟩ := stamp_mem q _ _ h1
    rw [hd]; exact h.init p hp
  · simp at h1

theorem powerOn_inv (c : Board.Case) (h : WfCase c) (m : Mon) (hm : step c {} (.pon 0) = some m)
    (hu : m.ulog = []) (hl : m.llog = []) : Inv c (powerOn c) m :=
  { mon := by show steps c {} [.pon 0] = some m; simp only [steps, hm]
    calm := powerOn_calm c h, accept := rfl, slow := rfl, slice := rfl, con := h.stages
    ulog := by rw [hu]; rfl
    llog := by rw [hl]; rfl }

/-- **the bring-up ends in a state the monitor accepts**, whatever the console does -/
theorem bringup_final (c : Board.Case) (h : WfCase c) :
    ∃ m, Final c (bringup c (powerOn c)).2 m (errOf (bringup c (powerOn c)).1) := by
  unfold bringup
  cases hub : c.ub with
  | none =>
    cases hlnx : c.lnx with
    | none =>
      have := h.some
      rw [hub, hlnx] at this
      simp at this
    | some l =>
      dsimp only
      have hm : step c {} (.pon 0) = some (enterLnx l 0 {}) := by simp [step, hub, hlnx]
      have hinv := powerOn_inv c h _ hm rfl rfl
      have hok := h.lnx l hlnx
      rw [hub] at hok
      exact lnxUp_sim c l (powerOn c) _
        { inv := hinv, cfg := hlnx, ok := hok, streams := rfl, mstart := rfl, lastT := rfl
          dl := within_of_dead fun T' _ => Nat.le_add_right _ _, ublog := rfl, lnxSet := rfl, ge := Nat.le_refl _ }
        ⟨rfl, rfl, rfl⟩ rfl
  | some u =>
    obtain ⟨huok, hcap⟩ := h.ub u hub
    have hm : step c {} (.pon 0) = some { wait (if u.autoboot.isSome then .ubAuto else .ubLoop) 0 0 {} with
        start := 0, ubSet := u.autoboot.isNone } := by
      simp [step, hub]
    have hinv := powerOn_inv c h _ hm rfl rfl
    have hup := ubUp_sim c u (powerOn c) _
      { inv := hinv, cfg := hub, streams := rfl, mstart := rfl, lastT := rfl, lnxSet := rfl, lnxLog := rfl, ge := Nat.le_refl _ }
      huok (by intro T' hT; have := hcap T' hT; show 0 + T' + poll ≤ c.cap; omega) ⟨rfl, rfl, rfl⟩ rfl rfl rfl
    cases hlnx : c.lnx with
    | none =>
      dsimp only
      generalize ubUp u c.cap (powerOn c) = out at hup
      obtain ⟨r, b1⟩ := out
      cases r with
      | error e => exact hup
      | ok v =>
        obtain ⟨m1, hu1, hph1⟩ := hup
        refine ⟨m1, hu1.inv.mon, ?_, by rw [hu1.ubSet]; exact hu1.ubLog, by rw [hu1.lnxSet]; exact hu1.lnxLog⟩
        show accept c m1 b1.st.now none = true
        simp [accept, hlnx, hph1, hu1.lastT]
    | some l =>
      dsimp only
      have hok := h.lnx l hlnx
      rw [hub] at hok
      generalize ubUp u c.cap (powerOn c) = out at hup
      obtain ⟨r, b1⟩ := out
      cases r with
      | error e => exact hup
      | ok v =>
        obtain ⟨m1, hu1, hph1⟩ := hup
        dsimp only
        have hboot := ubBoot_sim c l b1 m1 hu1 hph1 hlnx hok
        generalize ubBoot b1 = out at hboot
        obtain ⟨r2, b2⟩ := out
        cases r2 with
        | error e => exact hboot
        | ok v2 =>
          obtain ⟨m2, hout2, hf2, hph2⟩ := hboot
          exact lnxUp_sim c l b2 m2 hout2 hf2 hph2

/-- **the monitor accepts the model's observation**: every well-formed case, every console -/
theorem run_monitor (c : Board.Case) (h : WfCase c) : Spec.monitorOk c (Board.run c) = true := by
  obtain ⟨m, hf⟩ := bringup_final c h
  unfold Spec.monitorOk Board.run
  generalize bringup c (powerOn c) = out at hf
  obtain ⟨r, b⟩ := out
  have hmon : steps c {} b.evs = some m := hf.mon
  have hacc : accept c m b.st.now (errOf r) = true := hf.acc
  have hu : b.ubLog = if m.ubSet then some m.ulog else none := hf.ublog
  have hl : b.lnxLog = if m.lnxSet then some m.llog else none := hf.lnxlog
  cases r with
  | ok v =>
    simp only [mark, List.getLast?_append, List.getLast?_singleton, Option.some_or, List.dropLast_concat, hmon]
    simp only [errOf] at hacc
    simp only [hacc, logsOk, hu, hl, beq_self_eq_true, Bool.and_self]
  | error e =>
    simp only [mark, List.getLast?_append, List.getLast?_singleton, Option.some_or, List.dropLast_concat, hmon]
    simp only [errOf] at hacc
    simp only [hacc, logsOk, hu, hl, beq_self_eq_true, Bool.and_self]

end C18
