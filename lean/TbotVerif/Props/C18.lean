import TbotVerif.Spec.Board
/-! C18 — board bring-up (theorems below). -/
