import TbotVerif.Props.C08Overlap
import TbotVerif.Props.C08Re
/-! C08 — byte-level theory of ONE attached stream.

    `SS` is the part of the channel state `writeStream` reads and writes; `split` is the pure
    function "fragment forwarded / new hold-back buffer" of one `_write_stream` call; `HB` is the
    invariant that links `R` (bytes read since attaching), `fw` (bytes forwarded since
    attaching) and the hold-back buffer. -/

namespace C08
open Chan

/-- the stream-relevant part of the channel state -/
structure SS where
  streams : List Nat
  logPrompt : Bool
  prompt : Option Pat
  streambuf : Bytes
  fwd : List (Nat × Bytes)

def ssOf (s : St) : SS := ⟨s.streams, s.logPrompt, s.prompt, s.streambuf, s.fwd⟩

/-- `Channel._write_stream` as a pure function of mode, prompt, hold-back buffer and new data:
    (fragment forwarded, new hold-back buffer) -/
def split (lp : Bool) (prompt : Option Pat) (sb buf : Bytes) : Bytes × Bytes :=
  match lp, prompt with
  | true, _ => (buf, sb)
  | false, none => (buf, sb)
  | false, some (.lit p) =>
    ((sb ++ buf).take ((sb ++ buf).length - ovl p (sb ++ buf)),
     (sb ++ buf).drop ((sb ++ buf).length - ovl p (sb ++ buf)))
  | false, some (.re r) =>
    (if r.maxWidth = 0 then [] else (sb ++ buf).take ((sb ++ buf).length - r.maxWidth),
     if r.maxWidth = 0 then sb ++ buf else (sb ++ buf).drop ((sb ++ buf).length - r.maxWidth))

namespace SS

def write (buf : Bytes) (x : SS) : SS :=
  if x.streams.isEmpty then x else
  { x with fwd := x.fwd ++ x.streams.map (fun id => (id, (split x.logPrompt x.prompt x.streambuf buf).1)),
           streambuf := (split x.logPrompt x.prompt x.streambuf buf).2 }

/-- all chunks of a sequence of deliveries, in order -/
def writes (ds : List Bytes) (x : SS) : SS := ds.foldl (fun x b => x.write b) x

@[simp] theorem writes_nil (x : SS) : x.writes [] = x := rfl
@[simp] theorem writes_cons (d : Bytes) (ds : List Bytes) (x : SS) : x.writes (d :: ds) = (x.write d).writes ds := rfl
theorem writes_append (a b : List Bytes) (x : SS) : x.writes (a ++ b) = (x.writes a).writes b := by
  simp [writes, List.foldl_append]

theorem write_streams (b : Bytes) (x : SS) : (x.write b).streams = x.streams := by
  unfold write; split <;> rfl
theorem write_logPrompt (b : Bytes) (x : SS) : (x.write b).logPrompt = x.logPrompt := by
  unfold write; split <;> rfl
theorem write_prompt (b : Bytes) (x : SS) : (x.write b).prompt = x.prompt := by
  unfold write; split <;> rfl

/-- nothing is attached: nothing happens (in particular nothing is forwarded after detaching) -/
theorem write_closed (b : Bytes) (x : SS) (h : x.streams = []) : x.write b = x := by
  unfold write; simp [h]

theorem writes_closed (ds : List Bytes) (x : SS) (h : x.streams = []) : x.writes ds = x := by
  induction ds with
  | nil => rfl
  | cons d ds ih => rw [writes_cons, write_closed d x h, ih]

/-- exactly one stream attached -/
theorem write_one (b : Bytes) (x : SS) (id : Nat) (h : x.streams = [id]) :
    x.write b = { x with fwd := x.fwd ++ [(id, (split x.logPrompt x.prompt x.streambuf b).1)],
                         streambuf := (split x.logPrompt x.prompt x.streambuf b).2 } := by
  unfold write; simp [h]

end SS

theorem ssOf_writeStream (b : Bytes) (s : St) : ssOf (writeStream b s) = (ssOf s).write b := by
  unfold writeStream SS.write
  by_cases he : s.streams.isEmpty = true
  · simp only [he, if_true, ssOf]
  · have he' : (ssOf s).streams.isEmpty = false := by simpa [ssOf] using he
    simp only [he, he', if_false, Bool.false_eq_true]
    cases hlp : s.logPrompt with
    | true => simp [ssOf, split, emit, hlp]
    | false =>
      cases hp : s.prompt with
      | none => simp [ssOf, split, emit, hlp, hp]
      | some pat =>
        cases pat with
        | lit p => simp [ssOf, split, emit, hlp, hp, ovl]
        | re r => simp [ssOf, split, emit, hlp, hp]

/-! ### the hold-back invariant -/

/-- `R` = bytes read since attaching, `fw` = bytes forwarded since attaching, `sb` = hold-back
    buffer.  Always `R = fw ++ sb`; what is held back depends on mode and prompt. -/
def HB (lp : Bool) (prompt : Option Pat) (fw sb R : Bytes) : Prop :=
  R = fw ++ sb ∧
  match lp, prompt with
  | true, _ => sb = []
  | false, none => sb = []
  | false, some (.lit p) => sb.length = ovl p R
  | false, some (.re r) => fw = [] ∨ (0 < r.maxWidth ∧ r.maxWidth ≤ sb.length)

/-- at attach time (hold-back buffer empty) -/
theorem HB_init (lp : Bool) (prompt : Option Pat) : HB lp prompt [] [] [] := by
  refine ⟨rfl, ?_⟩
  cases lp with
  | true => rfl
  | false =>
    cases prompt with
    | none => rfl
    | some pat =>
      cases pat with
      | lit p => simp [ovl, overlap]
      | re r => exact Or.inl rfl

theorem HB.eq {lp prompt fw sb R} (h : HB lp prompt fw sb R) : R = fw ++ sb := h.1

/-- (a) forwarded is always a prefix of what was read -/
theorem HB.prefix {lp prompt fw sb R} (h : HB lp prompt fw sb R) : fw <+: R := ⟨sb, h.1.symm⟩

/-- with suppression off the prompt does not matter -/
theorem HB.show_any {p p' : Option Pat} {fw sb R} (h : HB true p fw sb R) : HB true p' fw sb R := h

theorem HB.sb_nil_of_show {p : Option Pat} {fw sb R} (h : HB true p fw sb R) : sb = [] := h.2

/-- (b) everything is forwarded when suppression is off or no prompt is set -/
theorem HB.all_of_show {p : Option Pat} {fw sb R} (h : HB true p fw sb R) : fw = R := by
  have := h.2; simp only at this; rw [h.1, this, List.append_nil]

theorem HB.all_of_noprompt {lp fw sb R} (h : HB lp none fw sb R) : fw = R ∧ sb = [] := by
  have h2 : sb = [] := by cases lp <;> exact h.2
  exact ⟨by rw [h.1, h2, List.append_nil], h2⟩

/-- (c) literal prompt: the hold-back buffer is the longest suffix of `R` that is a prefix of `p` -/
theorem HB.lit_len {p fw sb R} (h : HB false (some (.lit p)) fw sb R) : sb.length = ovl p R := h.2

theorem HB.lit_longest {p fw sb R} (h : HB false (some (.lit p)) fw sb R) :
    R = fw ++ sb ∧ sb <:+ R ∧ sb <+: p ∧ ∀ t, t <:+ R → t <+: p → t.length ≤ sb.length := by
  have hs : sb <:+ R := ⟨fw, h.1.symm⟩
  have hsb : sb = lastN (ovl p R) R := by rw [← h.lit_len]; exact eq_lastN_of_suffix hs
  have hl := ovl_longest p R
  refine ⟨h.1, hs, ?_, ?_⟩
  · rw [hsb]; exact hl.1.2.1
  · intro t h1 h2; rw [h.lit_len]; exact hl.2 t h1 h2

/-- (d) when `R` ends with the prompt the stream holds exactly `R` without the prompt -/
theorem HB.lit_at_prompt {p fw sb R} (h : HB false (some (.lit p)) fw sb R) (hend : p <:+ R) :
    fw ++ p = R ∧ sb = p ∧ fw = R.take (R.length - p.length) := by
  have hlen : sb.length = p.length := by rw [h.lit_len, ovl_of_suffix p R hend]
  obtain ⟨u, hu⟩ := hend
  have heq : fw ++ sb = u ++ p := by rw [← h.1, hu]
  have hfl : fw.length = u.length := by
    have := congrArg List.length heq
    simp only [List.length_append] at this; omega
  have h1 := List.append_inj heq hfl
  refine ⟨by rw [h1.1, hu], h1.2, ?_⟩
  rw [← hu, h1.1]
  simp

theorem HB.lit_sb_le {p fw sb R} (h : HB false (some (.lit p)) fw sb R) : sb.length ≤ p.length := by
  rw [h.lit_len]; exact ovl_le_prompt p R

/-- **one delivery keeps the invariant** -/
theorem HB_step (lp : Bool) (prompt : Option Pat) (fw sb R buf : Bytes) (h : HB lp prompt fw sb R) :
    HB lp prompt (fw ++ (split lp prompt sb buf).1) (split lp prompt sb buf).2 (R ++ buf) := by
  obtain ⟨heq, hlaw⟩ := h
  cases lp with
  | true =>
    simp only at hlaw
    subst hlaw
    exact ⟨by simp [split, heq], rfl⟩
  | false =>
    cases prompt with
    | none =>
      simp only at hlaw
      subst hlaw
      exact ⟨by simp [split, heq], rfl⟩
    | some pat =>
      cases pat with
      | lit p =>
        simp only at hlaw
        have hk : ovl p (sb ++ buf) = ovl p (R ++ buf) := by
          rw [heq]; exact ovl_ext p fw sb buf (by rw [← heq]; exact hlaw)
        have hkle : ovl p (sb ++ buf) ≤ (sb ++ buf).length := ovl_le_buf p (sb ++ buf)
        refine ⟨?_, ?_⟩
        · simp only [split]
          rw [List.append_assoc fw, List.take_append_drop, heq, List.append_assoc]
        · simp only [split, List.length_drop]
          rw [← hk]; omega
      | re r =>
        simp only at hlaw
        by_cases hw : r.maxWidth = 0
        · refine ⟨by simp [split, hw, heq], ?_⟩
          simp only [split, hw, if_true]
          rcases hlaw with h | h
          · left; simp [h]
          · omega
        · refine ⟨?_, ?_⟩
          · simp only [split, hw, if_false]
            rw [List.append_assoc fw, List.take_append_drop, heq, List.append_assoc]
          · simp only [split, hw, if_false, List.length_drop]
            by_cases hfw : fw = []
            · by_cases hx : (sb ++ buf).length ≤ r.maxWidth
              · left
                have : (sb ++ buf).length - r.maxWidth = 0 := by omega
                rw [hfw, this, List.take_zero]; rfl
              · right; omega
            · right
              rcases hlaw with h | h
              · exact absurd h hfw
              · have : sb.length ≤ (sb ++ buf).length := by simp
                omega

/-- **any sequence of deliveries to the one attached stream keeps the invariant**; what is
    appended to the forwarded log goes to that stream only -/
theorem HB_writes (id : Nat) : ∀ (ds : List Bytes) (x : SS) (fw R : Bytes), x.streams = [id] →
    HB x.logPrompt x.prompt fw x.streambuf R →
    ∃ g : List (Nat × Bytes), (x.writes ds).fwd = x.fwd ++ g ∧ (∀ e ∈ g, e.1 = id)
      ∧ HB x.logPrompt x.prompt (fw ++ (g.map (·.2)).flatten) (x.writes ds).streambuf (R ++ ds.flatten)
      ∧ (x.writes ds).streams = x.streams ∧ (x.writes ds).logPrompt = x.logPrompt
      ∧ (x.writes ds).prompt = x.prompt := by
  intro ds
  induction ds with
  | nil =>
    intro x fw R _ h
    exact ⟨[], by simp, by simp, by simpa using h, rfl, rfl, rfl⟩
  | cons d ds ih =>
    intro x fw R hs h
    have hstep := HB_step x.logPrompt x.prompt fw x.streambuf R d h
    have hw := SS.write_one d x id hs
    have hs' : (x.write d).streams = [id] := by rw [SS.write_streams]; exact hs
    have hlp : (x.write d).logPrompt = x.logPrompt := SS.write_logPrompt d x
    have hp : (x.write d).prompt = x.prompt := SS.write_prompt d x
    have hsb : (x.write d).streambuf = (split x.logPrompt x.prompt x.streambuf d).2 := by rw [hw]
    have hfwd : (x.write d).fwd = x.fwd ++ [(id, (split x.logPrompt x.prompt x.streambuf d).1)] := by rw [hw]
    obtain ⟨g, hg1, hg2, hg3, hg4, hg5, hg6⟩ := ih (x.write d) (fw ++ (split x.logPrompt x.prompt x.streambuf d).1)
      (R ++ d) hs' (by rw [hlp, hp, hsb]; exact hstep)
    refine ⟨(id, (split x.logPrompt x.prompt x.streambuf d).1) :: g, ?_, ?_, ?_, ?_, ?_, ?_⟩
    · rw [SS.writes_cons, hg1, hfwd]; simp
    · intro e he
      rcases List.mem_cons.mp he with rfl | he
      · rfl
      · exact hg2 e he
    · rw [SS.writes_cons]
      rw [hlp, hp] at hg3
      simpa [List.append_assoc] using hg3
    · rw [SS.writes_cons, hg4, hs', hs]
    · rw [SS.writes_cons, hg5, hlp]
    · rw [SS.writes_cons, hg6, hp]

/-! ### detaching -/

/-- the bytes of a forwarded-log segment -/
def bytesOf (g : List (Nat × Bytes)) : Bytes := (g.map (·.2)).flatten

/-- **(e) `with_stream` exit leaves the hold-back buffer empty** (whatever the mode: nothing leaks
    into a later attachment) -/
theorem exitKeep_nil (s : St) (fw R : Bytes) (h : HB s.logPrompt s.prompt fw s.streambuf R) :
    exitKeep s = [] := by
  unfold exitKeep
  cases hlp : s.logPrompt with
  | true => rw [hlp] at h; exact h.sb_nil_of_show
  | false =>
    rw [hlp] at h
    cases hp : s.prompt with
    | none => rw [hp] at h; exact h.all_of_noprompt.2
    | some pat =>
      rw [hp] at h
      cases pat with
      | lit p => exact List.drop_eq_nil_of_le h.lit_sb_le
      | re r => rfl

/-- what the exit flush sends goes to the attached stream only; it is empty unless a regex
    prompt is suppressed -/
theorem exitFlush_ids (s : St) (id : Nat) (hs : s.streams = [id]) : ∀ e ∈ exitFlush s, e.1 = id := by
  unfold exitFlush
  intro e he
  split at he
  · split at he
    · simp at he
    · split at he
      · simp only [hs, List.map_cons, List.map_nil, List.mem_singleton] at he
        rw [he]
      · simp at he
  · simp at he

theorem exitFlush_nil_of_not_re (s : St) (h : s.logPrompt = true ∨ ∀ r, s.prompt ≠ some (.re r)) :
    exitFlush s = [] := by
  unfold exitFlush
  split
  · rename_i r hlp hp
    rcases h with h | h
    · rw [h] at hlp; simp at hlp
    · exact absurd hp (h r)
  · rfl

/-- the exit flush forwards a prefix of the hold-back buffer -/
theorem exitFlush_prefix (s : St) (id : Nat) (hs : s.streams = [id]) :
    bytesOf (exitFlush s) <+: s.streambuf := by
  unfold exitFlush bytesOf
  split
  · split
    · simp
    · split
      · simp only [hs, List.map_cons, List.map_nil, List.flatten_cons, List.flatten_nil, List.append_nil]
        exact List.take_prefix _ _
      · simp
  · simp

theorem bytesOf_exitFlush_re (s : St) (id : Nat) (r : Re) (hs : s.streams = [id])
    (hlp : s.logPrompt = false) (hp : s.prompt = some (.re r)) (a e : Nat)
    (hm : r.search s.streambuf = some (a, e)) : bytesOf (exitFlush s) = s.streambuf.take a := by
  unfold exitFlush bytesOf
  simp only [hlp, hp, hm, hs]
  split
  · rename_i hemp
    have : s.streambuf = [] := by simpa using hemp
    simp [this]
  · simp

/-- **(f) regex prompt**: if the anchored prompt matches the held-back bytes at offset `a`, the
    stream has received exactly `R` up to the match after the exit flush; and this is the first
    match of the prompt in all of `R` -/
theorem exit_regex (s : St) (id : Nat) (r : Re) (fw R : Bytes) (hs : s.streams = [id])
    (hlp : s.logPrompt = false) (hp : s.prompt = some (.re (.seq r .eos)))
    (h : HB false (some (.re (.seq r .eos))) fw s.streambuf R) :
    (∀ a e, Re.search (.seq r .eos) s.streambuf = some (a, e) →
        fw ++ bytesOf (exitFlush s) = R.take (fw.length + a))
    ∧ (∀ n e, Re.search (.seq r .eos) R = some (n, e) → fw ++ bytesOf (exitFlush s) = R.take n) := by
  have first : ∀ a e, Re.search (.seq r .eos) s.streambuf = some (a, e) →
      fw ++ bytesOf (exitFlush s) = R.take (fw.length + a) := by
    intro a e hm
    rw [bytesOf_exitFlush_re s id _ hs hlp hp a e hm, h.1, List.take_append,
      List.take_of_length_le (Nat.le_add_right _ _)]
    congr 2; omega
  refine ⟨first, ?_⟩
  intro n e hn
  have hw : fw = [] ∨ (Re.seq r .eos).maxWidth ≤ s.streambuf.length := by
    rcases h.2 with h' | h'
    · exact Or.inl h'
    · exact Or.inr h'.2
  rw [h.1, Re.search_heldback r fw s.streambuf hw] at hn
  cases hm : Re.search (.seq r .eos) s.streambuf with
  | none => rw [hm] at hn; simp at hn
  | some v =>
    obtain ⟨a, e'⟩ := v
    rw [hm] at hn
    simp only [Option.map_some, Option.some.injEq, Prod.mk.injEq] at hn
    rw [first a e' hm, ← hn.1, Nat.add_comm]

end C08
