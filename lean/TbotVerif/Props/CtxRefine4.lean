import TbotVerif.Props.CtxRefine3
set_option linter.unusedSimpArgs false
set_option linter.unusedVariables false
/-! Lock-step simulation: programs. -/
namespace Ctx
open Ref (RSt RR Handle RMgr)

theorem Rel.setFlags {s : St} {r : RSt} (h : Rel s r) (ka roe : Bool) :
    Rel { s with keepAlive := ka, roeDefault := roe } { r with keepAlive := ka, roeDefault := roe } := by
  constructor <;> simp <;> rel_scalars h
  · exact h.inst
  · exact h.holders
  · exact h.latch
  · exact h.built

theorem Rel.openCtxInc {s : St} {r : RSt} (h : Rel s r) :
    Rel { s with openCtx := s.openCtx + 1 } { r with openCtx := r.openCtx + 1 } := by
  constructor <;> simp <;> rel_scalars h
  · exact h.inst
  · exact h.holders
  · exact h.latch
  · exact h.built
  all_goals rw [h.openCtx]

theorem logLeave_sim {a : R} {b : RR} (h : RelR a b) : RelR (logLeave a) (Ref.logLeave b) := by
  unfold logLeave Ref.logLeave
  rw [← h.2]
  cases he : a.2 with
  | some e => exact ⟨h.1.log _, rfl⟩
  | none => exact ⟨h.1, by simp [← h.2, he]⟩

section
variable (cfg : Cfg)

theorem reconfExit_sim (hwf : cfg.depsBelow) (ka0 roe0 : Bool) (ka : Option Bool) {s : St} {r : RSt}
    (h : Inv [] s) (hr : Rel s r) :
    RelR (reconfExit cfg ka0 roe0 ka s) (Ref.reconfExit cfg ka0 roe0 ka r) := by
  unfold reconfExit Ref.reconfExit
  simp only
  have hx : Ext s { s with keepAlive := ka0, roeDefault := roe0 } :=
    ⟨rfl, rfl, rfl, rfl, rfl, [], by simp, by simp⟩
  have hr' := hr.setFlags ka0 roe0
  split
  · have hl : ({ r with keepAlive := ka0, roeDefault := roe0 } : RSt).order.reverse =
        ({ s with keepAlive := ka0, roeDefault := roe0 } : St).order.reverse := by
      simp [hr.order]
    generalize ({ r with keepAlive := ka0, roeDefault := roe0 } : RSt).order.reverse = csR at hl ⊢
    subst hl
    exact tdLoop_sim (ops_spec cfg hwf cfg.n).1 (ops_sim cfg hwf cfg.n).1
      (fun s c => s.alive c && (s.mgr c).users == 0) (fun s c => s.alive c && (s.mgr c).holders == 0)
      (fun s r c hr => by
        have : (r.mgr c).holders = (s.mgr c).users := hr.holders c
        simp [hr.alive, this]) _ _ _ none (h.ext hx) hr'
  · exact ⟨hr', rfl⟩

mutual
theorem exec_sim (hwf : cfg.depsBelow) : ∀ (p : Stmt) (s : St) (r : RSt), Inv [] s → Rel s r →
    RelR (exec cfg p s) (Ref.exec cfg p r)
  | .req c reset excl roe body, s, r, h, hr => by
    rw [exec, Ref.exec]
    have hre := (ops_spec cfg hwf cfg.n).2.2 [] false c reset excl roe s h (by simp)
    have sre := (ops_sim cfg hwf cfg.n).2.2 [] false c reset excl roe s r h hr (by simp)
    generalize (ops cfg cfg.n).reqEnter false c reset excl roe s = a at hre sre ⊢
    generalize (Ref.ops cfg cfg.n).request false c reset excl roe r = q at sre ⊢
    obtain ⟨s1, res⟩ := a
    obtain ⟨q1, resq⟩ := q
    cases res with
    | inr e =>
      cases resq with
      | inl _ => exact absurd sre.2 (by simp [ResRel])
      | inr e' =>
        have : e = e' := sre.2
        subst this
        exact ⟨sre.1.log _, rfl⟩
    | inl f =>
      cases resq with
      | inr _ => exact absurd sre.2 (by simp [ResRel])
      | inl hq =>
        have : hq = eraseF f := sre.2
        subst this
        simp only
        obtain ⟨hfo, hfh, hfc, _⟩ := hre.2.2 f rfl
        simp only at hfo hfh hre sre
        have hb := execBlock_inv cfg hwf body s1 hre.1
        have sb := execBlock_sim hwf body s1 q1 hre.1 sre.1
        generalize execBlock cfg body s1 = rb at hb sb ⊢
        generalize Ref.execBlock cfg body q1 = qb at sb ⊢
        have hp : Pend [f] rb.1 := (Pend.single hfo hfh).tr hb.2.tr hre.1.idLt (by simp)
        have srx := (ops_sim cfg hwf cfg.n).2.1 [] f rb.1 qb.1 rb.2 hb.1 sb.1 (by simp)
          (hp.isOpen f (by simp)) (hp.notHeld f (by simp))
        rw [← sb.2]
        exact logLeave_sim srx
  | .ctx body, s, r, h, hr => by
    rw [exec, Ref.exec]
    have hx1 : Ext s ({ (s.log .ctxEnter) with openCtx := (s.log .ctxEnter).openCtx + 1 } : St) :=
      ⟨rfl, rfl, rfl, rfl, rfl, [.ctxEnter], by simp [Ev.quiet], by simp [St.log]⟩
    have r1 : Rel ({ (s.log .ctxEnter) with openCtx := (s.log .ctxEnter).openCtx + 1 } : St)
        ({ (r.log .ctxEnter) with openCtx := (r.log .ctxEnter).openCtx + 1 } : RSt) :=
      (hr.log .ctxEnter).openCtxInc
    have hb := execBlock_inv cfg hwf body _ (h.ext hx1)
    have sb := execBlock_sim hwf body _ _ (h.ext hx1) r1
    generalize execBlock cfg body ({ (s.log .ctxEnter) with openCtx := (s.log .ctxEnter).openCtx + 1 } : St) = rb at hb sb ⊢
    generalize Ref.execBlock cfg body ({ (r.log .ctxEnter) with openCtx := (r.log .ctxEnter).openCtx + 1 } : RSt) = qb at sb ⊢
    have hx2 : Ext rb.1 (rb.1.log .ctxBody) := ext_log (by simp [Ev.quiet])
    have sc := ctxExit_sim cfg hwf (hb.1.ext hx2) (sb.1.log .ctxBody)
    generalize ctxExit cfg (rb.1.log .ctxBody) = r2 at sc ⊢
    generalize Ref.ctxExit cfg (qb.1.log .ctxBody) = q2 at sc ⊢
    apply logLeave_sim
    exact ⟨sc.1.log _, by simp [sb.2, sc.2]⟩
  | .reconf ka roe body, s, r, h, hr => by
    rw [exec, Ref.exec]
    simp only [hr.keepAlive, hr.roeDefault]
    have hx1 : Ext s ({ s with keepAlive := ka.getD s.keepAlive, roeDefault := roe.getD s.roeDefault } : St) :=
      ⟨rfl, rfl, rfl, rfl, rfl, [], by simp, by simp⟩
    have r1 := hr.setFlags (ka.getD s.keepAlive) (roe.getD s.roeDefault)
    have hb := execBlock_inv cfg hwf body _ (h.ext hx1)
    have sb := execBlock_sim hwf body _ _ (h.ext hx1) r1
    generalize execBlock cfg body ({ s with keepAlive := ka.getD s.keepAlive, roeDefault := roe.getD s.roeDefault } : St) = rb at hb sb ⊢
    generalize Ref.execBlock cfg body ({ r with keepAlive := ka.getD s.keepAlive, roeDefault := roe.getD s.roeDefault } : RSt) = qb at sb ⊢
    have sc := reconfExit_sim cfg hwf s.keepAlive s.roeDefault ka hb.1 sb.1
    generalize reconfExit cfg s.keepAlive s.roeDefault ka rb.1 = r2 at sc ⊢
    generalize Ref.reconfExit cfg s.keepAlive s.roeDefault ka qb.1 = q2 at sc ⊢
    apply logLeave_sim
    exact ⟨sc.1, by simp [sb.2, sc.2]⟩
  | .try_ body, s, r, h, hr => by
    rw [exec, Ref.exec]
    have sb := execBlock_sim hwf body s r h hr
    generalize execBlock cfg body s = rb at sb ⊢
    generalize Ref.execBlock cfg body r = qb at sb ⊢
    rw [← sb.2]
    cases he : rb.2 with
    | some e => exact ⟨sb.1.log _, rfl⟩
    | none => exact ⟨sb.1, by simp [← sb.2, he]⟩
  | .raise, s, r, h, hr => by
    rw [exec, Ref.exec]
    have := hr.newExc .body
    rw [← this.2]
    exact ⟨this.1.log _, rfl⟩
  | .skip, s, r, h, hr => by
    rw [exec, Ref.exec]
    have := hr.newExc .skip
    rw [← this.2]
    exact ⟨this.1.log _, rfl⟩
  | .td c, s, r, h, hr => by
    rw [exec, Ref.exec, hr.alive]
    split
    · have std := (ops_sim cfg hwf cfg.n).1 [] c s r h hr (by simp)
      simp only
      generalize (ops cfg cfg.n).teardown c s = a at std ⊢
      generalize (Ref.ops cfg cfg.n).teardown c r = q at std ⊢
      rw [← std.2]
      cases he : a.2 with
      | some e => exact ⟨std.1.log _, rfl⟩
      | none => exact ⟨std.1.log _, rfl⟩
    · exact ⟨hr.log _, rfl⟩

theorem execBlock_sim (hwf : cfg.depsBelow) : ∀ (b : Block) (s : St) (r : RSt), Inv [] s → Rel s r →
    RelR (execBlock cfg b s) (Ref.execBlock cfg b r)
  | .nil, s, r, h, hr => by
    rw [execBlock, Ref.execBlock]
    exact ⟨hr, rfl⟩
  | .cons p rest, s, r, h, hr => by
    rw [execBlock, Ref.execBlock]
    have h1 := exec_inv cfg hwf p s h
    have s1 := exec_sim hwf p s r h hr
    generalize exec cfg p s = a at h1 s1 ⊢
    generalize Ref.exec cfg p r = q at s1 ⊢
    rw [← s1.2]
    cases he : a.2 with
    | some e => exact ⟨s1.1, rfl⟩
    | none => exact execBlock_sim hwf rest a.1 q.1 h1.1 s1.1
end

end

end Ctx
