import TbotVerif.Props.BoardSim
/-! C18 (c) — progress of the channel methods on a script that is known: what is consumed,
    when the call returns.  Used for "bring-up succeeds against a cooperative console". -/

namespace Board
open Chan Spec C06

/-- the configuration part of the channel state is unchanged -/
structure SameCfg (s s' : St) : Prop where
  chunk : s'.chunk = s.chunk
  slice : s'.slice = s.slice
  prompt : s'.prompt = s.prompt
  blacklist : s'.blacklist = s.blacklist
  accept : s'.accept = s.accept
  slowDelay : s'.slowDelay = s.slowDelay
  streams : s'.streams = s.streams
  logPrompt : s'.logPrompt = s.logPrompt
  deaths : s'.deaths = s.deaths

theorem SameCfg.refl (s : St) : SameCfg s s := ⟨rfl, rfl, rfl, rfl, rfl, rfl, rfl, rfl, rfl⟩

theorem SameCfg.trans {a b c : St} (h1 : SameCfg a b) (h2 : SameCfg b c) : SameCfg a c :=
  ⟨h2.chunk.trans h1.chunk, h2.slice.trans h1.slice, h2.prompt.trans h1.prompt, h2.blacklist.trans h1.blacklist,
   h2.accept.trans h1.accept, h2.slowDelay.trans h1.slowDelay, h2.streams.trans h1.streams,
   h2.logPrompt.trans h1.logPrompt, h2.deaths.trans h1.deaths⟩

/-- the time at which the last piece of a script has arrived -/
def lastTick (now : Nat) (sc : List Piece) : Nat := sc.foldl (fun a q => max a q.tick) now

@[simp] theorem lastTick_nil (now : Nat) : lastTick now [] = now := rfl
theorem lastTick_cons (now : Nat) (p : Piece) (ps : List Piece) : lastTick now (p :: ps) = lastTick (max now p.tick) ps := rfl

/-- the overall timeout cannot expire while the script is being read -/
def InTime (ri : RI) (s : St) : Prop :=
  ri.timeout = none ∨ ∃ T, ri.timeout = some T ∧ s.now < ri.t0 + T ∧ ∀ q ∈ s.script, q.tick < ri.t0 + T

theorem ioRead_head (n : Nat) (t : Option Nat) (s : St) (pc : Piece) (ps : List Piece) (hs : s.script = pc :: ps)
    (ht : t = none ∨ ∃ T, t = some T ∧ pc.tick ≤ s.now + T) :
    ioRead n t s = ioDeliver n t s (max s.now pc.tick) pc ps := by
  unfold ioRead
  rw [hs]
  simp only
  by_cases h : pc.tick ≤ s.now
  · rw [if_pos h, Nat.max_eq_left h]
  · rw [if_neg h]
    have hm : max s.now pc.tick = pc.tick := Nat.max_eq_right (by omega)
    rw [hm]
    rcases ht with rfl | ⟨T, rfl, hle⟩
    · rfl
    · simp only [if_pos hle]

/-- one resumption of `read_iter` on a non-empty script with time left: the head piece, cut to
    the request size, is delivered when it arrives -/
theorem riNext_head (ri : RI) (s : St) (hc : Calm s) (hle : ri.t0 ≤ s.now) (htime : InTime ri s)
    (hnd : ¬ (ri.started = true ∧ ri.max = some ri.got))
    (pc : Piece) (ps : List Piece) (hs : s.script = pc :: ps) :
    ∃ s2, riNext ri s = (.chunk (takeHead (ri.maxRead s.chunk) pc ps).1,
        { ri with got := ri.got + (takeHead (ri.maxRead s.chunk) pc ps).1.length, started := true }, s2)
      ∧ s2.script = (takeHead (ri.maxRead s.chunk) pc ps).2 ∧ s2.now = max s.now pc.tick ∧ SameCfg s s2 := by
  obtain ⟨rem, hrem, hremok⟩ : ∃ rem, remaining ri.timeout ri.t0 s.now = some rem
      ∧ (rem = none ∨ ∃ T, rem = some T ∧ pc.tick ≤ s.now + T) := by
    rcases htime with h | ⟨T, hT, hnow, hall⟩
    · exact ⟨none, by rw [h]; rfl, Or.inl rfl⟩
    · refine ⟨some (T - (s.now - ri.t0)), ?_, Or.inr ⟨_, rfl, ?_⟩⟩
      · rw [hT]
        unfold remaining
        simp only
        rw [if_neg (by omega)]
      · have := hall pc (by rw [hs]; exact List.mem_cons_self ..)
        omega
  have hio := ioRead_head (ri.maxRead s.chunk) rem s pc ps hs hremok
  have hcond : (ri.started && ri.max == some ri.got) = false := by
    cases hst : ri.started with
    | false => rfl
    | true =>
      simp only [Bool.true_and, beq_eq_false_iff_ne, ne_eq]
      intro hm
      exact hnd ⟨hst, hm⟩
  unfold riNext
  rw [hcond]
  simp only [Bool.false_eq_true, if_false, hrem, hio, ioDeliver]
  rw [check_nodeaths _ _ (by rw [C06.writeStream_deaths]; exact hc.deaths)]
  refine ⟨_, rfl, ?_, ?_, ?_⟩
  · rw [(writeStream_side _ _).script]
  · rw [(writeStream_side _ _).now]
  · refine ⟨?_, ?_, ?_, ?_, ?_, ?_, ?_, ?_, ?_⟩
    · rw [(writeStream_side _ _).chunk]
    · rw [(writeStream_side _ _).slice]
    · rw [(writeStream_side _ _).prompt]
    · rw [(writeStream_side _ _).blacklist]
    · rw [(writeStream_side _ _).accept]
    · rw [(writeStream_side _ _).slowDelay]
    · rw [(writeStream_side _ _).streams]
    · rw [(writeStream_side _ _).logPrompt]
    · rw [C06.writeStream_deaths]


theorem SameCfg.calm {s s' : St} (h : SameCfg s s') (hc : Calm s) (hwf : WF s') : Calm s' :=
  ⟨hwf, by rw [h.chunk]; exact hc.chunk, by rw [h.deaths]; exact hc.deaths, by rw [h.logPrompt]; exact hc.lp⟩

theorem takeHead_ticks (n : Nat) (pc : Piece) (ps : List Piece) :
    ∀ q ∈ (takeHead n pc ps).2, q.tick = pc.tick ∨ q ∈ ps := by
  intro q hq
  unfold takeHead at hq
  split at hq
  · exact Or.inr hq
  · rcases List.mem_cons.mp hq with rfl | hq
    · exact Or.inl rfl
    · exact Or.inr hq

theorem takeHead_lastTick (n : Nat) (now : Nat) (pc : Piece) (ps : List Piece) :
    lastTick (max now pc.tick) (takeHead n pc ps).2 = lastTick now (pc :: ps) := by
  unfold takeHead
  split
  · rfl
  · simp only [lastTick_cons]
    congr 1
    omega

/-- a wait on a script that passes the test exactly when it has been read completely: all of it
    is consumed, the call returns when the last piece arrives -/
theorem waitLoop_progress {α : Type} (test : Bytes → Option α) : ∀ (f : Nat) (buf : Bytes) (ri : RI) (s : St),
    ri.max = none → bytesLeft s < f → Calm s → ri.t0 ≤ s.now → InTime ri s → s.script ≠ [] →
    (test (buf ++ flat s.script)).isSome = true →
    (∀ k, 0 < k → k < (flat s.script).length → test (buf ++ (flat s.script).take k) = none) →
    ∃ a s', waitLoop test f buf ri s = (.ok (a, buf ++ flat s.script), s') ∧ s'.script = []
      ∧ s'.now = lastTick s.now s.script ∧ SameCfg s s' := by
  intro f
  induction f with
  | zero => intro buf ri s _ hf; omega
  | succ f ih =>
    intro buf ri s hmax hf hc hle htime hne hend honly
    obtain ⟨pc, ps, hs⟩ : ∃ pc ps, s.script = pc :: ps := by
      cases h : s.script with
      | nil => exact absurd h hne
      | cons pc ps => exact ⟨pc, ps, rfl⟩
    obtain ⟨s2, hnext, hsc2, hnow2, hsame2⟩ := riNext_head ri s hc hle htime (by rw [hmax]; simp) pc ps hs
    have hmr : ri.maxRead s.chunk = s.chunk := maxRead_none ri s.chunk hmax
    rw [hmr] at hnext hsc2
    have hth := takeHead_spec s.chunk pc ps
    have hwfs : ∀ q ∈ pc :: ps, q.data ≠ [] := by rw [← hs]; exact hc.wf
    have hbne : (takeHead s.chunk pc ps).1 ≠ [] := hth.2.2.1 (hwfs pc (List.mem_cons_self ..)) hc.chunk
    have hwf2 : WF s2 := by unfold WF; rw [hsc2]; exact hth.2.2.2 hwfs
    have hc2 := hsame2.calm hc hwf2
    have hflat : (takeHead s.chunk pc ps).1 ++ flat s2.script = flat s.script := by
      rw [hsc2, hs]; simpa [flat] using hth.1
    generalize hb : (takeHead s.chunk pc ps).1 = b at hnext hbne hflat
    unfold waitLoop
    rw [hnext]
    simp only
    by_cases hrest : s2.script = []
    · -- everything has been read
      have hall : b = flat s.script := by rw [← hflat, hrest]; simp [flat]
      rw [hall]
      cases ht : test (buf ++ flat s.script) with
      | none => rw [ht] at hend; simp at hend
      | some a =>
        simp only
        refine ⟨a, s2, rfl, hrest, ?_, hsame2⟩
        rw [hnow2, hs, ← takeHead_lastTick s.chunk, ← hsc2, hrest]
        rfl
    · have hfl : flat s2.script ≠ [] := fun h => hrest (C02.script_nil_of_flat hwf2 h)
      have hlen : b.length < (flat s.script).length := by
        rw [← hflat, List.length_append]
        have := List.length_pos_iff.mpr hfl
        omega
      have hblen : 0 < b.length := List.length_pos_iff.mpr hbne
      have htk : (flat s.script).take b.length = b := by rw [← hflat, List.take_left']; rfl
      have hnone := honly b.length hblen hlen
      rw [htk] at hnone
      rw [hnone]
      simp only
      have hbytes : bytesLeft s2 < f := by
        rw [bytesLeft_eq] at hf ⊢
        have := congrArg List.length hflat
        simp only [List.length_append] at this
        omega
      have htime2 : InTime { ri with got := ri.got + b.length, started := true } s2 := by
        rcases htime with h | ⟨T, hT, hnow, hall⟩
        · exact Or.inl h
        · refine Or.inr ⟨T, hT, ?_, ?_⟩
          · rw [hnow2]
            have := hall pc (by rw [hs]; exact List.mem_cons_self ..)
            show max s.now pc.tick < ri.t0 + T
            omega
          · intro q hq
            rw [hsc2] at hq
            rcases takeHead_ticks _ _ _ q hq with h | h
            · rw [h]; exact hall pc (by rw [hs]; exact List.mem_cons_self ..)
            · exact hall q (by rw [hs]; exact List.mem_cons_of_mem _ h)
      obtain ⟨a, s', hres, hsc', hnow', hsame'⟩ := ih (buf ++ b) { ri with got := ri.got + b.length, started := true } s2
        hmax hbytes hc2 (by show ri.t0 ≤ s2.now; rw [hnow2]; omega) htime2 hrest
        (by rw [List.append_assoc, hflat]; exact hend)
        (by
          intro k hk hklt
          have := honly (b.length + k) (by omega) (by
            rw [← hflat, List.length_append]; omega)
          rw [← hflat, List.take_length_add_append] at this
          rw [List.append_assoc]
          exact this)
      refine ⟨a, s', ?_, hsc', ?_, hsame2.trans hsame'⟩
      · rw [hres, List.append_assoc, hflat]
      · rw [hnow', hnow2, hs, ← takeHead_lastTick s.chunk, ← hsc2]


theorem takeHead_append (n : Nat) (pc : Piece) (ps rest : List Piece) :
    takeHead n pc (ps ++ rest) = ((takeHead n pc ps).1, (takeHead n pc ps).2 ++ rest) := by
  unfold takeHead
  split <;> rfl

theorem flat_append (a b : List Piece) : flat (a ++ b) = flat a ++ flat b := by
  simp [flat]

/-- `read_iter(max=n)` pulled to exhaustion when the next `n` bytes are exactly the pieces `ep`:
    they are consumed, the rest of the script is untouched -/
theorem riTake_progress (n : Nat) (rest : List Piece) : ∀ (f : Nat) (ri : RI) (s : St) (acc : List Bytes) (ep : List Piece),
    ri.max = some n → ri.timeout = none → ri.t0 ≤ s.now → Calm s → s.script = ep ++ rest →
    ri.got + (flat ep).length = n → (ri.started = true ∨ ri.got < n) → (flat ep).length < f →
    ∃ cs s', riTake f none ri s acc = ((acc ++ cs, none), s') ∧ cs.flatten = flat ep ∧ s'.script = rest
      ∧ s'.now = lastTick s.now ep ∧ SameCfg s s' := by
  intro f
  induction f with
  | zero => intro ri s acc ep _ _ _ _ _ _ _ hf; omega
  | succ f ih =>
    intro ri s acc ep hmax htmo hle hc hs hgot hst hf
    unfold riTake
    simp only [show (none : Option Nat) ≠ some 0 from by simp, if_false]
    cases ep with
    | nil =>
      -- nothing left to read: the iterator is exhausted
      simp only [flat, List.map_nil, List.flatten_nil, List.length_nil, Nat.add_zero] at hgot
      have hstarted : ri.started = true := by
        rcases hst with h | h
        · exact h
        · omega
      have : riNext ri s = (.done, ri, s) := by
        unfold riNext
        simp [hstarted, hmax, hgot]
      rw [this]
      exact ⟨[], s, by simp, rfl, by simpa using hs, rfl, SameCfg.refl s⟩
    | cons pc ep' =>
      have hwfs : ∀ q ∈ s.script, q.data ≠ [] := hc.wf
      have hpcne : pc.data ≠ [] := hwfs pc (by rw [hs]; exact List.mem_cons_self ..)
      have hpclen : 0 < pc.data.length := List.length_pos_iff.mpr hpcne
      have hflat_ep : (flat (pc :: ep')).length = pc.data.length + (flat ep').length := by
        simp [flat]
      have hlt : ri.got < n := by omega
      obtain ⟨s2, hnext, hsc2, hnow2, hsame2⟩ := riNext_head ri s hc hle (Or.inl htmo)
        (by rw [hmax]; intro h; have := h.2; simp at this; omega) pc (ep' ++ rest) (by rw [hs]; rfl)
      have hmr : ri.maxRead s.chunk = min s.chunk (n - ri.got) := by unfold RI.maxRead; rw [hmax]
      rw [takeHead_append] at hnext hsc2
      simp only at hnext hsc2
      have hth := takeHead_spec (ri.maxRead s.chunk) pc ep'
      generalize hb : (takeHead (ri.maxRead s.chunk) pc ep').1 = b at hnext hth
      generalize hep2 : (takeHead (ri.maxRead s.chunk) pc ep').2 = ep2 at hsc2 hth
      have hbne : b ≠ [] := hth.2.2.1 hpcne (by rw [hmr]; have := hc.chunk; omega)
      have hblen : 0 < b.length := List.length_pos_iff.mpr hbne
      have hble : b.length ≤ n - ri.got := by have := hth.2.1; rw [hmr] at this; omega
      have hflat2 : b ++ flat ep2 = flat (pc :: ep') := by
        have := hth.1
        simpa [flat] using this
      have hlen2 : b.length + (flat ep2).length = (flat (pc :: ep')).length := by
        rw [← hflat2, List.length_append]
      rw [hnext]
      simp only [Option.map_none]
      have hwf2 : WF s2 := by
        unfold WF
        rw [hsc2]
        intro q hq
        rcases List.mem_append.mp hq with h | h
        · exact hth.2.2.2 (fun x hx => hwfs x (by rw [hs]; exact List.mem_append_left _ hx)) q h
        · exact hwfs q (by rw [hs]; exact List.mem_append_right _ h)
      obtain ⟨cs, s', hres, hcs, hsc', hnow', hsame'⟩ := ih { ri with got := ri.got + b.length, started := true } s2
        (acc ++ [b]) ep2 hmax htmo (by show ri.t0 ≤ s2.now; rw [hnow2]; omega) (hsame2.calm hc hwf2) hsc2
        (by show ri.got + b.length + (flat ep2).length = n; omega) (Or.inl rfl) (by omega)
      refine ⟨b :: cs, s', ?_, ?_, hsc', ?_, hsame2.trans hsame'⟩
      · rw [hres]; simp
      · rw [List.flatten_cons, hcs, hflat2]
      · rw [hnow', hnow2, ← hep2, takeHead_lastTick]

/-- `read(n)` without a timeout when the next `n` bytes are exactly the pieces `ep` -/
theorem readn_progress (n : Nat) (s : St) (hc : Calm s) (ep rest : List Piece) (hs : s.script = ep ++ rest)
    (hn : (flat ep).length = n) (hpos : 0 < n) :
    ∃ v s', read (some n) none s = (.ok v, s') ∧ s'.script = rest ∧ s'.now = lastTick s.now ep ∧ SameCfg s s' := by
  have hfuel : (flat ep).length < fuelFor s := by
    unfold fuelFor
    rw [Chan.bytesLeft_eq, hs, flat_append, List.length_append]
    omega
  obtain ⟨cs, s', hres, hcs, hsc', hnow', hsame'⟩ := riTake_progress n rest (fuelFor s) (riStart (some n) none s) s [] ep
    rfl rfl (Nat.le_refl _) hc hs (by show 0 + (flat ep).length = n; omega) (Or.inr (by show 0 < n; exact hpos)) hfuel
  unfold Chan.read
  simp only
  rw [hres]
  simp only [List.nil_append]
  have hlen : (cs.flatten.length == n) = true := by rw [hcs, hn]; simp
  rw [if_pos hlen]
  exact ⟨_, s', rfl, hsc', hnow', hsame'⟩

end Board
