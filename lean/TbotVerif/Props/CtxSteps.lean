import TbotVerif.Props.CtxInv
set_option linter.unusedSimpArgs false
set_option linter.unusedVariables false
/-! Atomic steps of the context model (as explicit state updates) preserve the invariant. -/
namespace Ctx

/-- the machine `o` of class `c` has gone down and its manager's ExitStack has been emptied
    (`teardown`: `_rc = 1`, pop the generator, `cls(...).__exit__`) -/
def St.downed (s : St) (c o : Nat) : St :=
  { s with objs := fun k => if k = o then { cls := c, rc := 0, up := false } else s.objs k
           mgrs := fun k => if k = c then { s.mgrs c with held := [] } else s.mgrs k
           trace := .down c o :: s.trace }

theorem Inv.downed {B : List Nat} {s : St} (h : Inv B s) {c o : Nat}
    (hi : (s.mgrs c).inst = some o) (hc : c ∉ B) : Inv (c :: B) (s.downed c o) := by
  have ⟨ho, hcls⟩ := h.instWf c o hi
  have ⟨hup, hrc⟩ := h.instLive c o hi hc
  constructor
  all_goals simp only [St.downed]
  · intro o' ho'
    have := h.objDefault o' ho'
    grind
  · intro c1 o1
    have := h.upsIff c1 o1
    have := h.upsIff c o
    simp only [ups_down, List.mem_filter]
    grind
  · simpa using h.seen
  · simpa [condInit] using h.tI1
  · simpa [condFresh] using h.tFresh
  · have := (h.upsIff c o).mpr ⟨ho, hcls, hup⟩
    simpa [condDown, this] using h.tDown
  · simpa [condYield] using h.tYield
  · intro f hf
    have := h.frameWf f hf
    grind
  · exact h.idsNodup
  · intro k f hf
    have := h.heldOpen k f
    grind
  · intro k k' f h1 h2
    have := h.heldDisj k k' f
    grind
  · intro k
    have := h.heldNodup k
    grind
  · intro o1 h1
    have := h.upInst o1
    grind
  · intro k o1 h1
    have := h.instWf k o1
    grind
  · intro k o1 h1 h2
    have := h.instLive k o1
    have := h.instWf k o1
    grind
  · intro k o1 h1 h2
    have := h.instBusy k o1
    have := h.instWf k o1
    grind
  · intro o1 h1 h2
    have := h.deadRc o1
    grind
  · intro k hk
    have := h.busyHeld k
    grind
  · intro k hk
    have := h.deadHeld k
    grind
  · intro k
    have := h.users k
    grind

/-- `finally: self._instance = None` -/
def St.cleared (s : St) (c : Nat) : St :=
  { s with mgrs := fun k => if k = c then { s.mgrs c with inst := none } else s.mgrs k }

theorem Inv.cleared {B : List Nat} {s : St} {c : Nat} (h : Inv (c :: B) s) : Inv B (s.cleared c) := by
  have hb := h.busyHeld c (by simp)
  have h' : Inv (c :: B) (s.cleared c) := by
    constructor
    all_goals simp only [St.cleared]
    · exact h.objDefault
    · exact h.upsIff
    · exact h.seen
    · exact h.tI1
    · exact h.tFresh
    · exact h.tDown
    · exact h.tYield
    · exact h.frameWf
    · exact h.idsNodup
    · intro k f hf
      have := h.heldOpen k f
      grind
    · intro k k' f h1 h2
      have := h.heldDisj k k' f
      grind
    · intro k
      have := h.heldNodup k
      grind
    · intro o1 h1
      have := h.upInst o1 h1
      grind
    · intro k o1 h1
      have := h.instWf k o1
      grind
    · intro k o1 h1 h2
      have := h.instLive k o1
      grind
    · intro k o1 h1 h2
      have := h.instBusy k o1
      grind
    · intro o1 h1 h2
      have := h.deadRc o1 h1
      have := h.instBusy c o1
      have := h.instWf c o1
      grind
    · intro k hk
      have := h.busyHeld k hk
      grind
    · intro k hk
      have := h.deadHeld k
      grind
    · intro k
      have := h.users k
      grind
  exact h'.unbusy (by simp [St.cleared])

/-- a request frame is left: `Machine.__exit__` (`_rc -= 1`), the generator object is gone,
    `_current_users -= 1` -/
def St.frameOut (s : St) (f : Frame) : St :=
  { s with objs := fun k => if k = f.obj then { s.objs f.obj with rc := (s.objs f.obj).rc - 1 } else s.objs k
           open_ := dropId f s.open_
           mgrs := fun k => if k = f.cls then { s.mgrs f.cls with users := (s.mgrs f.cls).users - 1 } else s.mgrs k }

/-- leaving an open frame never brings `_rc` to 0 -/
theorem Inv.frame_rc {B : List Nat} {s : St} (h : Inv B s) {f : Frame} (hf : f ∈ s.open_)
    (hB : f.cls ∉ B) : (s.objs f.obj).rc - 1 ≠ 0 := by
  obtain ⟨ho, hcls, _⟩ := h.frameWf f hf
  by_cases hi : (s.mgrs f.cls).inst = some f.obj
  · have ⟨_, hrc⟩ := h.instLive f.cls f.obj hi hB
    have : 1 ≤ cntObj f.obj s.open_ := by
      unfold cntObj
      apply List.length_pos_of_mem (a := f)
      simp [List.mem_filter, hf]
    omega
  · have := h.deadRc f.obj ho (by rw [hcls]; exact hi)
    omega

theorem Inv.frameOut {B : List Nat} {s : St} (h : Inv B s) {f : Frame} (hf : f ∈ s.open_)
    (hh : ∀ k, f ∉ (s.mgrs k).held) (hB : f.cls ∉ B) : Inv B (s.frameOut f) := by
  obtain ⟨ho, hcls, hid⟩ := h.frameWf f hf
  have hcO := fun o => cntObj_dropId h.idsNodup hf o
  have hcC := fun c => cntCls_dropId h.idsNodup hf c
  constructor
  all_goals simp only [St.frameOut]
  · intro o' ho'
    have := h.objDefault o' ho'
    grind
  · intro c1 o1
    have := h.upsIff c1 o1
    grind
  · exact h.seen
  · exact h.tI1
  · exact h.tFresh
  · exact h.tDown
  · exact h.tYield
  · intro g hg
    have hg' := (mem_dropId.mp hg).1
    have := h.frameWf g hg'
    grind
  · exact h.idsNodup.dropId f
  · intro k g hg
    have hne : g ≠ f := by
      intro heq
      have := hh k
      grind
    have hop := h.heldOpen k g
    have hgo : g ∈ s.open_ := by grind
    have hidne : g.id ≠ f.id := fun hidq => hne (h.idsNodup.eq_of_id hgo hf hidq)
    refine ⟨mem_dropId.mpr ⟨hgo, hidne⟩, ?_⟩
    grind
  · intro k k' g h1 h2
    have := h.heldDisj k k' g
    grind
  · intro k
    have := h.heldNodup k
    grind
  · intro o1 h1
    have := h.upInst o1
    grind
  · intro k o1 h1
    have := h.instWf k o1
    grind
  · intro k o1 h1 h2
    have := h.instLive k o1
    have := h.instWf k o1
    have := hcO o1
    grind
  · intro k o1 h1 h2
    have := h.instBusy k o1
    have := h.instWf k o1
    grind
  · intro o1 h1 h2
    have := h.deadRc o1
    grind
  · intro k hk
    have := h.busyHeld k
    grind
  · intro k hk
    have := h.deadHeld k
    grind
  · intro k
    have := h.users k
    have := hcC k
    grind

/-- `self._available = …` -/
def St.setAvail (s : St) (c : Nat) (b : Bool) : St :=
  { s with mgrs := fun k => if k = c then { s.mgrs c with avail := b } else s.mgrs k }

theorem Inv.setAvail {B : List Nat} {s : St} (h : Inv B s) (c : Nat) (b : Bool) :
    Inv B (s.setAvail c b) := by
  constructor
  all_goals simp only [St.setAvail]
  · exact h.objDefault
  · exact h.upsIff
  · exact h.seen
  · exact h.tI1
  · exact h.tFresh
  · exact h.tDown
  · exact h.tYield
  · exact h.frameWf
  · exact h.idsNodup
  · intro k f hf
    have := h.heldOpen k f
    grind
  · intro k k' f h1 h2
    have := h.heldDisj k k' f
    grind
  · intro k
    have := h.heldNodup k
    grind
  · intro o1 h1
    have := h.upInst o1 h1
    grind
  · intro k o1 h1
    have := h.instWf k o1
    grind
  · intro k o1 h1 h2
    have := h.instLive k o1
    grind
  · intro k o1 h1 h2
    have := h.instBusy k o1
    grind
  · intro o1 h1 h2
    have := h.deadRc o1 h1
    grind
  · intro k hk
    have := h.busyHeld k hk
    grind
  · intro k hk
    have := h.deadHeld k
    grind
  · intro k
    have := h.users k
    grind

/-- a request frame is entered: `_current_users += 1`, `_available`, the generator object exists,
    `Machine.__enter__` (`_rc += 1`) -/
def St.frameIn (s : St) (fr : Frame) (av : Bool) : St :=
  { s with mgrs := fun k => if k = fr.cls then { s.mgrs fr.cls with users := (s.mgrs fr.cls).users + 1, avail := av } else s.mgrs k
           nFrame := s.nFrame + 1
           open_ := s.open_ ++ [fr]
           objs := fun k => if k = fr.obj then { s.objs fr.obj with rc := (s.objs fr.obj).rc + 1 } else s.objs k }

theorem Inv.frameIn {B : List Nat} {s : St} (h : Inv B s) {fr : Frame} (av : Bool)
    (hi : (s.mgrs fr.cls).inst = some fr.obj) (hc : fr.cls ∉ B) (hid : fr.id = s.nFrame) :
    Inv B (s.frameIn fr av) := by
  obtain ⟨ho, hcls⟩ := h.instWf _ _ hi
  have hcO := fun o => cntObj_append o s.open_ fr
  have hcC := fun c => cntCls_append c s.open_ fr
  have hnew : ∀ g ∈ s.open_, g.id ≠ fr.id := by
    intro g hg
    have := (h.frameWf g hg).2.2
    omega
  constructor
  all_goals simp only [St.frameIn]
  · intro o' ho'
    have := h.objDefault o' ho'
    grind
  · intro c1 o1
    have := h.upsIff c1 o1
    grind
  · exact h.seen
  · exact h.tI1
  · exact h.tFresh
  · exact h.tDown
  · exact h.tYield
  · intro g hg
    rcases List.mem_append.mp hg with hg | hg
    · have := h.frameWf g hg
      grind
    · simp at hg
      subst hg
      grind
  · exact h.idsNodup.append_new fr hnew
  · intro k g hg
    have := h.heldOpen k g
    grind
  · intro k k' g h1 h2
    have := h.heldDisj k k' g
    grind
  · intro k
    have := h.heldNodup k
    grind
  · intro o1 h1
    have := h.upInst o1
    grind
  · intro k o1 h1
    have := h.instWf k o1
    grind
  · intro k o1 h1 h2
    have := h.instLive k o1
    have := h.instWf k o1
    have := hcO o1
    grind
  · intro k o1 h1 h2
    have := h.instBusy k o1
    have := h.instWf k o1
    have := h.instLive k o1
    grind
  · intro o1 h1 h2
    have := h.deadRc o1
    grind
  · intro k hk
    have := h.busyHeld k
    grind
  · intro k hk
    have := h.deadHeld k
    grind
  · intro k
    have := h.users k
    have := hcC k
    grind

/-- the instance of a class that is not busy is yielded -/
theorem Inv.logYielded {B : List Nat} {s : St} (h : Inv B s) {c o : Nat} (d : Bool)
    (hi : (s.mgrs c).inst = some o) (hc : c ∉ B) :
    Inv B { s with trace := .yielded d c o :: s.trace } := by
  obtain ⟨ho, hcls⟩ := h.instWf _ _ hi
  obtain ⟨hup, _⟩ := h.instLive _ _ hi hc
  have hm := (h.upsIff c o).mpr ⟨ho, hcls, hup⟩
  refine { h with upsIff := ?_, seen := ?_, tI1 := ?_, tFresh := ?_, tDown := ?_, tYield := ?_ }
  · simpa using h.upsIff
  · simpa using h.seen
  · simpa [condInit] using h.tI1
  · simpa [condFresh] using h.tFresh
  · simpa [condDown] using h.tDown
  · simpa [condYield, hm] using h.tYield

/-- frames that are open but not (yet) held by any manager: the dependency requests a
    `from_context` has entered so far / is about to leave -/
structure Pend (L : List Frame) (s : St) : Prop where
  nodup : L.Nodup
  isOpen : ∀ f ∈ L, f ∈ s.open_
  notHeld : ∀ f ∈ L, ∀ k, f ∉ (s.mgrs k).held

/-- `from_context` succeeded: a new machine object is up and becomes the instance; the generator
    keeps the dependency requests `L` -/
def St.created (s : St) (c : Nat) (L : List Frame) : St :=
  { s with nObj := s.nObj + 1
           objs := fun k => if k = s.nObj then { cls := c, rc := 1, up := true } else s.objs k
           trace := .init c s.nObj :: s.trace
           mgrs := fun k => if k = c then { s.mgrs c with inst := some s.nObj, held := L } else s.mgrs k }

theorem Inv.created {B : List Nat} {s : St} {c : Nat} (h : Inv (c :: B) s) {L : List Frame}
    (hi : (s.mgrs c).inst = none) (hcB : c ∉ B) (hp : Pend L s) (hl : ∀ f ∈ L, f.cls < c) :
    Inv B (s.created c L) := by
  have hnoUp : ∀ o1, (s.objs o1).up = true → (s.objs o1).cls ≠ c := by
    intro o1 h1 h2
    exact (h.upInst o1 h1).2 (by simp [h2])
  have hclsUp : classUp s.trace c = false := by
    rw [Bool.eq_false_iff]
    intro hcu
    obtain ⟨o1, hm⟩ := (classUp_iff _ _).mp hcu
    obtain ⟨_, h2, h3⟩ := (h.upsIff c o1).mp hm
    exact hnoUp o1 h3 h2
  have hfresh : ∀ g ∈ s.open_, g.obj ≠ s.nObj := by
    intro g hg
    have := (h.frameWf g hg).1
    omega
  have hcnt : cntObj s.nObj s.open_ = 0 := by
    unfold cntObj
    rw [List.length_eq_zero_iff, List.filter_eq_nil_iff]
    intro g hg
    simpa using hfresh g hg
  constructor
  all_goals simp only [St.created]
  · intro o' ho'
    have := h.objDefault o' (by omega)
    grind
  · intro c1 o1
    have := h.upsIff c1 o1
    have := h.objDefault s.nObj (Nat.le_refl _)
    simp only [ups_init, List.mem_cons, Prod.mk.injEq]
    grind
  · simpa using h.seen
  · simpa [condInit, hclsUp] using h.tI1
  · simpa [condFresh, h.seen] using h.tFresh
  · simpa [condDown] using h.tDown
  · simpa [condYield] using h.tYield
  · intro g hg
    have := h.frameWf g hg
    grind
  · exact h.idsNodup
  · intro k g hg
    have := h.heldOpen k g
    have := hp.isOpen g
    have := hl g
    grind
  · intro k k' g h1 h2
    have := h.heldDisj k k' g
    have := hp.notHeld g
    grind
  · intro k
    have := h.heldNodup k
    have := hp.nodup
    grind
  · intro o1 h1
    have := h.upInst o1
    have := h.objDefault s.nObj (Nat.le_refl _)
    grind
  · intro k o1 h1
    have := h.instWf k o1
    grind
  · intro k o1 h1 h2
    have := h.instLive k o1
    have := h.instWf k o1
    grind
  · intro k o1 h1 h2
    have := h.instBusy k o1
    have := h.instWf k o1
    grind
  · intro o1 h1 h2
    have := h.deadRc o1
    have := h.objDefault s.nObj (Nat.le_refl _)
    grind
  · intro k hk
    have := h.busyHeld k
    grind
  · intro k hk
    have := h.deadHeld k
    grind
  · intro k
    have := h.users k
    grind

/-- `from_context` failed in the machine's own initialisation: the new object went up and down -/
def St.failedInit (s : St) (c : Nat) (e : Exc) : St :=
  { s with nObj := s.nObj + 1
           objs := fun k => if k = s.nObj then { cls := c, rc := 0, up := false } else s.objs k
           trace := .down c s.nObj :: .created e :: .init c s.nObj :: s.trace }

theorem Inv.failedInit {B : List Nat} {s : St} {c : Nat} (h : Inv (c :: B) s) (e : Exc) :
    Inv (c :: B) (s.failedInit c e) := by
  have hnoUp : ∀ o1, (s.objs o1).up = true → (s.objs o1).cls ≠ c := by
    intro o1 h1 h2
    exact (h.upInst o1 h1).2 (by simp [h2])
  have hclsUp : classUp s.trace c = false := by
    rw [Bool.eq_false_iff]
    intro hcu
    obtain ⟨o1, hm⟩ := (classUp_iff _ _).mp hcu
    obtain ⟨_, h2, h3⟩ := (h.upsIff c o1).mp hm
    exact hnoUp o1 h3 h2
  constructor
  all_goals simp only [St.failedInit]
  · intro o' ho'
    have := h.objDefault o' (by omega)
    grind
  · intro c1 o1
    have := h.upsIff c1 o1
    have := h.objDefault s.nObj (Nat.le_refl _)
    simp only [ups_down, ups_created, ups_init, List.mem_filter, List.mem_cons, Prod.mk.injEq]
    grind
  · simpa using h.seen
  · simpa [condInit, hclsUp] using h.tI1
  · simpa [condFresh, h.seen] using h.tFresh
  · simpa [condDown] using h.tDown
  · simpa [condYield] using h.tYield
  · intro g hg
    have := h.frameWf g hg
    grind
  · exact h.idsNodup
  · exact h.heldOpen
  · exact h.heldDisj
  · exact h.heldNodup
  · intro o1 h1
    have := h.upInst o1
    grind
  · intro k o1 h1
    have := h.instWf k o1
    grind
  · intro k o1 h1 h2
    have := h.instLive k o1
    have := h.instWf k o1
    grind
  · intro k o1 h1 h2
    have := h.instBusy k o1
    have := h.instWf k o1
    grind
  · intro o1 h1 h2
    have := h.deadRc o1
    have := h.objDefault s.nObj (Nat.le_refl _)
    grind
  · exact h.busyHeld
  · exact h.deadHeld
  · exact h.users

end Ctx
