import TbotVerif.Props.ChanCase
/-! Non-vacuity: concrete non-trivial cases that meet the hypotheses of the case-level theorems,
    and observations the Specs reject (so the Specs are not trivially true). -/

namespace ChanExamples
open Chan Spec

/-- prompt "$ " straddling three pieces, a look-alike "$x" before it, chunk size 2 -/
def c02Case : Case :=
  { chunk := 2, slice := 512,
    script := [⟨0, [111, 117, 36, 120]⟩, ⟨0, [116, 13, 10, 36]⟩, ⟨3, [32]⟩, ⟨5, [110, 101, 120, 116, 36, 32]⟩],
    accept := [],
    ops := [.setPrompt (some ([36, 32])), .rup none (some 10), .rup (some (.lit ([36, 32]))) none] }

theorem c02Case_wf : ChanCase.WfCase c02Case :=
  ⟨by decide, by decide, by decide, by decide⟩

example : Spec.C02 c02Case (Chan.run c02Case) = true := C02.case_spec c02Case c02Case_wf

example : ((Chan.run c02Case).1.map (·.res) ==
    [.unit, .text ['o', 'u', '$', 'x', 't', '\n'], .text ['n', 'e', 'x', 't']]) = true := by decide

/-- the Spec rejects a result that swallowed part of the prompt -/
example : Spec.c02 { chunk := 4, slice := 512, prompt := some (.lit ([36, 32])) } (.rup none none)
    { res := .text ['o', 'u', 't', '$'], t0 := 0, t1 := 0, reads := [⟨4, none, 0, 0, some ([111, 117, 116, 36])⟩],
      writes := [], fwd := [] } = false := by decide

/-- raw I/O: reads hitting piece boundaries, a bounded iteration, partial writes, slow sending,
    a forbidden byte -/
def c03Case : Case :=
  { chunk := 4, slice := 3,
    script := [⟨0, [97, 98, 99, 100, 101, 102, 103]⟩, ⟨0, [104, 13, 10]⟩, ⟨2, [105, 106]⟩],
    accept := [1, 2, 1, 5],
    ops := [.read (some 5) (some 1), .readIter (some 3) none (some 1), .readline ([13, 10]) none,
            .write ([120, 121, 122]) false, .setBlacklist [3], .send ([104, 101, 108, 108, 111]) false none false,
            .write [1, 3] false, .setSlow (some 2) 2, .sendline ([97, 98]) false none, .sendcontrol 3] }

theorem c03Case_wf : ChanCase.WfCase c03Case :=
  ⟨by decide, by decide, by decide, by decide⟩

example : Spec.C03 c03Case (Chan.run c03Case) = true := C03.case_spec c03Case c03Case_wf

example : ((Chan.run c03Case).1.map (·.res) ==
    [.bytes ([97, 98, 99, 100, 101]), .chunks [[102, 103]] none, .text ['h', '\n'], .unit, .unit, .unit,
     .err .illegal, .unit, .unit, .unit]) = true := by decide

/-- the Spec rejects a `read(3)` that returned only two bytes -/
example : Spec.c03 { chunk := 4, slice := 512 } (.read (some 3) none)
    { res := .bytes ([97, 98]), t0 := 0, t1 := 0, reads := [⟨3, none, 0, 0, some ([97, 98])⟩],
      writes := [], fwd := [] } = false := by decide

/-- expect: the lower-indexed pattern wins although the other matches earlier in the data -/
def c04Case : Case :=
  { chunk := 4096, slice := 512, script := [⟨0, [120, 120, 66, 66]⟩, ⟨1, [121, 121, 65, 65]⟩, ⟨2, [122, 122]⟩], accept := [],
    ops := [.expect [.lit ([65, 65]), .lit ([66, 66])] none, .expect [.lit ([65, 65]), .lit ([122, 122])] (some 5)] }

theorem c04Case_wf : ChanCase.WfCase c04Case :=
  ⟨by decide, by decide, by decide, by decide⟩

example : Spec.C04 c04Case (Chan.run c04Case) = true := C04.case_spec c04Case c04Case_wf

example : ((Chan.run c04Case).1.map (·.res) ==
    [.expect 1 ['x', 'x'] [66, 66] [], .expect 0 ['y', 'y'] [65, 65] []]) = true := by decide

end ChanExamples
