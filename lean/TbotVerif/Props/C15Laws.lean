import TbotVerif.Props.CtxOps3
set_option linter.unusedSimpArgs false
set_option linter.unusedVariables false
/-! # C15 — single-step laws of `Context.request` on the implementation model

    Each law is about one `reqEnterF` (entering `ctx.request(...)`) or one `reqExitF` (leaving it)
    on a state that satisfies the invariant; `td` / `ini` are the `teardown` / `init` of the level
    (arbitrary functions satisfying their specification, so the laws hold on every level). -/
namespace C15
open Ctx

section
variable (cfg : Cfg)

/-- `teardown` always leaves the manager without instance (repaired F9: `finally`) -/
theorem teardown_clears (rx : Frame → St → Option Exc → R) (c : Nat) (s : St) :
    ((teardownF cfg rx c s).1.mgrs c).inst = none := by
  unfold teardownF
  cases hi : (s.mgr c).inst with
  | none => simpa [St.ctxError, St.newExc, St.mgr] using hi
  | some o => simp [St.setMgr]

/-- **share / keep-alive persistence** — a request (without `reset`) for an instance that is alive
    and not held exclusively yields the very same object; the only event is the `yielded` event:
    nothing is initialised or torn down. -/
theorem share {td ini : Nat → St → R} {B : List Nat} {s : St} {c o : Nat} (dep excl : Bool)
    (roe : Option Bool) (h : Inv B s) (hcB : c ∉ B) (hi : (s.mgrs c).inst = some o)
    (hav : (s.mgrs c).avail = true) (hk : (s.keepAlive && s.openCtx == 0) = false) :
    ∃ f s', reqEnterF cfg td ini dep c false excl roe s = (s', .inl f) ∧ f.obj = o ∧ f.cls = c ∧
      s'.trace = .yielded dep c o :: s.trace ∧ (s'.mgrs c).inst = some o ∧
      (s'.mgrs c).avail = !excl ∧ (s'.mgrs c).users = (s.mgrs c).users + 1 := by
  obtain ⟨_, hrc⟩ := h.instLive c o hi hcB
  have hpos : 1 ≤ (s.objs o).rc := by omega
  have hal : s.alive c = true := by simp [St.alive, St.mgr, hi]
  unfold reqEnterF
  simp only [hk, Bool.false_eq_true, if_false, resetStep, hal, Bool.and_false, ensureStep,
    Bool.not_true]
  rw [admitStep_ok cfg hi hav hpos]
  refine ⟨_, _, rfl, rfl, rfl, ?_, ?_, ?_, ?_⟩
  · simp only [St.log, St.frameIn]; split <;> rfl
  · simp only [St.log, St.frameIn]; split <;> simp [hi]
  · simp only [St.log, St.frameIn]; split <;> simp
  · simp only [St.log, St.frameIn]; split <;> simp

/-- **exclusive (latch)** — while an exclusive request holds the instance (`_available` is false)
    every request without `reset` fails with a `ContextError`; nothing else changes: the holder's
    instance is untouched and no event is logged. -/
theorem exclusive_refuses {td ini : Nat → St → R} {s : St} {c o : Nat} (dep excl : Bool)
    (roe : Option Bool) (hi : (s.mgrs c).inst = some o) (hav : (s.mgrs c).avail = false)
    (hk : (s.keepAlive && s.openCtx == 0) = false) :
    reqEnterF cfg td ini dep c false excl roe s = ((s.newExc .ctx).1, .inr ⟨s.nExc, .ctx⟩) := by
  have hal : s.alive c = true := by simp [St.alive, St.mgr, hi]
  unfold reqEnterF
  simp only [hk, Bool.false_eq_true, if_false, resetStep, hal, Bool.and_false, ensureStep,
    Bool.not_true]
  unfold admitStep
  simp [St.mgr, hi, hav, St.newExc]

/-- **keep-alive persistence (exit)** — leaving a non-exclusive request normally while keep-alive is
    on only releases the frame: the instance stays alive and no machine event is logged. -/
theorem keepalive_exit {td : Nat → St → R} {B : List Nat} {s : St} {f : Frame} (h : Inv B s)
    (hf : f ∈ s.open_) (hcB : f.cls ∉ B) (hx : f.excl = false) (hka : s.keepAlive = true) :
    reqExitF cfg td f s none = ((s.frameOut f).log (.released f.dep f.cls), none) := by
  have hrc := h.frame_rc hf hcB
  unfold reqExitF
  simp only [roeStep]
  rw [objExit_ne cfg hrc]
  change ((finallyStep td f.cls f.excl (s.frameOut f) (later none none)).1.log _,
    (finallyStep td f.cls f.excl (s.frameOut f) (later none none)).2) = _
  have hka' : (s.frameOut f).keepAlive = true := hka
  simp [finallyStep, hx, hka', later]

/-- **exclusive (end)** — when an exclusive request ends (normally or by an exception) its class has
    no instance any more, even under keep-alive. -/
theorem exclusive_end (rx : Frame → St → Option Exc → R) {s : St} {f : Frame} (e : Option Exc)
    (hx : f.excl = true) :
    ((reqExitF cfg (teardownF cfg rx) f s e).1.mgrs f.cls).inst = none := by
  unfold reqExitF
  simp only [St.log]
  unfold finallyStep
  simp only [hx, Bool.true_or, if_true]
  split
  · exact teardown_clears cfg rx f.cls _
  · rename_i hna
    simpa [St.alive, St.mgr] using hna

/-- **reset_on_error in effect** — the body was left by an exception that is not a pytest skip and
    the flag is in effect: afterwards the class has no instance (it was torn down, if it was still
    alive, before the exception travels on). -/
theorem roe_tears_down (rx : Frame → St → Option Exc → R) {B : List Nat} {s : St} {f : Frame}
    {ex : Exc} (h : Inv B s) (hb : ∀ b ∈ B, f.cls < b) (hrx : RxSpec rx) (hf : f ∈ s.open_)
    (hh : ∀ k, f ∉ (s.mgrs k).held) (hroe : f.roe = true) (hskip : ex.kind ≠ .skip) :
    ((reqExitF cfg (teardownF cfg rx) f s (some ex)).1.mgrs f.cls).inst = none := by
  have hcB : f.cls ∉ B := fun hm => Nat.lt_irrefl _ (hb _ hm)
  have htd := teardownF_spec cfg hrx
  unfold reqExitF
  simp only
  have h0 := roeStep_spec htd (some ex) h hb
  have hr0 : ((roeStep (teardownF cfg rx) f s (some ex)).1.mgrs f.cls).inst = none := by
    unfold roeStep
    simp only [hroe, Bool.true_and]
    have : (ex.kind != Kind.skip) = true := by simpa using hskip
    simp only [this, Bool.true_and]
    split
    · exact teardown_clears cfg rx f.cls s
    · rename_i hna
      simpa [St.alive, St.mgr] using hna
  generalize roeStep (teardownF cfg rx) f s (some ex) = r0 at h0 hr0 ⊢
  have hp0 : Pend [f] r0.1 := (Pend.single hf hh).tr h0.2.tr h.idLt (by simp)
  have hrc := h0.1.frame_rc (hp0.isOpen f (by simp)) hcB
  rw [objExit_ne cfg hrc]
  change (((finallyStep (teardownF cfg rx) f.cls f.excl (r0.1.frameOut f) _).1.log _).mgrs f.cls).inst = none
  have hno : ((r0.1.frameOut f).mgrs f.cls).inst = none := by simp [St.frameOut, hr0]
  unfold finallyStep
  simp only [St.log]
  split
  · split
    · exact teardown_clears cfg rx f.cls _
    · exact hno
  · exact hno

/-- **the same exception reaches the caller** — whatever the flags, the exception that leaves a
    request whose body raised `ex` is `ex` itself unless a `teardown` raised on the way (then it is
    that teardown's exception). -/
theorem exit_exception {td : Nat → St → R} {B : List Nat} {s : St} {f : Frame} {ex : Exc}
    (h : Inv B s) (htd : TdSpec td) (hb : ∀ b ∈ B, f.cls < b) (hf : f ∈ s.open_)
    (hh : ∀ k, f ∉ (s.mgrs k).held) :
    (reqExitF cfg td f s (some ex)).2 = some ex ∨
    ∃ s1 e1, (td f.cls s1).2 = some e1 ∧ (reqExitF cfg td f s (some ex)).2 = some e1 := by
  have hcB : f.cls ∉ B := fun hm => Nat.lt_irrefl _ (hb _ hm)
  unfold reqExitF
  simp only
  have h0 := roeStep_spec htd (some ex) h hb
  have hr0 : (roeStep td f s (some ex)).2 = some ex ∨
      ∃ e1, (td f.cls s).2 = some e1 ∧ (roeStep td f s (some ex)).2 = some e1 := by
    unfold roeStep
    simp only
    split
    · cases ht : (td f.cls s).2 with
      | none => left; simp [later, ht]
      | some e1 => right; exact ⟨e1, rfl, by simp [later, ht]⟩
    · left; rfl
  generalize roeStep td f s (some ex) = r0 at h0 hr0 ⊢
  have hp0 : Pend [f] r0.1 := (Pend.single hf hh).tr h0.2.tr h.idLt (by simp)
  have hrc := h0.1.frame_rc (hp0.isOpen f (by simp)) hcB
  rw [objExit_ne cfg hrc]
  change (finallyStep td f.cls f.excl (r0.1.frameOut f) (later r0.2 none)).2 = some ex ∨
    ∃ s1 e1, (td f.cls s1).2 = some e1 ∧
      (finallyStep td f.cls f.excl (r0.1.frameOut f) (later r0.2 none)).2 = some e1
  have hl : later r0.2 none = r0.2 := by cases r0.2 <;> rfl
  rw [hl]
  unfold finallyStep
  split
  · split
    · cases ht : (td f.cls (r0.1.frameOut f)).2 with
      | none =>
        simp only [later, ht]
        rcases hr0 with h1 | ⟨e1, h1, h2⟩
        · left; exact h1
        · right; exact ⟨s, e1, h1, h2⟩
      | some e1 =>
        right
        exact ⟨_, e1, ht, by simp [later, ht]⟩
    · rcases hr0 with h1 | ⟨e1, h1, h2⟩
      · left; exact h1
      · right; exact ⟨s, e1, h1, h2⟩
  · rcases hr0 with h1 | ⟨e1, h1, h2⟩
    · left; exact h1
    · right; exact ⟨s, e1, h1, h2⟩

theorem later_assoc (a b c : Option Exc) : later (later a b) c = later a (later b c) := by
  cases a <;> cases b <;> cases c <;> rfl

/-- everything `reqExitF` does after the `except BaseException` clause -/
def exitTail (td : Nat → St → R) (f : Frame) (r0 : R) : R :=
  let r1 := objExit cfg r0.1 f.obj
  let e1 := later r0.2 r1.2
  let s := { r1.1 with open_ := r1.1.open_.filter fun g => g.id != f.id }
  let s := s.setMgr f.cls { s.mgr f.cls with users := (s.mgr f.cls).users - 1 }
  let r2 := finallyStep td f.cls f.excl s e1
  (r2.1.log (.released f.dep f.cls), r2.2)

theorem reqExitF_eq (td : Nat → St → R) (f : Frame) (s : St) (e : Option Exc) :
    reqExitF cfg td f s e = exitTail cfg td f (roeStep td f s e) := rfl

theorem finallyStep_exc (td : Nat → St → R) (c : Nat) (excl : Bool) (s : St) (a b : Option Exc) :
    (finallyStep td c excl s (later a b)).1 = (finallyStep td c excl s b).1 ∧
    (finallyStep td c excl s (later a b)).2 = later a (finallyStep td c excl s b).2 := by
  unfold finallyStep
  split
  · split
    · exact ⟨rfl, later_assoc _ _ _⟩
    · exact ⟨rfl, rfl⟩
  · exact ⟨rfl, rfl⟩

/-- **reset_on_error not in effect** — if the flag is off, or the exception is a pytest skip, the
    exception changes nothing about the instance's lifetime: the state (and so the event log) after
    the exit is the one of a normal exit, and `ex` travels on unless the ordinary end-of-request
    teardown raises. -/
theorem roe_off {td : Nat → St → R} {s : St} {f : Frame} {ex : Exc}
    (hoff : f.roe = false ∨ ex.kind = .skip) :
    (reqExitF cfg td f s (some ex)).1 = (reqExitF cfg td f s none).1 ∧
    (reqExitF cfg td f s (some ex)).2 = later (some ex) (reqExitF cfg td f s none).2 := by
  have hr : roeStep td f s (some ex) = (s, some ex) := by
    unfold roeStep
    rcases hoff with h | h
    · simp [h]
    · simp [h]
  have hn : roeStep td f s none = (s, none) := rfl
  rw [reqExitF_eq, reqExitF_eq, hr, hn]
  unfold exitTail
  simp only
  have hl : ∀ x : Option Exc, later none x = x := fun x => by cases x <;> rfl
  rw [hl]
  have := finallyStep_exc td f.cls f.excl
    (({ (objExit cfg s f.obj).1 with open_ := (objExit cfg s f.obj).1.open_.filter fun g => g.id != f.id } : St).setMgr f.cls
      { ({ (objExit cfg s f.obj).1 with open_ := (objExit cfg s f.obj).1.open_.filter fun g => g.id != f.id } : St).mgr f.cls with
        users := (({ (objExit cfg s f.obj).1 with open_ := (objExit cfg s f.obj).1.open_.filter fun g => g.id != f.id } : St).mgr f.cls).users - 1 })
    (some ex) (objExit cfg s f.obj).2
  exact ⟨by rw [this.1], this.2⟩

theorem admitStep_inl {td : Nat → St → R} {dep : Bool} {c : Nat} {excl roe : Bool} {s : St} {f : Frame}
    (h : (admitStep cfg td dep c excl roe s).2 = .inl f) : (s.mgrs c).inst = some f.obj := by
  unfold admitStep at h
  simp only [St.mgr] at h
  cases hi : (s.mgrs c).inst with
  | none => simp [hi] at h
  | some o =>
    simp only [hi] at h
    split at h
    · simp at h
    · split at h
      · simp at h
      · simp at h
        subst h
        rfl

/-- **reset** — `reset=True` on a live instance: if the request succeeds, the object it yields has an
    identity that did not exist before the request (it is created after the old instance has been
    torn down; `hfresh` is the corresponding property of `init`, see `initClsF_fresh`). -/
theorem reset_fresh {td ini : Nat → St → R} (htd : TdSpec td)
    (hclr : ∀ c s, ((td c s).1.mgrs c).inst = none)
    (hfresh : ∀ B c s, Inv B s → (∀ b ∈ B, c < b) → (s.mgrs c).inst = none → (ini c s).2 = none →
      ∃ o', ((ini c s).1.mgrs c).inst = some o' ∧ s.nObj ≤ o')
    {B : List Nat} {s : St} {c o : Nat} (dep excl : Bool) (roe : Option Bool) (h : Inv B s)
    (hb : ∀ b ∈ B, c < b) (hi : (s.mgrs c).inst = some o) :
    ∀ f, (reqEnterF cfg td ini dep c true excl roe s).2 = .inl f → s.nObj ≤ f.obj ∧ f.obj ≠ o := by
  intro f hf
  have ho := (h.instWf c o hi).1
  suffices s.nObj ≤ f.obj by exact ⟨this, by omega⟩
  have hal : s.alive c = true := by simp [St.alive, St.mgr, hi]
  unfold reqEnterF at hf
  simp only at hf
  split at hf
  · simp at hf
  · have h0 := htd B c s h hb
    have hr0 : resetStep td c true s = td c s := by simp [resetStep, hal]
    rw [hr0] at hf
    cases he0 : (td c s).2 with
    | some ex => simp [he0] at hf
    | none =>
      simp only [he0] at hf
      have hna : (td c s).1.alive c = false := by simp [St.alive, St.mgr, hclr c s]
      have hr1 : ensureStep ini c (td c s).1 = ini c (td c s).1 := by simp [ensureStep, hna]
      rw [hr1] at hf
      cases he1 : (ini c (td c s).1).2 with
      | some ex => simp [he1] at hf
      | none =>
        simp only [he1] at hf
        obtain ⟨o', hio, hle⟩ := hfresh B c (td c s).1 h0.1 hb (hclr c s) he1
        have := admitStep_inl cfg hf
        rw [hio] at this
        have h1 : f.obj = o' := by simpa using this.symm
        have := h0.2.tr.nObj_le
        omega

/-! ### the laws on the concrete operations of every level -/

theorem reqExitF_some (td : Nat → St → R) (f : Frame) (s : St) (ex : Exc) :
    (reqExitF cfg td f s (some ex)).2 ≠ none := by
  rw [reqExitF_eq]
  have h0 : (roeStep td f s (some ex)).2 ≠ none := by
    unfold roeStep
    simp only
    split
    · cases (td f.cls s).2 <;> simp [later]
    · simp
  generalize roeStep td f s (some ex) = r0 at h0
  unfold exitTail finallyStep
  simp only
  cases hr : r0.2 with
  | none => exact absurd hr h0
  | some a =>
    split
    · split
      · cases (objExit cfg r0.1 f.obj).2 <;> cases (td f.cls _).2 <;> simp [later]
      · cases (objExit cfg r0.1 f.obj).2 <;> simp [later]
    · cases (objExit cfg r0.1 f.obj).2 <;> simp [later]

theorem exitFrames_some {rx : Frame → St → Option Exc → R}
    (hrx : ∀ f s ex, (rx f s (some ex)).2 ≠ none) :
    ∀ (L : List Frame) (s : St) (ex : Exc), (exitFramesWith rx L s (some ex)).2 ≠ none := by
  intro L
  induction L with
  | nil => intro s ex; simp [exitFramesWith]
  | cons f fs ih =>
    intro s ex
    unfold exitFramesWith
    simp only
    cases h : (rx f s (some ex)).2 with
    | none => exact absurd h (hrx f s ex)
    | some e' => exact ih _ e'

theorem ops_reqExit_some (k : Nat) (f : Frame) (s : St) (ex : Exc) :
    ((ops cfg k).reqExit f s (some ex)).2 ≠ none := by
  cases k with
  | zero => simp [ops, fuelR]
  | succ k => exact reqExitF_some cfg _ f s ex

/-- a successful `init` creates an instance whose identity did not exist before -/
theorem initClsF_fresh {re : Nat → Bool → St → St × (Frame ⊕ Exc)}
    {rx : Frame → St → Option Exc → R} (hwf : cfg.depsBelow) (hre : DepSpec re)
    (hrxe : ∀ f s ex, (rx f s (some ex)).2 ≠ none) :
    ∀ B c s, Inv B s → (∀ b ∈ B, c < b) → (s.mgrs c).inst = none →
      (initClsF cfg re rx c s).2 = none →
      ∃ o', ((initClsF cfg re rx c s).1.mgrs c).inst = some o' ∧ s.nObj ≤ o' := by
  intro B c s h hb hi hnone
  have hcB : c ∉ B := fun hm => Nat.lt_irrefl _ (hb _ hm)
  have hal : s.alive c = false := by simp [St.alive, St.mgr, hi]
  unfold initClsF at hnone ⊢
  simp only [hal, Bool.false_eq_true, if_false] at hnone ⊢
  have hsa : s.setMgr c { s.mgr c with avail := true } = s.setAvail c true := rfl
  rw [hsa] at hnone ⊢
  have ha : Inv (c :: B) (s.setAvail c true) :=
    (h.setAvail c true).busy (by simp [St.setAvail, hi])
  have hlt : ∀ d ∈ cfg.depsOf c, ∀ b ∈ c :: B, d.1 < b := by
    intro d hd b hbm
    rcases List.mem_cons.mp hbm with rfl | hbm
    · exact hwf _ d hd
    · exact Nat.lt_trans (hwf c d hd) (hb b hbm)
  have hE := enterDeps_spec hre c s.nFrame (cfg.depsOf c) (c :: B) (s.setAvail c true) [] ha
    (hwf c) hlt (Nat.le_refl _) ⟨Pend.nil _, by simp, by simp⟩
  generalize enterDepsWith re (cfg.depsOf c) (s.setAvail c true) [] = r at hE hnone ⊢
  obtain ⟨s1, L, eo⟩ := r
  simp only at hE hnone ⊢
  have hle : s.nObj ≤ s1.nObj := hE.2.1.tr.nObj_le
  cases eo with
  | some ex =>
    simp only at hnone
    exact absurd hnone (exitFrames_some hrxe _ _ _)
  | none =>
    simp only at hnone ⊢
    generalize machineUp cfg (({ s1 with nObj := s1.nObj + 1 } : St).setObj s1.nObj
      { cls := c, rc := 0, up := false }) s1.nObj = r1 at hnone ⊢
    cases hr1 : r1.2 with
    | some ex =>
      simp only [hr1] at hnone
      exact absurd hnone (exitFrames_some hrxe _ _ _)
    | none =>
      simp only [hr1]
      exact ⟨s1.nObj, by simp [St.setMgr], hle⟩

/-- **reset**, on every level of the model: a successful request with `reset=True` on a live
    instance yields an object whose identity did not exist before the request -/
theorem reset_yields_fresh (hwf : cfg.depsBelow) (k : Nat) {s : St} {c o : Nat} (dep excl : Bool)
    (roe : Option Bool) (h : Inv [] s) (hi : (s.mgrs c).inst = some o) :
    ∀ f, ((ops cfg (k + 1)).reqEnter dep c true excl roe s).2 = .inl f → s.nObj ≤ f.obj ∧ f.obj ≠ o := by
  obtain ⟨_, hrx, hre⟩ := ops_spec cfg hwf k
  have htd : TdSpec (teardownF cfg (ops cfg k).reqExit) := teardownF_spec cfg hrx
  have hdep : DepSpec (fun d x s => (ops cfg k).reqEnter true d false x none s) :=
    fun B d x s h hb => hre B true d false x none s h hb
  exact reset_fresh cfg htd (fun c s => teardown_clears cfg _ c s)
    (initClsF_fresh cfg hwf hdep (ops_reqExit_some cfg k)) dep excl roe h (by simp) hi

/-- **exclusive (end)**, on every level: after an exclusive request has been left there is no
    instance, whatever keep-alive says -/
theorem exclusive_end_ops (k : Nat) {s : St} {f : Frame} (e : Option Exc) (hx : f.excl = true) :
    (((ops cfg (k + 1)).reqExit f s e).1.mgrs f.cls).inst = none :=
  exclusive_end cfg _ e hx

end

end C15
