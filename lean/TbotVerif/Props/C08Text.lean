import TbotVerif.Spec.Chan
/-! C08, text level: the ASCII content of `decodeReplace b` (Python
    `bytes.decode("utf-8", errors="replace")`) is the ASCII content of `b`, for every byte
    string and hence for every fragmentation of a stream.  Core Lean only. -/
namespace C08
open Spec

theorem toNat_ofNat_valid (n : Nat) (h : n < 0xD800 ∨ (0xDFFF < n ∧ n < 0x110000)) :
    (Char.ofNat n).toNat = n := by
  have hv : n.isValidChar := h
  unfold Char.ofNat
  rw [dif_pos hv]
  unfold Char.ofNatAux Char.toNat
  simp only [UInt32.toNat, BitVec.toNat_ofNatLT]

theorem replChar_toNat : replChar.toNat = 65533 := by decide

theorem isCont_bounds {b : Byte} (h : isCont b = true) : 128 ≤ b.toNat ∧ b.toNat ≤ 191 := by
  simp only [isCont, Bool.and_eq_true, decide_eq_true_eq, UInt8.le_iff_toNat_le] at h
  exact h

theorem inR_bounds {lo hi b : Byte} (h : inR lo hi b = true) : lo.toNat ≤ b.toNat ∧ b.toNat ≤ hi.toNat := by
  simp only [inR, Bool.and_eq_true, decide_eq_true_eq, UInt8.le_iff_toNat_le] at h
  exact h

theorem byte_eq_of_toNat {a b : Byte} (h : a.toNat = b.toNat) : a = b := UInt8.toNat_inj.mp h

theorem snd3_bounds {b0 b1 : Byte} (h : snd3 b0 b1 = true) :
    128 ≤ b1.toNat ∧ b1.toNat ≤ 191 ∧ (b0.toNat = 224 → 160 ≤ b1.toNat) ∧
      (b0.toNat = 237 → b1.toNat ≤ 159) := by
  unfold snd3 at h
  by_cases h0 : b0 = 0xE0
  · subst h0
    simp only [beq_self_eq_true, if_true] at h
    have := inR_bounds h
    have e1 : (0xA0 : Byte).toNat = 160 := rfl
    have e2 : (0xBF : Byte).toNat = 191 := rfl
    have e3 : (0xE0 : Byte).toNat = 224 := rfl
    omega
  · have n0 : b0.toNat ≠ 224 := fun e => h0 (byte_eq_of_toNat e)
    have hb : (b0 == 0xE0) = false := beq_false_of_ne h0
    simp only [hb, Bool.false_eq_true, if_false] at h
    by_cases h1 : b0 = 0xED
    · subst h1
      simp only [beq_self_eq_true, if_true] at h
      have := inR_bounds h
      have e1 : (0x80 : Byte).toNat = 128 := rfl
      have e2 : (0x9F : Byte).toNat = 159 := rfl
      omega
    · have n1 : b0.toNat ≠ 237 := fun e => h1 (byte_eq_of_toNat e)
      have hb1 : (b0 == 0xED) = false := beq_false_of_ne h1
      simp only [hb1, Bool.false_eq_true, if_false] at h
      have := isCont_bounds h
      omega

theorem snd4_bounds {b0 b1 : Byte} (h : snd4 b0 b1 = true) :
    128 ≤ b1.toNat ∧ b1.toNat ≤ 191 ∧ (b0.toNat = 240 → 144 ≤ b1.toNat) ∧
      (b0.toNat = 244 → b1.toNat ≤ 143) := by
  unfold snd4 at h
  by_cases h0 : b0 = 0xF0
  · subst h0
    simp only [beq_self_eq_true, if_true] at h
    have := inR_bounds h
    have e1 : (0x90 : Byte).toNat = 144 := rfl
    have e2 : (0xBF : Byte).toNat = 191 := rfl
    have e3 : (0xF0 : Byte).toNat = 240 := rfl
    omega
  · have n0 : b0.toNat ≠ 240 := fun e => h0 (byte_eq_of_toNat e)
    have hb : (b0 == 0xF0) = false := beq_false_of_ne h0
    simp only [hb, Bool.false_eq_true, if_false] at h
    by_cases h1 : b0 = 0xF4
    · subst h1
      simp only [beq_self_eq_true, if_true] at h
      have := inR_bounds h
      have e1 : (0x80 : Byte).toNat = 128 := rfl
      have e2 : (0x8F : Byte).toNat = 143 := rfl
      omega
    · have n1 : b0.toNat ≠ 244 := fun e => h1 (byte_eq_of_toNat e)
      have hb1 : (b0 == 0xF4) = false := beq_false_of_ne h1
      simp only [hb1, Bool.false_eq_true, if_false] at h
      have := isCont_bounds h
      omega

theorem cp2_ge {b0 b1 : Byte} (h0 : 194 ≤ b0.toNat) (h0' : b0.toNat < 224) :
    128 ≤ (cp2 b0 b1).toNat := by
  unfold cp2
  rw [toNat_ofNat_valid _ (by omega)]
  omega

theorem cp3_ge {b0 b1 b2 : Byte} (h0 : 224 ≤ b0.toNat) (h0' : b0.toNat < 240)
    (h1 : snd3 b0 b1 = true) : 128 ≤ (cp3 b0 b1 b2).toNat := by
  have := snd3_bounds h1
  unfold cp3
  rw [toNat_ofNat_valid _ (by omega)]
  omega

theorem cp4_ge {b0 b1 b2 b3 : Byte} (h0 : 240 ≤ b0.toNat) (h0' : b0.toNat < 245)
    (h1 : snd4 b0 b1 = true) : 128 ≤ (cp4 b0 b1 b2 b3).toNat := by
  have := snd4_bounds h1
  unfold cp4
  rw [toNat_ofNat_valid _ (by omega)]
  omega

/-- the step produced a non-ASCII character from `r.2 ≥ 1` non-ASCII bytes -/
def HiStep (l : Bytes) (r : Char × Nat) : Prop :=
  128 ≤ r.1.toNat ∧ 1 ≤ r.2 ∧ r.2 ≤ l.length ∧ ∀ x ∈ l.take r.2, 128 ≤ x.toNat

theorem hi1 (b0 : Byte) (t : Bytes) (c : Char) (hc : 128 ≤ c.toNat) (h0 : 128 ≤ b0.toNat) :
    HiStep (b0 :: t) (c, 1) := by
  refine ⟨hc, Nat.le_refl _, by simp only [List.length_cons]; omega, ?_⟩
  intro x hx
  simp only [List.take_succ_cons, List.take_zero, List.mem_cons, List.not_mem_nil, or_false] at hx
  subst hx; exact h0

theorem hi2 (b0 b1 : Byte) (t : Bytes) (c : Char) (hc : 128 ≤ c.toNat) (h0 : 128 ≤ b0.toNat)
    (h1 : 128 ≤ b1.toNat) : HiStep (b0 :: b1 :: t) (c, 2) := by
  refine ⟨hc, Nat.succ_le_succ (Nat.zero_le _), by simp only [List.length_cons]; omega, ?_⟩
  intro x hx
  simp only [List.take_succ_cons, List.take_zero, List.mem_cons, List.not_mem_nil, or_false] at hx
  rcases hx with rfl | rfl <;> assumption

theorem hi3 (b0 b1 b2 : Byte) (t : Bytes) (c : Char) (hc : 128 ≤ c.toNat) (h0 : 128 ≤ b0.toNat)
    (h1 : 128 ≤ b1.toNat) (h2 : 128 ≤ b2.toNat) : HiStep (b0 :: b1 :: b2 :: t) (c, 3) := by
  refine ⟨hc, Nat.succ_le_succ (Nat.zero_le _), by simp only [List.length_cons]; omega, ?_⟩
  intro x hx
  simp only [List.take_succ_cons, List.take_zero, List.mem_cons, List.not_mem_nil, or_false] at hx
  rcases hx with rfl | rfl | rfl <;> assumption

theorem hi4 (b0 b1 b2 b3 : Byte) (t : Bytes) (c : Char) (hc : 128 ≤ c.toNat) (h0 : 128 ≤ b0.toNat)
    (h1 : 128 ≤ b1.toNat) (h2 : 128 ≤ b2.toNat) (h3 : 128 ≤ b3.toNat) :
    HiStep (b0 :: b1 :: b2 :: b3 :: t) (c, 4) := by
  refine ⟨hc, Nat.succ_le_succ (Nat.zero_le _), by simp only [List.length_cons]; omega, ?_⟩
  intro x hx
  simp only [List.take_succ_cons, List.take_zero, List.mem_cons, List.not_mem_nil, or_false] at hx
  rcases hx with rfl | rfl | rfl | rfl <;> assumption

theorem repl_ge : 128 ≤ replChar.toNat := by rw [replChar_toNat]; decide

theorem decodeStep_hi (b0 : Byte) (t : Bytes) (h : ¬ b0 < 0x80) :
    HiStep (b0 :: t) (decodeStep (b0 :: t)) := by
  have h0 : 128 ≤ b0.toNat := by
    have e : (0x80 : Byte).toNat = 128 := rfl
    rw [UInt8.lt_iff_toNat_lt] at h; omega
  unfold decodeStep
  dsimp only
  rw [if_neg h]
  by_cases hC2 : b0 < 0xC2
  · rw [if_pos hC2]; exact hi1 _ _ _ repl_ge h0
  rw [if_neg hC2]
  have gC2 : 194 ≤ b0.toNat := by
    have e : (0xC2 : Byte).toNat = 194 := rfl
    rw [UInt8.lt_iff_toNat_lt] at hC2; omega
  by_cases hE0 : b0 < 0xE0
  · rw [if_pos hE0]
    have lE0 : b0.toNat < 224 := by
      have e : (0xE0 : Byte).toNat = 224 := rfl
      rw [UInt8.lt_iff_toNat_lt] at hE0; omega
    cases t with
    | nil => exact hi1 _ _ _ repl_ge h0
    | cons b1 t1 =>
      show HiStep _ (if isCont b1 then (cp2 b0 b1, 2) else (replChar, 1))
      by_cases c1 : isCont b1 = true
      · rw [if_pos c1]
        exact hi2 _ _ _ _ (cp2_ge gC2 lE0) h0 (isCont_bounds c1).1
      · rw [if_neg c1]; exact hi1 _ _ _ repl_ge h0
  rw [if_neg hE0]
  have gE0 : 224 ≤ b0.toNat := by
    have e : (0xE0 : Byte).toNat = 224 := rfl
    rw [UInt8.lt_iff_toNat_lt] at hE0; omega
  by_cases hF0 : b0 < 0xF0
  · rw [if_pos hF0]
    have lF0 : b0.toNat < 240 := by
      have e : (0xF0 : Byte).toNat = 240 := rfl
      rw [UInt8.lt_iff_toNat_lt] at hF0; omega
    cases t with
    | nil => exact hi1 _ _ _ repl_ge h0
    | cons b1 t1 =>
      by_cases s1 : snd3 b0 b1 = true
      · have g1 := (snd3_bounds s1).1
        cases t1 with
        | nil =>
          show HiStep _ (if snd3 b0 b1 then (replChar, 2) else (replChar, 1))
          rw [if_pos s1]; exact hi2 _ _ _ _ repl_ge h0 g1
        | cons b2 t2 =>
          show HiStep _ (if snd3 b0 b1 then
            (if isCont b2 then (cp3 b0 b1 b2, 3) else (replChar, 2)) else (replChar, 1))
          rw [if_pos s1]
          by_cases c2 : isCont b2 = true
          · rw [if_pos c2]
            exact hi3 _ _ _ _ _ (cp3_ge gE0 lF0 s1) h0 g1 (isCont_bounds c2).1
          · rw [if_neg c2]; exact hi2 _ _ _ _ repl_ge h0 g1
      · cases t1 with
        | nil =>
          show HiStep _ (if snd3 b0 b1 then (replChar, 2) else (replChar, 1))
          rw [if_neg s1]; exact hi1 _ _ _ repl_ge h0
        | cons b2 t2 =>
          show HiStep _ (if snd3 b0 b1 then
            (if isCont b2 then (cp3 b0 b1 b2, 3) else (replChar, 2)) else (replChar, 1))
          rw [if_neg s1]; exact hi1 _ _ _ repl_ge h0
  rw [if_neg hF0]
  have gF0 : 240 ≤ b0.toNat := by
    have e : (0xF0 : Byte).toNat = 240 := rfl
    rw [UInt8.lt_iff_toNat_lt] at hF0; omega
  by_cases hF5 : b0 < 0xF5
  · rw [if_pos hF5]
    have lF5 : b0.toNat < 245 := by
      have e : (0xF5 : Byte).toNat = 245 := rfl
      rw [UInt8.lt_iff_toNat_lt] at hF5; omega
    cases t with
    | nil => exact hi1 _ _ _ repl_ge h0
    | cons b1 t1 =>
      by_cases s1 : snd4 b0 b1 = true
      · have g1 := (snd4_bounds s1).1
        cases t1 with
        | nil =>
          show HiStep _ (if snd4 b0 b1 then (replChar, 2) else (replChar, 1))
          rw [if_pos s1]; exact hi2 _ _ _ _ repl_ge h0 g1
        | cons b2 t2 =>
          by_cases c2 : isCont b2 = true
          · have g2 := (isCont_bounds c2).1
            cases t2 with
            | nil =>
              show HiStep _ (if snd4 b0 b1 then
                (if isCont b2 then (replChar, 3) else (replChar, 2)) else (replChar, 1))
              rw [if_pos s1, if_pos c2]; exact hi3 _ _ _ _ _ repl_ge h0 g1 g2
            | cons b3 t3 =>
              show HiStep _ (if snd4 b0 b1 then
                (if isCont b2 then (if isCont b3 then (cp4 b0 b1 b2 b3, 4) else (replChar, 3))
                  else (replChar, 2)) else (replChar, 1))
              rw [if_pos s1, if_pos c2]
              by_cases c3 : isCont b3 = true
              · rw [if_pos c3]
                exact hi4 _ _ _ _ _ _ (cp4_ge gF0 lF5 s1) h0 g1 g2 (isCont_bounds c3).1
              · rw [if_neg c3]; exact hi3 _ _ _ _ _ repl_ge h0 g1 g2
          · cases t2 with
            | nil =>
              show HiStep _ (if snd4 b0 b1 then
                (if isCont b2 then (replChar, 3) else (replChar, 2)) else (replChar, 1))
              rw [if_pos s1, if_neg c2]; exact hi2 _ _ _ _ repl_ge h0 g1
            | cons b3 t3 =>
              show HiStep _ (if snd4 b0 b1 then
                (if isCont b2 then (if isCont b3 then (cp4 b0 b1 b2 b3, 4) else (replChar, 3))
                  else (replChar, 2)) else (replChar, 1))
              rw [if_pos s1, if_neg c2]; exact hi2 _ _ _ _ repl_ge h0 g1
      · cases t1 with
        | nil =>
          show HiStep _ (if snd4 b0 b1 then (replChar, 2) else (replChar, 1))
          rw [if_neg s1]; exact hi1 _ _ _ repl_ge h0
        | cons b2 t2 =>
          cases t2 with
          | nil =>
            show HiStep _ (if snd4 b0 b1 then
              (if isCont b2 then (replChar, 3) else (replChar, 2)) else (replChar, 1))
            rw [if_neg s1]; exact hi1 _ _ _ repl_ge h0
          | cons b3 t3 =>
            show HiStep _ (if snd4 b0 b1 then
              (if isCont b2 then (if isCont b3 then (cp4 b0 b1 b2 b3, 4) else (replChar, 3))
                else (replChar, 2)) else (replChar, 1))
            rw [if_neg s1]; exact hi1 _ _ _ repl_ge h0
  · rw [if_neg hF5]; exact hi1 _ _ _ repl_ge h0

theorem decodeStep_lo (b0 : Byte) (t : Bytes) (h : b0 < 0x80) :
    decodeStep (b0 :: t) = (Char.ofNat b0.toNat, 1) := by
  unfold decodeStep
  dsimp only
  rw [if_pos h]

/-- the step lemma of the plan -/
theorem decodeStep_spec (b0 : Byte) (t : Bytes) :
    1 ≤ (decodeStep (b0 :: t)).2 ∧ (decodeStep (b0 :: t)).2 ≤ (b0 :: t).length ∧
    ((b0 < 0x80 ∧ decodeStep (b0 :: t) = (Char.ofNat b0.toNat, 1)) ∨
     (128 ≤ (decodeStep (b0 :: t)).1.toNat ∧
       ∀ x ∈ (b0 :: t).take (decodeStep (b0 :: t)).2, ¬ (x < 128))) := by
  by_cases h : b0 < 0x80
  · rw [decodeStep_lo b0 t h]
    refine ⟨Nat.le_refl _, by simp only [List.length_cons]; omega, Or.inl ⟨h, rfl⟩⟩
  · obtain ⟨a, b, c, d⟩ := decodeStep_hi b0 t h
    refine ⟨b, c, Or.inr ⟨a, ?_⟩⟩
    intro x hx hlt
    have := d x hx
    have e : (128 : Byte).toNat = 128 := rfl
    rw [UInt8.lt_iff_toNat_lt] at hlt
    omega

theorem asciiB_append (a b : Bytes) : asciiB (a ++ b) = asciiB a ++ asciiB b := by
  simp only [asciiB, List.filter_append, List.map_append]

theorem asciiT_append (a b : List Char) : asciiT (a ++ b) = asciiT a ++ asciiT b := by
  simp only [asciiT, List.filter_append]

theorem isAscii_append (a b : Bytes) : isAscii (a ++ b) = (isAscii a && isAscii b) := by
  simp only [isAscii, List.all_append]

theorem asciiB_nil : asciiB [] = [] := rfl
theorem asciiT_nil : asciiT [] = [] := rfl

theorem asciiB_cons_lo (b0 : Byte) (t : Bytes) (h : b0 < 128) :
    asciiB (b0 :: t) = Char.ofNat b0.toNat :: asciiB t := by
  have : decide (b0 < 128) = true := decide_eq_true h
  simp only [asciiB, List.filter_cons, this, if_true, List.map_cons]

theorem asciiB_cons_hi (b0 : Byte) (t : Bytes) (h : ¬ b0 < 128) :
    asciiB (b0 :: t) = asciiB t := by
  have : decide (b0 < 128) = false := decide_eq_false h
  simp only [asciiB, List.filter_cons, this, Bool.false_eq_true, if_false]

theorem asciiT_cons_lo (c : Char) (t : List Char) (h : c.toNat < 128) :
    asciiT (c :: t) = c :: asciiT t := by
  have : decide (c.toNat < 128) = true := decide_eq_true h
  simp only [asciiT, List.filter_cons, this, if_true]

theorem asciiT_cons_hi (c : Char) (t : List Char) (h : 128 ≤ c.toNat) :
    asciiT (c :: t) = asciiT t := by
  have : decide (c.toNat < 128) = false := decide_eq_false (by omega)
  simp only [asciiT, List.filter_cons, this, Bool.false_eq_true, if_false]

theorem asciiB_length_of_isAscii (b : Bytes) (h : isAscii b = true) :
    (asciiB b).length = b.length := by
  induction b with
  | nil => rfl
  | cons x t ih =>
    simp only [isAscii, List.all_cons, Bool.and_eq_true, decide_eq_true_eq] at h
    rw [asciiB_cons_lo x t h.1, List.length_cons, List.length_cons, ih h.2]

/-- dropping a non-ASCII prefix does not change the ASCII content -/
theorem asciiB_drop_hi (k : Nat) (l : Bytes) (h : ∀ x ∈ l.take k, ¬ (x < 128)) :
    asciiB (l.drop k) = asciiB l := by
  induction k generalizing l with
  | zero => rfl
  | succ k ih =>
    cases l with
    | nil => rfl
    | cons x t =>
      rw [List.drop_succ_cons, asciiB_cons_hi x t (h x (by simp only [List.take_succ_cons, List.mem_cons, true_or]))]
      apply ih
      intro y hy
      exact h y (by simp only [List.take_succ_cons, List.mem_cons, hy, or_true])

theorem ascii_char_toNat (b0 : Byte) (h : b0 < 128) : (Char.ofNat b0.toNat).toNat < 128 := by
  have e : (128 : Byte).toNat = 128 := rfl
  rw [UInt8.lt_iff_toNat_lt] at h
  rw [toNat_ofNat_valid _ (by omega)]
  omega

theorem asciiT_decodeFuel (n : Nat) : ∀ b : Bytes, b.length ≤ n →
    asciiT (decodeFuel n b) = asciiB b := by
  induction n with
  | zero =>
    intro b hb
    cases b with
    | nil => rfl
    | cons x t => simp only [List.length_cons] at hb; omega
  | succ n ih =>
    intro b hb
    cases b with
    | nil => rfl
    | cons b0 t =>
      show asciiT ((decodeStep (b0 :: t)).1 ::
        decodeFuel n ((b0 :: t).drop (decodeStep (b0 :: t)).2)) = _
      obtain ⟨h1, h2, h3⟩ := decodeStep_spec b0 t
      have hlen : ((b0 :: t).drop (decodeStep (b0 :: t)).2).length ≤ n := by
        rw [List.length_drop]
        simp only [List.length_cons] at hb h2 ⊢
        omega
      have ihd := ih _ hlen
      rcases h3 with ⟨hlo, heq⟩ | ⟨hhi, hall⟩
      · rw [heq] at ihd ⊢
        rw [asciiT_cons_lo _ _ (ascii_char_toNat b0 hlo), ihd, asciiB_cons_lo b0 t hlo]
        rfl
      · rw [asciiT_cons_hi _ _ hhi, ihd, asciiB_drop_hi _ _ hall]

/-- the text-level bridge, for EVERY byte string -/
theorem asciiT_decodeReplace (b : Bytes) : asciiT (decodeReplace b) = asciiB b :=
  asciiT_decodeFuel b.length b (Nat.le_refl _)

/-- hence for every fragmentation -/
theorem asciiT_fragments (frags : List Bytes) :
    asciiT ((frags.map decodeReplace).flatten) = asciiB frags.flatten := by
  induction frags with
  | nil => rfl
  | cons f fs ih =>
    rw [List.map_cons, List.flatten_cons, List.flatten_cons, asciiT_append, asciiB_append, ih,
      asciiT_decodeReplace]
end C08
