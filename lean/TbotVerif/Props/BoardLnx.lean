import TbotVerif.Props.BoardSim
/-! C18 — the Linux boot stage (`AskfirstInitializer`, `LinuxBootLogin`) against the monitor. -/

namespace Board
open Chan Spec C06

/-- user name and password fit one send slice and contain no byte of the write black-list in
    force (well-formedness of the configuration; the real `send` would raise otherwise) -/
structure LnxOk (l : LnxCfg) (bl : List Byte) : Prop where
  userLen : (l.user ++ [13]).length ≤ Params.sendSliceSize
  userBl : forbidden bl (l.user ++ [13]) = false
  pwLen : ∀ pw, l.password = some pw → (pw ++ [13]).length ≤ Params.sendSliceSize
  pwBl : ∀ pw, l.password = some pw → forbidden bl (pw ++ [13]) = false
  crBl : forbidden bl [13] = false

theorem tmoRemaining_cases (T : Option Nat) (start : Nat) (b : BS) :
    (tmoRemaining T start b = .error .timeout ∧ ∃ T', T = some T' ∧ T' ≤ b.st.now - start) ∨
    (∃ rem, tmoRemaining T start b = .ok rem ∧ (T = none → rem = none)
      ∧ ∀ T', T = some T' → b.st.now - start < T' ∧ rem = some (T' - (b.st.now - start))) := by
  unfold tmoRemaining Chan.remaining
  cases T with
  | none => exact Or.inr ⟨none, rfl, fun _ => rfl, fun T' h => by simp at h⟩
  | some T =>
    by_cases h : T ≤ b.st.now - start
    · dsimp only
      rw [if_pos h]
      exact Or.inl ⟨rfl, T, rfl, h⟩
    · dsimp only
      rw [if_neg h]
      refine Or.inr ⟨_, rfl, fun h => by simp at h, fun T' hT => ?_⟩
      simp only [Option.some.injEq] at hT
      subst hT
      exact ⟨by omega, rfl⟩

/-- the setting inside the Linux boot stage, stream attached -/
structure LCtx (c : Board.Case) (l : LnxCfg) (start : Nat) (b : BS) (m : Mon) : Prop where
  inv : Inv c b m
  cfg : c.lnx = some l
  ok : LnxOk l b.st.blacklist
  streams : b.st.streams = [2]
  mstart : m.start = start
  lastT : m.lastT = b.st.now
  dl : within l.timeout start b.st.now = true
  ublog : b.ubLog = if m.ubSet then some m.ulog else none
  lnxSet : m.lnxSet = true
  ge : start ≤ b.st.now

/-- a wait is about to begin -/
structure Fresh (b : BS) (m : Mon) : Prop where
  acc : m.acc = []
  hit : m.hit = none
  t0 : m.t0 = b.st.now

theorem lnxT_eq {c : Board.Case} {l : LnxCfg} (h : c.lnx = some l) : lnxT c = l.timeout := by
  simp [lnxT, h]

theorem within_some {T : Option Nat} {T' base t : Nat} (hT : T = some T') (h : t ≤ base + T') : within T base t = true := by
  subst hT; simpa [within] using h

theorem within_none {T : Option Nat} {base t : Nat} (hT : T = none) : within T base t = true := by
  subst hT; rfl

theorem within_of_dead {T : Option Nat} {base t : Nat} (h : ∀ T', T = some T' → t ≤ base + T') : within T base t = true := by
  cases T with
  | none => rfl
  | some T' => simpa [within] using h T' rfl

theorem le_of_within {T : Option Nat} {T' base t : Nat} (hT : T = some T') (h : within T base t = true) : t ≤ base + T' := by
  subst hT; simpa [within] using h

/-! ### the verdicts on failures in the Linux stage -/

theorem accept_tmo_wait (c : Board.Case) (l : LnxCfg) (m : Mon) (t : Nat) (hcfg : c.lnx = some l)
    (hph : m.ph = .ask ∨ m.ph = .login1 ∨ m.ph = .login2 ∨ m.ph = .pw)
    (T' : Nat) (hT : l.timeout = some T') (hle : t ≤ m.start + T') (hhit : m.hit = none) :
    accept c m t (some .timeout) = true := by
  rcases hph with h | h | h | h <;> simp [accept, h, lnxT_eq hcfg, hT, hhit, hcfg, within, hle]

theorem accept_tmo_delay (c : Board.Case) (l : LnxCfg) (m : Mon) (t : Nat) (hcfg : c.lnx = some l)
    (hph : m.ph = .login1) (hd : l.delay ≠ 0) (T' : Nat) (hT : l.timeout = some T') (hle : t ≤ m.start + T') :
    accept c m t (some .timeout) = true := by
  simp [accept, hph, lnxT_eq hcfg, hT, hcfg, hd, within, hle]

theorem accept_hang_wait (c : Board.Case) (l : LnxCfg) (m : Mon) (t : Nat) (hcfg : c.lnx = some l)
    (hph : m.ph = .ask ∨ m.ph = .login1 ∨ m.ph = .login2) (hT : l.timeout = none) (hhit : m.hit = none)
    (hl : t = m.lastT) : accept c m t (some .hang) = true := by
  rcases hph with h | h | h <;> simp [accept, h, lnxT_eq hcfg, hT, hhit, hl]

theorem accept_hang_pw (c : Board.Case) (l : LnxCfg) (m : Mon) (t : Nat) (hcfg : c.lnx = some l)
    (hph : m.ph = .pw) (hT : l.timeout = none) (hn : l.noPw = none) (hhit : m.hit = none)
    (hl : t = m.lastT) : accept c m t (some .hang) = true := by
  simp [accept, hph, lnxT_eq hcfg, hT, hhit, hl, hcfg, hn]

/-! ### primitives in the Linux stage -/

/-- a line is sent: the monitor makes the step `m ⟶ m'` it calls for -/
theorem lnx_sendline (c : Board.Case) (l : LnxCfg) (start : Nat) (b : BS) (m : Mon) (h : LCtx c l start b m)
    (payload : Bytes) (hlen : (payload ++ [13]).length ≤ Params.sendSliceSize)
    (hbl : forbidden b.st.blacklist (payload ++ [13]) = false)
    (ph : Ph) (hstep : step c m (.wr b.st.now (payload ++ [13])) = some (wait ph b.st.now b.st.now m)) :
    (wr (sendline payload false none) b).1 = .ok ()
      ∧ LCtx c l start (wr (sendline payload false none) b).2 (wait ph b.st.now b.st.now m)
      ∧ Fresh (wr (sendline payload false none) b).2 (wait ph b.st.now b.st.now m)
      ∧ (wr (sendline payload false none) b).2.st.now = b.st.now := by
  have hop : sendline payload false none { b.st with writes := [] }
      = (.ok (), { b.st with writes := [(payload ++ [13], (payload ++ [13]).length)] }) := by
    unfold sendline
    exact send_one (payload ++ [13]) false { b.st with writes := [] } (by simp)
      (by rw [show ({ b.st with writes := [] } : St).slice = b.st.slice from rfl, h.inv.slice]; exact hlen)
      h.inv.accept h.inv.slow (Or.inr hbl)
  obtain ⟨hok, hinv', hsim⟩ := sim_wr c b m h.inv _ _ hop _ hstep rfl rfl
  refine ⟨hok, ⟨hinv', h.cfg, ?_, ?_, h.mstart, ?_, ?_, ?_, h.lnxSet, by rw [hsim.now]; exact h.ge⟩, ⟨rfl, rfl, ?_⟩, hsim.now⟩
  · rw [hsim.blacklist]; exact h.ok
  · rw [hsim.streams]; exact h.streams
  · rw [hsim.now]; rfl
  · rw [hsim.now]; exact h.dl
  · rw [hsim.ubLog]; exact h.ublog
  · rw [hsim.now]; rfl

/-- a `read_until_prompt` with a per-call prompt in a waiting phase of the Linux stage -/
theorem lnx_rup (c : Board.Case) (l : LnxCfg) (start : Nat) (b : BS) (m : Mon) (h : LCtx c l start b m)
    (hf : Fresh b m) (p : Pat) (t : Option Nat)
    (hread : reading m.ph = true) (hlog : logId m.ph = 2)
    (haw : awaited c m.ph = fun buf => (promptEnd (anchor p) buf).isSome)
    (ht : ∀ T', l.timeout = some T' → ∃ r, t = some r ∧ b.st.now + r ≤ start + T') :
    ∃ m', LCtx c l start (rd (readUntilPrompt (some p) t) b).2 m'
      ∧ WaitSim b m t (errOf (rd (readUntilPrompt (some p) t) b).1) (rd (readUntilPrompt (some p) t) b).2 m' := by
  have hst : b.st.streams = streamsOf m.ph := by rw [h.streams]; simp [streamsOf, hlog]
  obtain ⟨m', hinv', hw⟩ := sim_rup c b m h.inv (some p) t (anchor p) rfl hread haw h.lastT hst hf.acc hf.hit
  refine ⟨m', ⟨hinv', h.cfg, ?_, ?_, ?_, hw.sim.lastT, ?_, ?_, ?_, Nat.le_trans h.ge hw.sim.mono⟩, hw⟩
  · rw [hw.sim.blacklist]; exact h.ok
  · rw [hw.sim.streams]; exact h.streams
  · rw [hw.sim.start]; exact h.mstart
  · cases hT : l.timeout with
    | none => rfl
    | some T' =>
      obtain ⟨r, hr, hle⟩ := ht T' hT
      have := hw.dead r hr
      simp only [within]
      exact decide_eq_true (by omega)
  · rw [hw.sim.ubLog, hw.sim.ubSet, hw.sim.ulog (by rw [hlog]; decide)]; exact h.ublog
  · rw [hw.sim.lnxSet]; exact h.lnxSet


/-- `read_until_timeout` in a phase of the Linux stage in which the awaited text has arrived -/
theorem lnx_rut (c : Board.Case) (l : LnxCfg) (start : Nat) (b : BS) (m : Mon) (h : LCtx c l start b m)
    (T : Nat) (x : Nat) (hread : reading m.ph = true) (hlog : logId m.ph = 2) (hh : m.hit = some x)
    (hdl : ∀ T', l.timeout = some T' → b.st.now + T ≤ start + T') :
    ∃ m' v, (rd (readUntilTimeout (some T)) b).1 = .ok v
      ∧ LCtx c l start (rd (readUntilTimeout (some T)) b).2 m' ∧ m'.ph = m.ph ∧ m'.hit = some x
      ∧ (rd (readUntilTimeout (some T)) b).2.st.now = b.st.now + T := by
  have hst : b.st.streams = streamsOf m.ph := by rw [h.streams]; simp [streamsOf, hlog]
  obtain ⟨recs, v, hv, hrd, hnow⟩ := rut_out T { b.st with reads := [] } h.inv.calm.cutReads
  obtain ⟨hinv', hsim, hst'⟩ := sim_rd (readUntilTimeout (some T)) c b m h.inv hread h.lastT hst (some T) b.st.now recs hrd
  refine ⟨_, v, hv, ⟨hinv', h.cfg, ?_, ?_, ?_, hsim.lastT, ?_, ?_, ?_, Nat.le_trans h.ge hsim.mono⟩, hsim.ph, ?_, ?_⟩
  · rw [hsim.blacklist]; exact h.ok
  · rw [hsim.streams]; exact h.streams
  · rw [hsim.start]; exact h.mstart
  · rw [hst']
    cases hT : l.timeout with
    | none => rfl
    | some T' =>
      have := hdl T' hT
      simp only [within]
      exact decide_eq_true (by rw [hnow]; exact this)
  · rw [hsim.ubLog, hsim.ubSet, hsim.ulog (by rw [hlog]; decide)]; exact h.ublog
  · rw [hsim.lnxSet]; exact h.lnxSet
  · rw [rdAll_eq]
    simp only [hh, hitOf_some]
  · rw [hst']; exact hnow

/-- failure inside the stream attachment of the Linux stage -/
structure LFail (c : Board.Case) (b : BS) (m : Mon) (e : Exc) : Prop where
  inv : Inv c b m
  streams : b.st.streams = [2]
  ublog : b.ubLog = if m.ubSet then some m.ulog else none
  lnxSet : m.lnxSet = true
  acc : accept c m b.st.now (some e) = true

theorem LCtx.fail {c : Board.Case} {l : LnxCfg} {start : Nat} {b : BS} {m : Mon} (h : LCtx c l start b m) {e : Exc}
    (ha : accept c m b.st.now (some e) = true) : LFail c b m e :=
  ⟨h.inv, h.streams, h.ublog, h.lnxSet, ha⟩

/-- a wait for the login prompt with the time that remains of `boot_timeout`, in `login1` or `login2` -/
theorem lnx_loginWait (c : Board.Case) (l : LnxCfg) (start : Nat) (b : BS) (m : Mon) (h : LCtx c l start b m)
    (hf : Fresh b m) (hph : m.ph = .login1 ∨ m.ph = .login2) :
    match lnxLoginWait l start b with
    | (.ok _, b') => ∃ m', LCtx c l start b' m' ∧ m'.ph = m.ph ∧ m'.hit = some b'.st.now ∧ m'.t0 = m.t0
    | (.error e, b') => ∃ m', LFail c b' m' e := by
  have hphw : m.ph = .ask ∨ m.ph = .login1 ∨ m.ph = .login2 ∨ m.ph = .pw := by
    rcases hph with h | h
    · exact Or.inr (Or.inl h)
    · exact Or.inr (Or.inr (Or.inl h))
  have hphh : m.ph = .ask ∨ m.ph = .login1 ∨ m.ph = .login2 := by
    rcases hph with h | h
    · exact Or.inr (Or.inl h)
    · exact Or.inr (Or.inr h)
  unfold lnxLoginWait
  rcases tmoRemaining_cases l.timeout start b with ⟨h1, T', hT, hle⟩ | ⟨rem, h1, hn, hs⟩
  · rw [h1]
    refine ⟨m, h.fail ?_⟩
    exact accept_tmo_wait c l m _ h.cfg hphw T' hT (by rw [h.mstart]; exact le_of_within hT h.dl) hf.hit
  · rw [h1]
    simp only
    have hread : reading m.ph = true := by rcases hph with h | h <;> rw [h] <;> rfl
    have hlog : logId m.ph = 2 := by rcases hph with h | h <;> rw [h] <;> rfl
    have haw : awaited c m.ph = fun buf => (promptEnd (anchor (.lit l.login)) buf).isSome := by
      rcases hph with h' | h' <;> (rw [h']; funext buf; simp [awaited, h.cfg, anchor])
    obtain ⟨m', hctx', hw⟩ := lnx_rup c l start b m h hf (.lit l.login) rem hread hlog haw (by
      intro T' hT
      obtain ⟨hlt, hr⟩ := hs T' hT
      refine ⟨_, hr, ?_⟩
      have := le_of_within hT h.dl
      omega)
    generalize rd (readUntilPrompt (some (.lit l.login)) rem) b = out at hctx' hw
    obtain ⟨r, b'⟩ := out
    cases r with
    | ok v =>
      simp only
      exact ⟨m', hctx', hw.sim.ph, hw.ok rfl, hw.sim.t0⟩
    | error e =>
      simp only
      refine ⟨m', hctx'.fail ?_⟩
      obtain ⟨hhit, hk⟩ := hw.bad e rfl
      rcases hk with ⟨rfl, T, hT, hnow⟩ | ⟨rfl, hT⟩
      · cases hTl : l.timeout with
        | none => rw [hn hTl] at hT; simp at hT
        | some T' =>
          exact accept_tmo_wait c l m' _ h.cfg (by rw [hw.sim.ph]; exact hphw) T' hTl
            (by rw [hctx'.mstart]; exact le_of_within hTl hctx'.dl) hhit
      · cases hTl : l.timeout with
        | some T' => rw [(hs T' hTl).2] at hT; simp at hT
        | none =>
          exact accept_hang_wait c l m' _ h.cfg (by rw [hw.sim.ph]; exact hphh) hTl hhit hw.sim.lastT.symm


/-! ### the monitor's steps for the writes of the Linux stage -/

theorem afterUser_eq (l : LnxCfg) (t : Nat) (m : Mon) :
    afterUser l t m = wait (if l.password.isSome then .pw else .done) t t m := by
  unfold afterUser; split <;> rfl

theorem step_ask (c : Board.Case) (l : LnxCfg) (m : Mon) (t : Nat) (hcfg : c.lnx = some l) (hph : m.ph = .ask)
    (hh : m.hit = some t) (hw : within l.timeout m.start t = true) :
    step c m (.wr t ([] ++ [13])) = some (wait .login1 t t m) := by
  simp [step, hph, hcfg, hh, hw]

theorem step_delayEnter (c : Board.Case) (l : LnxCfg) (m : Mon) (t th : Nat) (hcfg : c.lnx = some l)
    (hph : m.ph = .login1) (hd : l.delay ≠ 0) (hh : m.hit = some th) (ht : t = th + l.delay)
    (hw : within l.timeout m.start t = true) :
    step c m (.wr t ([] ++ [13])) = some (wait .login2 t t m) := by
  subst ht
  simp [step, hph, hcfg, hh, hw, hd]

theorem step_user (c : Board.Case) (l : LnxCfg) (m : Mon) (t : Nat) (hcfg : c.lnx = some l)
    (hph : (m.ph = .login1 ∧ l.delay = 0) ∨ m.ph = .login2)
    (hh : m.hit = some t) (hw : within l.timeout m.start t = true) :
    step c m (.wr t (l.user ++ [13])) = some (wait (if l.password.isSome then .pw else .done) t t m) := by
  rw [← afterUser_eq]
  rcases hph with ⟨h1, h2⟩ | h1
  · simp [step, h1, hcfg, hh, hw, h2]
  · simp [step, h1, hcfg, hh, hw]

theorem step_pw (c : Board.Case) (l : LnxCfg) (m : Mon) (t : Nat) (pw : Bytes) (hcfg : c.lnx = some l)
    (hpw : l.password = some pw) (hph : m.ph = .pw) (hh : m.hit = some t) (hw : within l.timeout m.start t = true) :
    step c m (.wr t (pw ++ [13])) = some (wait .done t t m) := by
  simp [step, hph, hcfg, hh, hw, hpw]

/-- the `login_delay != 0` branch, entered when the login prompt has just been seen -/
theorem lnxDelay_sim (c : Board.Case) (l : LnxCfg) (start : Nat) (b : BS) (m : Mon) (h : LCtx c l start b m)
    (hph : m.ph = .login1) (hh : m.hit = some b.st.now) (hd : l.delay ≠ 0) :
    match lnxDelay l start b with
    | (.ok _, b') => ∃ m', LCtx c l start b' m' ∧ m'.ph = .login2 ∧ m'.hit = some b'.st.now
    | (.error e, b') => ∃ m', LFail c b' m' e := by
  unfold lnxDelay
  rcases tmoRemaining_cases l.timeout start b with ⟨h1, T', hT, hle⟩ | ⟨rem, h1, hn, hs⟩
  · rw [h1]
    exact ⟨m, h.fail (accept_tmo_delay c l m _ h.cfg hph hd T' hT (by rw [h.mstart]; exact le_of_within hT h.dl))⟩
  · rw [h1]
    simp only
    cases hcv : exceeds l.delay rem with
    | true =>
      have : ∃ T', l.timeout = some T' := by
        cases hTl : l.timeout with
        | none => rw [hn hTl] at hcv; simp [exceeds] at hcv
        | some T' => exact ⟨T', rfl⟩
      obtain ⟨T', hTl⟩ := this
      simp only [if_true]
      exact ⟨m, h.fail (accept_tmo_delay c l m _ h.cfg hph hd T' hTl (by rw [h.mstart]; exact le_of_within hTl h.dl))⟩
    | false =>
      simp only [Bool.false_eq_true, if_false]
      have hge := hcv
      obtain ⟨m1, v, hv, hctx1, hph1, hhit1, hnow1⟩ := lnx_rut c l start b m h l.delay b.st.now
        (by rw [hph]; rfl) (by rw [hph]; rfl) hh (by
          intro T' hT
          obtain ⟨hlt, hr⟩ := hs T' hT
          rw [hr] at hge
          simp [exceeds] at hge
          have := le_of_within hT h.dl
          omega)
      generalize rd (readUntilTimeout (some l.delay)) b = out at hv hctx1 hnow1
      obtain ⟨r1, b1⟩ := out
      simp only at hv hctx1 hnow1
      subst hv
      simp only
      rw [hph] at hph1
      obtain ⟨hok, hctx2, hf2, hnow2⟩ := lnx_sendline c l start b1 m1 hctx1 [] (by decide) hctx1.ok.crBl .login2
        (step_delayEnter c l m1 _ _ h.cfg hph1 hd hhit1 hnow1 (by rw [hctx1.mstart]; exact hctx1.dl))
      generalize wr (sendline [] false none) b1 = out at hok hctx2 hf2 hnow2
      obtain ⟨r2, b2⟩ := out
      simp only at hok hctx2 hf2 hnow2
      subst hok
      simp only
      have := lnx_loginWait c l start b2 _ hctx2 hf2 (Or.inr rfl)
      generalize lnxLoginWait l start b2 = out at this
      obtain ⟨r3, b3⟩ := out
      cases r3 with
      | ok v3 =>
        obtain ⟨m3, hc3, hp3, hh3, _⟩ := this
        exact ⟨m3, hc3, hp3, hh3⟩
      | error e => exact this


/-- the `password is not None` branch, entered when the user name has just been sent -/
theorem lnxPassword_sim (c : Board.Case) (l : LnxCfg) (start : Nat) (b : BS) (m : Mon) (h : LCtx c l start b m)
    (hf : Fresh b m) (hph : m.ph = .pw) (pw : Bytes) (hpw : l.password = some pw) :
    match lnxPassword l pw start b with
    | (.ok _, b') => ∃ m', LCtx c l start b' m' ∧ step c m' (.lnxReady b'.st.now) = some { m' with ph := .lnxUp }
    | (.error e, b') => ∃ m', LFail c b' m' e := by
  have hphw : m.ph = .ask ∨ m.ph = .login1 ∨ m.ph = .login2 ∨ m.ph = .pw := Or.inr (Or.inr (Or.inr hph))
  unfold lnxPassword
  rcases tmoRemaining_cases l.timeout start b with ⟨h1, T', hT, hle⟩ | ⟨rem, h1, hn, hs⟩
  · rw [h1]
    exact ⟨m, h.fail (accept_tmo_wait c l m _ h.cfg hphw T' hT (by rw [h.mstart]; exact le_of_within hT h.dl) hf.hit)⟩
  · rw [h1]
    simp only
    generalize htmo : pwTimeout l.noPw rem = timeout
    unfold pwTimeout at htmo
    have haw : awaited c m.ph = fun buf => (promptEnd (anchor l.pwPrompt) buf).isSome := by
      rw [hph]; funext buf; simp [awaited, h.cfg]
    -- the time-out of the wait never reaches beyond the boot time-out
    have hbound : ∀ T', l.timeout = some T' → ∃ r, timeout = some r ∧ b.st.now + r ≤ start + T' := by
      intro T' hT
      obtain ⟨hlt, hr⟩ := hs T' hT
      have hdl := le_of_within hT h.dl
      have hge := h.ge
      subst hr
      cases hnp : l.noPw with
      | none => rw [hnp] at htmo; exact ⟨_, htmo.symm, by omega⟩
      | some n =>
        rw [hnp] at htmo
        refine ⟨_, htmo.symm, ?_⟩
        have := Nat.min_le_left (T' - (b.st.now - start)) n
        omega
    obtain ⟨m', hctx', hw⟩ := lnx_rup c l start b m h hf l.pwPrompt timeout (by rw [hph]; rfl) (by rw [hph]; rfl) haw hbound
    generalize rd (readUntilPrompt (some l.pwPrompt) timeout) b = out at hctx' hw
    obtain ⟨r, b'⟩ := out
    have hph' : m'.ph = .pw := by rw [hw.sim.ph]; exact hph
    cases r with
    | ok v =>
      try simp only
      have hhit := hw.ok rfl
      obtain ⟨hok, hctx2, hf2, hnow2⟩ := lnx_sendline c l start b' m' hctx' pw (h.ok.pwLen pw hpw)
        (by rw [hw.sim.blacklist]; exact h.ok.pwBl pw hpw) .done
        (step_pw c l m' _ pw h.cfg hpw hph' hhit (by rw [hctx'.mstart]; exact hctx'.dl))
      generalize wr (sendline pw false none) b' = out at hok hctx2 hf2 hnow2
      obtain ⟨r2, b2⟩ := out
      simp only at hok hctx2 hf2 hnow2
      subst hok
      refine ⟨_, hctx2, ?_⟩
      simp [step, wait, h.cfg, hnow2]
    | error e =>
      obtain ⟨hhit, hk⟩ := hw.bad e rfl
      rcases hk with ⟨rfl, T, hT, hnow⟩ | ⟨rfl, hT⟩
      · -- `TimeoutError`: is it the boot time-out?
        have hnow : b'.st.now = b.st.now + T := hnow
        have hctx' : LCtx c l start b' m' := hctx'
        try simp only
        rcases tmoRemaining_cases l.timeout start b' with ⟨h2, T', hT', hle'⟩ | ⟨rem2, h2, hn2, hs2⟩
        · rw [h2]
          exact ⟨m', hctx'.fail (accept_tmo_wait c l m' _ h.cfg (Or.inr (Or.inr (Or.inr hph'))) T' hT'
            (by rw [hctx'.mstart]; exact le_of_within hT' hctx'.dl) hhit)⟩
        · rw [h2]
          simp only
          refine ⟨m', hctx', ?_⟩
          -- no: `no_password_timeout` ran out
          cases hnp : l.noPw with
          | none =>
            exfalso
            rw [hnp] at htmo
            subst htmo
            cases hTl : l.timeout with
            | none => rw [hn hTl] at hT; simp at hT
            | some T' =>
              obtain ⟨hlt, hr⟩ := hs T' hTl
              obtain ⟨hlt2, _⟩ := hs2 T' hTl
              rw [hr] at hT
              simp only [Option.some.injEq] at hT
              have := h.ge
              omega
          | some n =>
            rw [hnp] at htmo
            have hTn : T = n := by
              cases hrem : rem with
              | none =>
                rw [hrem] at htmo
                rw [← htmo] at hT
                simpa using hT.symm
              | some r =>
                rw [hrem] at htmo
                rw [← htmo] at hT
                simp only [Option.some.injEq] at hT
                cases hTl : l.timeout with
                | none => rw [hn hTl] at hrem; simp at hrem
                | some T' =>
                  obtain ⟨hlt, hr⟩ := hs T' hTl
                  obtain ⟨hlt2, _⟩ := hs2 T' hTl
                  rw [hrem] at hr
                  simp only [Option.some.injEq] at hr
                  have := h.ge
                  have hmin : min r n = r ∨ min r n = n := by omega
                  omega
            subst hTn
            have ht0 : m'.t0 = b.st.now := by rw [hw.sim.t0]; exact hf.t0
            simp [step, hph', h.cfg, hnp, hhit, hnow, ht0, hctx'.lastT, hctx'.mstart]
            have := hctx'.dl
            rw [hnow] at this
            exact this
      · try simp only
        refine ⟨m', hctx'.fail ?_⟩
        have hnp : l.noPw = none := by
          cases hnp : l.noPw with
          | none => rfl
          | some n => rw [hnp] at htmo; subst htmo; cases rem <;> simp at hT
        have hTl : l.timeout = none := by
          cases hTl : l.timeout with
          | none => rfl
          | some T' =>
            rw [hnp] at htmo
            rw [← htmo, (hs T' hTl).2] at hT
            simp at hT
        exact accept_hang_pw c l m' _ h.cfg hph' hTl hnp hhit hctx'.lastT.symm


/-- the body of `LinuxBootLogin._init_machine` -/
theorem lnxLoginBody_sim (c : Board.Case) (l : LnxCfg) (start : Nat) (b : BS) (m : Mon) (h : LCtx c l start b m)
    (hf : Fresh b m) (hph : m.ph = .login1) :
    match lnxLoginBody l start b with
    | (.ok _, b') => ∃ m', LCtx c l start b' m' ∧ step c m' (.lnxReady b'.st.now) = some { m' with ph := .lnxUp }
    | (.error e, b') => ∃ m', LFail c b' m' e := by
  unfold lnxLoginBody
  have h1 := lnx_loginWait c l start b m h hf (Or.inl hph)
  generalize lnxLoginWait l start b = out at h1
  obtain ⟨r1, b1⟩ := out
  cases r1 with
  | error e => exact h1
  | ok v1 =>
    obtain ⟨m1, hc1, hp1, hh1, _⟩ := h1
    rw [hph] at hp1
    simp only
    -- the optional login delay
    have h2 : match (if l.delay = 0 then ((.ok (), b1) : R Unit) else lnxDelay l start b1) with
        | (.ok _, b') => ∃ m', LCtx c l start b' m' ∧ ((m'.ph = .login1 ∧ l.delay = 0) ∨ m'.ph = .login2)
            ∧ m'.hit = some b'.st.now
        | (.error e, b') => ∃ m', LFail c b' m' e := by
      by_cases hd : l.delay = 0
      · rw [if_pos hd]
        exact ⟨m1, hc1, Or.inl ⟨hp1, hd⟩, hh1⟩
      · rw [if_neg hd]
        have := lnxDelay_sim c l start b1 m1 hc1 hp1 hh1 hd
        generalize lnxDelay l start b1 = out at this
        obtain ⟨r, b'⟩ := out
        cases r with
        | error e => exact this
        | ok v =>
          obtain ⟨m', hc', hp', hh'⟩ := this
          exact ⟨m', hc', Or.inr hp', hh'⟩
    generalize (if l.delay = 0 then ((.ok (), b1) : R Unit) else lnxDelay l start b1) = out at h2
    obtain ⟨r2, b2⟩ := out
    cases r2 with
    | error e => exact h2
    | ok v2 =>
      obtain ⟨m2, hc2, hp2, hh2⟩ := h2
      simp only
      obtain ⟨hok, hc3, hf3, hnow3⟩ := lnx_sendline c l start b2 m2 hc2 l.user hc2.ok.userLen hc2.ok.userBl
        (if l.password.isSome then .pw else .done)
        (step_user c l m2 _ h.cfg hp2 hh2 (by rw [hc2.mstart]; exact hc2.dl))
      generalize wr (sendline l.user false none) b2 = out at hok hc3 hf3 hnow3
      obtain ⟨r3, b3⟩ := out
      simp only at hok hc3 hf3 hnow3
      subst hok
      simp only
      cases hpw : l.password with
      | none =>
        simp only
        refine ⟨_, hc3, ?_⟩
        simp [step, wait, hpw, h.cfg, hnow3]
      | some pw =>
        simp only
        rw [hpw] at hc3 hf3
        exact lnxPassword_sim c l start b3 _ hc3 hf3 rfl pw hpw


/-! ### attaching and detaching the startup event -/

theorem streamOn_inv (c : Board.Case) (id : Nat) (b : BS) (m : Mon) (h : Inv c b m) : Inv c (streamOn id b) m :=
  { mon := h.mon, calm := ⟨h.calm.wf, h.calm.chunk, h.calm.deaths, rfl⟩, accept := h.accept, slow := h.slow,
    slice := h.slice, con := h.con, ulog := h.ulog, llog := h.llog }

theorem streamExit_shown (id : Nat) (s : St) (hlp : s.logPrompt = true) :
    streamExit id true s = { s with streams := s.streams.erase id } := by
  cases s
  simp only at hlp
  subst hlp
  simp [streamExit, exitFlush, exitKeep]

theorem streamOff_inv (c : Board.Case) (id : Nat) (b : BS) (m : Mon) (h : Inv c b m) : Inv c (streamOff id b) m := by
  unfold streamOff
  rw [streamExit_shown id b.st h.calm.lp]
  exact { mon := h.mon, calm := ⟨h.calm.wf, h.calm.chunk, h.calm.deaths, h.calm.lp⟩, accept := h.accept, slow := h.slow,
          slice := h.slice, con := h.con, ulog := h.ulog, llog := h.llog }

theorem streamOff_streams (id : Nat) (b : BS) (hlp : b.st.logPrompt = true) :
    (streamOff id b).st.streams = b.st.streams.erase id := by
  unfold streamOff
  rw [streamExit_shown id b.st hlp]

theorem streamOff_now (id : Nat) (b : BS) : (streamOff id b).st.now = b.st.now := rfl
theorem streamOff_blacklist (id : Nat) (b : BS) : (streamOff id b).st.blacklist = b.st.blacklist := rfl
theorem streamOff_prompt (id : Nat) (b : BS) : (streamOff id b).st.prompt = b.st.prompt := rfl

/-- the Linux boot stage with no stream attached (between the initializers) -/
structure LOut (c : Board.Case) (l : LnxCfg) (start : Nat) (b : BS) (m : Mon) : Prop where
  inv : Inv c b m
  cfg : c.lnx = some l
  ok : LnxOk l b.st.blacklist
  streams : b.st.streams = []
  mstart : m.start = start
  lastT : m.lastT = b.st.now
  dl : within l.timeout start b.st.now = true
  ublog : b.ubLog = if m.ubSet then some m.ulog else none
  lnxSet : m.lnxSet = true
  ge : start ≤ b.st.now

theorem LOut.on {c : Board.Case} {l : LnxCfg} {start : Nat} {b : BS} {m : Mon} (h : LOut c l start b m) :
    LCtx c l start (streamOn 2 b) m :=
  { inv := streamOn_inv c 2 b m h.inv, cfg := h.cfg, ok := h.ok,
    streams := by show b.st.streams ++ [2] = [2]; rw [h.streams]; rfl
    mstart := h.mstart, lastT := h.lastT, dl := h.dl, ublog := h.ublog, lnxSet := h.lnxSet, ge := h.ge }

theorem LCtx.off {c : Board.Case} {l : LnxCfg} {start : Nat} {b : BS} {m : Mon} (h : LCtx c l start b m) :
    LOut c l start (streamOff 2 b) m :=
  { inv := streamOff_inv c 2 b m h.inv, cfg := h.cfg, ok := h.ok,
    streams := by rw [streamOff_streams 2 b h.inv.calm.lp, h.streams]; rfl
    mstart := h.mstart, lastT := h.lastT, dl := h.dl, ublog := h.ublog, lnxSet := h.lnxSet, ge := h.ge }

/-- bring-up has ended with `e` in a state the monitor accepts; the bootlogs are what it computed -/
structure Final (c : Board.Case) (b : BS) (m : Mon) (e : Option Exc) : Prop where
  mon : steps c {} b.evs = some m
  acc : accept c m b.st.now e = true
  ublog : b.ubLog = if m.ubSet then some m.ulog else none
  lnxlog : b.lnxLog = if m.lnxSet then some m.llog else none

theorem LFail.final {c : Board.Case} {b : BS} {m : Mon} {e : Exc} (h : LFail c b m e) :
    Final c (closeLnx (streamOff 2 b)) m (some e) :=
  { mon := h.inv.mon, acc := h.acc, ublog := h.ublog
    lnxlog := by
      rw [h.lnxSet]
      show some (logOf 2 (streamOff 2 b).st.fwd) = some m.llog
      rw [(streamOff_inv c 2 b m h.inv).llog] }

/-- `LinuxBootLogin._init_machine` -/
theorem lnxLogin_sim (c : Board.Case) (l : LnxCfg) (start : Nat) (b : BS) (m : Mon) (h : LOut c l start b m)
    (hf : Fresh b m) (hph : m.ph = .login1) (s? : Option Nat) (hs : s?.getD b.st.now = start) :
    match lnxLogin l s? b with
    | (.ok _, b') => ∃ m', steps c {} b'.evs = some m'
        ∧ step c m' (.lnxReady b'.st.now) = some { m' with ph := .lnxUp } ∧ m'.lastT = b'.st.now
        ∧ b'.ubLog = (if m'.ubSet then some m'.ulog else none)
        ∧ b'.lnxLog = (if m'.lnxSet then some m'.llog else none)
    | (.error e, b') => ∃ m', Final c b' m' (some e) := by
  unfold lnxLogin
  simp only
  have hs' : s?.getD (streamOn 2 b).st.now = start := hs
  rw [hs']
  have := lnxLoginBody_sim c l start (streamOn 2 b) m h.on ⟨hf.acc, hf.hit, hf.t0⟩ hph
  generalize lnxLoginBody l start (streamOn 2 b) = out at this
  obtain ⟨r, b'⟩ := out
  cases r with
  | error e =>
    obtain ⟨m', hfail⟩ := this
    exact ⟨m', hfail.final⟩
  | ok v =>
    obtain ⟨m', hc', hstep⟩ := this
    have hout := hc'.off
    refine ⟨m', hc'.inv.mon, hstep, hc'.lastT, hc'.ublog, ?_⟩
    · show some (logOf 2 (streamOff 2 b').st.fwd) = (if m'.lnxSet then some m'.llog else none)
      rw [hc'.lnxSet, hout.inv.llog]
      rfl


/-- `AskfirstInitializer._init_machine`, at the beginning of the Linux boot stage -/
theorem lnxAskfirst_sim (c : Board.Case) (l : LnxCfg) (start : Nat) (b : BS) (m : Mon) (h : LOut c l start b m)
    (hf : Fresh b m) (hph : m.ph = .ask) (hst : start = b.st.now) (banner : Bytes) (hask : l.askfirst = some banner) :
    match lnxAskfirst l banner b with
    | (.ok s, b') => s = start ∧ ∃ m', LOut c l start b' m' ∧ Fresh b' m' ∧ m'.ph = .login1
    | (.error e, b') => ∃ m', Final c b' m' (some e) := by
  unfold lnxAskfirst
  simp only
  have hc := h.on
  have hf0 : Fresh (streamOn 2 b) m := ⟨hf.acc, hf.hit, hf.t0⟩
  have hstr : (streamOn 2 b).st.streams = streamsOf m.ph := by rw [hc.streams, hph]; rfl
  have haw : awaited c m.ph = fun buf => (firstMatch buf 0 [.lit banner]).isSome := by
    rw [hph]; funext buf; simp [awaited, h.cfg, hask]
  obtain ⟨m1, hinv1, hw⟩ := sim_expect c (streamOn 2 b) m hc.inv [.lit banner] l.timeout (by rw [hph]; rfl) haw hc.lastT
    hstr hf.acc hf.hit
  have hnow0 : (streamOn 2 b).st.now = b.st.now := rfl
  have hc1 : LCtx c l start (rd (expect [.lit banner] l.timeout) (streamOn 2 b)).2 m1 := by
    refine ⟨hinv1, h.cfg, ?_, ?_, ?_, hw.sim.lastT, ?_, ?_, ?_, Nat.le_trans hc.ge hw.sim.mono⟩
    · rw [hw.sim.blacklist]; exact hc.ok
    · rw [hw.sim.streams]; exact hc.streams
    · rw [hw.sim.start]; exact hc.mstart
    · refine within_of_dead fun T' hT => ?_
      have := hw.dead T' hT
      rw [hnow0] at this
      omega
    · rw [hw.sim.ubLog, hw.sim.ubSet, hw.sim.ulog (by rw [hph]; decide)]; exact hc.ublog
    · rw [hw.sim.lnxSet]; exact hc.lnxSet
  generalize rd (expect [.lit banner] l.timeout) (streamOn 2 b) = out at hc1 hw
  obtain ⟨r, b1⟩ := out
  have hph1 : m1.ph = .ask := by rw [hw.sim.ph]; exact hph
  cases r with
  | error e =>
    dsimp only
    refine ⟨m1, (hc1.fail ?_).final⟩
    obtain ⟨hhit, hk⟩ := hw.bad e rfl
    rcases hk with ⟨rfl, T, hT, _⟩ | ⟨rfl, hT⟩
    · exact accept_tmo_wait c l m1 _ h.cfg (Or.inl hph1) T hT
        (by rw [hc1.mstart]; exact le_of_within hT hc1.dl) hhit
    · exact accept_hang_wait c l m1 _ h.cfg (Or.inl hph1) hT hhit hc1.lastT.symm
  | ok v =>
    have hhit := hw.ok rfl
    have hc1 : LCtx c l start b1 m1 := hc1
    obtain ⟨hok, hc2, hf2, hnow2⟩ := lnx_sendline c l start b1 m1 hc1 [] (by decide) hc1.ok.crBl .login1
      (step_ask c l m1 _ h.cfg hph1 hhit (by rw [hc1.mstart]; exact hc1.dl))
    dsimp only
    generalize wr (sendline [] false none) b1 = out at hok hc2 hf2 hnow2
    obtain ⟨r2, b2⟩ := out
    simp only at hok hc2 hf2 hnow2
    subst hok
    dsimp only
    exact ⟨hst.symm, _, hc2.off, ⟨hf2.acc, hf2.hit, hf2.t0⟩, rfl⟩

/-- the initializers and `init()` of the Linux machine, from the moment the boot stage begins -/
theorem lnxUp_sim (c : Board.Case) (l : LnxCfg) (b : BS) (m : Mon) (h : LOut c l b.st.now b m)
    (hf : Fresh b m) (hph : m.ph = if l.askfirst.isSome then .ask else .login1) :
    ∃ m', Final c (lnxUp l b).2 m' (errOf (lnxUp l b).1) := by
  unfold lnxUp
  -- after the optional askfirst stage
  have h1 : match lnxAskStage l b with
      | (.ok s?, b') => s?.getD b'.st.now = b.st.now ∧ ∃ m', LOut c l b.st.now b' m' ∧ Fresh b' m' ∧ m'.ph = .login1
      | (.error e, b') => ∃ m', Final c b' m' (some e) := by
    unfold lnxAskStage
    cases hask : l.askfirst with
    | none =>
      rw [hask] at hph
      exact ⟨rfl, m, h, hf, hph⟩
    | some banner =>
      rw [hask] at hph
      have := lnxAskfirst_sim c l b.st.now b m h hf hph rfl banner hask
      simp only
      generalize lnxAskfirst l banner b = out at this
      obtain ⟨r, b'⟩ := out
      cases r with
      | error e => exact this
      | ok s =>
        obtain ⟨hs, m', h1, h2, h3⟩ := this
        exact ⟨by rw [hs]; rfl, m', h1, h2, h3⟩
  generalize lnxAskStage l b = out at h1
  obtain ⟨r1, b1⟩ := out
  cases r1 with
  | error e => exact h1
  | ok s? =>
    obtain ⟨hs, m1, hout1, hf1, hph1⟩ := h1
    dsimp only
    have := lnxLogin_sim c l b.st.now b1 m1 hout1 hf1 hph1 s? hs
    generalize lnxLogin l s? b1 = out at this
    obtain ⟨r2, b2⟩ := out
    cases r2 with
    | error e => exact this
    | ok v =>
      obtain ⟨m2, hmon, hstep, hlast, hul, hll⟩ := this
      refine ⟨{ m2 with ph := .lnxUp }, ?_, ?_, hul, hll⟩
      · show steps c {} (b2.evs ++ [.lnxReady b2.st.now]) = _
        rw [steps_append, hmon]
        simp only [Option.bind, steps, hstep]
      · show accept c { m2 with ph := .lnxUp } b2.st.now none = true
        simp [accept, hout1.cfg, hlast]

end Board
