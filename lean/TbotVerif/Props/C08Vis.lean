import TbotVerif.Props.C08Eff
import TbotVerif.Props.C08Text
/-! C08 — nothing suppressed (`_log_prompt = True`): `_write_stream` hands every delivery, whole, to every
    attached stream.  Byte level (`SS.writes_show`, `Eff.vis`) and the text fragments one stream then
    observes (`fwdFor_visFwd`), for any number of attached streams. -/

namespace C08
open Chan Spec C03 ChanCase

/-- what the deliveries `ds` append to the forwarded log while nothing is suppressed: every delivery,
    whole, to every attached stream (in the order of `_streams`) -/
def visFwd (S : List Nat) (ds : List Bytes) : List (Nat × Bytes) :=
  (ds.map fun d => S.map fun i => (i, d)).flatten

theorem visFwd_nil (S : List Nat) : visFwd S [] = [] := rfl

theorem visFwd_cons (S : List Nat) (d : Bytes) (ds : List Bytes) :
    visFwd S (d :: ds) = S.map (fun i => (i, d)) ++ visFwd S ds := rfl

/-- one `_write_stream` call with suppression off -/
theorem SS.write_show (b : Bytes) (x : SS) (h : x.logPrompt = true) :
    x.write b = { x with fwd := x.fwd ++ x.streams.map (fun i => (i, b)) } := by
  obtain ⟨S, lp, p, sb, F⟩ := x
  simp only at h
  subst h
  unfold SS.write
  cases S with
  | nil => simp
  | cons i S => simp [split]

/-- any sequence of deliveries with suppression off: nothing but the forwarded log changes -/
theorem SS.writes_show (ds : List Bytes) (x : SS) (h : x.logPrompt = true) :
    x.writes ds = { x with fwd := x.fwd ++ visFwd x.streams ds } := by
  induction ds generalizing x with
  | nil =>
    obtain ⟨S, lp, p, sb, F⟩ := x
    simp [visFwd_nil]
  | cons d ds ih =>
    rw [SS.writes_cons, SS.write_show d x h]
    rw [ih { x with fwd := x.fwd ++ x.streams.map (fun i => (i, d)) } h, visFwd_cons]
    simp only [List.append_assoc]

/-- **an operation that reads, with suppression off**: the forwarded log of the operation is every delivery,
    whole, once per attached stream; mode, attached streams, hold-back buffer and prompt are as before -/
theorem Eff.vis {r : RunSt} {op : Op} (h : Eff r op) (hlp : r.st.logPrompt = true) :
    (obsOp op r).2.st.fwd = visFwd r.st.streams (delivered (obsOp op r).1)
    ∧ (obsOp op r).2.st.streams = r.st.streams ∧ (obsOp op r).2.st.logPrompt = true
    ∧ (obsOp op r).2.st.streambuf = r.st.streambuf ∧ (obsOp op r).2.st.prompt = r.st.prompt := by
  obtain ⟨q, _, hss⟩ := h.ss
  have hx : ((ssOf (cut r.st)).withPrompt q).logPrompt = true := hlp
  rw [SS.writes_show _ _ hx] at hss
  refine ⟨?_, congrArg SS.streams hss, (congrArg SS.logPrompt hss).trans hlp, congrArg SS.streambuf hss,
    congrArg SS.prompt hss⟩
  have := congrArg SS.fwd hss
  exact this.trans (List.nil_append _)

/-! ### what one stream observes -/

theorem fwdText_nil : fwdText [] = [] := rfl

theorem fwdText_append (a b : List (Nat × Bytes)) : fwdText (a ++ b) = fwdText a ++ fwdText b := by
  simp [fwdText, List.map_append, List.filter_append]

theorem fwdFor_append (id : Nat) (a b : List (Nat × List Char)) : fwdFor id (a ++ b) = fwdFor id a ++ fwdFor id b := by
  simp [fwdFor, List.filter_append, List.map_append]

theorem visText_nil : visText [] = [] := rfl

theorem visText_cons (d : Bytes) (ds : List Bytes) : visText (d :: ds) = visText [d] ++ visText ds := by
  simp [visText, List.filter_cons]
  split <;> simp

/-- a text `t` tagged with every stream id of `S`, as seen by stream `id` -/
theorem fwdFor_tagged (id : Nat) (t : List Char) (S : List Nat) (hS : S.Nodup) :
    fwdFor id (S.map fun i => (i, t)) = if id ∈ S then [t] else [] := by
  induction S with
  | nil => rfl
  | cons i S ih =>
    have hn := List.nodup_cons.mp hS
    have ih' := ih hn.2
    by_cases hi : i = id
    · subst hi
      have : fwdFor i ((i, t) :: S.map fun j => (j, t)) = t :: fwdFor i (S.map fun j => (j, t)) := by
        simp [fwdFor]
      rw [List.map_cons, this, ih']
      simp [hn.1]
    · have : fwdFor id ((i, t) :: S.map fun j => (j, t)) = fwdFor id (S.map fun j => (j, t)) := by
        simp [fwdFor, hi]
      rw [List.map_cons, this, ih']
      have hne : ¬ id = i := fun h => hi h.symm
      simp [hne]

theorem fwdText_cons' (x : Nat × Bytes) (F : List (Nat × Bytes)) :
    fwdText (x :: F) = if (decodeReplace x.2).isEmpty then fwdText F else (x.1, decodeReplace x.2) :: fwdText F := by
  unfold fwdText
  simp only [List.map_cons, List.filter_cons]
  cases (decodeReplace x.2).isEmpty <;> simp

theorem fwdText_tagged (S : List Nat) (d : Bytes) :
    fwdText (S.map fun i => (i, d))
      = if (decodeReplace d).isEmpty then [] else S.map fun i => (i, decodeReplace d) := by
  induction S with
  | nil => simp [fwdText_nil]
  | cons i S ih =>
    rw [List.map_cons, fwdText_cons', ih]
    cases (decodeReplace d).isEmpty <;> simp

/-- one delivery -/
theorem fwdFor_one (id : Nat) (S : List Nat) (d : Bytes) (hS : S.Nodup) :
    fwdFor id (fwdText (S.map fun i => (i, d))) = if id ∈ S then visText [d] else [] := by
  rw [fwdText_tagged]
  cases hemp : (decodeReplace d).isEmpty with
  | true =>
    have h2 : visText [d] = [] := by simp [visText, hemp]
    rw [h2]
    simp [fwdFor]
  | false =>
    have h2 : visText [d] = [decodeReplace d] := by simp [visText, hemp]
    rw [h2]
    simp only [Bool.false_eq_true, if_false]
    exact fwdFor_tagged id (decodeReplace d) S hS

/-- **what stream `id` observes of the deliveries `ds` with suppression off**: one text fragment per
    delivery, in order, if it is attached (once) — nothing if it is not -/
theorem fwdFor_visFwd (id : Nat) (S : List Nat) (ds : List Bytes) (hS : S.Nodup) :
    fwdFor id (fwdText (visFwd S ds)) = if id ∈ S then visText ds else [] := by
  induction ds with
  | nil => simp [visFwd_nil, fwdText_nil, fwdFor, visText_nil]
  | cons d ds ih =>
    rw [visFwd_cons, fwdText_append, fwdFor_append, ih, fwdFor_one id S d hS, visText_cons d ds]
    split <;> simp

theorem visOk_single (v : Bool) (a : Att) (o : OpObs) (h : v = true → fwdFor a.id o.fwd = visText (delivered o)) :
    visOk v [a] o = true := by
  cases v with
  | false => rfl
  | true => simp [visOk, h rfl]

end C08
