import TbotVerif.Props.UBootExec
/-! C19 — U-Boot `exec` / `exec0` / `test` / `env` over the console model: every call returns the
    status the console reported and the text of exactly what the command printed — for EVERY
    fragmentation schedule, chunk size and slice count — including the `crc32` / `"=> "` prompt
    override; `env(v, x); env(v)` returns `x`; table facts about the regenerated write black-list.

    Hypotheses of the theorems (`UBoot.wellformed`, decidable): every argument / name / value is
    printable (ASCII 0x20–0x7E and everything ≥ 0x80 — the quantifier of C19; the quoting theorem
    `C19Q.hushWords_escape` has the same domain), names are legal, and every stream a
    `read_until_prompt` has to get through ends with the prompt in force and has no shorter prefix
    that does (NO-EARLY-PROMPT, at the level of the stream so that it covers every cutting).
    Without it tbot cannot tell output from prompt: `early_prompt_confuses` is the witness. -/

namespace C19
open UBoot Chan UBootChan UBootCon UBootSend UBootText UBootExec

/-! ### table facts (regenerated black-list) -/

/-- every key the console's line editor acts on is on the write black-list: tbot cannot send it -/
theorem special_forbidden : UBoot.special.all (fun c => Params.ubootBlacklist.contains c) = true := by decide

/-- 0x03 — the console's interrupt key and hush's internal variable marker — cannot be sent -/
theorem intr_forbidden : Params.ubootBlacklist.contains 0x03 = true := by decide

/-- the black-list holds control bytes only -/
theorem blacklist_control_only : Params.ubootBlacklist.all (fun c => !Hush.printable c) = true := by decide

/-- the bytes quoting introduces, and Enter, are not forbidden -/
theorem quoting_bytes_sendable :
    [Quote.SQ, Quote.DQ, Hush.BS, Quote.SP, UBoot.CR].all (fun c => !Params.ubootBlacklist.contains c) = true := by decide

/-- the prompt `exec` waits for in the crc32 special case is a newline and the `=> ` prompt -/
theorem crc_override_eq : Params.ubootCrcOverride = UBoot.LF :: UBoot.crcPrompt := by decide

/-- printable bytes can be sent and are echoed as they are -/
theorem printable_sendable (c : Byte) (h : Hush.printable c = true) :
    Params.ubootBlacklist.contains c = false ∧ UBoot.special.contains c = false := by
  constructor
  · cases hc : Params.ubootBlacklist.contains c with
    | false => rfl
    | true =>
      have := List.all_eq_true.mp blacklist_control_only c (by simpa using hc)
      simp [h] at this
  · cases hc : UBoot.special.contains c with
    | false => rfl
    | true =>
      have := List.all_eq_true.mp UBootCon.special_control c (by simpa using hc)
      simp [h] at this

/-! ### one command -/

theorem enter_inv (P : Bytes) (op : UOp) (ss : Sess) (h : Inv P ss) : Inv P (enter op ss) :=
  { quiet := ⟨h.quiet.deaths, h.quiet.accept, h.quiet.slow, h.quiet.chunk, h.quiet.slice, h.quiet.wf⟩
    script := h.script, prompt := h.prompt, bl := h.bl, line := h.line, cprompt := h.cprompt }

/-- **T (exec).**  On a session with nothing pending whose console maps `args` to `(out, status)`:
    `exec(*args)` returns `(status, text(out as sent over the serial line))`, the console has
    dispatched exactly `args` and then `echo $?` — for every fragmentation schedule `ss.cuts`,
    every chunk size, every number of 512-byte slices. -/
theorem exec_exact (P : Bytes) (hP : P ≠ []) (args : List Bytes) (o : Bytes) (status : Nat)
    (ss : Sess) (hinv : Inv P ss) (ht : ss.con.table = some ⟨args, o, status⟩)
    (hne : args ≠ []) (hp : ∀ a ∈ args, a.all Hush.printable = true)
    (hgood : (cmdWins P args o status).all Win.good = true) :
    ∃ ss', exec args ss = (.ok (status, text (Tty.cook o)), ss') ∧ Inv P ss'
      ∧ ss'.con.ran = ss.con.ran ++ [Ran.argv args, Ran.status] ∧ ss'.con.env = ss.con.env
      ∧ ss'.con.table = ss.con.table := by
  have hd := dispatch_hit args o status ss.con ht
  obtain ⟨ss', hex, hinv', hcon'⟩ := exec_general P hP args ss hinv hne hp (by rw [hd]; exact hgood)
  rw [hd] at hex hcon'
  refine ⟨ss', hex, hinv', ?_, ?_, ?_⟩
  · rw [hcon']; simp
  · rw [hcon']
  · rw [hcon']

/-- **T (crc32 / `"=> "` override).**  The special case of `exec_exact` the statement singles
    out: with the `=> ` prompt and `crc32` as the command, tbot waits for `"\n=> "` instead of the
    prompt — and still returns `(status, text(output))`: the newline the override swallowed is
    restored (and the CR in front of it dropped). -/
theorem exec_crc_exact (rest : List Bytes) (o : Bytes) (status : Nat) (ss : Sess) (hinv : Inv crcPrompt ss)
    (ht : ss.con.table = some ⟨crcName :: rest, o, status⟩)
    (hp : ∀ a ∈ rest, a.all Hush.printable = true)
    (hgood : (winsOf crcPrompt Params.ubootCrcOverride (Hush.escape (crcName :: rest)) o status).all Win.good = true) :
    isCrc (crcName :: rest) ss.st = true ∧
    ∃ ss', exec (crcName :: rest) ss = (.ok (status, text (Tty.cook o)), ss') ∧ Inv crcPrompt ss' := by
  constructor
  · rw [isCrc_eq crcPrompt _ _ hinv.prompt]; simp
  · obtain ⟨ss', h1, h2, _⟩ := exec_exact crcPrompt (by decide) (crcName :: rest) o status ss hinv ht (by simp)
      (by
        intro a ha
        rcases List.mem_cons.mp ha with rfl | ha
        · decide
        · exact hp a ha)
      (by
        have : effPrompt crcPrompt (crcName :: rest) = Params.ubootCrcOverride := by simp [effPrompt]
        unfold cmdWins
        rw [this]; exact hgood)
    exact ⟨ss', h1, h2⟩

/-- **T (exec0).**  `exec0` returns the same text and raises `CommandFailure` iff the status is
    not zero. -/
theorem exec0_raises_iff (P : Bytes) (hP : P ≠ []) (args : List Bytes) (o : Bytes) (status : Nat)
    (ss : Sess) (hinv : Inv P ss) (ht : ss.con.table = some ⟨args, o, status⟩)
    (hne : args ≠ []) (hp : ∀ a ∈ args, a.all Hush.printable = true)
    (hgood : (cmdWins P args o status).all Win.good = true) :
    ((exec0 args ss).1 = .ok (text (Tty.cook o)) ↔ status = 0)
      ∧ ((exec0 args ss).1 = .error .commandFailure ↔ status ≠ 0) := by
  obtain ⟨ss', hex, _⟩ := exec_exact P hP args o status ss hinv ht hne hp hgood
  unfold exec0
  rw [hex]
  simp only
  by_cases h0 : status = 0
  · simp [h0]
  · simp [h0]

/-- **T (test).**  `test` is `status == 0`. -/
theorem test_iff (P : Bytes) (hP : P ≠ []) (args : List Bytes) (o : Bytes) (status : Nat)
    (ss : Sess) (hinv : Inv P ss) (ht : ss.con.table = some ⟨args, o, status⟩)
    (hne : args ≠ []) (hp : ∀ a ∈ args, a.all Hush.printable = true)
    (hgood : (cmdWins P args o status).all Win.good = true) :
    (test args ss).1 = .ok (status == 0) := by
  obtain ⟨ss', hex, _⟩ := exec_exact P hP args o status ss hinv ht hne hp hgood
  unfold test
  rw [hex]

/-- **T (every fragmentation).**  Two sessions that differ in nothing but the fragmentation
    schedule of the console's output and the channel's chunk size return the same. -/
theorem exec_fragmentation (P : Bytes) (hP : P ≠ []) (args : List Bytes) (o : Bytes) (status : Nat)
    (ss : Sess) (hinv : Inv P ss) (ht : ss.con.table = some ⟨args, o, status⟩)
    (hne : args ≠ []) (hp : ∀ a ∈ args, a.all Hush.printable = true)
    (hgood : (cmdWins P args o status).all Win.good = true) (cuts : List Nat) (chunk : Nat) (hc : 0 < chunk) :
    (exec args { ss with cuts := cuts, st := { ss.st with chunk := chunk } }).1 = (exec args ss).1 := by
  obtain ⟨_, h1, _⟩ := exec_exact P hP args o status ss hinv ht hne hp hgood
  have hinv' : Inv P { ss with cuts := cuts, st := { ss.st with chunk := chunk } } :=
    { quiet := ⟨hinv.quiet.deaths, hinv.quiet.accept, hinv.quiet.slow, hc, hinv.quiet.slice, hinv.quiet.wf⟩
      script := hinv.script, prompt := hinv.prompt, bl := hinv.bl, line := hinv.line, cprompt := hinv.cprompt }
  obtain ⟨_, h2, _⟩ := exec_exact P hP args o status _ hinv' ht hne hp hgood
  rw [h1, h2]

/-! ### the environment -/

theorem setenvB_printable : setenvB.all Hush.printable = true := by decide
theorem printenvB_printable : printenvB.all Hush.printable = true := by decide

theorem effPrompt_setenv (P var x : Bytes) : effPrompt P (setenvArgs var x) = P := by
  have : ((setenvArgs var x).head? == some crcName) = false := by
    show (some setenvB == some crcName) = false
    decide
  simp [effPrompt, this]

theorem effPrompt_printenv (P var : Bytes) : effPrompt P (printenvArgs var) = P := by
  have : ((printenvArgs var).head? == some crcName) = false := by
    show (some printenvB == some crcName) = false
    decide
  simp [effPrompt, this]

theorem printable_noCrLf (b : Bytes) (h : printableB b = true) : ∀ c ∈ b, c ≠ 13 ∧ c ≠ 10 := by
  intro c hc
  have := List.all_eq_true.mp h c hc
  constructor <;> intro he <;> subst he <;> exact absurd this (by decide)

/-- `exec0("printenv", var)` on a console without a table row, variable defined -/
theorem printenv_defined (P : Bytes) (hP : P ≠ []) (var x : Bytes) (ss : Sess) (hinv : Inv P ss)
    (ht : ss.con.table = none) (hv : printableB var = true) (hx : envGet ss.con.env var = some x)
    (hgood : (winsOf P P (Hush.escape (printenvArgs var)) (printLine var x) 0).all Win.good = true) :
    ∃ ss', exec0 (printenvArgs var) ss = (.ok (text (Tty.cook (printLine var x))), ss') ∧ Inv P ss'
      ∧ ss'.con.ran = ss.con.ran ++ [Ran.argv (printenvArgs var), Ran.status] ∧ ss'.con.env = ss.con.env
      ∧ ss'.con.table = none := by
  have hd : dispatch (printenvArgs var) ss.con
      = (printLine var x, { ss.con with ran := ss.con.ran ++ [Ran.argv (printenvArgs var)], status := 0 }) := by
    have := dispatch_printenv var ss.con ht
    rw [hx] at this
    exact this
  obtain ⟨ss', hex, hinv', hcon'⟩ := exec_general P hP (printenvArgs var) ss hinv (by simp [printenvArgs])
    (by
      intro a ha
      simp only [printenvArgs, List.mem_cons, List.not_mem_nil, or_false] at ha
      rcases ha with rfl | rfl
      · exact printenvB_printable
      · exact hv)
    (by rw [hd]; unfold cmdWins; rw [effPrompt_printenv]; exact hgood)
  rw [hd] at hex hcon'
  refine ⟨ss', ?_, hinv', ?_, ?_, ?_⟩
  · unfold exec0; rw [hex]; simp
  · rw [hcon']; simp
  · rw [hcon']
  · rw [hcon']; exact ht

/-- `exec0("printenv", var)`, variable not defined: `CommandFailure` -/
theorem printenv_undefined (P : Bytes) (hP : P ≠ []) (var : Bytes) (ss : Sess) (hinv : Inv P ss)
    (ht : ss.con.table = none) (hv : printableB var = true) (hx : envGet ss.con.env var = none)
    (hgood : (winsOf P P (Hush.escape (printenvArgs var)) (notDefinedMsg var) 1).all Win.good = true) :
    ∃ ss', exec0 (printenvArgs var) ss = (.error .commandFailure, ss') ∧ Inv P ss'
      ∧ ss'.con.ran = ss.con.ran ++ [Ran.argv (printenvArgs var), Ran.status] ∧ ss'.con.env = ss.con.env := by
  have hd : dispatch (printenvArgs var) ss.con
      = (notDefinedMsg var, { ss.con with ran := ss.con.ran ++ [Ran.argv (printenvArgs var)], status := 1 }) := by
    have := dispatch_printenv var ss.con ht
    rw [hx] at this
    exact this
  obtain ⟨ss', hex, hinv', hcon'⟩ := exec_general P hP (printenvArgs var) ss hinv (by simp [printenvArgs])
    (by
      intro a ha
      simp only [printenvArgs, List.mem_cons, List.not_mem_nil, or_false] at ha
      rcases ha with rfl | rfl
      · exact printenvB_printable
      · exact hv)
    (by rw [hd]; unfold cmdWins; rw [effPrompt_printenv]; exact hgood)
  rw [hd] at hex hcon'
  refine ⟨ss', ?_, hinv', ?_, ?_⟩
  · unfold exec0; rw [hex]; simp
  · rw [hcon']; simp
  · rw [hcon']

/-- `exec0("setenv", var, x)` on a console without a table row -/
theorem setenv_ok (P : Bytes) (hP : P ≠ []) (var x : Bytes) (ss : Sess) (hinv : Inv P ss)
    (ht : ss.con.table = none) (hv : printableB var = true) (hn : nameOk var = true) (hxp : printableB x = true)
    (hgood : (winsOf P P (Hush.escape (setenvArgs var x)) [] 0).all Win.good = true) :
    ∃ ss', exec0 (setenvArgs var x) ss = (.ok (text (Tty.cook [])), ss') ∧ Inv P ss'
      ∧ ss'.con.ran = ss.con.ran ++ [Ran.argv (setenvArgs var x), Ran.status]
      ∧ ss'.con.env = envSet ss.con.env var x ∧ ss'.con.table = none := by
  have hd : dispatch (setenvArgs var x) ss.con
      = ([], { ss.con with ran := ss.con.ran ++ [Ran.argv (setenvArgs var x)], status := 0,
                           env := envSet ss.con.env var x }) := dispatch_setenv var x ss.con ht hn
  obtain ⟨ss', hex, hinv', hcon'⟩ := exec_general P hP (setenvArgs var x) ss hinv (by simp [setenvArgs])
    (by
      intro a ha
      simp only [setenvArgs, List.mem_cons, List.not_mem_nil, or_false] at ha
      rcases ha with rfl | rfl | rfl
      · exact setenvB_printable
      · exact hv
      · exact hxp)
    (by rw [hd]; unfold cmdWins; rw [effPrompt_setenv]; exact hgood)
  rw [hd] at hex hcon'
  refine ⟨ss', ?_, hinv', ?_, ?_, ?_⟩
  · unfold exec0; rw [hex]; simp
  · rw [hcon']; simp
  · rw [hcon']
  · rw [hcon']; exact ht

/-- **T (env).**  `env(var, x)` sets the variable and returns `x`; `env(var)` afterwards returns
    `x` again — for printable (hence single-line) `x`, legal `var`, every fragmentation. -/
theorem env_roundtrip (P : Bytes) (hP : P ≠ []) (var x : Bytes) (ss : Sess) (hinv : Inv P ss)
    (ht : ss.con.table = none) (hv : printableB var = true) (hn : nameOk var = true) (hxp : printableB x = true)
    (hgood : (envSetWins P var x).all Win.good = true) :
    ∃ ss', UBoot.env var (some x) ss = (.ok (decodeReplace x), ss') ∧ Inv P ss'
      ∧ ss'.con.ran = ss.con.ran ++ [Ran.argv (setenvArgs var x), Ran.status, Ran.argv (printenvArgs var), Ran.status]
      ∧ ss'.con.env = envSet ss.con.env var x ∧ ss'.con.table = none
      ∧ ∃ ss'', UBoot.env var none ss' = (.ok (decodeReplace x), ss'') ∧ Inv P ss''
          ∧ ss''.con.env = ss'.con.env := by
  unfold envSetWins at hgood
  rw [List.all_append, Bool.and_eq_true] at hgood
  obtain ⟨hg1, hg2⟩ := hgood
  obtain ⟨ss1, h1, hinv1, hran1, henv1, ht1⟩ := setenv_ok P hP var x ss hinv ht hv hn hxp hg1
  have hget1 : envGet ss1.con.env var = some x := by rw [henv1]; exact envGet_envSet _ _ _
  obtain ⟨ss2, h2, hinv2, hran2, henv2, ht2⟩ := printenv_defined P hP var x ss1 hinv1 ht1 hv hget1 hg2
  have hslice := sliceValue_printLine var x (printable_noCrLf var hv) (printable_noCrLf x hxp)
  refine ⟨ss2, ?_, hinv2, ?_, by rw [henv2, henv1], ht2, ?_⟩
  · have h1' : exec0 [setenvB, var, x] ss = (.ok (text (Tty.cook [])), ss1) := h1
    have h2' : exec0 [printenvB, var] ss1 = (.ok (text (Tty.cook (printLine var x))), ss2) := h2
    unfold UBoot.env
    simp only [h1', h2', hslice]
  · rw [hran2, hran1]; simp
  · have hget2 : envGet ss2.con.env var = some x := by rw [henv2]; exact hget1
    obtain ⟨ss3, h3, hinv3, _, henv3, _⟩ := printenv_defined P hP var x ss2 hinv2 ht2 hv hget2 hg2
    refine ⟨ss3, ?_, hinv3, henv3⟩
    have h3' : exec0 [printenvB, var] ss2 = (.ok (text (Tty.cook (printLine var x))), ss3) := h3
    unfold UBoot.env
    simp only [h3', hslice]

/-! ### the Spec holds of the model -/

/-- invariant of the run loop: the session is between two calls, the console's environment is the
    reference environment, every stored value is printable -/
structure RunInv (P : Bytes) (e : List (Bytes × Bytes)) (ss : Sess) : Prop where
  inv : Inv P ss
  henv : ss.con.env = e
  vals : ∀ p ∈ e, printableB p.2 = true

theorem envSet_vals (env : List (Bytes × Bytes)) (k v : Bytes) (h : ∀ p ∈ env, printableB p.2 = true)
    (hv : printableB v = true) : ∀ p ∈ envSet env k v, printableB p.2 = true := by
  intro p hp
  simp only [envSet, envDel, List.mem_cons, List.mem_filter] at hp
  rcases hp with rfl | ⟨hp, _⟩
  · exact hv
  · exact h p hp

theorem mem_of_envGet : ∀ (env : List (Bytes × Bytes)) (k v : Bytes), envGet env k = some v → ∃ p ∈ env, p.2 = v
  | [], _, _, h => by simp [envGet] at h
  | (a, b) :: t, k, v, h => by
    simp only [envGet, List.lookup] at h
    split at h
    · exact ⟨(a, b), List.mem_cons_self .., by simpa using h⟩
    · obtain ⟨p, hp, hpv⟩ := mem_of_envGet t k v h
      exact ⟨p, List.mem_cons_of_mem _ hp, hpv⟩

theorem printableB_iff (args : List Bytes) (h : args.all printableB = true) : ∀ a ∈ args, a.all Hush.printable = true :=
  fun a ha => List.all_eq_true.mp h a ha

theorem special_quoting : Quote.SP ∉ UBoot.special ∧ Quote.SQ ∉ UBoot.special ∧ Quote.DQ ∉ UBoot.special
    ∧ Hush.BS ∉ UBoot.special := by decide

theorem sendable_escape (args : List Bytes) (hp : ∀ a ∈ args, a.all Hush.printable = true) :
    sendable (Hush.escape args) = true := by
  unfold sendable
  rw [escape_sendable args hp]
  rfl

theorem noSpecial_escape (args : List Bytes) (hp : ∀ a ∈ args, a.all Hush.printable = true) :
    hasSpecial (Hush.escape args) = false := by
  unfold hasSpecial Quote.forbidden
  rw [List.any_eq_false]
  intro c hc
  have := escape_avoids UBoot.special special_quoting UBootCon.special_control args hp c hc
  simpa using this

theorem verdict_tail (stopc good : Bool) (hg : good = true) (env : List (Bytes × Bytes)) :
    (if stopc = true then Verdict.stop else if good = true then Verdict.ok env else Verdict.bad) = .ok env
    ∨ (if stopc = true then Verdict.stop else if good = true then Verdict.ok env else Verdict.bad) = .stop := by
  cases stopc
  · left; simp [hg]
  · right; rfl

/-- the verdict on a command call whose observation carries the demanded value and console log -/
theorem cmd_verdict (c : UCase) (env : List (Bytes × Bytes)) (k : Kind) (args : List Bytes) (out : Bytes)
    (status : Nat) (o : UObs) (hne : args.isEmpty = false) (hpr : args.all printableB = true)
    (hran : o.ran = [Ran.argv args, Ran.status])
    (hval : (match k with
      | .exec => decide (o.val = .rc status (text (Tty.cook out)))
      | .exec0 => if status = 0 then decide (o.val = .out (text (Tty.cook out)))
                  else decide (o.val = .err "command-failure")
      | .test => decide (o.val = .bool (status == 0))) = true) :
    specOp c env (.cmd k args out status) o = .ok env ∨ specOp c env (.cmd k args out status) o = .stop := by
  have hp := printableB_iff args hpr
  unfold specOp
  simp only [sendable_escape args hp, noSpecial_escape args hp, hne, hpr, Bool.not_true, Bool.false_eq_true,
    if_false, Bool.or_self]
  apply verdict_tail
  rw [Bool.and_eq_true]
  exact ⟨hval, by rw [hran]; simp⟩

theorem runOps_length : ∀ (ops : List UOp) (ss : Sess), (UBoot.runOps ops ss).length = ops.length
  | [], _ => rfl
  | _ :: ops, ss => by simp [UBoot.runOps, runOps_length ops]

/-- one call: the verdict is `ok` (or `stop`: an early-prompt piece boundary, which the stream
    hypothesis rules out but the Spec does not need to know), and the invariant is kept -/
theorem runOp_spec (c : UCase) (hP : c.prompt ≠ []) (env : List (Bytes × Bytes)) (op : UOp) (ss : Sess)
    (hri : RunInv c.prompt env ss) (hwf : wfOp c.prompt env op = true) :
    (specOp c env op (UBoot.runOp op ss).1 = .ok (nextEnv env op) ∨ specOp c env op (UBoot.runOp op ss).1 = .stop)
      ∧ RunInv c.prompt (nextEnv env op) (UBoot.runOp op ss).2 := by
  have hinv0 := enter_inv c.prompt op ss hri.inv
  cases op with
  | cmd k args out status =>
    simp only [wfOp, Bool.and_eq_true, Bool.not_eq_true'] at hwf
    obtain ⟨⟨hne, hpr⟩, hgood⟩ := hwf
    have hne' : args ≠ [] := by intro h; subst h; simp at hne
    obtain ⟨ss', hex, hinv', hran, henv, _⟩ := exec_exact c.prompt hP args out status
      (enter (.cmd k args out status) ss) hinv0 rfl hne' (printableB_iff args hpr) hgood
    have hran' : ss'.con.ran = [Ran.argv args, Ran.status] := by rw [hran]; rfl
    have henv' : ss'.con.env = env := by rw [henv]; exact hri.henv
    have hri' : RunInv c.prompt env ss' := ⟨hinv', henv', hri.vals⟩
    cases k with
    | exec =>
      have hrun : UBoot.runOp (.cmd .exec args out status) ss
          = (obsOf (.rc status (text (Tty.cook out))) ss', ss') := by
        unfold UBoot.runOp valOf; simp only [hex]
      rw [hrun]
      exact ⟨cmd_verdict c env .exec args out status _ hne hpr hran' (by simp [obsOf]), hri'⟩
    | exec0 =>
      by_cases h0 : status = 0
      · subst h0
        have hrun : UBoot.runOp (.cmd .exec0 args out 0) ss
            = (obsOf (.out (text (Tty.cook out))) ss', ss') := by
          unfold UBoot.runOp valOf exec0; simp only [hex, if_true]
        rw [hrun]
        exact ⟨cmd_verdict c env .exec0 args out 0 _ hne hpr hran' (by simp [obsOf]), hri'⟩
      · have hrun : UBoot.runOp (.cmd .exec0 args out status) ss
            = (obsOf (.err "command-failure") ss', ss') := by
          unfold UBoot.runOp valOf exec0; simp only [hex, h0, if_false]; rfl
        rw [hrun]
        exact ⟨cmd_verdict c env .exec0 args out status _ hne hpr hran' (by simp [obsOf, h0]), hri'⟩
    | test =>
      have hrun : UBoot.runOp (.cmd .test args out status) ss
          = (obsOf (.bool (status == 0)) ss', ss') := by
        unfold UBoot.runOp valOf test; simp only [hex]
      rw [hrun]
      exact ⟨cmd_verdict c env .test args out status _ hne hpr hran' (by simp [obsOf]), hri'⟩
  | env var value =>
    cases value with
    | some x =>
      simp only [wfOp, Bool.and_eq_true] at hwf
      obtain ⟨⟨⟨hv, hn⟩, hxp⟩, hgood⟩ := hwf
      obtain ⟨ss', hex, hinv', hran, henv, _, _⟩ := env_roundtrip c.prompt hP var x
        (enter (.env var (some x)) ss) hinv0 rfl hv hn hxp hgood
      have hran' : ss'.con.ran
          = [Ran.argv (setenvArgs var x), Ran.status, Ran.argv (printenvArgs var), Ran.status] := by
        rw [hran]; rfl
      have hrun : UBoot.runOp (.env var (some x)) ss = (obsOf (.out (decodeReplace x)) ss', ss') := by
        unfold UBoot.runOp valOf; simp only [hex]
      rw [hrun]
      refine ⟨?_, ⟨hinv', ?_, ?_⟩⟩
      · have hp : ∀ a ∈ setenvArgs var x, a.all Hush.printable = true := by
          intro a ha
          simp only [setenvArgs, List.mem_cons, List.not_mem_nil, or_false] at ha
          rcases ha with rfl | rfl | rfl
          · exact setenvB_printable
          · exact hv
          · exact hxp
        unfold specOp
        simp only [sendable_escape _ hp, noSpecial_escape _ hp, hv, hn, hxp, Bool.not_true, Bool.false_eq_true,
          if_false, Bool.and_self]
        apply verdict_tail
        simp [obsOf, hran']
      · show ss'.con.env = envSet env var x
        rw [henv]
        exact congrArg (fun e => envSet e var x) hri.henv
      · exact envSet_vals env var x hri.vals hxp
    | none =>
      simp only [wfOp, Bool.and_eq_true] at hwf
      obtain ⟨hv, hgood⟩ := hwf
      have hp : ∀ a ∈ printenvArgs var, a.all Hush.printable = true := by
        intro a ha
        simp only [printenvArgs, List.mem_cons, List.not_mem_nil, or_false] at ha
        rcases ha with rfl | rfl
        · exact printenvB_printable
        · exact hv
      have henv0 : (enter (.env var none) ss).con.env = env := hri.henv
      cases hcur : envGet env var with
      | some x =>
        rw [hcur] at hgood
        obtain ⟨p, hpm, hpx⟩ := mem_of_envGet env var x hcur
        have hxp : printableB x = true := by rw [← hpx]; exact hri.vals p hpm
        obtain ⟨ss', hex, hinv', hran, henv, _⟩ := printenv_defined c.prompt hP var x
          (enter (.env var none) ss) hinv0 rfl hv (by rw [henv0]; exact hcur) hgood
        have hran' : ss'.con.ran = [Ran.argv (printenvArgs var), Ran.status] := by rw [hran]; rfl
        have hslice := sliceValue_printLine var x (printable_noCrLf var hv) (printable_noCrLf x hxp)
        have hex' : exec0 [printenvB, var] (enter (.env var none) ss)
            = (.ok (text (Tty.cook (printLine var x))), ss') := hex
        have hrun : UBoot.runOp (.env var none) ss = (obsOf (.out (decodeReplace x)) ss', ss') := by
          unfold UBoot.runOp valOf UBoot.env; simp only [hex', hslice]
        rw [hrun]
        refine ⟨?_, ⟨hinv', by rw [henv]; exact henv0, hri.vals⟩⟩
        unfold specOp
        simp only [sendable_escape _ hp, noSpecial_escape _ hp, hv, hcur, Bool.not_true, Bool.false_eq_true, if_false]
        apply verdict_tail
        simp [obsOf, hran']
      | none =>
        rw [hcur] at hgood
        obtain ⟨ss', hex, hinv', hran, henv⟩ := printenv_undefined c.prompt hP var
          (enter (.env var none) ss) hinv0 rfl hv (by rw [henv0]; exact hcur) hgood
        have hran' : ss'.con.ran = [Ran.argv (printenvArgs var), Ran.status] := by rw [hran]; rfl
        have hex' : exec0 [printenvB, var] (enter (.env var none) ss) = (.error .commandFailure, ss') := hex
        have hrun : UBoot.runOp (.env var none) ss = (obsOf (.err "command-failure") ss', ss') := by
          unfold UBoot.runOp valOf UBoot.env; simp only [hex']; rfl
        rw [hrun]
        refine ⟨?_, ⟨hinv', by rw [henv]; exact henv0, hri.vals⟩⟩
        unfold specOp
        simp only [sendable_escape _ hp, noSpecial_escape _ hp, hv, hcur, Bool.not_true, Bool.false_eq_true, if_false]
        apply verdict_tail
        simp [obsOf, hran']

theorem runOps_spec (c : UCase) (hP : c.prompt ≠ []) : ∀ (ops : List UOp) (env : List (Bytes × Bytes)) (ss : Sess),
    RunInv c.prompt env ss → wfOps c.prompt env ops = true → specOps c env ops (UBoot.runOps ops ss) = true
  | [], _, _, _, _ => rfl
  | op :: ops, env, ss, hri, hwf => by
    simp only [wfOps, Bool.and_eq_true] at hwf
    obtain ⟨h1, h2⟩ := runOp_spec c hP env op ss hri hwf.1
    unfold UBoot.runOps specOps
    rcases h1 with h1 | h1
    · rw [h1]
      exact runOps_spec c hP ops _ _ h2 hwf.2
    · rw [h1]
      simp [runOps_length]

theorem init_inv (c : UCase) (hc : 0 < c.chunk) : RunInv c.prompt [] (init c) :=
  { inv := {
      quiet := ⟨rfl, rfl, rfl, hc, by show 0 < Params.sendSliceSize; decide, by intro p hp; simp [init] at hp⟩
      script := rfl, prompt := rfl, bl := rfl, line := rfl, cprompt := rfl }
    henv := rfl
    vals := by intro p hp; simp at hp }

/-- **C19 (exec / exec0 / test / env).**  For EVERY case — any prompt, chunk size, fragmentation
    schedule, any sequence of calls with any printable arguments, outputs, statuses, names and
    values — that satisfies the no-early-prompt hypothesis, the model's observation satisfies the
    specification. -/
theorem spec_holds (c : UCase) (h : wellformed c = true) : Spec.C19 c (run c) = true := by
  simp only [wellformed, Bool.and_eq_true, decide_eq_true_eq, Bool.not_eq_true'] at h
  obtain ⟨⟨hc, hP⟩, hwf⟩ := h
  have hP' : c.prompt ≠ [] := by intro hn; rw [hn] at hP; simp at hP
  exact runOps_spec c hP' c.ops [] (init c) (init_inv c hc) hwf

/-! ### non-vacuity, and what the hypotheses exclude -/

/-- prompt `=> `, chunk size 3, the console's output cut into 1-, 2-, 3- and 5-byte pieces:
    `exec("echo", "a b'c\\")` → `hi\n`; `env("foo", "bar $x")`; `env("foo")`;
    `exec0("crc32", "0")` → `ab ==> xy\n` (the override is active); `test("f")` with status 7 -/
def demo : UCase := ⟨[61, 62, 32], 3, [1, 2, 3, 1, 2, 3, 1, 2, 3, 5, 5, 5, 5, 5, 5],
  [.cmd .exec [[101, 99, 104, 111], [97, 32, 98, 39, 99, 92]] [104, 105, 10] 0,
   .env [102, 111, 111] (some [98, 97, 114, 32, 36, 120]),
   .env [102, 111, 111] none,
   .cmd .exec0 [crcName, [48]] [97, 98, 32, 61, 61, 62, 32, 120, 121, 10] 0,
   .cmd .test [[102]] [] 7]⟩

set_option maxRecDepth 100000 in
/-- the hypotheses of `spec_holds` are satisfiable by a non-trivial case … -/
example : wellformed demo = true := by decide +kernel

set_option maxRecDepth 100000 in
/-- … on which the model returns what was put in -/
example : (run demo).map (·.val) =
    [.rc 0 ['h', 'i', '\n'], .out ['b', 'a', 'r', ' ', '$', 'x'], .out ['b', 'a', 'r', ' ', '$', 'x'],
     .out ['a', 'b', ' ', '=', '=', '>', ' ', 'x', 'y', '\n'], .bool false] := by decide +kernel

example : Spec.C19 demo (run demo) = true := spec_holds demo (by decide +kernel)

/-- prompt `=> `, `exec("md")` prints `=> x\n`, and the transport hands out the 4 echo bytes, then
    exactly the 3 bytes `=> `: a piece boundary right behind a prompt look-alike -/
def early : UCase := ⟨[61, 62, 32], 4096, [4, 3], [.cmd .exec [[109, 100]] [61, 62, 32, 120, 10] 0]⟩

set_option maxRecDepth 100000 in
/-- **the no-early-prompt hypothesis is needed** (and is a property of tbot's protocol, not of the
    model): with that boundary tbot takes the look-alike for the prompt — the output comes back
    empty and the status read is garbage.  The case is not `wellformed`, and the Spec claims
    nothing about it (`stop`). -/
theorem early_prompt_confuses :
    wellformed early = false ∧ (run early).map (·.val) = [.err "invalid-retcode"]
      ∧ Spec.C19 early (run early) = true := by decide +kernel

/-- **F13** (repaired in the tree this model mirrors): without dropping the left-over CR, the
    crc32 workaround returns `…\r\n` where the text of the output is `…\n` -/
theorem crc_defect_witness :
    text ([97] ++ [13]) ++ ['\n'] ≠ text ([97] ++ [13, 10])
      ∧ stripCr (text ([97] ++ [13])) ++ ['\n'] = text ([97] ++ [13, 10]) := by decide

end C19
