import TbotVerif.Spec.UBoot
import TbotVerif.Props.C19Q
/-! C19 — U-Boot exec / exec0 / test / env over the console model. -/

namespace C19
open UBoot Chan

/-! ### table facts (regenerated black-list) -/

/-- every key the console's line editor acts on is on the write black-list: tbot cannot send it -/
theorem special_forbidden : UBoot.special.all (fun c => Params.ubootBlacklist.contains c) = true := by decide

/-- 0x03 — the console's interrupt key and hush's internal variable marker — cannot be sent -/
theorem intr_forbidden : Params.ubootBlacklist.contains 0x03 = true := by decide

/-- the black-list holds control bytes only -/
theorem blacklist_control_only : Params.ubootBlacklist.all (fun c => !Hush.printable c) = true := by decide

/-- the bytes quoting introduces, and Enter, are not forbidden -/
theorem quoting_bytes_sendable :
    [Quote.SQ, Quote.DQ, Hush.BS, Quote.SP, UBoot.CR].all (fun c => !Params.ubootBlacklist.contains c) = true := by decide

/-- the prompt `exec` waits for in the crc32 special case is a newline and the `=> ` prompt -/
theorem crc_override_eq : Params.ubootCrcOverride = UBoot.LF :: UBoot.crcPrompt := by decide

end C19
