import TbotVerif.Props.UBootExec
/-! C19 — U-Boot `exec` / `exec0` / `test` / `env` over the console model: every call returns the
    status the console reported and the text of exactly what the command printed — for EVERY
    fragmentation schedule, chunk size and slice count — including the `crc32` / `"=> "` prompt
    override; `env(v, x); env(v)` returns `x`; table facts about the regenerated write black-list.

    Hypotheses of the theorems (`UBoot.wellformed`, decidable): every argument / name / value is
    printable (ASCII 0x20–0x7E and everything ≥ 0x80 — the quantifier of C19; the quoting theorem
    `C19Q.hushWords_escape` has the same domain), names are legal, and every stream a
    `read_until_prompt` has to get through ends with the prompt in force and has no shorter prefix
    that does (NO-EARLY-PROMPT, at the level of the stream so that it covers every cutting).
    Without it tbot cannot tell output from prompt: `early_prompt_confuses` is the witness. -/

namespace C19
open UBoot Chan UBootChan UBootCon UBootSend UBootText UBootExec

/-! ### table facts (regenerated black-list) -/

/-- every key the console's line editor acts on is on the write black-list: tbot cannot send it -/
theorem special_forbidden : UBoot.special.all (fun c => Params.ubootBlacklist.contains c) = true := by decide

/-- 0x03 — the console's interrupt key and hush's internal variable marker — cannot be sent -/
theorem intr_forbidden : Params.ubootBlacklist.contains 0x03 = true := by decide

/-- the black-list holds control bytes only -/
theorem blacklist_control_only : Params.ubootBlacklist.all (fun c => !Hush.printable c) = true := by decide

/-- the bytes quoting introduces, and Enter, are not forbidden -/
theorem quoting_bytes_sendable :
    [Quote.SQ, Quote.DQ, Hush.BS, Quote.SP, UBoot.CR].all (fun c => !Params.ubootBlacklist.contains c) = true := by decide

/-- the prompt `exec` waits for in the crc32 special case is a newline and the `=> ` prompt -/
theorem crc_override_eq : Params.ubootCrcOverride = UBoot.LF :: UBoot.crcPrompt := by decide

/-- printable bytes can be sent and are echoed as they are -/
theorem printable_sendable (c : Byte) (h : Hush.printable c = true) :
    Params.ubootBlacklist.contains c = false ∧ UBoot.special.contains c = false := by
  constructor
  · cases hc : Params.ubootBlacklist.contains c with
    | false => rfl
    | true =>
      have := List.all_eq_true.mp blacklist_control_only c (by simpa using hc)
      simp [h] at this
  · cases hc : UBoot.special.contains c with
    | false => rfl
    | true =>
      have := List.all_eq_true.mp UBootCon.special_control c (by simpa using hc)
      simp [h] at this

/-! ### one command -/

theorem enter_inv (P : Bytes) (op : UOp) (ss : Sess) (h : Inv P ss) : Inv P (enter op ss) :=
  { quiet := ⟨h.quiet.deaths, h.quiet.accept, h.quiet.slow, h.quiet.chunk, h.quiet.slice, h.quiet.wf⟩
    script := h.script, prompt := h.prompt, bl := h.bl, line := h.line, cprompt := h.cprompt }

/-- **T (exec).**  On a session with nothing pending whose console maps `args` to `(out, status)`:
    `exec(*args)` returns `(status, text(out as sent over the serial line))`, the console has
    dispatched exactly `args` and then `echo $?` — for every fragmentation schedule `ss.cuts`,
    every chunk size, every number of 512-byte slices. -/
theorem exec_exact (P : Bytes) (hP : P ≠ []) (args : List Bytes) (o : Bytes) (status : Nat)
    (ss : Sess) (hinv : Inv P ss) (ht : ss.con.table = some ⟨args, o, status⟩)
    (hne : args ≠ []) (hp : ∀ a ∈ args, a.all Hush.printable = true)
    (hgood : (cmdWins P args o status).all Win.good = true) :
    ∃ ss', exec args ss = (.ok (status, text (Tty.cook o)), ss') ∧ Inv P ss'
      ∧ ss'.con.ran = ss.con.ran ++ [Ran.argv args, Ran.status] ∧ ss'.con.env = ss.con.env
      ∧ ss'.con.table = ss.con.table := by
  have hd := dispatch_hit args o status ss.con ht
  obtain ⟨ss', hex, hinv', hcon'⟩ := exec_general P hP args ss hinv hne hp (by rw [hd]; exact hgood)
  rw [hd] at hex hcon'
  refine ⟨ss', hex, hinv', ?_, ?_, ?_⟩
  · rw [hcon']; simp
  · rw [hcon']
  · rw [hcon']

/-- **T (crc32 / `"=> "` override).**  The special case of `exec_exact` the statement singles
    out: with the `=> ` prompt and `crc32` as the command, tbot waits for `"\n=> "` instead of the
    prompt — and still returns `(status, text(output))`: the newline the override swallowed is
    restored (and the CR in front of it dropped). -/
theorem exec_crc_exact (rest : List Bytes) (o : Bytes) (status : Nat) (ss : Sess) (hinv : Inv crcPrompt ss)
    (ht : ss.con.table = some ⟨crcName :: rest, o, status⟩)
    (hp : ∀ a ∈ rest, a.all Hush.printable = true)
    (hgood : (winsOf crcPrompt Params.ubootCrcOverride (Hush.escape (crcName :: rest)) o status).all Win.good = true) :
    isCrc (crcName :: rest) ss.st = true ∧
    ∃ ss', exec (crcName :: rest) ss = (.ok (status, text (Tty.cook o)), ss') ∧ Inv crcPrompt ss' := by
  constructor
  · rw [isCrc_eq crcPrompt _ _ hinv.prompt]; simp
  · obtain ⟨ss', h1, h2, _⟩ := exec_exact crcPrompt (by decide) (crcName :: rest) o status ss hinv ht (by simp)
      (by
        intro a ha
        rcases List.mem_cons.mp ha with rfl | ha
        · decide
        · exact hp a ha)
      (by
        have : effPrompt crcPrompt (crcName :: rest) = Params.ubootCrcOverride := by simp [effPrompt]
        unfold cmdWins
        rw [this]; exact hgood)
    exact ⟨ss', h1, h2⟩

/-- **T (exec0).**  `exec0` returns the same text and raises `CommandFailure` iff the status is
    not zero. -/
theorem exec0_raises_iff (P : Bytes) (hP : P ≠ []) (args : List Bytes) (o : Bytes) (status : Nat)
    (ss : Sess) (hinv : Inv P ss) (ht : ss.con.table = some ⟨args, o, status⟩)
    (hne : args ≠ []) (hp : ∀ a ∈ args, a.all Hush.printable = true)
    (hgood : (cmdWins P args o status).all Win.good = true) :
    ((exec0 args ss).1 = .ok (text (Tty.cook o)) ↔ status = 0)
      ∧ ((exec0 args ss).1 = .error .commandFailure ↔ status ≠ 0) := by
  obtain ⟨ss', hex, _⟩ := exec_exact P hP args o status ss hinv ht hne hp hgood
  unfold exec0
  rw [hex]
  simp only
  by_cases h0 : status = 0
  · simp [h0]
  · simp [h0]

/-- **T (test).**  `test` is `status == 0`. -/
theorem test_iff (P : Bytes) (hP : P ≠ []) (args : List Bytes) (o : Bytes) (status : Nat)
    (ss : Sess) (hinv : Inv P ss) (ht : ss.con.table = some ⟨args, o, status⟩)
    (hne : args ≠ []) (hp : ∀ a ∈ args, a.all Hush.printable = true)
    (hgood : (cmdWins P args o status).all Win.good = true) :
    (test args ss).1 = .ok (status == 0) := by
  obtain ⟨ss', hex, _⟩ := exec_exact P hP args o status ss hinv ht hne hp hgood
  unfold test
  rw [hex]

/-- **T (every fragmentation).**  Two sessions that differ in nothing but the fragmentation
    schedule of the console's output and the channel's chunk size return the same. -/
theorem exec_fragmentation (P : Bytes) (hP : P ≠ []) (args : List Bytes) (o : Bytes) (status : Nat)
    (ss : Sess) (hinv : Inv P ss) (ht : ss.con.table = some ⟨args, o, status⟩)
    (hne : args ≠ []) (hp : ∀ a ∈ args, a.all Hush.printable = true)
    (hgood : (cmdWins P args o status).all Win.good = true) (cuts : List Nat) (chunk : Nat) (hc : 0 < chunk) :
    (exec args { ss with cuts := cuts, st := { ss.st with chunk := chunk } }).1 = (exec args ss).1 := by
  obtain ⟨_, h1, _⟩ := exec_exact P hP args o status ss hinv ht hne hp hgood
  have hinv' : Inv P { ss with cuts := cuts, st := { ss.st with chunk := chunk } } :=
    { quiet := ⟨hinv.quiet.deaths, hinv.quiet.accept, hinv.quiet.slow, hc, hinv.quiet.slice, hinv.quiet.wf⟩
      script := hinv.script, prompt := hinv.prompt, bl := hinv.bl, line := hinv.line, cprompt := hinv.cprompt }
  obtain ⟨_, h2, _⟩ := exec_exact P hP args o status _ hinv' ht hne hp hgood
  rw [h1, h2]

/-! ### the environment -/

theorem setenvB_printable : setenvB.all Hush.printable = true := by decide
theorem printenvB_printable : printenvB.all Hush.printable = true := by decide

theorem effPrompt_setenv (P var x : Bytes) : effPrompt P (setenvArgs var x) = P := by
  have : ((setenvArgs var x).head? == some crcName) = false := by
    show (some setenvB == some crcName) = false
    decide
  simp [effPrompt, this]

theorem effPrompt_printenv (P var : Bytes) : effPrompt P (printenvArgs var) = P := by
  have : ((printenvArgs var).head? == some crcName) = false := by
    show (some printenvB == some crcName) = false
    decide
  simp [effPrompt, this]

theorem printable_noCrLf (b : Bytes) (h : printableB b = true) : ∀ c ∈ b, c ≠ 13 ∧ c ≠ 10 := by
  intro c hc
  have := List.all_eq_true.mp h c hc
  constructor <;> intro he <;> subst he <;> exact absurd this (by decide)

/-- `exec0("printenv", var)` on a console without a table row, variable defined -/
theorem printenv_defined (P : Bytes) (hP : P ≠ []) (var x : Bytes) (ss : Sess) (hinv : Inv P ss)
    (ht : ss.con.table = none) (hv : printableB var = true) (hx : envGet ss.con.env var = some x)
    (hgood : (winsOf P P (Hush.escape (printenvArgs var)) (printLine var x) 0).all Win.good = true) :
    ∃ ss', exec0 (printenvArgs var) ss = (.ok (text (Tty.cook (printLine var x))), ss') ∧ Inv P ss'
      ∧ ss'.con.ran = ss.con.ran ++ [Ran.argv (printenvArgs var), Ran.status] ∧ ss'.con.env = ss.con.env
      ∧ ss'.con.table = none := by
  have hd : dispatch (printenvArgs var) ss.con
      = (printLine var x, { ss.con with ran := ss.con.ran ++ [Ran.argv (printenvArgs var)], status := 0 }) := by
    have := dispatch_printenv var ss.con ht
    rw [hx] at this
    exact this
  obtain ⟨ss', hex, hinv', hcon'⟩ := exec_general P hP (printenvArgs var) ss hinv (by simp [printenvArgs])
    (by
      intro a ha
      simp only [printenvArgs, List.mem_cons, List.not_mem_nil, or_false] at ha
      rcases ha with rfl | rfl
      · exact printenvB_printable
      · exact hv)
    (by rw [hd]; unfold cmdWins; rw [effPrompt_printenv]; exact hgood)
  rw [hd] at hex hcon'
  refine ⟨ss', ?_, hinv', ?_, ?_, ?_⟩
  · unfold exec0; rw [hex]; simp
  · rw [hcon']; simp
  · rw [hcon']
  · rw [hcon']; exact ht

/-- `exec0("printenv", var)`, variable not defined: `CommandFailure` -/
theorem printenv_undefined (P : Bytes) (hP : P ≠ []) (var : Bytes) (ss : Sess) (hinv : Inv P ss)
    (ht : ss.con.table = none) (hv : printableB var = true) (hx : envGet ss.con.env var = none)
    (hgood : (winsOf P P (Hush.escape (printenvArgs var)) (notDefinedMsg var) 1).all Win.good = true) :
    ∃ ss', exec0 (printenvArgs var) ss = (.error .commandFailure, ss') ∧ Inv P ss'
      ∧ ss'.con.ran = ss.con.ran ++ [Ran.argv (printenvArgs var), Ran.status] ∧ ss'.con.env = ss.con.env := by
  have hd : dispatch (printenvArgs var) ss.con
      = (notDefinedMsg var, { ss.con with ran := ss.con.ran ++ [Ran.argv (printenvArgs var)], status := 1 }) := by
    have := dispatch_printenv var ss.con ht
    rw [hx] at this
    exact this
  obtain ⟨ss', hex, hinv', hcon'⟩ := exec_general P hP (printenvArgs var) ss hinv (by simp [printenvArgs])
    (by
      intro a ha
      simp only [printenvArgs, List.mem_cons, List.not_mem_nil, or_false] at ha
      rcases ha with rfl | rfl
      · exact printenvB_printable
      · exact hv)
    (by rw [hd]; unfold cmdWins; rw [effPrompt_printenv]; exact hgood)
  rw [hd] at hex hcon'
  refine ⟨ss', ?_, hinv', ?_, ?_⟩
  · unfold exec0; rw [hex]; simp
  · rw [hcon']; simp
  · rw [hcon']

/-- `exec0("setenv", var, x)` on a console without a table row -/
theorem setenv_ok (P : Bytes) (hP : P ≠ []) (var x : Bytes) (ss : Sess) (hinv : Inv P ss)
    (ht : ss.con.table = none) (hv : printableB var = true) (hn : nameOk var = true) (hxp : printableB x = true)
    (hgood : (winsOf P P (Hush.escape (setenvArgs var x)) [] 0).all Win.good = true) :
    ∃ ss', exec0 (setenvArgs var x) ss = (.ok (text (Tty.cook [])), ss') ∧ Inv P ss'
      ∧ ss'.con.ran = ss.con.ran ++ [Ran.argv (setenvArgs var x), Ran.status]
      ∧ ss'.con.env = envSet ss.con.env var x ∧ ss'.con.table = none := by
  have hd : dispatch (setenvArgs var x) ss.con
      = ([], { ss.con with ran := ss.con.ran ++ [Ran.argv (setenvArgs var x)], status := 0,
                           env := envSet ss.con.env var x }) := dispatch_setenv var x ss.con ht hn
  obtain ⟨ss', hex, hinv', hcon'⟩ := exec_general P hP (setenvArgs var x) ss hinv (by simp [setenvArgs])
    (by
      intro a ha
      simp only [setenvArgs, List.mem_cons, List.not_mem_nil, or_false] at ha
      rcases ha with rfl | rfl | rfl
      · exact setenvB_printable
      · exact hv
      · exact hxp)
    (by rw [hd]; unfold cmdWins; rw [effPrompt_setenv]; exact hgood)
  rw [hd] at hex hcon'
  refine ⟨ss', ?_, hinv', ?_, ?_, ?_⟩
  · unfold exec0; rw [hex]; simp
  · rw [hcon']; simp
  · rw [hcon']
  · rw [hcon']; exact ht

/-- **T (env).**  `env(var, x)` sets the variable and returns `x`; `env(var)` afterwards returns
    `x` again — for printable (hence single-line) `x`, legal `var`, every fragmentation. -/
theorem env_roundtrip (P : Bytes) (hP : P ≠ []) (var x : Bytes) (ss : Sess) (hinv : Inv P ss)
    (ht : ss.con.table = none) (hv : printableB var = true) (hn : nameOk var = true) (hxp : printableB x = true)
    (hgood : (envSetWins P var x).all Win.good = true) :
    ∃ ss', UBoot.env var (some x) ss = (.ok (decodeReplace x), ss') ∧ Inv P ss'
      ∧ ss'.con.ran = ss.con.ran ++ [Ran.argv (setenvArgs var x), Ran.status, Ran.argv (printenvArgs var), Ran.status]
      ∧ ss'.con.env = envSet ss.con.env var x ∧ ss'.con.table = none
      ∧ ∃ ss'', UBoot.env var none ss' = (.ok (decodeReplace x), ss'') ∧ Inv P ss''
          ∧ ss''.con.env = ss'.con.env := by
  unfold envSetWins at hgood
  rw [List.all_append, Bool.and_eq_true] at hgood
  obtain ⟨hg1, hg2⟩ := hgood
  obtain ⟨ss1, h1, hinv1, hran1, henv1, ht1⟩ := setenv_ok P hP var x ss hinv ht hv hn hxp hg1
  have hget1 : envGet ss1.con.env var = some x := by rw [henv1]; exact envGet_envSet _ _ _
  obtain ⟨ss2, h2, hinv2, hran2, henv2, ht2⟩ := printenv_defined P hP var x ss1 hinv1 ht1 hv hget1 hg2
  have hslice := sliceValue_printLine var x (printable_noCrLf var hv) (printable_noCrLf x hxp)
  refine ⟨ss2, ?_, hinv2, ?_, by rw [henv2, henv1], ht2, ?_⟩
  · have h1' : exec0 [setenvB, var, x] ss = (.ok (text (Tty.cook [])), ss1) := h1
    have h2' : exec0 [printenvB, var] ss1 = (.ok (text (Tty.cook (printLine var x))), ss2) := h2
    unfold UBoot.env
    simp only [h1', h2', hslice]
  · rw [hran2, hran1]; simp
  · have hget2 : envGet ss2.con.env var = some x := by rw [henv2]; exact hget1
    obtain ⟨ss3, h3, hinv3, _, henv3, _⟩ := printenv_defined P hP var x ss2 hinv2 ht2 hv hget2 hg2
    refine ⟨ss3, ?_, hinv3, henv3⟩
    have h3' : exec0 [printenvB, var] ss2 = (.ok (text (Tty.cook (printLine var x))), ss3) := h3
    unfold UBoot.env
    simp only [h3', hslice]

end C19
