import TbotVerif.Spec.Files
import TbotVerif.Props.C05
import TbotVerif.Props.C02Extra
import TbotVerif.Props.C03Op
import TbotVerif.Props.Tty
/-! C11 — the channel side of a file transfer: every primitive the `Path` methods use SUCCEEDS,
    consumes exactly what it should and leaves the session in a known state, for EVERY way the
    transport fragments the remote's answer.  `SS s …` is the session invariant: configuration,
    what the script still holds (`W`), the death-string registrations with everything they have
    seen (`regs`), what has been written so far (`tx`). -/

namespace Files
open Chan Shell C05 C02 C03 Spec

/-- session invariant -/
structure SS (s : St) (ps1 bl : Bytes) (regs : List Reg) (nd : Nat) (W tx : Bytes) : Prop where
  chunk : 0 < s.chunk
  slice : 0 < s.slice
  prompt : s.prompt = some (.lit ps1)
  bl : s.blacklist = bl
  slow : s.slowDelay = none
  wf : WF s
  flat : flat s.script = W
  deaths : s.deaths = regs.map toDeath
  lit : ∀ r ∈ regs, ∃ p, r.pat = .lit p ∧ p ≠ []
  nd : s.nextDeath = nd
  tx : written s = tx

/-- none of the registered strings occurs in what the registrations have seen plus `x` -/
def Quiet (regs : List Reg) (x : Bytes) : Prop :=
  ∀ r ∈ regs, ∀ p, r.pat = .lit p → ¬ p <:+: r.since ++ x

theorem written_eq (s : St) : written s = accepted s.writes := rfl

theorem quiet_nil_regs (x : Bytes) : Quiet [] x := by intro r hr; simp at hr

theorem Quiet.mono {regs : List Reg} {x y : Bytes} (h : Quiet regs (x ++ y)) : Quiet regs x := by
  intro r hr p hp hin
  apply h r hr p hp
  rw [← List.append_assoc]
  exact List.IsInfix.trans hin ⟨[], y, by simp⟩

theorem Quiet.ext {regs : List Reg} {x y : Bytes} (h : Quiet regs (x ++ y)) : Quiet (regs.map (ext x)) y := by
  intro r hr p hp
  obtain ⟨r0, hr0, rfl⟩ := List.mem_map.mp hr
  have := h r0 hr0 p (by simpa using hp)
  simpa [List.append_assoc] using this

theorem lit_ext {regs : List Reg} (x : Bytes) (h : ∀ r ∈ regs, ∃ p, r.pat = .lit p ∧ p ≠ []) :
    ∀ r ∈ regs.map (ext x), ∃ p, r.pat = .lit p ∧ p ≠ [] := by
  intro r hr
  obtain ⟨r0, hr0, rfl⟩ := List.mem_map.mp hr
  simpa using h r0 hr0

/-- `_check` stays silent on `b` when no registered string occurs -/
theorem check_quiet (regs : List Reg) (s : St) (b : Bytes) (hd : s.deaths = regs.map toDeath)
    (hlit : ∀ r ∈ regs, ∃ p, r.pat = .lit p ∧ p ≠ []) (hq : Quiet regs b) :
    (check b s).1 = .ok () := by
  cases h : (check b s).1 with
  | ok u => rfl
  | error e =>
    exfalso
    obtain ⟨x, m, rfl⟩ := check_err b s e h
    obtain ⟨r, hr, _, hpat, x', y', heq⟩ := check_sound_lit regs s b hd hlit x m h
    exact hq r hr m hpat ⟨x', y', heq.symm⟩

/-- one resumption of `read_iter` with a byte budget (`max = some m`), no timeout, on a script
    that still holds `x ++ W` with `x` non-empty and within the budget: it yields a non-empty
    prefix of `x` -/
theorem riNext_budget (ri : RI) (s : St) (ps1 bl : Bytes) (regs : List Reg) (nd : Nat) (x W tx : Bytes) (m : Nat)
    (hss : SS s ps1 bl regs nd (x ++ W) tx) (hmax : ri.max = some m) (hto : ri.timeout = none)
    (hgot : ri.got + x.length = m) (hx : x ≠ []) (hq : Quiet regs x) :
    ∃ b x' s2, x = b ++ x' ∧ b ≠ []
      ∧ riNext ri s = (.chunk b, { ri with got := ri.got + b.length, started := true }, s2)
      ∧ SS s2 ps1 bl (regs.map (ext b)) nd (x' ++ W) tx := by
  have hxlen : 0 < x.length := List.length_pos_iff.mpr hx
  have hne : s.script ≠ [] := by
    intro h
    have := hss.flat
    rw [h] at this
    simp [Chan.flat] at this
    exact hx this.1
  obtain ⟨pc, ps, hs⟩ : ∃ pc ps, s.script = pc :: ps := by
    cases h : s.script with
    | nil => exact absurd h hne
    | cons pc ps => exact ⟨pc, ps, rfl⟩
  have hmr : ri.maxRead s.chunk = min s.chunk (m - ri.got) := by unfold RI.maxRead; rw [hmax]
  have hmrpos : 0 < ri.maxRead s.chunk := by rw [hmr]; have := hss.chunk; omega
  have hmrle : ri.maxRead s.chunk ≤ x.length := by rw [hmr]; omega
  obtain ⟨b, s1, hio, _⟩ := ioRead_ok (ri.maxRead s.chunk) none s pc ps hs (Or.inl rfl)
  obtain ⟨rec, hspec⟩ := ioRead_spec (ri.maxRead s.chunk) none s
  rw [hio] at hspec
  have hok := hspec.ok b rfl
  have hbne : b ≠ [] := hok.2.2 hss.wf hmrpos
  have hflat1 : b ++ Chan.flat s1.script = x ++ W := by
    have := hspec.frame.flat
    rw [dataOf_cons_some _ _ _ hok.1] at this
    rw [← hss.flat]
    simpa using this
  have hble : b.length ≤ x.length := Nat.le_trans hok.2.1 hmrle
  -- `b` is a prefix of `x`
  have hbx : b = x.take b.length := by
    have := congrArg (List.take b.length) hflat1
    rw [List.take_left', List.take_append_of_le_length hble] at this
    · exact this
    · rfl
  have hx' : x = b ++ x.drop b.length := by
    conv => lhs; rw [← List.take_append_drop b.length x]
    rw [← hbx]
  have hflat1' : Chan.flat s1.script = x.drop b.length ++ W := by
    have h2 : b ++ Chan.flat s1.script = b ++ (x.drop b.length ++ W) := by
      rw [hflat1, ← List.append_assoc, ← hx']
    exact List.append_cancel_left h2
  have hside := writeStream_side b s1
  have hw := writeStream_deaths b s1
  have hd1 : (writeStream b s1).deaths = regs.map toDeath := by rw [hw.1, hspec.deaths, hss.deaths]
  have hqb : Quiet regs b := by
    have : Quiet regs (b ++ x.drop b.length) := by rw [← hx']; exact hq
    exact this.mono
  have hcheck := check_quiet regs (writeStream b s1) b hd1 hss.lit hqb
  have hcs := check_side b (writeStream b s1)
  have hcd := check_deaths b (writeStream b s1)
  have hinv := check_invariant regs (writeStream b s1) b hd1
  refine ⟨b, x.drop b.length, (check b (writeStream b s1)).2, hx', hbne, ?_, ?_⟩
  · unfold riNext
    have h1 : (ri.started && ri.max == some ri.got) = false := by
      rw [hmax]
      have : ¬ m = ri.got := by omega
      simp [this]
    rw [h1]
    simp only [Bool.false_eq_true, if_false, hto, remaining_none, hio]
    cases hc : check b (writeStream b s1) with
    | mk r s2 =>
      rw [hc] at hcheck
      simp only at hcheck
      subst hcheck
      rfl
  · exact {
      chunk := by rw [hcs.chunk, hside.chunk, hspec.frame.chunk]; exact hss.chunk
      slice := by rw [hcs.slice, hside.slice, hspec.frame.slice]; exact hss.slice
      prompt := by rw [hcs.prompt, hside.prompt, hspec.frame.prompt]; exact hss.prompt
      bl := by rw [hcs.blacklist, hside.blacklist, hspec.frame.blacklist]; exact hss.bl
      slow := by rw [hcs.slowDelay, hside.slowDelay, hspec.frame.slowDelay]; exact hss.slow
      wf := by
        have := hspec.frame.wf hss.wf
        unfold WF at *
        rw [hcs.script, hside.script]; exact this
      flat := by rw [hcs.script, hside.script]; exact hflat1'
      deaths := hinv
      lit := lit_ext b hss.lit
      nd := by
        have := ioRead_nextDeath (ri.maxRead s.chunk) none s
        rw [hio] at this
        rw [hcd.2, hw.2, this]; exact hss.nd
      tx := by
        rw [written_eq, hcs.writes, hside.writes, hspec.frame.writes, ← written_eq]; exact hss.tx }

/-- pulling a `read_iter` with a byte budget dry: it yields exactly the next `x` bytes of the
    script (in whatever pieces the transport hands out) and stops -/
theorem riTake_exact (ps1 bl : Bytes) (nd : Nat) (W tx : Bytes) (m : Nat) :
    ∀ (f : Nat) (ri : RI) (s : St) (acc : List Bytes) (regs : List Reg) (x : Bytes),
      x.length < f → ri.max = some m → ri.timeout = none → ri.got + x.length = m →
      (ri.started = true ∨ x ≠ []) → SS s ps1 bl regs nd (x ++ W) tx → Quiet regs x →
      ∃ cs s', riTake f none ri s acc = ((acc ++ cs, none), s') ∧ cs.flatten = x
        ∧ SS s' ps1 bl (regs.map (ext x)) nd W tx := by
  intro f
  induction f with
  | zero => intro ri s acc regs x hf; omega
  | succ f ih =>
    intro ri s acc regs x hf hmax hto hgot hst hss hq
    by_cases hx : x = []
    · subst hx
      have hstarted : ri.started = true := by
        rcases hst with h | h
        · exact h
        · exact absurd rfl h
      have hdone : riNext ri s = (.done, ri, s) := by
        unfold riNext
        have : (ri.started && ri.max == some ri.got) = true := by
          rw [hmax, hstarted]
          simp only [List.length_nil, Nat.add_zero] at hgot
          simp [hgot]
        rw [this]; rfl
      refine ⟨[], s, ?_, rfl, ?_⟩
      · unfold riTake
        simp [hdone]
      · rw [map_ext_nil]; simpa using hss
    · obtain ⟨b, x', s2, hxb, hbne, hnext, hss2⟩ := riNext_budget ri s ps1 bl regs nd x W tx m hss hmax hto hgot hx hq
      have hblen : 0 < b.length := List.length_pos_iff.mpr hbne
      have hxlen : x.length = b.length + x'.length := by rw [hxb]; simp
      have hq2 : Quiet (regs.map (ext b)) x' := by
        have : Quiet regs (b ++ x') := by rw [← hxb]; exact hq
        exact this.ext
      obtain ⟨cs, s', hrun, hcs, hss'⟩ := ih { ri with got := ri.got + b.length, started := true } s2 (acc ++ [b])
        (regs.map (ext b)) x' (by omega) hmax hto (by simp only; omega) (Or.inl rfl) hss2 hq2
      refine ⟨b :: cs, s', ?_, ?_, ?_⟩
      · unfold riTake
        simp only [hnext]
        have : ((none : Option Nat) = some 0) = False := by simp
        simp only [this, if_false, Option.map_none]
        rw [hrun]
        simp
      · simp [hcs, hxb]
      · rw [map_ext_ext, ← hxb] at hss'
        exact hss'

/-- **`read(n)` is exact and never fails** while the script holds at least `n` bytes and no
    registered death string occurs: it returns the next `n` bytes, whatever the fragmentation. -/
theorem ss_read {s : St} {ps1 bl : Bytes} {regs : List Reg} {nd : Nat} {W tx : Bytes} (x : Bytes)
    (hss : SS s ps1 bl regs nd (x ++ W) tx) (hx : x ≠ []) (hq : Quiet regs x) :
    ∃ s', Chan.read (some x.length) none s = (.ok x, s') ∧ SS s' ps1 bl (regs.map (ext x)) nd W tx := by
  have hfuel : x.length < fuelFor s := by
    unfold fuelFor
    rw [bytesLeft_eq, hss.flat]
    simp only [List.length_append]
    omega
  obtain ⟨cs, s', hrun, hcs, hss'⟩ := riTake_exact ps1 bl nd W tx x.length (fuelFor s) (riStart (some x.length) none s) s []
    regs x hfuel rfl rfl (by simp [riStart]) (Or.inr hx) hss hq
  refine ⟨s', ?_, hss'⟩
  unfold Chan.read
  simp only [hrun, List.nil_append, hcs, beq_self_eq_true, if_true]

theorem accepted_append (a b : List (Bytes × Nat)) : accepted (a ++ b) = accepted a ++ accepted b := by
  simp [accepted]

/-- `Channel.write` succeeds (allowed data, or the black-list ignored) and appends to what was written -/
theorem ss_write {s : St} {ps1 bl : Bytes} {regs : List Reg} {nd : Nat} {W tx : Bytes} (buf : Bytes) (ign : Bool)
    (hss : SS s ps1 bl regs nd W tx) (hok : ign = true ∨ forbidden bl buf = false) :
    ∃ s', Chan.write buf ign s = (.ok (), s') ∧ SS s' ps1 bl regs nd W (tx ++ buf) := by
  obtain ⟨ws, hfr, _, _, hres, herr⟩ := write_spec buf ign s (by rw [hss.slow]; simp)
  have hq := (write_quiet buf ign s).1
  cases hw : Chan.write buf ign s with
  | mk r s' =>
    rw [hw] at hfr hres herr hq
    cases r with
    | error e =>
      exfalso
      obtain ⟨_, hi, hf, _⟩ := herr e rfl
      rw [hss.bl] at hf
      rcases hok with h | h
      · rw [h] at hi; cases hi
      · rw [h] at hf; cases hf
    | ok u =>
      obtain ⟨_, _, hacc⟩ := hres rfl
      refine ⟨s', rfl, ?_⟩
      exact {
        chunk := by rw [hfr.chunk]; exact hss.chunk
        slice := by rw [hfr.slice]; exact hss.slice
        prompt := by rw [hfr.prompt]; exact hss.prompt
        bl := by rw [hfr.blacklist]; exact hss.bl
        slow := by rw [hfr.slowDelay]; exact hss.slow
        wf := hfr.wf hss.wf
        flat := by have := hfr.flat; simp only [dataOf_nil, List.flatten_nil, List.nil_append] at this; rw [this]; exact hss.flat
        deaths := by rw [hq.2.1]; exact hss.deaths
        lit := hss.lit
        nd := by rw [hq.2.2]; exact hss.nd
        tx := by rw [written_eq, hfr.writes, accepted_append, ← written_eq, hss.tx, hacc] }

theorem countNl_eq (b : Bytes) : b.length + countNl b = (Tty.echo false b).length := by
  rw [Tty.echo_length_noctl]
  unfold Tty.readBackLen countNl
  simp only [Tty.CR, Tty.LF]
  omega

theorem echo_ne_nil (b : Bytes) (h : b ≠ []) : Tty.echo false b ≠ [] := by
  intro hc
  have h1 := countNl_eq b
  rw [hc] at h1
  have h2 : 0 < b.length := List.length_pos_iff.mpr h
  simp only [List.length_nil] at h1
  omega

/-- the slice loop of `send(read_back=True)`: every slice is written and its echo read back -/
theorem sendLoop_ok (ps1 bl : Bytes) (nd : Nat) (W : Bytes) (t0 : Nat) :
    ∀ (f : Nat) (buf : Bytes) (s : St) (regs : List Reg) (tx : Bytes),
      buf.length < f → SS s ps1 bl regs nd (Tty.echo false buf ++ W) tx → forbidden bl buf = false →
      Quiet regs (Tty.echo false buf) →
      ∃ s', sendLoop f buf true none false t0 s = (.ok (), s')
        ∧ SS s' ps1 bl (regs.map (ext (Tty.echo false buf))) nd W (tx ++ buf) := by
  intro f
  induction f with
  | zero => intro buf s regs tx hf; omega
  | succ f ih =>
    intro buf s regs tx hf hss hnf hq
    cases buf with
    | nil =>
      refine ⟨s, by simp [sendLoop], ?_⟩
      have : Tty.echo false [] = [] := rfl
      rw [this, map_ext_nil]
      simpa [this] using hss
    | cons b t =>
      have hsl := hss.slice
      generalize hck : (b :: t).take s.slice = ck
      generalize hrs : (b :: t).drop s.slice = rs
      have hsplit : b :: t = ck ++ rs := by rw [← hck, ← hrs, List.take_append_drop]
      have hckne : ck ≠ [] := by
        rw [← hck]
        intro hc
        have := congrArg List.length hc
        simp only [List.length_take, List.length_cons, List.length_nil] at this
        omega
      have hecho : Tty.echo false (b :: t) = Tty.echo false ck ++ Tty.echo false rs := by
        rw [hsplit, Tty.echo_append]
      have hnf1 : forbidden bl ck = false := by
        cases h : forbidden bl ck with
        | false => rfl
        | true => rw [← hck] at h; rw [forbidden_take bl _ _ h] at hnf; cases hnf
      have hnf2 : forbidden bl rs = false := by
        cases h : forbidden bl rs with
        | false => rfl
        | true => rw [← hrs] at h; rw [forbidden_drop bl _ _ h] at hnf; cases hnf
      obtain ⟨s1, hw1, hss1⟩ := ss_write ck false hss (Or.inr hnf1)
      rw [hecho, List.append_assoc] at hss1
      have hq1 : Quiet regs (Tty.echo false ck) := by
        have : Quiet regs (Tty.echo false ck ++ Tty.echo false rs) := by rw [← hecho]; exact hq
        exact this.mono
      obtain ⟨s2, hr2, hss2⟩ := ss_read (Tty.echo false ck) hss1 (echo_ne_nil ck hckne) hq1
      have hq2 : Quiet (regs.map (ext (Tty.echo false ck))) (Tty.echo false rs) := by
        have : Quiet regs (Tty.echo false ck ++ Tty.echo false rs) := by rw [← hecho]; exact hq
        exact this.ext
      have hrslen : rs.length < f := by
        rw [← hrs]
        simp only [List.length_drop, List.length_cons] at hf ⊢
        omega
      have hslice2 : s2.slice = s.slice := by
        -- both steps keep the slice size; we only need that `drop` uses the same value
        have h1 : s1.slice = s.slice := by
          obtain ⟨ws, hfr, _⟩ := write_spec ck false s (by rw [hss.slow]; simp)
          rw [hw1] at hfr
          exact hfr.slice
        have h2 : s2.slice = s1.slice := by
          obtain ⟨recs, hfr, _⟩ := read_some_spec (Tty.echo false ck).length none s1 hss1.wf hss1.chunk
          rw [hr2] at hfr
          exact hfr.slice
        rw [h2, h1]
      obtain ⟨s3, hrun, hss3⟩ := ih rs s2 (regs.map (ext (Tty.echo false ck))) (tx ++ ck) hrslen hss2 hnf2 hq2
      refine ⟨s3, ?_, ?_⟩
      · unfold sendLoop
        simp only [hck, hw1, if_true, remaining_none, countNl_eq, hr2]
        rw [hslice2, hrs]
        exact hrun
      · rw [map_ext_ext, ← hecho, List.append_assoc, ← hsplit] at hss3
        exact hss3

/-- **`send(buf, read_back=True)` succeeds** on every fragmentation of the echo: what is written is
    `buf`, what is consumed is exactly its echo. -/
theorem ss_send {s : St} {ps1 bl : Bytes} {regs : List Reg} {nd : Nat} {W tx : Bytes} (buf : Bytes)
    (hss : SS s ps1 bl regs nd (Tty.echo false buf ++ W) tx) (hnf : forbidden bl buf = false)
    (hq : Quiet regs (Tty.echo false buf)) :
    ∃ s', send buf true none false s = (.ok (), s')
      ∧ SS s' ps1 bl (regs.map (ext (Tty.echo false buf))) nd W (tx ++ buf) := by
  unfold send
  by_cases he : buf = []
  · subst he
    refine ⟨s, by simp, ?_⟩
    have : Tty.echo false [] = [] := rfl
    rw [this, map_ext_nil]
    simpa [this] using hss
  · have h1 : buf.isEmpty = false := by cases buf with | nil => exact absurd rfl he | cons _ _ => rfl
    rw [h1]
    simp only [Bool.false_eq_true, if_false, Bool.not_false, Bool.true_and]
    rw [hss.bl, hnf]
    simp only [Bool.false_eq_true, if_false]
    exact sendLoop_ok ps1 bl nd W s.now (buf.length + 1) buf s regs tx (by omega) hss hnf hq

/-! ### prompt reads -/

/-- the prompt does not end a proper, non-empty prefix of `o ++ p` (what `read_until_prompt`
    needs to tell the end of the output from the output) -/
def NoEarly (p o : Bytes) : Prop :=
  ∀ k, 0 < k → k ≤ (o ++ p).length → p <:+ (o ++ p).take k → k = (o ++ p).length

/-- a sufficient condition: the output consists of bytes of a class `S`, the prompt has a byte
    outside `S` -/
theorem noEarly_of_class (S : Byte → Bool) (p o : Bytes) (ho : ∀ c ∈ o, S c = true) (hp : ∃ c ∈ p, S c = false) :
    NoEarly p o := by
  intro k hk hle hsuf
  -- index of the first byte of `p` outside `S`
  obtain ⟨i, hi, hSi, hbefore⟩ : ∃ i, ∃ h : i < p.length, S p[i] = false ∧ ∀ j (hj : j < i), S (p[j]'(by omega)) = true := by
    have hex : ∃ x, x ∈ p ∧ (fun c => !S c) x = true := by
      obtain ⟨c, hc, hSc⟩ := hp
      exact ⟨c, hc, by simp [hSc]⟩
    have hlt := List.findIdx_lt_length_of_exists hex
    refine ⟨p.findIdx (fun c => !S c), hlt, ?_, ?_⟩
    · have := @List.findIdx_getElem _ (fun c => !S c) p hlt
      simpa using this
    · intro j hj
      have := List.not_of_lt_findIdx hj
      simpa using this
  obtain ⟨pre, hpre⟩ := hsuf
  have hle' : k ≤ o.length + p.length := by simpa using hle
  have hlen : pre.length + p.length = k := by
    have := congrArg List.length hpre
    simp only [List.length_append, List.length_take] at this
    omega
  apply Classical.byContradiction
  intro hne
  have hklt : k < (o ++ p).length := by omega
  simp only [List.length_append] at hklt hle
  -- the byte of `o ++ p` at position `pre.length + i` is `p[i]`
  have hget : (o ++ p)[pre.length + i]'(by simp only [List.length_append]; omega) = p[i] := by
    have h1 : ((o ++ p).take k)[pre.length + i]'(by simp only [List.length_take, List.length_append]; omega) = p[i] := by
      have : (pre ++ p)[pre.length + i]'(by simp only [List.length_append]; omega) = p[i] := by
        rw [List.getElem_append_right (by omega)]
        simp
      simpa [hpre] using this
    rw [List.getElem_take] at h1
    exact h1
  by_cases hin : pre.length + i < o.length
  · -- inside the output: a byte of class `S`
    rw [List.getElem_append_left hin] at hget
    have := ho _ (List.getElem_mem hin)
    rw [hget, hSi] at this
    cases this
  · -- inside the prompt part, at an index below `i`
    rw [List.getElem_append_right (by omega)] at hget
    have hj : pre.length + i - o.length < i := by omega
    have := hbefore _ hj
    rw [hget, hSi] at this
    cases this

theorem dtrace_nil {d0 : List Death} {bs : List Bytes} {ds : List Death} {f : Option (Nat × Bytes)}
    (h : DTrace d0 bs ds f) : d0 = [] → ds = [] ∧ f = none := by
  induction h with
  | nil ds => intro h; exact ⟨h, rfl⟩
  | ok ds b bs ds' f hc _ ih => intro h; subst h; exact ih (by simp [chk])
  | fire ds b x hc => intro h; subst h; simp [chk] at hc

/-- **`read_until_prompt` on a session with no death string**: the script holds `o ++ ps1`
    (cut in any way), the prompt does not end a proper prefix — it returns `o` and leaves the script
    empty. -/
theorem ss_rup {s : St} {ps1 bl : Bytes} {nd : Nat} {tx : Bytes} (o : Bytes)
    (hss : SS s ps1 bl [] nd (o ++ ps1) tx) (hp : ps1 ≠ []) (hne : NoEarly ps1 o) :
    ∃ s', readUntilPrompt none none s = (.ok (o, o ++ ps1), s') ∧ SS s' ps1 bl [] nd [] tx := by
  have hd : s.deaths = [] := by simpa using hss.deaths
  obtain ⟨hres, hscript⟩ := rup_fragmentation_gen ps1 (o ++ ps1) hp ⟨o, rfl⟩ hne s hss.prompt hd hss.wf hss.chunk
    hss.flat none (Or.inl rfl)
  obtain ⟨recs, hfr, _⟩ := readUntilPrompt_spec none none s hss.wf hss.chunk
  obtain ⟨recs', _, hnd, htr⟩ := readUntilPrompt_dt none none s
  have hd' := (dtrace_nil htr hd).1
  cases hr : readUntilPrompt none none s with
  | mk r s' =>
    rw [hr] at hres hscript hfr hnd hd'
    simp only at hres hscript
    subst hres
    refine ⟨s', ?_, ?_⟩
    · simp
    · exact {
        chunk := by rw [hfr.chunk]; exact hss.chunk
        slice := by rw [hfr.slice]; exact hss.slice
        prompt := by rw [hfr.prompt]; exact hss.prompt
        bl := by rw [hfr.blacklist]; exact hss.bl
        slow := by rw [hfr.slowDelay]; exact hss.slow
        wf := hfr.wf hss.wf
        flat := by rw [hscript]; rfl
        deaths := by rw [hd']; rfl
        lit := hss.lit
        nd := by rw [hnd]; exact hss.nd
        tx := by rw [written_eq, hfr.writes, ← written_eq]; exact hss.tx }

/-! ### feeding, streams, registrations -/

theorem flat_toScript (ps : List Bytes) : Chan.flat (toScript ps) = ps.flatten := by
  induction ps with
  | nil => rfl
  | cons p ps ih =>
    simp only [toScript, List.map_cons, Chan.flat, List.flatten_cons] at ih ⊢
    rw [ih]

/-- the remote's next answer arrives -/
theorem ss_feed {s : St} {ps1 bl : Bytes} {regs : List Reg} {nd : Nat} {W tx : Bytes} (ps : List Bytes)
    (hss : SS s ps1 bl regs nd W tx) (hps : ∀ p ∈ ps, p ≠ []) :
    SS (feed ps s) ps1 bl regs nd (W ++ ps.flatten) tx :=
  { chunk := hss.chunk, slice := hss.slice, prompt := hss.prompt, bl := hss.bl, slow := hss.slow
    wf := by
      intro q hq
      simp only [feed, List.mem_append] at hq
      rcases hq with h | h
      · exact hss.wf q h
      · simp only [toScript, List.mem_map] at h
        obtain ⟨d, hd, rfl⟩ := h
        exact hps d hd
    flat := by
      simp only [feed, Chan.flat, List.map_append, List.flatten_append]
      have h1 := hss.flat
      have h2 := flat_toScript ps
      simp only [Chan.flat] at h1 h2
      rw [h1, h2]
    deaths := hss.deaths, lit := hss.lit, nd := hss.nd, tx := hss.tx }

theorem ss_streamEnter {s : St} {ps1 bl : Bytes} {regs : List Reg} {nd : Nat} {W tx : Bytes} (id : Nat) (sp : Bool)
    (hss : SS s ps1 bl regs nd W tx) : SS (streamEnter id sp s).2 ps1 bl regs nd W tx :=
  { chunk := hss.chunk, slice := hss.slice, prompt := hss.prompt, bl := hss.bl, slow := hss.slow, wf := hss.wf
    flat := hss.flat, deaths := hss.deaths, lit := hss.lit, nd := hss.nd, tx := hss.tx }

theorem ss_streamExit {s : St} {ps1 bl : Bytes} {regs : List Reg} {nd : Nat} {W tx : Bytes} (id : Nat) (prev : Bool)
    (hss : SS s ps1 bl regs nd W tx) : SS (streamExit id prev s) ps1 bl regs nd W tx :=
  { chunk := hss.chunk, slice := hss.slice, prompt := hss.prompt, bl := hss.bl, slow := hss.slow, wf := hss.wf
    flat := hss.flat, deaths := hss.deaths, lit := hss.lit, nd := hss.nd, tx := hss.tx }

/-- `with_death_string(p, exc)` entry -/
theorem ss_deathEnter {s : St} {ps1 bl : Bytes} {regs : List Reg} {nd : Nat} {W tx : Bytes} (p : Bytes) (exc : Nat)
    (hss : SS s ps1 bl regs nd W tx) (hp : p ≠ []) :
    (deathEnter (.lit p) exc s).1 = nd
      ∧ SS (deathEnter (.lit p) exc s).2 ps1 bl ({ id := nd, pat := .lit p, exc := exc } :: regs) (nd + 1) W tx := by
  refine ⟨hss.nd, ?_⟩
  exact {
    chunk := hss.chunk, slice := hss.slice, prompt := hss.prompt, bl := hss.bl, slow := hss.slow, wf := hss.wf
    flat := hss.flat
    deaths := by
      simp only [deathEnter, List.map_cons, hss.deaths, hss.nd]
      congr 1
      simp [toDeath, lastN]
    lit := by
      intro r hr
      rcases List.mem_cons.mp hr with rfl | hr
      · exact ⟨p, rfl, hp⟩
      · exact hss.lit r hr
    nd := by simp only [deathEnter, hss.nd]
    tx := hss.tx }

/-- `with_death_string` exit -/
theorem ss_deathExit {s : St} {ps1 bl : Bytes} {regs : List Reg} {nd : Nat} {W tx : Bytes} (id : Nat)
    (hss : SS s ps1 bl regs nd W tx) :
    SS (deathExit id s) ps1 bl (regs.filter (fun r => r.id != id)) nd W tx :=
  { chunk := hss.chunk, slice := hss.slice, prompt := hss.prompt, bl := hss.bl, slow := hss.slow, wf := hss.wf
    flat := hss.flat
    deaths := by
      simp only [deathExit, hss.deaths, List.filter_map]
      rfl
    lit := fun r hr => hss.lit r (List.mem_filter.mp hr).1
    nd := hss.nd, tx := hss.tx }

/-- `sendcontrol("D")` -/
theorem ss_sendEOT {s : St} {ps1 bl : Bytes} {regs : List Reg} {nd : Nat} {W tx : Bytes}
    (hss : SS s ps1 bl regs nd W tx) :
    SS (sendcontrol 4 s).2 ps1 bl regs nd W (tx ++ [EOT]) := by
  obtain ⟨s', hw, hss'⟩ := ss_write [4] true hss (Or.inl rfl)
  have : sendcontrol 4 s = Chan.write [UInt8.ofNat 4] true s := by simp [sendcontrol]
  rw [this]
  have h4 : ([UInt8.ofNat 4] : Bytes) = [4] := rfl
  rw [h4, hw]
  exact hss'

end Files
