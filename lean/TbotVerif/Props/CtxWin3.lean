import TbotVerif.Props.CtxWin2
import TbotVerif.Props.CtxLeak5
set_option linter.unusedSimpArgs false
set_option linter.unusedVariables false
/-! I6 (observable form), part 3: the teardown loop of `Context.__exit__` inside the exit window,
    and programs. -/
namespace Ctx

/-- the invariants proved elsewhere that the window argument uses: the state invariant, the
    teardown order respects the dependency graph (`InvOrd`), alive classes are registered and in
    the teardown order (`Inv2`, with every class tolerated as dangling) -/
structure Base (cfg : Cfg) (s : St) : Prop where
  inv : Inv [] s
  ord : InvOrd cfg s
  i2 : ∃ Q : List Frame, Inv2 cfg.n (fun _ => True) Fa Q s

/-- what this file adds: no duplicates in `_teardown_order`, held frames are the dependency
    requests of `cfg.deps`, the window is closed (between statements), I6 has held so far -/
structure New (cfg : Cfg) (s : St) : Prop where
  nodup : s.order.Nodup
  held : HeldDeps cfg s
  closed : inWindow s.trace = false
  good : Good cfg s

theorem New.syn {cfg : Cfg} {s s' : St} (h : New cfg s) (x : Syn cfg s s') : New cfg s' :=
  ⟨x.nodup h.nodup, h.held.syn x, x.closed h.closed, x.good h.closed h.good⟩

theorem Base.congr {cfg : Cfg} {s s' : St} (h : Base cfg s) (x : Ext s s') (ho : s'.order = s.order) :
    Base cfg s' := by
  obtain ⟨Q, hQ⟩ := h.i2
  refine ⟨h.inv.ext x, h.ord.same x.mgrs ho, Q, ?_⟩
  constructor
  · rw [x.open_, x.mgrs]; exact hQ.dh
  · intro _ c _ _; exact Or.inl trivial
  · rw [x.mgrs, ho]; exact hQ.ord
  · rw [x.mgrs]; exact hQ.bnd

theorem Base.alive_order {cfg : Cfg} {s : St} (h : Base cfg s) {c : Nat} (hc : (s.mgrs c).inst ≠ none) :
    c ∈ s.order ∧ c < cfg.n := by
  obtain ⟨Q, hQ⟩ := h.i2
  refine ⟨?_, ?_⟩
  · rcases hQ.ord c hc with ho | hf
    · exact ho
    · exact hf.elim
  · apply Classical.byContradiction
    intro hn
    exact hc (hQ.bnd c (by omega))

/-- inside `Context.__exit__`: the classes of `_teardown_order` that come later than `c` have been
    visited (are not alive), so no machine built from `c` is up -/
theorem noDepUp_of_order {cfg : Cfg} (hwf : cfg.depsBelow) {s : St} (h : Base cfg s)
    (hn : s.order.Nodup) {done rest : List Nat} {c : Nat} (hr : s.order.reverse = done ++ c :: rest)
    (hd : ∀ x ∈ done, (s.mgrs x).inst = none) : noDepUp cfg s.trace c = true := by
  unfold noDepUp
  rw [List.all_eq_true]
  intro a ha
  cases hany : (cfg.depsOf a.1).any (·.1 == c) with
  | false => rfl
  | true =>
    exfalso
    obtain ⟨_, hcls, hup⟩ := (h.inv.upsIff a.1 a.2).mp ha
    have hinst := (h.inv.upInst a.2 hup).1
    rw [hcls] at hinst
    have hal : (s.mgrs a.1).inst ≠ none := by rw [hinst]; simp
    have hao := (h.alive_order hal).1
    obtain ⟨d, hdm, hdc⟩ := List.any_eq_true.mp hany
    have hdc' : d.1 = c := by simpa using hdc
    have hlt : c < a.1 := by rw [← hdc']; exact hwf a.1 d hdm
    have hmem : a.1 ∈ done ++ c :: rest := by rw [← hr]; exact List.mem_reverse.mpr hao
    have harest : a.1 ∈ rest := by
      rcases List.mem_append.mp hmem with hm | hm
      · exact absurd (hd a.1 hm) hal
      · rcases List.mem_cons.mp hm with hm | hm
        · omega
        · exact hm
    have hord : s.order = rest.reverse ++ c :: done.reverse := by
      have := congrArg List.reverse hr
      simpa using this
    obtain ⟨m1, m2, hm⟩ := List.append_of_mem (List.mem_reverse.mpr harest)
    have hord2 : s.order = m1 ++ a.1 :: (m2 ++ c :: done.reverse) := by
      rw [hord, hm]; simp
    have hc1 : c ∈ m1 := by
      have := h.ord.before m1 a.1 _ hord2 d hdm
      rwa [hdc'] at this
    rw [hord2] at hn
    have hdis := (List.nodup_append.mp hn).2.2
    exact hdis c hc1 c (by simp) rfl

section
variable (cfg : Cfg)

/-- with keep-alive off the exit loop does nothing -/
theorem tdLoop_kaOff (td : Nat → St → R) :
    ∀ (cs : List Nat) (s : St) (e : Option Exc), s.keepAlive = false →
      tdLoop td (fun s c => s.alive c && s.keepAlive) cs s e = (s, e) := by
  intro cs
  induction cs with
  | nil => intro s e _; rfl
  | cons c cs ih =>
    intro s e hk
    unfold tdLoop
    simp only [hk, Bool.and_false]
    exact ih s e hk

/-- the teardown loop of `Context.__exit__`, in or out of the window -/
theorem tdLoop_W (hx : ExclOnly cfg) (hwf : cfg.depsBelow) :
    ∀ (rest done : List Nat) (s : St) (e : Option Exc), Base cfg s → s.order.Nodup →
      s.order.reverse = done ++ rest → (∀ x ∈ done, (s.mgrs x).inst = none) →
      HeldDeps cfg s → s.keepAlive = true → Good cfg s →
      Good cfg (tdLoop (ops cfg cfg.n).teardown (fun s c => s.alive c && s.keepAlive) rest s e).1 := by
  intro rest
  induction rest with
  | nil => intro done s e _ _ _ _ _ _ hg; exact hg
  | cons c rest ih =>
    intro done s e hb hn hr hd hH hka hg
    unfold tdLoop
    split
    · rename_i hc
      have hal : (s.mgrs c).inst ≠ none := by
        simp only [Bool.and_eq_true] at hc
        simpa [St.alive, St.mgr, Option.isSome_iff_ne_none] using hc.1
      have hcn := (hb.alive_order hal).2
      obtain ⟨Q, hQ⟩ := hb.i2
      have h1 := (ops_spec cfg hwf cfg.n).1 [] c s hb.inv (by simp)
      have o1 := (ops_O cfg hwf cfg.n).1 [] c s hb.inv (by simp) hb.ord
      have q1 := (ops_2 cfg hwf cfg.n).1 cfg.n (fun _ => True) Fa Q [] c s hcn hcn hb.inv (by simp) hQ
      have y1 := (ops_syn cfg cfg.n).1 c s
      have hg1 : Good cfg ((ops cfg cfg.n).teardown c s).1 := by
        cases hw : inWindow s.trace with
        | false => exact y1.good hw hg
        | true =>
          exact ((ops_W cfg hx hwf cfg.n).1 [] c s hcn hb.inv (by simp) hH hka hw hal
            (noDepUp_of_order hwf hb hn hr hd) hg).1
      generalize (ops cfg cfg.n).teardown c s = r at h1 o1 q1 y1 hg1 ⊢
      have hb1 : Base cfg r.1 := ⟨h1.1, o1.1, Q, q1.1⟩
      refine ih (done ++ [c]) r.1 (first e r.2) hb1 (by rw [o1.2]; exact hn)
        (by rw [o1.2, hr]; simp) ?_ (hH.syn y1) (y1.ka.trans hka) hg1
      intro x hxm
      rcases List.mem_append.mp hxm with hm | hm
      · apply Classical.byContradiction
        intro hne
        exact q1.2.2.1 x hne (hd x hm)
      · simp at hm
        subst hm
        exact q1.2.2.2
    · rename_i hc
      have hdead : (s.mgrs c).inst = none := by
        simp only [hka, Bool.and_true] at hc
        cases hi : (s.mgrs c).inst with
        | none => rfl
        | some o => simp [St.alive, St.mgr, hi] at hc
      refine ih (done ++ [c]) s e hb hn (by rw [hr]; simp) ?_ hH hka hg
      intro x hxm
      rcases List.mem_append.mp hxm with hm | hm
      · exact hd x hm
      · simp at hm
        subst hm
        exact hdead

theorem ctxExit_syn (s : St) : Syn cfg s (ctxExit cfg s).1 := by
  unfold ctxExit
  simp only
  split
  · exact (tdLoop_syn cfg (ops_syn cfg cfg.n).1 _ _ s none).trans (Syn.same cfg rfl rfl rfl rfl)
  · exact Syn.same cfg rfl rfl rfl rfl

/-- `Context.__exit__` keeps I6, whether the window is open or not -/
theorem ctxExit_good (hx : ExclOnly cfg) (hwf : cfg.depsBelow) {s : St} (hb : Base cfg s)
    (hn : s.order.Nodup) (hH : HeldDeps cfg s) (hg : Good cfg s) : Good cfg (ctxExit cfg s).1 := by
  unfold ctxExit
  simp only
  split
  · cases hka : s.keepAlive with
    | false =>
      rw [tdLoop_kaOff _ _ s none hka]
      exact hg
    | true =>
      exact tdLoop_W cfg hx hwf s.order.reverse [] s none hb hn (by simp) (by simp) hH hka hg
  · exact hg

theorem reconfExit_syn' (ka0 roe0 : Bool) (ka : Option Bool) (s : St) :
    ∃ evs : List Ev, (reconfExit cfg ka0 roe0 ka s).1.trace = evs ++ s.trace ∧
      (∀ e ∈ evs, e.noBody = true) ∧
      (HeldDeps cfg s → HeldDeps cfg (reconfExit cfg ka0 roe0 ka s).1) ∧
      (s.order.Nodup → (reconfExit cfg ka0 roe0 ka s).1.order.Nodup) := by
  unfold reconfExit
  simp only
  split
  · have y := tdLoop_syn cfg (ops_syn cfg cfg.n).1 (fun s c => s.alive c && (s.mgr c).users == 0)
      ({ s with keepAlive := ka0, roeDefault := roe0 } : St).order.reverse
      ({ s with keepAlive := ka0, roeDefault := roe0 } : St) none
    obtain ⟨evs, ht, hq⟩ := y.trace
    exact ⟨evs, ht, hq, fun hH => HeldDeps.syn (s := { s with keepAlive := ka0, roeDefault := roe0 }) hH y,
      fun hn => y.nodup hn⟩
  · exact ⟨[], rfl, by simp, fun hH => hH, fun hn => hn⟩

theorem New.reconfX {s : St} (h : New cfg s) (ka0 roe0 : Bool) (ka : Option Bool) :
    New cfg (reconfExit cfg ka0 roe0 ka s).1 := by
  obtain ⟨evs, ht, hq, hH, hn⟩ := reconfExit_syn' cfg ka0 roe0 ka s
  refine ⟨hn h.nodup, hH h.held, ?_, ?_⟩
  · cases hc : inWindow (reconfExit cfg ka0 roe0 ka s).1.trace with
    | false => rfl
    | true =>
      rw [ht] at hc
      have := inWindow_noBody_append hq _ hc
      rw [h.closed] at this
      cases this
  · unfold Good
    rw [ht]
    exact good_noBody_append cfg hq h.closed h.good

theorem logLeave_syn (r : R) : Syn cfg r.1 (logLeave r).1 := by
  unfold logLeave
  split
  · exact syn_log cfg _ rfl
  · exact Syn.refl cfg _

theorem exec_base (hwf : cfg.depsBelow) (p : Stmt) (s : St) (hcb : p.classesBelow cfg.n = true)
    (hb : Base cfg s) : Base cfg (exec cfg p s).1 := by
  obtain ⟨Q, hQ⟩ := hb.i2
  exact ⟨(exec_inv cfg hwf p s hb.inv).1, exec_O cfg hwf p s hb.inv hb.ord,
    Q, (exec_2 cfg hwf p s _ Q hcb hb.inv hQ).1⟩

theorem execBlock_base (hwf : cfg.depsBelow) (b : Block) (s : St) (hcb : b.classesBelow cfg.n = true)
    (hb : Base cfg s) : Base cfg (execBlock cfg b s).1 := by
  obtain ⟨Q, hQ⟩ := hb.i2
  exact ⟨(execBlock_inv cfg hwf b s hb.inv).1, execBlock_O cfg hwf b s hb.inv hb.ord,
    Q, (execBlock_2 cfg hwf b s _ Q hcb hb.inv hQ).1⟩

/-- entering a program request keeps the base invariants -/
theorem reqEnter_base (hwf : cfg.depsBelow) {c : Nat} (reset excl : Bool) (roe : Option Bool) {s : St}
    (hc : c < cfg.n) (hb : Base cfg s) :
    Base cfg ((ops cfg cfg.n).reqEnter false c reset excl roe s).1 := by
  obtain ⟨Q, hQ⟩ := hb.i2
  have hre := (ops_spec cfg hwf cfg.n).2.2 [] false c reset excl roe s hb.inv (by simp)
  have ore := (ops_O cfg hwf cfg.n).2.2 [] false c reset excl roe s hb.inv (by simp) hb.ord
  have qre := (ops_2 cfg hwf cfg.n).2.2 cfg.n (fun _ => True) Fa Q [] false c reset excl roe s hc hc
    hb.inv (by simp) hQ
  generalize (ops cfg cfg.n).reqEnter false c reset excl roe s = r at hre ore qre ⊢
  obtain ⟨s1, res⟩ := r
  cases res with
  | inr e => exact ⟨hre.1, ore.1, Q, qre.2.2 e rfl⟩
  | inl f => exact ⟨hre.1, ore.1, f :: Q, qre.2.1 f rfl⟩

mutual
/-- programs keep I6 -/
theorem exec_W (hx : ExclOnly cfg) (hwf : cfg.depsBelow) : ∀ (p : Stmt) (s : St),
    p.classesBelow cfg.n = true → Base cfg s → New cfg s → New cfg (exec cfg p s).1
  | .req c reset excl roe body, s, hcb, hb, hn => by
    simp only [Stmt.classesBelow, Bool.and_eq_true, decide_eq_true_eq] at hcb
    rw [exec]
    have hb1 := reqEnter_base cfg hwf reset excl roe hcb.1 hb
    have y1 := ((ops_syn cfg cfg.n).2.2 false c reset excl roe s).1
    generalize (ops cfg cfg.n).reqEnter false c reset excl roe s = r at hb1 y1 ⊢
    obtain ⟨s1, res⟩ := r
    cases res with
    | inr e => exact (hn.syn y1).syn (syn_log cfg _ rfl)
    | inl f =>
      simp only
      have nb := execBlock_W hx hwf body s1 hcb.2 hb1 (hn.syn y1)
      generalize execBlock cfg body s1 = rb at nb ⊢
      have y2 := (ops_syn cfg cfg.n).2.1 f rb.1 rb.2
      generalize (ops cfg cfg.n).reqExit f rb.1 rb.2 = r2 at y2 ⊢
      exact (nb.syn y2).syn (logLeave_syn cfg r2)
  | .ctx body, s, hcb, hb, hn => by
    simp only [Stmt.classesBelow] at hcb
    rw [exec]
    have hx1 : Ext s ({ (s.log .ctxEnter) with openCtx := (s.log .ctxEnter).openCtx + 1 } : St) :=
      ⟨rfl, rfl, rfl, rfl, rfl, [.ctxEnter], by simp [Ev.quiet], by simp [St.log]⟩
    have hb1 : Base cfg ({ (s.log .ctxEnter) with openCtx := (s.log .ctxEnter).openCtx + 1 } : St) :=
      hb.congr hx1 rfl
    have hn1 : New cfg ({ (s.log .ctxEnter) with openCtx := (s.log .ctxEnter).openCtx + 1 } : St) :=
      hn.syn (Syn.logs cfg [.ctxEnter] rfl (by simp [Ev.noBody]) rfl rfl rfl)
    have hbb := execBlock_base cfg hwf body _ hcb hb1
    have nb := execBlock_W hx hwf body _ hcb hb1 hn1
    generalize execBlock cfg body ({ (s.log .ctxEnter) with openCtx := (s.log .ctxEnter).openCtx + 1 } : St) = rb at hbb nb ⊢
    have hx2 : Ext rb.1 (rb.1.log .ctxBody) := ext_log (by simp [Ev.quiet])
    have hb2 : Base cfg (rb.1.log .ctxBody) := hbb.congr hx2 rfl
    have hg2 : Good cfg (rb.1.log .ctxBody) := by
      unfold Good
      simp only [St.log, always_cons, condOrder, Bool.true_and]
      exact nb.good
    have hgc := ctxExit_good cfg hx hwf hb2 nb.nodup nb.held hg2
    have yc := ctxExit_syn cfg (rb.1.log .ctxBody)
    generalize ctxExit cfg (rb.1.log .ctxBody) = r2 at hgc yc ⊢
    have hH2 : HeldDeps cfg r2.1 := HeldDeps.syn (s := rb.1.log .ctxBody) nb.held yc
    have hnl : New cfg (r2.1.log .ctxLeave) := by
      refine ⟨yc.nodup nb.nodup, hH2, rfl, ?_⟩
      unfold Good
      simp only [St.log, always_cons, condOrder, Bool.true_and]
      exact hgc
    exact hnl.syn (logLeave_syn cfg (r2.1.log .ctxLeave, later rb.2 r2.2))
  | .reconf ka roe body, s, hcb, hb, hn => by
    simp only [Stmt.classesBelow] at hcb
    rw [exec]
    have hx1 : Ext s ({ s with keepAlive := ka.getD s.keepAlive, roeDefault := roe.getD s.roeDefault } : St) :=
      ⟨rfl, rfl, rfl, rfl, rfl, [], by simp, by simp⟩
    have hb1 : Base cfg ({ s with keepAlive := ka.getD s.keepAlive, roeDefault := roe.getD s.roeDefault } : St) :=
      hb.congr hx1 rfl
    have hn1 : New cfg ({ s with keepAlive := ka.getD s.keepAlive, roeDefault := roe.getD s.roeDefault } : St) :=
      ⟨hn.nodup, hn.held, hn.closed, hn.good⟩
    have nb := execBlock_W hx hwf body _ hcb hb1 hn1
    generalize execBlock cfg body ({ s with keepAlive := ka.getD s.keepAlive, roeDefault := roe.getD s.roeDefault } : St) = rb at nb ⊢
    have nc := nb.reconfX cfg s.keepAlive s.roeDefault ka
    generalize reconfExit cfg s.keepAlive s.roeDefault ka rb.1 = r2 at nc ⊢
    exact nc.syn (logLeave_syn cfg (r2.1, later rb.2 r2.2))
  | .try_ body, s, hcb, hb, hn => by
    simp only [Stmt.classesBelow] at hcb
    rw [exec]
    have nb := execBlock_W hx hwf body s hcb hb hn
    generalize execBlock cfg body s = rb at nb ⊢
    cases he : rb.2 with
    | some e => exact nb.syn (syn_log cfg _ rfl)
    | none => exact nb
  | .raise, s, _, _, hn => by
    rw [exec]
    exact (hn.syn (syn_newExc cfg s .body)).syn (syn_log cfg _ rfl)
  | .skip, s, _, _, hn => by
    rw [exec]
    exact (hn.syn (syn_newExc cfg s .skip)).syn (syn_log cfg _ rfl)
  | .td c, s, _, _, hn => by
    rw [exec]
    split
    · have y := (ops_syn cfg cfg.n).1 c s
      generalize (ops cfg cfg.n).teardown c s = r at y ⊢
      simp only
      cases he : r.2 with
      | some e => exact (hn.syn y).syn (syn_log cfg _ rfl)
      | none => exact (hn.syn y).syn (syn_log cfg _ rfl)
    · exact hn.syn (syn_log cfg _ rfl)

theorem execBlock_W (hx : ExclOnly cfg) (hwf : cfg.depsBelow) : ∀ (b : Block) (s : St),
    b.classesBelow cfg.n = true → Base cfg s → New cfg s → New cfg (execBlock cfg b s).1
  | .nil, s, _, _, hn => by rw [execBlock]; exact hn
  | .cons p rest, s, hcb, hb, hn => by
    simp only [Block.classesBelow, Bool.and_eq_true] at hcb
    rw [execBlock]
    have b1 := exec_base cfg hwf p s hcb.1 hb
    have n1 := exec_W hx hwf p s hcb.1 hb hn
    generalize exec cfg p s = r at b1 n1 ⊢
    cases he : r.2 with
    | some e => exact n1
    | none => exact execBlock_W hx hwf rest r.1 hcb.2 b1 n1
end

end

end Ctx
