import TbotVerif.Props.EnvProg
/-! C09: `subshell()` — the spawned shell is a new frame on the remote's stack, `_init_shell` brings
    the world in sync with it, and the `exit` of the `finally` block pops exactly that frame and
    brings the world in sync with the shell below. -/

namespace Env
open Chan Quote EnvChan

/-! ### `sendline(line); read_until_prompt()` in sync -/

theorem plainCmd_ok {ash : Bool} {line out : Bytes} {r' : Remote} (w : World)
    (hs : InSync ash w) (hcl : clean (blacklist ash) line = true)
    (ha : Answers (prompt ash) w.rem ([], 0) line out r') (hl : Lands ash r')
    (hend : OnlyAtEnd (prompt ash) (Tty.echo false (line ++ [CR]) ++ Tty.cook out ++ prompt ash)) :
    ∃ w', plainCmd line w = (.ok (), w') ∧ InSync ash w' ∧ w'.rem = r' ∧ w'.oracle = w.oracle := by
  obtain ⟨w1, hsl, hrem1, hor1, hq1, hsame1, hflat1, _⟩ :=
    sendlineR_plain_ok w hs.quiet hs.chBl (clean_forbidden hcl) ha
  rw [hs.script] at hflat1
  obtain ⟨ch2, hrup, hsc2, hsame2⟩ := rup_ok (prompt ash) _ w1.ch hq1 (prompt_ne ash)
    (by rw [hsame1.prompt, hs.chPrompt]) (by simpa [flat] using hflat1) hend
  have hsame := hsame1.trans hsame2
  refine ⟨{ w1 with ch := ch2 }, ?_, ?_, hrem1, hor1⟩
  · unfold plainCmd
    rw [hsl]
    simp only [hrup]
  · exact {
      quiet := quiet_of_nil hs.quiet hsame hsc2
      script := hsc2
      chPrompt := by show ch2.prompt = _; rw [hsame.prompt, hs.chPrompt]
      chBl := by show ch2.blacklist = _; rw [hsame.blacklist, hs.chBl]
      remAsh := by show w1.rem.ash = _; rw [hrem1]; exact hl.remAsh
      alive := by show w1.rem.frames.isEmpty = _; rw [hrem1]; exact hl.alive
      ps1 := by show ∀ f ∈ w1.rem.frames, _; rw [hrem1]; exact hl.ps1
      last := by show w1.rem.last < 256; rw [hrem1]; exact hl.last }

/-! ### leaving: the `finally` block -/

theorem exit_facts (ash : Bool) :
    escape [b!"exit"] = exitLine ∧ clean (blacklist ash) exitLine = true
      ∧ noEarly (prompt ash) (Tty.echo false (exitLine ++ [CR]) ++ Tty.cook (if ash then [] else b!"exit\n")) = true := by
  cases ash <;> decide +kernel

/-- **the `finally` of `subshell()`**: with a nested shell in front, `exit` + wait for the prompt
    pops exactly that shell's frame and the world is in sync with the shell below -/
theorem subExit_ok {ash : Bool} (w : World) (fi fo : Frame) (fs : List Frame)
    (hs : InSync ash w) (hf : w.rem.frames = fi :: fo :: fs) :
    ∃ w', subExit w = (.ok (), w') ∧ InSync ash w' ∧ w'.rem.frames = fo :: fs ∧ w'.oracle = w.oracle := by
  obtain ⟨he, hcl, hne⟩ := exit_facts ash
  have hl : Lands ash { w.rem with frames := fo :: fs, last := 0 } := by
    refine ⟨hs.remAsh, rfl, ?_, Nat.zero_lt_succ _⟩
    intro g hg
    exact hs.ps1 g (by rw [hf]; exact List.mem_cons_of_mem _ hg)
  have hb : builtin w.rem fi (fo :: fs) ([], 0) [b!"exit"]
      = ((if ash then [] else b!"exit\n"), { w.rem with frames := fo :: fs, last := 0 }) := by
    rw [builtin_exit]
    congr 1
    rw [hs.remAsh]
  have ha : Answers (prompt ash) w.rem ([], 0) exitLine (if ash then [] else b!"exit\n")
      { w.rem with frames := fo :: fs, last := 0 } := by
    rw [← he]
    exact answers_escape hf (hs.ps1 fi (by rw [hf]; simp)) (by simp)
      (by intro x hx; simp only [List.mem_singleton] at hx; subst hx; exact (closed_clean ash).2.2.2.2.2.2.2.2.2.2)
      hb hl.shows
  obtain ⟨w', hrun, hs', hrem, hor⟩ := plainCmd_ok w hs hcl ha hl (by
    have := noEarly_sound hne
    simpa [List.append_assoc] using this)
  exact ⟨w', hrun, hs', by rw [hrem], hor⟩

/-! ### entering: spawn, `_init_shell` -/

theorem builtin_spawn (r : Remote) (f : Frame) (fs : List Frame) (ext : Bytes × Nat) :
    builtin r f fs ext (spawnWords r.ash)
      = ([], { r with frames := { f with opts := [], ps1 := defaultPs1 } :: f :: fs, last := 0 }) := by
  cases h : r.ash <;> simp [builtin, spawnWords, h, EQ]

/-- lines that change nothing the model tracks and print nothing -/
structure NoopLine (ash : Bool) (line : Bytes) : Prop where
  clean : clean (blacklist ash) line = true
  step : ∀ (r : Remote) (f : Frame) (fs : List Frame), r.frames = f :: fs → step r ([], 0) line = ([], r.setLast 0)
  only : OnlyAtEnd (prompt ash) (Tty.echo false (line ++ [CR]) ++ Tty.cook [] ++ prompt ash)

theorem plainCmds_noop {ash : Bool} : ∀ (ls : List Bytes) (w : World), (∀ l ∈ ls, NoopLine ash l) → InSync ash w →
    ∃ w', plainCmds ls w = (.ok (), w') ∧ InSync ash w' ∧ w'.rem.frames = w.rem.frames ∧ w'.oracle = w.oracle := by
  intro ls
  induction ls with
  | nil => intro w _ hs; exact ⟨w, rfl, hs, rfl, rfl⟩
  | cons l ls ih =>
    intro w hall hs
    have hn := hall l (by simp)
    obtain ⟨f, fs, hf, hp⟩ := hs.shows
    have hl : Lands ash (w.rem.setLast 0) := lands_same 0 w.rem.seen hs.remAsh hs.alive hs.ps1 (Nat.zero_lt_succ _)
    have ha : Answers (prompt ash) w.rem ([], 0) l [] (w.rem.setLast 0) :=
      answers_of_step hs.shows hn.clean (hn.step w.rem f fs hf) hl.shows
    obtain ⟨w1, hrun, hs1, hrem1, hor1⟩ := plainCmd_ok w hs hn.clean ha hl hn.only
    obtain ⟨w', hrun', hs', hfr', hor'⟩ := ih w1 (fun x hx => hall x (by simp [hx])) hs1
    refine ⟨w', ?_, hs', by rw [hfr', hrem1]; rfl, by rw [hor', hor1]⟩
    unfold plainCmds
    rw [hrun]
    exact hrun'

/-! #### the digits of the terminal size -/

theorem decN_digits : ∀ (f n : Nat) (c : Byte), c ∈ decN f n → 48 ≤ c.toNat ∧ c.toNat ≤ 57 := by
  intro f
  induction f with
  | zero => intro n c h; simp [decN] at h
  | succ f ih =>
    intro n c h
    unfold decN at h
    split at h
    · rename_i hlt
      simp only [List.mem_singleton] at h
      subst h
      rw [EnvUtf8.toNat_ofNat_lt _ (by omega)]; omega
    · simp only [List.mem_append, List.mem_singleton] at h
      rcases h with h | h
      · exact ih _ c h
      · subst h
        rw [EnvUtf8.toNat_ofNat_lt _ (by omega)]; omega

theorem dec_ne_nil (n : Nat) : dec n ≠ [] := by
  unfold dec decN
  split <;> simp

theorem digit_facts (ash : Bool) (c : Byte) (h : 48 ≤ c.toNat ∧ c.toNat ≤ 57) :
    safeByte c = true ∧ okByte (blacklist ash) c = true ∧ c ≠ 84 ∧ c ≠ Tty.CR ∧ c ≠ Tty.LF := by
  have key := byte_forall (fun c => !(decide (48 ≤ c.toNat) && decide (c.toNat ≤ 57)) ||
    (safeByte c && okByte (blacklist ash) c && (c != 84) && (c != Tty.CR) && (c != Tty.LF)))
    (by cases ash <;> decide +kernel) c
  simp only [h.1, h.2, decide_true, Bool.and_self, Bool.not_true, Bool.false_or, Bool.and_eq_true, bne_iff_ne, ne_eq] at key
  exact ⟨key.1.1.1.1, key.1.1.1.2, key.1.1.2, key.1.2, key.2⟩

/-- `stty <what> <n>` -/
theorem noop_stty (ash : Bool) (what : Bytes) (n : Nat)
    (hwhat : what = b!"cols" ∨ what = b!"rows") :
    NoopLine ash (b!"stty " ++ what ++ b!" " ++ dec n) := by
  have hd : ∀ c ∈ dec n, 48 ≤ c.toNat ∧ c.toNat ≤ 57 := decN_digits _ _
  have hsafe : (dec n).all safeByte = true := List.all_eq_true.mpr fun c hc => (digit_facts ash c (hd c hc)).1
  have hq : shlexQuote (dec n) = dec n := by
    unfold shlexQuote
    have : (dec n).isEmpty = false := by
      cases h : dec n with
      | nil => exact absurd h (dec_ne_nil n)
      | cons _ _ => rfl
    simp [this, hsafe]
  have hcld : clean (blacklist ash) (dec n) = true :=
    List.all_eq_true.mpr fun c hc => (digit_facts ash c (hd c hc)).2.1
  have q1 : shlexQuote b!"stty" = b!"stty" := by decide
  have q2 : shlexQuote b!"cols" = b!"cols" := by decide
  have q3 : shlexQuote b!"rows" = b!"rows" := by decide
  have hline : b!"stty " ++ what ++ b!" " ++ dec n = escape [b!"stty", what, dec n] := by
    rcases hwhat with rfl | rfl <;> simp [escape, joinSp, hq, q1, q2, q3, SP]
  have hclw : clean (blacklist ash) what = true := by
    rcases hwhat with rfl | rfl <;> cases ash <;> decide
  have hcls : clean (blacklist ash) b!"stty" = true := by cases ash <;> decide
  refine ⟨?_, ?_, ?_⟩
  · rw [hline]
    exact clean_escape _ (by
      intro x hx
      simp only [List.mem_cons, List.mem_nil_iff, or_false] at hx
      rcases hx with rfl | rfl | rfl
      · exact hcls
      · exact hclw
      · exact hcld)
  · intro r f fs hf
    rw [hline, step_escape r f fs _ _ hf (by simp)]
    simp [builtin]
  · apply onlyAtEnd_prompt
    have hplain : ∀ c ∈ b!"stty " ++ what ++ b!" " ++ dec n, c ≠ 84 ∧ c ≠ Tty.CR ∧ c ≠ Tty.LF := by
      intro c hc
      simp only [List.mem_append] at hc
      rcases hc with ((hc | hc) | hc) | hc
      · revert c; decide
      · rcases hwhat with rfl | rfl <;> (revert c; decide)
      · revert c; decide
      · exact (digit_facts ash c (hd c hc)).2.2
    rw [Tty.echo_append, Tty.echo_noctl_of_plain _ (fun c hc => (hplain c hc).2)]
    intro hm
    simp only [Tty.cook, List.flatMap_nil, List.append_nil] at hm
    rcases List.mem_append.mp hm with hm | hm
    · exact (hplain 84 hm).1 rfl
    · revert hm; decide

theorem noop_closed (ash : Bool) :
    NoopLine ash b!"unset HISTFILE" ∧ NoopLine ash editLine ∧ NoopLine ash b!"PS2=''"
      ∧ NoopLine ash b!"histchars=''" ∧ NoopLine ash b!"stty cols 1024" ∧ NoopLine ash b!"stty -echoctl" := by
  have mk : ∀ (line : Bytes), clean (blacklist ash) line = true →
      (∀ env, ∃ ws, wordsX env (line.length + 1) line = some ws ∧
        ∀ (r : Remote) (f : Frame) (fs : List Frame), builtin r f fs ([], 0) ws = ([], r.setLast 0)) →
      line.isEmpty = false →
      noEarly (prompt ash) (Tty.echo false (line ++ [CR]) ++ Tty.cook []) = true → NoopLine ash line := by
    intro line hc hw he hn
    refine ⟨hc, ?_, ?_⟩
    · intro r f fs hf
      obtain ⟨ws, hws, hb⟩ := hw f.env
      unfold step
      rw [hf]
      simp only [he, Bool.false_eq_true, if_false, hws, hb]
    · have := noEarly_sound hn
      simpa [List.append_assoc] using this
  refine ⟨?_, ?_, ?_, ?_, ?_, ?_⟩
  · exact mk _ (by cases ash <;> decide) (fun env => ⟨[b!"unset", b!"HISTFILE"], rfl, fun r f fs => rfl⟩) rfl
      (by cases ash <;> decide +kernel)
  · refine ⟨by cases ash <;> decide, ?_, ?_⟩
    · intro r f fs hf; exact step_edit r f fs _ hf
    · have : noEarly (prompt ash) (Tty.echo false (editLine ++ [CR]) ++ Tty.cook []) = true := by
        cases ash <;> decide +kernel
      have := noEarly_sound this
      simpa [List.append_assoc] using this
  · exact mk _ (by cases ash <;> decide) (fun env => ⟨[b!"PS2="], rfl, fun r f fs => rfl⟩) rfl
      (by cases ash <;> decide +kernel)
  · exact mk _ (by cases ash <;> decide) (fun env => ⟨[b!"histchars="], rfl, fun r f fs => rfl⟩) rfl
      (by cases ash <;> decide +kernel)
  · exact mk _ (by cases ash <;> decide) (fun env => ⟨[b!"stty", b!"cols", b!"1024"], rfl, fun r f fs => rfl⟩) rfl
      (by cases ash <;> decide +kernel)
  · exact mk _ (by cases ash <;> decide) (fun env => ⟨[b!"stty", b!"-echoctl"], rfl, fun r f fs => rfl⟩) rfl
      (by cases ash <;> decide +kernel)

theorem initLines_noop (ash : Bool) (cols rows : Nat) : ∀ l ∈ initLines ash cols rows, NoopLine ash l := by
  obtain ⟨h1, h2, h3, h4, h5, h6⟩ := noop_closed ash
  intro l hl
  cases ash with
  | true =>
    simp only [initLines, if_true, List.mem_cons, List.mem_nil_iff, or_false] at hl
    rcases hl with rfl | rfl | rfl | rfl
    · exact h1
    · exact h5
    · exact h3
    · exact h6
  | false =>
    simp only [initLines, Bool.false_eq_true, if_false, List.mem_cons, List.mem_nil_iff, or_false] at hl
    rcases hl with rfl | rfl | rfl | rfl | rfl | rfl | rfl
    · exact h1
    · exact h2
    · exact h3
    · exact h4
    · exact noop_stty false b!"cols" _ (Or.inl rfl)
    · exact noop_stty false b!"rows" _ (Or.inr rfl)
    · exact h6

/-- what comes back for the spawn command, and for `echo TBOT\LOGIN` in the new shell -/
def R1 (ash : Bool) : Bytes := Tty.echo false (spawnLine ash ++ [CR]) ++ Tty.cook [] ++ defaultPs1
def R2 : Bytes := Tty.echo false (waitLine ++ [CR]) ++ Tty.cook b!"TBOTLOGIN\n" ++ defaultPs1

/-- closed facts about the fixed lines of `subshell()` / `_init_shell` (both shells) -/
theorem enter_facts (ash : Bool) :
    escape (spawnWords ash) = spawnLine ash ∧ clean (blacklist ash) (spawnLine ash) = true
    ∧ clean (blacklist ash) waitLine = true ∧ clean (blacklist ash) (ps1Line (prompt ash)) = true
    ∧ containsSub b!"TBOTLOGIN" (R1 ash ++ R2) = true
    ∧ noEarly (prompt ash) ((R1 ash ++ R2) ++ (Tty.echo false (ps1Line (prompt ash) ++ [CR]) ++ Tty.cook [])) = true
    ∧ escape [b!"echo", b!"TBOT-SANITY-CHECK"] = sanityLine ∧ clean (blacklist ash) sanityLine = true
    ∧ text (Tty.cook (echoOut ash [b!"TBOT-SANITY-CHECK"])) = sanityText
    ∧ noEarly (prompt ash) (Tty.cook (echoOut ash [b!"TBOT-SANITY-CHECK"])) = true := by
  cases ash <;> decide +kernel

theorem step_ps1 (ash : Bool) (r : Remote) (f : Frame) (fs : List Frame) (ext : Bytes × Nat) (hf : r.frames = f :: fs) :
    step r ext (ps1Line (prompt ash))
      = ([], { r with frames := { f with ps1 := prompt ash } :: fs, last := 0 }) := by
  cases ash
  · unfold step
    rw [hf]
    have h1 : wordsX f.env ((ps1Line (prompt false)).length + 1) (ps1Line (prompt false)) = none := by rfl
    simp only [h1]
    rfl
  · unfold step
    rw [hf]
    have h1 : wordsX f.env ((ps1Line (prompt true)).length + 1) (ps1Line (prompt true)) = none := by rfl
    simp only [h1]
    rfl

/-- `shell_sanity_check` in sync -/
theorem sanityCheck_ok {ash : Bool} (w : World) (hs : InSync ash w) :
    ∃ w', sanityCheck w = (.ok (), w') ∧ InSync ash w' ∧ w'.rem.frames = w.rem.frames ∧ w'.oracle = w.oracle := by
  obtain ⟨_, _, _, _, _, _, hescS, hclSan, htext, hneSan⟩ := enter_facts ash
  obtain ⟨f, fs, hf, hp⟩ := hs.shows
  have hl : Lands ash (w.rem.setLast 0) := lands_same 0 w.rem.seen hs.remAsh hs.alive hs.ps1 (Nat.zero_lt_succ _)
  have hb : builtin w.rem f fs ([], 0) [b!"echo", b!"TBOT-SANITY-CHECK"]
      = (echoOut ash [b!"TBOT-SANITY-CHECK"], w.rem.setLast 0) := by
    rw [builtin_echo, hs.remAsh]
  have ha : Answers (prompt ash) w.rem ([], 0) sanityLine (echoOut ash [b!"TBOT-SANITY-CHECK"]) (w.rem.setLast 0) := by
    rw [← hescS]
    refine answers_escape hf hp (by simp) ?_ hb hl.shows
    intro x hx
    simp only [List.mem_cons, List.mem_nil_iff, or_false] at hx
    rcases hx with rfl | rfl <;> cases ash <;> decide
  obtain ⟨w1, hsl, hrem1, hor1, hq1, hsame1, hflat1⟩ := sendlineR_rb_ok w hs (clean_forbidden hclSan) ha
  obtain ⟨ch2, hrup, hsc2, hsame2⟩ := rup_ok (prompt ash) _ w1.ch hq1 (prompt_ne ash)
    (by rw [hsame1.prompt, hs.chPrompt]) hflat1 (noEarly_sound hneSan)
  have hsame := hsame1.trans hsame2
  refine ⟨{ w1 with ch := ch2 }, ?_, ?_, by show w1.rem.frames = _; rw [hrem1]; rfl, hor1⟩
  · unfold sanityCheck
    rw [hsl]
    simp only [hrup, List.length_append, Nat.add_sub_cancel, List.take_left', htext, beq_self_eq_true, if_true]
  · exact {
      quiet := quiet_of_nil hs.quiet hsame hsc2
      script := hsc2
      chPrompt := by show ch2.prompt = _; rw [hsame.prompt, hs.chPrompt]
      chBl := by show ch2.blacklist = _; rw [hsame.blacklist, hs.chBl]
      remAsh := by show w1.rem.ash = _; rw [hrem1]; exact hl.remAsh
      alive := by show w1.rem.frames.isEmpty = _; rw [hrem1]; exact hl.alive
      ps1 := by show ∀ f ∈ w1.rem.frames, _; rw [hrem1]; exact hl.ps1
      last := by show w1.rem.last < 256; rw [hrem1]; exact hl.last }

/-- **`subshell()` up to the `yield`**: in sync with a shell in front, spawning a nested shell and
    running `_init_shell` succeeds for every fragmentation oracle; the remote has ONE more frame — a
    copy of the current one with fresh options — and the world is in sync with it -/
theorem subEnter_ok {ash : Bool} (cols rows : Nat) (w : World) (f : Frame) (fs : List Frame)
    (hs : InSync ash w) (hf : w.rem.frames = f :: fs) :
    ∃ w', subEnter ash cols rows w = ((.ok (), w'), true) ∧ InSync ash w'
      ∧ w'.rem.frames = { f with opts := [] } :: f :: fs ∧ w'.oracle = w.oracle := by
  obtain ⟨hesc, hclS, hclW, hclP, hcont, hne, _⟩ := enter_facts ash
  have hp : f.ps1 = prompt ash := hs.ps1 f (by rw [hf]; simp)
  -- 1. the spawn command: a new frame, showing the default prompt
  have hstep1 : step w.rem ([], 0) (Tty.input (spawnLine ash))
      = ([], { w.rem with frames := { f with opts := [], ps1 := defaultPs1 } :: f :: fs, last := 0 }) := by
    rw [clean_input hclS, ← hesc, step_escape w.rem f fs _ _ hf (by cases ash <;> simp [spawnWords]), ← hs.remAsh,
      builtin_spawn]
  have ha1 : Answers defaultPs1 w.rem ([], 0) (spawnLine ash) []
      { w.rem with frames := { f with opts := [], ps1 := defaultPs1 } :: f :: fs, last := 0 } :=
    ⟨hs.alive, hstep1, ⟨_, _, rfl, rfl⟩⟩
  obtain ⟨w1, hsl1, hrem1, hor1, hq1, hsame1, hflat1, htick1⟩ :=
    sendlineR_plain_ok w hs.quiet hs.chBl (clean_forbidden hclS) ha1
  have hflat1' : flat w1.ch.script = R1 ash := by rw [hflat1, hs.script]; simp [flat, R1]
  have htick1' : ∀ q ∈ w1.ch.script, q.tick = 0 := htick1 (by rw [hs.script]; simp)
  -- 2. wait_for_shell: the first `echo TBOT\LOGIN` is answered
  have hfr1 : w1.rem.frames = { f with opts := [], ps1 := defaultPs1 } :: f :: fs := by rw [hrem1]
  have ha2 : Answers defaultPs1 w1.rem ([], 0) waitLine b!"TBOTLOGIN\n" (w1.rem.setLast 0) :=
    ⟨by rw [hfr1]; rfl, by rw [clean_input hclW]; exact step_wait w1.rem _ _ _ hfr1, ⟨_, _, hfr1, rfl⟩⟩
  have hbl1 : w1.ch.blacklist = blacklist ash := by rw [hsame1.blacklist, hs.chBl]
  obtain ⟨w2, hsl2, hrem2, hor2, hq2, hsame2, hflat2, htick2⟩ :=
    sendlineR_plain_ok w1 hq1 hbl1 (clean_forbidden hclW) ha2
  have hflat2' : flat w2.ch.script = R1 ash ++ R2 := by rw [hflat2, hflat1']; rfl
  obtain ⟨res, ch3, hexp, ⟨pre, hpre⟩, hsame3, hwf3⟩ := expect_ok b!"TBOTLOGIN" 204 w2.ch hq2 (by decide)
    (by intro q hq; rw [htick2 htick1' q hq]; exact Nat.zero_le _)
    (by rw [hflat2']; exact hcont)
    (by rw [hflat2']; cases ash <;> decide)
  have hwait : waitForShell 8 204 w1 = (.ok (), { w2 with ch := ch3 }) := by
    unfold waitForShell
    rw [hsl2]
    simp only [hexp]
  -- 3. the prompt is set
  have hq3 : Quiet ch3 := hq2.of_same hsame3 hwf3
  have hsame03 : Same w.ch ch3 := (hsame1.trans hsame2).trans hsame3
  generalize hw3 : setBlacklist (blacklist ash) { w2 with ch := ch3 } = w3
  have hq3' : Quiet w3.ch := by
    subst hw3
    exact ⟨hq3.deaths, hq3.accept, hq3.slow, hq3.chunk, hq3.slice, hq3.wf⟩
  have hfr3 : w3.rem.frames = { f with opts := [], ps1 := defaultPs1 } :: f :: fs := by
    subst hw3; show w2.rem.frames = _; rw [hrem2]; exact hfr1
  have ha3 : Answers (prompt ash) w3.rem ([], 0) (ps1Line (prompt ash)) []
      { w3.rem with frames := { f with opts := [], ps1 := prompt ash } :: f :: fs, last := 0 } :=
    ⟨by rw [hfr3]; rfl, by rw [clean_input hclP]; exact step_ps1 ash w3.rem _ _ _ hfr3, ⟨_, _, rfl, rfl⟩⟩
  obtain ⟨w4, hsl4, hrem4, hor4, hq4, hsame4, hflat4, _⟩ :=
    sendlineR_plain_ok w3 hq3' (by subst hw3; rfl) (clean_forbidden hclP) ha3
  have hsc3 : flat w3.ch.script = flat ch3.script := by subst hw3; rfl
  generalize hw5 : setPrompt (prompt ash) w4 = w5
  have hq5 : Quiet w5.ch := by
    subst hw5
    exact ⟨hq4.deaths, hq4.accept, hq4.slow, hq4.chunk, hq4.slice, hq4.wf⟩
  -- the leftover of wait_for_shell, the echo of the PS1 line and the new prompt: the prompt is
  -- only at the end, whatever the leftover is
  have hend : OnlyAtEnd (prompt ash)
      (flat ch3.script ++ (Tty.echo false (ps1Line (prompt ash) ++ [CR]) ++ Tty.cook [] ++ prompt ash)) := by
    have h0 := noEarly_sound hne
    have hpre' : pre ++ flat ch3.script = R1 ash ++ R2 := by rw [hpre, hflat2']
    rw [← hpre'] at h0
    have h1 : (pre ++ flat ch3.script ++ (Tty.echo false (ps1Line (prompt ash) ++ [CR]) ++ Tty.cook [])) ++ prompt ash
        = pre ++ (flat ch3.script ++ (Tty.echo false (ps1Line (prompt ash) ++ [CR]) ++ Tty.cook [] ++ prompt ash)) := by
      simp [List.append_assoc]
    rw [h1] at h0
    exact OnlyAtEnd.suffix h0 (by simp only [List.length_append]; omega)
  obtain ⟨ch6, hrup, hsc6, hsame6⟩ := rup_ok (prompt ash) _ w5.ch hq5 (prompt_ne ash) (by subst hw5; rfl)
    (by subst hw5; show flat w4.ch.script = _; rw [hflat4, hsc3]) hend
  have hinit1 : InSync ash { w5 with ch := ch6 } := by
    have hbl6 : ch6.blacklist = blacklist ash := by
      rw [hsame6.blacklist]; subst hw5; show w4.ch.blacklist = _; rw [hsame4.blacklist]; subst hw3; rfl
    have hpr6 : ch6.prompt = some (.lit (prompt ash)) := by rw [hsame6.prompt]; subst hw5; rfl
    have hrem5 : w5.rem = { w3.rem with frames := { f with opts := [], ps1 := prompt ash } :: f :: fs, last := 0 } := by
      subst hw5; exact hrem4
    exact {
      quiet := quiet_of_nil hq5 hsame6 hsc6
      script := hsc6
      chPrompt := hpr6
      chBl := hbl6
      remAsh := by show w5.rem.ash = _; rw [hrem5]; subst hw3; show w2.rem.ash = _; rw [hrem2, hrem1]; exact hs.remAsh
      alive := by show w5.rem.frames.isEmpty = _; rw [hrem5]; rfl
      ps1 := by
        show ∀ g ∈ w5.rem.frames, _
        rw [hrem5]
        intro g hg
        simp only [List.mem_cons] at hg
        rcases hg with rfl | rfl | hg
        · rfl
        · exact hp
        · exact hs.ps1 g (by rw [hf]; simp [hg])
      last := by show w5.rem.last < 256; rw [hrem5]; exact Nat.zero_lt_succ _ }
  have hfr5 : ({ w5 with ch := ch6 } : World).rem.frames = { f with opts := [], ps1 := prompt ash } :: f :: fs := by
    show w5.rem.frames = _; subst hw5; show w4.rem.frames = _; rw [hrem4]
  -- 4. the remaining lines of `_init_shell`, and the sanity check
  obtain ⟨w7, hrun7, hs7, hfr7, hor7⟩ := plainCmds_noop (initLines ash cols rows) _ (initLines_noop ash cols rows) hinit1
  obtain ⟨w8, hrun8, hs8, hfr8, hor8⟩ := sanityCheck_ok w7 hs7
  refine ⟨w8, ?_, hs8, ?_, ?_⟩
  · unfold subEnter
    rw [hsl1]
    simp only
    obtain ⟨b, hrupW⟩ : ∃ b, rupW w5 = (.ok b, { w5 with ch := ch6 }) := ⟨_, by unfold rupW; rw [hrup]⟩
    unfold initShell
    rw [hwait]
    simp only [hw3, hsl4, hw5, hrupW, hrun7, hrun8]
  · rw [hfr8, hfr7, hfr5, ← hp]
  · rw [hor8, hor7]
    show w5.oracle = _
    subst hw5
    show w4.oracle = _
    rw [hor4]
    subst hw3
    show w2.oracle = _
    rw [hor2, hor1]

end Env
