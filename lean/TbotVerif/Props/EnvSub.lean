import TbotVerif.Props.EnvProg
/-! C09: `subshell()` — the spawned shell is a new frame on the remote's stack, `_init_shell` brings
    the world in sync with it, and the `exit` of the `finally` block pops exactly that frame and
    brings the world in sync with the shell below. -/

namespace Env
open Chan Quote EnvChan

/-! ### `sendline(line); read_until_prompt()` in sync -/

theorem plainCmd_ok {ash : Bool} {line out : Bytes} {r' : Remote} (w : World)
    (hs : InSync ash w) (hcl : clean (blacklist ash) line = true)
    (ha : Answers (prompt ash) w.rem ([], 0) line out r') (hl : Lands ash r')
    (hend : OnlyAtEnd (prompt ash) (Tty.echo false (line ++ [CR]) ++ Tty.cook out ++ prompt ash)) :
    ∃ w', plainCmd line w = (.ok (), w') ∧ InSync ash w' ∧ w'.rem = r' ∧ w'.oracle = w.oracle := by
  obtain ⟨w1, hsl, hrem1, hor1, hq1, hsame1, hflat1, _⟩ :=
    sendlineR_plain_ok w hs.quiet hs.chBl (clean_forbidden hcl) ha
  rw [hs.script] at hflat1
  obtain ⟨ch2, hrup, hsc2, hsame2⟩ := rup_ok (prompt ash) _ w1.ch hq1 (prompt_ne ash)
    (by rw [hsame1.prompt, hs.chPrompt]) (by simpa [flat] using hflat1) hend
  have hsame := hsame1.trans hsame2
  refine ⟨{ w1 with ch := ch2 }, ?_, ?_, hrem1, hor1⟩
  · unfold plainCmd
    rw [hsl]
    simp only [hrup]
  · exact {
      quiet := quiet_of_nil hs.quiet hsame hsc2
      script := hsc2
      chPrompt := by show ch2.prompt = _; rw [hsame.prompt, hs.chPrompt]
      chBl := by show ch2.blacklist = _; rw [hsame.blacklist, hs.chBl]
      remAsh := by show w1.rem.ash = _; rw [hrem1]; exact hl.remAsh
      alive := by show w1.rem.frames.isEmpty = _; rw [hrem1]; exact hl.alive
      ps1 := by show ∀ f ∈ w1.rem.frames, _; rw [hrem1]; exact hl.ps1
      last := by show w1.rem.last < 256; rw [hrem1]; exact hl.last }

/-! ### leaving: the `finally` block -/

theorem exit_facts (ash : Bool) :
    escape [b!"exit"] = exitLine ∧ clean (blacklist ash) exitLine = true
      ∧ noEarly (prompt ash) (Tty.echo false (exitLine ++ [CR]) ++ Tty.cook (if ash then [] else b!"exit\n")) = true := by
  cases ash <;> decide +kernel

/-- **the `finally` of `subshell()`**: with a nested shell in front, `exit` + wait for the prompt
    pops exactly that shell's frame and the world is in sync with the shell below -/
theorem subExit_ok {ash : Bool} (w : World) (fi fo : Frame) (fs : List Frame)
    (hs : InSync ash w) (hf : w.rem.frames = fi :: fo :: fs) :
    ∃ w', subExit w = (.ok (), w') ∧ InSync ash w' ∧ w'.rem.frames = fo :: fs ∧ w'.oracle = w.oracle := by
  obtain ⟨he, hcl, hne⟩ := exit_facts ash
  have hl : Lands ash { w.rem with frames := fo :: fs, last := 0 } := by
    refine ⟨hs.remAsh, rfl, ?_, Nat.zero_lt_succ _⟩
    intro g hg
    exact hs.ps1 g (by rw [hf]; exact List.mem_cons_of_mem _ hg)
  have hb : builtin w.rem fi (fo :: fs) ([], 0) [b!"exit"]
      = ((if ash then [] else b!"exit\n"), { w.rem with frames := fo :: fs, last := 0 }) := by
    rw [builtin_exit]
    congr 1
    rw [hs.remAsh]
  have ha : Answers (prompt ash) w.rem ([], 0) exitLine (if ash then [] else b!"exit\n")
      { w.rem with frames := fo :: fs, last := 0 } := by
    rw [← he]
    exact answers_escape hf (hs.ps1 fi (by rw [hf]; simp)) (by simp)
      (by intro x hx; simp only [List.mem_singleton] at hx; subst hx; exact (closed_clean ash).2.2.2.2.2.2.2.2.2.2)
      hb hl.shows
  obtain ⟨w', hrun, hs', hrem, hor⟩ := plainCmd_ok w hs hcl ha hl (by
    have := noEarly_sound hne
    simpa [List.append_assoc] using this)
  exact ⟨w', hrun, hs', by rw [hrem], hor⟩

/-! ### entering: spawn, `_init_shell` -/

theorem builtin_spawn (r : Remote) (f : Frame) (fs : List Frame) (ext : Bytes × Nat) :
    builtin r f fs ext (spawnWords r.ash)
      = ([], { r with frames := { f with opts := [], ps1 := defaultPs1 } :: f :: fs, last := 0 }) := by
  cases h : r.ash <;> simp [builtin, spawnWords, h, EQ]

/-- lines that change nothing the model tracks and print nothing -/
structure NoopLine (ash : Bool) (line : Bytes) : Prop where
  clean : clean (blacklist ash) line = true
  step : ∀ (r : Remote) (f : Frame) (fs : List Frame), r.frames = f :: fs → step r ([], 0) line = ([], r.setLast 0)
  only : OnlyAtEnd (prompt ash) (Tty.echo false (line ++ [CR]) ++ Tty.cook [] ++ prompt ash)

theorem plainCmds_noop {ash : Bool} : ∀ (ls : List Bytes) (w : World), (∀ l ∈ ls, NoopLine ash l) → InSync ash w →
    ∃ w', plainCmds ls w = (.ok (), w') ∧ InSync ash w' ∧ w'.rem.frames = w.rem.frames ∧ w'.oracle = w.oracle := by
  intro ls
  induction ls with
  | nil => intro w _ hs; exact ⟨w, rfl, hs, rfl, rfl⟩
  | cons l ls ih =>
    intro w hall hs
    have hn := hall l (by simp)
    obtain ⟨f, fs, hf, hp⟩ := hs.shows
    have hl : Lands ash (w.rem.setLast 0) := lands_same 0 w.rem.seen hs.remAsh hs.alive hs.ps1 (Nat.zero_lt_succ _)
    have ha : Answers (prompt ash) w.rem ([], 0) l [] (w.rem.setLast 0) :=
      answers_of_step hs.shows hn.clean (hn.step w.rem f fs hf) hl.shows
    obtain ⟨w1, hrun, hs1, hrem1, hor1⟩ := plainCmd_ok w hs hn.clean ha hl hn.only
    obtain ⟨w', hrun', hs', hfr', hor'⟩ := ih w1 (fun x hx => hall x (by simp [hx])) hs1
    refine ⟨w', ?_, hs', by rw [hfr', hrem1]; rfl, by rw [hor', hor1]⟩
    unfold plainCmds
    rw [hrun]
    exact hrun'

/-! #### the digits of the terminal size -/

theorem decN_digits : ∀ (f n : Nat) (c : Byte), c ∈ decN f n → 48 ≤ c.toNat ∧ c.toNat ≤ 57 := by
  intro f
  induction f with
  | zero => intro n c h; simp [decN] at h
  | succ f ih =>
    intro n c h
    unfold decN at h
    split at h
    · rename_i hlt
      simp only [List.mem_singleton] at h
      subst h
      rw [EnvUtf8.toNat_ofNat_lt _ (by omega)]; omega
    · simp only [List.mem_append, List.mem_singleton] at h
      rcases h with h | h
      · exact ih _ c h
      · subst h
        rw [EnvUtf8.toNat_ofNat_lt _ (by omega)]; omega

theorem dec_ne_nil (n : Nat) : dec n ≠ [] := by
  unfold dec decN
  split <;> simp

theorem digit_facts (ash : Bool) (c : Byte) (h : 48 ≤ c.toNat ∧ c.toNat ≤ 57) :
    safeByte c = true ∧ okByte (blacklist ash) c = true ∧ c ≠ 84 ∧ c ≠ Tty.CR ∧ c ≠ Tty.LF := by
  have key := byte_forall (fun c => !(decide (48 ≤ c.toNat) && decide (c.toNat ≤ 57)) ||
    (safeByte c && okByte (blacklist ash) c && (c != 84) && (c != Tty.CR) && (c != Tty.LF)))
    (by cases ash <;> decide +kernel) c
  simp only [h.1, h.2, decide_true, Bool.and_self, Bool.not_true, Bool.false_or, Bool.and_eq_true, bne_iff_ne, ne_eq] at key
  exact ⟨key.1.1.1.1, key.1.1.1.2, key.1.1.2, key.1.2, key.2⟩

/-- `stty <what> <n>` -/
theorem noop_stty (ash : Bool) (what : Bytes) (n : Nat)
    (hwhat : what = b!"cols" ∨ what = b!"rows") :
    NoopLine ash (b!"stty " ++ what ++ b!" " ++ dec n) := by
  have hd : ∀ c ∈ dec n, 48 ≤ c.toNat ∧ c.toNat ≤ 57 := decN_digits _ _
  have hsafe : (dec n).all safeByte = true := List.all_eq_true.mpr fun c hc => (digit_facts ash c (hd c hc)).1
  have hq : shlexQuote (dec n) = dec n := by
    unfold shlexQuote
    have : (dec n).isEmpty = false := by
      cases h : dec n with
      | nil => exact absurd h (dec_ne_nil n)
      | cons _ _ => rfl
    simp [this, hsafe]
  have hcld : clean (blacklist ash) (dec n) = true :=
    List.all_eq_true.mpr fun c hc => (digit_facts ash c (hd c hc)).2.1
  have q1 : shlexQuote b!"stty" = b!"stty" := by decide
  have q2 : shlexQuote b!"cols" = b!"cols" := by decide
  have q3 : shlexQuote b!"rows" = b!"rows" := by decide
  have hline : b!"stty " ++ what ++ b!" " ++ dec n = escape [b!"stty", what, dec n] := by
    rcases hwhat with rfl | rfl <;> simp [escape, joinSp, hq, q1, q2, q3, SP]
  have hclw : clean (blacklist ash) what = true := by
    rcases hwhat with rfl | rfl <;> cases ash <;> decide
  have hcls : clean (blacklist ash) b!"stty" = true := by cases ash <;> decide
  refine ⟨?_, ?_, ?_⟩
  · rw [hline]
    exact clean_escape _ (by
      intro x hx
      simp only [List.mem_cons, List.mem_nil_iff, or_false] at hx
      rcases hx with rfl | rfl | rfl
      · exact hcls
      · exact hclw
      · exact hcld)
  · intro r f fs hf
    rw [hline, step_escape r f fs _ _ hf (by simp)]
    simp [builtin]
  · apply onlyAtEnd_prompt
    have hplain : ∀ c ∈ b!"stty " ++ what ++ b!" " ++ dec n, c ≠ 84 ∧ c ≠ Tty.CR ∧ c ≠ Tty.LF := by
      intro c hc
      simp only [List.mem_append] at hc
      rcases hc with ((hc | hc) | hc) | hc
      · revert c; decide
      · rcases hwhat with rfl | rfl <;> (revert c; decide)
      · revert c; decide
      · exact (digit_facts ash c (hd c hc)).2.2
    rw [Tty.echo_append, Tty.echo_noctl_of_plain _ (fun c hc => (hplain c hc).2)]
    intro hm
    simp only [Tty.cook, List.flatMap_nil, List.append_nil] at hm
    rcases List.mem_append.mp hm with hm | hm
    · exact (hplain 84 hm).1 rfl
    · revert hm; decide

theorem noop_closed (ash : Bool) :
    NoopLine ash b!"unset HISTFILE" ∧ NoopLine ash editLine ∧ NoopLine ash b!"PS2=''"
      ∧ NoopLine ash b!"histchars=''" ∧ NoopLine ash b!"stty cols 1024" ∧ NoopLine ash b!"stty -echoctl" := by
  have mk : ∀ (line : Bytes), clean (blacklist ash) line = true →
      (∀ env, ∃ ws, wordsX env (line.length + 1) line = some ws ∧
        ∀ (r : Remote) (f : Frame) (fs : List Frame), builtin r f fs ([], 0) ws = ([], r.setLast 0)) →
      line.isEmpty = false →
      noEarly (prompt ash) (Tty.echo false (line ++ [CR]) ++ Tty.cook []) = true → NoopLine ash line := by
    intro line hc hw he hn
    refine ⟨hc, ?_, ?_⟩
    · intro r f fs hf
      obtain ⟨ws, hws, hb⟩ := hw f.env
      unfold step
      rw [hf]
      simp only [he, Bool.false_eq_true, if_false, hws, hb]
    · have := noEarly_sound hn
      simpa [List.append_assoc] using this
  refine ⟨?_, ?_, ?_, ?_, ?_, ?_⟩
  · exact mk _ (by cases ash <;> decide) (fun env => ⟨[b!"unset", b!"HISTFILE"], rfl, fun r f fs => rfl⟩) rfl
      (by cases ash <;> decide +kernel)
  · refine ⟨by cases ash <;> decide, ?_, ?_⟩
    · intro r f fs hf; exact step_edit r f fs _ hf
    · have : noEarly (prompt ash) (Tty.echo false (editLine ++ [CR]) ++ Tty.cook []) = true := by
        cases ash <;> decide +kernel
      have := noEarly_sound this
      simpa [List.append_assoc] using this
  · exact mk _ (by cases ash <;> decide) (fun env => ⟨[b!"PS2="], rfl, fun r f fs => rfl⟩) rfl
      (by cases ash <;> decide +kernel)
  · exact mk _ (by cases ash <;> decide) (fun env => ⟨[b!"histchars="], rfl, fun r f fs => rfl⟩) rfl
      (by cases ash <;> decide +kernel)
  · exact mk _ (by cases ash <;> decide) (fun env => ⟨[b!"stty", b!"cols", b!"1024"], rfl, fun r f fs => rfl⟩) rfl
      (by cases ash <;> decide +kernel)
  · exact mk _ (by cases ash <;> decide) (fun env => ⟨[b!"stty", b!"-echoctl"], rfl, fun r f fs => rfl⟩) rfl
      (by cases ash <;> decide +kernel)

theorem initLines_noop (ash : Bool) (cols rows : Nat) : ∀ l ∈ initLines ash cols rows, NoopLine ash l := by
  obtain ⟨h1, h2, h3, h4, h5, h6⟩ := noop_closed ash
  intro l hl
  cases ash with
  | true =>
    simp only [initLines, if_true, List.mem_cons, List.mem_nil_iff, or_false] at hl
    rcases hl with rfl | rfl | rfl | rfl
    · exact h1
    · exact h5
    · exact h3
    · exact h6
  | false =>
    simp only [initLines, Bool.false_eq_true, if_false, List.mem_cons, List.mem_nil_iff, or_false] at hl
    rcases hl with rfl | rfl | rfl | rfl | rfl | rfl | rfl
    · exact h1
    · exact h2
    · exact h3
    · exact h4
    · exact noop_stty false b!"cols" _ (Or.inl rfl)
    · exact noop_stty false b!"rows" _ (Or.inr rfl)
    · exact h6

/-- what comes back for the spawn command, and for `echo TBOT\LOGIN` in the new shell -/
def R1 (ash : Bool) : Bytes := Tty.echo false (spawnLine ash ++ [CR]) ++ Tty.cook [] ++ defaultPs1
def R2 : Bytes := Tty.echo false (waitLine ++ [CR]) ++ Tty.cook b!"TBOTLOGIN\n" ++ defaultPs1

/-- closed facts about the fixed lines of `subshell()` / `_init_shell` (both shells) -/
theorem enter_facts (ash : Bool) :
    escape (spawnWords ash) = spawnLine ash ∧ clean (blacklist ash) (spawnLine ash) = true
    ∧ clean (blacklist ash) waitLine = true ∧ clean (blacklist ash) (ps1Line (prompt ash)) = true
    ∧ containsSub b!"TBOTLOGIN" (R1 ash ++ R2) = true
    ∧ noEarly (prompt ash) ((R1 ash ++ R2) ++ (Tty.echo false (ps1Line (prompt ash) ++ [CR]) ++ Tty.cook [])) = true
    ∧ escape [b!"echo", b!"TBOT-SANITY-CHECK"] = sanityLine ∧ clean (blacklist ash) sanityLine = true
    ∧ text (Tty.cook (echoOut ash [b!"TBOT-SANITY-CHECK"])) = sanityText
    ∧ noEarly (prompt ash) (Tty.cook (echoOut ash [b!"TBOT-SANITY-CHECK"])) = true := by
  cases ash <;> decide +kernel

theorem step_ps1 (ash : Bool) (r : Remote) (f : Frame) (fs : List Frame) (ext : Bytes × Nat) (hf : r.frames = f :: fs) :
    step r ext (ps1Line (prompt ash))
      = ([], { r with frames := { f with ps1 := prompt ash } :: fs, last := 0 }) := by
  cases ash
  · unfold step
    rw [hf]
    have h1 : wordsX f.env ((ps1Line (prompt false)).length + 1) (ps1Line (prompt false)) = none := by rfl
    simp only [h1]
    rfl
  · unfold step
    rw [hf]
    have h1 : wordsX f.env ((ps1Line (prompt true)).length + 1) (ps1Line (prompt true)) = none := by rfl
    simp only [h1]
    rfl

/-- `shell_sanity_check` in sync -/
theorem sanityCheck_ok {ash : Bool} (w : World) (hs : InSync ash w) :
    ∃ w', sanityCheck w = (.ok (), w') ∧ InSync ash w' ∧ w'.rem.frames = w.rem.frames ∧ w'.oracle = w.oracle := by
  obtain ⟨_, _, _, _, _, _, hescS, hclSan, htext, hneSan⟩ := enter_facts ash
  obtain ⟨f, fs, hf, hp⟩ := hs.shows
  have hl : Lands ash (w.rem.setLast 0) := lands_same 0 w.rem.seen hs.remAsh hs.alive hs.ps1 (Nat.zero_lt_succ _)
  have hb : builtin w.rem f fs ([], 0) [b!"echo", b!"TBOT-SANITY-CHECK"]
      = (echoOut ash [b!"TBOT-SANITY-CHECK"], w.rem.setLast 0) := by
    rw [builtin_echo, hs.remAsh]
  have ha : Answers (prompt ash) w.rem ([], 0) sanityLine (echoOut ash [b!"TBOT-SANITY-CHECK"]) (w.rem.setLast 0) := by
    rw [← hescS]
    refine answers_escape hf hp (by simp) ?_ hb hl.shows
    intro x hx
    simp only [List.mem_cons, List.mem_nil_iff, or_false] at hx
    rcases hx with rfl | rfl <;> cases ash <;> decide
  obtain ⟨w1, hsl, hrem1, hor1, hq1, hsame1, hflat1⟩ := sendlineR_rb_ok w hs (clean_forbidden hclSan) ha
  obtain ⟨ch2, hrup, hsc2, hsame2⟩ := rup_ok (prompt ash) _ w1.ch hq1 (prompt_ne ash)
    (by rw [hsame1.prompt, hs.chPrompt]) hflat1 (noEarly_sound hneSan)
  have hsame := hsame1.trans hsame2
  refine ⟨{ w1 with ch := ch2 }, ?_, ?_, by show w1.rem.frames = _; rw [hrem1]; rfl, hor1⟩
  · unfold sanityCheck
    rw [hsl]
    simp only [hrup, List.length_append, Nat.add_sub_cancel, List.take_left', htext, beq_self_eq_true, if_true]
  · exact {
      quiet := quiet_of_nil hs.quiet hsame hsc2
      script := hsc2
      chPrompt := by show ch2.prompt = _; rw [hsame.prompt, hs.chPrompt]
      chBl := by show ch2.blacklist = _; rw [hsame.blacklist, hs.chBl]
      remAsh := by show w1.rem.ash = _; rw [hrem1]; exact hl.remAsh
      alive := by show w1.rem.frames.isEmpty = _; rw [hrem1]; exact hl.alive
      ps1 := by show ∀ f ∈ w1.rem.frames, _; rw [hrem1]; exact hl.ps1
      last := by show w1.rem.last < 256; rw [hrem1]; exact hl.last }

end Env
