import TbotVerif.Model.Env
import TbotVerif.Props.EnvChan
/-! The shell drivers against the reactive remote: one command, in sync before and after.

    `InSync`: the channel is quiet and has nothing pending, its prompt and black-list are the
    driver's, every shell of the remote's nesting shows that prompt.  `Answers`: what the remote
    does with one line.  `exec_ok` (DESIGN C01 T4 in the reactive setting): for EVERY
    fragmentation oracle, `exec` returns exactly the program's status and cooked output and the
    world is in sync again. -/

namespace Env
open Chan EnvChan

/-! ### the fragmentation oracle -/

theorem cutBy2_flat : ∀ (ns : List Nat) (b : Bytes), (cutBy2 ns b).1.flatten = b := by
  intro ns
  induction ns with
  | nil => intro b; cases b <;> simp [cutBy2]
  | cons n ns ih =>
    intro b
    cases b with
    | nil => simp [cutBy2]
    | cons c cs =>
      unfold cutBy2
      split
      · exact ih _
      · simp only [List.flatten_cons, ih, List.take_append_drop]

theorem cutBy2_ne : ∀ (ns : List Nat) (b : Bytes), ∀ p ∈ (cutBy2 ns b).1, p ≠ [] := by
  intro ns
  induction ns with
  | nil => intro b; cases b <;> simp [cutBy2]
  | cons n ns ih =>
    intro b
    cases b with
    | nil => simp [cutBy2]
    | cons c cs =>
      unfold cutBy2
      split
      · exact ih _
      · rename_i hn
        intro p hp
        simp only [List.mem_cons] at hp
        rcases hp with rfl | hp
        · cases n with
          | zero => exact absurd rfl hn
          | succ k => simp
        · exact ih _ p hp

theorem flat_append (a b : List Piece) : flat (a ++ b) = flat a ++ flat b := by
  simp [flat]

theorem flat_toScript (ps : List Bytes) : flat (Shell.toScript ps) = ps.flatten := by
  simp [flat, Shell.toScript, Function.comp_def]

theorem toScript_tick (ps : List Bytes) : ∀ q ∈ Shell.toScript ps, q.tick = 0 := by
  intro q hq
  simp only [Shell.toScript, List.mem_map] at hq
  obtain ⟨d, _, rfl⟩ := hq
  rfl

theorem toScript_wf (ps : List Bytes) (h : ∀ p ∈ ps, p ≠ []) : ∀ q ∈ Shell.toScript ps, q.data ≠ [] := by
  intro q hq
  simp only [Shell.toScript, List.mem_map] at hq
  obtain ⟨d, hd, rfl⟩ := hq
  exact h d hd

/-! ### what the remote does with one line -/

/-- the shell in front reads `line`, prints `out`, and the shell then in front (state `r'`) shows
    the prompt `P` -/
structure Answers (P : Bytes) (r : Remote) (ext : Bytes × Nat) (line out : Bytes) (r' : Remote) : Prop where
  alive : r.frames.isEmpty = false
  step : step r ext (Tty.input line) = (out, r')
  ps1 : ∃ f fs, r'.frames = f :: fs ∧ f.ps1 = P

theorem Answers.respond {P : Bytes} {r : Remote} {ext : Bytes × Nat} {line out : Bytes} {r' : Remote}
    (h : Answers P r ext line out r') :
    respond r ext line = (Tty.echo false (line ++ [CR]) ++ Tty.cook out ++ P, r') := by
  obtain ⟨f, fs, hf, hp⟩ := h.ps1
  unfold Env.respond
  simp only [h.alive, Bool.false_eq_true, if_false, h.step, hf, hp]

/-- the world after `feed`: the answer is pending, cut somehow -/
theorem feed_spec {P : Bytes} {ext : Bytes × Nat} {line out : Bytes} {r' : Remote} (w : World)
    (hfb : forbidden w.ch.blacklist (line ++ [CR]) = false) (h : Answers P w.rem ext line out r') :
    (feed line ext w).rem = r'
      ∧ flat (feed line ext w).ch.script = flat w.ch.script ++ (Tty.echo false (line ++ [CR]) ++ Tty.cook out ++ P)
      ∧ (WF w.ch → WF (feed line ext w).ch) ∧ Same w.ch (feed line ext w).ch
      ∧ ((∀ q ∈ w.ch.script, q.tick = 0) → ∀ q ∈ (feed line ext w).ch.script, q.tick = 0)
      ∧ (feed line ext w).oracle = w.oracle := by
  obtain ⟨c, hc⟩ : ∃ c, c = cutBy2 w.cuts (Tty.echo false (line ++ [CR]) ++ Tty.cook out ++ P) := ⟨_, rfl⟩
  have hfeed : feed line ext w =
      { w with ch := { w.ch with script := w.ch.script ++ Shell.toScript c.1 }, rem := r', cuts := c.2 } := by
    unfold feed
    simp only [hfb, Bool.false_eq_true, if_false, h.respond, hc]
  rw [hfeed]
  refine ⟨rfl, ?_, ?_, ⟨rfl, rfl, rfl, rfl, rfl, rfl, rfl⟩, ?_, rfl⟩
  · show flat (w.ch.script ++ _) = _
    rw [flat_append, flat_toScript, hc, cutBy2_flat]
  · intro hwf q hq
    have hq' : q ∈ w.ch.script ++ Shell.toScript c.1 := hq
    simp only [List.mem_append] at hq'
    rcases hq' with hq' | hq'
    · exact hwf q hq'
    · exact toScript_wf _ (by rw [hc]; exact cutBy2_ne _ _) q hq'
  · intro ht q hq
    have hq' : q ∈ w.ch.script ++ Shell.toScript c.1 := hq
    simp only [List.mem_append] at hq'
    rcases hq' with hq' | hq'
    · exact ht q hq'
    · exact toScript_tick _ q hq'

theorem feed_forbidden (line : Bytes) (ext : Bytes × Nat) (w : World)
    (hfb : forbidden w.ch.blacklist (line ++ [CR]) = true) : feed line ext w = w := by
  unfold feed; simp [hfb]

/-! ### in sync -/

structure InSync (ash : Bool) (w : World) : Prop where
  quiet : Quiet w.ch
  script : w.ch.script = []
  chPrompt : w.ch.prompt = some (.lit (prompt ash))
  chBl : w.ch.blacklist = blacklist ash
  remAsh : w.rem.ash = ash
  alive : w.rem.frames.isEmpty = false
  ps1 : ∀ f ∈ w.rem.frames, f.ps1 = prompt ash
  last : w.rem.last < 256

theorem prompt_ne (ash : Bool) : prompt ash ≠ [] := by cases ash <;> simp [prompt, Params.ashPrompt, Params.bashPrompt]

/-- first byte of both prompts (`T`) -/
theorem prompt_head (ash : Bool) : ∃ t, prompt ash = 84 :: t := by
  cases ash
  · exact ⟨_, rfl⟩
  · exact ⟨_, rfl⟩

/-- a prompt that starts with a byte which does not occur in `pre` ends `pre ++ prompt` and
    nothing shorter -/
theorem onlyAtEnd_of_head (c : Byte) (t pre : Bytes) (hc : c ∉ pre) : OnlyAtEnd (c :: t) (pre ++ c :: t) := by
  refine ⟨List.suffix_append _ _, ?_⟩
  intro k hk hle hsuf
  apply Decidable.byContradiction
  intro hne
  have hlt : k < (pre ++ c :: t).length := by omega
  obtain ⟨u, hu⟩ := hsuf
  -- the occurrence starts inside `pre`
  have hlen : u.length + (t.length + 1) = k := by
    have := congrArg List.length hu
    rw [List.length_append, List.length_take, Nat.min_eq_left hle] at this
    simpa using this
  have hul : u.length < pre.length := by
    simp only [List.length_append, List.length_cons] at hlt; omega
  have hget : (List.take k (pre ++ c :: t))[u.length]? = some c := by
    rw [← hu]; simp
  rw [List.getElem?_take_of_lt (by omega), List.getElem?_append_left hul] at hget
  exact hc (List.mem_of_getElem? hget)

theorem onlyAtEnd_prompt (ash : Bool) (pre : Bytes) (h : (84 : Byte) ∉ pre) :
    OnlyAtEnd (prompt ash) (pre ++ prompt ash) := by
  obtain ⟨t, ht⟩ := prompt_head ash
  rw [ht]; exact onlyAtEnd_of_head 84 t pre h

/-- any suffix of a stream with the prompt only at its end has the prompt only at its end -/
theorem OnlyAtEnd.suffix {p a w : Bytes} (h : OnlyAtEnd p (a ++ w)) (hp : p.length ≤ w.length) : OnlyAtEnd p w := by
  obtain ⟨hs, ho⟩ := h
  refine ⟨?_, ?_⟩
  · obtain ⟨u, hu⟩ := hs
    -- p is a suffix of a ++ w and not longer than w
    have hdrop : w.drop (w.length - p.length) = p := by
      have h1 : (a ++ w).drop ((a ++ w).length - p.length) = p := by
        rw [← hu]; simp
      have h2 : (a ++ w).drop ((a ++ w).length - p.length) = w.drop (w.length - p.length) := by
        simp only [List.length_append]
        rw [show a.length + w.length - p.length = a.length + (w.length - p.length) by omega,
          List.drop_length_add_append]
      rw [← h2]; exact h1
    exact hdrop ▸ List.drop_suffix _ _
  · intro k hk hle hsuf
    have := ho (a.length + k) (by omega) (by simp only [List.length_append]; omega)
      (by
        rw [List.take_length_add_append]
        obtain ⟨u, hu⟩ := hsuf
        exact ⟨a ++ u, by rw [List.append_assoc, hu]⟩)
    simp only [List.length_append] at this; omega

/-- `sendline(line, read_back=True)` in sync: the line is written, its echo consumed; the
    program's cooked output and the prompt are pending -/
theorem sendlineR_rb_ok {ash : Bool} {ext : Bytes × Nat} {line out : Bytes} {r' : Remote} (w : World)
    (hs : InSync ash w) (hfb : forbidden (blacklist ash) (line ++ [CR]) = false)
    (ha : Answers (prompt ash) w.rem ext line out r') :
    ∃ w1, sendlineR line true ext w = (.ok (), w1) ∧ w1.rem = r' ∧ w1.oracle = w.oracle
      ∧ Quiet w1.ch ∧ Same w.ch w1.ch ∧ flat w1.ch.script = Tty.cook out ++ prompt ash := by
  have hfb' : forbidden w.ch.blacklist (line ++ [CR]) = false := by rw [hs.chBl]; exact hfb
  obtain ⟨hrem, hflat, hwf, hsame, _, hor⟩ := feed_spec w hfb' ha
  have hq1 : Quiet (feed line ext w).ch := hs.quiet.of_same hsame (hwf hs.quiet.wf)
  have hflat1 : flat (feed line ext w).ch.script
      = Tty.echo false (line ++ [13]) ++ (Tty.cook out ++ prompt ash) := by
    rw [hflat, hs.script]; simp [flat, CR]
  obtain ⟨s2, hsl, hrest, hsame2, hwf2⟩ := sendline_rb line (feed line ext w).ch _ hq1
    (by rw [hsame.blacklist]; exact hfb') hflat1
  refine ⟨{ (feed line ext w) with ch := s2 }, ?_, hrem, hor, hq1.of_same hsame2 hwf2, hsame.trans hsame2, hrest⟩
  unfold sendlineR; simp only [hsl]

/-- `sendline(line)` (no read-back) in sync: the line is written; echo, cooked output and prompt
    are pending -/
theorem sendlineR_plain_ok {ash : Bool} {P : Bytes} {ext : Bytes × Nat} {line out : Bytes} {r' : Remote} (w : World)
    (hq : Quiet w.ch) (hbl : w.ch.blacklist = blacklist ash)
    (hfb : forbidden (blacklist ash) (line ++ [CR]) = false)
    (ha : Answers P w.rem ext line out r') :
    ∃ w1, sendlineR line false ext w = (.ok (), w1) ∧ w1.rem = r' ∧ w1.oracle = w.oracle
      ∧ Quiet w1.ch ∧ Same w.ch w1.ch
      ∧ flat w1.ch.script = flat w.ch.script ++ (Tty.echo false (line ++ [CR]) ++ Tty.cook out ++ P)
      ∧ ((∀ q ∈ w.ch.script, q.tick = 0) → ∀ q ∈ w1.ch.script, q.tick = 0) := by
  have hfb' : forbidden w.ch.blacklist (line ++ [CR]) = false := by rw [hbl]; exact hfb
  obtain ⟨hrem, hflat, hwf, hsame, htick, hor⟩ := feed_spec w hfb' ha
  have hq1 : Quiet (feed line ext w).ch := hq.of_same hsame (hwf hq.wf)
  obtain ⟨s2, hsl, hsc2, hsame2⟩ := sendline_plain line (feed line ext w).ch hq1
    (by rw [hsame.blacklist]; exact hfb')
  have hwf2 : WF s2 := by unfold WF; rw [hsc2]; exact hq1.wf
  refine ⟨{ (feed line ext w) with ch := s2 }, ?_, hrem, hor, hq1.of_same hsame2 hwf2, hsame.trans hsame2,
    by show flat s2.script = _; rw [hsc2]; exact hflat, fun ht => by show ∀ q ∈ s2.script, _; rw [hsc2]; exact htick ht⟩
  unfold sendlineR; simp only [hsl]

/-- a line with a black-listed byte: `IllegalDataException`, and NOTHING has happened — neither to
    the channel nor to the remote -/
theorem sendlineR_illegal (line : Bytes) (rb : Bool) (ext : Bytes × Nat) (w : World)
    (hfb : forbidden w.ch.blacklist (line ++ [CR]) = true) :
    sendlineR line rb ext w = (.error .illegal, w) := by
  simp only [sendlineR, feed_forbidden line ext w hfb, sendline_illegal line rb w.ch hfb]

theorem streamEnter_same (id : Nat) (sp : Bool) (s : St) :
    Same s (streamEnter id sp s).2 ∧ (streamEnter id sp s).2.script = s.script := ⟨⟨rfl, rfl, rfl, rfl, rfl, rfl, rfl⟩, rfl⟩

theorem streamExit_same (id : Nat) (prev : Bool) (s : St) :
    Same s (streamExit id prev s) ∧ (streamExit id prev s).script = s.script := ⟨⟨rfl, rfl, rfl, rfl, rfl, rfl, rfl⟩, rfl⟩

end Env
